(* C05: where debts (CancelScope._pending_uncancellations) can sit.
   DBH: a scope without host owes nothing, and a scope that owes something is cancelled itself or has a
   cancelled ancestor (parent links, shields ignored).  One step preserves it in every state with the structural
   invariant whose queued delivery callbacks belong to cancelled scopes (HdInv shows that they always do). *)
From Coq Require Import ZArith Lia.
From AV Require Import Base Machine ScopeFrames DeliverInv TreeInv DeliverAlive PotentialInv TreeStep KernelInv.

Record DBH (s : st) : Prop := {
  db_un : forall x, s_host (scopes s x) = None -> s_pending (scopes s x) = 0;
  db_w : forall x, 0 < s_pending (scopes s x) -> exists y, anc s y x /\ s_cancelled (scopes s y) = true
}.

(* steps that keep links, hosts and debts and never un-cancel *)
Record dbm (a b : st) : Prop := {
  dm_par : forall x, s_parent (scopes b x) = s_parent (scopes a x);
  dm_host : forall x, s_host (scopes b x) = s_host (scopes a x);
  dm_pend : forall x, s_pending (scopes b x) = s_pending (scopes a x);
  dm_canc : forall x, s_cancelled (scopes a x) = true -> s_cancelled (scopes b x) = true
}.

Lemma dbm_refl a : dbm a a.
Proof. constructor; auto. Qed.

Lemma dbm_trans a b c : dbm a b -> dbm b c -> dbm a c.
Proof.
  intros H1 H2. constructor; intros x.
  - now rewrite (dm_par _ _ H2), (dm_par _ _ H1).
  - now rewrite (dm_host _ _ H2), (dm_host _ _ H1).
  - now rewrite (dm_pend _ _ H2), (dm_pend _ _ H1).
  - intros H. apply H2, H1, H.
Qed.

Lemma anc_par a b y x : (forall z, s_parent (scopes b z) = s_parent (scopes a z)) -> anc a y x -> anc b y x.
Proof.
  intros E H. induction H as [|x p Ep H IH]; [apply anc_here|]. eapply anc_up; [|exact IH]. now rewrite E.
Qed.

Lemma DBH_dbm a b : DBH a -> dbm a b -> DBH b.
Proof.
  intros [U W] M. constructor.
  - intros x. rewrite (dm_host _ _ M), (dm_pend _ _ M). apply U.
  - intros x. rewrite (dm_pend _ _ M). intros H. destruct (W x H) as [y [A C]]. exists y. split.
    + apply (anc_par a b); [apply M|exact A].
    + now apply M.
Qed.

Definition dbstep (a b : st) : Prop := DBH a -> DBH b.

Lemma dbstep_dbm a b : dbm a b -> dbstep a b.
Proof. intros M D. now apply (DBH_dbm a). Qed.

Lemma dbstep_refl a : dbstep a a.
Proof. intros D; exact D. Qed.

Lemma dbstep_trans a b c : dbstep a b -> dbstep b c -> dbstep a c.
Proof. intros H1 H2 D. apply H2, H1, D. Qed.

Lemma dbm_same_scopes a b : scopes b = scopes a -> dbm a b.
Proof. intros E. constructor; intros x; rewrite E; auto. Qed.

Lemma dbm_of a b : treq a b -> inert a b ->
  (forall x, s_cancelled (scopes a x) = true -> s_cancelled (scopes b x) = true) -> dbm a b.
Proof.
  intros K I C. constructor; [intros x; apply (tq_parent _ _ K)|intros x; apply (tq_host _ _ K)| |exact C].
  intros x. apply (ac_pending _ _ (in_scope _ _ I x)).
Qed.

Lemma dbm_dq a b : treq a b -> inert a b -> dq a b -> dbm a b.
Proof. intros K I Q. apply dbm_of; auto. intros x H. now rewrite (vw_cancelled _ _ (dq_scope _ _ Q x)). Qed.

Lemma dbm_upd_scope s c g :
  (forall k, s_parent (g k) = s_parent k /\ s_host (g k) = s_host k /\ s_pending (g k) = s_pending k /\
             (s_cancelled k = true -> s_cancelled (g k) = true)) -> dbm s (upd_scope s c g).
Proof.
  intros Hg. constructor; intros x; cbn; unfold upd; destruct (Nat.eqb_spec x c); try subst; auto; apply Hg.
Qed.

(* ---------------- a delivery ---------------- *)
Lemma deliver_inv (P : st -> Prop) origin :
  (forall self a r t, P a -> P (fst (deliver_task self origin (a, r) t))) ->
  (forall a c b, P a -> P (upd_scope a c (sc_chandle b))) ->
  (forall a h, P a -> P (call_soon a h)) ->
  forall fu a self, P a -> P (fst (deliver fu a self origin)).
Proof.
  intros H1 H2 H3. induction fu as [|fu IH]; intros a self Pa; [exact Pa|]. rewrite deliver_unfold.
  assert (F1 : forall l b r, P b -> P (fst (fold_left (deliver_task self origin) l (b, r)))).
  { induction l as [|t l IHl]; intros b r Pb; cbn [fold_left]; [exact Pb|].
    pose proof (H1 self b r t Pb) as Q. destruct (deliver_task self origin (b, r) t) as [b1 r1]. now apply IHl. }
  pose proof (F1 (s_tasks (scopes a self)) a false Pa) as P1.
  destruct (fold_left (deliver_task self origin) (s_tasks (scopes a self)) (a, false)) as [s1 r1]. cbn [fst] in P1.
  assert (F2 : forall l b r, P b -> P (fst (fold_left (dstep fu origin) l (b, r)))).
  { induction l as [|c l IHl]; intros b r Pb; cbn [fold_left]; [exact Pb|].
    assert (Q : P (fst (dstep fu origin (b, r) c))).
    { unfold dstep. destruct (negb (s_shield (scopes b c)) && negb (s_cancelled (scopes b c))); [|exact Pb].
      pose proof (IH b c Pb) as Q. destruct (deliver fu b c origin) as [b' r']. exact Q. }
    destruct (dstep fu origin (b, r) c) as [b1 r1']. now apply IHl. }
  pose proof (F2 (s_children (scopes s1 self)) s1 r1 P1) as P2.
  destruct (fold_left (dstep fu origin) (s_children (scopes s1 self)) (s1, r1)) as [s2 r2]. cbn [fst] in P2.
  destruct (Nat.eqb origin self); [|exact P2]. destruct r2; cbn [fst]; [apply H3, H2, P2|apply H2, P2].
Qed.

Lemma DB_deliver_top s c : s_cancelled (scopes s c) = true -> dbstep s (deliver_top s c).
Proof.
  intros Hc D. unfold deliver_top.
  apply (deliver_inv (fun a => DBH a /\ s_cancelled (scopes a c) = true) c); [| | |now split].
  - intros self a r t [Da Ca].
    pose proof (kframe_deliver_task self c a r t) as K.
    pose proof (deliver_task_acct self c a r t) as St.
    set (a' := fst (deliver_task self c (a, r) t)) in *.
    assert (Ep : forall x, s_parent (scopes a' x) = s_parent (scopes a x)) by (intros x; apply (core_parent _ _ (kf_scopes _ _ K x))).
    assert (Eh : forall x, s_host (scopes a' x) = s_host (scopes a x)) by (intros x; apply (core_host _ _ (kf_scopes _ _ K x))).
    assert (Ec : forall x, s_cancelled (scopes a' x) = s_cancelled (scopes a x)) by (intros x; apply (core_cancelled _ _ (kf_scopes _ _ K x))).
    split; [|now rewrite Ec].
    destruct St as [I|[_ [_ [_ [_ Epd]]]]].
    + apply (DBH_dbm a); [exact Da|]. constructor; auto.
      * intros x. apply (ac_pending _ _ (in_scope _ _ I x)).
      * intros x. now rewrite Ec.
    + constructor.
      * intros x Hx. rewrite Eh in Hx. rewrite Epd.
        destruct (Nat.eqb_spec x c) as [->|Hne]; cbn [andb]; [|now apply Da].
        rewrite Hx. cbn [opt_eqb]. now apply Da.
      * intros x. rewrite Epd. destruct (Nat.eqb_spec x c) as [->|Hne]; cbn [andb].
        -- intros _. exists c. split; [apply anc_here|now rewrite Ec].
        -- intros H. destruct (db_w _ Da x H) as [y [A C]]. exists y. split; [now apply (anc_par a)|now rewrite Ec].
  - intros a x b [Da Ca]. split.
    + apply (DBH_dbm a); [exact Da|]. apply dbm_upd_scope. intros k; now repeat split.
    + cbn. unfold upd. destruct (Nat.eqb_spec c x); [subst|]; exact Ca.
  - intros a h [Da Ca]. split; [|exact Ca]. apply (DBH_dbm a); [exact Da|now apply dbm_same_scopes].
Qed.

Lemma DB_restart s x : dbstep s (restart s x).
Proof.
  unfold restart. generalize (nscope s) as fuel. intros fuel. revert x.
  induction fuel as [|fu IH]; intros x; cbn [restart_from]; [apply dbstep_refl|].
  destruct x as [c|]; [|apply dbstep_refl].
  destruct (s_cancelled (scopes s c)) eqn:Ec.
  - destruct (s_chandle (scopes s c)); [apply dbstep_refl|now apply DB_deliver_top].
  - destruct (s_shield (scopes s c)); [apply dbstep_refl|apply IH].
Qed.

Lemma dbm_cancel_timeout s c : dbm s (cancel_timeout s c).
Proof. apply dbm_dq; [apply treq_cancel_timeout|apply inert_cancel_timeout|apply dq_cancel_timeout]. Qed.

Lemma DB_scope_cancel s c b : dbstep s (scope_cancel s c b).
Proof.
  unfold scope_cancel. destruct (s_cancelled (scopes s c)); [apply dbstep_refl|].
  set (s2 := upd_scope (cancel_timeout s c) c (fun x => sc_bydeadline b (sc_cancelled true x))).
  assert (M : dbm s s2).
  { eapply dbm_trans; [apply dbm_cancel_timeout|]. apply dbm_upd_scope. intros k. now repeat split. }
  assert (C2 : s_cancelled (scopes s2 c) = true) by (unfold s2; cbn; unfold upd; now rewrite Nat.eqb_refl).
  destruct (s_host (scopes s2 c)); [|now apply dbstep_dbm].
  eapply dbstep_trans; [apply dbstep_dbm, M|now apply DB_deliver_top].
Qed.

Lemma DB_scope_timeout s c : dbstep s (scope_timeout s c).
Proof.
  unfold scope_timeout. destruct (s_deadline (scopes s c)); [|apply dbstep_refl].
  destruct (Z.leb z (now s)); [apply DB_scope_cancel|]. apply dbstep_dbm.
  constructor; intros x; cbn; unfold upd; destruct (Nat.eqb_spec x c); try subst; auto.
Qed.

(* ---------------- entering a scope, a new scope ---------------- *)
(* c is on the ancestor chain of no hosted scope *)
Definition Safe (s : st) (c : sid) : Prop :=
  forall x, s_host (scopes s x) <> None -> forall y, anc s y x -> y <> c.

Lemma anc_trans s a b c : anc s a b -> anc s b c -> anc s a c.
Proof. intros H1 H2. induction H2 as [|x p Ep H IH]; [exact H1|]. eapply anc_up; [exact Ep|now apply IH]. Qed.

Lemma anc_avoid a b c y x :
  (forall z, z <> c -> s_parent (scopes b z) = s_parent (scopes a z)) ->
  (forall w, anc a w x -> w <> c) -> anc a y x -> anc b y x.
Proof.
  intros E Hn H. induction H as [|x p Ep H IH]; [apply anc_here|].
  assert (Hx : x <> c) by (apply Hn, anc_here).
  eapply anc_up; [rewrite (E x Hx); exact Ep|]. apply IH. intros w Hw. apply Hn. eapply anc_up; eauto.
Qed.

Lemma anc_back a b c y x :
  (forall z, z <> c -> s_parent (scopes b z) = s_parent (scopes a z)) ->
  (forall w, anc a w x -> w <> c) -> anc b y x -> anc a y x.
Proof.
  intros E Hn H. induction H as [|x p Ep H IH]; [apply anc_here|].
  assert (Hx : x <> c) by (apply Hn, anc_here). rewrite (E x Hx) in Ep.
  eapply anc_up; [exact Ep|]. apply IH. intros w Hw. apply Hn. eapply anc_up; eauto.
Qed.

Lemma Safe_unhosted s c : Safe s c -> s_host (scopes s c) = None.
Proof.
  intros S. destruct (s_host (scopes s c)) eqn:E; [|reflexivity]. exfalso.
  refine (S c _ c (anc_here s c) eq_refl). rewrite E. discriminate.
Qed.

Lemma Safe_frame a b c :
  (forall x, s_parent (scopes b x) = s_parent (scopes a x)) ->
  (forall x, s_host (scopes b x) <> None -> s_host (scopes a x) <> None) -> Safe a c -> Safe b c.
Proof.
  intros Ep Eh S x Hx y Hy. apply (S x (Eh x Hx)). apply (anc_par b a); [intros z; now rewrite Ep|exact Hy].
Qed.

Lemma Safe_treq a b c : treq a b -> Safe a c -> Safe b c.
Proof.
  intros K. apply Safe_frame; [intros x; apply (tq_parent _ _ K)|]. intros x. now rewrite (tq_host _ _ K).
Qed.

Lemma Safe_dbm a b c : dbm a b -> Safe a c -> Safe b c.
Proof. intros M. apply Safe_frame; [apply M|]. intros x. now rewrite (dm_host _ _ M). Qed.

Lemma safe_tree s c : Tree s -> s_active (scopes s c) = false -> Safe s c.
Proof.
  intros T Hc x Hx y Hy.
  assert (Ax : s_active (scopes s x) = true).
  { destruct (s_active (scopes s x)) eqn:E; [reflexivity|]. now elim Hx; apply (tr_host_inact _ T). }
  assert (Ay : s_active (scopes s y) = true).
  { clear Hx. induction Hy as [|x p Ep H IH]; [exact Ax|]. apply IH. now apply (tr_par_act _ T x p). }
  intros ->. congruence.
Qed.

(* a step that rewrites the record of c only, on which no hosted scope depends *)
Lemma DB_rewrite a b c :
  DBH a -> Safe a c ->
  (forall x, x <> c -> s_parent (scopes b x) = s_parent (scopes a x) /\ s_host (scopes b x) = s_host (scopes a x) /\
                       s_pending (scopes b x) = s_pending (scopes a x) /\
                       (s_cancelled (scopes a x) = true -> s_cancelled (scopes b x) = true)) ->
  s_pending (scopes b c) = 0 -> DBH b.
Proof.
  intros D S E Hc. constructor.
  - intros x. destruct (Nat.eq_dec x c) as [->|Hx]; [intros _; exact Hc|].
    destruct (E x Hx) as [_ [Eh [Epd _]]]. rewrite Eh, Epd. apply D.
  - intros x. destruct (Nat.eq_dec x c) as [->|Hx]; [rewrite Hc; lia|].
    destruct (E x Hx) as [_ [Eh [Epd _]]]. rewrite Epd. intros H.
    destruct (db_w _ D x H) as [y [A C]].
    assert (Hh : s_host (scopes a x) <> None).
    { intros N. rewrite (db_un _ D x N) in H. lia. }
    assert (Hy : y <> c) by (apply (S x Hh y A)).
    exists y. split; [|now apply (E y Hy)].
    apply (anc_avoid a b c); [intros z Hz; apply (E z Hz)|exact (S x Hh)|exact A].
Qed.

Lemma Safe_rewrite a b c :
  Safe a c ->
  (forall x, x <> c -> s_parent (scopes b x) = s_parent (scopes a x) /\ s_host (scopes b x) = s_host (scopes a x)) ->
  s_host (scopes b c) = None -> Safe b c.
Proof.
  intros S E Hc x Hx y Hy.
  assert (Hxc : x <> c) by (intros ->; contradiction).
  destruct (E x Hxc) as [_ Eh]. rewrite Eh in Hx.
  apply (S x Hx). apply (anc_back a b c); [intros z Hz; apply (E z Hz)|exact (S x Hx)|exact Hy].
Qed.

Lemma new_scope_scopes s d sh x : x <> nscope s -> scopes (fst (new_scope s d sh)) x = scopes s x.
Proof. intros H. cbn. unfold upd. destruct (Nat.eqb_spec x (nscope s)); [contradiction|reflexivity]. Qed.

Lemma new_scope_fresh s d sh : scopes (fst (new_scope s d sh)) (nscope s) = sc_shield sh (sc_deadline d scope0).
Proof. cbn. unfold upd. now rewrite Nat.eqb_refl. Qed.

Lemma DB_new_scope s d sh : Safe s (nscope s) -> dbstep s (fst (new_scope s d sh)).
Proof.
  intros S D. apply (DB_rewrite s _ (nscope s) D S).
  - intros x Hx. rewrite (new_scope_scopes s d sh x Hx). now repeat split.
  - now rewrite new_scope_fresh.
Qed.

Lemma Safe_new_scope s d sh : Safe s (nscope s) -> Safe (fst (new_scope s d sh)) (nscope s).
Proof.
  intros S. apply (Safe_rewrite s); [exact S| |now rewrite new_scope_fresh].
  intros x Hx. rewrite (new_scope_scopes s d sh x Hx). now split.
Qed.

Lemma DB_enter s c t : Safe s c -> dbstep s (fst (scope_enter s c t)).
Proof.
  intros S D. destruct (s_active (scopes s c)) eqn:Ea; [now rewrite (scope_enter_fail s c t Ea)|].
  rewrite (scope_enter_eq s c t Ea).
  pose proof (Safe_unhosted s c S) as Hh.
  assert (Pc : s_pending (scopes s c) = 0) by now apply D.
  set (par := k_cur (tasks s t)).
  set (s1 := upd_scope s c (fun x => sc_parent par (sc_tasks (add t (s_tasks x)) (sc_host (Some t) x)))).
  assert (D1 : DBH s1).
  { apply (DB_rewrite s s1 c D S).
    - intros x Hx. unfold s1. cbn. unfold upd. destruct (Nat.eqb_spec x c); [contradiction|now repeat split].
    - unfold s1. cbn. unfold upd. rewrite Nat.eqb_refl. exact Pc. }
  assert (M3 : dbm s1 (enter_s3 s c t)).
  { unfold enter_s3. fold par. fold s1. destruct par as [p|].
    - eapply dbm_trans; [apply (dbm_same_scopes s1 (upd_task s1 t (tk_cur (Some c)))); reflexivity|].
      apply dbm_upd_scope. intros k; now repeat split.
    - apply dbm_same_scopes. reflexivity. }
  assert (D5 : DBH (enter_s5 s c t)).
  { unfold enter_s5. apply (DBH_dbm (scope_timeout (enter_s3 s c t) c)).
    - apply DB_scope_timeout. now apply (DBH_dbm s1).
    - apply dbm_upd_scope. intros k; now repeat split. }
  destruct (s_cancelled (scopes (enter_s5 s c t) c)) eqn:Ec; [|exact D5]. now apply DB_deliver_top.
Qed.

(* ---------------- leaving a scope ---------------- *)
Lemma eff_anc s : forall fuel p, eff_cancelled_from fuel s (Some p) = true ->
  exists z, anc s z p /\ s_cancelled (scopes s z) = true.
Proof.
  induction fuel as [|fu IH]; intros p H; cbn [eff_cancelled_from] in H; [discriminate|].
  destruct (s_cancelled (scopes s p)) eqn:Ec; [exists p; split; [apply anc_here|exact Ec]|].
  destruct (s_shield (scopes s p)); [discriminate|].
  destruct (s_parent (scopes s p)) as [q|] eqn:Ep; [|destruct fu; discriminate].
  destruct (IH q H) as [z [A C]]. exists z. split; [eapply anc_up; eauto|exact C].
Qed.

Lemma dbm_exit_struct s c t : dbm s (exit_struct s c t).
Proof.
  pose proof (exit_struct_inert s c t) as I. constructor; intros x.
  - apply (vw_parent _ _ (exit_struct_view s c t x)).
  - apply (vw_host _ _ (exit_struct_view s c t x)).
  - apply (ac_pending _ _ (in_scope _ _ I x)).
  - now rewrite (vw_cancelled _ _ (exit_struct_view s c t x)).
Qed.

Lemma DB_exit s c t exc : dbstep s (fst (scope_exit s c t exc)).
Proof.
  intros D. unfold scope_exit.
  destruct (s_active (scopes s c)) eqn:Ha; cbn [negb]; [|exact D].
  destruct (opt_eqb (s_host (scopes s c)) t) eqn:Hh; cbn [negb]; [|exact D].
  destruct (opt_eqb (k_cur (tasks s t)) c) eqn:Hc; cbn [negb]; [|exact D].
  fold (exit_struct s c t).
  set (par := s_parent (scopes s c)).
  set (s5 := restart (exit_struct s c t) par).
  assert (D5 : DBH s5) by (apply DB_restart; apply (DBH_dbm s); [exact D|apply dbm_exit_struct]).
  set (n := s_pending (scopes s5 c)).
  assert (Ep5 : s_parent (scopes s5 c) = par).
  { unfold s5. rewrite (core_parent _ _ (kf_scopes _ _ (kframe_restart (exit_struct s c t) par) c)).
    apply (vw_parent _ _ (exit_struct_view s c t c)). }
  clearbody s5.
  set (sA := upd_scope (iter n (fun a => task_uncancel a t) s5) c (sc_pending 0)).
  (* pay (or nothing owed): only c's record changes, to pending 0, host None *)
  assert (Pay : forall sB, (forall x, x <> c -> scopes sB x = scopes s5 x) ->
                  s_parent (scopes sB c) = s_parent (scopes s5 c) ->
                  s_cancelled (scopes sB c) = s_cancelled (scopes s5 c) ->
                  s_pending (scopes sB c) = 0 ->
                  DBH (upd_scope sB c (sc_host None))).
  { intros sB Eo Epp Ecc Epd. constructor.
    - intros x. cbn. unfold upd. destruct (Nat.eqb_spec x c) as [->|Hx]; [intros _; exact Epd|].
      rewrite (Eo x Hx). apply D5.
    - intros x. cbn. unfold upd. destruct (Nat.eqb_spec x c) as [->|Hx]; [cbn; rewrite Epd; lia|].
      rewrite (Eo x Hx). intros H. destruct (db_w _ D5 x H) as [y [A C]]. exists y. split.
      + apply (anc_par s5); [|exact A]. intros z. cbn. unfold upd.
        destruct (Nat.eqb_spec z c) as [->|Hz]; [cbn; exact Epp|now rewrite (Eo z Hz)].
      + cbn. unfold upd. destruct (Nat.eqb_spec y c) as [->|Hy]; [cbn; now rewrite Ecc|now rewrite (Eo y Hy)]. }
  pose proof (proj1 (iter_uncancel_spec n t s5)) as U1.
  assert (EA : forall x, x <> c -> scopes sA x = scopes s5 x).
  { intros x Hx. unfold sA. cbn [scopes upd_scope set_scopes]. rewrite U1. unfold upd.
    destruct (Nat.eqb_spec x c); [contradiction|reflexivity]. }
  assert (EAc : scopes sA c = sc_pending 0 (scopes s5 c)).
  { unfold sA. cbn [scopes upd_scope set_scopes]. rewrite U1. unfold upd. now rewrite Nat.eqb_refl. }
  assert (PayA : DBH (upd_scope sA c (sc_host None))) by (apply Pay; [exact EA| | |]; now rewrite EAc).
  assert (PayC : DBH (upd_scope (upd_scope sA c (sc_caught true)) c (sc_host None))).
  { apply Pay.
    - intros x Hx. cbn [scopes upd_scope set_scopes]. unfold upd at 1. destruct (Nat.eqb_spec x c); [contradiction|now apply EA].
    - cbn [scopes upd_scope set_scopes]. unfold upd at 1. rewrite Nat.eqb_refl. now rewrite EAc.
    - cbn [scopes upd_scope set_scopes]. unfold upd at 1. rewrite Nat.eqb_refl. now rewrite EAc.
    - cbn [scopes upd_scope set_scopes]. unfold upd at 1. rewrite Nat.eqb_refl. now rewrite EAc. }
  destruct (s_cancelled (scopes s5 c) && negb (parent_visible s5 c)) eqn:Ebr.
  - destruct exc as [e|].
    + destruct e; cbn [is_anyio_cancel].
      * destruct o; cbn [fst]; assumption.
      * cbn [fst]. exact PayA.
      * cbn [fst]. exact PayA.
      * cbn [fst]. exact PayA.
      * destruct (split_exn (EGroup l)) as [[m|] [r|]]; cbn [fst]; assumption.
    + cbn [fst]. exact PayA.
  - cbn [fst]. fold n.
    destruct (Nat.eqb_spec n 0) as [En|En].
    + apply Pay; auto.
    + destruct par as [p|] eqn:Epar; [|exact PayA].
      destruct (opt_eqb (s_host (scopes s5 p)) t) eqn:Ehp; [|exact PayA].
      (* handed to the parent *)
      assert (Hn : 0 < s_pending (scopes s5 c)) by (fold n; lia).
      destruct (db_w _ D5 c Hn) as [y [A C]].
      assert (Wp : exists z, anc s5 z p /\ s_cancelled (scopes s5 z) = true).
      { inversion A as [E0|x q Eq A' E1]; subst.
        - rewrite C in Ebr. cbn [andb] in Ebr. apply negb_false_iff in Ebr.
          unfold parent_visible in Ebr. rewrite Ep5 in Ebr. apply andb_true_iff in Ebr. destruct Ebr as [_ Ebr].
          apply (eff_anc s5 _ p Ebr).
        - rewrite Ep5 in Eq. inversion Eq; subst q. exists y. now split. }
      destruct Wp as [z [Az Cz]]. apply opt_eqb_true in Ehp.
      set (sH := upd_scope (upd_scope s5 p (fun x => sc_pending (s_pending x + n) x)) c (sc_pending 0)).
      destruct (Nat.eq_dec p c) as [Hpc|Hpc].
      * subst p. apply Pay.
        -- intros x Hx. cbn. unfold upd. destruct (Nat.eqb_spec x c); [contradiction|reflexivity].
        -- cbn. unfold upd. rewrite !Nat.eqb_refl. reflexivity.
        -- cbn. unfold upd. rewrite !Nat.eqb_refl. reflexivity.
        -- cbn. unfold upd. rewrite !Nat.eqb_refl. reflexivity.
      * assert (Ev : forall x, s_parent (scopes (upd_scope sH c (sc_host None)) x) = s_parent (scopes s5 x) /\
                               s_cancelled (scopes (upd_scope sH c (sc_host None)) x) = s_cancelled (scopes s5 x)).
        { intros x. unfold sH. cbn. unfold upd.
          destruct (Nat.eqb_spec x c) as [->|Hxc]; [rewrite ?Nat.eqb_refl|];
            (destruct (Nat.eqb_spec c p); [now subst|]); try (destruct (Nat.eqb_spec x p)); try subst; now split. }
        assert (Ea : forall y x, anc s5 y x -> anc (upd_scope sH c (sc_host None)) y x).
        { intros y0 x0. apply anc_par. intros w. apply Ev. }
        constructor.
        -- intros x. unfold sH. cbn. unfold upd.
           destruct (Nat.eqb_spec x c) as [->|Hxc]; [rewrite Nat.eqb_refl; reflexivity|].
           destruct (Nat.eqb_spec x p) as [->|Hxp]; [cbn; rewrite Ehp; discriminate|apply D5].
        -- intros x Hx.
           assert (Hx' : x = p \/ (x <> c /\ 0 < s_pending (scopes s5 x))).
           { revert Hx. unfold sH. cbn. unfold upd.
             destruct (Nat.eqb_spec x c) as [->|Hxc]; [rewrite Nat.eqb_refl; cbn; lia|].
             destruct (Nat.eqb_spec x p) as [->|Hxp]; [now left|intros H; right; now split]. }
           destruct Hx' as [->|[Hxc Hp]].
           ++ exists z. split; [now apply Ea|now rewrite (proj2 (Ev z))].
           ++ destruct (db_w _ D5 x Hp) as [y0 [A0 C0]]. exists y0. split; [now apply Ea|now rewrite (proj2 (Ev y0))].
Qed.

(* ---------------- frames towards the state at the start of the op ---------------- *)
Record sfr (a b : st) : Prop := {
  sf_ns : nscope b = nscope a;
  sf_par : forall x, s_parent (scopes b x) = s_parent (scopes a x);
  sf_host : forall x, s_host (scopes b x) <> None -> s_host (scopes a x) <> None
}.

Lemma sfr_refl a : sfr a a.
Proof. constructor; auto. Qed.

Lemma sfr_trans a b c : sfr a b -> sfr b c -> sfr a c.
Proof.
  intros H1 H2. constructor.
  - now rewrite (sf_ns _ _ H2), (sf_ns _ _ H1).
  - intros x. now rewrite (sf_par _ _ H2), (sf_par _ _ H1).
  - intros x H. apply H1, H2, H.
Qed.

Lemma sfr_treq a b : treq a b -> sfr a b.
Proof.
  intros K. constructor; [apply (tq_nscope _ _ K)|intros x; apply (tq_parent _ _ K)|].
  intros x. now rewrite (tq_host _ _ K).
Qed.

Lemma Safe_sfr a b c : sfr a b -> Safe a c -> Safe b c.
Proof. intros F. apply Safe_frame; [apply F|apply F]. Qed.

Definition rr (a b : st) : Prop := dbstep a b /\ sfr a b.

Lemma rr_refl a : rr a a.
Proof. split; [apply dbstep_refl|apply sfr_refl]. Qed.

Lemma rr_trans a b c : rr a b -> rr b c -> rr a c.
Proof. intros [A1 A2] [B1 B2]. split; [eapply dbstep_trans; eauto|eapply sfr_trans; eauto]. Qed.

Lemma rr_of a b : dbstep a b -> treq a b -> rr a b.
Proof. intros D K. split; [exact D|now apply sfr_treq]. Qed.

Lemma rr_same a b : scopes b = scopes a -> nscope b = nscope a -> rr a b.
Proof.
  intros E N. split; [apply dbstep_dbm, dbm_same_scopes, E|]. constructor; [exact N|intros x; now rewrite E|intros x; now rewrite E].
Qed.

Lemma rr_dbm a b : dbm a b -> nscope b = nscope a -> rr a b.
Proof.
  intros M N. split; [now apply dbstep_dbm|]. constructor; [exact N|apply M|intros x; now rewrite (dm_host _ _ M)].
Qed.

(* steps that do not touch the scope table *)
Definition ssame (a b : st) : Prop := scopes b = scopes a /\ nscope b = nscope a.

Lemma ssame_refl a : ssame a a. Proof. now split. Qed.
Lemma ssame_trans a b c : ssame a b -> ssame b c -> ssame a c.
Proof. intros [A1 A2] [B1 B2]. split; congruence. Qed.
Lemma rr_ssame a b : ssame a b -> rr a b.
Proof. intros [E N]. now apply rr_same. Qed.

Lemma ss_fut_complete s f v : ssame s (fut_complete s f v).
Proof. unfold fut_complete. destruct (f_st (futs s f)); try apply ssame_refl. destruct (f_waiter (futs s f)); now split. Qed.

Lemma ss_suspend_on s t f : ssame s (suspend_on s t f).
Proof.
  unfold suspend_on. destruct (f_st (futs s f)); try (now split).
  destruct (k_must (tasks s t)); [|now split].
  set (s2 := upd_task (upd_fut s f (fun x => mkFut (f_st x) (Some t))) t (tk_waiter (Some f))).
  apply (ssame_trans s s2); [now split|].
  apply (ssame_trans s2 (fut_complete s2 f (FCanc (k_msg (tasks s t))))); [apply ss_fut_complete|now split].
Qed.

Lemma ss_park s t : ssame s (park s t).
Proof.
  unfold park, new_fut. eapply ssame_trans; [|now split]. eapply ssame_trans; [|apply ss_suspend_on]. now split.
Qed.

Lemma ss_ret s t r : ssame s (fst (ret_to_puppet s t r)).
Proof.
  unfold ret_to_puppet. cbn [fst]. eapply ssame_trans; [|now split]. eapply ssame_trans; [|apply ss_park].
  destruct r; now split.
Qed.

Lemma ss_begin_act s t : ssame s (begin_act s t).
Proof. now split. Qed.

Lemma ss_incoming s t fo : ssame s (fst (incoming s t fo)).
Proof. now split. Qed.

Lemma ss_task_cancel s t o : ssame s (task_cancel s t o).
Proof.
  unfold task_cancel. destruct (k_done (tasks s t)); [apply ssame_refl|].
  destruct (k_waiter (tasks s t)) as [f|]; [|now split].
  destruct (fut_pending _ f); [|now split]. eapply ssame_trans; [|apply ss_fut_complete]. now split.
Qed.

Lemma ss_fold_fut_complete v fs : forall a, ssame a (fold_left (fun a f => fut_complete a f v) fs a).
Proof.
  induction fs as [|f fs IH]; intros a; cbn [fold_left]; [apply ssame_refl|].
  eapply ssame_trans; [apply ss_fut_complete|apply IH].
Qed.

Lemma ss_event_set s e : ssame s (event_set s e).
Proof.
  unfold event_set. destruct (e_set (events s e)); [apply ssame_refl|].
  eapply ssame_trans; [|apply ss_fold_fut_complete]. now split.
Qed.

Lemma ss_event_wait s t e : ssame s (fst (event_wait s t e)).
Proof.
  unfold event_wait. destruct (e_set (events s e)); cbn [fst]; [now split|].
  unfold new_fut. cbn [fst]. eapply ssame_trans; [|apply ss_suspend_on]. now split.
Qed.

Lemma ss_event_unwait s e fo : ssame s (event_unwait s e fo).
Proof. destruct fo; now split. Qed.

Lemma ss_finish_task s t o : ssame s (finish_task s t o).
Proof. unfold finish_task. destruct (k_group (tasks s t)); now split. Qed.

Lemma ss_timer_cancel s tm : ssame s (timer_cancel s tm).
Proof. now split. Qed.

Lemma ss_tick s dt : ssame s (tick s dt).
Proof. now split. Qed.

Lemma rr_cancel_timeout s c : rr s (cancel_timeout s c).
Proof. apply rr_dbm; [apply dbm_cancel_timeout|apply (tq_nscope _ _ (treq_cancel_timeout s c))]. Qed.

Lemma rr_scope_cancel s c b : rr s (scope_cancel s c b).
Proof. apply rr_of; [apply DB_scope_cancel|apply treq_scope_cancel]. Qed.

Lemma rr_scope_timeout s c : rr s (scope_timeout s c).
Proof. apply rr_of; [apply DB_scope_timeout|apply treq_scope_timeout]. Qed.

Lemma rr_restart s x : rr s (restart s x).
Proof. apply rr_of; [apply DB_restart|apply treq_restart]. Qed.

Lemma rr_upd_scope s c g :
  (forall k, s_parent (g k) = s_parent k /\ s_host (g k) = s_host k /\ s_pending (g k) = s_pending k /\
             (s_cancelled k = true -> s_cancelled (g k) = true)) -> rr s (upd_scope s c g).
Proof. intros H. apply rr_dbm; [now apply dbm_upd_scope|reflexivity]. Qed.

Lemma sfr_exit s c t exc : sfr s (fst (scope_exit s c t exc)).
Proof.
  destruct (exit_ok_dec s c t) as [Hok|Hno]; [|rewrite (scope_exit_fail s c t exc Hno); apply sfr_refl].
  destruct (scope_exit_spec s c t exc Hok) as [s6 [K E]]. rewrite E.
  pose proof (kframe_restart (exit_struct s c t) (s_parent (scopes s c))) as K5.
  assert (K6 : kframe (exit_struct s c t) s6) by (eapply kframe_trans; eauto).
  constructor.
  - cbn [nscope upd_scope set_scopes]. rewrite (kf_nscope _ _ K6). apply (in_nscope _ _ (exit_struct_inert s c t)).
  - intros x. cbn [scopes upd_scope set_scopes]. unfold upd.
    destruct (Nat.eqb_spec x c) as [->|Hx]; cbn [s_parent sc_host];
      rewrite (core_parent _ _ (kf_scopes _ _ K6 _)); apply (vw_parent _ _ (exit_struct_view s c t _)).
  - intros x. cbn [scopes upd_scope set_scopes]. unfold upd.
    destruct (Nat.eqb_spec x c) as [->|Hx]; cbn [s_host sc_host]; [intros H; now elim H|].
    rewrite (core_host _ _ (kf_scopes _ _ K6 _)), (vw_host _ _ (exit_struct_view s c t _)). auto.
Qed.

Lemma rr_scope_exit s c t exc : rr s (fst (scope_exit s c t exc)).
Proof. split; [apply DB_exit|apply sfr_exit]. Qed.

Lemma rr_upd_task s t g : rr s (upd_task s t g).
Proof. apply rr_same; reflexivity. Qed.
Lemma rr_upd_group s g f : rr s (upd_group s g f).
Proof. apply rr_same; reflexivity. Qed.
Lemma rr_set_running s v : rr s (set_running s v).
Proof. apply rr_same; reflexivity. Qed.
Lemma rr_set_ctl s t c : rr s (set_ctl s t c).
Proof. apply rr_same; reflexivity. Qed.
Lemma rr_bare_yield s t : rr s (bare_yield s t).
Proof. apply rr_same; reflexivity. Qed.

Lemma rr_aexit_raise s t g e : rr s (fst (aexit_raise s t g e)).
Proof.
  unfold aexit_raise. pose proof (rr_scope_exit s (g_scope (groups s g)) t (Some e)) as K1.
  destruct (scope_exit s (g_scope (groups s g)) t (Some e)) as [s1 x]. cbn [fst] in K1.
  destruct x; cbn [fst]; (eapply rr_trans; [exact K1|]);
    [eapply rr_trans; [apply rr_upd_group|apply rr_upd_task]|apply rr_upd_group|apply rr_upd_group].
Qed.

Lemma rr_aexit_finish s t g exc : rr s (fst (aexit_finish s t g exc)).
Proof.
  unfold aexit_finish. destruct (map snd (g_excs (groups s g))) as [|e0 l]; [|apply rr_aexit_raise].
  destruct exc as [e|]; [apply rr_aexit_raise|].
  pose proof (rr_scope_exit s (g_scope (groups s g)) t None) as K1.
  destruct (scope_exit s (g_scope (groups s g)) t None) as [s1 x]. cbn [fst] in K1.
  destruct x; cbn [fst]; (eapply rr_trans; [exact K1|apply rr_upd_group]).
Qed.

(* a fresh scope, entered at once *)
Lemma DB_new_enter s d sh t :
  Safe s (nscope s) -> dbstep s (fst (scope_enter (fst (new_scope s d sh)) (nscope s) t)).
Proof.
  intros S. eapply dbstep_trans; [now apply DB_new_scope|]. apply DB_enter. now apply Safe_new_scope.
Qed.

Lemma DB_spawn s g sf : Safe s (nscope s) -> dbstep s (fst (spawn_task s g sf)).
Proof.
  intros S D. rewrite spawn_task_eq. cbn [fst].
  pose proof (DB_new_scope s None false S D) as D1.
  set (s1 := fst (new_scope s None false)) in *.
  assert (D4 : DBH (spawn_struct s g sf)).
  { apply (DBH_dbm s1); [exact D1|]. unfold spawn_struct. fold s1. cbv zeta.
    match goal with |- dbm s1 (upd_group (upd_scope ?a ?c ?f) ?g0 ?h) =>
      apply (dbm_trans s1 a); [apply dbm_same_scopes; reflexivity|];
      apply (dbm_trans a (upd_scope a c f)); [apply dbm_upd_scope; intros k; now repeat split|];
      apply dbm_same_scopes; reflexivity end. }
  apply (DBH_dbm (restart (spawn_struct s g sf) (Some (g_scope (groups s g))))); [|apply dbm_same_scopes; reflexivity].
  now apply DB_restart.
Qed.

Lemma rr_run_task_done s t : rr s (run_task_done s t).
Proof.
  unfold run_task_done. cbn [tasks set_running].
  destruct (k_group (tasks s t)) as [g|]; [|apply rr_set_running].
  set (s3 := upd_task _ t _).
  assert (K3 : rr s s3).
  { unfold s3. eapply rr_trans; [apply rr_set_running|]. eapply rr_trans; [|apply rr_upd_task].
    eapply rr_trans; [|apply rr_upd_group]. destruct (k_cur (tasks s t)); [|apply rr_refl].
    apply rr_upd_scope. intros k; now repeat split. }
  set (s4 := match g_fut (groups s3 g) with
             | Some f => match g_tasks (groups s3 g) with [] => fut_complete s3 f (FRes 0) | _ :: _ => s3 end
             | None => s3 end).
  assert (K4 : rr s s4).
  { eapply rr_trans; [exact K3|]. unfold s4. destruct (g_fut (groups s3 g)); [|apply rr_refl].
    destruct (g_tasks (groups s3 g)); [apply rr_ssame, ss_fut_complete|apply rr_refl]. }
  clearbody s4.
  assert (Kc : forall a, rr a (if eff_cancelled a (g_scope (groups a g)) then a
                               else scope_cancel a (g_scope (groups a g)) false)).
  { intros a. destruct (eff_cancelled a _); [apply rr_refl|apply rr_scope_cancel]. }
  assert (Kc2 : forall a, rr a (if s_cancelled (scopes a (g_scope (groups a g))) then a
                                else scope_cancel a (g_scope (groups a g)) false)).
  { intros a. destruct (s_cancelled _); [apply rr_refl|apply rr_scope_cancel]. }
  assert (Kx : forall e, rr s4 (upd_group s4 g (fun x => gr_excs (g_excs x ++ [(t, e)]) x))) by (intros e; apply rr_upd_group).
  assert (Kf : forall f v, rr s4 (fut_complete s4 f v)) by (intros f v; apply rr_ssame, ss_fut_complete).
  eapply rr_trans; [exact K4|].
  destruct (k_done (tasks s t)) as [[v|e|e]|].
  - destruct (k_startfut (tasks s t)) as [f|]; [|apply rr_refl].
    destruct (f_st (futs s4 f)); try apply rr_refl. apply Kf.
  - destruct (k_startfut (tasks s t)) as [f|].
    + destruct (f_st (futs s4 f)).
      * apply Kf.
      * destruct (is_cancel e); [apply Kc|]. eapply rr_trans; [apply Kx|apply Kc2].
      * destruct (is_cancel e); [apply Kc|]. eapply rr_trans; [apply Kx|apply Kc2].
      * destruct (is_cancel e); [apply rr_refl|]. eapply rr_trans; [apply Kx|apply Kc2].
    + destruct (is_cancel e); [apply Kc|]. eapply rr_trans; [apply Kx|apply Kc2].
  - destruct (k_startfut (tasks s t)) as [f|].
    + destruct (f_st (futs s4 f)).
      * apply Kf.
      * destruct (is_cancel e); [apply Kc|]. eapply rr_trans; [apply Kx|apply Kc2].
      * destruct (is_cancel e); [apply Kc|]. eapply rr_trans; [apply Kx|apply Kc2].
      * destruct (is_cancel e); [apply rr_refl|]. eapply rr_trans; [apply Kx|apply Kc2].
    + destruct (is_cancel e); [apply Kc|]. eapply rr_trans; [apply Kx|apply Kc2].
  - destruct (k_startfut (tasks s t)) as [f|]; [|apply rr_refl].
    destruct (f_st (futs s4 f)); try apply rr_refl. apply Kf.
Qed.

Lemma DB_ret s t r : dbstep s (fst (ret_to_puppet s t r)).
Proof. apply (proj1 (rr_ssame _ _ (ss_ret s t r))). Qed.

Lemma DB_wof s t g ws exc :
  (ws = None -> Safe s (nscope s)) -> dbstep s (fst (aexit_wait_or_finish s t g ws exc)).
Proof.
  intros HS D. unfold aexit_wait_or_finish. destruct (g_tasks (groups s g)) as [|c0 cs].
  - destruct ws as [w|].
    + pose proof (rr_scope_exit s w t None) as K1.
      destruct (scope_exit s w t None) as [s1 x]. cbn [fst] in K1.
      destruct x.
      * pose proof (rr_aexit_finish s1 t g exc) as K2. destruct (aexit_finish s1 t g exc) as [s2 r]. cbn [fst] in K2.
        apply DB_ret. apply (proj1 K2), (proj1 K1), D.
      * pose proof (rr_aexit_finish s1 t g exc) as K2. destruct (aexit_finish s1 t g exc) as [s2 r]. cbn [fst] in K2.
        apply DB_ret. apply (proj1 K2), (proj1 K1), D.
      * pose proof (rr_aexit_raise s1 t g e) as K2. destruct (aexit_raise s1 t g e) as [s2 r]. cbn [fst] in K2.
        apply DB_ret. apply (proj1 K2), (proj1 K1), D.
    + pose proof (rr_aexit_finish s t g exc) as K2. destruct (aexit_finish s t g exc) as [s2 r]. cbn [fst] in K2.
      apply DB_ret. apply (proj1 K2), D.
  - assert (Tail : forall a w, DBH a ->
              DBH (fst (let '(s1, f) := new_fut a in
                        blocked (set_ctl (suspend_on (upd_group s1 g (gr_fut (Some f))) t f) t (CAexitWait g w exc))))).
    { intros a w Da. unfold new_fut. cbv zeta. cbn [fst blocked].
      apply (DBH_dbm a); [exact Da|]. apply dbm_same_scopes.
      cbn [scopes set_running set_ctl upd_task set_tasks].
      rewrite (proj1 (ss_suspend_on _ t (nfut a))). reflexivity. }
    destruct ws as [w|]; [now apply Tail|].
    unfold new_scope. cbv zeta. cbn [fst]. apply Tail. apply (DB_new_enter s None false t); [now apply HS|exact D].
Qed.

(* ---------------- the walk over all ops ---------------- *)
Lemma Safe_fresh a m : Tree a -> sfr a m -> Safe m (nscope m).
Proof.
  intros T F. rewrite (sf_ns _ _ F). apply (Safe_sfr a m _ F). apply (safe_tree a _ T).
  destruct (s_active (scopes a (nscope a))) eqn:E; [|reflexivity].
  pose proof (tr_act_alloc _ T _ E) as A. unfold alloc_s in A. lia.
Qed.

Lemma Safe_inact a m c : Tree a -> treq a m -> s_active (scopes m c) = false -> Safe m c.
Proof.
  intros T K H. apply (Safe_treq a m c K). apply (safe_tree a c T). now rewrite <- (tq_active _ _ K).
Qed.

Lemma DB_enter' s c t : (s_active (scopes s c) = false -> Safe s c) -> dbstep s (fst (scope_enter s c t)).
Proof.
  intros H D. destruct (s_active (scopes s c)) eqn:Ea; [now rewrite (scope_enter_fail s c t Ea)|].
  apply DB_enter; auto.
Qed.

Lemma DB_block s s1 t c : dbstep s s1 -> dbstep s (fst (blocked (set_ctl s1 t c))).
Proof.
  intros H D. cbn [fst blocked]. apply (DBH_dbm s1); [now apply H|apply dbm_same_scopes; reflexivity].
Qed.

Lemma DB_puppet_op s0 t o : Tree s0 -> dbstep s0 (fst (puppet_op s0 t o)).
Proof.
  intros T D0. unfold puppet_op.
  assert (Kt : treq s0 (begin_act s0 t)) by apply treq_begin_act.
  assert (D : DBH (begin_act s0 t)) by (apply (proj1 (rr_ssame _ _ (ss_begin_act s0 t))), D0).
  set (s := begin_act s0 t) in *.
  assert (Q : forall s1 r, dbstep s s1 -> DBH (fst (ret_to_puppet s1 t r))).
  { intros s1 r H. apply DB_ret. now apply H. }
  assert (B : forall s1 c, dbstep s s1 -> DBH (fst (blocked (set_ctl s1 t c)))).
  { intros s1 c H. now apply (DB_block s s1 t c H). }
  assert (SF : forall m, sfr s m -> Safe m (nscope m)).
  { intros m F. apply (Safe_fresh s0 m T). eapply sfr_trans; [apply sfr_treq, Kt|exact F]. }
  assert (SI : forall m c, treq s m -> s_active (scopes m c) = false -> Safe m c).
  { intros m c K. apply (Safe_inact s0 m c T). eapply treq_trans; eauto. }
  destruct o; try exact D0.
  - (* ANewScope *)
    unfold new_scope. cbv zeta. apply Q. apply (DB_new_scope s d sh). apply SF, sfr_refl.
  - (* AEnter *)
    pose proof (DB_enter' s c t (SI s c (treq_refl s))) as H. destruct (scope_enter s c t) as [s1 e]. now apply Q.
  - (* AExit *)
    pose proof (DB_exit s c t (k_held (tasks s t))) as H.
    destruct (scope_exit s c t (k_held (tasks s t))) as [s1 x]. cbn [fst] in H. destruct x.
    + assert (H2 : dbstep s (upd_task s1 t (tk_held None))).
      { eapply dbstep_trans; [exact H|]. apply dbstep_dbm, dbm_same_scopes. reflexivity. }
      destruct (_ && _); now apply Q.
    + now apply Q.
    + now apply Q.
  - (* ACancel *) apply Q. apply DB_scope_cancel.
  - (* ASetShield *)
    destruct (Bool.eqb _ b); [apply Q, dbstep_refl|]. apply Q. destruct b.
    + apply dbstep_dbm, dbm_upd_scope. intros k; now repeat split.
    + apply (dbstep_trans s (upd_scope s c (sc_shield false)));
        [apply dbstep_dbm, dbm_upd_scope; intros k; now repeat split|apply DB_restart].
  - (* ASetDeadline *)
    apply Q. set (s1 := cancel_timeout _ c).
    assert (H : dbstep s s1).
    { unfold s1. eapply dbstep_trans; [apply dbstep_dbm, (dbm_upd_scope s c (sc_deadline d)); intros k; now repeat split|].
      apply dbstep_dbm, dbm_cancel_timeout. }
    destruct (_ && _); [|exact H]. eapply dbstep_trans; [exact H|apply DB_scope_timeout].
  - (* AGroupNew *)
    unfold new_scope. cbv zeta. apply Q.
    eapply dbstep_trans; [apply (DB_new_scope s None false); apply SF, sfr_refl|].
    apply dbstep_dbm, dbm_same_scopes. reflexivity.
  - (* AGroupEnter *)
    destruct (g_entered (groups s g)); [apply Q, dbstep_refl|].
    set (s1 := upd_group s g (gr_entered true)).
    assert (K1 : treq s s1) by (apply treq_upd_group; intros k; reflexivity).
    pose proof (DB_enter' s1 (g_scope (groups s1 g)) t (SI s1 _ K1)) as H.
    destruct (scope_enter _ _ t) as [s2 e]. cbn [fst] in H. apply Q.
    apply (dbstep_trans s s1); [apply dbstep_dbm, dbm_same_scopes; reflexivity|exact H].
  - (* AGroupExit *)
    set (s1 := match k_held (tasks s t) with Some e => _ | None => s end).
    assert (H1 : rr s s1).
    { unfold s1. destruct (k_held (tasks s t)) as [e|]; [|apply rr_refl]. cbv zeta.
      destruct (is_cancel e); [apply rr_scope_cancel|]. eapply rr_trans; [apply rr_scope_cancel|apply rr_upd_group]. }
    assert (D1 : DBH s1) by now apply (proj1 H1).
    destruct (g_tasks (groups s1 g)) eqn:Eg.
    + unfold new_scope. cbv zeta. cbn [fst blocked].
      match goal with |- DBH (set_running (set_ctl (bare_yield ?a t) t ?c) None) =>
        apply (DBH_dbm a); [|apply dbm_same_scopes; reflexivity] end.
      apply (DB_new_enter s1 None true t); [apply SF, (proj2 H1)|exact D1].
    + apply DB_wof; [|exact D1]. intros _. apply SF, (proj2 H1).
  - (* ASpawn *)
    destruct (group_active s g); cbn [negb]; [|apply Q, dbstep_refl].
    pose proof (DB_spawn s g None (SF s (sfr_refl s))) as H. destruct (spawn_task s g None) as [s1 c]. now apply Q.
  - (* AStart *)
    destruct (group_active s g); cbn [negb]; [|apply Q, dbstep_refl].
    unfold new_fut. cbv zeta.
    match goal with |- context [spawn_task ?a g ?sf] =>
      assert (H : dbstep s (fst (spawn_task a g sf))) by
        (eapply dbstep_trans; [apply (dbstep_dbm s a), dbm_same_scopes; reflexivity|
                               apply DB_spawn; apply SF; apply (proj2 (rr_same s a eq_refl eq_refl))]);
      destruct (spawn_task a g sf) as [s2 c] end.
    cbn [fst blocked] in *. apply (DBH_dbm s2); [now apply H|].
    apply dbm_same_scopes. cbn [scopes set_running set_ctl upd_task set_tasks].
    now rewrite (proj1 (ss_suspend_on s2 t (nfut s))).
  - (* AStarted *)
    destruct (k_startfut (tasks s t)) as [f|]; [|apply Q, dbstep_refl].
    destruct (f_st (futs s f)); apply Q; try apply dbstep_refl. apply (proj1 (rr_ssame _ _ (ss_fut_complete s f _))).
  - (* AHandleCancel *)
    destruct (e_set _); apply Q; [apply dbstep_refl|apply DB_scope_cancel].
  - (* AHandleWait *)
    pose proof (ss_event_wait s t (k_hevent (tasks s h))) as H.
    destruct (event_wait s t (k_hevent (tasks s h))) as [s1 f]. cbn [fst] in H. apply B. apply (proj1 (rr_ssame _ _ H)).
  - apply B. apply (proj1 (rr_bare_yield s t)).
  - destruct (ckif_spins _ _ _); [apply B, (proj1 (rr_bare_yield s t))|apply Q, dbstep_refl].
  - (* AShieldCk *)
    unfold new_scope. cbv zeta. cbn [fst blocked].
    match goal with |- DBH (set_running (set_ctl (bare_yield ?a t) t ?c) None) =>
      apply (DBH_dbm a); [|apply dbm_same_scopes; reflexivity] end.
    apply (DB_new_enter s None true t); [apply SF, sfr_refl|exact D].
  - (* ASleep *)
    unfold new_fut. cbv zeta. destruct d as [dt|].
    + unfold call_at. cbv zeta. cbn [fst blocked].
      apply (DBH_dbm s); [exact D|]. apply dbm_same_scopes. cbn [scopes set_running set_ctl upd_task set_tasks].
      match goal with |- scopes (suspend_on ?a t ?f) = _ => now rewrite (proj1 (ss_suspend_on a t f)) end.
    + cbn [fst blocked].
      apply (DBH_dbm s); [exact D|]. apply dbm_same_scopes. cbn [scopes set_running set_ctl upd_task set_tasks].
      match goal with |- scopes (suspend_on ?a t ?f) = _ => now rewrite (proj1 (ss_suspend_on a t f)) end.
  - apply Q. apply (proj1 (rr_upd_task s t _)).
  - apply Q. apply (proj1 (rr_upd_task s t _)).
  - apply Q. apply (proj1 (rr_upd_task s t _)).
  - apply Q. apply (proj1 (rr_upd_task s t _)).
  - cbn [fst]. apply (DBH_dbm s); [exact D|]. apply dbm_same_scopes. cbn [scopes set_running].
    apply (proj1 (ss_park s t)).
  - (* AFailAt *)
    unfold new_scope. cbv zeta.
    match goal with |- context [scope_enter ?a ?c t] =>
      assert (H : dbstep s (fst (scope_enter a c t))) by (apply (DB_new_enter s d sh t); apply SF, sfr_refl);
      destruct (scope_enter a c t) as [s2 e] end.
    cbn [fst] in H. now apply Q.
Qed.

Lemma DB_puppet_finish s0 t v : dbstep s0 (fst (puppet_finish s0 t v)).
Proof.
  intros D0. unfold puppet_finish.
  set (s := begin_act s0 t).
  set (raw := match k_held (tasks s t) with Some e => OExc e | None => ORet v end).
  set (s1 := upd_task s t (tk_final (Some raw))).
  assert (H1 : rr s0 s1) by (apply rr_same; reflexivity).
  destruct (k_group (tasks s t)).
  - set (s2 := upd_task s1 t _). set (s3 := event_set s2 (k_hevent (tasks s t))).
    assert (H3 : rr s0 s3).
    { eapply rr_trans; [exact H1|]. apply (rr_trans s1 s2); [apply rr_same; reflexivity|apply rr_ssame, ss_event_set]. }
    pose proof (rr_scope_exit s3 (k_hscope (tasks s t)) t (k_held (tasks s t))) as H4.
    destruct (scope_exit s3 (k_hscope (tasks s t)) t (k_held (tasks s t))) as [s4 x]. cbn [fst] in H4.
    assert (D4 : DBH s4) by (apply (proj1 H4), (proj1 H3), D0).
    destruct x; cbn [fst]; (eapply (proj1 (rr_ssame _ _ (ss_finish_task s4 t _)))); exact D4.
  - cbn [fst]. apply (proj1 (rr_ssame _ _ (ss_finish_task s1 t raw))). now apply (proj1 H1).
Qed.

Lemma DB_resume s0 t fo : Tree s0 -> dbstep s0 (fst (resume s0 t fo)).
Proof.
  intros T D0. unfold resume.
  pose proof (ss_incoming s0 t fo) as H0. pose proof (treq_incoming s0 t fo) as Kt.
  destruct (incoming s0 t fo) as [s inc]. cbn [fst] in H0, Kt.
  assert (D : DBH s) by (apply (proj1 (rr_ssame _ _ H0)), D0).
  assert (Q : forall s1 r, dbstep s s1 -> DBH (fst (ret_to_puppet s1 t r))).
  { intros s1 r H. apply DB_ret. now apply H. }
  assert (SF : forall m, sfr s m -> Safe m (nscope m)).
  { intros m F. apply (Safe_fresh s0 m T). eapply sfr_trans; [apply sfr_treq, Kt|exact F]. }
  assert (SI : forall m c, treq s m -> s_active (scopes m c) = false -> Safe m c).
  { intros m c K. apply (Safe_inact s0 m c T). eapply treq_trans; eauto. }
  destruct (k_ctl (tasks s t)); try exact D0.
  - (* CNew *)
    set (s1 := upd_task s t (tk_started true)).
    assert (K1 : treq s s1) by (apply treq_upd_task; intros k; reflexivity).
    assert (D1 : DBH s1) by (apply (DBH_dbm s); [exact D|apply dbm_same_scopes; reflexivity]).
    destruct inc as [e|].
    + cbn [fst]. apply (proj1 (rr_ssame _ _ (ss_finish_task s1 t _))). exact D1.
    + cbn [fst]. set (s2 := match k_group (tasks s1 t) with Some _ => _ | None => s1 end).
      assert (D2 : DBH s2).
      { unfold s2. destruct (k_group (tasks s1 t)); [|exact D1]. apply DB_enter'; [|exact D1]. now apply SI. }
      apply (DBH_dbm s2); [exact D2|]. apply dbm_same_scopes. cbn [scopes set_running]. apply (proj1 (ss_park s2 t)).
  - (* CIdle *)
    cbn [fst]. set (s1 := match inc with Some e => upd_task s t (tk_held (Some e)) | None => s end).
    assert (D1 : DBH s1) by (unfold s1; destruct inc; [apply (DBH_dbm s); [exact D|apply dbm_same_scopes; reflexivity]|exact D]).
    apply (DBH_dbm s1); [exact D1|]. apply dbm_same_scopes. cbn [scopes set_running]. apply (proj1 (ss_park s1 t)).
  - (* CYield *)
    destruct k as [| |c].
    + apply Q, dbstep_refl.
    + destruct inc; [apply Q, dbstep_refl|]. destruct (ckif_spins _ _ _); [|apply Q, dbstep_refl].
      cbn [fst blocked]. apply (DBH_dbm s); [exact D|apply dbm_same_scopes; reflexivity].
    + pose proof (DB_exit s c t inc) as H. destruct (scope_exit s c t inc) as [s1 x]. cbn [fst] in H.
      destruct x; now apply Q.
  - (* CSleep *) apply Q. apply (proj1 (rr_ssame _ _ (ss_timer_cancel s _))).
  - (* CAexitWait *)
    set (s1 := upd_group s g (gr_fut None)).
    destruct inc as [e|].
    + apply DB_wof; [discriminate|].
      apply (proj1 (rr_scope_cancel _ _ _)). apply (DBH_dbm s1); [|apply dbm_upd_scope; intros k; now repeat split].
      apply (DBH_dbm s); [exact D|apply dbm_same_scopes; reflexivity].
    + apply DB_wof; [discriminate|]. apply (DBH_dbm s); [exact D|apply dbm_same_scopes; reflexivity].
  - (* CAexitCk *)
    pose proof (rr_scope_exit s sc t inc) as H. destruct (scope_exit s sc t inc) as [s1 x]. cbn [fst] in H.
    assert (D1 : DBH s1) by now apply (proj1 H).
    destruct x as [| |e].
    + apply DB_wof; [|exact D1]. intros _. apply SF, (proj2 H).
    + destruct inc as [e|]; [|apply DB_wof; [intros _; apply SF, (proj2 H)|exact D1]].
      destruct (is_cancel e).
      * apply DB_wof; [|apply (proj1 (rr_scope_cancel _ _ _)), D1]. intros _. apply SF.
        eapply sfr_trans; [exact (proj2 H)|apply (proj2 (rr_scope_cancel _ _ _))].
      * pose proof (rr_aexit_raise s1 t g e) as H2. destruct (aexit_raise s1 t g e) as [s2 r]. cbn [fst] in H2.
        apply DB_ret. now apply (proj1 H2).
    + pose proof (rr_aexit_raise s1 t g e) as H2. destruct (aexit_raise s1 t g e) as [s2 r]. cbn [fst] in H2.
      apply DB_ret. now apply (proj1 H2).
  - (* CStartWait *)
    destruct inc as [e|]; [|apply Q, dbstep_refl].
    destruct (handle_pending s child); [|destruct (f_st (futs s _)); apply Q, dbstep_refl].
    unfold new_scope. cbv zeta.
    set (s1 := scope_cancel s (k_hscope (tasks s child)) false).
    match goal with |- context [scope_enter ?a ?c t] => set (s3 := fst (scope_enter a c t)) end.
    assert (D3 : DBH s3).
    { unfold s3. apply (DB_new_enter s1 None true t); [apply SF, (proj2 (rr_scope_cancel _ _ _))|].
      apply (proj1 (rr_scope_cancel _ _ _)), D. }
    pose proof (ss_event_wait s3 t (k_hevent (tasks s3 child))) as H4.
    destruct (event_wait s3 t (k_hevent (tasks s3 child))) as [s4 wf]. cbn [fst blocked] in *.
    apply (DBH_dbm s3); [exact D3|]. apply dbm_same_scopes. cbn [scopes set_running set_ctl upd_task set_tasks]. apply H4.
  - (* CStartJoin *)
    set (s1 := event_unwait s (k_hevent (tasks s child)) f).
    pose proof (DB_exit s1 sc t inc) as H. destruct (scope_exit s1 sc t inc) as [s2 x]. cbn [fst] in H.
    assert (H2 : dbstep s s2) by (apply (dbstep_trans s s1); [apply (proj1 (rr_ssame _ _ (ss_event_unwait s _ f)))|exact H]).
    destruct x; [| destruct inc |]; now apply Q.
  - (* CHandleWait *) apply Q. apply (proj1 (rr_ssame _ _ (ss_event_unwait s _ _))).
Qed.

Lemma DB_run_handle s h :
  Tree s -> (forall c, h = HDeliver c -> In h (ready s) -> s_cancelled (scopes s c) = true) ->
  dbstep s (fst (run_handle s h)).
Proof.
  intros T Hd D. unfold run_handle. destruct (existsb (handle_eqb h) (ready s)) eqn:Ex; cbn [negb]; [|exact D].
  apply existsb_handle in Ex.
  set (s1 := set_ready s (remove_first h (ready s))).
  assert (D1 : DBH s1) by (apply (DBH_dbm s); [exact D|apply dbm_same_scopes; reflexivity]).
  assert (T1 : Tree s1) by (apply (Tree_treq s); [exact T|apply treq_set_ready]).
  destruct h; cbn [fst].
  - now apply DB_resume.
  - now apply DB_resume.
  - apply (DBH_dbm (deliver_top (set_running s1 None) s0)); [|apply dbm_same_scopes; reflexivity].
    apply DB_deliver_top; [exact (Hd s0 eq_refl Ex)|]. apply (DBH_dbm s1); [exact D1|apply dbm_same_scopes; reflexivity].
  - apply (proj1 (rr_run_task_done s1 t)), D1.
  - apply (proj1 (rr_ssame _ _ (ss_fut_complete s1 f _))), D1.
  - apply (DBH_dbm (scope_timeout (set_running s1 None) s0)); [|apply dbm_same_scopes; reflexivity].
    apply DB_scope_timeout. apply (DBH_dbm s1); [exact D1|apply dbm_same_scopes; reflexivity].
Qed.

Theorem DB_step s o :
  Tree s -> (forall c, In (HDeliver c) (ready s) -> s_cancelled (scopes s c) = true) -> dbstep s (fst (step s o)).
Proof.
  intros T Hd D. unfold step. destruct (actor o) as [t|].
  - destruct (negb (idle s t)); [exact D|]. destruct o; try (now apply DB_puppet_op). now apply DB_puppet_finish.
  - destruct o; try exact D.
    + (* ANewRoot *)
      unfold new_root. cbn [fst].
      match goal with |- DBH (set_running (park ?a ?t) None) => set (s1 := a) end.
      apply (DBH_dbm s); [exact D|]. apply dbm_same_scopes. cbn [scopes set_running].
      rewrite (proj1 (ss_park s1 (ntask s))). reflexivity.
    + cbn [fst]. apply (proj1 (rr_ssame _ _ (ss_task_cancel s t 0))), D.
    + cbn [fst]. apply (DBH_dbm (scope_cancel (set_running s None) c false)); [|apply dbm_same_scopes; reflexivity].
      apply DB_scope_cancel. apply (DBH_dbm s); [exact D|apply dbm_same_scopes; reflexivity].
    + apply DB_run_handle; [exact T| |exact D]. intros c -> Hin. now apply Hd.
    + destruct (Z.ltb dt 0); [exact D|]. cbn [fst]. apply (proj1 (rr_ssame _ _ (ss_tick s dt))), D.
Qed.

Lemma DBH_init : DBH init.
Proof. constructor; [intros x _; reflexivity|intros x H; cbn in H; lia]. Qed.
