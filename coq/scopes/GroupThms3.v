(* C01: the step at which a task group block is left; growth of g_ever and g_excs. *)
From AV Require Import Base Machine GroupInv GroupInv2 GroupInv3 GroupInv4 GroupInv5 GroupInv6 GroupInv7 GroupInv8
  GroupInv9 GroupThms GroupThms2.

Definition cancel_or_none (x : option exn) : Prop := x = None \/ exists m, x = Some (ECancel m).

Lemma scope_exit_no_raise s c t exc : owns s t c -> cancel_or_none exc ->
  snd (scope_exit s c t exc) = XTrue \/ snd (scope_exit s c t exc) = XFalse.
Proof.
  intros [Ha [Hh [Hc _]]] Hx. unfold scope_exit. rewrite Ha, Hh, Hc. cbn [negb opt_eqb]. rewrite !Nat.eqb_refl. cbn [negb].
  match goal with |- context [if ?b then _ else _] => destruct b end; [|right; reflexivity].
  destruct Hx as [->|[m ->]]; [right; reflexivity|].
  destruct (is_anyio_cancel (ECancel m)); [left|right]; reflexivity.
Qed.

(* what a task resumed from a bare yield receives: nothing, or a CancelledError *)
Lemma incoming_none_shape s0 t : cancel_or_none (snd (incoming s0 t None)).
Proof.
  unfold incoming. cbn [snd]. destruct (k_must (tasks s0 t)); [right; eauto|left; reflexivity].
Qed.

(* resumption of the task inside the empty-group checkpoint of __aexit__ *)
Lemma resume_aexit_ck_grel s0 t fo g c exc : wake_ok s0 t fo -> k_ctl (tasks s0 t) = CAexitCk g c exc ->
  grel s0 (fst (resume s0 t fo)) g.
Proof.
  intros W Hc. pose proof (w_m _ _ _ W) as M0.
  assert (Hnr : running s0 <> Some t) by (rewrite (w_run _ _ _ W); discriminate).
  (* the handle is a HStep: the task's waiter is None *)
  assert (Hfo : fo = None).
  { pose proof (c_w s0 (m_c s0 M0) t Hnr) as Hw. rewrite Hc in Hw. cbn in Hw.
    destruct fo as [f|]; [|reflexivity]. destruct (w_fo _ _ _ W) as [H _]. congruence. }
  subst fo.
  assert (O : owns (incs s0 t) t c).
  { apply owns_incs. destruct (c_top s0 (m_c s0 M0) t c Hnr) as [H1 [H2 [H3 H4]]]; [rewrite Hc; reflexivity|].
    unfold owns. auto. }
  pose proof (incoming_none_shape s0 t) as Hinc.
  rewrite resume_unfold, Hc. cbn zeta.
  set (s := incs s0 t) in *. set (inc := snd (incoming s0 t None)) in *.
  apply (grel_of_groups s0 s); [reflexivity|].
  pose proof (scope_exit_no_raise s c t inc O Hinc) as Hx.
  pose proof (groups_scope_exit s c t inc) as Hg.
  destruct (scope_exit s c t inc) as [s1 x]. cbn [fst snd] in *.
  apply (grel_of_groups s s1); [exact Hg|].
  destruct Hx as [-> | ->].
  - apply wof_grel.
  - destruct Hinc as [->|[m ->]]; [apply wof_grel|]. cbn [is_cancel].
    match goal with |- grel _ (fst (aexit_wait_or_finish ?x _ _ _ _)) _ => apply (grel_of_groups _ x); [|apply wof_grel] end.
    now rewrite groups_scope_cancel.
Qed.

(* ---------------- the group operations ---------------- *)
Lemma groups_spawned s g sf : groups (spawned s g sf) = upd (groups s) g (gjoin (ntask s) (groups s g)).
Proof.
  rewrite spawned_eq. cbn zeta. cbn [call_soon set_ready groups]. rewrite groups_restart. reflexivity.
Qed.

Lemma groups_op_group_new s0 t : groups (fst (puppet_op s0 t (AGroupNew t))) =
  upd (groups s0) (ngroup s0) (mkGroup (nscope s0) false [] [] None [] false).
Proof. unfold puppet_op. rewrite new_scope_eq. cbn zeta. rewrite groups_ret. reflexivity. Qed.

Lemma groups_op_group_enter s0 t g : groups (fst (puppet_op s0 t (AGroupEnter t g))) =
  if g_entered (groups s0 g) then groups s0 else upd (groups s0) g (gr_entered true (groups s0 g)).
Proof.
  unfold puppet_op. set (s := begin_act s0 t). change (groups s0) with (groups s).
  destruct (g_entered (groups s g)); [now rewrite groups_ret|]. cbn zeta.
  match goal with |- context [scope_enter ?a ?b ?c] => pose proof (groups_scope_enter a b c) as H;
    destruct (scope_enter a b c) as [s2 e] end.
  cbn [fst] in H. rewrite groups_ret, H. reflexivity.
Qed.

Lemma group_active_begin s0 t g : group_active (begin_act s0 t) g = group_active s0 g.
Proof. reflexivity. Qed.

Lemma groups_op_spawn s0 t g : groups (fst (puppet_op s0 t (ASpawn t g))) =
  if group_active s0 g then upd (groups s0) g (gjoin (ntask s0) (groups s0 g)) else groups s0.
Proof.
  unfold puppet_op. rewrite group_active_begin. destruct (group_active s0 g); cbn [negb]; [|now rewrite groups_ret].
  rewrite spawn_task_eq, groups_ret, groups_spawned. reflexivity.
Qed.

Lemma groups_block s t c : groups (fst (blocked (set_ctl s t c))) = groups s.
Proof. reflexivity. Qed.

Lemma groups_op_start s0 t g : groups (fst (puppet_op s0 t (AStart t g))) =
  if group_active s0 g then upd (groups s0) g (gjoin (ntask s0) (groups s0 g)) else groups s0.
Proof.
  unfold puppet_op. rewrite group_active_begin. destruct (group_active s0 g); cbn [negb]; [|now rewrite groups_ret].
  rewrite new_fut_eq. cbv beta iota. rewrite spawn_task_eq. cbv beta iota.
  rewrite groups_block, groups_suspend_on, groups_spawned. reflexivity.
Qed.

(* AGroupExit: the body exception (if any) is recorded first, then the __aexit__ code runs *)
Definition after_body_exc (s0 : st) (t : tid) (g : gid) : st :=
  match k_held (tasks s0 t) with
  | Some e => if is_cancel e then s0 else upd_group s0 g (add_exc 0 e)
  | None => s0
  end.

Lemma op_group_exit_grel s0 t g :
  grel (after_body_exc s0 t g) (fst (puppet_op s0 t (AGroupExit t g))) g.
Proof.
  unfold puppet_op. set (s := begin_act s0 t). cbn zeta.
  match goal with |- context [match g_tasks (groups ?x g) with _ => _ end] => set (s1 := x) end.
  assert (E1 : groups s1 = groups (after_body_exc s0 t g)).
  { unfold s1, after_body_exc.
    assert (Eh : k_held (tasks s t) = k_held (tasks s0 t)) by (unfold s, begin_act; tcase t t; [reflexivity|contradiction]).
    rewrite Eh. destruct (k_held (tasks s0 t)) as [e|]; [|reflexivity].
    destruct (is_cancel e); [now rewrite groups_scope_cancel|].
    cbn [upd_group set_groups groups]. now rewrite groups_scope_cancel. }
  apply (grel_of_groups _ s1); [exact E1|].
  destruct (g_tasks (groups s1 g)); [|apply wof_grel].
  rewrite new_scope_eq. cbn zeta. apply grel_eq.
  cbn [blocked fst set_running set_ctl upd_task set_tasks bare_yield call_soon set_ready groups].
  now rewrite groups_scope_enter.
Qed.

(* task_done: the member leaves g_tasks; its error (if any, and if routed to the group) is appended *)
Lemma run_task_done_groups s0 t g : k_group (tasks s0 t) = Some g ->
  (forall e, k_done (tasks s0 t) = Some (OCanc e) -> is_cancel e = true) ->
  groups (run_task_done s0 t) = groups (tdcore s0 t g) \/
  exists e, k_done (tasks s0 t) = Some (OExc e) /\
            groups (run_task_done s0 t) = groups (upd_group (tdcore s0 t g) g (add_exc t e)).
Proof.
  intros Hg Hoc. rewrite run_task_done_eq. cbn zeta. change (tasks (set_running s0 None) t) with (tasks s0 t).
  rewrite Hg.
  set (s1 := match k_cur (tasks s0 t) with Some c => _ | None => _ end).
  assert (E1 : groups s1 = groups s0) by (unfold s1; destruct (k_cur (tasks s0 t)); reflexivity).
  set (s3 := tdcore s1 t g).
  assert (E3 : groups s3 = groups (tdcore s0 t g)).
  { unfold s3, tdcore. cbn [upd_task set_tasks upd_group set_groups groups]. now rewrite E1. }
  set (s4 := match g_fut (groups s3 g) with Some f => _ | None => _ end).
  assert (E4 : groups s4 = groups s3).
  { unfold s4. destruct (g_fut (groups s3 g)); [|reflexivity]. destruct (g_tasks (groups s3 g)); [|reflexivity].
    apply fc_groups. }
  assert (Hc : forall s5, groups (if eff_cancelled s5 (g_scope (groups s5 g)) then s5
                                 else scope_cancel s5 (g_scope (groups s5 g)) false) = groups s5).
  { intros s5. destruct (eff_cancelled s5 _); [reflexivity|apply groups_scope_cancel]. }
  assert (Ha : forall e, groups (upd_group s4 g (add_exc t e)) = groups (upd_group (tdcore s0 t g) g (add_exc t e))).
  { intros e. cbn [upd_group set_groups groups]. now rewrite E4, E3. }
  destruct (k_done (tasks s0 t)) as [[v|e|e]|] eqn:Ed.
  - left. destruct (k_startfut (tasks s0 t)) as [f|]; [|congruence].
    destruct (f_st (futs s4 f)); rewrite ?fc_groups; congruence.
  - destruct (k_startfut (tasks s0 t)) as [f|].
    + destruct (f_st (futs s4 f)).
      * left. rewrite fc_groups. congruence.
      * destruct (is_cancel e); [left; rewrite Hc; congruence|right; exists e; split; [reflexivity|]; now rewrite groups_scope_cancel, Ha].
      * destruct (is_cancel e); [left; rewrite Hc; congruence|right; exists e; split; [reflexivity|]; now rewrite groups_scope_cancel, Ha].
      * destruct (is_cancel e); [left; congruence|right; exists e; split; [reflexivity|]; now rewrite groups_scope_cancel, Ha].
    + destruct (is_cancel e); [left; rewrite Hc; congruence|right; exists e; split; [reflexivity|]; now rewrite groups_scope_cancel, Ha].
  - (* cancelled *)
    rewrite (Hoc e eq_refl). left. destruct (k_startfut (tasks s0 t)) as [f|]; [|rewrite Hc; congruence].
    destruct (f_st (futs s4 f)); rewrite ?fc_groups, ?Hc; congruence.
  - left. destruct (k_startfut (tasks s0 t)) as [f|]; [|congruence].
    destruct (f_st (futs s4 f)); rewrite ?fc_groups; congruence.
Qed.


(* ---------------- per-group case analysis of one step ---------------- *)
Definition grec (x x' : group) : Prop :=
  g_ever x' = g_ever x /\ g_tasks x' = g_tasks x /\ g_scope x' = g_scope x /\ g_excs x' = g_excs x /\
  g_entered x' = g_entered x /\ (g_left x' = g_left x \/ (g_left x' = true /\ g_tasks x = [])).

Lemma grel_grec s s' g : grel s s' g -> grec (groups s g) (groups s' g).
Proof. intros [_ H]. exact H. Qed.

Lemma grel_other s s' g g' : grel s s' g -> g' <> g -> groups s' g' = groups s g'.
Proof. intros [H _]. apply H. Qed.

Lemma wake_ok_step s t : Inv s -> In (HStep t) (ready s) -> wake_ok (pop s (HStep t)) t None.
Proof.
  intros [M Hr] Hin. destruct (M_pop s (HStep t) M Hin) as [M1 [Hnt _]].
  destruct (k_step s (m_k s M) t Hin) as [H1 [H2 [H3 H4]]].
  constructor; auto. apply Hnt. cbn. auto.
Qed.

Lemma wake_ok_wake s t f : Inv s -> In (HWake t f) (ready s) -> wake_ok (pop s (HWake t f)) t (Some f).
Proof.
  intros [M Hr] Hin. destruct (M_pop s (HWake t f) M Hin) as [M1 [Hnt _]].
  destruct (k_wake s (m_k s M) t f Hin) as [H1 H2]. destruct (k_w1 s (m_k s M) t f H1) as [H3 [H4 [H5 [H6 H7]]]].
  constructor; auto. apply Hnt. cbn. auto.
Qed.

Definition body_exc_case (s s' : st) (o : op) (g : gid) : Prop :=
  exists t e, o = AGroupExit t g /\ idle s t = true /\ k_held (tasks s t) = Some e /\ is_cancel e = false /\
              grec (add_exc 0 e (groups s g)) (groups s' g).

Definition task_done_case (s s' : st) (o : op) (g : gid) : Prop :=
  exists t, o = ARun (HTaskDone t) /\ In (HTaskDone t) (ready s) /\ k_group (tasks s t) = Some g /\
    (groups s' g = td_grp t (groups s g) \/
     exists e, k_done (tasks s t) = Some (OExc e) /\ groups s' g = add_exc t e (td_grp t (groups s g))).

Definition spawn_case (s s' : st) (o : op) (g : gid) : Prop :=
  exists t, (o = ASpawn t g \/ o = AStart t g) /\ idle s t = true /\ group_active s g = true /\
            groups s' g = gjoin (ntask s) (groups s g).

Definition aexit_case (s s' : st) (o : op) (g : gid) : Prop :=
  grec (groups s g) (groups s' g) /\
  ((exists t, o = AGroupExit t g /\ idle s t = true) \/
   (exists t h w exc, o = ARun h /\ In h (ready s) /\ (h = HStep t \/ exists f, h = HWake t f) /\
      (k_ctl (tasks s t) = CAexitWait g w exc \/ k_ctl (tasks s t) = CAexitCk g w exc))).

Theorem step_group_cases s o g : reach s -> let s' := fst (step s o) in
  groups s' g = groups s g \/
  (exists t, o = AGroupNew t /\ idle s t = true /\ g = ngroup s /\
             groups s' g = mkGroup (nscope s) false [] [] None [] false) \/
  (exists t, o = AGroupEnter t g /\ groups s' g = gr_entered true (groups s g)) \/
  spawn_case s s' o g \/ body_exc_case s s' o g \/ aexit_case s s' o g \/ task_done_case s s' o g.
Proof.
  intros R. cbn zeta. pose proof (reach_inv s R) as I0.
  destruct (touches_groups s o) eqn:Et; [|left; now rewrite step_groups_frame].
  unfold step. destruct (actor o) as [t|] eqn:Ea.
  - destruct (idle s t) eqn:Ei; cbn [negb]; [|left; reflexivity].
    destruct o; try discriminate; cbn in Ea; injection Ea as <-.
    + (* AGroupNew *) rewrite groups_op_group_new. unfold upd. destruct (Nat.eqb_spec g (ngroup s)) as [->|Hg]; [|left; reflexivity].
      right; left. exists t0. auto.
    + (* AGroupEnter *) rewrite groups_op_group_enter. destruct (g_entered (groups s g0)); [left; reflexivity|].
      unfold upd. destruct (Nat.eqb_spec g g0) as [->|Hg]; [|left; reflexivity]. right; right; left. exists t0. auto.
    + (* AGroupExit *) pose proof (op_group_exit_grel s t0 g0) as Hrel.
      destruct (Nat.eq_dec g g0) as [->|Hg].
      * apply grel_grec in Hrel. unfold after_body_exc in Hrel.
        assert (Hax : aexit_case s (fst (puppet_op s t0 (AGroupExit t0 g0))) (AGroupExit t0 g0) g0 ->
                      aexit_case s (fst (puppet_op s t0 (AGroupExit t0 g0))) (AGroupExit t0 g0) g0) by auto.
        destruct (k_held (tasks s t0)) as [e|] eqn:Eh;
          [|right; right; right; right; right; left; split; [exact Hrel|left; exists t0; auto]].
        destruct (is_cancel e) eqn:Ec; [right; right; right; right; right; left; split; [exact Hrel|left; exists t0; auto]|].
        right; right; right; right; left. exists t0, e. cbn [upd_group set_groups groups] in Hrel. rewrite upd_same in Hrel. auto.
      * left. rewrite (grel_other _ _ _ _ Hrel Hg). unfold after_body_exc.
        destruct (k_held (tasks s t0)) as [e|]; [|reflexivity]. destruct (is_cancel e); [reflexivity|].
        cbn [upd_group set_groups groups]. now apply upd_other.
    + (* ASpawn *) destruct (group_active s g0) eqn:Eact; [|left; now rewrite groups_op_spawn, Eact].
      destruct (Nat.eq_dec g g0) as [->|Hg]; [|left; rewrite groups_op_spawn, Eact; now apply upd_other].
      right; right; right; left. exists t0. refine (conj (or_introl eq_refl) (conj Ei (conj Eact _))).
      rewrite groups_op_spawn, Eact. apply upd_same.
    + (* AStart *) destruct (group_active s g0) eqn:Eact; [|left; now rewrite groups_op_start, Eact].
      destruct (Nat.eq_dec g g0) as [->|Hg]; [|left; rewrite groups_op_start, Eact; now apply upd_other].
      right; right; right; left. exists t0. refine (conj (or_intror eq_refl) (conj Ei (conj Eact _))).
      rewrite groups_op_start, Eact. apply upd_same.
  - destruct o; try discriminate.
    unfold run_handle. destruct (existsb (handle_eqb h) (ready s)) eqn:Eh; cbn [negb]; [|left; reflexivity].
    apply existsb_handle in Eh. rewrite pop_eq_frame.
    destruct h as [t|t f|c|t|f tm|c tm]; try discriminate.
    + (* HStep of a task inside __aexit__ *)
      cbn in Et. pose proof (wake_ok_step s t I0 Eh) as W.
      change (k_ctl (tasks s t)) with (k_ctl (tasks (pop s (HStep t)) t)) in Et.
      destruct (k_ctl (tasks (pop s (HStep t)) t)) as [| |k|f tm|g0 ws exc|g0 c exc|g0 child f|child c e wf|h wf|] eqn:Ec; try discriminate.
      * pose proof (resume_aexit_wait_grel _ t None g0 ws exc Ec) as Hrel.
        destruct (Nat.eq_dec g g0) as [->|Hg];
          [right; right; right; right; right; left; split; [apply (grel_grec _ _ _ Hrel)|right; exists t, (HStep t), ws, exc; auto]|].
        left. apply (grel_other _ _ _ _ Hrel Hg).
      * pose proof (resume_aexit_ck_grel _ t None g0 c exc W Ec) as Hrel.
        destruct (Nat.eq_dec g g0) as [->|Hg];
          [right; right; right; right; right; left; split; [apply (grel_grec _ _ _ Hrel)|right; exists t, (HStep t), c, exc; auto]|].
        left. apply (grel_other _ _ _ _ Hrel Hg).
    + cbn in Et. pose proof (wake_ok_wake s t f I0 Eh) as W.
      change (k_ctl (tasks s t)) with (k_ctl (tasks (pop s (HWake t f)) t)) in Et.
      destruct (k_ctl (tasks (pop s (HWake t f)) t)) as [| |k|f0 tm|g0 ws exc|g0 c exc|g0 child f0|child c e wf|h wf|] eqn:Ec; try discriminate.
      * pose proof (resume_aexit_wait_grel _ t (Some f) g0 ws exc Ec) as Hrel.
        destruct (Nat.eq_dec g g0) as [->|Hg];
          [right; right; right; right; right; left; split; [apply (grel_grec _ _ _ Hrel)|right; exists t, (HWake t f), ws, exc; eauto 8]|].
        left. apply (grel_other _ _ _ _ Hrel Hg).
      * pose proof (resume_aexit_ck_grel _ t (Some f) g0 c exc W Ec) as Hrel.
        destruct (Nat.eq_dec g g0) as [->|Hg];
          [right; right; right; right; right; left; split; [apply (grel_grec _ _ _ Hrel)|right; exists t, (HWake t f), c, exc; eauto 8]|].
        left. apply (grel_other _ _ _ _ Hrel Hg).
    + (* HTaskDone *)
      cbn [fst]. set (s1 := pop s (HTaskDone t)).
      destruct (k_group (tasks s t)) as [g0|] eqn:Eg.
      * destruct I0 as [M0 _].
        assert (Hoc : forall e, k_done (tasks s1 t) = Some (OCanc e) -> is_cancel e = true).
        { intros e. apply (c_oc s (m_c s M0) t e). }
        pose proof (run_task_done_groups s1 t g0 Eg Hoc) as H.
        pose proof (tdcore_groups s1 t g0 g) as [T1 [T2 [T3 [T4 T5]]]].
        destruct (Nat.eq_dec g g0) as [->|Hg].
        -- right; right; right; right; right; right. exists t. refine (conj eq_refl (conj Eh (conj Eg _))).
           assert (Etd : groups (tdcore s1 t g0) g0 = td_grp t (groups s g0)).
           { unfold tdcore. cbn [upd_task set_tasks upd_group set_groups groups]. now rewrite upd_same. }
           destruct H as [H|[e [He H]]]; [left; now rewrite H|right]. exists e. split; [exact He|].
           rewrite H. cbn [upd_group set_groups groups]. now rewrite upd_same, Etd.
        -- left. assert (Etd : groups (tdcore s1 t g0) g = groups s g).
           { unfold tdcore. cbn [upd_task set_tasks upd_group set_groups groups]. now apply upd_other. }
           destruct H as [H|[e [He H]]]; rewrite H; [exact Etd|].
           cbn [upd_group set_groups groups]. rewrite upd_other; [exact Etd|exact Hg].
      * left. rewrite run_task_done_eq. cbn zeta. change (tasks (set_running s1 None) t) with (tasks s t).
        now rewrite Eg.
Qed.
