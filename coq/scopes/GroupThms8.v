(* Frame of one step on the cancel-scope table and on the control state / current scope of the tasks that do
   not act in that step. *)
From AV Require Import Base Machine GroupInv GroupInv2 GroupInv3 GroupInv4 GroupInv5 GroupInv6 GroupInv7 GroupInv8
  GroupInv9 GroupThms2 GroupThms5.

Definition sc_same (x x' : scope) : Prop :=
  s_active x' = s_active x /\ s_host x' = s_host x /\ s_parent x' = s_parent x.

(* control states a task can be in right after its allocation *)
Definition newctl (c : ctl) : Prop := c = CDone \/ c = CNew \/ c = CIdle.

(* scopes below n: an inactive scope not in En, and an active scope not hosted by the acting task t0, keep
   active/host/parent; tasks below m other than t0 keep their scope pointer and control state *)
Definition SFn (n m : nat) (t0 : tid) (En : sid -> Prop) (s s' : st) : Prop :=
  n <= nscope s' /\ m <= ntask s' /\
  (forall c, c < n ->
     (s_active (scopes s c) = false -> ~ En c -> sc_same (scopes s c) (scopes s' c)) /\
     (s_active (scopes s c) = true -> s_host (scopes s c) <> Some t0 -> sc_same (scopes s c) (scopes s' c))) /\
  (forall t, t <> t0 ->
     (t < m -> k_cur (tasks s' t) = k_cur (tasks s t) /\ k_ctl (tasks s' t) = k_ctl (tasks s t)) /\
     (m <= t -> newctl (k_ctl (tasks s t)) -> newctl (k_ctl (tasks s' t)))).

Lemma sc_same_refl x : sc_same x x.
Proof. unfold sc_same. auto. Qed.

Lemma SFn_refl n m (t0 : tid) (En : sid -> Prop) s : n <= nscope s -> m <= ntask s -> SFn n m t0 En s s.
Proof. intros Hn Hm. refine (conj Hn (conj Hm (conj _ _))); [intros c _; split; intros; apply sc_same_refl|intros t _; auto]. Qed.

Lemma SFn_trans n m (t0 : tid) (En : sid -> Prop) a b c : SFn n m t0 En a b -> SFn n m t0 En b c -> SFn n m t0 En a c.
Proof.
  intros [A1 [A2 [A3 A4]]] [B1 [B2 [B3 B4]]]. refine (conj B1 (conj B2 (conj _ _))).
  - intros x Hx. destruct (A3 x Hx) as [Ai Aa]. destruct (B3 x Hx) as [Bi Ba]. split.
    + intros Hi He. destruct (Ai Hi He) as [E1 [E2 E3]]. rewrite <- E1 in Hi.
      destruct (Bi Hi He) as [F1 [F2 F3]]. unfold sc_same. rewrite F1, F2, F3. auto.
    + intros Ha Hh. destruct (Aa Ha Hh) as [E1 [E2 E3]]. rewrite <- E1 in Ha. rewrite <- E2 in Hh.
      destruct (Ba Ha Hh) as [F1 [F2 F3]]. unfold sc_same. rewrite F1, F2, F3. auto.
  - intros t Hne. destruct (A4 t Hne) as [Al Ag]. destruct (B4 t Hne) as [Bl Bg]. split.
    + intros Ht. destruct (Al Ht) as [E1 E2]. destruct (Bl Ht) as [F1 F2]. rewrite F1, F2. auto.
    + intros Ht H. apply Bg; auto.
Qed.

(* a block that leaves the scope table alone and changes at most the acting task's record (plus irrelevant
   fields of others) *)
Lemma SFn_eq n m (t0 : tid) (En : sid -> Prop) s s' : n <= nscope s' -> m <= ntask s' -> scopes s' = scopes s ->
  (forall t, t <> t0 -> k_cur (tasks s' t) = k_cur (tasks s t) /\ k_ctl (tasks s' t) = k_ctl (tasks s t)) ->
  SFn n m t0 En s s'.
Proof.
  intros Hn Hm Es Ht. refine (conj Hn (conj Hm (conj _ _))).
  - intros c _. rewrite Es. split; intros; apply sc_same_refl.
  - intros t Hne. destruct (Ht t Hne) as [E1 E2]. split; [auto|]. intros _. now rewrite E2.
Qed.

Lemma SFn_same_tasks n m (t0 : tid) (En : sid -> Prop) s s' : n <= nscope s' -> m <= ntask s' -> scopes s' = scopes s ->
  tasks s' = tasks s -> SFn n m t0 En s s'.
Proof. intros Hn Hm Es Et. apply SFn_eq; auto. intros t _. now rewrite Et. Qed.

Lemma SFn_upd_task n m (t0 : tid) (En : sid -> Prop) s x g : n <= nscope s -> m <= ntask s ->
  (x = t0 \/ forall k, k_cur (g k) = k_cur k /\ k_ctl (g k) = k_ctl k) -> SFn n m t0 En s (upd_task s x g).
Proof.
  intros Hn Hm Hx. apply SFn_eq; auto. intros t Hne. cbn [upd_task set_tasks tasks]. unfold upd.
  destruct (Nat.eqb_spec t x) as [->|Hd]; [|auto]. destruct Hx as [->|Hg]; [contradiction|apply Hg].
Qed.

Lemma SFn_kframe n m (t0 : tid) (En : sid -> Prop) C T s s' : kframe C T s s' -> n <= nscope s -> m <= ntask s ->
  (forall c, C c -> c < n -> (s_active (scopes s c) = false -> En c) /\
                             (s_active (scopes s c) = true -> s_host (scopes s c) = Some t0)) ->
  (forall t, T t -> t = t0) -> SFn n m t0 En s s'.
Proof.
  intros F Hn Hm HC HT. refine (conj _ (conj _ (conj _ _))).
  - rewrite (fr_nscope _ _ _ _ F). exact Hn.
  - rewrite (fr_ntask _ _ _ _ F). exact Hm.
  - intros c Hc. split.
    + intros Hi He. apply (fr_sc _ _ _ _ F). intros HCc. destruct (HC c HCc Hc) as [H _]. apply He, H, Hi.
    + intros Ha Hh. apply (fr_sc _ _ _ _ F). intros HCc. destruct (HC c HCc Hc) as [_ H]. apply Hh, H, Ha.
  - intros t Hne. assert (Ec : k_ctl (tasks s' t) = k_ctl (tasks s t)) by (pose proof (tview_inv _ _ (fr_tv _ _ _ _ F t)); tauto).
    split.
    + intros _. split; [|exact Ec]. apply (fr_cur _ _ _ _ F). intros HTt. apply Hne, HT, HTt.
    + intros _. now rewrite Ec.
Qed.

Lemma SFn_kstar_none n m (t0 : tid) (En : sid -> Prop) s s' : kstar none_s none_t s s' -> n <= nscope s -> m <= ntask s -> SFn n m t0 En s s'.
Proof.
  intros H Hn Hm. apply (SFn_kframe n m t0 En _ _ _ _ (kframe_kstar _ _ _ _ H)); [exact Hn|exact Hm|intros ? []|intros ? []].
Qed.

Lemma SFn_scope_enter n m (t0 : tid) (En : sid -> Prop) s c : n <= nscope s -> m <= ntask s -> (c < n -> En c) ->
  SFn n m t0 En s (fst (scope_enter s c t0)).
Proof.
  intros Hn Hm He. destruct (s_active (scopes s c)) eqn:Ea.
  - rewrite scope_enter_active; auto. apply SFn_refl; auto.
  - apply (SFn_kframe n m t0 En _ _ _ _ (kframe_kstar _ _ _ _ (ks_scope_enter s c t0))); [exact Hn|exact Hm| |].
    + intros x <- Hx. split; [auto|congruence].
    + intros t <-. reflexivity.
Qed.

Lemma SFn_scope_exit n m (t0 : tid) (En : sid -> Prop) s c exc : n <= nscope s -> m <= ntask s ->
  SFn n m t0 En s (fst (scope_exit s c t0 exc)).
Proof.
  intros Hn Hm. destruct (scope_exit_cases s c t0 exc) as [E|[Ha [Hh Hc]]].
  - rewrite E. apply SFn_refl; auto.
  - apply (SFn_kframe n m t0 En _ _ _ _ (kframe_kstar _ _ _ _ (ks_scope_exit s c t0 exc))); [exact Hn|exact Hm| |].
    + intros x <- Hx. split; [congruence|auto].
    + intros t <-. reflexivity.
Qed.

(* bounds are monotone along the blocks: helper to re-establish n <= nscope, m <= ntask *)
Lemma SFn_bounds n m (t0 : tid) (En : sid -> Prop) s s' : SFn n m t0 En s s' -> n <= nscope s' /\ m <= ntask s'.
Proof. intros [H1 [H2 _]]. auto. Qed.

(* the same with the bounds of the source state as a premise: composes without side conditions *)
Definition SFb (n m : nat) (t0 : tid) (En : sid -> Prop) (s s' : st) : Prop :=
  n <= nscope s -> m <= ntask s -> SFn n m t0 En s s'.

Lemma SFb_refl n m (t0 : tid) (En : sid -> Prop) s : SFb n m t0 En s s.
Proof. intros Hn Hm. apply SFn_refl; auto. Qed.

Lemma SFb_trans n m (t0 : tid) (En : sid -> Prop) a b c : SFb n m t0 En a b -> SFb n m t0 En b c -> SFb n m t0 En a c.
Proof.
  intros A B Hn Hm. pose proof (A Hn Hm) as A'. destruct (SFn_bounds _ _ _ _ _ _ A') as [Hn' Hm'].
  eapply SFn_trans; [exact A'|apply B; assumption].
Qed.

Lemma SFb_same n m (t0 : tid) (En : sid -> Prop) s s' : nscope s <= nscope s' -> ntask s <= ntask s' ->
  scopes s' = scopes s -> tasks s' = tasks s -> SFb n m t0 En s s'.
Proof. intros H1 H2 Es Et Hn Hm. apply SFn_same_tasks; auto; lia. Qed.

Lemma SFb_upd_self n m (t0 : tid) (En : sid -> Prop) s g : SFb n m t0 En s (upd_task s t0 g).
Proof. intros Hn Hm. apply SFn_upd_task; auto. Qed.

Lemma SFb_upd_irrel n m (t0 : tid) (En : sid -> Prop) s x g : tk_irrel g -> SFb n m t0 En s (upd_task s x g).
Proof.
  intros Hg Hn Hm. apply SFn_upd_task; auto. right. intros k.
  destruct (Hg k) as [H1 [_ [_ [H4 _]]]]. auto.
Qed.

Lemma SFb_kstar n m (t0 : tid) (En : sid -> Prop) s s' : kstar none_s none_t s s' -> SFb n m t0 En s s'.
Proof. intros H Hn Hm. apply SFn_kstar_none; auto. Qed.

Lemma SFb_scope_enter n m (t0 : tid) (En : sid -> Prop) s c : (c < n -> En c) ->
  SFb n m t0 En s (fst (scope_enter s c t0)).
Proof. intros He Hn Hm. apply SFn_scope_enter; auto. Qed.

Lemma SFb_scope_exit n m (t0 : tid) (En : sid -> Prop) s c exc : SFb n m t0 En s (fst (scope_exit s c t0 exc)).
Proof. intros Hn Hm. apply SFn_scope_exit; auto. Qed.

Lemma SFb_fc n m (t0 : tid) (En : sid -> Prop) s f v : SFb n m t0 En s (fut_complete s f v).
Proof. apply SFb_same; rewrite ?fc_nscope, ?fc_ntask, ?fc_scopes, ?fc_tasks; auto. Qed.

(* a fresh scope: outside the domain *)
Lemma SFb_ns n m (t0 : tid) (En : sid -> Prop) s d sh : SFb n m t0 En s (ns s d sh).
Proof.
  intros Hn Hm. refine (conj _ (conj Hm (conj _ _))).
  - rewrite ns_nscope. lia.
  - intros c Hc. rewrite ns_scope_old; [|lia]. split; intros; apply sc_same_refl.
  - intros t _. auto.
Qed.

Lemma SFb_fresh_enter n m (t0 : tid) (En : sid -> Prop) s d sh :
  SFb n m t0 En s (fst (scope_enter (ns s d sh) (nscope s) t0)).
Proof.
  intros Hn Hm. eapply SFn_trans; [apply SFb_ns; auto|].
  apply SFn_scope_enter; [rewrite ns_nscope; lia|exact Hm|]. intros H. lia.
Qed.

Lemma SFb_talloc n m (t0 : tid) (En : sid -> Prop) s k ev : newctl (k_ctl k) -> SFb n m t0 En s (talloc s k ev).
Proof.
  intros Hk Hn Hm. refine (conj Hn (conj _ (conj _ _))).
  - unfold talloc. cbn. lia.
  - intros c _. split; intros; apply sc_same_refl.
  - intros t _. unfold talloc. cbn [tasks]. split.
    + intros Ht. rewrite upd_other; [auto|lia].
    + intros _ H. unfold upd. destruct (Nat.eqb_spec t (ntask s)); [exact Hk|exact H].
Qed.

Lemma SFb_suspend_on n m (t0 : tid) (En : sid -> Prop) s f : SFb n m t0 En s (suspend_on s t0 f).
Proof.
  unfold suspend_on. destruct (f_st (futs s f)).
  - set (s2 := upd_task _ t0 (tk_waiter (Some f))).
    assert (T2 : SFb n m t0 En s s2).
    { unfold s2. eapply SFb_trans; [|apply SFb_upd_self]. apply SFb_same; auto. }
    destruct (k_must (tasks s t0)); [|exact T2].
    eapply SFb_trans; [exact T2|]. eapply SFb_trans; [apply SFb_fc|apply SFb_upd_self].
  - eapply SFb_trans; [|apply SFb_same; auto]. eapply SFb_trans; [|apply SFb_upd_self]. apply SFb_same; auto.
  - eapply SFb_trans; [|apply SFb_same; auto]. eapply SFb_trans; [|apply SFb_upd_self]. apply SFb_same; auto.
  - eapply SFb_trans; [|apply SFb_same; auto]. eapply SFb_trans; [|apply SFb_upd_self]. apply SFb_same; auto.
Qed.

Lemma SFb_park n m (t0 : tid) (En : sid -> Prop) s : SFb n m t0 En s (park s t0).
Proof.
  unfold park. rewrite new_fut_eq. eapply SFb_trans; [|apply SFb_upd_self].
  eapply SFb_trans; [|apply SFb_suspend_on]. apply SFb_same; auto.
Qed.

Lemma SFb_ret n m (t0 : tid) (En : sid -> Prop) s r : SFb n m t0 En s (fst (ret_to_puppet s t0 r)).
Proof.
  unfold ret_to_puppet. cbn [fst]. eapply SFb_trans; [|apply SFb_same; auto].
  eapply SFb_trans; [|apply SFb_park]. destruct r; try apply SFb_refl. apply SFb_upd_self.
Qed.

Lemma SFb_set_running n m (t0 : tid) (En : sid -> Prop) s r : SFb n m t0 En s (set_running s r).
Proof. apply SFb_same; auto. Qed.

Lemma SFb_block n m (t0 : tid) (En : sid -> Prop) s c : SFb n m t0 En s (fst (blocked (set_ctl s t0 c))).
Proof. cbn [blocked fst]. eapply SFb_trans; [|apply SFb_set_running]. apply SFb_upd_self. Qed.

Ltac speel L := eapply SFb_trans; [|apply L].
Ltac sby_eq := apply SFb_same; auto.

Lemma SFb_scope_cancel n m (t0 : tid) (En : sid -> Prop) s c b : SFb n m t0 En s (scope_cancel s c b).
Proof. apply SFb_kstar, ks_scope_cancel. Qed.
Lemma SFb_restart n m (t0 : tid) (En : sid -> Prop) s x : SFb n m t0 En s (restart s x).
Proof. apply SFb_kstar, ks_restart. Qed.
Lemma SFb_scope_timeout n m (t0 : tid) (En : sid -> Prop) s c : SFb n m t0 En s (scope_timeout s c).
Proof. apply SFb_kstar, ks_scope_timeout. Qed.
Lemma SFb_cancel_timeout n m (t0 : tid) (En : sid -> Prop) s c : SFb n m t0 En s (cancel_timeout s c).
Proof. apply SFb_kstar, ks_cancel_timeout. Qed.
Lemma SFb_deliver_top n m (t0 : tid) (En : sid -> Prop) s c : SFb n m t0 En s (deliver_top s c).
Proof. apply SFb_kstar, ks_deliver_top. Qed.
Lemma SFb_keeps n m (t0 : tid) (En : sid -> Prop) s c g : sc_keeps g -> SFb n m t0 En s (upd_scope s c g).
Proof. intros Hg. apply SFb_kstar, ks_one, kp_scope_keeps, Hg. Qed.

Lemma SFb_event_set n m (t0 : tid) (En : sid -> Prop) s e : SFb n m t0 En s (event_set s e).
Proof.
  rewrite event_set_eq. destruct (e_set (events s e)); [apply SFb_refl|].
  assert (H : forall l a, SFb n m t0 En a (fold_left (fun a f => fut_complete a f (FRes 1)) l a)).
  { induction l as [|f l IH]; intros a; cbn [fold_left]; [apply SFb_refl|].
    eapply SFb_trans; [apply SFb_fc|apply IH]. }
  eapply SFb_trans; [|apply H]. sby_eq.
Qed.

Lemma SFb_event_wait n m (t0 : tid) (En : sid -> Prop) s e : SFb n m t0 En s (fst (event_wait s t0 e)).
Proof.
  unfold event_wait. destruct (e_set (events s e)); [sby_eq|].
  rewrite new_fut_eq. cbn [fst]. speel SFb_suspend_on. sby_eq.
Qed.

Lemma SFb_finish_task n m (t0 : tid) (En : sid -> Prop) s o : SFb n m t0 En s (finish_task s t0 o).
Proof.
  rewrite finish_task_eq. cbn zeta. speel SFb_set_running.
  destruct (k_group (tasks s t0)); [speel SFb_same; auto|]; apply SFb_upd_self.
Qed.

Lemma SFb_spawned n m (t0 : tid) (En : sid -> Prop) s g sf : SFb n m t0 En s (spawned s g sf).
Proof.
  rewrite spawned_eq. cbn zeta. speel SFb_same; auto. speel SFb_restart.
  speel SFb_same; auto. speel SFb_keeps; [|apply keeps_tasks].
  eapply SFb_trans; [apply (SFb_ns n m t0 En s None false)|apply SFb_talloc]. right; left. reflexivity.
Qed.

Lemma SFb_aexit_raise n m (t0 : tid) (En : sid -> Prop) s g e : SFb n m t0 En s (fst (aexit_raise s t0 g e)).
Proof.
  unfold aexit_raise. pose proof (SFb_scope_exit n m t0 En s (g_scope (groups s g)) (Some e)) as H.
  destruct (scope_exit s (g_scope (groups s g)) t0 (Some e)) as [s1 x]. cbn [fst] in H.
  destruct x; cbn [fst].
  - speel SFb_upd_self. eapply SFb_trans; [exact H|sby_eq].
  - eapply SFb_trans; [exact H|sby_eq].
  - eapply SFb_trans; [exact H|sby_eq].
Qed.

Lemma SFb_aexit_finish n m (t0 : tid) (En : sid -> Prop) s g exc : SFb n m t0 En s (fst (aexit_finish s t0 g exc)).
Proof.
  unfold aexit_finish. destruct (map snd (g_excs (groups s g))); [|apply SFb_aexit_raise].
  destruct exc; [apply SFb_aexit_raise|].
  pose proof (SFb_scope_exit n m t0 En s (g_scope (groups s g)) None) as H.
  destruct (scope_exit s (g_scope (groups s g)) t0 None) as [s1 x]. cbn [fst] in H.
  destruct x; cbn [fst]; (eapply SFb_trans; [exact H|sby_eq]).
Qed.

Lemma SFb_ret_pair n m (t0 : tid) (En : sid -> Prop) s0 (p : st * res) : SFb n m t0 En s0 (fst p) ->
  SFb n m t0 En s0 (fst (let '(s2, r) := p in ret_to_puppet s2 t0 r)).
Proof. destruct p as [s2 r]. cbn [fst]. intros H. eapply SFb_trans; [exact H|apply SFb_ret]. Qed.

Lemma SFb_wof n m (t0 : tid) (En : sid -> Prop) s g ws exc :
  SFb n m t0 En s (fst (aexit_wait_or_finish s t0 g ws exc)).
Proof.
  unfold aexit_wait_or_finish. destruct (g_tasks (groups s g)) as [|a l].
  - destruct ws as [w|].
    + pose proof (SFb_scope_exit n m t0 En s w None) as H. destruct (scope_exit s w t0 None) as [s1 x]. cbn [fst] in H.
      destruct x; apply SFb_ret_pair; (eapply SFb_trans; [exact H|]);
        first [apply SFb_aexit_finish|apply SFb_aexit_raise].
    + apply SFb_ret_pair, SFb_aexit_finish.
  - assert (Hb : forall s0 w, SFb n m t0 En s s0 ->
      SFb n m t0 En s (fst (let '(s1, f) := new_fut s0 in
                    let s2 := upd_group s1 g (gr_fut (Some f)) in
                    blocked (set_ctl (suspend_on s2 t0 f) t0 (CAexitWait g w exc))))).
    { intros s0 w E0. rewrite new_fut_eq. cbn zeta. speel SFb_block. speel SFb_suspend_on.
      eapply SFb_trans; [exact E0|sby_eq]. }
    destruct ws as [w|].
    + apply Hb, SFb_refl.
    + rewrite new_scope_eq. cbn [fst]. apply Hb. apply SFb_fresh_enter.
Qed.

(* ---------------- per operation ---------------- *)
Definition entered (s : st) (o : op) : sid -> Prop :=
  match o with
  | AEnter _ c => eq c
  | AGroupEnter _ g => eq (g_scope (groups s g))
  | ARun (HStep t) | ARun (HWake t _) =>
      match k_ctl (tasks s t), k_group (tasks s t) with
      | CNew, Some _ => eq (k_hscope (tasks s t))
      | _, _ => none_s
      end
  | _ => none_s
  end.

Definition acting (o : op) : tid :=
  match actor o with
  | Some t => t
  | None => match o with ARun (HStep t) | ARun (HWake t _) | ARun (HTaskDone t) => t | _ => 0 end
  end.

Lemma SFb_begin n m (t0 : tid) (En : sid -> Prop) s : SFb n m t0 En s (begin_act s t0).
Proof. unfold begin_act. speel SFb_set_running. apply SFb_upd_self. Qed.

Lemma SFb_puppet_op n m s0 t o : SFb n m t (entered s0 o) s0 (fst (puppet_op s0 t o)).
Proof.
  unfold puppet_op. pose proof (SFb_begin n m t (entered s0 o) s0) as B. set (s := begin_act s0 t) in *.
  destruct o; try apply SFb_refl; (eapply SFb_trans; [exact B|]).
  - rewrite new_scope_eq. speel SFb_ret. apply SFb_ns.
  - pose proof (SFb_scope_enter n m t (entered s0 (AEnter t0 c)) s c (fun _ => eq_refl)) as H.
    destruct (scope_enter s c t) as [s1 e]. cbn [fst] in H. speel SFb_ret. exact H.
  - pose proof (SFb_scope_exit n m t (entered s0 (AExit t0 c failat)) s c (k_held (tasks s t))) as H.
    destruct (scope_exit s c t (k_held (tasks s t))) as [s1 x]. cbn [fst] in H.
    destruct x; [|speel SFb_ret; exact H|speel SFb_ret; exact H].
    match goal with |- context [if ?b then _ else _] => destruct b end; speel SFb_ret;
      (eapply SFb_trans; [exact H|apply SFb_upd_self]).
  - speel SFb_ret. apply SFb_scope_cancel.
  - destruct (Bool.eqb (s_shield (scopes s c)) b); [speel SFb_ret; apply SFb_refl|]. cbn zeta. speel SFb_ret.
    destruct b; [apply SFb_keeps, keeps_shield|]. speel SFb_restart. apply SFb_keeps, keeps_shield.
  - cbn zeta. speel SFb_ret. match goal with |- context [if ?b then _ else _] => destruct b end.
    + speel SFb_scope_timeout. speel SFb_cancel_timeout. apply SFb_keeps, keeps_deadline.
    + speel SFb_cancel_timeout. apply SFb_keeps, keeps_deadline.
  - rewrite new_scope_eq. cbn zeta. speel SFb_ret. speel SFb_same; auto. apply SFb_ns.
  - destruct (g_entered (groups s g)); [speel SFb_ret; apply SFb_refl|]. cbn zeta.
    match goal with |- context [scope_enter ?a ?b ?c] =>
      pose proof (SFb_scope_enter n m t (entered s0 (AGroupEnter t0 g)) a b) as H end.
    match type of H with (_ -> ?P) => assert (H' : P) end.
    { apply H. intros _. cbn [entered upd_group set_groups groups]. rewrite upd_same. reflexivity. }
    clear H. destruct (scope_enter _ _ t) as [s2 e]. cbn [fst] in H'. speel SFb_ret.
    eapply SFb_trans; [|exact H']. sby_eq.
  - (* AGroupExit *) cbn zeta.
    match goal with |- context [match g_tasks (groups ?x g) with _ => _ end] => set (s1 := x) end.
    assert (T1 : SFb n m t (entered s0 (AGroupExit t0 g)) s s1).
    { unfold s1. destruct (k_held (tasks s t)) as [e|]; [|apply SFb_refl].
      destruct (is_cancel e); [apply SFb_scope_cancel|]. speel SFb_same; auto. apply SFb_scope_cancel. }
    eapply SFb_trans; [exact T1|]. destruct (g_tasks (groups s1 g)); [|apply SFb_wof].
    rewrite new_scope_eq. cbn zeta. speel SFb_block. speel SFb_same; auto. apply SFb_fresh_enter.
  - destruct (negb (group_active s g)); [speel SFb_ret; apply SFb_refl|]. rewrite spawn_task_eq. speel SFb_ret. apply SFb_spawned.
  - destruct (negb (group_active s g)); [speel SFb_ret; apply SFb_refl|]. rewrite new_fut_eq. cbv beta iota.
    rewrite spawn_task_eq. cbv beta iota. speel SFb_block. speel SFb_suspend_on.
    eapply SFb_trans; [|apply SFb_spawned]. sby_eq.
  - destruct (k_startfut (tasks s t)) as [f|]; [|speel SFb_ret; apply SFb_refl].
    destruct (f_st (futs s f)); speel SFb_ret; try apply SFb_refl. apply SFb_fc.
  - destruct (e_set _); speel SFb_ret; [apply SFb_refl|apply SFb_scope_cancel].
  - pose proof (SFb_event_wait n m t (entered s0 (AHandleWait t0 h)) s (k_hevent (tasks s h))) as H.
    destruct (event_wait s t (k_hevent (tasks s h))) as [s1 f]. cbn [fst] in H. speel SFb_block. exact H.
  - speel SFb_block. sby_eq.
  - destruct (ckif_spins _ _ _); [speel SFb_block; sby_eq|speel SFb_ret; apply SFb_refl].
  - rewrite new_scope_eq. cbn zeta. speel SFb_block. speel SFb_same; auto. apply SFb_fresh_enter.
  - rewrite new_fut_eq. destruct d as [dt|].
    + rewrite call_at_eq. speel SFb_block. speel SFb_suspend_on. sby_eq.
    + speel SFb_block. speel SFb_suspend_on. sby_eq.
  - speel SFb_ret. apply SFb_upd_self.
  - speel SFb_ret. apply SFb_upd_self.
  - speel SFb_ret. apply SFb_upd_self.
  - speel SFb_ret. apply SFb_upd_self.
  - cbn [fst]. speel SFb_set_running. apply SFb_park.
  - rewrite new_scope_eq. pose proof (SFb_fresh_enter n m t (entered s0 (AFailAt t0 d sh)) s d sh) as H.
    destruct (scope_enter (ns s d sh) (nscope s) t) as [s2 e]. cbn [fst] in H. speel SFb_ret. exact H.
Qed.

Lemma SFb_puppet_finish n m (En : sid -> Prop) s0 t v : SFb n m t En s0 (fst (puppet_finish s0 t v)).
Proof.
  unfold puppet_finish. pose proof (SFb_begin n m t En s0) as B. set (s := begin_act s0 t) in *.
  eapply SFb_trans; [exact B|].
  destruct (k_group (tasks s t)).
  - match goal with |- context [scope_exit ?a ?b ?c ?d] => pose proof (SFb_scope_exit n m t En a b d) as H;
      destruct (scope_exit a b c d) as [s4 x] end.
    cbn [fst] in H.
    assert (H2 : SFb n m t En s s4).
    { eapply SFb_trans; [|exact H]. speel SFb_event_set. speel SFb_upd_self. apply SFb_upd_self. }
    destruct x; cbn [fst]; (eapply SFb_trans; [exact H2|apply SFb_finish_task]).
  - cbn [fst]. speel SFb_finish_task. apply SFb_upd_self.
Qed.

Lemma SFb_incs n m (En : sid -> Prop) s0 t : SFb n m t En s0 (incs s0 t).
Proof. unfold incs. speel SFb_set_running. apply SFb_upd_self. Qed.

Lemma SFb_event_unwait n m (t0 : tid) (En : sid -> Prop) s e fo : SFb n m t0 En s (event_unwait s e fo).
Proof. destruct fo; sby_eq. Qed.

Lemma SFb_resume n m (En : sid -> Prop) s0 t fo :
  (k_ctl (tasks s0 t) = CNew -> k_group (tasks s0 t) <> None -> En (k_hscope (tasks s0 t))) ->
  SFb n m t En s0 (fst (resume s0 t fo)).
Proof.
  intros HEn. rewrite resume_unfold. cbn zeta.
  pose proof (SFb_incs n m En s0 t) as B.
  set (s := incs s0 t) in *. set (inc := snd (incoming s0 t fo)).
  assert (Hh : k_hscope (tasks s t) = k_hscope (tasks s0 t)).
  { unfold s. destruct (incs_cview s0 t t) as [V _]. pose proof (cview_inv _ _ V). tauto. }
  destruct (k_ctl (tasks s0 t)) as [| |k|f tm|g ws exc|g c exc|g child f|child c e wf|h wf|] eqn:Ec; try apply SFb_refl;
    (eapply SFb_trans; [exact B|]).
  - destruct inc as [e|]; cbn [fst].
    + speel SFb_finish_task. apply SFb_upd_self.
    + speel SFb_set_running. speel SFb_park.
      assert (Eg : k_group (tasks (upd_task s t (tk_started true)) t) = k_group (tasks s0 t)).
      { tcase t t; [|contradiction]. cbn. unfold s. destruct (incs_cview s0 t t) as [V _]. pose proof (cview_inv _ _ V). tauto. }
      rewrite Eg. destruct (k_group (tasks s0 t)) eqn:Eg0.
      * eapply SFb_trans; [apply SFb_upd_self|]. apply SFb_scope_enter. intros _.
        assert (E : k_hscope (tasks (upd_task s t (tk_started true)) t) = k_hscope (tasks s t))
          by (tcase t t; [reflexivity|contradiction]).
        rewrite E, Hh. apply HEn; [reflexivity|congruence].
      * apply SFb_upd_self.
  - cbn [fst]. speel SFb_set_running. speel SFb_park. destruct inc; [apply SFb_upd_self|apply SFb_refl].
  - destruct k as [| |c].
    + apply SFb_ret.
    + destruct inc; [apply SFb_ret|]. destruct (ckif_spins _ _ _); [sby_eq|apply SFb_ret].
    + pose proof (SFb_scope_exit n m t En s c inc) as H. destruct (scope_exit s c t inc) as [s1 x]. cbn [fst] in H.
      destruct x; speel SFb_ret; exact H.
  - speel SFb_ret. apply SFb_kstar, ks_one, kp_tcancel.
  - destruct inc as [e|].
    + speel SFb_wof. speel SFb_scope_cancel. speel SFb_keeps; [|apply keeps_shield]. sby_eq.
    + speel SFb_wof. sby_eq.
  - pose proof (SFb_scope_exit n m t En s c inc) as H. destruct (scope_exit s c t inc) as [s1 x]. cbn [fst] in H.
    eapply SFb_trans; [exact H|].
    destruct x.
    + apply SFb_wof.
    + destruct inc as [e|]; [|apply SFb_wof]. destruct (is_cancel e).
      * speel SFb_wof. apply SFb_scope_cancel.
      * apply SFb_ret_pair, SFb_aexit_raise.
    + apply SFb_ret_pair, SFb_aexit_raise.
  - destruct inc as [e|]; [|apply SFb_ret].
    destruct (handle_pending s child); [|apply SFb_ret].
    rewrite new_scope_eq. cbn zeta.
    match goal with |- context [event_wait ?a ?b ?c] => pose proof (SFb_event_wait n m t En a c) as H;
      destruct (event_wait a b c) as [s4 wf] end.
    cbn [fst] in H. speel SFb_block. eapply SFb_trans; [|exact H].
    eapply SFb_trans; [apply SFb_scope_cancel|apply SFb_fresh_enter].
  - match goal with |- context [scope_exit ?a ?b ?c ?d] => pose proof (SFb_scope_exit n m t En a b d) as H;
      destruct (scope_exit a b c d) as [s2 x] end.
    cbn [fst] in H. assert (H2 : SFb n m t En s s2) by (eapply SFb_trans; [apply SFb_event_unwait|exact H]).
    destruct x; [|destruct inc|]; speel SFb_ret; exact H2.
  - speel SFb_ret. apply SFb_event_unwait.
Qed.

Lemma SFb_run_task_done n m (En : sid -> Prop) s0 t : SFb n m t En s0 (run_task_done s0 t).
Proof.
  rewrite run_task_done_eq. cbn zeta. set (s := set_running s0 None).
  assert (B : SFb n m t En s0 s) by sby_eq. eapply SFb_trans; [exact B|].
  change (tasks s t) with (tasks s0 t).
  destruct (k_group (tasks s0 t)) as [g|]; [|apply SFb_refl].
  set (s1 := match k_cur (tasks s0 t) with Some c => _ | None => _ end).
  assert (T1 : SFb n m t En s s1).
  { unfold s1. destruct (k_cur (tasks s0 t)); [apply SFb_keeps, keeps_tasks|apply SFb_refl]. }
  set (s3 := tdcore s1 t g).
  assert (T3 : SFb n m t En s1 s3) by (unfold s3, tdcore; speel SFb_upd_self; sby_eq).
  set (s4 := match g_fut (groups s3 g) with Some f => _ | None => _ end).
  assert (T4 : SFb n m t En s3 s4).
  { unfold s4. destruct (g_fut (groups s3 g)); [|apply SFb_refl]. destruct (g_tasks (groups s3 g)); [apply SFb_fc|apply SFb_refl]. }
  assert (T : SFb n m t En s s4) by (eapply SFb_trans; [exact T1|]; eapply SFb_trans; [exact T3|exact T4]).
  eapply SFb_trans; [exact T|].
  assert (Hc : forall s5, SFb n m t En s5 (if eff_cancelled s5 (g_scope (groups s5 g)) then s5
                                          else scope_cancel s5 (g_scope (groups s5 g)) false)).
  { intros s5. destruct (eff_cancelled s5 _); [apply SFb_refl|apply SFb_scope_cancel]. }
  assert (Hsc : forall s5, SFb n m t En s5 (scope_cancel s5 (g_scope (groups s5 g)) false)) by (intros s5; apply SFb_scope_cancel).
  assert (Ha : forall e, SFb n m t En s4 (upd_group s4 g (add_exc t e))) by (intros e; sby_eq).
  destruct (k_done (tasks s0 t)) as [[v|e|e]|].
  - destruct (k_startfut (tasks s0 t)) as [f|]; [|apply SFb_refl].
    destruct (f_st (futs s4 f)); try apply SFb_refl. apply SFb_fc.
  - destruct (k_startfut (tasks s0 t)) as [f|].
    + destruct (f_st (futs s4 f)).
      * apply SFb_fc.
      * destruct (is_cancel e); [apply Hc|]. eapply SFb_trans; [apply Ha|apply Hsc].
      * destruct (is_cancel e); [apply Hc|]. eapply SFb_trans; [apply Ha|apply Hsc].
      * destruct (is_cancel e); [apply SFb_refl|]. eapply SFb_trans; [apply Ha|apply Hsc].
    + destruct (is_cancel e); [apply Hc|]. eapply SFb_trans; [apply Ha|apply Hsc].
  - destruct (k_startfut (tasks s0 t)) as [f|].
    + destruct (f_st (futs s4 f)).
      * apply SFb_fc.
      * destruct (is_cancel e); [apply Hc|]. eapply SFb_trans; [apply Ha|apply Hsc].
      * destruct (is_cancel e); [apply Hc|]. eapply SFb_trans; [apply Ha|apply Hsc].
      * destruct (is_cancel e); [apply SFb_refl|]. eapply SFb_trans; [apply Ha|apply Hsc].
    + destruct (is_cancel e); [apply Hc|]. eapply SFb_trans; [apply Ha|apply Hsc].
  - destruct (k_startfut (tasks s0 t)) as [f|]; [|apply SFb_refl].
    destruct (f_st (futs s4 f)); try apply SFb_refl. apply SFb_fc.
Qed.

(* the new root task has the fresh id ntask s >= m: it is outside the task domain *)
Lemma ctl_after_park s t : k_ctl (tasks (park s t) t) = CIdle.
Proof. unfold park. rewrite new_fut_eq. tcase t t; [reflexivity|contradiction]. Qed.

Lemma SFb_new_root n m (t0 : tid) (En : sid -> Prop) s : m <= ntask s -> SFb n m t0 En s (fst (new_root s)).
Proof.
  intros Hm0 Hn Hm. unfold new_root. cbn [fst].
  change (SFn n m t0 En s (set_running (park (talloc s root_rec false) (ntask s)) None)).
  set (s1 := talloc s root_rec false).
  assert (A : SFn n m t0 En s s1) by (apply SFb_talloc; auto; right; right; reflexivity).
  destruct (SFn_bounds _ _ _ _ _ _ A) as [Hn1 Hm1].
  eapply SFn_trans; [exact A|].
  assert (P : SFn n m (ntask s) En s1 (set_running (park s1 (ntask s)) None)).
  { apply (SFb_trans n m (ntask s) En s1 (park s1 (ntask s))); [apply SFb_park|apply SFb_set_running|exact Hn1|exact Hm1]. }
  destruct P as [P1 [P2 [P3 P4]]]. refine (conj P1 (conj P2 (conj _ _))).
  - intros c Hc. destruct (P3 c Hc) as [Pi Pa]. split; [exact Pi|].
    intros Ha Hh.
    assert (Es : scopes (set_running (park s1 (ntask s)) None) = scopes s1).
    { cbn [set_running scopes]. unfold park. rewrite new_fut_eq. cbn [upd_task set_tasks scopes].
      unfold suspend_on. destruct (f_st _); try reflexivity. destruct (k_must _); [|reflexivity].
      cbn [upd_task set_tasks scopes]. now rewrite fc_scopes. }
    rewrite Es. apply sc_same_refl.
  - intros t Hne. destruct (Nat.eq_dec t (ntask s)) as [->|Hd].
    + split; [intros Ht; lia|]. intros _ _. cbn [set_running tasks]. rewrite ctl_after_park. right; right. reflexivity.
    + apply P4. exact Hd.
Qed.

Theorem step_scope_frame s o :
  SFn (nscope s) (ntask s) (acting o) (entered s o) s (fst (step s o)).
Proof.
  assert (G : SFb (nscope s) (ntask s) (acting o) (entered s o) s (fst (step s o))); [|apply G; lia].
  unfold step, acting. destruct (actor o) as [t|] eqn:Ea.
  - destruct (idle s t) eqn:Ei; cbn [negb]; [|apply SFb_refl].
    destruct o; try apply SFb_puppet_op. apply SFb_puppet_finish.
  - destruct o; try discriminate; try apply SFb_refl.
    + apply SFb_new_root. lia.
    + cbn [fst]. apply SFb_kstar, ks_one, kp_cancel.
    + cbn [fst]. speel SFb_set_running. speel SFb_scope_cancel. sby_eq.
    + unfold run_handle. destruct (existsb (handle_eqb h) (ready s)) eqn:Eh; cbn [negb]; [|apply SFb_refl].
      rewrite pop_eq_frame.
      assert (P : forall t0 En, SFb (nscope s) (ntask s) t0 En s (pop s h)) by (intros; sby_eq).
      destruct h as [t|t f|c|t|f tm|c tm]; (eapply SFb_trans; [apply P|]).
      * apply (SFb_resume (nscope s) (ntask s) _ (pop s (HStep t)) t None).
        change (tasks (pop s (HStep t))) with (tasks s). cbn [entered]. intros -> Hg.
        destruct (k_group (tasks s t)); [reflexivity|contradiction].
      * apply (SFb_resume (nscope s) (ntask s) _ (pop s (HWake t f)) t (Some f)).
        change (tasks (pop s (HWake t f))) with (tasks s). cbn [entered]. intros -> Hg.
        destruct (k_group (tasks s t)); [reflexivity|contradiction].
      * cbn [fst]. speel SFb_set_running. speel SFb_deliver_top. sby_eq.
      * cbn [fst]. apply SFb_run_task_done.
      * cbn [fst]. apply SFb_fc.
      * cbn [fst]. speel SFb_set_running. speel SFb_scope_timeout. sby_eq.
    + destruct (Z.ltb dt 0); [apply SFb_refl|sby_eq].
Qed.
