(* Non-vacuity witnesses (vm_compute) for the run-level C06 theorems. *)
From AV Require Import Base Machine ChainFrame ChainThms ChainWalk ChainMono TimerInv TimerThms TimerOrder TimerRun TimerOwn.

(* ====================================================================================================== *)
(* 1. the cycle theorem on a cycle with several ready callbacks                                             *)
(* ====================================================================================================== *)
(* task 1 sleeps inside fail_at(5); task 2 sleeps 5; the clock reaches 5: both timers fire in the same tick *)
Definition cyc2_ops : list op :=
  [ANewRoot; AFailAt 1 (Some 5%Z) false; ASleep 1 None; ANewRoot; ASleep 2 (Some 5%Z); ATick 5].
Definition cyc2_state : st := final step init cyc2_ops.
(* the cycle runs every handle that was ready, the timeout callback of scope 1 last *)
Definition cyc2_cycle : list op := map ARun (rev (ready cyc2_state)).

Example cycle_witness2 :
  reach_wf cyc2_state /\ length (ready cyc2_state) = 2 /\ In (HTimeout 1 1) (ready cyc2_state) /\
  cyc2_cycle <> [] /\ hd (ATick 0) cyc2_cycle <> ARun (HTimeout 1 1) /\
  s_active (scopes cyc2_state 1) = true /\ s_cancelled (scopes cyc2_state 1) = false /\
  s_deadline (scopes cyc2_state 1) = Some 5%Z /\ (5 <= now cyc2_state)%Z /\
  wf_run cyc2_state cyc2_cycle /\ stays 1 5%Z cyc2_state cyc2_cycle /\
  (forall h, In h (ready cyc2_state) -> In (ARun h) cyc2_cycle) /\
  s_cancelled (scopes (final step cyc2_state cyc2_cycle) 1) = true.
Proof.
  assert (Ec : cyc2_cycle = [ARun (HSleepDone 5 2); ARun (HTimeout 1 1)]) by (vm_compute; reflexivity).
  split; [exists cyc2_ops; split; [cbn; tauto|reflexivity]|].
  split; [vm_compute; reflexivity|]. split; [vm_compute; tauto|].
  split; [rewrite Ec; discriminate|]. split; [rewrite Ec; cbn; discriminate|].
  split; [vm_compute; reflexivity|]. split; [vm_compute; reflexivity|]. split; [vm_compute; reflexivity|].
  split; [vm_compute; discriminate|]. split; [rewrite Ec; cbn; tauto|]. split.
  - rewrite Ec. intros pre post E. destruct pre as [|o1 [|o2 [|o3 pre]]].
    + split; vm_compute; reflexivity.
    + cbn in E. injection E as <- _. split; vm_compute; reflexivity.
    + cbn in E. injection E as <- <- _. split; vm_compute; reflexivity.
    + cbn in E. injection E as _ _ E. destruct pre; discriminate.
  - split; [|rewrite Ec; vm_compute; reflexivity].
    intros h Hh. unfold cyc2_cycle. apply in_map. now apply -> in_rev.
Qed.

(* ====================================================================================================== *)
(* 2. each of the four outcomes of "due deadline ... unless disarmed" occurs                               *)
(* ====================================================================================================== *)
(* task 1 is inside fail_at(5) at a decision point, task 2 stands by, the clock reaches 5: callback pending *)
Definition dis_ops : list op := [ANewRoot; AFailAt 1 (Some 5%Z) false; ANewRoot; ATick 5].
Definition dis_state : st := final step init dis_ops.

Example disarm_outcomes_witness :
  reach_wf dis_state /\ s_active (scopes dis_state 1) = true /\ s_cancelled (scopes dis_state 1) = false /\
  s_deadline (scopes dis_state 1) = Some 5%Z /\ (5 <= now dis_state)%Z /\
  (* the loop runs the callback: cancelled *)
  (wf_run dis_state [ARun (HTimeout 1 1)] /\
   s_cancelled (scopes (final step dis_state [ARun (HTimeout 1 1)]) 1) = true) /\
  (* the host leaves the block first: not cancelled, no longer active *)
  (wf_run dis_state [AExit 1 1 true] /\
   s_cancelled (scopes (final step dis_state [AExit 1 1 true]) 1) = false /\
   s_active (scopes (final step dis_state [AExit 1 1 true]) 1) = false /\
   snd (step dis_state (AExit 1 1 true)) = RRet 0) /\
  (* somebody moves the deadline first: not cancelled, still active, other deadline, callback gone *)
  (wf_run dis_state [ASetDeadline 2 1 (Some 9%Z)] /\
   s_cancelled (scopes (final step dis_state [ASetDeadline 2 1 (Some 9%Z)]) 1) = false /\
   s_active (scopes (final step dis_state [ASetDeadline 2 1 (Some 9%Z)]) 1) = true /\
   s_deadline (scopes (final step dis_state [ASetDeadline 2 1 (Some 9%Z)]) 1) = Some 9%Z /\
   ready (final step dis_state [ASetDeadline 2 1 (Some 9%Z)]) = []) /\
  (* something else happens: not cancelled, active, same deadline, the callback is still pending *)
  (wf_run dis_state [AYield 2] /\
   s_cancelled (scopes (final step dis_state [AYield 2]) 1) = false /\
   s_active (scopes (final step dis_state [AYield 2]) 1) = true /\
   s_deadline (scopes (final step dis_state [AYield 2]) 1) = Some 5%Z /\
   In (HTimeout 1 1) (ready (final step dis_state [AYield 2]))).
Proof.
  split; [exists dis_ops; split; [cbn; tauto|reflexivity]|].
  split; [vm_compute; reflexivity|]. split; [vm_compute; reflexivity|]. split; [vm_compute; reflexivity|].
  split; [vm_compute; discriminate|].
  split; [split; [cbn; tauto|vm_compute; reflexivity]|].
  split; [split; [cbn; tauto|repeat split; vm_compute; reflexivity]|].
  split; [split; [cbn; tauto|repeat split; vm_compute; reflexivity]|].
  split; [cbn; tauto|]. split; [vm_compute; reflexivity|]. split; [vm_compute; reflexivity|].
  split; [vm_compute; reflexivity|]. vm_compute. tauto.
Qed.

(* ====================================================================================================== *)
(* 3. the provisos of timeout_iff_own_deadline / move_on_caught_iff are needed                              *)
(* ====================================================================================================== *)
(* (a) without "no explicit cancel": the scope is cancelled by cancel() at time 0, its deadline never fires (cancel()
   removed the timer), the block is left at time 5: TimeoutError although s_bydeadline = false *)
Definition expl_mid : list op := [ASleep 1 None; ANewRoot; ACancel 2 1; ATick 5].
Definition expl_state : st := final step init ([ANewRoot] ++ AFailAt 1 (Some 5%Z) false :: expl_mid).

Example explicit_cancel_proviso_needed :
  let f := match k_waiter (tasks expl_state 1) with Some f => f | None => 0 end in
  let mid := expl_mid ++ [ARun (HWake 1 f)] in
  let s2 := fst (step (final step init [ANewRoot]) (AFailAt 1 (Some 5%Z) false)) in
  let s := final step s2 mid in
  wf_run init ([ANewRoot] ++ AFailAt 1 (Some 5%Z) false :: mid) /\ idle (final step init [ANewRoot]) 1 = true /\
  no_explicit_cancel 1 mid = false /\ no_redeadline 1 s2 mid = true /\ idle s 1 = true /\
  timers s = [] /\ s_bydeadline (scopes s 1) = false /\ s_cancelled (scopes s 1) = true /\
  snd (step s (AExit 1 1 true)) = RExc ETimeout /\
  s_caught (scopes (fst (step s (AExit 1 1 true))) 1) = true.
Proof. vm_compute. repeat split; try reflexivity; tauto. Qed.

(* (b) without "no deadline reassignment after it has fired": the deadline fires at 5 (s_bydeadline = true), then the
   deadline is moved to 50, the block ends with the deadline's cancellation only, no enclosing cancellation: the
   scope absorbs (cancelled_caught = True) but no TimeoutError *)
Definition redl_mid : list op :=
  [ASleep 1 None; ATick 5; ARun (HTimeout 1 1); ANewRoot; ASetDeadline 2 1 (Some 50%Z)].
Definition redl_state : st := final step init ([ANewRoot] ++ AFailAt 1 (Some 5%Z) false :: redl_mid).

Example redeadline_proviso_needed :
  let f := match k_waiter (tasks redl_state 1) with Some f => f | None => 0 end in
  let mid := redl_mid ++ [ARun (HWake 1 f)] in
  let s2 := fst (step (final step init [ANewRoot]) (AFailAt 1 (Some 5%Z) false)) in
  let s := final step s2 mid in
  wf_run init ([ANewRoot] ++ AFailAt 1 (Some 5%Z) false :: mid) /\ idle (final step init [ANewRoot]) 1 = true /\
  no_explicit_cancel 1 mid = true /\ no_redeadline 1 s2 mid = false /\ idle s 1 = true /\
  exit_guards (begin_act s 1) 1 1 = true /\ s_bydeadline (scopes s 1) = true /\ parent_visible s 1 = false /\
  k_held (tasks s 1) = Some (ECancel 2) /\
  snd (step s (AExit 1 1 true)) = RRet 1 /\
  s_caught (scopes (fst (step s (AExit 1 1 true))) 1) = true.
Proof. vm_compute. repeat split; try reflexivity; tauto. Qed.
