(* C06, invariant I3 (one live timer per armed scope, no stray timers, never missed), proved for EVERY op
   sequence through the generic step walk of ChainWalk.v. *)
From AV Require Import Base Machine ChainFrame ChainThms ChainWalk.
From Coq Require Import ZifyBool.

(* ====================================================================================================== *)
(* 0. counting live timer entries                                                                           *)
(* ====================================================================================================== *)
Definition tcount (tm : tmid) (l : list timer) : nat := length (filter (fun x => Nat.eqb (tm_id x) tm) l).
Definition rcount (tm : tmid) (l : list handle) : nat := length (filter (is_timer_handle tm) l).
(* number of live loop entries carrying timer id tm: still in the timer heap, or fired and in the ready queue *)
Definition live (s : st) (tm : tmid) : nat := tcount tm (timers s) + rcount tm (ready s).

Lemma tcount_app tm l1 l2 : tcount tm (l1 ++ l2) = tcount tm l1 + tcount tm l2.
Proof. unfold tcount. now rewrite filter_app, app_length. Qed.

Lemma rcount_app tm l1 l2 : rcount tm (l1 ++ l2) = rcount tm l1 + rcount tm l2.
Proof. unfold rcount. now rewrite filter_app, app_length. Qed.

Lemma tcount_cons tm x l : tcount tm (x :: l) = (if Nat.eqb (tm_id x) tm then 1 else 0) + tcount tm l.
Proof. unfold tcount. cbn [filter]. destruct (Nat.eqb (tm_id x) tm); reflexivity. Qed.

Lemma rcount_cons tm h l : rcount tm (h :: l) = (if is_timer_handle tm h then 1 else 0) + rcount tm l.
Proof. unfold rcount. cbn [filter]. destruct (is_timer_handle tm h); reflexivity. Qed.

Lemma tcount_zero_notin tm l : tcount tm l = 0 -> forall x, In x l -> tm_id x <> tm.
Proof.
  induction l as [|y l IH]; intros H x Hx; [destruct Hx|]. rewrite tcount_cons in H.
  destruct (Nat.eqb_spec (tm_id y) tm) as [E|E]; [discriminate|]. destruct Hx as [->|Hx]; [exact E|]. apply IH; auto.
Qed.

Lemma tcount_in tm l x : In x l -> tm_id x = tm -> 1 <= tcount tm l.
Proof.
  induction l as [|y l IH]; intros Hx E; [destruct Hx|]. rewrite tcount_cons. destruct Hx as [->|Hx].
  - rewrite E, Nat.eqb_refl. lia.
  - specialize (IH Hx E). lia.
Qed.

Lemma rcount_in tm l h : In h l -> is_timer_handle tm h = true -> 1 <= rcount tm l.
Proof.
  induction l as [|y l IH]; intros Hx E; [destruct Hx|]. rewrite rcount_cons. destruct Hx as [->|Hx].
  - rewrite E. lia.
  - specialize (IH Hx E). lia.
Qed.

(* TimerHandle.cancel *)
Lemma tcount_filter_ne tm tm' l :
  tcount tm' (filter (fun x => negb (Nat.eqb (tm_id x) tm)) l) = if Nat.eqb tm' tm then 0 else tcount tm' l.
Proof.
  induction l as [|y l IH]; cbn [filter]; [destruct (Nat.eqb tm' tm); reflexivity|].
  destruct (Nat.eqb_spec (tm_id y) tm) as [E|E]; cbn [negb]; rewrite ?tcount_cons, IH;
    destruct (Nat.eqb_spec tm' tm) as [E2|E2]; try reflexivity.
  - subst. destruct (Nat.eqb_spec (tm_id y) tm'); [congruence|reflexivity].
  - subst. destruct (Nat.eqb_spec (tm_id y) tm); [contradiction|reflexivity].
Qed.

Lemma rcount_filter_ne tm tm' l :
  rcount tm' (filter (fun h => negb (is_timer_handle tm h)) l) = if Nat.eqb tm' tm then 0 else rcount tm' l.
Proof.
  induction l as [|y l IH]; cbn [filter]; [destruct (Nat.eqb tm' tm); reflexivity|].
  assert (K : is_timer_handle tm y = true -> is_timer_handle tm' y = Nat.eqb tm' tm).
  { destruct y; cbn; try discriminate; intros H; apply Nat.eqb_eq in H; subst; apply Nat.eqb_sym. }
  destruct (is_timer_handle tm y) eqn:E; cbn [negb]; rewrite ?rcount_cons, IH.
  - rewrite (K eq_refl). destruct (Nat.eqb tm' tm); reflexivity.
  - destruct (Nat.eqb_spec tm' tm) as [E2|E2]; [|reflexivity]. subst. now rewrite E.
Qed.

Lemma handle_eqb_eq a b : handle_eqb a b = true <-> a = b.
Proof.
  destruct a, b; cbn; split; intros H; try discriminate; try (injection H as -> || idtac);
    rewrite ?andb_true_iff, ?Nat.eqb_eq in *; try (f_equal; tauto); try tauto.
  all: try (injection H; intros; subst; rewrite ?Nat.eqb_refl; auto).
Qed.

Lemma handle_eqb_refl a : handle_eqb a a = true.
Proof. now apply handle_eqb_eq. Qed.

Lemma in_remove_first h l x : In x (remove_first h l) -> In x l.
Proof.
  induction l as [|y l IH]; cbn [remove_first]; [auto|]. destruct (handle_eqb y h).
  - intros H; now right.
  - intros [->|H]; [now left|right; auto].
Qed.

Lemma in_remove_first_other h l x : x <> h -> In x l -> In x (remove_first h l).
Proof.
  intros Hx. induction l as [|y l IH]; cbn [remove_first]; [auto|]. intros [->|H].
  - destruct (handle_eqb x h) eqn:E; [apply handle_eqb_eq in E; contradiction|now left].
  - destruct (handle_eqb y h); [exact H|right; auto].
Qed.

Lemma rcount_remove_first_le tm h l : rcount tm (remove_first h l) <= rcount tm l.
Proof.
  induction l as [|y l IH]; cbn [remove_first]; [lia|]. destruct (handle_eqb y h); rewrite !rcount_cons; lia.
Qed.

(* removing one occurrence of a timer handle with id tm lowers its count *)
Lemma rcount_remove_first_in tm h l :
  In h l -> is_timer_handle tm h = true -> S (rcount tm (remove_first h l)) = rcount tm l.
Proof.
  intros Hin Hh. induction l as [|y l IH]; [destruct Hin|]. cbn [remove_first].
  destruct (handle_eqb y h) eqn:E.
  - apply handle_eqb_eq in E. subst y. rewrite rcount_cons, Hh. lia.
  - destruct Hin as [->|Hin]; [rewrite handle_eqb_refl in E; discriminate|].
    rewrite !rcount_cons, <- (IH Hin). lia.
Qed.

(* the timer handles are all that counts *)
Lemma rcount_ths tm l : rcount tm (ths l) = rcount tm l.
Proof.
  induction l as [|y l IH]; [reflexivity|]. cbn [ths filter]. fold (ths l).
  destruct (is_th y) eqn:E; rewrite ?rcount_cons, IH; [reflexivity|].
  destruct y; cbn in E; try discriminate; reflexivity.
Qed.

Lemma in_ths c tm l : In (HTimeout c tm) (ths l) <-> In (HTimeout c tm) l.
Proof. unfold ths. rewrite filter_In. cbn. tauto. Qed.

(* insertion sort of the due timers *)
Lemma in_insert_timer x y l : In y (insert_timer x l) <-> y = x \/ In y l.
Proof.
  induction l as [|z l IH]; cbn [insert_timer]; [cbn; intuition auto|].
  destruct (Z.ltb (tm_when x) (tm_when z)); cbn [In]; [intuition auto|]. rewrite IH. intuition auto.
Qed.

Lemma tcount_insert_timer tm x l : tcount tm (insert_timer x l) = tcount tm (x :: l).
Proof.
  induction l as [|z l IH]; cbn [insert_timer]; [reflexivity|].
  destruct (Z.ltb (tm_when x) (tm_when z)); [reflexivity|]. rewrite !tcount_cons, IH, tcount_cons. lia.
Qed.

Lemma sort_timers_acc l : forall acc,
  (forall y, In y (fold_left (fun a x => insert_timer x a) l acc) <-> In y l \/ In y acc) /\
  (forall tm, tcount tm (fold_left (fun a x => insert_timer x a) l acc) = tcount tm l + tcount tm acc).
Proof.
  induction l as [|x l IH]; intros acc; cbn [fold_left].
  - split; [intros y; cbn; tauto|intros tm; reflexivity].
  - destruct (IH (insert_timer x acc)) as [H1 H2]. split.
    + intros y. rewrite H1, in_insert_timer. cbn [In]. intuition auto.
    + intros tm. rewrite H2, tcount_insert_timer, !tcount_cons. lia.
Qed.

Lemma in_sort_timers y l : In y (sort_timers l) <-> In y l.
Proof. unfold sort_timers. destruct (sort_timers_acc l []) as [H _]. rewrite H. cbn. tauto. Qed.

Lemma tcount_sort_timers tm l : tcount tm (sort_timers l) = tcount tm l.
Proof. unfold sort_timers. destruct (sort_timers_acc l []) as [_ H]. rewrite H. cbn. lia. Qed.

Lemma rcount_map_handle tm l : rcount tm (map handle_of_timer l) = tcount tm l.
Proof.
  induction l as [|x l IH]; [reflexivity|]. cbn [map]. rewrite rcount_cons, tcount_cons, IH.
  unfold handle_of_timer. destruct (tm_what x); reflexivity.
Qed.

Lemma tcount_partition tm (p : timer -> bool) l :
  tcount tm (filter p l) + tcount tm (filter (fun x => negb (p x)) l) = tcount tm l.
Proof.
  induction l as [|x l IH]; [reflexivity|]. cbn [filter]. destruct (p x); cbn [negb]; rewrite !tcount_cons; lia.
Qed.

(* ====================================================================================================== *)
(* 1. the invariant                                                                                         *)
(* ====================================================================================================== *)

(* global part: timer ids are unique and fresh, handles stored in scopes/sleepers are distinct, ids in range *)
Record GInv (s : st) : Prop := mk_GInv {
  gi_ntimer_pos : 0 < ntimer s;
  gi_nscope_pos : 0 < nscope s;
  gi_uniq : forall tm, live s tm <= 1;
  gi_fresh : forall tm, ntimer s <= tm -> live s tm = 0;
  gi_tm_lt : forall c tm, s_timeout (scopes s c) = Some tm -> 0 < tm < ntimer s;
  gi_inj : forall c c' tm, s_timeout (scopes s c) = Some tm -> s_timeout (scopes s c') = Some tm -> c = c';
  gi_sleep : forall tm, sleep_id s tm -> tm < ntimer s /\ forall c, s_timeout (scopes s c) <> Some tm;
  gi_unalloc : forall c, nscope s <= c -> s_active (scopes s c) = false;
  gi_gscope : forall g, g_scope (groups s g) < nscope s;
  gi_hscope : forall t, k_hscope (tasks s t) < nscope s
}.

(* per scope; `a` stands for the scope's _active flag (a parameter so that __enter__, which arms the timer
   before setting _active, can be handled) *)
Record PInv' (s : st) (c : sid) (a : bool) : Prop := mk_PInv {
  (* no stray timers: every timer / fired timeout callback of c is the one c remembers, set for its deadline *)
  pi_timer : forall x, In x (timers s) -> tm_what x = TScope c ->
             s_timeout (scopes s c) = Some (tm_id x) /\ s_deadline (scopes s c) = Some (tm_when x);
  pi_ready : forall tm, In (HTimeout c tm) (ready s) ->
             s_timeout (scopes s c) = Some tm /\ exists d, s_deadline (scopes s c) = Some d /\ (d <= now s)%Z;
  (* the handle of an uncancelled scope is live, and only active scopes have one *)
  pi_armed : forall tm, s_timeout (scopes s c) = Some tm -> s_cancelled (scopes s c) = false ->
             a = true /\
             ((exists d, In (mkTimer tm d (TScope c)) (timers s)) \/ In (HTimeout c tm) (ready s));
  pi_inactive : a = false -> s_timeout (scopes s c) = None;
  (* never missed *)
  pi_never_missed : forall d, a = true -> s_cancelled (scopes s c) = false -> s_deadline (scopes s c) = Some d ->
             exists tm, s_timeout (scopes s c) = Some tm
}.

Definition PInv (s : st) (c : sid) : Prop := PInv' s c (s_active (scopes s c)).

Definition TInv (s : st) : Prop := GInv s /\ forall c, PInv s c.

(* scope c has no loop entry at all and remembers none *)
Record NE (s : st) (c : sid) : Prop := mk_NE {
  ne_timers : forall x, In x (timers s) -> tm_what x <> TScope c;
  ne_ready : forall tm, ~ In (HTimeout c tm) (ready s);
  ne_timeout : s_timeout (scopes s c) = None
}.

(* the loop entries of c, if any, are the one c remembers *)
Record WE (s : st) (c : sid) : Prop := mk_WE {
  we_timers : forall x, In x (timers s) -> tm_what x = TScope c -> s_timeout (scopes s c) = Some (tm_id x);
  we_ready : forall tm, In (HTimeout c tm) (ready s) -> s_timeout (scopes s c) = Some tm
}.

Lemma pinv_we s c a : PInv' s c a -> WE s c.
Proof.
  intros P. constructor.
  - intros x Hx Hw. apply (pi_timer _ _ _ P x Hx Hw).
  - intros tm H. apply (pi_ready _ _ _ P tm H).
Qed.

Lemma ne_pinv s c a :
  NE s c -> (a = false \/ s_cancelled (scopes s c) = true \/ s_deadline (scopes s c) = None) -> PInv' s c a.
Proof.
  intros [N1 N2 N3] H. constructor.
  - intros x Hx Hw. destruct (N1 x Hx Hw).
  - intros tm Hin. destruct (N2 tm Hin).
  - intros tm E. congruence.
  - intros _. exact N3.
  - intros d Ha Hc Hd. destruct H as [H|[H|H]]; congruence.
Qed.

Lemma pinv_none_ne s c a : PInv' s c a -> s_timeout (scopes s c) = None -> NE s c.
Proof.
  intros P E. constructor; [| |exact E].
  - intros x Hx Hw. destruct (pi_timer _ _ _ P x Hx Hw) as [H _]. congruence.
  - intros tm Hin. destruct (pi_ready _ _ _ P tm Hin) as [H _]. congruence.
Qed.

(* ---------------- insensitivity: the TInv-specific frame ---------------- *)
Record tframe (s s' : st) : Prop := mk_tframe {
  tf_timers : timers s' = timers s;
  tf_ntimer : ntimer s' = ntimer s;
  tf_now : now s' = now s;
  tf_nscope : nscope s' = nscope s;
  tf_ths : ths (ready s') = ths (ready s);
  tf_deadline : forall c, s_deadline (scopes s' c) = s_deadline (scopes s c);
  tf_cancelled : forall c, s_cancelled (scopes s' c) = s_cancelled (scopes s c);
  tf_active : forall c, s_active (scopes s' c) = s_active (scopes s c);
  tf_timeout : forall c, s_timeout (scopes s' c) = s_timeout (scopes s c);
  tf_gscope : forall g, g_scope (groups s' g) = g_scope (groups s g);
  tf_hscope : forall t, k_hscope (tasks s' t) = k_hscope (tasks s t);
  tf_sleep : forall tm, sleep_id s' tm -> sleep_id s tm
}.

Lemma tframe_refl s : tframe s s.
Proof. constructor; auto. Qed.

Lemma tframe_trans a b c : tframe a b -> tframe b c -> tframe a c.
Proof. intros [] []. constructor; try congruence; auto. Qed.

Lemma frame_tframe s s' : frame s s' -> tframe s s'.
Proof.
  intros [F1 F2 F3 F4 F5 F6 F7 F8 F9]. constructor; auto; intros c; destruct (F6 c); assumption.
Qed.

Lemma tframe_upd_scope s x g :
  (forall k, s_deadline (g k) = s_deadline k /\ s_cancelled (g k) = s_cancelled k /\
             s_active (g k) = s_active k /\ s_timeout (g k) = s_timeout k) ->
  tframe s (upd_scope s x g).
Proof.
  intros Hg. constructor; try reflexivity; auto; intros c; cbn [upd_scope set_scopes scopes]; rewrite upd_eq;
    destruct (Nat.eqb c x) eqn:E; try reflexivity; apply Nat.eqb_eq in E; subst c; apply Hg.
Qed.

Lemma tframe_live s s' tm : tframe s s' -> live s' tm = live s tm.
Proof.
  intros F. unfold live. rewrite (tf_timers _ _ F), <- (rcount_ths tm (ready s')), (tf_ths _ _ F), rcount_ths.
  reflexivity.
Qed.

Lemma tframe_in_ready s s' c tm : tframe s s' -> (In (HTimeout c tm) (ready s') <-> In (HTimeout c tm) (ready s)).
Proof. intros F. rewrite <- (in_ths c tm (ready s')), (tf_ths _ _ F), in_ths. tauto. Qed.

Lemma ginv_tframe s s' : tframe s s' -> GInv s -> GInv s'.
Proof.
  intros F G. constructor.
  - rewrite (tf_ntimer _ _ F). apply G.
  - rewrite (tf_nscope _ _ F). apply G.
  - intros tm. rewrite (tframe_live _ _ tm F). apply G.
  - intros tm. rewrite (tframe_live _ _ tm F), (tf_ntimer _ _ F). apply G.
  - intros c tm. rewrite (tf_timeout _ _ F), (tf_ntimer _ _ F). apply G.
  - intros c c' tm. rewrite !(tf_timeout _ _ F). apply G.
  - intros tm H. apply (tf_sleep _ _ F) in H. rewrite (tf_ntimer _ _ F).
    destruct (gi_sleep _ G tm H) as [H1 H2]. split; [exact H1|]. intros c. rewrite (tf_timeout _ _ F). apply H2.
  - intros c. rewrite (tf_nscope _ _ F), (tf_active _ _ F). apply G.
  - intros g. rewrite (tf_gscope _ _ F), (tf_nscope _ _ F). apply G.
  - intros t. rewrite (tf_hscope _ _ F), (tf_nscope _ _ F). apply G.
Qed.

Lemma pinv_tframe s s' c a : tframe s s' -> PInv' s c a -> PInv' s' c a.
Proof.
  intros F P. constructor.
  - intros x. rewrite (tf_timers _ _ F), (tf_timeout _ _ F), (tf_deadline _ _ F). apply P.
  - intros tm. rewrite (tframe_in_ready _ _ c tm F), (tf_timeout _ _ F), (tf_deadline _ _ F), (tf_now _ _ F). apply P.
  - intros tm. rewrite (tf_timeout _ _ F), (tf_cancelled _ _ F), (tf_timers _ _ F), (tframe_in_ready _ _ c tm F).
    apply P.
  - rewrite (tf_timeout _ _ F). apply P.
  - intros d. rewrite (tf_timeout _ _ F), (tf_cancelled _ _ F), (tf_deadline _ _ F). apply P.
Qed.

Lemma ne_tframe s s' c : tframe s s' -> NE s c -> NE s' c.
Proof.
  intros F [N1 N2 N3]. constructor.
  - rewrite (tf_timers _ _ F). exact N1.
  - intros tm. rewrite (tframe_in_ready _ _ c tm F). apply N2.
  - now rewrite (tf_timeout _ _ F).
Qed.

Lemma tinv_tframe s s' : tframe s s' -> TInv s -> TInv s'.
Proof.
  intros F [G P]. split; [now apply (ginv_tframe s s')|]. intros c. unfold PInv. rewrite (tf_active _ _ F).
  apply (pinv_tframe s s'); auto. apply P.
Qed.

Lemma tinv_frame s s' : frame s s' -> TInv s -> TInv s'.
Proof. intros F. apply tinv_tframe, frame_tframe, F. Qed.

(* ====================================================================================================== *)
(* 2. two workhorses                                                                                        *)
(* ====================================================================================================== *)

(* GInv survives when nothing is added: live entries, remembered handles, sleepers, active scopes only shrink *)
Lemma ginv_shrink s s' :
  GInv s -> ntimer s' = ntimer s -> nscope s <= nscope s' ->
  (forall tm, live s' tm <= live s tm) ->
  (forall c tm, s_timeout (scopes s' c) = Some tm -> s_timeout (scopes s c) = Some tm) ->
  (forall tm, sleep_id s' tm -> sleep_id s tm) ->
  (forall c, s_active (scopes s' c) = true -> s_active (scopes s c) = true) ->
  (forall g, g_scope (groups s' g) = g_scope (groups s g)) ->
  (forall t, k_hscope (tasks s' t) = k_hscope (tasks s t)) -> GInv s'.
Proof.
  intros G Hnt Hns Hl Ht Hs Ha Hg Hh. constructor.
  - rewrite Hnt. apply G.
  - pose proof (gi_nscope_pos _ G). lia.
  - intros tm. specialize (Hl tm). pose proof (gi_uniq _ G tm). lia.
  - intros tm Htm. rewrite Hnt in Htm. specialize (Hl tm). pose proof (gi_fresh _ G tm Htm). lia.
  - intros c tm H. rewrite Hnt. apply (gi_tm_lt _ G c tm), Ht, H.
  - intros c c' tm H1 H2. apply (gi_inj _ G c c' tm); auto.
  - intros tm H. destruct (gi_sleep _ G tm (Hs tm H)) as [H1 H2]. rewrite Hnt. split; [exact H1|].
    intros c E. apply (H2 c). auto.
  - intros c Hc. assert (Hc' : nscope s <= c) by lia. pose proof (gi_unalloc _ G c Hc') as E.
    destruct (s_active (scopes s' c)) eqn:E'; [|reflexivity]. rewrite (Ha c E') in E. discriminate.
  - intros g. rewrite Hg. pose proof (gi_gscope _ G g). lia.
  - intros t. rewrite Hh. pose proof (gi_hscope _ G t). lia.
Qed.

(* PInv of a scope whose own fields are unchanged survives when its entries only shrink, provided the entry it
   remembers is still there (possibly moved from the timer heap to the ready queue) *)
Lemma pinv_transfer s s' c a :
  PInv' s c a ->
  (forall x, In x (timers s') -> tm_what x = TScope c -> In x (timers s) \/
             (s_timeout (scopes s c) = Some (tm_id x) /\ s_deadline (scopes s c) = Some (tm_when x))) ->
  (forall tm, In (HTimeout c tm) (ready s') -> In (HTimeout c tm) (ready s) \/
              exists x, In x (timers s) /\ tm_what x = TScope c /\ tm_id x = tm /\ (tm_when x <= now s')%Z) ->
  (forall tm, s_timeout (scopes s c) = Some tm ->
              ((exists d, In (mkTimer tm d (TScope c)) (timers s)) \/ In (HTimeout c tm) (ready s)) ->
              ((exists d, In (mkTimer tm d (TScope c)) (timers s')) \/ In (HTimeout c tm) (ready s'))) ->
  s_timeout (scopes s' c) = s_timeout (scopes s c) -> s_deadline (scopes s' c) = s_deadline (scopes s c) ->
  s_cancelled (scopes s' c) = s_cancelled (scopes s c) -> (now s <= now s')%Z -> PInv' s' c a.
Proof.
  intros P H1 H2 H3 Et Ed Ec Hn. constructor.
  - intros x Hx Hw. rewrite Et, Ed. destruct (H1 x Hx Hw) as [H|H]; [now apply P|exact H].
  - intros tm Hin. rewrite Et, Ed. destruct (H2 tm Hin) as [H|(x & Hx & Hw & Hi & Hle)].
    + destruct (pi_ready _ _ _ P tm H) as (A & d & B & C). split; [exact A|]. exists d. split; [exact B|lia].
    + destruct (pi_timer _ _ _ P x Hx Hw) as [A B]. subst tm. split; [exact A|]. exists (tm_when x). auto.
  - intros tm. rewrite Et, Ec. intros E1 E2. destruct (pi_armed _ _ _ P tm E1 E2) as [A B]. split; [exact A|].
    now apply H3.
  - rewrite Et. apply P.
  - intros d. rewrite Et, Ec, Ed. apply P.
Qed.

Lemma scopes_upd_other s c g x : x <> c -> scopes (upd_scope s c g) x = scopes s x.
Proof. intros H. cbn [upd_scope set_scopes scopes]. now rewrite upd_other. Qed.

Lemma scopes_upd_same s c g : scopes (upd_scope s c g) c = g (scopes s c).
Proof. cbn [upd_scope set_scopes scopes]. now rewrite upd_same. Qed.

Lemma pinv_upd_scope_other s c g x a : x <> c -> PInv' s x a -> PInv' (upd_scope s c g) x a.
Proof.
  intros Hx P. apply (pinv_transfer s); auto; rewrite ?(scopes_upd_other s c g x Hx); auto; try reflexivity.
Qed.

Lemma PInv_upd_scope_other s c g x : x <> c -> PInv s x -> PInv (upd_scope s c g) x.
Proof. intros Hx P. unfold PInv. rewrite (scopes_upd_other s c g x Hx). now apply pinv_upd_scope_other. Qed.

Lemma ne_upd_scope s c g : (forall k, s_timeout (g k) = s_timeout k) -> NE s c -> NE (upd_scope s c g) c.
Proof.
  intros Hg [N1 N2 N3]. constructor; [exact N1|exact N2|]. now rewrite scopes_upd_same, Hg.
Qed.

Lemma we_upd_scope s c g : (forall k, s_timeout (g k) = s_timeout k) -> WE s c -> WE (upd_scope s c g) c.
Proof.
  intros Hg [W1 W2]. constructor; rewrite scopes_upd_same, Hg; [exact W1|exact W2].
Qed.

Lemma ginv_upd_scope s c g :
  (forall k, s_timeout (g k) = s_timeout k /\ (s_active (g k) = true -> s_active k = true)) ->
  GInv s -> GInv (upd_scope s c g).
Proof.
  intros Hg G. apply (ginv_shrink s); [exact G|reflexivity|apply Nat.le_refl|intros tm; apply Nat.le_refl| | |
                                       |reflexivity|reflexivity].
  - intros x tm. cbn [upd_scope set_scopes scopes]. rewrite upd_eq. destruct (Nat.eqb x c) eqn:E; [|auto].
    apply Nat.eqb_eq in E. subst x. now rewrite (proj1 (Hg _)).
  - auto.
  - intros x. cbn [upd_scope set_scopes scopes]. rewrite upd_eq. destruct (Nat.eqb x c) eqn:E; [|auto].
    apply Nat.eqb_eq in E. subst x. apply Hg.
Qed.

Lemma ginv_set_active s c : c < nscope s -> GInv s -> GInv (upd_scope s c (sc_active true)).
Proof.
  intros Hc G.
  assert (St : forall x, s_timeout (scopes (upd_scope s c (sc_active true)) x) = s_timeout (scopes s x)).
  { intros x. cbn [upd_scope set_scopes scopes]. rewrite upd_eq. destruct (Nat.eqb x c) eqn:E; [|reflexivity].
    apply Nat.eqb_eq in E. now subst x. }
  destruct G. constructor; auto.
  - intros x tm. rewrite St. apply gi_tm_lt0.
  - intros x x' tm. rewrite !St. apply gi_inj0.
  - intros tm H. destruct (gi_sleep0 tm H) as [H1 H2]. split; [exact H1|]. intros x. rewrite St. apply H2.
  - intros x Hx. cbn [upd_scope set_scopes scopes nscope] in *. rewrite upd_other by lia. auto.
Qed.

(* ====================================================================================================== *)
(* 3. the transformers                                                                                      *)
(* ====================================================================================================== *)

Lemma live_timer_cancel s tm tm' : live (timer_cancel s tm) tm' = if Nat.eqb tm' tm then 0 else live s tm'.
Proof.
  unfold live. cbn [timer_cancel set_ready set_timers timers ready]. rewrite tcount_filter_ne, rcount_filter_ne.
  destruct (Nat.eqb tm' tm); reflexivity.
Qed.

(* TimerHandle.cancel(); self._timeout_handle = None *)
Lemma cancel_timeout_spec s c :
  GInv s -> (forall x, x <> c -> PInv s x) -> WE s c ->
  GInv (cancel_timeout s c) /\ (forall x, x <> c -> PInv (cancel_timeout s c) x) /\ NE (cancel_timeout s c) c.
Proof.
  intros G P W. unfold cancel_timeout. destruct (s_timeout (scopes s c)) as [tm|] eqn:Et.
  - refine (conj _ (conj _ _)).
    + apply (ginv_shrink s); [exact G|reflexivity|apply Nat.le_refl| | |auto| |reflexivity|reflexivity].
      * intros tm'. change (live (timer_cancel s tm) tm' <= live s tm'). rewrite live_timer_cancel.
        destruct (Nat.eqb tm' tm); lia.
      * intros x tm'. cbn [upd_scope set_scopes scopes timer_cancel set_ready set_timers]. rewrite upd_eq.
        destruct (Nat.eqb x c); [discriminate|auto].
      * intros x. cbn [upd_scope set_scopes scopes timer_cancel set_ready set_timers]. rewrite upd_eq.
        destruct (Nat.eqb x c) eqn:E; [|auto]. apply Nat.eqb_eq in E. now subst x.
    + intros x Hx. apply PInv_upd_scope_other; [exact Hx|]. specialize (P x Hx). unfold PInv in *.
      change (s_active (scopes (timer_cancel s tm) x)) with (s_active (scopes s x)).
      assert (Ne : forall tm', s_timeout (scopes s x) = Some tm' -> Nat.eqb tm' tm = false).
      { intros tm' E. apply Nat.eqb_neq. intros ->. apply Hx. apply (gi_inj _ G x c tm); auto. }
      apply (pinv_transfer s); auto; try reflexivity; cbn [timer_cancel set_ready set_timers timers ready now]; try lia.
      * intros y Hy _. apply filter_In in Hy. now left.
      * intros tm' Hin. apply filter_In in Hin. now left.
      * intros tm' E [[d Hd]|Hr]; [left; exists d|right]; apply filter_In; (split; [assumption|]); cbn;
          rewrite (Ne tm' E); reflexivity.
    + constructor.
      * intros y Hy Hw. cbn [upd_scope set_scopes timer_cancel set_ready set_timers timers] in Hy.
        apply filter_In in Hy. destruct Hy as [Hy Hf]. pose proof (we_timers _ _ W y Hy Hw) as E.
        rewrite Et in E. injection E as ->. rewrite Nat.eqb_refl in Hf. discriminate.
      * intros tm' Hin. cbn [upd_scope set_scopes timer_cancel set_ready set_timers ready] in Hin.
        apply filter_In in Hin. destruct Hin as [Hin Hf]. pose proof (we_ready _ _ W tm' Hin) as E.
        rewrite Et in E. injection E as ->. cbn in Hf. rewrite Nat.eqb_refl in Hf. discriminate.
      * now rewrite scopes_upd_same.
  - refine (conj G (conj P _)). constructor; [| |exact Et].
    + intros y Hy Hw. pose proof (we_timers _ _ W y Hy Hw). congruence.
    + intros tm Hin. pose proof (we_ready _ _ W tm Hin). congruence.
Qed.

Lemma cancel_timeout_fields s c :
  now (cancel_timeout s c) = now s /\ nscope (cancel_timeout s c) = nscope s /\ ntimer (cancel_timeout s c) = ntimer s /\
  forall x, s_deadline (scopes (cancel_timeout s c) x) = s_deadline (scopes s x) /\
            s_cancelled (scopes (cancel_timeout s c) x) = s_cancelled (scopes s x) /\
            s_active (scopes (cancel_timeout s c) x) = s_active (scopes s x).
Proof.
  unfold cancel_timeout. destruct (s_timeout (scopes s c)); [|refine (conj eq_refl (conj eq_refl (conj eq_refl _))); auto].
  refine (conj eq_refl (conj eq_refl (conj eq_refl _))). intros x.
  cbn [upd_scope set_scopes scopes timer_cancel set_ready set_timers]. rewrite upd_eq.
  destruct (Nat.eqb x c) eqn:E; [|auto]. apply Nat.eqb_eq in E. subst x. auto.
Qed.

(* CancelScope.cancel() *)
Lemma scope_cancel_spec s c b a :
  GInv s -> (forall x, x <> c -> PInv s x) -> WE s c -> (s_cancelled (scopes s c) = true -> PInv' s c a) ->
  GInv (scope_cancel s c b) /\ (forall x, x <> c -> PInv (scope_cancel s c b) x) /\ PInv' (scope_cancel s c b) c a /\
  (forall x, s_active (scopes (scope_cancel s c b) x) = s_active (scopes s x)) /\
  nscope (scope_cancel s c b) = nscope s.
Proof.
  intros G P W Pc. unfold scope_cancel. destruct (s_cancelled (scopes s c)) eqn:Ec; [auto 6|].
  destruct (cancel_timeout_spec s c G P W) as (G1 & P1 & N1).
  destruct (cancel_timeout_fields s c) as (F1 & F2 & F3 & F4).
  set (s1 := cancel_timeout s c) in *.
  set (s2 := upd_scope s1 c (fun x => sc_bydeadline b (sc_cancelled true x))).
  assert (G2 : GInv s2) by (apply ginv_upd_scope; [intros k; auto|exact G1]).
  assert (P2 : forall x, x <> c -> PInv s2 x) by (intros x Hx; apply PInv_upd_scope_other; auto).
  assert (Pc2 : PInv' s2 c a).
  { apply ne_pinv; [apply ne_upd_scope; auto|]. right; left. unfold s2. now rewrite scopes_upd_same. }
  assert (A2 : forall x, s_active (scopes s2 x) = s_active (scopes s x)).
  { intros x. rewrite <- (proj2 (proj2 (F4 x))). unfold s2. cbn [upd_scope set_scopes scopes]. rewrite upd_eq.
    destruct (Nat.eqb x c) eqn:E; [|reflexivity]. apply Nat.eqb_eq in E. now subst x. }
  destruct (s_host (scopes s2 c)); [|auto 6].
  pose proof (frame_tframe _ _ (frame_deliver_top s2 c)) as F.
  refine (conj (ginv_tframe _ _ F G2) (conj _ (conj (pinv_tframe _ _ _ _ F Pc2) (conj _ _)))).
  - intros x Hx. unfold PInv. rewrite (tf_active _ _ F). apply (pinv_tframe _ _ _ _ F), P2, Hx.
  - intros x. now rewrite (tf_active _ _ F).
  - now rewrite (tf_nscope _ _ F).
Qed.

(* arming: loop.call_at(deadline, self._timeout) *)
Lemma arm_spec s c d :
  GInv s -> (forall x, x <> c -> PInv s x) -> NE s c ->
  let s' := upd_scope (fst (call_at s d (TScope c))) c (sc_timeout (Some (ntimer s))) in
  s_deadline (scopes s c) = Some d ->
  GInv s' /\ (forall x, x <> c -> PInv s' x) /\ PInv' s' c true.
Proof.
  intros G P N s' Ed.
  assert (Lv : forall tm, live s' tm = live s tm + (if Nat.eqb (ntimer s) tm then 1 else 0)).
  { intros tm. unfold live, s'. cbn [upd_scope set_scopes call_at fst timers ready].
    rewrite tcount_app, tcount_cons. cbn [tm_id tcount filter length]. lia. }
  assert (St : forall x, s_timeout (scopes s' x) = if Nat.eqb x c then Some (ntimer s) else s_timeout (scopes s x)).
  { intros x. unfold s'. cbn [upd_scope set_scopes scopes call_at fst]. rewrite upd_eq. destruct (Nat.eqb x c); reflexivity. }
  refine (conj _ (conj _ _)).
  - constructor.
    + cbn. lia.
    + apply G.
    + intros tm. rewrite Lv. destruct (Nat.eqb_spec (ntimer s) tm) as [<-|E].
      * rewrite (gi_fresh _ G (ntimer s)); lia.
      * pose proof (gi_uniq _ G tm). lia.
    + intros tm Htm. cbn [s' upd_scope set_scopes call_at fst ntimer] in Htm. rewrite Lv.
      destruct (Nat.eqb_spec (ntimer s) tm); [lia|]. rewrite (gi_fresh _ G tm); lia.
    + intros x tm. rewrite St. cbn [s' upd_scope set_scopes call_at fst ntimer]. destruct (Nat.eqb x c).
      * intros E. injection E as <-. pose proof (gi_ntimer_pos _ G). lia.
      * intros E. pose proof (gi_tm_lt _ G x tm E). lia.
    + intros x x' tm. rewrite !St. destruct (Nat.eqb_spec x c) as [->|E1]; destruct (Nat.eqb_spec x' c) as [->|E2]; auto.
      * intros A B. injection A as <-. pose proof (gi_tm_lt _ G x' _ B). lia.
      * intros A B. injection B as <-. pose proof (gi_tm_lt _ G x _ A). lia.
      * apply (gi_inj _ G).
    + intros tm H. assert (H' : sleep_id s tm) by exact H. destruct (gi_sleep _ G tm H') as [H1 H2].
      cbn [s' upd_scope set_scopes call_at fst ntimer]. split; [lia|]. intros x. rewrite St.
      destruct (Nat.eqb x c); [|apply H2]. intros E. injection E as E. lia.
    + intros x Hx. unfold s'. cbn [upd_scope set_scopes scopes call_at fst nscope] in *. rewrite upd_eq.
      destruct (Nat.eqb x c) eqn:E; [|now apply (gi_unalloc _ G)]. apply Nat.eqb_eq in E. subst x.
      cbn [sc_timeout s_active]. now apply (gi_unalloc _ G).
    + apply G.
    + apply G.
  - intros x Hx. apply PInv_upd_scope_other; [exact Hx|]. specialize (P x Hx). unfold PInv in *.
    change (s_active (scopes (fst (call_at s d (TScope c))) x)) with (s_active (scopes s x)).
    apply (pinv_transfer s); auto; try reflexivity; cbn [call_at fst timers ready now]; try lia.
    + intros y Hy Hw. apply in_app_iff in Hy. destruct Hy as [Hy|[<-|[]]]; [now left|]. cbn in Hw. congruence.
    + intros tm E [[d' Hd]|Hr]; [left; exists d'; apply in_app_iff; now left|now right].
  - constructor.
    + intros y Hy Hw. unfold s' in Hy. cbn [upd_scope set_scopes call_at fst timers] in Hy.
      apply in_app_iff in Hy. destruct Hy as [Hy|[<-|[]]]; [destruct (ne_timers _ _ N y Hy Hw)|].
      rewrite St, Nat.eqb_refl. cbn [tm_id tm_when]. split; [reflexivity|].
      unfold s'. rewrite scopes_upd_same. cbn [sc_timeout s_deadline call_at fst scopes]. exact Ed.
    + intros tm Hin. destruct (ne_ready _ _ N tm Hin).
    + intros tm E _. rewrite St, Nat.eqb_refl in E. injection E as <-. split; [reflexivity|]. left. exists d.
      unfold s'. cbn [upd_scope set_scopes call_at fst timers]. apply in_app_iff. right. now left.
    + discriminate.
    + intros d' _ _ _. rewrite St, Nat.eqb_refl. eauto.
Qed.

(* CancelScope._timeout() on a scope without loop entry *)
Lemma scope_timeout_spec s c :
  GInv s -> (forall x, x <> c -> PInv s x) -> NE s c ->
  GInv (scope_timeout s c) /\ (forall x, x <> c -> PInv (scope_timeout s c) x) /\ PInv' (scope_timeout s c) c true /\
  (forall x, s_active (scopes (scope_timeout s c) x) = s_active (scopes s x)) /\
  nscope (scope_timeout s c) = nscope s.
Proof.
  intros G P N. unfold scope_timeout. destruct (s_deadline (scopes s c)) as [d|] eqn:Ed.
  - destruct (Z.leb d (now s)).
    + apply scope_cancel_spec; auto.
      * constructor; [intros y Hy Hw; destruct (ne_timers _ _ N y Hy Hw)|intros tm Hin; destruct (ne_ready _ _ N tm Hin)].
      * intros Ec. apply ne_pinv; auto.
    + pose proof (arm_spec s c d G P N Ed) as (G1 & P1 & Pc1). cbn [call_at] in *.
      refine (conj G1 (conj P1 (conj Pc1 (conj _ eq_refl)))). intros x.
      cbn [upd_scope set_scopes scopes]. rewrite upd_eq. destruct (Nat.eqb x c) eqn:E; [|reflexivity].
      apply Nat.eqb_eq in E. now subst x.
  - refine (conj G (conj P (conj _ (conj _ eq_refl)))); [|auto]. apply ne_pinv; auto.
Qed.

(* PInv' with a = true is what PInv needs once _active is set *)
Lemma pinv_set_active s c : PInv' s c true -> PInv (upd_scope s c (sc_active true)) c.
Proof.
  intros P. unfold PInv. rewrite scopes_upd_same. cbn [sc_active s_active].
  apply (pinv_transfer s); auto; rewrite ?scopes_upd_same; try reflexivity.
Qed.

(* CancelScope.__enter__ *)
Lemma scope_enter_tinv s c t : c < nscope s -> TInv s -> TInv (fst (scope_enter s c t)).
Proof.
  intros Hc [G P]. unfold scope_enter. destruct (s_active (scopes s c)) eqn:Ea; [split; assumption|].
  cbv zeta. cbn [fst].
  match goal with |- context [upd_task ?a t (tk_cur (Some c))] => set (s2 := upd_task a t (tk_cur (Some c))) end.
  match goal with |- context [scope_timeout ?a c] => set (s3 := a) end.
  assert (F3 : tframe s s3).
  { assert (F2 : tframe s s2).
    { unfold s2. match goal with |- tframe s (upd_task ?a _ _) => apply tframe_trans with a end.
      - apply tframe_upd_scope. intros k; auto.
      - apply frame_tframe, frame_upd_task. tkok. }
    unfold s3. destruct (k_cur (tasks s t)); [|exact F2].
    eapply tframe_trans; [exact F2|]. apply tframe_upd_scope. intros k; auto. }
  destruct (tinv_tframe _ _ F3 (conj G P)) as [G3 P3].
  assert (N3 : NE s3 c).
  { apply (pinv_none_ne s3 c (s_active (scopes s3 c))); [apply P3|]. apply (pi_inactive _ _ _ (P3 c)).
    now rewrite (tf_active _ _ F3). }
  destruct (scope_timeout_spec s3 c G3 (fun x _ => P3 x) N3) as (G4 & P4 & Pc4 & A4 & N4).
  set (s4 := scope_timeout s3 c) in *.
  assert (T5 : TInv (upd_scope s4 c (sc_active true))).
  { split.
    - apply ginv_set_active; [|exact G4]. rewrite N4, (tf_nscope _ _ F3). exact Hc.
    - intros x. destruct (Nat.eq_dec x c) as [->|Hx]; [now apply pinv_set_active|].
      apply PInv_upd_scope_other; auto. }
  destruct (s_cancelled _); [|exact T5]. apply (tinv_frame _ _ (frame_deliver_top _ c) T5).
Qed.

(* CancelScope.__exit__ *)
Lemma exit_tframe s c t exc :
  exit_guards s c t = true ->
  tframe (cancel_timeout (upd_scope s c (sc_active false)) c) (fst (scope_exit s c t exc)).
Proof.
  intros G. rewrite (scope_exit_eq s c t exc G), exit_tail_eq.
  set (s1 := cancel_timeout (upd_scope s c (sc_active false)) c).
  assert (U : forall a x g, (forall k, s_deadline (g k) = s_deadline k /\ s_cancelled (g k) = s_cancelled k /\
                                      s_active (g k) = s_active k /\ s_timeout (g k) = s_timeout k) ->
                            tframe s1 a -> tframe s1 (upd_scope a x g)).
  { intros a x g Hg Ha. eapply tframe_trans; [exact Ha|now apply tframe_upd_scope]. }
  assert (F4 : tframe s1 (exit_unlinked s c t)).
  { unfold exit_unlinked. cbv zeta. fold s1.
    eapply tframe_trans; [|apply frame_tframe, frame_upd_task; tkok].
    assert (F2 : tframe s1 (upd_scope s1 c (fun x => sc_tasks (del t (s_tasks x)) x))) by (apply U; [auto|apply tframe_refl]).
    destruct (s_parent (scopes s c)); [|exact F2]. apply U; auto. }
  assert (F5 : tframe s1 (exit_mid s c t)).
  { unfold exit_mid. eapply tframe_trans; [exact F4|apply frame_tframe, frame_restart]. }
  set (s5 := exit_mid s c t) in *.
  assert (It : forall n a, tframe s1 a -> tframe s1 (iter n (fun a => task_uncancel a t) a)).
  { intros n a Ha. eapply tframe_trans; [exact Ha|apply frame_tframe, dframe_frame, dframe_iter_uncancel]. }
  destruct (s_cancelled (scopes s5 c) && negb (parent_visible s5 c)); cbv zeta; cbn [fst].
  - apply U; [auto|]. destruct (absorbed (absorb_res exc)); [apply U; [auto|]|]; apply U; auto.
  - apply U; [auto|]. unfold exit_handover. cbv zeta. destruct (Nat.eqb _ 0); [exact F5|].
    destruct (s_parent (scopes s c)) as [p|]; [destruct (opt_eqb _ t)|]; apply U; auto.
Qed.

Lemma scope_exit_tinv s c t exc : TInv s -> TInv (fst (scope_exit s c t exc)).
Proof.
  intros [G P]. destruct (exit_guards s c t) eqn:Gd.
  2: { rewrite (scope_exit_guards_fail s c t exc Gd). split; assumption. }
  apply (tinv_tframe _ _ (exit_tframe s c t exc Gd)).
  set (s0 := upd_scope s c (sc_active false)).
  assert (G0 : GInv s0).
  { apply ginv_upd_scope; [|exact G]. intros k. split; [reflexivity|]. cbn. discriminate. }
  assert (P0 : forall x, x <> c -> PInv s0 x) by (intros x Hx; apply PInv_upd_scope_other; auto).
  assert (W0 : WE s0 c) by (apply we_upd_scope; [auto|apply (pinv_we s c _ (P c))]).
  destruct (cancel_timeout_spec s0 c G0 P0 W0) as (G1 & P1 & N1).
  split; [exact G1|]. intros x. destruct (Nat.eq_dec x c) as [->|Hx]; [|now apply P1].
  apply ne_pinv; [exact N1|]. left. destruct (cancel_timeout_fields s0 c) as (_ & _ & _ & F).
  rewrite (proj2 (proj2 (F c))). unfold s0. now rewrite scopes_upd_same.
Qed.

Lemma scope_cancel_tinv s c b : TInv s -> TInv (scope_cancel s c b).
Proof.
  intros [G P]. destruct (scope_cancel_spec s c b (s_active (scopes s c)) G (fun x _ => P x) (pinv_we _ _ _ (P c))
                                            (fun _ => P c)) as (G1 & P1 & Pc & A & _).
  split; [exact G1|]. intros x. destruct (Nat.eq_dec x c) as [->|Hx]; [|now apply P1].
  unfold PInv. now rewrite A.
Qed.

(* deadline setter *)
Lemma set_deadline_tinv s c d : TInv s -> TInv (set_deadline_body s c d).
Proof.
  intros [G P]. unfold set_deadline_body. cbv zeta.
  set (s0 := upd_scope s c (sc_deadline d)).
  assert (G0 : GInv s0) by (apply ginv_upd_scope; [intros k; auto|exact G]).
  assert (P0 : forall x, x <> c -> PInv s0 x) by (intros x Hx; apply PInv_upd_scope_other; auto).
  assert (W0 : WE s0 c) by (apply we_upd_scope; [auto|apply (pinv_we s c _ (P c))]).
  destruct (cancel_timeout_spec s0 c G0 P0 W0) as (G1 & P1 & N1).
  set (s1 := cancel_timeout s0 c) in *.
  destruct (s_active (scopes s1 c)) eqn:Ea; cbn [andb].
  - destruct (s_cancelled (scopes s1 c)) eqn:Ec; cbn [negb].
    + split; [exact G1|]. intros x. destruct (Nat.eq_dec x c) as [->|Hx]; [|now apply P1]. apply ne_pinv; auto.
    + destruct (scope_timeout_spec s1 c G1 P1 N1) as (G2 & P2 & Pc2 & A2 & _).
      split; [exact G2|]. intros x. destruct (Nat.eq_dec x c) as [->|Hx]; [|now apply P2].
      unfold PInv. now rewrite A2, Ea.
  - split; [exact G1|]. intros x. destruct (Nat.eq_dec x c) as [->|Hx]; [|now apply P1]. apply ne_pinv; auto.
Qed.

(* ---------------- allocation ---------------- *)
Lemma new_scope_tinv s d sh : TInv s -> TInv (fst (new_scope s d sh)).
Proof.
  intros [G P]. set (c0 := nscope s).
  assert (Sx : forall x, scopes (fst (new_scope s d sh)) x =
                         if Nat.eqb x c0 then sc_shield sh (sc_deadline d scope0) else scopes s x).
  { intros x. cbn [new_scope fst scopes]. apply upd_eq. }
  assert (N0 : NE s c0).
  { apply (pinv_none_ne s c0 _ (P c0)). apply (pi_inactive _ _ _ (P c0)). apply (gi_unalloc _ G). unfold c0. lia. }
  split.
  - apply (ginv_shrink s); [exact G|reflexivity|cbn; lia|intros tm; apply Nat.le_refl| |auto| |reflexivity|reflexivity].
    + intros x tm. rewrite Sx. destruct (Nat.eqb x c0); [discriminate|auto].
    + intros x. rewrite Sx. destruct (Nat.eqb x c0); [discriminate|auto].
  - intros x. unfold PInv. rewrite Sx. destruct (Nat.eqb x c0) eqn:E.
    + apply Nat.eqb_eq in E. subst x. apply ne_pinv; [|now left].
      destruct N0 as [N1 N2 N3]. constructor; [exact N1|exact N2|]. now rewrite Sx, Nat.eqb_refl.
    + apply (pinv_transfer s); auto; rewrite ?Sx, ?E; try reflexivity. apply P.
Qed.

(* changes of the task / group tables that keep the stored scope ids in range and invent no sleeper *)
Lemma tinv_tables s s' :
  timers s' = timers s -> ntimer s' = ntimer s -> now s' = now s -> nscope s' = nscope s -> ready s' = ready s ->
  scopes s' = scopes s ->
  (forall tm, sleep_id s' tm -> tm < ntimer s /\ forall c, s_timeout (scopes s c) <> Some tm) ->
  (forall t, k_hscope (tasks s' t) < nscope s) -> (forall g, g_scope (groups s' g) < nscope s) ->
  TInv s -> TInv s'.
Proof.
  intros E1 E2 E3 E4 E5 E6 Hs Hh Hg [G P]. split.
  - destruct G. constructor; unfold live in *; rewrite ?E1, ?E2, ?E4, ?E5, ?E6; auto.
  - intros c. unfold PInv. rewrite E6. apply (pinv_transfer s); auto; rewrite ?E1, ?E5, ?E6, ?E3; auto; try reflexivity.
    apply P.
Qed.

Lemma add_group_tinv s c : c < nscope s -> TInv s -> TInv (add_group s c).
Proof.
  intros Hc T. apply (tinv_tables s); try reflexivity; auto.
  - intros tm H. apply (gi_sleep _ (proj1 T)). exact H.
  - intros t. apply (gi_hscope _ (proj1 T)).
  - intros g. cbn [add_group groups]. rewrite upd_eq. destruct (Nat.eqb g (ngroup s)); [exact Hc|apply (gi_gscope _ (proj1 T))].
Qed.

Lemma install_task_sleep (tk : tid -> task) t k tm :
  nosleep (k_ctl k) -> (exists t0 f, k_ctl (upd tk t k t0) = CSleep f tm) -> exists t0 f, k_ctl (tk t0) = CSleep f tm.
Proof.
  intros Hk (t0 & f & H). rewrite upd_eq in H. destruct (Nat.eqb t0 t); [rewrite H in Hk; destruct Hk|eauto].
Qed.

Lemma add_root_tinv s : TInv s -> TInv (add_root s).
Proof.
  intros T. apply (tinv_tables s); try reflexivity; auto.
  - intros tm H. apply (gi_sleep _ (proj1 T)). apply (install_task_sleep (tasks s) (ntask s) root_task tm I H).
  - intros t. cbn [add_root tasks]. rewrite upd_eq. destruct (Nat.eqb t (ntask s)); [apply (gi_nscope_pos _ (proj1 T))|apply (gi_hscope _ (proj1 T))].
  - intros g. apply (gi_gscope _ (proj1 T)).
Qed.

Lemma spawn_tinv s g sf : TInv s -> TInv (fst (spawn_task s g sf)).
Proof.
  intros T. unfold spawn_task. cbv zeta.
  change (new_scope s None false) with (fst (new_scope s None false), snd (new_scope s None false)). cbv iota.
  cbn [fst]. pose proof (new_scope_tinv s None false T) as T1. set (s1 := fst (new_scope s None false)) in *.
  assert (Hs : snd (new_scope s None false) = nscope s) by reflexivity. rewrite Hs.
  match goal with |- TInv (call_soon (restart (upd_group (upd_scope ?a _ _) _ _) _) _) => set (s2 := a) end.
  assert (T2 : TInv s2).
  { apply (tinv_tables s1); try reflexivity; auto.
    - intros tm H. apply (gi_sleep _ (proj1 T1)). eapply (install_task_sleep (tasks s1) (ntask s)); [|exact H]. exact I.
    - intros t. unfold s2. cbn [tasks]. rewrite upd_eq. destruct (Nat.eqb t (ntask s)).
      + cbn [k_hscope]. unfold s1. cbn. lia.
      + apply (gi_hscope _ (proj1 T1)).
    - intros g0. apply (gi_gscope _ (proj1 T1)). }
  match goal with |- TInv (call_soon ?a ?h) => apply (tinv_frame a); [now apply frame_call_soon|] end.
  match goal with |- TInv (restart ?a ?x) => apply (tinv_frame a); [apply frame_restart|] end.
  match goal with |- TInv (upd_group ?a ?x ?g) => apply (tinv_frame a); [apply frame_upd_group; reflexivity|] end.
  match goal with |- TInv (upd_scope ?a ?x ?g) => apply (tinv_tframe a); [apply tframe_upd_scope; intros k; auto|] end.
  exact T2.
Qed.

(* ---------------- asyncio.sleep ---------------- *)
Lemma call_at_sleep_tinv s w f : TInv s -> TInv (fst (call_at s w (TSleep f))).
Proof.
  intros [G P]. set (s' := fst (call_at s w (TSleep f))).
  assert (Lv : forall tm, live s' tm = live s tm + (if Nat.eqb (ntimer s) tm then 1 else 0)).
  { intros tm. unfold live, s'. cbn [call_at fst timers ready]. rewrite tcount_app, tcount_cons.
    cbn [tm_id tcount filter length]. lia. }
  split.
  - constructor.
    + cbn. lia.
    + apply G.
    + intros tm. rewrite Lv. destruct (Nat.eqb_spec (ntimer s) tm) as [<-|E].
      * rewrite (gi_fresh _ G (ntimer s)); lia.
      * pose proof (gi_uniq _ G tm). lia.
    + intros tm Htm. cbn [s' call_at fst ntimer] in Htm. rewrite Lv.
      destruct (Nat.eqb_spec (ntimer s) tm); [lia|]. rewrite (gi_fresh _ G tm); lia.
    + intros c tm E. cbn [s' call_at fst ntimer]. pose proof (gi_tm_lt _ G c tm E). lia.
    + apply (gi_inj _ G).
    + intros tm H. destruct (gi_sleep _ G tm H) as [H1 H2]. cbn [s' call_at fst ntimer]. split; [lia|exact H2].
    + apply (gi_unalloc _ G).
    + apply G.
    + apply G.
  - intros c. unfold PInv. change (s_active (scopes s' c)) with (s_active (scopes s c)).
    apply (pinv_transfer s); auto; try reflexivity; [apply P| |].
    + intros y Hy Hw. unfold s' in Hy. cbn [call_at fst timers] in Hy. apply in_app_iff in Hy.
      destruct Hy as [Hy|[<-|[]]]; [now left|discriminate].
    + intros tm E [[d Hd]|Hr]; [left; exists d; unfold s'; cbn [call_at fst timers]; apply in_app_iff; now left|now right].
Qed.

Lemma set_ctl_sleep_tinv s t f tm :
  tm < ntimer s -> (forall c, s_timeout (scopes s c) <> Some tm) -> TInv s -> TInv (set_ctl s t (CSleep f tm)).
Proof.
  intros H1 H2 T. apply (tinv_tables s); try reflexivity; auto.
  - intros tm' (t0 & f0 & H). cbn [set_ctl upd_task set_tasks tasks] in H. rewrite upd_eq in H.
    destruct (Nat.eqb t0 t).
    + cbn in H. injection H as _ <-. auto.
    + apply (gi_sleep _ (proj1 T)). exists t0, f0. exact H.
  - intros t0. cbn [set_ctl upd_task set_tasks tasks]. rewrite upd_eq.
    destruct (Nat.eqb t0 t); [cbn|]; apply (gi_hscope _ (proj1 T)).
  - intros g. apply (gi_gscope _ (proj1 T)).
Qed.

Lemma sleep_arm_tinv s t f w :
  TInv s -> TInv (set_ctl (suspend_on (fst (call_at s w (TSleep f))) t f) t (CSleep f (ntimer s))).
Proof.
  intros T. pose proof (call_at_sleep_tinv s w f T) as T1. set (s1 := fst (call_at s w (TSleep f))) in *.
  pose proof (frame_tframe _ _ (frame_suspend_on s1 t f)) as F.
  apply set_ctl_sleep_tinv; [| |exact (tinv_tframe _ _ F T1)].
  - rewrite (tf_ntimer _ _ F). unfold s1. cbn. lia.
  - intros c. rewrite (tf_timeout _ _ F). unfold s1. cbn [call_at fst scopes]. intros E.
    pose proof (gi_tm_lt _ (proj1 T) c _ E). lia.
Qed.

Lemma sleep0_tinv s t f : TInv s -> TInv (set_ctl s t (CSleep f 0)).
Proof.
  intros T. apply set_ctl_sleep_tinv; [apply (gi_ntimer_pos _ (proj1 T))| |exact T].
  intros c E. pose proof (gi_tm_lt _ (proj1 T) c _ E). lia.
Qed.

(* the sleeper's `h.cancel()` on resumption *)
Lemma sleep_wake_tinv s tm : sleep_id s tm -> TInv s -> TInv (timer_cancel s tm).
Proof.
  intros Hs [G P]. destruct (gi_sleep _ G tm Hs) as [_ Hne]. split.
  - apply (ginv_shrink s); [exact G|reflexivity|apply Nat.le_refl| |auto|auto|auto|reflexivity|reflexivity].
    intros tm'. rewrite live_timer_cancel. destruct (Nat.eqb tm' tm); lia.
  - intros c. unfold PInv. change (s_active (scopes (timer_cancel s tm) c)) with (s_active (scopes s c)).
    apply (pinv_transfer s); auto; try reflexivity; [apply P| | |].
    + intros y Hy _. cbn [timer_cancel set_ready set_timers timers] in Hy. apply filter_In in Hy. now left.
    + intros tm' Hin. cbn [timer_cancel set_ready set_timers ready] in Hin. apply filter_In in Hin. now left.
    + intros tm' E. assert (Ne : Nat.eqb tm' tm = false).
      { apply Nat.eqb_neq. intros ->. exact (Hne c E). }
      cbn [timer_cancel set_ready set_timers timers ready].
      intros [[d Hd]|Hr]; [left; exists d|right]; apply filter_In; (split; [assumption|]); cbn; rewrite Ne; reflexivity.
Qed.

(* running a fired sleep timer *)
Lemma pop_sleepdone_tinv s f tm : TInv s -> TInv (pop s (HSleepDone f tm)).
Proof.
  intros [G P]. split.
  - apply (ginv_shrink s); [exact G|reflexivity|apply Nat.le_refl| |auto|auto|auto|reflexivity|reflexivity].
    intros tm'. unfold live, pop. cbn [set_ready timers ready]. pose proof (rcount_remove_first_le tm' (HSleepDone f tm) (ready s)). lia.
  - intros c. unfold PInv. change (s_active (scopes (pop s (HSleepDone f tm)) c)) with (s_active (scopes s c)).
    apply (pinv_transfer s); auto; try reflexivity; [apply P| |].
    + intros tm' Hin. left. unfold pop in Hin. cbn [set_ready ready] in Hin. eapply in_remove_first; eauto.
    + intros tm' E [Hd|Hr]; [now left|right]. unfold pop. cbn [set_ready ready].
      apply in_remove_first_other; [discriminate|exact Hr].
Qed.

(* running a fired deadline timer: by the invariant it is due, so _timeout cancels the scope *)
Lemma timeout_run_tinv s c tm :
  In (HTimeout c tm) (ready s) -> TInv s -> TInv (scope_timeout (set_running (pop s (HTimeout c tm)) None) c).
Proof.
  intros Hin [G P]. destruct (pi_ready _ _ _ (P c) tm Hin) as (Et & d & Ed & Hd).
  set (s1 := set_running (pop s (HTimeout c tm)) None).
  assert (G1 : GInv s1).
  { apply (ginv_shrink s); [exact G|reflexivity|apply Nat.le_refl| |auto|auto|auto|reflexivity|reflexivity].
    intros tm'. unfold live, s1, pop. cbn [set_running set_ready timers ready].
    pose proof (rcount_remove_first_le tm' (HTimeout c tm) (ready s)). lia. }
  assert (Sub : forall x tm', In (HTimeout x tm') (ready s1) -> In (HTimeout x tm') (ready s)).
  { intros x tm' H. unfold s1, pop in H. cbn [set_running set_ready ready] in H. eapply in_remove_first; eauto. }
  assert (P1 : forall x, x <> c -> PInv s1 x).
  { intros x Hx. unfold PInv. change (s_active (scopes s1 x)) with (s_active (scopes s x)).
    apply (pinv_transfer s); [apply P|auto| | |reflexivity|reflexivity|reflexivity|reflexivity].
    - intros tm' H. left. now apply Sub.
    - intros tm' E [Hd'|Hr]; [now left|right]. unfold s1, pop. cbn [set_running set_ready ready].
      apply in_remove_first_other; [|exact Hr]. intros E'. injection E' as -> _. now apply Hx. }
  assert (W1 : WE s1 c).
  { constructor.
    - intros y Hy Hw. apply (pi_timer _ _ _ (P c) y Hy Hw).
    - intros tm' H. apply (pi_ready _ _ _ (P c) tm'), Sub, H. }
  assert (Pc1 : s_cancelled (scopes s1 c) = true -> PInv' s1 c (s_active (scopes s c))).
  { intros Ec. constructor.
    - apply (pi_timer _ _ _ (P c)).
    - intros tm' H. apply (pi_ready _ _ _ (P c) tm'), Sub, H.
    - intros tm' _ E. change (s_cancelled (scopes s1 c)) with (s_cancelled (scopes s c)) in *. congruence.
    - apply (pi_inactive _ _ _ (P c)).
    - intros d' _ E. change (s_cancelled (scopes s1 c)) with (s_cancelled (scopes s c)) in *. congruence. }
  unfold scope_timeout. change (s_deadline (scopes s1 c)) with (s_deadline (scopes s c)). rewrite Ed.
  change (now s1) with (now s). assert (El : Z.leb d (now s) = true) by now apply Z.leb_le. rewrite El.
  destruct (scope_cancel_spec s1 c true _ G1 P1 W1 Pc1) as (G2 & P2 & Pc2 & A2 & _).
  split; [exact G2|]. intros x. destruct (Nat.eq_dec x c) as [->|Hx]; [|now apply P2].
  unfold PInv. rewrite A2. exact Pc2.
Qed.

(* ---------------- the clock ---------------- *)
Lemma tick_tinv s dt : (0 <= dt)%Z -> TInv s -> TInv (tick s dt).
Proof.
  intros Hdt [G P]. unfold tick. cbv zeta.
  set (n' := (now s + dt)%Z).
  set (due := filter (fun x => Z.leb (tm_when x) n') (timers s)).
  set (rest := filter (fun x => negb (Z.leb (tm_when x) n')) (timers s)).
  cbn [set_now timers now ready].
  fold due rest.
  set (s' := set_ready (set_timers (set_now s n') rest) (ready s ++ map handle_of_timer (sort_timers due))).
  assert (Lv : forall tm, live s' tm = live s tm).
  { intros tm. unfold live, s'. cbn [set_ready set_timers set_now timers ready].
    rewrite rcount_app, rcount_map_handle, tcount_sort_timers.
    pose proof (tcount_partition tm (fun x => Z.leb (tm_when x) n') (timers s)) as H. unfold due, rest. lia. }
  split.
  - apply (ginv_shrink s); [exact G|reflexivity|apply Nat.le_refl| |auto|auto|auto|reflexivity|reflexivity].
    intros tm. rewrite Lv. apply Nat.le_refl.
  - intros c. unfold PInv. change (s_active (scopes s' c)) with (s_active (scopes s c)).
    apply (pinv_transfer s); auto; try reflexivity; [apply P| | | |].
    + intros y Hy _. left. unfold s', rest in Hy. cbn [set_ready set_timers set_now timers] in Hy.
      apply filter_In in Hy. tauto.
    + intros tm Hin. unfold s' in Hin. cbn [set_ready set_timers set_now ready] in Hin.
      apply in_app_iff in Hin. destruct Hin as [H|H]; [now left|right].
      apply in_map_iff in H. destruct H as (y & Ey & Hy). apply (proj1 (in_sort_timers _ _)) in Hy. unfold due in Hy.
      apply filter_In in Hy. destruct Hy as [Hy Hle]. exists y.
      unfold handle_of_timer in Ey. destruct (tm_what y) as [f|c'] eqn:Ew; [discriminate|]. injection Ey as -> <-.
      refine (conj Hy (conj eq_refl (conj eq_refl _))). unfold s'. cbn [set_ready set_timers set_now now].
      now apply Z.leb_le.
    + intros tm E [[d Hd]|Hr].
      * destruct (Z.leb d n') eqn:El.
        -- right. unfold s'. cbn [set_ready set_timers set_now ready]. apply in_app_iff. right.
           apply in_map_iff. exists (mkTimer tm d (TScope c)). split; [reflexivity|].
           apply (proj2 (in_sort_timers _ _)). unfold due. apply filter_In. split; [exact Hd|exact El].
        -- left. exists d. unfold s', rest. cbn [set_ready set_timers set_now timers]. apply filter_In.
           split; [exact Hd|]. cbn [tm_when]. now rewrite El.
      * right. unfold s'. cbn [set_ready set_timers set_now ready]. apply in_app_iff. now left.
    + unfold s'. cbn [set_ready set_timers set_now now]. unfold n'. lia.
Qed.

(* ====================================================================================================== *)
(* 4. every op preserves the invariant                                                                      *)
(* ====================================================================================================== *)
Definition RT (s s' : st) : Prop := TInv s -> TInv s'.

Lemma tinv_walk : walk_hyps RT (ok_always (fun s c => c < nscope s) (fun _ _ _ => True) (fun _ _ => False)).
Proof.
  constructor; unfold RT.
  - auto.
  - auto.
  - intros a b F. now apply tinv_frame.
  - exact I.
  - intros s d sh. apply new_scope_tinv.
  - intros s d sh t _ T. apply scope_enter_tinv; [cbn; lia|now apply new_scope_tinv].
  - intros s c t Hc. now apply scope_enter_tinv.
  - intros s g t _ T. apply scope_enter_tinv; [apply (gi_gscope _ (proj1 T))|exact T].
  - intros s t _ T. apply scope_enter_tinv; [apply (gi_hscope _ (proj1 T))|exact T].
  - intros s c t exc. apply scope_exit_tinv.
  - intros s c _. apply scope_cancel_tinv.
  - intros s g. apply scope_cancel_tinv.
  - intros s t. apply scope_cancel_tinv.
  - intros s c d _. apply set_deadline_tinv.
  - intros s T. apply add_group_tinv; [cbn; lia|now apply new_scope_tinv].
  - intros s g sf. apply spawn_tinv.
  - intros s t f w. apply sleep_arm_tinv.
  - intros s t f. apply sleep0_tinv.
  - intros s t f tm E. apply sleep_wake_tinv. exists t, f. exact E.
  - intros s f tm. apply pop_sleepdone_tinv.
  - intros s c tm _ Hin. now apply timeout_run_tinv.
  - intros s. apply add_root_tinv.
  - intros s dt [].
Qed.

(* programs can only enter scopes that exist: the one side condition on ops (see tinv_needs_wf below) *)
Definition op_wf (s : st) (o : op) : Prop :=
  match o with AEnter _ c => c < nscope s | _ => True end.

Theorem step_tinv s o : op_wf s o -> TInv s -> TInv (fst (step s o)).
Proof.
  intros Hwf. destruct o; try (apply (walk_step tinv_walk), op_ok_always; exact Hwf || exact I).
  unfold step. cbn [actor]. destruct (Z.ltb dt 0) eqn:E; cbn [fst]; [auto|]. apply tick_tinv. lia.
Qed.

Lemma tinv_init : TInv init.
Proof.
  split.
  - constructor.
    + cbn; lia.
    + cbn; lia.
    + intros tm. cbn. lia.
    + intros tm _. reflexivity.
    + intros c tm H. discriminate H.
    + intros c c' tm H. discriminate H.
    + intros tm (t & f & H). discriminate H.
    + intros c _. reflexivity.
    + intros g. cbn. lia.
    + intros t. cbn. lia.
  - intros c. apply ne_pinv; [|now left]. constructor.
    + intros x [].
    + intros tm [].
    + reflexivity.
Qed.

(* well-formed runs *)
Fixpoint wf_run (s : st) (ops : list op) : Prop :=
  match ops with
  | [] => True
  | o :: r => op_wf s o /\ wf_run (fst (step s o)) r
  end.

Definition reach_wf (s : st) : Prop := exists ops, wf_run init ops /\ s = final step init ops.

Lemma wf_run_tinv ops : forall s, TInv s -> wf_run s ops -> TInv (final step s ops).
Proof.
  induction ops as [|o r IH]; intros s T W; [exact T|]. destruct W as [W1 W2]. cbn [final fold_left].
  apply IH; [now apply step_tinv|exact W2].
Qed.

Theorem reach_tinv s : reach_wf s -> TInv s.
Proof. intros (ops & W & ->). apply wf_run_tinv; [apply tinv_init|exact W]. Qed.

Lemma wf_run_app ops : forall s o, wf_run s ops -> op_wf (final step s ops) o -> wf_run s (ops ++ [o]).
Proof.
  induction ops as [|x r IH]; intros s o W Ho.
  - cbn. split; [exact Ho|exact I].
  - destruct W as [W1 W2]. cbn [app wf_run]. split; [exact W1|]. apply IH; [exact W2|exact Ho].
Qed.

Lemma reach_wf_step s o : reach_wf s -> op_wf s o -> reach_wf (fst (step s o)).
Proof.
  intros (ops & W & ->) Ho. exists (ops ++ [o]). split; [now apply wf_run_app|]. now rewrite final_app.
Qed.
