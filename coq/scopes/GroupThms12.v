(* C02 under the discipline: the body tag 0 occurs at most once in g_excs, hence all source tags are distinct. *)
From AV Require Import Base Machine GroupInv GroupInv2 GroupInv3 GroupInv4 GroupInv5 GroupInv6 GroupInv7 GroupInv8
  GroupInv9 GroupThms GroupThms2 GroupThms3 GroupThms4 GroupThms5 GroupThms8 GroupThms9 GroupThms10.

(* a task inside __aexit__ of g stays there until the step in which the block is left *)
Lemma aexit_persist s o t g w : reach s -> DInv s -> in_aexit s t g w ->
  g_left (groups (fst (step s o)) g) = true \/ exists w', in_aexit (fst (step s o)) t g w'.
Proof.
  intros R D Hax. pose proof (alloc_of_in_aexit s t g w R Hax) as Hal.
  assert (Hni : idle s t = false).
  { unfold idle. destruct Hax as [exc [H|H]]; rewrite H; reflexivity. }
  assert (Same : fst (step s o) = s -> exists w', in_aexit (fst (step s o)) t g w').
  { intros E. rewrite E. eauto. }
  destruct (Nat.eq_dec t (acting o)) as [Hact|Hna].
  - unfold acting in Hact. destruct (actor o) as [ta|] eqn:Ea.
    + subst ta. right. apply Same. unfold step. now rewrite Ea, Hni.
    + destruct o; try (exfalso; subst t; destruct Hal; lia).
      destruct h as [t0|t0 f| | | |]; try (exfalso; subst t; destruct Hal; lia); subst t0.
      * destruct (in_dec_handle (HStep t) (ready s)) as [Hin|Hnin]; [|right; apply Same; now rewrite (step_run_notin s _ Hnin)].
        pose proof (wake_ok_step s t (reach_inv s R) Hin) as W. rewrite (step_run_in s _ Hin).
        pose proof (ax_facts_of s t g w R D Hax) as AF.
        destruct (resume_aexit_result (pop s (HStep t)) t None g w W Hax AF) as [[_ [_ L]]|[_ [w' [H _]]]]; [left; exact L|right; eauto].
      * destruct (in_dec_handle (HWake t f) (ready s)) as [Hin|Hnin]; [|right; apply Same; now rewrite (step_run_notin s _ Hnin)].
        pose proof (wake_ok_wake s t f (reach_inv s R) Hin) as W. rewrite (step_run_in s _ Hin).
        pose proof (ax_facts_of s t g w R D Hax) as AF.
        destruct (resume_aexit_result (pop s (HWake t f)) t (Some f) g w W Hax AF) as [[_ [_ L]]|[_ [w' [H _]]]]; [left; exact L|right; eauto].
      * destruct (in_dec_handle (HTaskDone t) (ready s)) as [Hin|Hnin]; [|right; apply Same; now rewrite (step_run_notin s _ Hnin)].
        exfalso. destruct (reach_inv s R) as [[K Ci G J] _]. destruct (k_td s K t Hin) as [Hd _].
        pose proof (c_done1 s Ci t Hd) as Hc. destruct Hax as [exc [H|H]]; congruence.
  - right. exists w. destruct (ctl_changes_only_when_acting s o t (proj2 Hal) Hna) as [Ec _].
    destruct Hax as [exc H]. exists exc. now rewrite Ec.
Qed.

Definition zc (l : list (nat * exn)) : nat := length (filter (fun x => Nat.eqb x 0) (map fst l)).

Definition ZInv (s : st) : Prop := forall g,
  zc (g_excs (groups s g)) <= 1 /\
  (zc (g_excs (groups s g)) <> 0 -> g_left (groups s g) = true \/ exists t w, in_aexit s t g w).

Lemma zc_app l tag e : zc (l ++ [(tag, e)]) = zc l + (if Nat.eqb tag 0 then 1 else 0).
Proof. unfold zc. rewrite map_app, filter_app, app_length. cbn. destruct (Nat.eqb tag 0); reflexivity. Qed.

Lemma zinv_step s o : reach s -> DInv s -> ZInv s -> okop s o = true -> ZInv (fst (step s o)).
Proof.
  intros R D Z Ho g. set (s' := fst (step s o)). destruct (Z g) as [Z1 Z2].
  assert (Persist : zc (g_excs (groups s g)) <> 0 -> g_left (groups s g) = true -> g_left (groups s' g) = true \/ True) by auto.
  assert (Keep : g_excs (groups s' g) = g_excs (groups s g) ->
                 (g_left (groups s g) = true -> g_left (groups s' g) = true) ->
                 zc (g_excs (groups s' g)) <= 1 /\
                 (zc (g_excs (groups s' g)) <> 0 -> g_left (groups s' g) = true \/ exists t w, in_aexit s' t g w)).
  { intros E Hl. rewrite E. split; [exact Z1|]. intros Hz. destruct (Z2 Hz) as [L|[t [w Hax]]]; [left; auto|].
    destruct (aexit_persist s o t g w R D Hax) as [L|[w' H]]; [left; exact L|right; eauto]. }
  destruct (step_group_cases s o g R) as [E|[[t [E1 [E0 [E2 E]]]]|[[t [E1 E]]|[[t [E1 [E2 [E3 E]]]]|[[t [e [E1 [E2 [E3 [E4 E]]]]]]|[[E P]|[t [E1 [E2 [E3 E]]]]]]]]]];
    fold s' in E.
  - apply Keep; rewrite E; auto.
  - rewrite E. cbn. split; [lia|]. intros H. contradiction.
  - apply Keep; rewrite E; auto.
  - apply Keep; rewrite E; auto.
  - (* body exception *)
    subst o. destruct (okop_gexit s t g Ho) as [Hr [Ha [Hh Hc]]].
    destruct E as [_ [_ [_ [Ex _]]]]. rewrite Ex. cbn [add_exc g_excs gr_excs]. rewrite zc_app. cbn [Nat.eqb].
    assert (Hz : zc (g_excs (groups s g)) = 0).
    { destruct (Nat.eq_dec (zc (g_excs (groups s g))) 0) as [H|H]; [exact H|]. exfalso.
      destruct (Z2 H) as [L|[t' [w Hax]]].
      - destruct (d_left s D g L) as [_ [_ [Hi _]]]. congruence.
      - destruct (d_ax s D t' g w Hax) as [_ [_ [_ [_ [Hh' _]]]]]. assert (t' = t) by congruence. subst t'.
        unfold idle in E2. destruct Hax as [exc [H1|H1]]; rewrite H1 in E2; discriminate. }
    rewrite Hz. split; [lia|]. intros _. right. exists t.
    destruct (reach_inv s R) as [M _].
    pose proof (group_exit_result s t g Ha Hh Hc (b_gscope s (m_g s M) g)) as [_ [w' [Hax _]]].
    exists w'. unfold s'. now rewrite (step_group_exit s t g E2).
  - apply Keep; [apply E|]. destruct E as [_ [_ [_ [_ [_ [L|[L _]]]]]]]; [intros H; congruence|auto].
  - assert (Ht0 : t <> 0).
    { destruct (reach_inv s R) as [[K _ _ _] _]. destruct (k_td s K t E2) as [_ [_ [_ [H _]]]]. lia. }
    destruct E as [E|[e [_ E]]].
    + apply Keep; rewrite E; auto.
    + assert (Hz : zc (g_excs (groups s' g)) = zc (g_excs (groups s g))).
      { rewrite E. cbn [add_exc g_excs gr_excs td_grp gr_tasks]. rewrite zc_app.
        destruct (Nat.eqb_spec t 0); [contradiction|lia]. }
      rewrite Hz. split; [exact Z1|]. intros H. destruct (Z2 H) as [L|[t' [w Hax]]].
      * left. rewrite E. cbn. exact L.
      * destruct (aexit_persist s o t' g w R D Hax) as [L|[w' H']]; [left; exact L|right; eauto].
Qed.

Lemma zinv_init : ZInv init.
Proof. intros g. cbn. split; [lia|]. intros H. contradiction. Qed.

Theorem dreach_zinv s : dreach s -> ZInv s.
Proof.
  apply (dreach_ind ZInv); [exact zinv_init|].
  intros s0 o D0 Z0 Ho. apply zinv_step; auto; [apply dreach_reach, D0|apply dreach_dinv, D0].
Qed.

Lemma nodup_from_parts (l : list nat) :
  NoDup (filter nzb l) -> length (filter (fun x => Nat.eqb x 0) l) <= 1 -> NoDup l.
Proof.
  induction l as [|a l IH]; [constructor|]. cbn [filter]. unfold nzb at 1.
  destruct (Nat.eqb_spec a 0) as [->|Ha]; cbn [negb].
  - cbn [length]. intros Hn Hz. constructor.
    + intros Hin. assert (H : In 0 (filter (fun x => Nat.eqb x 0) l)) by (apply filter_In; auto).
      destruct (filter (fun x => Nat.eqb x 0) l); [contradiction|cbn in Hz; lia].
    + apply IH; [exact Hn|lia].
  - intros Hn Hz. inversion Hn as [|? ? Hni Hnd]; subst. constructor.
    + intros Hin. apply Hni. apply filter_In. split; [exact Hin|]. unfold nzb. destruct (Nat.eqb_spec a 0); [contradiction|reflexivity].
    + apply IH; assumption.
Qed.

(* C02: under the discipline all source tags of the exception list are distinct (each member and the body
   contribute at most one exception) *)
Theorem group_excs_nodup_tags s g : dreach s -> NoDup (map fst (g_excs (groups s g))).
Proof.
  intros D. apply nodup_from_parts.
  - apply (group_excs_exactly_member_errors s g (dreach_reach s D)).
  - apply (dreach_zinv s D g).
Qed.

Theorem group_excs_nodup_tags_ops ops g : disciplined ops = true ->
  NoDup (map fst (g_excs (groups (final step init ops) g))).
Proof. intros H. apply group_excs_nodup_tags, dreach_final, H. Qed.

Example ex_nodup_tags_body :
  let ops := [ANewRoot; AGroupNew 1; AGroupEnter 1 1; ASpawn 1 1; ARun (HStep 2); AHold 2 7; AFinish 2 0;
              ARun (HTaskDone 2); ARun (HWake 1 4); AWrap 1 5; AGroupExit 1 1] in
  disciplined ops = true /\ map fst (g_excs (groups (final step init ops) 1)) = [2; 0].
Proof. vm_compute. auto. Qed.

(* ------------------------------------------------------------------------------------------------ *)
(* C02 end to end (disciplined runs): what the exception group raised by __aexit__ is made of *)
From Coq Require Import Permutation.
From AV Require Import GroupThmsPure.

Definition exn_of_done (d : option outcome) : exn :=
  match d with Some (OExc e) => e | Some (OCanc e) => e | _ => ERuntime end.

Definition ztag (x : nat * exn) : bool := Nat.eqb (fst x) 0.

Lemma perm_partition {A} (p : A -> bool) (l : list A) :
  Permutation l (filter p l ++ filter (fun x => negb (p x)) l).
Proof. apply filter_partition_perm. Qed.

Lemma filter_map_fst_nz (l : list (nat * exn)) :
  filter nzb (map fst l) = map fst (filter (fun x => negb (ztag x)) l).
Proof.
  induction l as [|[t e] l IH]; [reflexivity|]. cbn [map filter fst]. unfold nzb at 1, ztag at 1. cbn [fst].
  destruct (Nat.eqb t 0); cbn [negb]; [exact IH|]. cbn [map fst]. now rewrite IH.
Qed.

Lemma ztag_length (l : list (nat * exn)) :
  length (filter ztag l) = length (filter (fun x => Nat.eqb x 0) (map fst l)).
Proof.
  induction l as [|[t e] l IH]; [reflexivity|]. cbn [filter map fst]. unfold ztag at 1. cbn [fst].
  destruct (Nat.eqb t 0); cbn [length]; now rewrite IH.
Qed.

Lemma flat_map_map_comp {A B C} (f : B -> list C) (g : A -> B) l :
  flat_map f (map g l) = flat_map (fun x => f (g x)) l.
Proof. induction l as [|a l IH]; [reflexivity|]. cbn. now rewrite IH. Qed.

(* the list handed to BaseExceptionGroup by aexit_finish is a permutation of: the body exception (at most one entry,
   tag 0, never a cancellation) followed by the outcomes of the members `ms`; ms has no repetition, consists of
   members of g whose task_done ran with a non-cancellation exception, and contains every such member of g_ever
   unless its exception was routed to the start future (the caller of start()) *)
Theorem group_result_composition s g : dreach s ->
  let L := g_excs (groups s g) in
  let body := map snd (filter ztag L) in
  let ms := filter nzb (map fst L) in
  Permutation (map snd L) (body ++ map (fun t => exn_of_done (k_done (tasks s t))) ms) /\
  Permutation (flat_map leaves (map snd L))
              (flat_map leaves body ++ flat_map (fun t => leaves (exn_of_done (k_done (tasks s t)))) ms) /\
  length body <= 1 /\ (forall e, In e body -> is_cancel e = false) /\
  NoDup ms /\
  (forall t, In t ms -> k_group (tasks s t) = Some g /\ k_tdran (tasks s t) = true /\
                        exists e, k_done (tasks s t) = Some (OExc e) /\ is_cancel e = false) /\
  (forall t e, In t (g_ever (groups s g)) -> k_tdran (tasks s t) = true -> k_done (tasks s t) = Some (OExc e) ->
     In t ms \/ exists f, k_startfut (tasks s t) = Some f /\ f_st (futs s f) = FExc e).
Proof.
  intros D. cbn zeta. pose proof (dreach_reach s D) as R.
  destruct (group_excs_exactly_member_errors s g R) as [Hnd [Htags [Hzero Hconv]]].
  set (L := g_excs (groups s g)) in *.
  assert (Hnz : map snd (filter (fun x => negb (ztag x)) L) =
                map (fun t => exn_of_done (k_done (tasks s t))) (filter nzb (map fst L))).
  { rewrite filter_map_fst_nz, map_map. apply map_ext_in. intros [t e] Hin. apply filter_In in Hin.
    destruct Hin as [Hin Hz]. cbn [fst snd]. unfold ztag in Hz. cbn [fst] in Hz.
    assert (Ht : t <> 0) by (intros ->; discriminate).
    destruct (Htags t e Hin Ht) as [_ [_ [Hd _]]]. now rewrite Hd. }
  assert (P1 : Permutation (map snd L) (map snd (filter ztag L) ++
                 map (fun t => exn_of_done (k_done (tasks s t))) (filter nzb (map fst L)))).
  { rewrite <- Hnz, <- map_app. apply Permutation_map, perm_partition. }
  refine (conj P1 (conj _ (conj _ (conj _ (conj Hnd (conj _ _)))))).
  - rewrite <- (flat_map_map_comp leaves (fun t => exn_of_done (k_done (tasks s t)))), <- flat_map_app.
    apply Permutation_flat_map, P1.
  - pose proof (dreach_zinv s D g) as [Hz _]. unfold zc in Hz. fold L in Hz.
    rewrite map_length, ztag_length. exact Hz.
  - intros e Hin. apply in_map_iff in Hin. destruct Hin as [[t e'] [<- Hin]]. apply filter_In in Hin.
    destruct Hin as [Hin Hz]. unfold ztag in Hz. cbn [fst] in Hz. apply Nat.eqb_eq in Hz. subst t. apply (Hzero e' Hin).
  - intros t Hin. apply filter_In in Hin. destruct Hin as [Hin Hz]. apply in_map_iff in Hin.
    destruct Hin as [[t' e] [Et Hin]]. cbn in Et. subst t'.
    assert (Ht : t <> 0) by (intros ->; discriminate).
    destruct (Htags t e Hin Ht) as [H1 [H2 [H3 H4]]]. eauto 6.
  - intros t e H1 H2 H3. destruct (Hconv t e H1 H2 H3) as [_ [Hin|Hr]]; [left|right; exact Hr].
    apply filter_In. split; [apply in_map_iff; exists (t, e); auto|].
    unfold nzb. destruct (reach_inv s R) as [[_ _ Gi _] _]. destruct (g_grp s Gi g t H1) as [_ [H0 _]].
    destruct (Nat.eqb_spec t 0); [lia|reflexivity].
Qed.

Theorem group_result_composition_ops ops g : disciplined ops = true ->
  let s := final step init ops in
  let L := g_excs (groups s g) in
  let body := map snd (filter ztag L) in
  let ms := filter nzb (map fst L) in
  Permutation (map snd L) (body ++ map (fun t => exn_of_done (k_done (tasks s t))) ms) /\
  Permutation (flat_map leaves (map snd L))
              (flat_map leaves body ++ flat_map (fun t => leaves (exn_of_done (k_done (tasks s t)))) ms) /\
  length body <= 1 /\ (forall e, In e body -> is_cancel e = false) /\
  NoDup ms /\
  (forall t, In t ms -> k_group (tasks s t) = Some g /\ k_tdran (tasks s t) = true /\
                        exists e, k_done (tasks s t) = Some (OExc e) /\ is_cancel e = false) /\
  (forall t e, In t (g_ever (groups s g)) -> k_tdran (tasks s t) = true -> k_done (tasks s t) = Some (OExc e) ->
     In t ms \/ exists f, k_startfut (tasks s t) = Some f /\ f_st (futs s f) = FExc e).
Proof. intros H. apply (group_result_composition (final step init ops) g (dreach_final ops H)). Qed.

Example ex_result_composition :
  let ops := [ANewRoot; AGroupNew 1; AGroupEnter 1 1; ASpawn 1 1; ARun (HStep 2); AHold 2 7; AFinish 2 0;
              ARun (HTaskDone 2); ARun (HWake 1 4); AWrap 1 5; AGroupExit 1 1] in
  disciplined ops = true /\
  map snd (g_excs (groups (final step init ops) 1)) = [EErr 7; EGroup [ECancel 2; EErr 5]].
Proof. vm_compute. auto. Qed.
