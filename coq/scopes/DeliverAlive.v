(* C03 — I4 "delivery alive": in every reachable state a cancelled, hosted scope that some live task still
   reaches has its delivery callback scheduled.  This file: definitions, the bridge between the recursive walk
   of deliver and the task-side walk, and the effect of every primitive step on the invariant. *)
From AV Require Import Base Machine ScopeFrames DeliverInv TreeInv.

(* scope x sees c: the walk from x up the parent links reaches c through scopes that are neither shielded
   nor cancelled (c itself may be either) *)
Inductive vis (s : st) (c : sid) : sid -> Prop :=
| vis_here : vis s c c
| vis_up x p : s_shield (scopes s x) = false -> s_cancelled (scopes s x) = false ->
               s_parent (scopes s x) = Some p -> vis s c p -> vis s c x.

Definition reaches (s : st) (t : tid) (c : sid) : Prop :=
  k_done (tasks s t) = None /\ exists x, k_cur (tasks s t) = Some x /\ vis s c x.

Definition alive_at (s : st) (c : sid) : Prop :=
  s_cancelled (scopes s c) = true -> s_host (scopes s c) <> None -> (exists t, reaches s t c) ->
  s_chandle (scopes s c) = true.

Definition Alive (s : st) : Prop := forall c, alive_at s c.
Definition Handle (s : st) : Prop := forall c, s_chandle (scopes s c) = true -> In (HDeliver c) (ready s).
Definition DInv (s : st) : Prop := Alive s /\ Handle s.

(* ---------------- the part of the tree invariant the walks depend on ---------------- *)
Record TreeL (s : st) : Prop := {
  tl_act_alloc : forall x, s_active (scopes s x) = true -> alloc_s s x;
  tl_child : forall p x, In x (s_children (scopes s p)) <->
                         s_active (scopes s x) = true /\ s_parent (scopes s x) = Some p;
  tl_task : forall x t, In t (s_tasks (scopes s x)) <-> k_cur (tasks s t) = Some x;
  tl_cur_act : forall t x, k_cur (tasks s t) = Some x -> s_active (scopes s x) = true;
  tl_par_act : forall x p, s_active (scopes s x) = true -> s_parent (scopes s x) = Some p ->
                           s_active (scopes s p) = true;
  tl_rank : exists rk : sid -> nat, forall x p,
              s_active (scopes s x) = true -> s_parent (scopes s x) = Some p -> rk p < rk x
}.

Lemma Tree_TreeL s : Tree s -> TreeL s.
Proof. intros T. constructor; apply T. Qed.

(* TreeL does not look at s_host and is stable under anything that keeps the link fields *)
Lemma TreeL_ext a b :
  TreeL a -> nscope b = nscope a ->
  (forall x, s_active (scopes b x) = s_active (scopes a x) /\ s_parent (scopes b x) = s_parent (scopes a x) /\
             s_children (scopes b x) = s_children (scopes a x) /\ s_tasks (scopes b x) = s_tasks (scopes a x)) ->
  (forall t, k_cur (tasks b t) = k_cur (tasks a t)) -> TreeL b.
Proof.
  intros T En Es Et.
  assert (EA : forall x, s_active (scopes b x) = s_active (scopes a x)) by (intros x; apply Es).
  assert (EP : forall x, s_parent (scopes b x) = s_parent (scopes a x)) by (intros x; apply Es).
  assert (EC : forall x, s_children (scopes b x) = s_children (scopes a x)) by (intros x; apply Es).
  assert (ET : forall x, s_tasks (scopes b x) = s_tasks (scopes a x)) by (intros x; apply Es).
  constructor.
  - intros x. rewrite EA. unfold alloc_s. rewrite En. apply T.
  - intros p x. rewrite EC, EA, EP. apply T.
  - intros x t. rewrite ET, Et. apply T.
  - intros t x. rewrite Et, EA. apply T.
  - intros x p. rewrite !EA, EP. apply T.
  - destruct (tl_rank _ T) as [rk Hrk]. exists rk. intros x p. rewrite EA, EP. apply Hrk.
Qed.

Lemma TreeL_kframe a b : TreeL a -> kframe a b -> TreeL b.
Proof.
  intros T K. apply (TreeL_ext a b T (kf_nscope _ _ K)).
  - intros x. pose proof (kf_scopes _ _ K x) as E.
    now rewrite (core_active _ _ E), (core_parent _ _ E), (core_children _ _ E), (core_tasks _ _ E).
  - intros t. apply (tcore_cur _ _ (kf_tasks _ _ K t)).
Qed.

(* ---------------- top-down paths ---------------- *)
Inductive dpath (s : st) : sid -> sid -> list sid -> Prop :=
| dp_nil c : dpath s c c []
| dp_cons c ch x l :
    s_parent (scopes s ch) = Some c -> s_active (scopes s ch) = true ->
    s_shield (scopes s ch) = false -> s_cancelled (scopes s ch) = false ->
    dpath s ch x l -> dpath s c x (ch :: l).

Lemma dpath_snoc s c p l x :
  dpath s c p l -> s_parent (scopes s x) = Some p -> s_active (scopes s x) = true ->
  s_shield (scopes s x) = false -> s_cancelled (scopes s x) = false -> dpath s c x (l ++ [x]).
Proof.
  intros H Hp Ha Hs Hc. induction H as [c|c ch y l E1 E2 E3 E4 H IH]; cbn.
  - apply dp_cons; try assumption. apply dp_nil.
  - apply dp_cons; try assumption. now apply IH.
Qed.

Lemma vis_dpath s c x : TreeL s -> vis s c x -> s_active (scopes s x) = true -> exists l, dpath s c x l.
Proof.
  intros T H. induction H as [|x p Hs Hc Hp H IH]; intros Ha.
  - exists []. apply dp_nil.
  - destruct (IH (tl_par_act _ T x p Ha Hp)) as [l Hl]. exists (l ++ [x]). now apply (dpath_snoc s c p).
Qed.

Lemma dpath_rank s (rk : sid -> nat) c x l :
  (forall x p, s_active (scopes s x) = true -> s_parent (scopes s x) = Some p -> rk p < rk x) ->
  dpath s c x l -> (forall y, In y l -> rk c < rk y) /\ NoDup l /\
                   (forall y, In y l -> s_active (scopes s y) = true).
Proof.
  intros Hrk H. induction H as [c|c ch y l E1 E2 E3 E4 H [IH1 [IH2 IH3]]].
  - split; [intros y []|split; [constructor|intros y []]].
  - pose proof (Hrk ch c E2 E1) as R. split; [|split].
    + intros z [<-|Hz]; [exact R|]. specialize (IH1 z Hz). lia.
    + constructor; [|exact IH2]. intros Hin. specialize (IH1 ch Hin). lia.
    + intros z [<-|Hz]; [exact E2|now apply IH3].
Qed.

Lemma nodup_bounded_length (l : list nat) n :
  NoDup l -> (forall y, In y l -> 0 < y /\ y < n) -> length l <= n - 1.
Proof.
  intros Hn Hb. assert (Hi : incl l (seq 1 (n - 1))).
  { intros y Hy. apply in_seq. specialize (Hb y Hy). lia. }
  pose proof (NoDup_incl_length Hn Hi) as H. now rewrite seq_length in H.
Qed.

Lemma dreach_mono s n c x t : dreach s n c x t -> forall m, n <= m -> dreach s m c x t.
Proof.
  induction 1 as [fu self t Hin|fu self ch x t H1 H2 H3 H IH]; intros m Hm;
    (destruct m as [|m]; [lia|]).
  - now apply dr_here.
  - eapply dr_child; eauto. apply IH. lia.
Qed.

Lemma dpath_dreach s c x l t :
  TreeL s -> dpath s c x l -> In t (s_tasks (scopes s x)) -> dreach s (S (length l)) c x t.
Proof.
  intros T H Ht. induction H as [c|c ch y l E1 E2 E3 E4 H IH]; cbn [length].
  - now apply dr_here.
  - eapply dr_child; [|exact E3|exact E4|now apply IH]. apply (tl_child _ T). now split.
Qed.

(* the walk of deliver reaches exactly the tasks that reach the scope *)
Lemma vis_top s c ch x :
  vis s ch x -> s_parent (scopes s ch) = Some c -> s_shield (scopes s ch) = false ->
  s_cancelled (scopes s ch) = false -> vis s c x.
Proof.
  intros H Hp Hs Hc. induction H as [|x p E1 E2 E3 H IH].
  - eapply vis_up; eauto. apply vis_here.
  - eapply vis_up; eauto.
Qed.

Lemma dreach_vis s fu c x t : TreeL s -> dreach s fu c x t -> k_cur (tasks s t) = Some x /\ vis s c x.
Proof.
  intros T H. induction H as [fu self t Hin|fu self ch x t H1 H2 H3 H [IH1 IH2]].
  - split; [now apply (tl_task _ T)|apply vis_here].
  - split; [exact IH1|]. apply (tl_child _ T) in H1. destruct H1 as [_ Hp]. now apply (vis_top s self ch).
Qed.

Lemma vis_dreach s c x t :
  TreeL s -> k_cur (tasks s t) = Some x -> vis s c x -> dreach s (S (nscope s)) c x t.
Proof.
  intros T Hc Hv. pose proof (tl_cur_act _ T t x Hc) as Ha.
  destruct (vis_dpath s c x T Hv Ha) as [l Hl].
  destruct (tl_rank _ T) as [rk Hrk]. destruct (dpath_rank s rk c x l Hrk Hl) as [_ [Hn Hact]].
  assert (Hlen : length l <= nscope s - 1).
  { apply nodup_bounded_length; [exact Hn|]. intros y Hy. apply (tl_act_alloc _ T). now apply Hact. }
  apply (dreach_mono s (S (length l))); [|lia].
  apply dpath_dreach; [exact T|exact Hl|]. now apply (tl_task _ T).
Qed.

Lemma reaches_iff_dreach s c : TreeL s ->
  ((exists t, reaches s t c) <-> exists x t, dreach s (S (nscope s)) c x t /\ k_done (tasks s t) = None).
Proof.
  intros T. split.
  - intros [t [Hd [x [Hc Hv]]]]. exists x, t. split; [now apply vis_dreach|exact Hd].
  - intros [x [t [H Hd]]]. exists t. split; [exact Hd|]. exists x. now apply (dreach_vis s (S (nscope s))).
Qed.

(* ---------------- the delivery view of a state ---------------- *)
Definition sc_view (c : scope) := (s_parent c, s_shield c, s_cancelled c, s_host c, s_chandle c).

Record dq (a b : st) : Prop := {
  dq_scope : forall c, sc_view (scopes b c) = sc_view (scopes a c);
  dq_cur : forall t, k_cur (tasks b t) = k_cur (tasks a t);
  dq_done : forall t, k_done (tasks b t) = k_done (tasks a t);
  dq_ready : forall c, In (HDeliver c) (ready a) -> In (HDeliver c) (ready b)
}.

Lemma dq_refl a : dq a a.
Proof. constructor; auto. Qed.

Lemma dq_trans a b c : dq a b -> dq b c -> dq a c.
Proof.
  intros H1 H2. constructor.
  - intros x. now rewrite (dq_scope _ _ H2), (dq_scope _ _ H1).
  - intros x. now rewrite (dq_cur _ _ H2), (dq_cur _ _ H1).
  - intros x. now rewrite (dq_done _ _ H2), (dq_done _ _ H1).
  - intros x H. apply H2, H1, H.
Qed.

Section ViewProj.
  Variables a b : scope.
  Hypothesis H : sc_view b = sc_view a.
  Lemma vw_parent : s_parent b = s_parent a. Proof. unfold sc_view in H. now inversion H. Qed.
  Lemma vw_shield : s_shield b = s_shield a. Proof. unfold sc_view in H. now inversion H. Qed.
  Lemma vw_cancelled : s_cancelled b = s_cancelled a. Proof. unfold sc_view in H. now inversion H. Qed.
  Lemma vw_host : s_host b = s_host a. Proof. unfold sc_view in H. now inversion H. Qed.
  Lemma vw_chandle : s_chandle b = s_chandle a. Proof. unfold sc_view in H. now inversion H. Qed.
End ViewProj.

(* monotonicity of the walk: every step available in b is available in a *)
Lemma vis_mono a b c x :
  vis b c x ->
  (forall y p, s_shield (scopes b y) = false -> s_cancelled (scopes b y) = false ->
               s_parent (scopes b y) = Some p ->
               s_shield (scopes a y) = false /\ s_cancelled (scopes a y) = false /\
               s_parent (scopes a y) = Some p) ->
  vis a c x.
Proof.
  intros H Hs. induction H as [|x p E1 E2 E3 H IH]; [apply vis_here|].
  destruct (Hs x p E1 E2 E3) as [F1 [F2 F3]]. eapply vis_up; eauto.
Qed.

Lemma vis_view a b c x :
  (forall y, s_shield (scopes b y) = s_shield (scopes a y) /\ s_cancelled (scopes b y) = s_cancelled (scopes a y) /\
             s_parent (scopes b y) = s_parent (scopes a y)) ->
  vis b c x -> vis a c x.
Proof.
  intros E H. apply (vis_mono a b c x H). intros y p H1 H2 H3. destruct (E y) as [E1 [E2 E3]].
  now rewrite <- E1, <- E2, <- E3.
Qed.

Lemma alive_at_mono a b c :
  alive_at a c ->
  (s_cancelled (scopes b c) = true -> s_cancelled (scopes a c) = true) ->
  (s_host (scopes b c) <> None -> s_host (scopes a c) <> None) ->
  ((exists t, reaches b t c) -> exists t, reaches a t c) ->
  (s_chandle (scopes a c) = true -> s_chandle (scopes b c) = true) ->
  alive_at b c.
Proof. intros H H1 H2 H3 H4 C Hh R. apply H4, H; auto. Qed.

Lemma DInv_dq a b : DInv a -> dq a b -> DInv b.
Proof.
  intros [Al Hd] Q. split.
  - intros c. apply (alive_at_mono a b c (Al c)).
    + now rewrite (vw_cancelled _ _ (dq_scope _ _ Q c)).
    + now rewrite (vw_host _ _ (dq_scope _ _ Q c)).
    + intros [t [D [x [Hc Hv]]]]. exists t. split; [now rewrite <- (dq_done _ _ Q)|].
      exists x. split; [now rewrite <- (dq_cur _ _ Q)|]. apply (vis_view a b c x); [|exact Hv].
      intros y. pose proof (dq_scope _ _ Q y) as E.
      now rewrite (vw_shield _ _ E), (vw_cancelled _ _ E), (vw_parent _ _ E).
    + now rewrite (vw_chandle _ _ (dq_scope _ _ Q c)).
  - intros c. rewrite (vw_chandle _ _ (dq_scope _ _ Q c)). intros H. apply (dq_ready _ _ Q), Hd, H.
Qed.

(* ---------------- one run of deliver at the top ---------------- *)
Lemma reaches_kframe a b t c : kframe a b -> (reaches b t c <-> reaches a t c).
Proof.
  intros K.
  assert (V : forall x, vis b c x <-> vis a c x).
  { intros x. split; intros H; [apply (vis_view a b c x)|apply (vis_view b a c x)]; try exact H;
      intros y; pose proof (kf_scopes _ _ K y) as E;
      now rewrite (core_shield _ _ E), (core_cancelled _ _ E), (core_parent _ _ E). }
  unfold reaches. rewrite (tcore_done _ _ (kf_tasks _ _ K t)), (tcore_cur _ _ (kf_tasks _ _ K t)).
  split; intros [D [x [Hc Hv]]]; (split; [exact D|exists x; split; [exact Hc|now apply V]]).
Qed.

Lemma D_deliver_top' s c :
  TreeL s -> (forall c', c' <> c -> s_chandle (scopes s c') = true -> In (HDeliver c') (ready s)) ->
  (forall c', c' <> c -> alive_at s c') -> DInv (deliver_top s c).
Proof.
  intros T Hd Al. pose proof (kframe_deliver_top s c) as K. split.
  - intros c'. destruct (Nat.eq_dec c' c) as [->|Hne].
    + intros _ _ [t R]. apply deliver_top_chandle. apply (reaches_iff_dreach s c T).
      exists t. now apply (reaches_kframe s (deliver_top s c) t c K).
    + apply (alive_at_mono s _ c' (Al c' Hne)); rewrite ?(deliver_scopes_other c c' _ Hne s c); auto.
      * unfold deliver_top. now rewrite (deliver_scopes_other c c' _ Hne s c).
      * unfold deliver_top. now rewrite (deliver_scopes_other c c' _ Hne s c).
      * intros [t R]. exists t. now apply (reaches_kframe s (deliver_top s c) t c' K).
      * unfold deliver_top. now rewrite (deliver_scopes_other c c' _ Hne s c).
  - intros c'. destruct (Nat.eq_dec c' c) as [->|Hne].
    + apply deliver_top_ready.
    + unfold deliver_top at 1. rewrite (deliver_scopes_other c c' _ Hne s c). intros H.
      destruct (kf_ready _ _ K) as [l [E _]]. rewrite E. apply in_or_app. left. now apply Hd.
Qed.

Lemma D_deliver_top s c :
  TreeL s -> Handle s -> (forall c', c' <> c -> alive_at s c') -> DInv (deliver_top s c).
Proof. intros T Hd Al. apply D_deliver_top'; [exact T|intros c' _; apply Hd|exact Al]. Qed.

(* the scheduled callback runs: it leaves the ready queue, delivers, and is back iff someone is still reached *)
Lemma D_run_deliver s c :
  TreeL s -> DInv s ->
  DInv (deliver_top (set_running (set_ready s (remove_first (HDeliver c) (ready s))) None) c).
Proof.
  intros T [Al Hd]. set (s1 := set_running (set_ready s (remove_first (HDeliver c) (ready s))) None).
  assert (T1 : TreeL s1).
  { apply (TreeL_ext s s1 T eq_refl); [intros x; now repeat split|intros t; reflexivity]. }
  apply D_deliver_top'; [exact T1| |].
  - intros c' Hne H. cbn. apply in_remove_first_ne; [now apply Hd|]. intros E. inversion E. now apply Hne.
  - intros c' _. apply (alive_at_mono s s1 c' (Al c')); auto.
    intros [t [D [x [Hc Hv]]]]. exists t. split; [exact D|]. exists x. split; [exact Hc|].
    apply (vis_view s s1 c' x); [intros y; now repeat split|exact Hv].
Qed.

(* ---------------- restart: the walk up to the nearest cancelled scope ---------------- *)
Lemma vis_cancelled_unique s A B x :
  vis s A x -> vis s B x -> s_cancelled (scopes s A) = true -> s_cancelled (scopes s B) = true -> A = B.
Proof.
  intros HA. revert B. induction HA as [|x p E1 E2 E3 H IH]; intros B HB CA CB.
  - inversion HB as [|y q F1 F2 F3 HB' Ey]; subst; [reflexivity|congruence].
  - inversion HB as [|y q F1 F2 F3 HB' Ey]; subst; [congruence|].
    rewrite E3 in F3. inversion F3; subst q. now apply IH.
Qed.

Inductive upn (s : st) : sid -> nat -> Prop :=
| upn_0 x : upn s x 0
| upn_S x p n : s_shield (scopes s x) = false -> s_cancelled (scopes s x) = false ->
                s_parent (scopes s x) = Some p -> upn s p n -> upn s x (S n).

Lemma upn_chain s (rk : sid -> nat) x n :
  (forall x p, s_active (scopes s x) = true -> s_parent (scopes s x) = Some p -> rk p < rk x) ->
  (forall x p, s_active (scopes s x) = true -> s_parent (scopes s x) = Some p -> s_active (scopes s p) = true) ->
  upn s x n -> s_active (scopes s x) = true ->
  exists l, length l = n /\ NoDup l /\ (forall y, In y l -> s_active (scopes s y) = true /\ rk y <= rk x).
Proof.
  intros Hrk Hpa H. induction H as [x|x p n E1 E2 E3 H IH]; intros Ha.
  - exists []. split; [reflexivity|split; [constructor|intros y []]].
  - destruct (IH (Hpa x p Ha E3)) as [l [Hl [Hn Hy]]]. pose proof (Hrk x p Ha E3) as R.
    exists (x :: l). split; [cbn; now rewrite Hl|]. split.
    + constructor; [|exact Hn]. intros Hin. destruct (Hy x Hin) as [_ H']. lia.
    + intros y [<-|Hin]; [split; [exact Ha|lia]|]. destruct (Hy y Hin) as [H1 H2]. split; [exact H1|lia].
Qed.

Lemma upn_bound s x n : TreeL s -> upn s x n -> s_active (scopes s x) = true -> n < nscope s.
Proof.
  intros T H Ha. destruct (tl_rank _ T) as [rk Hrk].
  destruct (upn_chain s rk x n Hrk (tl_par_act _ T) H Ha) as [l [Hl [Hn Hy]]].
  assert (length l <= nscope s - 1).
  { apply nodup_bounded_length; [exact Hn|]. intros y Hin. apply (tl_act_alloc _ T). now apply Hy. }
  destruct (tl_act_alloc _ T x Ha). lia.
Qed.

Lemma restart_from_spec s fuel : forall x,
  (forall n, upn s x n -> n < fuel) ->
  (exists A, s_cancelled (scopes s A) = true /\ vis s A x /\
             restart_from fuel s (Some x) = if s_chandle (scopes s A) then s else deliver_top s A) \/
  ((forall A, s_cancelled (scopes s A) = true -> ~ vis s A x) /\ restart_from fuel s (Some x) = s).
Proof.
  induction fuel as [|fu IH]; intros x Hf.
  - exfalso. specialize (Hf 0 (upn_0 s x)). lia.
  - cbn [restart_from]. destruct (s_cancelled (scopes s x)) eqn:Ec.
    + left. exists x. split; [exact Ec|]. split; [apply vis_here|reflexivity].
    + destruct (s_shield (scopes s x)) eqn:Es.
      * right. split; [|reflexivity]. intros A CA HA.
        inversion HA as [|y q F1 F2 F3 HA' Ey]; subst; congruence.
      * destruct (s_parent (scopes s x)) as [p|] eqn:Ep.
        -- assert (Hf' : forall n, upn s p n -> n < fu).
           { intros n Hn. assert (S n < S fu) by (apply Hf; eapply upn_S; eauto). lia. }
           destruct (IH p Hf') as [[A [CA [VA EA]]]|[NA EA]].
           ++ left. exists A. split; [exact CA|]. split; [eapply vis_up; eauto|exact EA].
           ++ right. split; [|exact EA]. intros A CA HA.
              inversion HA as [|y q F1 F2 F3 HA' Ey]; subst; [congruence|].
              rewrite Ep in F3. inversion F3; subst q. now apply (NA A CA).
        -- right. split.
           ++ intros A CA HA. inversion HA as [|y q F1 F2 F3 HA' Ey]; subst; congruence.
           ++ destruct fu; reflexivity.
Qed.

Definition alive_or (s : st) (x0 : sid) (c : sid) : Prop :=
  s_cancelled (scopes s c) = true -> s_host (scopes s c) <> None -> (exists t, reaches s t c) ->
  s_chandle (scopes s c) = true \/ vis s c x0.

Lemma D_restart s x0 :
  TreeL s -> Handle s -> s_active (scopes s x0) = true -> (forall c, alive_or s x0 c) ->
  DInv (restart s (Some x0)).
Proof.
  intros T Hd Ha Al. unfold restart.
  destruct (restart_from_spec s (nscope s) x0) as [[A [CA [VA EA]]]|[NA EA]].
  { intros n Hn. now apply (upn_bound s x0 n T). }
  - rewrite EA.
    assert (Oth : forall c', c' <> A -> alive_at s c').
    { intros c' Hne C Hh R. destruct (Al c' C Hh R) as [H|H]; [exact H|].
      exfalso. apply Hne. now apply (vis_cancelled_unique s c' A x0). }
    destruct (s_chandle (scopes s A)) eqn:Eh.
    + split; [|exact Hd]. intros c'. destruct (Nat.eq_dec c' A) as [->|Hne]; [intros _ _ _; exact Eh|now apply Oth].
    + now apply D_deliver_top.
  - rewrite EA. split; [|exact Hd]. intros c' C Hh R. destruct (Al c' C Hh R) as [H|H]; [exact H|].
    exfalso. now apply (NA c' C).
Qed.

(* ---------------- cancel() ---------------- *)
Lemma dq_cancel_timeout s c : dq s (cancel_timeout s c).
Proof.
  unfold cancel_timeout. destruct (s_timeout (scopes s c)) as [tm|]; [|apply dq_refl].
  constructor.
  - intros x. cbn. unfold upd. destruct (Nat.eqb_spec x c); [subst|]; reflexivity.
  - intros t. reflexivity.
  - intros t. reflexivity.
  - intros x H. cbn. apply filter_In. split; [exact H|reflexivity].
Qed.

Lemma TreeL_cancel_timeout s c : TreeL s -> TreeL (cancel_timeout s c).
Proof.
  intros T. pose proof (treq_cancel_timeout s c) as K.
  apply (TreeL_ext s _ T (tq_nscope _ _ K)).
  - intros x. now rewrite (tq_active _ _ K), (tq_parent _ _ K), (tq_children _ _ K), (tq_stasks _ _ K).
  - intros t. apply (tq_cur _ _ K).
Qed.

Lemma D_scope_cancel s c b : TreeL s -> DInv s -> DInv (scope_cancel s c b).
Proof.
  intros T I. unfold scope_cancel. destruct (s_cancelled (scopes s c)) eqn:Ec; [exact I|].
  set (s1 := cancel_timeout s c).
  assert (I1 : DInv s1) by (apply (DInv_dq s); [exact I|apply dq_cancel_timeout]).
  assert (T1 : TreeL s1) by now apply TreeL_cancel_timeout.
  set (s2 := upd_scope s1 c (fun x => sc_bydeadline b (sc_cancelled true x))).
  assert (Es : forall y, y <> c -> scopes s2 y = scopes s1 y).
  { intros y Hy. unfold s2. cbn. unfold upd. destruct (Nat.eqb_spec y c); [contradiction|reflexivity]. }
  assert (Ec2 : scopes s2 c = sc_bydeadline b (sc_cancelled true (scopes s1 c))).
  { unfold s2. cbn. unfold upd. now rewrite Nat.eqb_refl. }
  assert (T2 : TreeL s2).
  { apply (TreeL_ext s1 s2 T1 eq_refl); [|intros t; reflexivity].
    intros y. destruct (Nat.eq_dec y c) as [->|Hy]; [rewrite Ec2|rewrite (Es y Hy)]; now repeat split. }
  assert (H2 : Handle s2).
  { intros y. destruct (Nat.eq_dec y c) as [->|Hy]; [rewrite Ec2|rewrite (Es y Hy)]; apply I1. }
  assert (A2 : forall c', c' <> c -> alive_at s2 c').
  { intros c' Hne. apply (alive_at_mono s1 s2 c' (proj1 I1 c')); rewrite ?(Es c' Hne); auto.
    intros [t [D [x [Hc Hv]]]]. exists t. split; [exact D|]. exists x. split; [exact Hc|].
    apply (vis_mono s1 s2 c' x Hv). intros y p F1 F2 F3.
    destruct (Nat.eq_dec y c) as [->|Hy]; [rewrite Ec2 in F2; discriminate|].
    rewrite (Es y Hy) in *. now repeat split. }
  destruct (s_host (scopes s2 c)) eqn:Eh.
  - now apply D_deliver_top.
  - split; [|exact H2]. intros c'. destruct (Nat.eq_dec c' c) as [->|Hne]; [|now apply A2].
    intros _ Hh. now elim Hh.
Qed.

Lemma D_scope_timeout s c : TreeL s -> DInv s -> DInv (scope_timeout s c).
Proof.
  intros T I. unfold scope_timeout. destruct (s_deadline (scopes s c)); [|exact I].
  destruct (Z.leb z (now s)); [now apply D_scope_cancel|].
  apply (DInv_dq s _ I). constructor.
  - intros x. cbn. unfold upd. destruct (Nat.eqb_spec x c); [subst|]; reflexivity.
  - intros t. reflexivity.
  - intros t. reflexivity.
  - intros x H. exact H.
Qed.

(* ---------------- cancel() on a state where the tree invariant is suspended (inside __enter__) -------- *)
Record dqx (c : sid) (a b : st) : Prop := {
  dx_other : forall y, y <> c -> sc_view (scopes b y) = sc_view (scopes a y);
  dx_parent : s_parent (scopes b c) = s_parent (scopes a c);
  dx_shield : s_shield (scopes b c) = s_shield (scopes a c);
  dx_host : s_host (scopes b c) = s_host (scopes a c);
  dx_canc : s_cancelled (scopes a c) = true -> s_cancelled (scopes b c) = true;
  dx_cur : forall t, k_cur (tasks b t) = k_cur (tasks a t);
  dx_done : forall t, k_done (tasks b t) = k_done (tasks a t);
  dx_ready : forall y, In (HDeliver y) (ready a) -> In (HDeliver y) (ready b)
}.

Lemma dqx_refl c a : dqx c a a.
Proof. constructor; auto. Qed.

Lemma dqx_trans c a b d : dqx c a b -> dqx c b d -> dqx c a d.
Proof.
  intros H1 H2. constructor.
  - intros y Hy. now rewrite (dx_other _ _ _ H2 y Hy), (dx_other _ _ _ H1 y Hy).
  - now rewrite (dx_parent _ _ _ H2), (dx_parent _ _ _ H1).
  - now rewrite (dx_shield _ _ _ H2), (dx_shield _ _ _ H1).
  - now rewrite (dx_host _ _ _ H2), (dx_host _ _ _ H1).
  - intros H. apply H2, H1, H.
  - intros t. now rewrite (dx_cur _ _ _ H2), (dx_cur _ _ _ H1).
  - intros t. now rewrite (dx_done _ _ _ H2), (dx_done _ _ _ H1).
  - intros y H. apply H2, H1, H.
Qed.

Lemma dqx_dq c a b : dq a b -> dqx c a b.
Proof.
  intros Q. constructor; try apply Q.
  - intros y _. apply Q.
  - apply (vw_parent _ _ (dq_scope _ _ Q c)).
  - apply (vw_shield _ _ (dq_scope _ _ Q c)).
  - apply (vw_host _ _ (dq_scope _ _ Q c)).
  - now rewrite (vw_cancelled _ _ (dq_scope _ _ Q c)).
Qed.

Lemma alive_dqx c a b c' : dqx c a b -> c' <> c -> alive_at a c' -> alive_at b c'.
Proof.
  intros Q Hne Al. pose proof (dx_other _ _ _ Q c' Hne) as E.
  apply (alive_at_mono a b c' Al).
  - now rewrite (vw_cancelled _ _ E).
  - now rewrite (vw_host _ _ E).
  - intros [t [D [x [Hc Hv]]]]. exists t. split; [now rewrite <- (dx_done _ _ _ Q)|].
    exists x. split; [now rewrite <- (dx_cur _ _ _ Q)|]. apply (vis_mono a b c' x Hv).
    intros y p F1 F2 F3. destruct (Nat.eq_dec y c) as [->|Hy].
    + rewrite (dx_shield _ _ _ Q) in F1. rewrite (dx_parent _ _ _ Q) in F3.
      split; [exact F1|]. split; [|exact F3].
      destruct (s_cancelled (scopes a c)) eqn:Ea; [|reflexivity]. rewrite (dx_canc _ _ _ Q Ea) in F2. discriminate.
    + pose proof (dx_other _ _ _ Q y Hy) as Ey.
      now rewrite <- (vw_shield _ _ Ey), <- (vw_cancelled _ _ Ey), <- (vw_parent _ _ Ey).
  - now rewrite (vw_chandle _ _ E).
Qed.

Lemma dqx_deliver_top s c : dqx c s (deliver_top s c) /\ (Handle s -> Handle (deliver_top s c)).
Proof.
  pose proof (kframe_deliver_top s c) as K. split.
  - constructor.
    + intros y Hy. unfold deliver_top. now rewrite (deliver_scopes_other c y _ Hy s c).
    + apply (core_parent _ _ (kf_scopes _ _ K c)).
    + apply (core_shield _ _ (kf_scopes _ _ K c)).
    + apply (core_host _ _ (kf_scopes _ _ K c)).
    + now rewrite (core_cancelled _ _ (kf_scopes _ _ K c)).
    + intros t. apply (tcore_cur _ _ (kf_tasks _ _ K t)).
    + intros t. apply (tcore_done _ _ (kf_tasks _ _ K t)).
    + intros y H. destruct (kf_ready _ _ K) as [l [E _]]. rewrite E. apply in_or_app. now left.
  - intros Hd y. destruct (Nat.eq_dec y c) as [->|Hy]; [apply deliver_top_ready|].
    unfold deliver_top at 1. rewrite (deliver_scopes_other c y _ Hy s c). intros H.
    destruct (kf_ready _ _ K) as [l [E _]]. rewrite E. apply in_or_app. left. now apply Hd.
Qed.

Lemma Handle_dq a b : Handle a -> dq a b -> Handle b.
Proof.
  intros Hd Q c. rewrite (vw_chandle _ _ (dq_scope _ _ Q c)). intros H. apply (dq_ready _ _ Q), Hd, H.
Qed.

Lemma dqx_scope_cancel s c b : dqx c s (scope_cancel s c b) /\ (Handle s -> Handle (scope_cancel s c b)).
Proof.
  unfold scope_cancel. destruct (s_cancelled (scopes s c)) eqn:Ec; [split; [apply dqx_refl|auto]|].
  set (s1 := cancel_timeout s c). pose proof (dq_cancel_timeout s c) as Q1. fold s1 in Q1.
  set (s2 := upd_scope s1 c (fun x => sc_bydeadline b (sc_cancelled true x))).
  assert (Q2 : dqx c s1 s2 /\ (Handle s1 -> Handle s2)).
  { split.
    - constructor; try reflexivity; auto.
      + intros y Hy. unfold s2. cbn. unfold upd. destruct (Nat.eqb_spec y c); [contradiction|reflexivity].
      + unfold s2. cbn. unfold upd. now rewrite Nat.eqb_refl.
      + unfold s2. cbn. unfold upd. now rewrite Nat.eqb_refl.
      + unfold s2. cbn. unfold upd. now rewrite Nat.eqb_refl.
      + intros _. unfold s2. cbn. unfold upd. now rewrite Nat.eqb_refl.
    - intros Hd y. unfold s2. cbn. unfold upd. destruct (Nat.eqb_spec y c); [subst|]; apply Hd. }
  destruct Q2 as [Q2 H2].
  assert (Q12 : dqx c s s2) by (eapply dqx_trans; [apply dqx_dq; exact Q1|exact Q2]).
  assert (H12 : Handle s -> Handle s2) by (intros Hd; apply H2; eapply Handle_dq; eauto).
  destruct (s_host (scopes s2 c)); [|split; assumption].
  destruct (dqx_deliver_top s2 c) as [Q3 H3]. split; [eapply dqx_trans; eauto|auto].
Qed.

Lemma dqx_scope_timeout s c : dqx c s (scope_timeout s c) /\ (Handle s -> Handle (scope_timeout s c)).
Proof.
  unfold scope_timeout. destruct (s_deadline (scopes s c)); [|split; [apply dqx_refl|auto]].
  destruct (Z.leb z (now s)); [apply dqx_scope_cancel|].
  assert (Q : dq s (upd_scope (fst (call_at s z (TScope c))) c (sc_timeout (Some (snd (call_at s z (TScope c))))))).
  { constructor; auto. intros x. cbn. unfold upd. destruct (Nat.eqb_spec x c); [subst|]; reflexivity. }
  split; [apply dqx_dq; exact Q|intros Hd; eapply Handle_dq; eauto].
Qed.

(* ---------------- __enter__ ---------------- *)
Definition enter_s3 (s : st) (c : sid) (t : tid) : st :=
  let par := k_cur (tasks s t) in
  let s1 := upd_scope s c (fun x => sc_parent par (sc_tasks (add t (s_tasks x)) (sc_host (Some t) x))) in
  let s2 := upd_task s1 t (tk_cur (Some c)) in
  match par with
  | Some p => upd_scope s2 p (fun x => sc_tasks (del t (s_tasks x)) (sc_children (add c (s_children x)) x))
  | None => s2
  end.

Definition enter_s5 (s : st) (c : sid) (t : tid) : st :=
  upd_scope (scope_timeout (enter_s3 s c t) c) c (sc_active true).

Lemma scope_enter_eq s c t : s_active (scopes s c) = false ->
  fst (scope_enter s c t) =
  if s_cancelled (scopes (enter_s5 s c t) c) then deliver_top (enter_s5 s c t) c else enter_s5 s c t.
Proof.
  intros Ha. unfold scope_enter. rewrite Ha. fold (enter_s3 s c t). fold (enter_s5 s c t).
  destruct (s_cancelled (scopes (enter_s5 s c t) c)); reflexivity.
Qed.

Lemma treq_enter_s5 s c t : treq (enter_struct s c t) (enter_s5 s c t).
Proof.
  unfold enter_struct, enter_s5. fold (enter_s3 s c t).
  apply treq_upd_scope_congr; [|apply treq_scope_timeout].
  intros x y H. unfold sc_tree in *. cbn. now inversion H.
Qed.

Lemma enter_s3_view s c t y : k_cur (tasks s t) <> Some c ->
  sc_view (scopes (enter_s3 s c t) y) =
  if Nat.eqb y c then (k_cur (tasks s t), s_shield (scopes s c), s_cancelled (scopes s c), Some t,
                       s_chandle (scopes s c))
  else sc_view (scopes s y).
Proof.
  intros Hpc. unfold enter_s3. destruct (k_cur (tasks s t)) as [p|] eqn:Ep; cbn; unfold upd.
  - assert (p <> c) by congruence. destruct (Nat.eqb_spec y c) as [->|Hyc].
    + destruct (Nat.eqb_spec c p); [congruence|reflexivity].
    + destruct (Nat.eqb_spec y p) as [->|Hyp]; [|reflexivity].
      destruct (Nat.eqb_spec p c); [congruence|reflexivity].
  - destruct (Nat.eqb_spec y c) as [->|Hyc]; reflexivity.
Qed.

Lemma enter_s3_task s c t x :
  tasks (enter_s3 s c t) x = if Nat.eqb x t then tk_cur (Some c) (tasks s t) else tasks s x.
Proof. unfold enter_s3. destruct (k_cur (tasks s t)); reflexivity. Qed.

Lemma enter_s3_ready s c t : ready (enter_s3 s c t) = ready s.
Proof. unfold enter_s3. destruct (k_cur (tasks s t)); reflexivity. Qed.

(* paths that start at an active scope only visit active scopes *)
Lemma vis_avoid s s' c A x :
  TreeL s -> s_active (scopes s c) = false ->
  (forall y, y <> c -> s_shield (scopes s' y) = s_shield (scopes s y) /\
                       s_cancelled (scopes s' y) = s_cancelled (scopes s y) /\
                       s_parent (scopes s' y) = s_parent (scopes s y)) ->
  vis s' A x -> s_active (scopes s x) = true -> vis s A x /\ s_active (scopes s A) = true.
Proof.
  intros T Ic E H. induction H as [|x p E1 E2 E3 H IH]; intros Ha.
  - split; [apply vis_here|exact Ha].
  - assert (x <> c) by congruence. destruct (E x H0) as [F1 [F2 F3]].
    rewrite F1 in E1. rewrite F2 in E2. rewrite F3 in E3.
    destruct (IH (tl_par_act _ T x p Ha E3)) as [V AA]. split; [eapply vis_up; eauto|exact AA].
Qed.

Lemma D_enter s c t :
  Tree s -> alloc_t s t -> k_tdran (tasks s t) = false -> alloc_s s c -> s_active (scopes s c) = false ->
  (forall t' g, alloc_t s t' -> k_group (tasks s t') = Some g -> k_hscope (tasks s t') = c ->
     t' = t /\ k_cur (tasks s t) = Some (g_scope (groups s g))) ->
  (forall g, k_group (tasks s t) = Some g -> g_scope (groups s g) <> c) ->
  DInv s -> DInv (fst (scope_enter s c t)).
Proof.
  intros T At Dt Ac Ic Hh Hg [Al Hd].
  pose proof (Tree_TreeL s T) as TL.
  assert (Hpc : k_cur (tasks s t) <> Some c) by (intros E; apply (tr_cur_act _ T) in E; congruence).
  set (s3 := enter_s3 s c t).
  (* the view after the structural part *)
  assert (V3 : forall y, y <> c -> sc_view (scopes s3 y) = sc_view (scopes s y)).
  { intros y Hy. unfold s3. rewrite (enter_s3_view s c t y Hpc). destruct (Nat.eqb_spec y c); [contradiction|reflexivity]. }
  assert (H3 : Handle s3).
  { intros y. unfold s3. rewrite enter_s3_ready.
    pose proof (enter_s3_view s c t y Hpc) as E.
    change (s_chandle (scopes (enter_s3 s c t) y)) with (snd (sc_view (scopes (enter_s3 s c t) y))).
    rewrite E. destruct (Nat.eqb_spec y c) as [Eyc|Hy]; [rewrite Eyc|]; apply Hd. }
  assert (A3 : forall c', c' <> c -> alive_at s3 c').
  { intros c' Hne. pose proof (V3 c' Hne) as E. apply (alive_at_mono s s3 c' (Al c')).
    - now rewrite (vw_cancelled _ _ E).
    - now rewrite (vw_host _ _ E).
    - assert (Same : forall y, y <> c -> s_shield (scopes s3 y) = s_shield (scopes s y) /\
                       s_cancelled (scopes s3 y) = s_cancelled (scopes s y) /\
                       s_parent (scopes s3 y) = s_parent (scopes s y)).
      { intros y Hy. pose proof (V3 y Hy) as Ey.
        now rewrite (vw_shield _ _ Ey), (vw_cancelled _ _ Ey), (vw_parent _ _ Ey). }
      intros [t' [D [x [Hc Hv]]]]. unfold s3 in D, Hc. rewrite enter_s3_task in D, Hc.
      destruct (Nat.eq_dec t' t) as [Ett|Hnt];
        [subst t'; rewrite Nat.eqb_refl in D, Hc|destruct (Nat.eqb_spec t' t); [contradiction|]].
      + cbn in D, Hc. inversion Hc; subst x.
        inversion Hv as [|y q F1 F2 F3 Hv' Ey]; subst; [now elim Hne|].
        pose proof (enter_s3_view s c t c Hpc) as Ecv. rewrite Nat.eqb_refl in Ecv.
        fold s3 in Ecv.
        assert (Ep3 : s_parent (scopes s3 c) = k_cur (tasks s t)).
        { change (s_parent (scopes s3 c)) with (fst (fst (fst (fst (sc_view (scopes s3 c)))))).
          now rewrite Ecv. }
        rewrite Ep3 in F3.
        pose proof (tr_cur_act _ T t q F3) as Aq.
        destruct (vis_avoid s s3 c c' q TL Ic Same Hv' Aq) as [V _].
        exists t. split; [exact D|]. exists q. split; [exact F3|exact V].
      + pose proof (tr_cur_act _ T t' x Hc) as Ax.
        destruct (vis_avoid s s3 c c' x TL Ic Same Hv Ax) as [V _].
        exists t'. split; [exact D|]. exists x. split; [exact Hc|exact V].
    - now rewrite (vw_chandle _ _ E). }
  (* the deadline check, then the scope becomes active *)
  destruct (dqx_scope_timeout s3 c) as [Q4 H4]. specialize (H4 H3).
  set (s5 := enter_s5 s c t).
  assert (Q5 : dqx c s3 s5).
  { eapply dqx_trans; [exact Q4|]. apply dqx_dq. unfold s5, enter_s5. fold s3. constructor; auto.
    intros y. cbn. unfold upd. destruct (Nat.eqb_spec y c); [subst|]; reflexivity. }
  assert (H5 : Handle s5).
  { intros y. unfold s5, enter_s5. fold s3. cbn. unfold upd. destruct (Nat.eqb_spec y c); [subst|]; apply H4. }
  assert (A5 : forall c', c' <> c -> alive_at s5 c') by (intros c' Hne; apply (alive_dqx c s3 s5); auto).
  assert (T5 : TreeL s5).
  { apply Tree_TreeL. eapply Tree_treq; [now apply (Tree_enter s c t)|apply treq_enter_s5]. }
  rewrite (scope_enter_eq s c t Ic). fold s5. destruct (s_cancelled (scopes s5 c)) eqn:Ec.
  - now apply D_deliver_top.
  - split; [|exact H5]. intros c'. destruct (Nat.eq_dec c' c) as [->|Hne]; [|now apply A5].
    intros C. congruence.
Qed.

(* ---------------- __exit__ ---------------- *)
Lemma dq_upd_scope s c g : (forall k, sc_view (g k) = sc_view k) -> dq s (upd_scope s c g).
Proof.
  intros Hg. constructor; auto. intros x. cbn. unfold upd. destruct (Nat.eqb_spec x c); [subst; apply Hg|reflexivity].
Qed.

Lemma dq_upd_task s t g :
  (forall k, k_cur (g k) = k_cur k /\ k_done (g k) = k_done k) -> dq s (upd_task s t g).
Proof.
  intros Hg. constructor; auto.
  - intros x. cbn. unfold upd. destruct (Nat.eqb_spec x t); [subst; apply Hg|reflexivity].
  - intros x. cbn. unfold upd. destruct (Nat.eqb_spec x t); [subst; apply Hg|reflexivity].
Qed.

Lemma dq_iter_uncancel n t : forall s, dq s (iter n (fun a => task_uncancel a t) s).
Proof.
  induction n as [|n IH]; intros s; cbn; [apply dq_refl|].
  eapply dq_trans; [|apply IH]. apply dq_upd_task. intros k. now split.
Qed.

Lemma scope_exit_dq s c t exc : exit_ok s c t ->
  exists s6, dq (restart (exit_struct s c t) (s_parent (scopes s c))) s6 /\
             fst (scope_exit s c t exc) = upd_scope s6 c (sc_host None).
Proof.
  intros [Ha [Hh Hc]]. unfold scope_exit.
  rewrite Ha. cbn [negb]. rewrite Hh, Hc. cbn [opt_eqb]. rewrite !Nat.eqb_refl. cbn [negb].
  fold (exit_struct s c t).
  set (s5 := restart (exit_struct s c t) (s_parent (scopes s c))).
  assert (Kc : forall a, dq a (upd_scope a c (sc_caught true))) by (intros a; apply dq_upd_scope; intros k; reflexivity).
  assert (Kp : forall a, dq a (upd_scope a c (sc_pending 0))) by (intros a; apply dq_upd_scope; intros k; reflexivity).
  set (sA := upd_scope (iter (s_pending (scopes s5 c)) (fun a => task_uncancel a t) s5) c (sc_pending 0)).
  assert (KA : dq s5 sA) by (eapply dq_trans; [apply dq_iter_uncancel|apply Kp]).
  destruct (s_cancelled (scopes s5 c) && negb (parent_visible s5 c)).
  - destruct exc as [e|].
    + destruct e; cbn [is_anyio_cancel].
      * destruct o; cbn [fst].
        -- exists sA. split; [exact KA|reflexivity].
        -- exists (upd_scope sA c (sc_caught true)). split; [|reflexivity]. eapply dq_trans; [exact KA|apply Kc].
      * exists sA. split; [exact KA|reflexivity].
      * exists sA. split; [exact KA|reflexivity].
      * exists sA. split; [exact KA|reflexivity].
      * destruct (split_exn (EGroup l)) as [[m|] [r|]]; cbn [fst].
        -- exists (upd_scope sA c (sc_caught true)). split; [|reflexivity]. eapply dq_trans; [exact KA|apply Kc].
        -- exists (upd_scope sA c (sc_caught true)). split; [|reflexivity]. eapply dq_trans; [exact KA|apply Kc].
        -- exists sA. split; [exact KA|reflexivity].
        -- exists sA. split; [exact KA|reflexivity].
    + exists sA. split; [exact KA|reflexivity].
  - cbn [fst]. eexists. split; [|reflexivity].
    destruct (Nat.eqb (s_pending (scopes s5 c)) 0); [apply dq_refl|].
    destruct (s_parent (scopes s c)) as [p|]; [|exact KA].
    destruct (opt_eqb (s_host (scopes s5 p)) t); [|exact KA].
    eapply dq_trans; [|apply Kp]. apply dq_upd_scope. intros k; reflexivity.
Qed.

Lemma exit_struct_view s c t y : sc_view (scopes (exit_struct s c t) y) = sc_view (scopes s y).
Proof.
  unfold exit_struct.
  set (s0 := upd_scope s c (sc_active false)). set (s1 := cancel_timeout s0 c).
  assert (E0 : forall z, sc_view (scopes s0 z) = sc_view (scopes s z)).
  { intros z. unfold s0. cbn. unfold upd. destruct (Nat.eqb_spec z c); [subst|]; reflexivity. }
  assert (E1 : forall z, sc_view (scopes s1 z) = sc_view (scopes s z)).
  { intros z. unfold s1. rewrite (dq_scope _ _ (dq_cancel_timeout s0 c)). apply E0. }
  set (s2 := upd_scope s1 c (fun x => sc_tasks (del t (s_tasks x)) x)).
  assert (E2 : forall z, sc_view (scopes s2 z) = sc_view (scopes s z)).
  { intros z. unfold s2. cbn. unfold upd. destruct (Nat.eqb_spec z c); [subst; apply (E1 c)|apply E1]. }
  destruct (s_parent (scopes s c)) as [p|]; cbn [scopes upd_task set_tasks]; [|apply E2].
  cbn. unfold upd. destruct (Nat.eqb_spec y p); [subst; apply (E2 p)|apply E2].
Qed.

Lemma exit_struct_task s c t x :
  tasks (exit_struct s c t) x = if Nat.eqb x t then tk_cur (s_parent (scopes s c)) (tasks s t) else tasks s x.
Proof.
  unfold exit_struct. cbn [tasks upd_task set_tasks].
  assert (E : forall a, tasks (cancel_timeout a c) = tasks a).
  { intros a. unfold cancel_timeout. destruct (s_timeout (scopes a c)); reflexivity. }
  unfold upd. destruct (s_parent (scopes s c)); cbn [tasks upd_scope set_scopes]; rewrite E; reflexivity.
Qed.

Lemma exit_struct_ready s c t y : In (HDeliver y) (ready s) -> In (HDeliver y) (ready (exit_struct s c t)).
Proof.
  intros H. unfold exit_struct.
  assert (E : In (HDeliver y) (ready (cancel_timeout (upd_scope s c (sc_active false)) c))).
  { apply (dq_ready _ _ (dq_cancel_timeout _ c)). exact H. }
  destruct (s_parent (scopes s c)); exact E.
Qed.

Lemma D_exit s c t exc :
  Tree s -> exit_ok s c t ->
  (forall x, ~ In x (s_children (scopes s c))) ->
  (forall t', In t' (s_tasks (scopes s c)) -> t' = t) ->
  (forall g, alloc_g s g -> g_scope (groups s g) = c -> g_tasks (groups s g) = []) ->
  DInv s -> DInv (fst (scope_exit s c t exc)).
Proof.
  intros T Hok NC NT NG [Al Hd].
  destruct (scope_exit_dq s c t exc Hok) as [s6 [Q6 E6]]. rewrite E6.
  set (s4 := exit_struct s c t) in *. set (par := s_parent (scopes s c)) in *.
  pose proof (Tree_exit s c t T Hok NC NT NG) as Tx.
  assert (T4 : TreeL s4).
  { apply (TreeL_ext (xstate s c t) s4 (Tree_TreeL _ Tx)); [reflexivity| |intros x; reflexivity].
    intros x. unfold xstate. fold s4. cbn. unfold upd. destruct (Nat.eqb_spec x c); [subst|]; now repeat split. }
  assert (V4 : forall y, s_shield (scopes s4 y) = s_shield (scopes s y) /\
                         s_cancelled (scopes s4 y) = s_cancelled (scopes s y) /\
                         s_parent (scopes s4 y) = s_parent (scopes s y)).
  { intros y. pose proof (exit_struct_view s c t y) as E. fold s4 in E.
    now rewrite (vw_shield _ _ E), (vw_cancelled _ _ E), (vw_parent _ _ E). }
  assert (H4 : Handle s4).
  { intros y. pose proof (exit_struct_view s c t y) as E. fold s4 in E. rewrite (vw_chandle _ _ E).
    intros H. apply exit_struct_ready. now apply Hd. }
  assert (Old : forall t' A, t' <> t -> reaches s4 t' A -> reaches s t' A).
  { intros t' A Hne [D [x [Hc Hv]]]. unfold s4 in D, Hc. rewrite exit_struct_task in D, Hc.
    destruct (Nat.eqb_spec t' t); [contradiction|]. split; [exact D|]. exists x. split; [exact Hc|].
    apply (vis_view s s4 A x V4 Hv). }
  assert (Cur4 : k_cur (tasks s4 t) = par).
  { unfold s4. rewrite exit_struct_task, Nat.eqb_refl. reflexivity. }
  assert (I5 : DInv (restart s4 par)).
  { destruct par as [p|] eqn:Ep.
    - apply D_restart; try assumption.
      + apply (tl_cur_act _ T4 t p Cur4).
      + intros A C Hh [t' R]. pose proof (exit_struct_view s c t A) as E. fold s4 in E.
        destruct (Nat.eq_dec t' t) as [->|Hne].
        * right. destruct R as [_ [x [Hc Hv]]]. rewrite Cur4 in Hc. inversion Hc; subst x. exact Hv.
        * left. rewrite (vw_chandle _ _ E). apply Al.
          -- now rewrite <- (vw_cancelled _ _ E).
          -- now rewrite <- (vw_host _ _ E).
          -- exists t'. now apply Old.
    - unfold restart. destruct (nscope s4); cbn [restart_from]; (split; [|exact H4]).
      all: intros A C Hh [t' R]; pose proof (exit_struct_view s c t A) as E; fold s4 in E;
        rewrite (vw_chandle _ _ E); apply Al;
        [now rewrite <- (vw_cancelled _ _ E)|now rewrite <- (vw_host _ _ E)|].
      all: destruct (Nat.eq_dec t' t) as [->|Hne];
        [destruct R as [_ [x [Hc _]]]; rewrite Cur4 in Hc; discriminate|exists t'; now apply Old]. }
  pose proof (DInv_dq _ _ I5 Q6) as [A6 H6].
  split.
  - intros c'. destruct (Nat.eq_dec c' c) as [->|Hne].
    + intros _ Hh. exfalso. apply Hh. cbn. unfold upd. now rewrite Nat.eqb_refl.
    + assert (Ec : scopes (upd_scope s6 c (sc_host None)) c' = scopes s6 c').
      { cbn. unfold upd. destruct (Nat.eqb_spec c' c); [contradiction|reflexivity]. }
      apply (alive_at_mono s6 _ c' (A6 c')); rewrite ?Ec; auto.
      intros [t' [D [x [Hc Hv]]]]. exists t'. split; [exact D|]. exists x. split; [exact Hc|].
      apply (vis_view s6 (upd_scope s6 c (sc_host None)) c' x); [|exact Hv]. intros y. cbn. unfold upd.
      destruct (Nat.eqb_spec y c); [subst|]; now repeat split.
  - intros y. cbn. unfold upd. destruct (Nat.eqb_spec y c); [subst|]; apply H6.
Qed.

(* ---------------- neutral helpers ---------------- *)
Lemma dq_of_kframe a b : kframe a b -> scopes b = scopes a -> dq a b.
Proof.
  intros K E. constructor.
  - intros c. now rewrite E.
  - intros t. apply (tcore_cur _ _ (kf_tasks _ _ K t)).
  - intros t. apply (tcore_done _ _ (kf_tasks _ _ K t)).
  - intros c H. destruct (kf_ready _ _ K) as [l [El _]]. rewrite El. apply in_or_app. now left.
Qed.

Lemma dq_fut_complete s f v : dq s (fut_complete s f v).
Proof. apply dq_of_kframe; [apply kframe_fut_complete|apply fut_complete_scopes]. Qed.

Lemma dq_task_cancel s t o : dq s (task_cancel s t o).
Proof. apply dq_of_kframe; [apply kframe_task_cancel|apply task_cancel_scopes]. Qed.

Lemma dq_task_uncancel s t : dq s (task_uncancel s t).
Proof. apply dq_upd_task. intros k. now split. Qed.

Lemma dq_same a b :
  scopes b = scopes a -> (forall t, k_cur (tasks b t) = k_cur (tasks a t) /\ k_done (tasks b t) = k_done (tasks a t)) ->
  (forall c, In (HDeliver c) (ready a) -> In (HDeliver c) (ready b)) -> dq a b.
Proof. intros E Et Er. constructor; [intros c; now rewrite E|intros t; apply Et|intros t; apply Et|exact Er]. Qed.

Lemma dq_call_soon s h : dq s (call_soon s h).
Proof. apply dq_same; [reflexivity|intros t; now split|]. intros c H. cbn. apply in_or_app. now left. Qed.

Lemma dq_suspend_on s t f : dq s (suspend_on s t f).
Proof.
  unfold suspend_on.
  set (s2 := upd_task (upd_fut s f (fun x => mkFut (f_st x) (Some t))) t (tk_waiter (Some f))).
  assert (K : dq s s2).
  { apply dq_same; [reflexivity| |auto]. intros x. cbn. unfold upd. destruct (Nat.eqb_spec x t); [subst|]; now split. }
  destruct (f_st (futs s f)); try (eapply dq_trans; [exact K|apply dq_call_soon]).
  destruct (k_must (tasks s t)); [|exact K].
  eapply dq_trans; [exact K|]. eapply dq_trans; [apply dq_fut_complete|]. apply dq_upd_task. intros k; now split.
Qed.

Lemma dq_park s t : dq s (park s t).
Proof.
  unfold park, new_fut. eapply dq_trans; [|apply dq_upd_task; intros k; now split].
  eapply dq_trans; [|apply dq_suspend_on]. apply dq_same; [reflexivity|intros x; now split|auto].
Qed.

Lemma dq_set_running s v : dq s (set_running s v).
Proof. apply dq_same; [reflexivity|intros x; now split|auto]. Qed.

Lemma dq_ret_to_puppet s t r : dq s (fst (ret_to_puppet s t r)).
Proof.
  unfold ret_to_puppet. cbn [fst].
  set (s1 := match r with RExc e => upd_task s t (tk_held (Some e)) | _ => s end).
  assert (K1 : dq s s1) by (unfold s1; destruct r; try apply dq_refl; apply dq_upd_task; intros k; now split).
  eapply dq_trans; [exact K1|]. eapply dq_trans; [apply dq_park|apply dq_set_running].
Qed.

Lemma dq_begin_act s t : dq s (begin_act s t).
Proof.
  unfold begin_act. eapply dq_trans; [|apply dq_set_running]. apply dq_upd_task; intros k; now split.
Qed.

Lemma dq_incoming s t fo : dq s (fst (incoming s t fo)).
Proof.
  unfold incoming. cbn [fst]. eapply dq_trans; [|apply dq_set_running]. apply dq_upd_task; intros k; now split.
Qed.

Lemma dq_fold_fut_complete v fs : forall a, dq a (fold_left (fun a f => fut_complete a f v) fs a).
Proof.
  induction fs as [|f fs IH]; intros a; cbn; [apply dq_refl|].
  eapply dq_trans; [apply dq_fut_complete|apply IH].
Qed.

Lemma dq_event_set s e : dq s (event_set s e).
Proof.
  unfold event_set. destruct (e_set (events s e)); [apply dq_refl|].
  eapply dq_trans; [|apply dq_fold_fut_complete]. apply dq_same; [reflexivity|intros x; now split|auto].
Qed.

Lemma dq_event_wait s t e : dq s (fst (event_wait s t e)).
Proof.
  unfold event_wait. destruct (e_set (events s e)); cbn [fst]; [apply dq_call_soon|].
  unfold new_fut. cbn [fst]. eapply dq_trans; [|apply dq_suspend_on].
  apply dq_same; [reflexivity|intros x; now split|auto].
Qed.

Lemma dq_event_unwait s e fo : dq s (event_unwait s e fo).
Proof. destruct fo; cbn; [apply dq_same; [reflexivity|intros x; now split|auto]|apply dq_refl]. Qed.

Lemma dq_timer_cancel s tm : dq s (timer_cancel s tm).
Proof.
  apply dq_same; [reflexivity|intros x; now split|]. intros c H. cbn. apply filter_In. split; [exact H|reflexivity].
Qed.

Lemma dq_tick s dt : dq s (tick s dt).
Proof.
  apply dq_same; [reflexivity|intros x; now split|]. intros c H. cbn. apply in_or_app. now left.
Qed.

Lemma dq_remove_first s h : (forall c, h <> HDeliver c) -> dq s (set_ready s (remove_first h (ready s))).
Proof.
  intros Hh. apply dq_same; [reflexivity|intros x; now split|]. intros c H. cbn.
  apply in_remove_first_ne; [exact H|]. intros E. now apply (Hh c).
Qed.

Lemma dq_upd_group s g f : dq s (upd_group s g f).
Proof. apply dq_same; [reflexivity|intros x; now split|auto]. Qed.

Lemma TreeL_treq a b : TreeL a -> treq a b -> TreeL b.
Proof.
  intros T K. apply (TreeL_ext a b T (tq_nscope _ _ K)).
  - intros x. now rewrite (tq_active _ _ K), (tq_parent _ _ K), (tq_children _ _ K), (tq_stasks _ _ K).
  - intros t. apply (tq_cur _ _ K).
Qed.

(* restart without any assumption on where it starts: it either does nothing or delivers somewhere *)
Lemma D_restart_any s x : TreeL s -> DInv s -> DInv (restart s x).
Proof.
  intros T I. unfold restart. generalize (nscope s) as fuel. intros fuel. revert x.
  induction fuel as [|fu IH]; intros x; cbn [restart_from]; [exact I|].
  destruct x as [c|]; [|exact I].
  destruct (s_cancelled (scopes s c)).
  - destruct (s_chandle (scopes s c)); [exact I|]. apply D_deliver_top; [exact T|apply I|]. intros c' _. apply I.
  - destruct (s_shield (scopes s c)); [exact I|apply IH].
Qed.

(* ---------------- allocation of a scope ---------------- *)
Lemma D_new_scope s d sh : Tree s -> DInv s -> DInv (fst (new_scope s d sh)).
Proof.
  intros T [Al Hd]. set (s' := fst (new_scope s d sh)). set (c0 := nscope s).
  pose proof (tn_inactive s T) as Ic. fold c0 in Ic.
  assert (Es : forall y, y <> c0 -> scopes s' y = scopes s y).
  { intros y Hy. unfold s'. cbn. unfold upd. destruct (Nat.eqb_spec y (nscope s)); [contradiction|reflexivity]. }
  assert (E0 : s_cancelled (scopes s' c0) = false /\ s_chandle (scopes s' c0) = false).
  { unfold s', c0. cbn. unfold upd. rewrite Nat.eqb_refl. now split. }
  split.
  - intros A. destruct (Nat.eq_dec A c0) as [->|Hne]; [intros C; destruct E0; congruence|].
    apply (alive_at_mono s s' A (Al A)); rewrite ?(Es A Hne); auto.
    intros [t [D [x [Hc Hv]]]]. exists t. split; [exact D|]. exists x. split; [exact Hc|].
    apply (vis_avoid s s' c0 A x (Tree_TreeL _ T) Ic); [|exact Hv|apply (tr_cur_act _ T t x Hc)].
    intros y Hy. rewrite (Es y Hy). now repeat split.
  - intros y. destruct (Nat.eq_dec y c0) as [->|Hne]; [destruct E0; congruence|].
    rewrite (Es y Hne). apply Hd.
Qed.

(* ---------------- spawning ---------------- *)
Lemma D_spawn s g sf :
  Tree s -> alloc_g s g -> s_active (scopes s (g_scope (groups s g))) = true ->
  DInv s -> DInv (fst (spawn_task s g sf)).
Proof.
  intros T Ag Ha I. rewrite spawn_task_eq. cbn [fst].
  pose proof (D_new_scope s None false T I) as [A1 H1].
  pose proof (Tree_new_scope s None false T) as T1.
  set (s1 := fst (new_scope s None false)) in *. set (tn := ntask s). set (gs := g_scope (groups s g)).
  set (s2 := spawn_struct s g sf).
  pose proof (Tree_spawn s g sf T Ag Ha) as T2. fold s2 in T2.
  assert (V2 : forall y, sc_view (scopes s2 y) = sc_view (scopes s1 y)).
  { intros y. unfold s2, spawn_struct. cbn. unfold upd.
    destruct (Nat.eqb_spec y (g_scope (groups s g))) as [->|Hy]; reflexivity. }
  assert (Ek : forall x, x <> tn -> tasks s2 x = tasks s1 x).
  { intros x Hx. unfold s2. now rewrite sp_task_other. }
  assert (Ekt : k_cur (tasks s2 tn) = Some gs).
  { unfold s2, spawn_struct, tn. cbn. unfold upd. now rewrite Nat.eqb_refl. }
  assert (Same : forall y, s_shield (scopes s2 y) = s_shield (scopes s1 y) /\
                           s_cancelled (scopes s2 y) = s_cancelled (scopes s1 y) /\
                           s_parent (scopes s2 y) = s_parent (scopes s1 y)).
  { intros y. pose proof (V2 y) as E. now rewrite (vw_shield _ _ E), (vw_cancelled _ _ E), (vw_parent _ _ E). }
  assert (H2 : Handle s2).
  { intros y. rewrite (vw_chandle _ _ (V2 y)). apply H1. }
  assert (Act2 : s_active (scopes s2 gs) = true) by (apply (tr_cur_act _ T2 tn gs Ekt)).
  assert (I3 : DInv (restart s2 (Some gs))).
  { apply D_restart; [now apply Tree_TreeL|exact H2|exact Act2|].
    intros A C Hh [t' R]. destruct (Nat.eq_dec t' tn) as [->|Hne].
    - right. destruct R as [_ [x [Hc Hv]]]. rewrite Ekt in Hc. inversion Hc; subst x. exact Hv.
    - left. rewrite (vw_chandle _ _ (V2 A)). apply A1.
      + now rewrite <- (vw_cancelled _ _ (V2 A)).
      + now rewrite <- (vw_host _ _ (V2 A)).
      + destruct R as [D [x [Hc Hv]]]. rewrite (Ek t' Hne) in D, Hc. exists t'. split; [exact D|].
        exists x. split; [exact Hc|]. apply (vis_view s1 s2 A x Same Hv). }
  apply (DInv_dq _ _ I3). apply dq_call_soon.
Qed.

(* ---------------- the done-callback ---------------- *)
Lemma D_td_struct s t g : DInv s -> DInv (td_struct s t g).
Proof.
  intros [Al Hd]. set (s' := td_struct s t g).
  assert (V : forall y, sc_view (scopes s' y) = sc_view (scopes s y)).
  { intros y. unfold s', td_struct. destruct (k_cur (tasks s t)) as [c|]; cbn; [|reflexivity].
    unfold upd. destruct (Nat.eqb_spec y c); [subst|]; reflexivity. }
  assert (Ek : forall x, tasks s' x = if Nat.eqb x t then tk_tdran true (tk_cur None (tasks s t)) else tasks s x).
  { intros x. unfold s', td_struct. destruct (k_cur (tasks s t)); reflexivity. }
  assert (Er : ready s' = ready s) by (unfold s', td_struct; destruct (k_cur (tasks s t)); reflexivity).
  split.
  - intros A. apply (alive_at_mono s s' A (Al A)).
    + now rewrite (vw_cancelled _ _ (V A)).
    + now rewrite (vw_host _ _ (V A)).
    + intros [t' [D [x [Hc Hv]]]]. rewrite Ek in D, Hc. destruct (Nat.eqb_spec t' t); [discriminate|].
      exists t'. split; [exact D|]. exists x. split; [exact Hc|]. apply (vis_view s s' A x); [|exact Hv].
      intros y. pose proof (V y) as E. now rewrite (vw_shield _ _ E), (vw_cancelled _ _ E), (vw_parent _ _ E).
    + now rewrite (vw_chandle _ _ (V A)).
  - intros y. rewrite (vw_chandle _ _ (V y)), Er. apply Hd.
Qed.

Lemma D_td_tail s3 k g t : TreeL s3 -> DInv s3 -> DInv (td_tail s3 k g t).
Proof.
  intros T3 I3. unfold td_tail.
  set (s4 := match g_fut (groups s3 g) with
             | Some f => match g_tasks (groups s3 g) with [] => fut_complete s3 f (FRes 0) | _ :: _ => s3 end
             | None => s3 end).
  assert (K4 : TreeL s4 /\ DInv s4).
  { unfold s4. destruct (g_fut (groups s3 g)); [|now split].
    destruct (g_tasks (groups s3 g)); [|now split].
    split; [eapply TreeL_kframe; [exact T3|apply kframe_fut_complete]|].
    apply (DInv_dq _ _ I3). apply dq_fut_complete. }
  clearbody s4. destruct K4 as [T4 I4].
  assert (Kx : forall e, TreeL (upd_group s4 g (fun x => gr_excs (g_excs x ++ [(t, e)]) x)) /\
                         DInv (upd_group s4 g (fun x => gr_excs (g_excs x ++ [(t, e)]) x))).
  { intros e. split; [|apply (DInv_dq _ _ I4), dq_upd_group].
    apply (TreeL_ext s4); [exact T4|reflexivity|intros x; now repeat split|intros x; reflexivity]. }
  assert (Kc : forall a, TreeL a -> DInv a ->
                 DInv (if eff_cancelled a (g_scope (groups a g)) then a else scope_cancel a (g_scope (groups a g)) false)).
  { intros a Ta Ia. destruct (eff_cancelled a _); [exact Ia|now apply D_scope_cancel]. }
  assert (Kc2 : forall a, TreeL a -> DInv a -> DInv (scope_cancel a (g_scope (groups a g)) false)).
  { intros a Ta Ia. now apply D_scope_cancel. }
  destruct (k_done k) as [[v|e|e]|].
  - destruct (k_startfut k) as [f|]; [|exact I4].
    destruct (f_st (futs s4 f)); try exact I4. apply (DInv_dq _ _ I4), dq_fut_complete.
  - destruct (k_startfut k) as [f|].
    + destruct (f_st (futs s4 f)).
      * apply (DInv_dq _ _ I4), dq_fut_complete.
      * destruct (is_cancel e); [now apply Kc|]. destruct (Kx e). now apply Kc2.
      * destruct (is_cancel e); [now apply Kc|]. destruct (Kx e). now apply Kc2.
      * destruct (is_cancel e); [exact I4|]. destruct (Kx e). now apply Kc2.
    + destruct (is_cancel e); [now apply Kc|]. destruct (Kx e). now apply Kc2.
  - destruct (k_startfut k) as [f|].
    + destruct (f_st (futs s4 f)).
      * apply (DInv_dq _ _ I4), dq_fut_complete.
      * destruct (is_cancel e); [now apply Kc|]. destruct (Kx e). now apply Kc2.
      * destruct (is_cancel e); [now apply Kc|]. destruct (Kx e). now apply Kc2.
      * destruct (is_cancel e); [exact I4|]. destruct (Kx e). now apply Kc2.
    + destruct (is_cancel e); [now apply Kc|]. destruct (Kx e). now apply Kc2.
  - destruct (k_startfut k) as [f|]; [|exact I4].
    destruct (f_st (futs s4 f)); try exact I4. apply (DInv_dq _ _ I4), dq_fut_complete.
Qed.

(* ---------------- a task finishes ---------------- *)
Lemma D_finish s t o : DInv s -> DInv (finish_task s t o).
Proof.
  intros [Al Hd]. set (s' := finish_task s t o).
  assert (Es : scopes s' = scopes s).
  { unfold s', finish_task. destruct (k_group (tasks s t)); reflexivity. }
  assert (Ek : forall x, x <> t -> tasks s' x = tasks s x).
  { intros x Hx. unfold s', finish_task. cbn [tasks set_running].
    destruct (k_group (tasks s t)); cbn; unfold upd; destruct (Nat.eqb_spec x t); try contradiction; reflexivity. }
  assert (Ekt : k_done (tasks s' t) <> None).
  { unfold s', finish_task. cbn [tasks set_running].
    destruct (k_group (tasks s t)); cbn; unfold upd; rewrite Nat.eqb_refl; cbn; discriminate. }
  assert (Er : forall c, In (HDeliver c) (ready s) -> In (HDeliver c) (ready s')).
  { intros c H. unfold s', finish_task. cbn [ready set_running].
    destruct (k_group (tasks s t)); cbn; [apply in_or_app; now left|exact H]. }
  split.
  - intros A. apply (alive_at_mono s s' A (Al A)); rewrite ?Es; auto.
    intros [t' [D [x [Hc Hv]]]]. destruct (Nat.eq_dec t' t) as [->|Hne]; [contradiction|].
    rewrite (Ek t' Hne) in D, Hc. exists t'. split; [exact D|]. exists x. split; [exact Hc|].
    apply (vis_view s s' A x); [|exact Hv]. intros y. rewrite Es. now repeat split.
  - intros y. rewrite Es. intros H. apply Er, Hd, H.
Qed.

(* ---------------- the shield setter ---------------- *)
Lemma vis_unshield s c A x :
  let s1 := upd_scope s c (sc_shield false) in
  vis s1 A x -> vis s A x \/ (exists p, s_parent (scopes s c) = Some p /\ vis s1 A p).
Proof.
  intros s1 H. induction H as [|x p E1 E2 E3 H IH]; [left; apply vis_here|].
  destruct (Nat.eq_dec x c) as [->|Hne].
  - right. exists p. split; [|exact H]. unfold s1 in E3. cbn in E3. unfold upd in E3.
    now rewrite Nat.eqb_refl in E3.
  - assert (Ex : scopes s1 x = scopes s x).
    { unfold s1. cbn. unfold upd. destruct (Nat.eqb_spec x c); [contradiction|reflexivity]. }
    rewrite Ex in E1, E2, E3. destruct IH as [IH|IH]; [left; eapply vis_up; eauto|right; exact IH].
Qed.

Lemma D_set_shield s c (b : bool) : Tree s -> DInv s ->
  DInv (if b then upd_scope s c (sc_shield true)
        else restart (upd_scope s c (sc_shield false)) (s_parent (scopes (upd_scope s c (sc_shield false)) c))).
Proof.
  intros T [Al Hd]. pose proof (Tree_TreeL _ T) as TL.
  destruct b.
  - set (s1 := upd_scope s c (sc_shield true)).
    assert (Es : forall y, y <> c -> scopes s1 y = scopes s y).
    { intros y Hy. unfold s1. cbn. unfold upd. destruct (Nat.eqb_spec y c); [contradiction|reflexivity]. }
    assert (Ec : scopes s1 c = sc_shield true (scopes s c)).
    { unfold s1. cbn. unfold upd. now rewrite Nat.eqb_refl. }
    split.
    + intros A. apply (alive_at_mono s s1 A (Al A)).
      * destruct (Nat.eq_dec A c) as [->|Hy]; [now rewrite Ec|now rewrite (Es A Hy)].
      * destruct (Nat.eq_dec A c) as [->|Hy]; [now rewrite Ec|now rewrite (Es A Hy)].
      * intros [t [D [x [Hc Hv]]]]. exists t. split; [exact D|]. exists x. split; [exact Hc|].
        apply (vis_mono s s1 A x Hv). intros y p F1 F2 F3.
        destruct (Nat.eq_dec y c) as [->|Hy]; [rewrite Ec in F1; discriminate|].
        rewrite (Es y Hy) in *. now repeat split.
      * destruct (Nat.eq_dec A c) as [->|Hy]; [now rewrite Ec|now rewrite (Es A Hy)].
    + intros y. destruct (Nat.eq_dec y c) as [->|Hy]; [rewrite Ec|rewrite (Es y Hy)]; apply Hd.
  - set (s1 := upd_scope s c (sc_shield false)).
    assert (Es : forall y, y <> c -> scopes s1 y = scopes s y).
    { intros y Hy. unfold s1. cbn. unfold upd. destruct (Nat.eqb_spec y c); [contradiction|reflexivity]. }
    assert (Ec : scopes s1 c = sc_shield false (scopes s c)).
    { unfold s1. cbn. unfold upd. now rewrite Nat.eqb_refl. }
    assert (T1 : TreeL s1).
    { apply (TreeL_ext s s1 TL eq_refl); [|intros t; reflexivity].
      intros y. destruct (Nat.eq_dec y c) as [->|Hy]; [rewrite Ec|rewrite (Es y Hy)]; now repeat split. }
    assert (H1 : Handle s1).
    { intros y. destruct (Nat.eq_dec y c) as [->|Hy]; [rewrite Ec|rewrite (Es y Hy)]; apply Hd. }
    assert (Vw : forall A, s_cancelled (scopes s1 A) = s_cancelled (scopes s A) /\
                           s_host (scopes s1 A) = s_host (scopes s A) /\
                           s_chandle (scopes s1 A) = s_chandle (scopes s A)).
    { intros A. destruct (Nat.eq_dec A c) as [->|Hy]; [rewrite Ec|rewrite (Es A Hy)]; now repeat split. }
    rewrite Ec. cbn [s_parent sc_shield].
    destruct (s_active (scopes s c)) eqn:Ac.
    + (* an active scope: new paths go through c and its parent *)
      destruct (s_parent (scopes s c)) as [p|] eqn:Ep.
      * apply D_restart; try assumption.
        -- assert (Ap : s_active (scopes s p) = true) by apply (tr_par_act _ T c p Ac Ep).
           destruct (Nat.eq_dec p c) as [Epc|Hy]; [rewrite Epc, Ec; cbn [s_active sc_shield]; now rewrite <- Epc|].
           rewrite (Es p Hy). exact Ap.
        -- intros A C Hh [t R]. destruct (Vw A) as [V1 [V2 V3]].
           destruct R as [D [x [Hc Hv]]]. destruct (vis_unshield s c A x Hv) as [V|[p' [Ep' V]]].
           ++ left. rewrite V3. apply Al; [now rewrite <- V1|now rewrite <- V2|].
              exists t. split; [exact D|]. exists x. now split.
           ++ right. rewrite Ep in Ep'. inversion Ep'; subst p'. exact V.
      * unfold restart. destruct (nscope s1); cbn [restart_from]; (split; [|exact H1]).
        all: intros A C Hh [t R]; destruct (Vw A) as [V1 [V2 V3]]; rewrite V3;
          apply Al; [now rewrite <- V1|now rewrite <- V2|].
        all: destruct R as [D [x [Hc Hv]]]; destruct (vis_unshield s c A x Hv) as [V|[p' [Ep' _]]];
          [exists t; split; [exact D|]; exists x; now split|rewrite Ep in Ep'; discriminate].
    + (* an inactive scope is on nobody's path *)
      apply D_restart_any; [exact T1|]. split; [|exact H1].
      intros A C Hh [t [D [x [Hc Hv]]]]. destruct (Vw A) as [V1 [V2 V3]]. rewrite V3.
      apply Al; [now rewrite <- V1|now rewrite <- V2|].
      exists t. split; [exact D|]. exists x. split; [exact Hc|].
      apply (vis_avoid s s1 c A x TL Ac); [|exact Hv|apply (tr_cur_act _ T t x Hc)].
      intros y Hy. rewrite (Es y Hy). now repeat split.
Qed.
