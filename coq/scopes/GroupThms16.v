(* C02, finding F23: a task group in which a child or the body failed has its OWN scope cancelled, and stays so. *)
From AV Require Import Base Machine GroupInv GroupInv2 GroupInv3 GroupInv4 GroupInv5 GroupInv6 GroupInv7 GroupInv8
  GroupInv9 GroupThms GroupThms2 GroupThms3 GroupThms4 GroupThms6.
From AV Require ChainMono.

(* ---------------- cancel_called of an allocated scope survives the blocks of __aexit__ ---------------- *)
Definition cm (c : sid) (X Y : st) : Prop :=
  c < nscope X -> s_cancelled (scopes X c) = true -> c < nscope Y /\ s_cancelled (scopes Y c) = true.

Lemma cm_refl c X : cm c X X.
Proof. intros H1 H2. auto. Qed.

Lemma cm_trans c A B C : cm c A B -> cm c B C -> cm c A C.
Proof. intros H1 H2 Ha Hb. destruct (H1 Ha Hb) as [H3 H4]. apply (H2 H3 H4). Qed.

Lemma cm_same c X Y : scopes Y = scopes X -> nscope Y = nscope X -> cm c X Y.
Proof. intros E1 E2 H1 H2. rewrite E1, E2. auto. Qed.

Lemma cm_kstar c C T X Y : kstar C T X Y -> cm c X Y.
Proof.
  intros K H1 H2. pose proof (kframe_kstar _ _ _ _ K) as F. rewrite (fr_nscope _ _ _ _ F).
  split; [exact H1|apply (fr_canc _ _ _ _ F), H2].
Qed.

Lemma cm_ns c X d sh : cm c X (ns X d sh).
Proof.
  intros H1 H2. unfold ns, new_scope. cbn [fst nscope scopes]. split; [lia|].
  unfold upd. destruct (Nat.eqb_spec c (nscope X)); [lia|exact H2].
Qed.

Lemma scopes_suspend_on X t f : scopes (suspend_on X t f) = scopes X.
Proof.
  unfold suspend_on. destruct (f_st (futs X f)); [|reflexivity|reflexivity|reflexivity].
  destruct (k_must (tasks X t)); [|reflexivity]. cbn [upd_task set_tasks scopes]. now rewrite fc_scopes.
Qed.

Lemma nscope_suspend_on X t f : nscope (suspend_on X t f) = nscope X.
Proof.
  unfold suspend_on. destruct (f_st (futs X f)); [|reflexivity|reflexivity|reflexivity].
  destruct (k_must (tasks X t)); [|reflexivity]. cbn [upd_task set_tasks nscope]. now rewrite fc_nscope.
Qed.

Lemma cm_suspend_on c X t f : cm c X (suspend_on X t f).
Proof. apply cm_same; [apply scopes_suspend_on|apply nscope_suspend_on]. Qed.

Ltac cpeel L := eapply cm_trans; [|apply L].
Ltac ceq := apply cm_same; reflexivity.

Lemma cm_park c X t : cm c X (park X t).
Proof. unfold park. rewrite new_fut_eq. cpeel cm_same; [|reflexivity|reflexivity]. cpeel cm_suspend_on. ceq. Qed.

Lemma cm_ret c X t r : cm c X (fst (ret_to_puppet X t r)).
Proof.
  unfold ret_to_puppet. cbn [fst]. cpeel cm_same; [|reflexivity|reflexivity]. cpeel cm_park. destruct r; try apply cm_refl; ceq.
Qed.

Lemma cm_scope_exit c X x t e : cm c X (fst (scope_exit X x t e)).
Proof. apply (cm_kstar c _ _ _ _ (ks_scope_exit X x t e)). Qed.
Lemma cm_scope_enter c X x t : cm c X (fst (scope_enter X x t)).
Proof. apply (cm_kstar c _ _ _ _ (ks_scope_enter X x t)). Qed.

Lemma cm_aexit_raise c X t g e : cm c X (fst (aexit_raise X t g e)).
Proof.
  unfold aexit_raise. pose proof (cm_scope_exit c X (g_scope (groups X g)) t (Some e)) as H.
  destruct (scope_exit X (g_scope (groups X g)) t (Some e)) as [s1 x]. cbn [fst] in H.
  destruct x; cbn [fst]; (eapply cm_trans; [exact H|ceq]).
Qed.

Lemma cm_aexit_finish c X t g exc : cm c X (fst (aexit_finish X t g exc)).
Proof.
  unfold aexit_finish. destruct (map snd (g_excs (groups X g))); [|apply cm_aexit_raise].
  destruct exc; [apply cm_aexit_raise|].
  pose proof (cm_scope_exit c X (g_scope (groups X g)) t None) as H.
  destruct (scope_exit X (g_scope (groups X g)) t None) as [s1 x]. cbn [fst] in H.
  destruct x; cbn [fst]; (eapply cm_trans; [exact H|ceq]).
Qed.

Lemma cm_ret_pair c s0 (p : st * res) t : cm c s0 (fst p) ->
  cm c s0 (fst (let '(s2, r) := p in ret_to_puppet s2 t r)).
Proof. destruct p as [s2 r]. cbn [fst]. intros H. eapply cm_trans; [exact H|apply cm_ret]. Qed.

Lemma cm_wof c X t g ws exc : cm c X (fst (aexit_wait_or_finish X t g ws exc)).
Proof.
  unfold aexit_wait_or_finish. destruct (g_tasks (groups X g)) as [|a l].
  - destruct ws as [w|].
    + pose proof (cm_scope_exit c X w t None) as H. destruct (scope_exit X w t None) as [s1 x]. cbn [fst] in H.
      destruct x; apply cm_ret_pair; (eapply cm_trans; [exact H|]);
        first [apply cm_aexit_finish|apply cm_aexit_raise].
    + apply cm_ret_pair, cm_aexit_finish.
  - assert (Hb : forall s0 w, cm c X s0 ->
      cm c X (fst (let '(s1, f) := new_fut s0 in
                   let s2 := upd_group s1 g (gr_fut (Some f)) in
                   blocked (set_ctl (suspend_on s2 t f) t (CAexitWait g w exc))))).
    { intros s0 w E0. rewrite new_fut_eq. cbn zeta. cbn [blocked fst]. cpeel cm_same; [|reflexivity|reflexivity].
      cpeel cm_suspend_on. eapply cm_trans; [exact E0|ceq]. }
    destruct ws as [w|].
    + apply Hb, cm_refl.
    + rewrite new_scope_eq. cbn [fst]. apply Hb. cpeel cm_scope_enter. apply cm_ns.
Qed.

(* (c) C02: __aexit__ entered with an exception of the body (a cancellation or an error) calls cancel() on the
   group's own scope: at the end of the step the scope has cancel_called, whatever the enclosing scopes *)
Theorem body_failure_cancels_group s t g e : reach s -> idle s t = true -> k_held (tasks s t) = Some e ->
  let s' := fst (step s (AGroupExit t g)) in
  s_cancelled (scopes s' (g_scope (groups s' g))) = true /\
  (is_cancel e = false -> g_excs (groups s' g) = g_excs (groups s g) ++ [(0, e)]).
Proof.
  intros R Hi Hh. cbn zeta. destruct (reach_inv s R) as [[K Ci G J] Hrun].
  pose proof (b_gscope s G g) as Hb.
  cbn [step actor]. rewrite Hi. cbn [negb].
  pose proof (op_group_exit_grel s t g) as Hrel. apply grel_grec in Hrel.
  destruct Hrel as [_ [_ [Hsc [Hex _]]]].
  assert (Esc : g_scope (groups (fst (puppet_op s t (AGroupExit t g))) g) = g_scope (groups s g)).
  { rewrite Hsc. unfold after_body_exc. rewrite Hh. destruct (is_cancel e); [reflexivity|].
    cbn [upd_group set_groups groups]. rewrite upd_same. reflexivity. }
  split.
  - rewrite Esc. unfold puppet_op. set (s0 := begin_act s t). cbn zeta.
    assert (Eh : k_held (tasks s0 t) = Some e) by (unfold s0, begin_act; tcase t t; [exact Hh|contradiction]).
    rewrite Eh. change (g_scope (groups s0 g)) with (g_scope (groups s g)).
    set (gs := g_scope (groups s g)) in *.
    destruct (cancelled_after_scope_cancel s0 gs false) as [Hc [Hn _]].
    set (s1 := if is_cancel e then scope_cancel s0 gs false else _).
    assert (H1 : gs < nscope s1 /\ s_cancelled (scopes s1 gs) = true).
    { unfold s1. destruct (is_cancel e); cbn [upd_group set_groups nscope scopes]; rewrite Hn; auto. }
    destruct H1 as [H1 H2].
    match goal with |- s_cancelled (scopes (fst ?p) gs) = true => assert (M : cm gs s1 (fst p)) end.
    { destruct (g_tasks (groups s1 g)); [|apply cm_wof].
      rewrite new_scope_eq. cbn zeta. cbn [blocked fst]. cpeel cm_same; [|reflexivity|reflexivity].
      cpeel cm_same; [|reflexivity|reflexivity]. cpeel cm_scope_enter. apply cm_ns. }
    apply (M H1 H2).
  - intros Hnc. rewrite Hex. unfold after_body_exc. rewrite Hh, Hnc.
    cbn [upd_group set_groups groups]. rewrite upd_same. reflexivity.
Qed.

(* ---------------- (b) a failed group has cancel_called on its own scope, at every state of every run ---------------- *)
Definition FInv (s : st) : Prop :=
  forall g, g_excs (groups s g) <> [] -> s_cancelled (scopes s (g_scope (groups s g))) = true.

Lemma step_gscope_or_fresh s o g : reach s ->
  g_scope (groups (fst (step s o)) g) = g_scope (groups s g) \/ g_excs (groups (fst (step s o)) g) = [].
Proof.
  intros R. destruct (step_group_cases s o g R) as [E|[H|[H|[H|[H|[H|H]]]]]].
  - left. now rewrite E.
  - right. destruct H as [t [_ [_ [_ E]]]]. now rewrite E.
  - left. destruct H as [t [_ E]]. now rewrite E.
  - left. destruct H as [t [_ [_ [_ E]]]]. now rewrite E.
  - left. destruct H as [t [e [_ [_ [_ [_ E]]]]]]. destruct E as [_ [_ [E _]]]. rewrite E. reflexivity.
  - left. destruct H as [E _]. destruct E as [_ [_ [E _]]]. exact E.
  - left. destruct H as [t [_ [_ [_ [E|[e [_ E]]]]]]]; now rewrite E.
Qed.

Lemma app_one_ne {A} (l : list A) x : l ++ [x] <> l.
Proof. intros E. apply (f_equal (@length A)) in E. rewrite app_length in E. cbn in E. lia. Qed.

Lemma FInv_step s o : reach s -> FInv s -> FInv (fst (step s o)).
Proof.
  intros R F g Hne. destruct (reach_inv s R) as [[K Ci G J] Hrun].
  assert (Same : g_excs (groups (fst (step s o)) g) = g_excs (groups s g) ->
                 s_cancelled (scopes (fst (step s o)) (g_scope (groups (fst (step s o)) g))) = true).
  { intros Eq. rewrite Eq in Hne. specialize (F g Hne).
    destruct (step_gscope_or_fresh s o g R) as [E|E]; [|rewrite Eq in E; contradiction].
    rewrite E. destruct (ChainMono.caught_cancelled_monotone s o (g_scope (groups s g)) (b_gscope s G g)) as [_ [M _]]. apply M, F. }
  destruct (step_group_cases s o g R) as [E|[H|[H|[H|[H|[H|H]]]]]].
  - apply Same. now rewrite E.
  - exfalso. destruct H as [t [_ [_ [_ E]]]]. apply Hne. now rewrite E.
  - apply Same. destruct H as [t [_ E]]. now rewrite E.
  - apply Same. destruct H as [t [_ [_ [_ E]]]]. now rewrite E.
  - destruct H as [t [e [-> [Hi [Hh _]]]]]. apply (body_failure_cancels_group s t g e R Hi Hh).
  - apply Same. destruct H as [E _]. destruct E as [_ [_ [_ [E _]]]]. exact E.
  - destruct H as [t [-> [Hin [Hg [E|[e [_ E]]]]]]].
    + apply Same. now rewrite E.
    + apply (first_failure_cancels_group s t g R Hin Hg). cbn zeta. rewrite E. apply app_one_ne.
Qed.

(* C02 (F23): in every state of every run, a task group whose error list is not empty (a child or the body
   failed) has cancel_called on its OWN scope, and is therefore effectively cancelled - no operation, in particular
   no change of a shield, can hide an enclosing cancellation from it and let it run on *)
Theorem failed_group_stays_cancelled ops g :
  let s := final step init ops in
  g_excs (groups s g) <> [] ->
  s_cancelled (scopes s (g_scope (groups s g))) = true /\ eff_cancelled s (g_scope (groups s g)) = true.
Proof.
  cbn zeta. intros Hne.
  assert (F : FInv (final step init ops) /\ reach (final step init ops)).
  { clear Hne. induction ops as [|o ops IH] using rev_ind.
    - split; [intros g0 H; exfalso; apply H; reflexivity|exists []; reflexivity].
    - rewrite final_app. cbn [final fold_left]. destruct IH as [F R]. split; [apply FInv_step; assumption|apply reach_step, R]. }
  destruct F as [F R]. split; [apply F, Hne|].
  destruct (reach_inv _ R) as [[K Ci G J] _]. apply eff_cancelled_self; [apply (c_n _ Ci)|apply F, Hne].
Qed.

(* the monotone form: once the error list of an allocated group g is not empty it is never empty again, the group
   keeps its scope, and the scope keeps cancel_called through every later operation (no op resets _cancel_called) *)
Theorem failed_group_persists s o g : reach s -> g < ngroup s -> g_excs (groups s g) <> [] ->
  g_excs (groups (fst (step s o)) g) <> [] /\
  g_scope (groups (fst (step s o)) g) = g_scope (groups s g) /\
  s_cancelled (scopes (fst (step s o)) (g_scope (groups s g))) = true.
Proof.
  intros R Hal Hne. destruct (reach_inv s R) as [[K Ci G J] Hrun].
  assert (Hc : s_cancelled (scopes s (g_scope (groups s g))) = true).
  { destruct R as [ops ->]. apply (failed_group_stays_cancelled ops g Hne). }
  assert (Hx : g_excs (groups (fst (step s o)) g) <> []).
  { destruct (step_group_cases s o g R) as [E|[H|[H|[H|[H|[H|H]]]]]].
    - now rewrite E.
    - exfalso. destruct H as [t [_ [_ [E _]]]]. lia.
    - destruct H as [t [_ E]]. now rewrite E.
    - destruct H as [t [_ [_ [_ E]]]]. now rewrite E.
    - destruct H as [t [e [_ [_ [_ [_ E]]]]]]. destruct E as [_ [_ [_ [E _]]]]. rewrite E. cbn. intros E0. now apply app_eq_nil in E0.
    - destruct H as [E _]. destruct E as [_ [_ [_ [E _]]]]. now rewrite E.
    - destruct H as [t [_ [_ [_ [E|[e [_ E]]]]]]]; rewrite E; [exact Hne|]. cbn. intros E0. apply app_eq_nil in E0. destruct E0 as [_ E0]. discriminate. }
  split; [exact Hx|]. destruct (step_gscope_or_fresh s o g R) as [E|E]; [|contradiction].
  split; [exact E|]. destruct (ChainMono.caught_cancelled_monotone s o (g_scope (groups s g)) (b_gscope s G g)) as [_ [M _]]. apply M, Hc.
Qed.

(* ---------------- the task_done callback before the fix of F23 ---------------- *)
(* a literal copy of run_task_done before the fix: a child's failure cancelled the group's scope only when the
   scope was not EFFECTIVELY cancelled, i.e. not when just an enclosing scope was cancelled *)
Definition run_task_done_old (s0 : st) (t : tid) : st :=
  let s := set_running s0 None in
  let k := tasks s t in
  match k_group k with
  | None => s
  | Some g =>
      let s1 := match k_cur k with
                | Some c => upd_scope s c (fun x => sc_tasks (del t (s_tasks x)) x)
                | None => s
                end in
      let s2 := upd_group s1 g (fun x => gr_tasks (del t (g_tasks x)) x) in
      let s3 := upd_task s2 t (fun x => tk_tdran true (tk_cur None x)) in
      let s4 := match g_fut (groups s3 g), g_tasks (groups s3 g) with
                | Some f, [] => fut_complete s3 f (FRes 0)
                | _, _ => s3
                end in
      let exc := match k_done k with
                 | Some (OExc e) => Some e
                 | Some (OCanc e) => Some e
                 | _ => None
                 end in
      let sf := k_startfut k in
      let sf_state := match sf with Some f => Some (f_st (futs s4 f)) | None => None end in
      match exc with
      | Some e =>
          match sf_state with
          | Some (FCanc _) =>
              if is_cancel e then s4 else
              let s5 := upd_group s4 g (fun x => gr_excs (g_excs x ++ [(t, e)]) x) in
              if eff_cancelled s5 (g_scope (groups s5 g)) then s5 else scope_cancel s5 (g_scope (groups s5 g)) false
          | Some FPend =>
              match sf with Some f => fut_complete s4 f (FExc e) | None => s4 end
          | _ =>
              let s5 := if is_cancel e then s4 else upd_group s4 g (fun x => gr_excs (g_excs x ++ [(t, e)]) x) in
              if eff_cancelled s5 (g_scope (groups s5 g)) then s5 else scope_cancel s5 (g_scope (groups s5 g)) false
          end
      | None =>
          match sf, sf_state with
          | Some f, Some FPend => fut_complete s4 f (FExc ERuntime)
          | _, _ => s4
          end
      end
  end.


Definition step_old23 (s : st) (o : op) : st * res :=
  match o with
  | ARun (HTaskDone t) =>
      if negb (existsb (handle_eqb (HTaskDone t)) (ready s)) then (s, RRejected)
      else (run_task_done_old (set_ready s (remove_first (HTaskDone t) (ready s))) t, RNone)
  | _ => step s o
  end.

(* F23 before the fix: the outer scope 1 around the group (scope 2) is cancelled; child B (task 3) fails with
   EErr 7 and its task_done callback runs: the group's scope is effectively cancelled through scope 1, so cancel() is
   not called on it; the host then shields the group's scope: the group with a failed child is active, not cancelled
   and not effectively cancelled any more - child A (task 2) and the body run on.  On the fixed machine the group's
   own scope is cancelled by the callback (the host is woken by that cancellation, so its set-shield op is refused
   until it has run). *)
Example failed_group_escapes_before_fix_refuted :
  exists ops,
    let s := final step_old23 init ops in
    g_excs (groups s 1) = [(3, EErr 7)] /\ g_scope (groups s 1) = 2 /\ s_active (scopes s 2) = true /\
    s_cancelled (scopes s 2) = false /\ eff_cancelled s 2 = false /\
    k_done (tasks s 2) = None /\ k_must (tasks s 2) = false /\
    (* the same run on the fixed machine *)
    s_cancelled (scopes (final step init ops) 2) = true /\ eff_cancelled (final step init ops) 2 = true.
Proof.
  exists [ANewRoot; ANewScope 1 None false; AEnter 1 1; AGroupNew 1; AGroupEnter 1 1; ASpawn 1 1; ASpawn 1 1;
          ARun (HStep 2); ANewScope 2 None true; AEnter 2 5; ASleep 2 None; ARun (HStep 3); ACancel 1 1;
          ARun (HWake 3 12); AHold 3 7; AFinish 3 0; ARun (HTaskDone 3); ASetShield 1 2 true].
  vm_compute. repeat split; reflexivity.
Qed.

(* non-vacuity of the theorems above on the fixed machine *)
Example ex_failed_group_stays_cancelled :
  let ops := [ANewRoot; ANewScope 1 None false; AEnter 1 1; AGroupNew 1; AGroupEnter 1 1; ASpawn 1 1; ASpawn 1 1;
              ARun (HStep 2); ANewScope 2 None true; AEnter 2 5; ASleep 2 None; ARun (HStep 3); ACancel 1 1;
              ARun (HWake 3 12); AHold 3 7; AFinish 3 0; ARun (HTaskDone 3); ARun (HWake 1 13);
              ASetShield 1 2 true] in
  let s := final step init ops in
  g_excs (groups s 1) = [(3, EErr 7)] /\ s_shield (scopes s 2) = true /\ s_active (scopes s 2) = true /\
  s_cancelled (scopes s 2) = true /\ eff_cancelled s 2 = true.
Proof. vm_compute. repeat split; reflexivity. Qed.

Example ex_body_failure_cancels_group :
  let s := final step init [ANewRoot; AGroupNew 1; AGroupEnter 1 1; ASpawn 1 1; AHold 1 9] in
  idle s 1 = true /\ k_held (tasks s 1) = Some (EErr 9) /\
  s_cancelled (scopes s 1) = false /\ s_cancelled (scopes (fst (step s (AGroupExit 1 1))) 1) = true.
Proof. vm_compute. repeat split; reflexivity. Qed.
