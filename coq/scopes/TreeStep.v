(* Every op of the generated domain (op_ok) preserves the structural invariant (Tree, Ctl) and the
   delivery invariant I4 (DInv), and respects the potential of C05 (pstep: the cancel counter of a task minus
   the debts of the scopes it hosts never decreases and is constant for root tasks). *)
From AV Require Import Base Machine ScopeFrames DeliverInv TreeInv DeliverAlive PotentialInv.

(* ---------------- neutral steps: same tree, only the listed tasks' records change, no new task-done callback;
   the delivery invariant and the potential are carried along *)
Definition nstep0 (l : list tid) (a b : st) : Prop :=
  treq a b /\ tcb l a b /\ rq_td a b /\ (TreeL a -> DInv a -> DInv b).

Definition nstep (l : list tid) (a b : st) : Prop := nstep0 l a b /\ (Tree a -> pstep a b).

Lemma ns0_refl l a : nstep0 l a a.
Proof. split; [apply treq_refl|split; [apply tcb_refl|split; [apply rq_td_refl|auto]]]. Qed.

Lemma ns0_trans l a b c : nstep0 l a b -> nstep0 l b c -> nstep0 l a c.
Proof.
  intros [A1 [A2 [A3 A4]]] [B1 [B2 [B3 B4]]].
  split; [eapply treq_trans; eauto|split; [eapply tcb_trans; eauto|split; [eapply rq_td_trans; eauto|]]].
  intros T I. apply B4; [eapply TreeL_treq; eauto|auto].
Qed.

Lemma ns_refl l a : nstep l a a.
Proof. split; [apply ns0_refl|intros _; apply pstep_refl]. Qed.

Lemma ns_trans l a b c : nstep l a b -> nstep l b c -> nstep l a c.
Proof.
  intros [A PA] [B PB]. split; [eapply ns0_trans; eauto|].
  intros T. assert (K : treq a b) by apply A.
  apply (pstep_trans a b c); [now apply PA|apply PB; eapply Tree_treq; eauto|now apply same_alloc_group].
Qed.

Lemma ns0_dq l a b : treq a b -> tcb l a b -> rq_td a b -> dq a b -> nstep0 l a b.
Proof.
  intros K1 K2 K3 Q. split; [exact K1|split; [exact K2|split; [exact K3|]]].
  intros _ I. eapply DInv_dq; eauto.
Qed.

Lemma ns_dq l a b : treq a b -> tcb l a b -> rq_td a b -> dq a b -> inert a b -> nstep l a b.
Proof. intros K1 K2 K3 Q In. split; [now apply ns0_dq|intros _; now apply pstep_inert]. Qed.

Lemma ns_fut_complete l s f v : nstep l s (fut_complete s f v).
Proof.
  apply ns_dq; [apply treq_fut_complete|apply tcb_kframe, kframe_fut_complete|apply rq_td_kframe, kframe_fut_complete|
                apply dq_fut_complete|apply inert_fut_complete].
Qed.

(* the two outside influences on the counter are neutral for everything but the potential *)
Lemma ns0_task_cancel l s t o : nstep0 l s (task_cancel s t o).
Proof.
  apply ns0_dq; [apply treq_task_cancel|apply tcb_kframe, kframe_task_cancel|apply rq_td_kframe, kframe_task_cancel|
                 apply dq_task_cancel].
Qed.

Lemma ns0_task_uncancel l s t : nstep0 l s (task_uncancel s t).
Proof.
  apply ns0_dq; [apply treq_task_uncancel|apply tcb_kframe, kframe_task_uncancel|
                 apply rq_td_kframe, kframe_task_uncancel|apply dq_task_uncancel].
Qed.

Lemma ns_restart l s x : nstep l s (restart s x).
Proof.
  pose proof (kframe_restart s x) as K. split.
  - split; [now apply kframe_treq|split; [now apply tcb_kframe|split; [now apply rq_td_kframe|]]].
    apply D_restart_any.
  - intros T. apply P_restart. now apply Pok_Tree.
Qed.

Lemma ns_same l a b :
  treq a b -> tasks b = tasks a -> ready b = ready a ->
  (forall c, sc_view (scopes b c) = sc_view (scopes a c)) ->
  (forall c, sc_acct (scopes b c) = sc_acct (scopes a c)) -> nstep l a b.
Proof.
  intros K E1 E2 E3 E4. apply ns_dq; [exact K|now apply tcb_same_tasks|now apply rq_td_same| |].
  - constructor; [exact E3|intros t; now rewrite E1|intros t; now rewrite E1|intros c H; now rewrite E2].
  - constructor; [apply (tq_nscope _ _ K)|exact E4|intros t; now rewrite E1].
Qed.

Lemma ns_upd_task l s t g : In t l -> (forall k, tk_tree (g k) = tk_tree k) -> (forall k, k_done (g k) = k_done k) ->
  (forall k, k_ncancel (g k) = k_ncancel k) -> nstep l s (upd_task s t g).
Proof.
  intros Hin Hg Hd Hn. apply ns_dq; [now apply treq_upd_task|now apply tcb_upd_task|apply rq_td_same; reflexivity| |
                                      now apply inert_upd_task].
  apply dq_upd_task. intros k. split; [|apply Hd]. pose proof (Hg k) as E. unfold tk_tree in E. now inversion E.
Qed.

Lemma ns_upd_scope l s c g : (forall k, sc_tree (g k) = sc_tree k) -> (forall k, sc_view (g k) = sc_view k) ->
  (forall k, sc_acct (g k) = sc_acct k) -> nstep l s (upd_scope s c g).
Proof.
  intros Hg Hv Ha. apply ns_same; [now apply treq_upd_scope|reflexivity|reflexivity| |].
  - intros x. cbn. unfold upd. destruct (Nat.eqb_spec x c); [subst; apply Hv|reflexivity].
  - intros x. cbn. unfold upd. destruct (Nat.eqb_spec x c); [subst; apply Ha|reflexivity].
Qed.

Lemma D_shield_true s c : DInv s -> DInv (upd_scope s c (sc_shield true)).
Proof.
  intros [Al Hd]. set (s1 := upd_scope s c (sc_shield true)).
  assert (Es : forall y, y <> c -> scopes s1 y = scopes s y).
  { intros y Hy. unfold s1. cbn. unfold upd. destruct (Nat.eqb_spec y c); [contradiction|reflexivity]. }
  assert (Ec : scopes s1 c = sc_shield true (scopes s c)).
  { unfold s1. cbn. unfold upd. now rewrite Nat.eqb_refl. }
  split.
  - intros A. apply (alive_at_mono s s1 A (Al A)).
    + destruct (Nat.eq_dec A c) as [->|Hy]; [now rewrite Ec|now rewrite (Es A Hy)].
    + destruct (Nat.eq_dec A c) as [->|Hy]; [now rewrite Ec|now rewrite (Es A Hy)].
    + intros [t [D [x [Hc Hv]]]]. exists t. split; [exact D|]. exists x. split; [exact Hc|].
      apply (vis_mono s s1 A x Hv). intros y p F1 F2 F3.
      destruct (Nat.eq_dec y c) as [->|Hy]; [rewrite Ec in F1; discriminate|].
      rewrite (Es y Hy) in *. now repeat split.
    + destruct (Nat.eq_dec A c) as [->|Hy]; [now rewrite Ec|now rewrite (Es A Hy)].
  - intros y. destruct (Nat.eq_dec y c) as [->|Hy]; [rewrite Ec|rewrite (Es y Hy)]; apply Hd.
Qed.

Lemma ns_shield_true l s c : nstep l s (upd_scope s c (sc_shield true)).
Proof.
  split.
  - split; [apply treq_upd_scope; intros k; reflexivity|].
    split; [apply tcb_same_tasks; reflexivity|]. split; [apply rq_td_same; reflexivity|].
    intros _. apply D_shield_true.
  - intros _. apply pstep_inert, inert_upd_scope. intros k; reflexivity.
Qed.

Lemma ns_upd_group l s c g : (forall k, gr_tree (g k) = gr_tree k) -> nstep l s (upd_group s c g).
Proof. intros Hg. apply ns_same; [now apply treq_upd_group|reflexivity|reflexivity|reflexivity|reflexivity]. Qed.

Lemma ns_set_running l s v : nstep l s (set_running s v).
Proof. apply ns_same; [apply treq_set_running|reflexivity|reflexivity|reflexivity|reflexivity]. Qed.

Lemma ns_begin_act l s t : In t l -> nstep l s (begin_act s t).
Proof.
  intros Hin. apply ns_dq; [apply treq_begin_act|now apply tcb_begin_act|apply rq_td_same; reflexivity|
                            apply dq_begin_act|apply inert_begin_act].
Qed.

Lemma ns_ret l s t r : In t l -> nstep l s (fst (ret_to_puppet s t r)).
Proof.
  intros Hin. apply ns_dq; [apply treq_ret_to_puppet|now apply tcb_ret_to_puppet|apply rq_td_ret_to_puppet|
                            apply dq_ret_to_puppet|apply inert_ret_to_puppet].
Qed.

Lemma ns_park l s t : In t l -> nstep l s (park s t).
Proof.
  intros Hin. apply ns_dq; [apply treq_park|now apply tcb_park|apply rq_td_park|apply dq_park|apply inert_park].
Qed.

Lemma ns_set_ctl l s t c : In t l -> nstep l s (set_ctl s t c).
Proof. intros Hin. apply ns_upd_task; [exact Hin|intros k; reflexivity|intros k; reflexivity|intros k; reflexivity]. Qed.

Lemma ns_bare_yield l s t : nstep l s (bare_yield s t).
Proof.
  apply ns_dq; [apply treq_bare_yield|apply tcb_same_tasks; reflexivity| |apply dq_call_soon|apply inert_call_soon].
  apply rq_td_call_soon. intros; discriminate.
Qed.

Lemma ns_scope_cancel l s c b : nstep l s (scope_cancel s c b).
Proof.
  split.
  - split; [apply treq_scope_cancel|split; [apply tcb_scope_cancel|split; [apply rq_td_scope_cancel|]]].
    apply D_scope_cancel.
  - intros T. apply P_scope_cancel. now apply Pok_Tree.
Qed.

Lemma ns_cancel_timeout l s c : nstep l s (cancel_timeout s c).
Proof.
  apply ns_dq; [apply treq_cancel_timeout|apply tcb_cancel_timeout|apply rq_td_cancel_timeout|apply dq_cancel_timeout|
                apply inert_cancel_timeout].
Qed.

Lemma ns_scope_timeout l s c : nstep l s (scope_timeout s c).
Proof.
  split.
  - split; [apply treq_scope_timeout|split; [apply tcb_scope_timeout|split; [apply rq_td_scope_timeout|]]].
    apply D_scope_timeout.
  - intros T. apply P_scope_timeout. now apply Pok_Tree.
Qed.

Lemma ns_new_fut l s : nstep l s (fst (new_fut s)).
Proof. apply ns_same; [apply treq_new_fut|reflexivity|reflexivity|reflexivity|reflexivity]. Qed.

Lemma ns_call_at l s w x : nstep l s (fst (call_at s w x)).
Proof. apply ns_same; [apply treq_call_at|reflexivity|reflexivity|reflexivity|reflexivity]. Qed.

Lemma ns_suspend_on l s t f : In t l -> nstep l s (suspend_on s t f).
Proof.
  intros Hin. apply ns_dq; [apply treq_suspend_on|now apply tcb_suspend_on|apply rq_td_suspend_on|apply dq_suspend_on|
                            apply inert_suspend_on].
Qed.

Lemma ns_event_set l s e : nstep l s (event_set s e).
Proof.
  apply ns_dq; [apply treq_event_set|apply tcb_event_set|apply rq_td_event_set|apply dq_event_set|apply inert_event_set].
Qed.

Lemma ns_event_wait l s t e : In t l -> nstep l s (fst (event_wait s t e)).
Proof.
  intros Hin. apply ns_dq; [apply treq_event_wait|now apply tcb_event_wait|apply rq_td_event_wait|apply dq_event_wait|
                            apply inert_event_wait].
Qed.

Lemma ns_event_unwait l s e fo : nstep l s (event_unwait s e fo).
Proof.
  apply ns_dq; [apply treq_event_unwait|apply tcb_event_unwait| |apply dq_event_unwait|apply inert_event_unwait].
  destruct fo; apply rq_td_same; reflexivity.
Qed.

Lemma ns_incoming l s t fo : In t l -> nstep l s (fst (incoming s t fo)).
Proof.
  intros Hin. apply ns_dq; [apply treq_incoming|now apply tcb_incoming|apply rq_td_same; reflexivity|apply dq_incoming|
                            apply inert_incoming].
Qed.

Lemma ns_timer_cancel l s tm : nstep l s (timer_cancel s tm).
Proof.
  apply ns_dq; [apply treq_timer_cancel|apply tcb_same_tasks; reflexivity|apply rq_td_timer_cancel|apply dq_timer_cancel|
                apply inert_timer_cancel].
Qed.

Lemma ns_tick l s dt : nstep l s (tick s dt).
Proof.
  apply ns_dq; [apply treq_tick|apply tcb_same_tasks; reflexivity|apply rq_td_tick|apply dq_tick|apply inert_tick].
Qed.

Lemma ns_remove_first l s h : (forall c, h <> HDeliver c) -> nstep l s (set_ready s (remove_first h (ready s))).
Proof.
  intros Hh. apply ns_dq; [apply treq_set_ready|apply tcb_same_tasks; reflexivity|apply rq_td_remove_first|
                           now apply dq_remove_first|apply inert_same; reflexivity].
Qed.

Lemma ns_td_tail l s3 k g t : nstep l s3 (td_tail s3 k g t).
Proof.
  split.
  2:{ intros T. apply P_td_tail. now apply Pok_Tree. }
  unfold td_tail.
  set (s4 := match g_fut (groups s3 g) with
             | Some f => match g_tasks (groups s3 g) with [] => fut_complete s3 f (FRes 0) | _ :: _ => s3 end
             | None => s3 end).
  assert (K4 : nstep0 l s3 s4).
  { unfold s4. destruct (g_fut (groups s3 g)); [|apply ns0_refl].
    destruct (g_tasks (groups s3 g)); [apply ns_fut_complete|apply ns0_refl]. }
  clearbody s4.
  assert (Kx : forall e, nstep0 l s4 (upd_group s4 g (fun x => gr_excs (g_excs x ++ [(t, e)]) x))).
  { intros e. apply ns_upd_group. intros x; reflexivity. }
  assert (Kc : forall a, nstep0 l a (if eff_cancelled a (g_scope (groups a g)) then a
                                     else scope_cancel a (g_scope (groups a g)) false)).
  { intros a. destruct (eff_cancelled a _); [apply ns0_refl|apply ns_scope_cancel]. }
  assert (Kc2 : forall a, nstep0 l a (scope_cancel a (g_scope (groups a g)) false)) by (intros a; apply ns_scope_cancel).
  assert (Kf : forall f v, nstep0 l s4 (fut_complete s4 f v)) by (intros f v; apply ns_fut_complete).
  eapply ns0_trans; [exact K4|].
  destruct (k_done k) as [[v|e|e]|].
  - destruct (k_startfut k) as [f|]; [|apply ns0_refl].
    destruct (f_st (futs s4 f)); try apply ns0_refl. apply Kf.
  - destruct (k_startfut k) as [f|].
    + destruct (f_st (futs s4 f)).
      * apply Kf.
      * destruct (is_cancel e); [apply Kc|]. eapply ns0_trans; [apply Kx|apply Kc2].
      * destruct (is_cancel e); [apply Kc|]. eapply ns0_trans; [apply Kx|apply Kc2].
      * destruct (is_cancel e); [apply ns0_refl|]. eapply ns0_trans; [apply Kx|apply Kc2].
    + destruct (is_cancel e); [apply Kc|]. eapply ns0_trans; [apply Kx|apply Kc2].
  - destruct (k_startfut k) as [f|].
    + destruct (f_st (futs s4 f)).
      * apply Kf.
      * destruct (is_cancel e); [apply Kc|]. eapply ns0_trans; [apply Kx|apply Kc2].
      * destruct (is_cancel e); [apply Kc|]. eapply ns0_trans; [apply Kx|apply Kc2].
      * destruct (is_cancel e); [apply ns0_refl|]. eapply ns0_trans; [apply Kx|apply Kc2].
    + destruct (is_cancel e); [apply Kc|]. eapply ns0_trans; [apply Kx|apply Kc2].
  - destruct (k_startfut k) as [f|]; [|apply ns0_refl].
    destruct (f_st (futs s4 f)); try apply ns0_refl. apply Kf.
Qed.

(* ---------------- Run: the structural run of TreeInv plus the delivery invariant and the potential ---------------- *)
Definition Run0 (l : list tid) (a b : st) : Prop := TreeInv.Run l a b /\ (Tree a -> DInv a -> DInv b).
Definition Run (l : list tid) (a b : st) : Prop := Run0 l a b /\ (Tree a -> pstep a b).

Lemma run_refl l s : Tree s -> Run l s s.
Proof.
  intros T. split; [|intros _; apply pstep_refl]. split; [|auto].
  split; [exact T|split; [apply creq_refl|apply rq_td_refl]].
Qed.

Lemma run_tree l a b : Run l a b -> Tree b.
Proof. intros H. apply H. Qed.

Lemma run0_trans l a b c : Run0 l a b -> Run0 l b c -> Run0 l a c.
Proof.
  intros [[Tb [Q1 R1]] D1] [[T [Q2 R2]] D2]. split.
  - split; [exact T|split; [eapply creq_trans; eauto|eapply rq_td_trans; eauto]].
  - intros Ta I. apply D2; [exact Tb|now apply D1].
Qed.

Lemma run_trans l a b c : Run l a b -> Run l b c -> Run l a c.
Proof.
  intros [R1 P1] [R2 P2]. split; [eapply run0_trans; eauto|].
  intros Ta. destruct R1 as [[Tb [Q1 _]] _].
  apply (pstep_trans a b c); [now apply P1|now apply P2|].
  intros t A. split; [exact (cq_alloc_t _ _ _ Q1 t A)|apply (cq_ids _ _ _ Q1 t A)].
Qed.

Lemma run0_n l a b : Tree a -> nstep0 l a b -> Run0 l a b.
Proof.
  intros T [K1 [K2 [K3 K4]]]. split.
  - eapply run_treq; eauto. split; [exact T|split; [apply creq_refl|apply rq_td_refl]].
  - intros _. apply K4. now apply Tree_TreeL.
Qed.

Lemma run_n l a b : Tree a -> nstep l a b -> Run l a b.
Proof. intros T [K P]. split; [now apply run0_n|exact P]. Qed.

Lemma run_lift l s0 s s' :
  Run l s0 s -> (TreeInv.Run l s0 s -> TreeInv.Run l s0 s') -> (Tree s -> DInv s -> DInv s') ->
  (Tree s -> pstep s s') -> Run l s0 s'.
Proof.
  intros [[R D] P] HR HD HP. split.
  - split; [now apply HR|]. intros T0 I0. apply HD; [apply R|now apply D].
  - intros T0. destruct R as [Ts [Q _]].
    apply (pstep_trans s0 s s'); [now apply P|now apply HP|].
    intros t A. split; [exact (cq_alloc_t _ _ _ Q t A)|apply (cq_ids _ _ _ Q t A)].
Qed.

Lemma run_new_scope l s0 s d sh : Run l s0 s -> Run l s0 (fst (new_scope s d sh)).
Proof.
  intros R. apply (run_lift l s0 s _ R); [apply TreeInv.run_new_scope|apply D_new_scope|apply P_new_scope].
Qed.

Lemma run_enter l s0 s c t :
  Run l s0 s -> In t l -> alloc_t s t -> k_tdran (tasks s t) = false -> alloc_s s c ->
  (s_active (scopes s c) = false ->
   forall t' g, alloc_t s t' -> k_group (tasks s t') = Some g -> k_hscope (tasks s t') = c ->
     t' = t /\ k_cur (tasks s t) = Some (g_scope (groups s g))) ->
  (s_active (scopes s c) = false ->
   forall g, k_group (tasks s t) = Some g -> g_scope (groups s g) <> c) ->
  Run l s0 (fst (scope_enter s c t)).
Proof.
  intros R Hin At Dt Ac Hh Hg. apply (run_lift l s0 s _ R).
  - intros R0. now apply TreeInv.run_enter.
  - intros T I. destruct (s_active (scopes s c)) eqn:Ic.
    + now rewrite (scope_enter_fail s c t Ic).
    + apply D_enter; auto.
  - intros T. destruct (s_active (scopes s c)) eqn:Ic.
    + rewrite (scope_enter_fail s c t Ic). apply pstep_refl.
    + apply P_enter; auto.
Qed.

Lemma run_exit l s0 s c t exc :
  Run l s0 s -> In t l ->
  (exit_ok s c t ->
     (forall x, ~ In x (s_children (scopes s c))) /\
     (forall t', In t' (s_tasks (scopes s c)) -> t' = t) /\
     (forall g, alloc_g s g -> g_scope (groups s g) = c -> g_tasks (groups s g) = [])) ->
  Run l s0 (fst (scope_exit s c t exc)).
Proof.
  intros R Hin Hside. apply (run_lift l s0 s _ R).
  - intros R0. now apply TreeInv.run_exit.
  - intros T I. destruct (exit_ok_dec s c t) as [Hok|Hno].
    + destruct (Hside Hok) as [NC [NT NG]]. now apply D_exit.
    + now rewrite (scope_exit_fail s c t exc Hno).
  - intros T. destruct (exit_ok_dec s c t) as [Hok|Hno].
    + destruct (Hside Hok) as [NC [NT NG]]. now apply P_exit.
    + rewrite (scope_exit_fail s c t exc Hno). apply pstep_refl.
Qed.

Lemma run_spawn l s0 s g sf :
  Run l s0 s -> In (ntask s) l -> alloc_g s g -> s_active (scopes s (g_scope (groups s g))) = true ->
  Run l s0 (fst (spawn_task s g sf)).
Proof.
  intros R Hin Ag Ha. apply (run_lift l s0 s _ R).
  - intros R0. now apply TreeInv.run_spawn.
  - intros T I. now apply D_spawn.
  - intros T. now apply P_spawn.
Qed.

Lemma run_group_new l s0 s : Run l s0 s -> Run l s0 (gnew_struct s).
Proof.
  intros R. apply (run_lift l s0 s _ R); [apply TreeInv.run_group_new| |apply P_group_new].
  intros T I. apply (DInv_dq (fst (new_scope s None false))); [now apply D_new_scope|].
  apply dq_same; [reflexivity|intros t; now split|auto].
Qed.

Lemma run_new_root l s0 s : Run l s0 s -> In (ntask s) l -> Run l s0 (root_struct s).
Proof.
  intros R Hin. apply (run_lift l s0 s _ R); [intros R0; now apply TreeInv.run_new_root| |apply P_new_root].
  intros T [Al Hd]. destruct (Tree_fresh_task s (ntask s) T (le_n _)) as [Fc _].
  assert (Ek : forall x, x <> ntask s -> tasks (root_struct s) x = tasks s x).
  { intros x Hx. unfold root_struct. cbn. unfold upd. destruct (Nat.eqb_spec x (ntask s)); [contradiction|reflexivity]. }
  split.
  - intros A. apply (alive_at_mono s _ A (Al A)); auto.
    intros [t [D [x [Hc Hv]]]]. destruct (Nat.eq_dec t (ntask s)) as [->|Hne].
    + exfalso. unfold root_struct in Hc. cbn in Hc. unfold upd in Hc. rewrite Nat.eqb_refl in Hc. discriminate.
    + rewrite (Ek t Hne) in D, Hc. exists t. split; [exact D|]. exists x. split; [exact Hc|].
      apply (vis_view s (root_struct s) A x); [intros y; now repeat split|exact Hv].
  - exact Hd.
Qed.

Lemma run_struct l a b : Run l a b -> TreeInv.Run l a b.
Proof. intros H. apply H. Qed.

(* ---------------- the generated domain ---------------- *)
Lemma in_seq1 x n : In x (seq1 n) <-> 1 <= x /\ x <= n.
Proof.
  induction n as [|n IH]; cbn; [lia|]. rewrite in_app_iff, IH. cbn. lia.
Qed.

(* c is neither a task group's own scope nor a task handle's scope *)
Definition pubs (s : st) (c : sid) : bool :=
  forallb (fun g => negb (Nat.eqb (g_scope (groups s g)) c)) (seq1 (pred (ngroup s))) &&
  forallb (fun t => match k_group (tasks s t) with
                    | Some _ => negb (Nat.eqb (k_hscope (tasks s t)) c)
                    | None => true
                    end) (seq1 (pred (ntask s))).

Lemma pubs_spec s c : pubs s c = true ->
  notg s c /\ (forall t g, alloc_t s t -> k_group (tasks s t) = Some g -> k_hscope (tasks s t) <> c).
Proof.
  unfold pubs. rewrite andb_true_iff, !forallb_forall. intros [H1 H2]. split.
  - intros g [A1 A2] E. assert (Hin : In g (seq1 (pred (ngroup s)))) by (apply in_seq1; lia).
    specialize (H1 g Hin). rewrite E, Nat.eqb_refl in H1. discriminate.
  - intros t g [A1 A2] G E. assert (Hin : In t (seq1 (pred (ntask s)))) by (apply in_seq1; lia).
    specialize (H2 t Hin). rewrite G, E, Nat.eqb_refl in H2. discriminate.
Qed.

Definition op_ok (s : st) (o : op) : bool :=
  match o with
  | AEnter t c => Nat.ltb 0 c && Nat.ltb c (nscope s) && pubs s c
  | AExit t c _ =>
      pubs s c ||
      negb (s_active (scopes s c) && opt_eqb (s_host (scopes s c)) t && opt_eqb (k_cur (tasks s t)) c)
  | AGroupEnter t g => Nat.ltb 0 g && Nat.ltb g (ngroup s)
  | AFinish t _ =>
      match k_group (tasks s t) with
      | Some _ => opt_eqb (k_cur (tasks s t)) (k_hscope (tasks s t))
      | None => match k_cur (tasks s t) with None => true | Some _ => false end
      end
  | ARun (HWake t f) => opt_eqb (k_waiter (tasks s t)) f
  | _ => true
  end.

Fixpoint ops_ok (s : st) (ops : list op) : bool :=
  match ops with
  | [] => true
  | o :: r => op_ok s o && ops_ok (fst (step s o)) r
  end.

Definition SInv (s : st) : Prop := (Tree s /\ Ctl s) /\ DInv s.

Lemma si_tree s : SInv s -> Tree s. Proof. intros H. apply H. Qed.
Lemma si_ctl s : SInv s -> Ctl s. Proof. intros H. apply H. Qed.
Lemma si_dinv s : SInv s -> DInv s. Proof. intros H. apply H. Qed.

(* the outcome of an op that is neither a native cancel nor an explicit uncancel *)
Definition ids (s s' : st) : Prop :=
  forall t, alloc_t s t -> alloc_t s' t /\ k_group (tasks s' t) = k_group (tasks s t).

Definition GStep (s s' : st) : Prop := (SInv s' /\ pstep s s') /\ ids s s'.

Lemma gstep_refl s : SInv s -> GStep s s.
Proof. intros I. split; [split; [exact I|apply pstep_refl]|intros t A; now split]. Qed.

Lemma ids_creq l s s' : creq l s s' -> ids s s'.
Proof. intros Q t A. split; [exact (cq_alloc_t _ _ _ Q t A)|apply (cq_ids _ _ _ Q t A)]. Qed.

Lemma ids_trans a b c : ids a b -> ids b c -> ids a c.
Proof. intros H1 H2 t A. destruct (H1 t A) as [Ab E1]. destruct (H2 t Ab) as [Ac E2]. split; [exact Ac|congruence]. Qed.

Lemma ids_treq a b : treq a b -> ids a b.
Proof. intros K t A. now apply same_alloc_group. Qed.

Lemma idle_spec s t : idle s t = true -> k_ctl (tasks s t) = CIdle /\ alloc_t s t.
Proof.
  unfold idle. destruct (k_ctl (tasks s t)); try discriminate.
  destruct (k_waiter (tasks s t)); [|discriminate].
  rewrite !andb_true_iff, !Nat.ltb_lt. intros [[_ H1] H2]. split; [reflexivity|split; assumption].
Qed.

Lemma not_tdran_of_ctl s t : Ctl s -> alloc_t s t -> k_ctl (tasks s t) <> CDone -> k_tdran (tasks s t) = false.
Proof.
  intros C A N. destruct (k_tdran (tasks s t)) eqn:D; [|reflexivity].
  destruct (c_ok _ C t A) as [_ [_ [_ [_ K]]]]. now apply K in D.
Qed.

(* final assembly for an op whose only touched task is the actor, which does not finish *)
Lemma sinv_actor0 s t s' :
  SInv s -> alloc_t s t -> k_ctl (tasks s t) <> CDone -> Run0 [t] s s' ->
  k_ctl (tasks s' t) <> CNew -> k_ctl (tasks s' t) <> CDone ->
  (forall g c e, k_ctl (tasks s' t) = CAexitCk g c e ->
     k_cur (tasks s' t) = Some c /\ k_waiter (tasks s' t) = None) ->
  (forall c, ctl_scope (k_ctl (tasks s' t)) = Some c -> alloc_s s' c /\ notg s' c) ->
  SInv s'.
Proof.
  intros [[T C] Dv] A N [[T' [Q R]] Dd] N1 N2 Hck Hsc.
  split; [split; [exact T'|]|now apply Dd].
  apply (Ctl_step [t] s s' C Q). intros t' [<-|[]].
  pose proof (cq_alloc_t _ _ _ Q t A) as A'.
  refine (conj _ (conj _ _)).
  - intros _. refine (conj _ (conj _ (conj _ (conj _ _)))).
    + intros E. contradiction.
    + exact Hck.
    + exact Hsc.
    + intros E. contradiction.
    + intros D. destruct (cq_ids _ _ _ Q t A) as [_ [_ E]]. rewrite E in D.
      rewrite (not_tdran_of_ctl s t C A N) in D. discriminate.
  - intros NA. contradiction.
  - intros Hin. apply R in Hin. destruct (c_td _ C t Hin) as [_ E]. contradiction.
Qed.

Lemma sinv_actor s t s' :
  SInv s -> alloc_t s t -> k_ctl (tasks s t) <> CDone -> Run [t] s s' ->
  k_ctl (tasks s' t) <> CNew -> k_ctl (tasks s' t) <> CDone ->
  (forall g c e, k_ctl (tasks s' t) = CAexitCk g c e ->
     k_cur (tasks s' t) = Some c /\ k_waiter (tasks s' t) = None) ->
  (forall c, ctl_scope (k_ctl (tasks s' t)) = Some c -> alloc_s s' c /\ notg s' c) ->
  GStep s s'.
Proof.
  intros I A N [R0 Pp] N1 N2 Hck Hsc.
  split; [split; [now apply (sinv_actor0 s t s')|apply Pp, I]|apply (ids_creq [t]), R0].
Qed.

Lemma park_ctl s t : k_ctl (tasks (park s t) t) = CIdle.
Proof. unfold park, new_fut. cbn. unfold upd. now rewrite Nat.eqb_refl. Qed.

Lemma ret_ctl s t r : k_ctl (tasks (fst (ret_to_puppet s t r)) t) = CIdle.
Proof. unfold ret_to_puppet. cbn [fst tasks set_running]. apply park_ctl. Qed.

Lemma sinv_ret s t s1 r :
  SInv s -> alloc_t s t -> k_ctl (tasks s t) <> CDone -> Run [t] s s1 -> GStep s (fst (ret_to_puppet s1 t r)).
Proof.
  intros I A N R.
  assert (R' : Run [t] s (fst (ret_to_puppet s1 t r))).
  { eapply run_trans; [exact R|]. apply run_n; [apply R|]. apply ns_ret. now left. }
  apply (sinv_actor s t _ I A N R'); rewrite ret_ctl; try discriminate.
Qed.

Lemma sinv_park s t s1 :
  SInv s -> alloc_t s t -> k_ctl (tasks s t) <> CDone -> Run [t] s s1 -> GStep s (set_running (park s1 t) None).
Proof.
  intros I A N R.
  assert (R' : Run [t] s (set_running (park s1 t) None)).
  { eapply run_trans; [exact R|]. apply run_n; [apply R|].
    eapply ns_trans; [apply ns_park; now left|apply ns_set_running]. }
  apply (sinv_actor s t _ I A N R'); cbn [tasks set_running]; rewrite park_ctl; try discriminate.
Qed.

(* an op that blocks with control state c *)
Lemma sinv_blocked s t s1 c :
  SInv s -> alloc_t s t -> k_ctl (tasks s t) <> CDone -> Run [t] s s1 ->
  c <> CNew -> c <> CDone ->
  (forall g x e, c = CAexitCk g x e -> k_cur (tasks s1 t) = Some x /\ k_waiter (tasks s1 t) = None) ->
  (forall x, ctl_scope c = Some x -> alloc_s s1 x /\ notg s1 x) ->
  GStep s (fst (blocked (set_ctl s1 t c))).
Proof.
  intros I A N R N1 N2 Hck Hsc. cbn [fst blocked].
  assert (R' : Run [t] s (set_running (set_ctl s1 t c) None)).
  { eapply run_trans; [exact R|]. apply run_n; [apply R|].
    eapply ns_trans; [apply ns_set_ctl; now left|apply ns_set_running]. }
  assert (E : tasks (set_running (set_ctl s1 t c) None) t = tk_ctl c (tasks s1 t)).
  { cbn. unfold upd. now rewrite Nat.eqb_refl. }
  apply (sinv_actor s t _ I A N R'); rewrite E; cbn [k_ctl tk_ctl k_cur k_waiter]; try assumption.
Qed.

Lemma run_begin s t : Tree s -> Run [t] s (begin_act s t).
Proof. intros T. apply run_n; [exact T|apply ns_begin_act; now left]. Qed.

(* ---------------- who waits on what is not touched by scope operations ---------------- *)
Definition wq (a b : st) : Prop := forall t, k_waiter (tasks b t) = k_waiter (tasks a t).

Lemma wq_refl a : wq a a. Proof. intros t; reflexivity. Qed.
Lemma wq_trans a b c : wq a b -> wq b c -> wq a c.
Proof. intros H1 H2 t. now rewrite (H2 t), (H1 t). Qed.
Lemma wq_kframe a b : kframe a b -> wq a b.
Proof. intros K t. apply (tcore_waiter _ _ (kf_tasks _ _ K t)). Qed.
Lemma wq_same a b : tasks b = tasks a -> wq a b.
Proof. intros E t. now rewrite E. Qed.

Lemma wq_cancel_timeout s c : wq s (cancel_timeout s c).
Proof. apply wq_same. unfold cancel_timeout. destruct (s_timeout (scopes s c)); reflexivity. Qed.

Lemma wq_scope_cancel s c b : wq s (scope_cancel s c b).
Proof.
  unfold scope_cancel. destruct (s_cancelled (scopes s c)); [apply wq_refl|].
  set (s2 := upd_scope (cancel_timeout s c) c _).
  assert (K : wq s s2) by (eapply wq_trans; [apply wq_cancel_timeout|apply wq_same; reflexivity]).
  destruct (s_host (scopes s2 c)); [|exact K].
  eapply wq_trans; [exact K|apply wq_kframe, kframe_deliver_top].
Qed.

Lemma wq_scope_timeout s c : wq s (scope_timeout s c).
Proof.
  unfold scope_timeout. destruct (s_deadline (scopes s c)); [|apply wq_refl].
  destruct (Z.leb z (now s)); [apply wq_scope_cancel|apply wq_same; reflexivity].
Qed.

Lemma wq_scope_enter s c t : wq s (fst (scope_enter s c t)).
Proof.
  unfold scope_enter. destruct (s_active (scopes s c)); [apply wq_refl|].
  set (s3 := match k_cur (tasks s t) with Some p => _ | None => _ end).
  assert (K3 : wq s s3).
  { unfold s3. intros t'. destruct (k_cur (tasks s t)); cbn; unfold upd; deq t' t; reflexivity. }
  assert (K5 : wq s (upd_scope (scope_timeout s3 c) c (sc_active true))).
  { eapply wq_trans; [exact K3|]. eapply wq_trans; [apply wq_scope_timeout|apply wq_same; reflexivity]. }
  destruct (s_cancelled _); cbn [fst]; [|exact K5].
  eapply wq_trans; [exact K5|apply wq_kframe, kframe_deliver_top].
Qed.

(* ---------------- entering a freshly allocated scope ---------------- *)
Lemma run_enter_fresh l s t d sh :
  Tree s -> In t l -> alloc_t s t -> k_tdran (tasks s t) = false ->
  Run l s (fst (scope_enter (fst (new_scope s d sh)) (nscope s) t)).
Proof.
  intros T Hin A D.
  assert (R1 : Run l s (fst (new_scope s d sh))) by (apply run_new_scope, run_refl, T).
  apply run_enter; try assumption.
  - unfold alloc_s. cbn. destruct (tr_cnt _ T) as [P _]. lia.
  - intros _ t' g A' G E. exfalso. destruct (tr_kgroup _ T t' g A' G) as [_ [[_ H] _]].
    change (k_hscope (tasks s t') = nscope s) in E. lia.
  - intros _ g G E. destruct (tr_kgroup _ T t g A G) as [Ag _].
    pose proof (tr_gscope _ T g Ag) as [_ H]. change (g_scope (groups s g) = nscope s) in E. lia.
Qed.

Lemma fresh_enter_facts s t d sh :
  Tree s ->
  let s2 := fst (scope_enter (fst (new_scope s d sh)) (nscope s) t) in
  k_cur (tasks s2 t) = Some (nscope s) /\ alloc_s s2 (nscope s) /\ notg s2 (nscope s) /\
  k_waiter (tasks s2 t) = k_waiter (tasks s t).
Proof.
  intros T s2. set (s1 := fst (new_scope s d sh)) in *. set (c := nscope s) in *.
  pose proof (Tree_new_scope s d sh T) as T1. fold s1 in T1.
  assert (Ic : s_active (scopes s1 c) = false).
  { unfold s1, c. rewrite tn_A by exact T. apply tn_inactive, T. }
  destruct (scope_enter_spec s1 c t Ic) as [_ K]. fold s2 in K.
  refine (conj _ (conj _ (conj _ _))).
  - rewrite (tq_cur _ _ K), (te_cur s1 c t T1 Ic). now rewrite Nat.eqb_refl.
  - apply (tq_alloc_s _ _ K). apply (te_alloc_s s1 c t T1 Ic). unfold alloc_s, s1, c. cbn.
    destruct (tr_cnt _ T) as [P _]. lia.
  - apply (tq_notg _ _ K). apply (te_notg s1 c t T1 Ic). intros g Ag E.
    pose proof (tr_gscope _ T g Ag) as [_ H]. change (g_scope (groups s g) = nscope s) in E. lia.
  - unfold s2. rewrite (wq_scope_enter s1 c t t). reflexivity.
Qed.

(* ---------------- TaskGroup.__aexit__ ---------------- *)
Lemma scope_exit_groups s c t exc : groups (fst (scope_exit s c t exc)) = groups s.
Proof.
  destruct (exit_ok_dec s c t) as [Hok|Hno].
  - destruct (scope_exit_spec s c t exc Hok) as [s6 [K E]]. rewrite E.
    change (groups (upd_scope s6 c (sc_host None))) with (groups s6).
    rewrite (kf_groups _ _ K), (kf_groups _ _ (kframe_restart _ _)).
    unfold exit_struct. destruct (s_parent (scopes s c)); cbn; unfold cancel_timeout;
      destruct (s_timeout _); reflexivity.
  - now rewrite (scope_exit_fail s c t exc Hno).
Qed.

Lemma alloc_g_dec s g : alloc_g s g \/ ~ alloc_g s g.
Proof. unfold alloc_g. lia. Qed.

Lemma run_exit_gscope l s t g exc :
  Tree s -> In t l -> g_tasks (groups s g) = [] ->
  Run l s (fst (scope_exit s (g_scope (groups s g)) t exc)).
Proof.
  intros T Hin E. apply run_exit; [now apply run_refl|exact Hin|]. intros Hok.
  destruct (alloc_g_dec s g) as [A|N].
  - now apply exit_side_group.
  - exfalso. rewrite (tr_gblank _ T g N) in Hok. destruct Hok as [Ha _].
    apply (tr_act_alloc _ T) in Ha. destruct Ha. lia.
Qed.

Lemma run_aexit_raise l s t g e :
  Tree s -> In t l -> g_tasks (groups s g) = [] -> Run l s (fst (aexit_raise s t g e)).
Proof.
  intros T Hin E. unfold aexit_raise.
  pose proof (run_exit_gscope l s t g (Some e) T Hin E) as R1.
  destruct (scope_exit s (g_scope (groups s g)) t (Some e)) as [s1 x]. cbn [fst] in R1.
  assert (R2 : Run l s (upd_group s1 g (gr_left true))).
  { eapply run_trans; [exact R1|]. apply run_n; [apply R1|]. apply ns_upd_group. intros k; reflexivity. }
  destruct x; cbn [fst]; try exact R2.
  eapply run_trans; [exact R2|]. apply run_n; [apply R2|]. apply ns_upd_task; [exact Hin|intros k; reflexivity|intros k; reflexivity|intros k; reflexivity].
Qed.

Lemma run_aexit_finish l s t g exc :
  Tree s -> In t l -> g_tasks (groups s g) = [] -> Run l s (fst (aexit_finish s t g exc)).
Proof.
  intros T Hin E. unfold aexit_finish.
  destruct (map snd (g_excs (groups s g))) as [|e0 es]; [destruct exc as [e|]|].
  - now apply run_aexit_raise.
  - pose proof (run_exit_gscope l s t g None T Hin E) as R1.
    destruct (scope_exit s (g_scope (groups s g)) t None) as [s1 x]. cbn [fst] in R1.
    assert (R2 : Run l s (upd_group s1 g (gr_left true))).
    { eapply run_trans; [exact R1|]. apply run_n; [apply R1|]. apply ns_upd_group. intros k; reflexivity. }
    destruct x; exact R2.
  - now apply run_aexit_raise.
Qed.

Lemma scope_ok_treq a b x : treq a b -> alloc_s a x /\ notg a x -> alloc_s b x /\ notg b x.
Proof. intros K [H1 H2]. split; [now apply (tq_alloc_s _ _ K)|now apply (tq_notg _ _ K)]. Qed.

Lemma run_actor_facts s0 s t :
  Ctl s0 -> alloc_t s0 t -> k_ctl (tasks s0 t) <> CDone -> Run [t] s0 s ->
  alloc_t s t /\ k_tdran (tasks s t) = false.
Proof.
  intros C A N [[[_ [Q _]] _] _]. split; [exact (cq_alloc_t _ _ _ Q t A)|].
  destruct (cq_ids _ _ _ Q t A) as [_ [_ E]]. rewrite E. now apply not_tdran_of_ctl.
Qed.

Lemma sinv_wof s0 t s g ws exc :
  SInv s0 -> alloc_t s0 t -> k_ctl (tasks s0 t) <> CDone -> Run [t] s0 s ->
  (forall w, ws = Some w -> alloc_s s w /\ notg s w) ->
  GStep s0 (fst (aexit_wait_or_finish s t g ws exc)).
Proof.
  intros I A N R Hw. pose proof (run_tree _ _ _ R) as T.
  destruct (run_actor_facts s0 s t (si_ctl _ I) A N R) as [As Ds].
  assert (Lt : In t [t]) by now left.
  unfold aexit_wait_or_finish. destruct (g_tasks (groups s g)) as [|c0 cs] eqn:Eg.
  - destruct ws as [w|].
    + destruct (Hw w eq_refl) as [Aw Nw].
      assert (R1 : Run [t] s (fst (scope_exit s w t None))).
      { apply run_exit; [now apply run_refl|exact Lt|]. intros Hok. now apply exit_side_pub. }
      pose proof (scope_exit_groups s w t None) as Eg1.
      destruct (scope_exit s w t None) as [s1 x]. cbn [fst] in *.
      assert (Eg' : g_tasks (groups s1 g) = []) by now rewrite Eg1.
      destruct x.
      * pose proof (run_aexit_finish [t] s1 t g exc (run_tree _ _ _ R1) Lt Eg') as R2.
        destruct (aexit_finish s1 t g exc) as [s2 r]. cbn [fst] in R2.
        apply (sinv_ret s0 t s2 r I A N). eapply run_trans; [exact R|]. eapply run_trans; eauto.
      * pose proof (run_aexit_finish [t] s1 t g exc (run_tree _ _ _ R1) Lt Eg') as R2.
        destruct (aexit_finish s1 t g exc) as [s2 r]. cbn [fst] in R2.
        apply (sinv_ret s0 t s2 r I A N). eapply run_trans; [exact R|]. eapply run_trans; eauto.
      * pose proof (run_aexit_raise [t] s1 t g e (run_tree _ _ _ R1) Lt Eg') as R2.
        destruct (aexit_raise s1 t g e) as [s2 r]. cbn [fst] in R2.
        apply (sinv_ret s0 t s2 r I A N). eapply run_trans; [exact R|]. eapply run_trans; eauto.
    + pose proof (run_aexit_finish [t] s t g exc T Lt Eg) as R2.
      destruct (aexit_finish s t g exc) as [s2 r]. cbn [fst] in R2.
      apply (sinv_ret s0 t s2 r I A N). eapply run_trans; eauto.
  - (* wait for the children *)
    assert (Tail : forall a w, Run [t] s0 a -> alloc_s a w /\ notg a w ->
              GStep s0 (fst (let '(s1, f) := new_fut a in
                         blocked (set_ctl (suspend_on (upd_group s1 g (gr_fut (Some f))) t f) t
                                          (CAexitWait g w exc))))).
    { intros a w Ra Ok. unfold new_fut. cbv zeta.
      set (a1 := mkSt _ _ _ _ _ _ _ _ _ _ _ _ _ _ _).
      set (a3 := suspend_on (upd_group a1 g (gr_fut (Some (nfut a)))) t (nfut a)).
      assert (K : nstep [t] a a3).
      { eapply ns_trans; [apply (ns_new_fut [t] a)|]. eapply ns_trans; [|apply ns_suspend_on; exact Lt].
        apply ns_upd_group. intros k; reflexivity. }
      apply (sinv_blocked s0 t a3); try assumption; try discriminate.
      - eapply run_trans; [exact Ra|]. apply run_n; [apply Ra|exact K].
      - intros w' E. inversion E; subst w'. apply (scope_ok_treq a a3); [apply K|exact Ok]. }
    destruct ws as [w|].
    + apply (Tail s w R). now apply Hw.
    + cbn [fst]. set (s2 := fst (scope_enter (fst (new_scope s None false)) (nscope s) t)).
      destruct (fresh_enter_facts s t None false T) as [_ [F1 [F2 _]]]. fold s2 in F1, F2.
      apply (Tail s2 (nscope s)); [|now split].
      eapply run_trans; [exact R|]. now apply run_enter_fresh.
Qed.

(* ---------------- puppet ops ---------------- *)
Section PuppetOp.
  Variables (s : st) (t : tid).
  Hypothesis I : SInv s.
  Hypothesis Hidle : idle s t = true.

  Let sb := begin_act s t.

  Lemma po_A : alloc_t s t. Proof. apply (idle_spec s t Hidle). Qed.
  Lemma po_N : k_ctl (tasks s t) <> CDone.
  Proof. destruct (idle_spec s t Hidle) as [E _]. rewrite E. discriminate. Qed.
  Lemma po_Rb : Run [t] s sb. Proof. apply run_begin, I. Qed.
  Lemma po_Tb : Tree sb. Proof. apply po_Rb. Qed.
  Lemma po_Lt : In t [t]. Proof. now left. Qed.
  Lemma po_facts : alloc_t sb t /\ k_tdran (tasks sb t) = false.
  Proof. apply (run_actor_facts s sb t (si_ctl _ I) po_A po_N po_Rb). Qed.
  Lemma po_waiter : k_waiter (tasks sb t) = None.
  Proof. unfold sb, begin_act. cbn. unfold upd. now rewrite Nat.eqb_refl. Qed.

  (* ops of the shape: begin; neutral steps; return to the puppet *)
  Lemma po_simple s1 r : nstep [t] sb s1 -> GStep s (fst (ret_to_puppet s1 t r)).
  Proof.
    intros K. apply (sinv_ret s t s1 r I po_A po_N).
    eapply run_trans; [apply po_Rb|]. apply run_n; [apply po_Tb|exact K].
  Qed.

  Lemma po_run s1 r : Run [t] sb s1 -> GStep s (fst (ret_to_puppet s1 t r)).
  Proof.
    intros R. apply (sinv_ret s t s1 r I po_A po_N). eapply run_trans; [apply po_Rb|exact R].
  Qed.

  Lemma po_blocked s1 c : Run [t] sb s1 -> c <> CNew -> c <> CDone ->
    (forall g x e, c = CAexitCk g x e -> k_cur (tasks s1 t) = Some x /\ k_waiter (tasks s1 t) = None) ->
    (forall x, ctl_scope c = Some x -> alloc_s s1 x /\ notg s1 x) ->
    GStep s (fst (blocked (set_ctl s1 t c))).
  Proof.
    intros R. apply (sinv_blocked s t s1 c I po_A po_N). eapply run_trans; [apply po_Rb|exact R].
  Qed.

  Lemma po_new_scope d sh : GStep s (fst (puppet_op s t (ANewScope t d sh))).
  Proof.
    unfold puppet_op. fold sb. cbn [new_scope]. unfold new_scope. cbv zeta.
    apply po_run. apply (run_new_scope [t] sb sb d sh). apply run_refl, po_Tb.
  Qed.

  Lemma po_enter c : op_ok s (AEnter t c) = true -> GStep s (fst (puppet_op s t (AEnter t c))).
  Proof.
    cbn [op_ok]. rewrite !andb_true_iff, !Nat.ltb_lt. intros [[P1 P2] P3].
    destruct (pubs_spec s c P3) as [Ng Nh].
    unfold puppet_op. fold sb.
    assert (R : Run [t] sb (fst (scope_enter sb c t))).
    { destruct po_facts as [Ab Db]. pose proof (treq_begin_act s t) as K. fold sb in K.
      apply (run_enter [t] sb sb c t (run_refl _ _ po_Tb) po_Lt Ab Db); [split; assumption| |].
      - intros _ t' g A' G E. exfalso. rewrite (tq_group _ _ K) in G. rewrite (tq_hscope _ _ K) in E.
        apply (Nh t' g); assumption.
      - intros _ g G E. rewrite (tq_group _ _ K) in G. rewrite (tq_gscope _ _ K) in E.
        destruct (tr_kgroup _ (si_tree _ I) t g po_A G) as [Ag _]. now apply (Ng g Ag). }
    destruct (scope_enter sb c t) as [s1 e]. cbn [fst] in R. now apply po_run.
  Qed.

  Lemma po_failat d sh : GStep s (fst (puppet_op s t (AFailAt t d sh))).
  Proof.
    unfold puppet_op. fold sb. unfold new_scope. cbv zeta.
    destruct po_facts as [Ab Db].
    pose proof (run_enter_fresh [t] sb t d sh po_Tb po_Lt Ab Db) as R. unfold new_scope in R. cbn [fst] in R.
    destruct (scope_enter _ (nscope sb) t) as [s2 e]. cbn [fst] in R. now apply po_run.
  Qed.

  Lemma po_exit c fl : op_ok s (AExit t c fl) = true -> GStep s (fst (puppet_op s t (AExit t c fl))).
  Proof.
    cbn [op_ok]. intros P3. unfold puppet_op. fold sb.
    assert (Side : exit_ok sb c t ->
              (forall x, ~ In x (s_children (scopes sb c))) /\
              (forall t', In t' (s_tasks (scopes sb c)) -> t' = t) /\
              (forall g, alloc_g sb g -> g_scope (groups sb g) = c -> g_tasks (groups sb g) = [])).
    { intros Hok. apply orb_true_iff in P3. destruct P3 as [P3|P3].
      - destruct (pubs_spec s c P3) as [Ng _].
        assert (Ngb : notg sb c) by (apply (tq_notg _ _ (treq_begin_act s t)); exact Ng).
        apply exit_side_pub; try assumption. apply po_Tb.
      - exfalso. destruct Hok as [Ha [Hh Hc]].
        change (s_active (scopes s c) = true) in Ha. change (s_host (scopes s c) = Some t) in Hh.
        assert (Hc' : k_cur (tasks s t) = Some c).
        { rewrite <- (tq_cur _ _ (treq_begin_act s t)). exact Hc. }
        rewrite Ha, Hh, Hc' in P3. cbn [opt_eqb] in P3. rewrite !Nat.eqb_refl in P3. discriminate. }
    assert (R : Run [t] sb (fst (scope_exit sb c t (k_held (tasks sb t))))).
    { apply run_exit; [apply run_refl, po_Tb|apply po_Lt|exact Side]. }
    clear Side P3.
    destruct (scope_exit sb c t (k_held (tasks sb t))) as [s1 x]. cbn [fst] in R.
    destruct x.
    - assert (R2 : Run [t] sb (upd_task s1 t (tk_held None))).
      { eapply run_trans; [exact R|]. apply run_n; [apply R|].
        apply ns_upd_task; [apply po_Lt|intros k; reflexivity|intros k; reflexivity|intros k; reflexivity]. }
      destruct (_ && _); now apply po_run.
    - now apply po_run.
    - now apply po_run.
  Qed.

  Lemma po_cancel c : GStep s (fst (puppet_op s t (ACancel t c))).
  Proof. unfold puppet_op. fold sb. apply po_simple. apply ns_scope_cancel. Qed.

  Lemma po_setshield c b : GStep s (fst (puppet_op s t (ASetShield t c b))).
  Proof.
    unfold puppet_op. fold sb. destruct (Bool.eqb _ b); [apply po_simple, ns_refl|].
    apply po_simple.
    split; [split; [|split; [|split]]|].
    - destruct b; [apply treq_upd_scope; intros k; reflexivity|].
      apply (treq_trans sb (upd_scope sb c (sc_shield false))); [apply treq_upd_scope; intros k; reflexivity|apply treq_restart].
    - destruct b; [apply tcb_same_tasks; reflexivity|].
      apply (tcb_trans [t] sb (upd_scope sb c (sc_shield false))); [apply tcb_same_tasks; reflexivity|apply tcb_kframe, kframe_restart].
    - destruct b; [apply rq_td_same; reflexivity|].
      apply (rq_td_trans sb (upd_scope sb c (sc_shield false))); [apply rq_td_same; reflexivity|apply rq_td_kframe, kframe_restart].
    - intros _ Ib. pose proof (D_set_shield sb c b po_Tb Ib) as H. destruct b; exact H.
    - intros Tb. pose proof (P_set_shield sb c b (Pok_Tree _ Tb)) as H. destruct b; exact H.
  Qed.

  Lemma po_setdeadline c d : GStep s (fst (puppet_op s t (ASetDeadline t c d))).
  Proof.
    unfold puppet_op. fold sb. apply po_simple.
    set (s1 := cancel_timeout (upd_scope sb c (sc_deadline d)) c).
    assert (K : nstep [t] sb s1).
    { eapply ns_trans; [|apply ns_cancel_timeout]. apply ns_upd_scope; intros k; reflexivity. }
    destruct (_ && _); [|exact K]. eapply ns_trans; [exact K|apply ns_scope_timeout].
  Qed.

  Lemma po_group_new : GStep s (fst (puppet_op s t (AGroupNew t))).
  Proof.
    unfold puppet_op. fold sb. unfold new_scope. cbv zeta.
    apply po_run. apply (run_group_new [t] sb sb). apply run_refl, po_Tb.
  Qed.
End PuppetOp.

Lemma creq_weaken l l' a b : incl l l' -> creq l a b -> creq l' a b.
Proof.
  intros Hi Q. constructor.
  - eapply tcb_weaken; [exact Hi|apply Q].
  - apply Q.
  - intros t A. destruct (cq_alloc_t' _ _ _ Q t A) as [H|H]; [now left|right; now apply Hi].
  - intros t x N. apply (cq_host _ _ _ Q). intros H. apply N, Hi, H.
  - intros t N. apply (cq_base _ _ _ Q). intros H. apply N, Hi, H.
  - apply Q.
  - apply Q.
  - intros t A. destruct (cq_td _ _ _ Q t A) as [H|H]; [now left|right; now apply Hi].
  - apply Q.
Qed.

Lemma run_weaken l l' a b : incl l l' -> Run l a b -> Run l' a b.
Proof.
  intros Hi [[[T [Q R]] D] P]. split; [|exact P]. split; [|exact D].
  split; [exact T|split; [now apply (creq_weaken l l')|exact R]].
Qed.

Lemma nstep_weaken l l' a b : incl l l' -> nstep l a b -> nstep l' a b.
Proof.
  intros Hi [[K1 [K2 K3]] P]. split; [|exact P]. split; [exact K1|split; [now apply (tcb_weaken l l')|exact K3]].
Qed.

Lemma spawn_child_facts sa g sf :
  Tree sa ->
  let s2 := fst (spawn_task sa g sf) in
  let tn := ntask sa in
  k_ctl (tasks s2 tn) = CNew /\ k_cur (tasks s2 tn) = Some (g_scope (groups sa g)) /\
  k_group (tasks s2 tn) = Some g /\ k_tdran (tasks s2 tn) = false /\
  base s2 tn = Some (g_scope (groups sa g)) /\ (forall x, s_host (scopes s2 x) <> Some tn).
Proof.
  intros T s2 tn. unfold s2. rewrite spawn_task_eq. cbn [fst].
  set (s1 := spawn_struct sa g sf).
  pose proof (kframe_restart s1 (Some (g_scope (groups sa g)))) as K.
  set (s3 := call_soon (restart s1 (Some (g_scope (groups sa g)))) (HStep (ntask sa))).
  assert (Et : tk_core (tasks s3 tn) = tk_core (tasks s1 tn)) by apply (kf_tasks _ _ K tn).
  assert (E1 : tasks s1 tn = mkTask CNew false None None false 0 0 (Some (g_scope (groups sa g))) None (Some g)
                                    (nscope sa) (nevent sa) None None sf None false).
  { unfold s1, spawn_struct, tn. cbn. unfold upd. now rewrite Nat.eqb_refl. }
  rewrite (tcore_ctl _ _ Et), (tcore_cur _ _ Et), (tcore_group _ _ Et), (tcore_tdran _ _ Et), E1.
  cbn [k_ctl k_cur k_group k_tdran].
  refine (conj eq_refl (conj eq_refl (conj eq_refl (conj eq_refl (conj _ _))))).
  - unfold base. rewrite (tcore_group _ _ Et), E1. cbn [k_group].
    change (groups s3) with (groups (restart s1 (Some (g_scope (groups sa g))))). rewrite (kf_groups _ _ K).
    unfold s1. now rewrite sp_gscope.
  - intros x. change (scopes s3 x) with (scopes (restart s1 (Some (g_scope (groups sa g)))) x).
    rewrite (core_host _ _ (kf_scopes _ _ K x)). unfold s1. rewrite sp_host by exact T.
    apply (Tree_fresh_task sa tn T (le_n _)).
Qed.

Lemma sinv_with_child s t sa g sf s' :
  SInv s -> alloc_t s t -> k_ctl (tasks s t) <> CDone -> Run [t] s sa ->
  alloc_g sa g -> s_active (scopes sa (g_scope (groups sa g))) = true ->
  nstep [t] (fst (spawn_task sa g sf)) s' ->
  k_ctl (tasks s' t) <> CNew -> k_ctl (tasks s' t) <> CDone ->
  (forall g c e, k_ctl (tasks s' t) = CAexitCk g c e ->
     k_cur (tasks s' t) = Some c /\ k_waiter (tasks s' t) = None) ->
  (forall c, ctl_scope (k_ctl (tasks s' t)) = Some c -> alloc_s s' c /\ notg s' c) ->
  GStep s s'.
Proof.
  intros [[T C] Dv] A N R Ag Ha K N1 N2 Hck Hsc.
  set (tn := ntask sa). set (s2 := fst (spawn_task sa g sf)) in *.
  pose proof (run_tree _ _ _ R) as Ta.
  assert (Asa : alloc_t sa t) by (apply R; exact A).
  assert (Hne : t <> tn) by (unfold alloc_t, tn in *; lia).
  assert (Hi : incl [t] [t; tn]) by (intros x [<-|[]]; now left).
  assert (R2 : Run [t; tn] sa s2).
  { apply run_spawn; [now apply run_refl|right; now left|exact Ag|exact Ha]. }
  assert (R' : Run [t; tn] s s').
  { eapply run_trans; [apply (run_weaken [t] _ _ _ Hi R)|]. eapply run_trans; [exact R2|].
    apply run_n; [apply R2|]. now apply (nstep_weaken [t]). }
  destruct R' as [[[T' [Q Rq]] Dd] Pp]. split; [|exact (ids_creq _ _ _ Q)]. split; [|now apply Pp].
  split; [split; [exact T'|]|now apply Dd].
  apply (Ctl_step [t; tn] s s' C Q). intros t' [<-|[<-|[]]].
  - pose proof (cq_alloc_t _ _ _ Q t A) as A'.
    refine (conj _ (conj _ _)).
    + intros _. refine (conj _ (conj Hck (conj Hsc (conj _ _)))).
      * intros E. contradiction.
      * intros E. contradiction.
      * intros D. destruct (cq_ids _ _ _ Q t A) as [_ [_ E]]. rewrite E in D.
        rewrite (not_tdran_of_ctl s t C A N) in D. discriminate.
    + intros NA. contradiction.
    + intros Hin. apply Rq in Hin. destruct (c_td _ C t Hin) as [_ E]. contradiction.
  - destruct (spawn_child_facts sa g sf Ta) as [F1 [F2 [F3 [F4 [F5 F6]]]]]. fold s2 tn in F1, F2, F3, F4, F5, F6.
    destruct K as [[K1 [K2 _]] _].
    assert (Et : tk_core (tasks s' tn) = tk_core (tasks s2 tn)).
    { apply K2. intros [E|[]]. now apply Hne. }
    assert (An : alloc_t s' tn).
    { apply (tq_alloc_t _ _ K1). unfold alloc_t, s2, tn. rewrite spawn_task_eq. cbn [fst].
      rewrite (tq_ntask _ _ (treq_call_soon _ _)), (kf_ntask _ _ (kframe_restart _ _)). cbn.
      destruct (tr_cnt _ Ta) as [_ [P _]]. lia. }
    refine (conj _ (conj _ _)).
    + intros _. unfold cok. rewrite (tcore_ctl _ _ Et), (tcore_cur _ _ Et), (tcore_group _ _ Et),
        (tcore_tdran _ _ Et), (tcore_waiter _ _ Et), F1, F2, F3, F4.
      refine (conj _ (conj _ (conj _ (conj _ _)))); try discriminate.
      intros _. rewrite (tq_base _ _ K1), F5. split; [reflexivity|]. split; [discriminate|].
      intros x. rewrite (tq_host _ _ K1). apply F6.
    + intros NA. contradiction.
    + intros Hin. apply Rq in Hin. destruct (c_td _ C tn Hin) as [An0 _].
      exfalso. assert (alloc_t sa tn) by (apply R; exact An0). unfold alloc_t, tn in *. lia.
Qed.

Lemma group_active_alloc s g : Tree s -> group_active s g = true ->
  alloc_g s g /\ s_active (scopes s (g_scope (groups s g))) = true.
Proof.
  intros T H. unfold group_active in H. apply andb_true_iff in H. destruct H as [_ Ha].
  split; [|exact Ha]. destruct (alloc_g_dec s g) as [A|N]; [exact A|exfalso].
  rewrite (tr_gblank _ T g N) in Ha. apply (tr_act_alloc _ T) in Ha. destruct Ha. lia.
Qed.

Section PuppetOp2.
  Variables (s : st) (t : tid).
  Hypothesis I : SInv s.
  Hypothesis Hidle : idle s t = true.

  Let sb := begin_act s t.
  Let A := po_A s t Hidle.
  Let N := po_N s t Hidle.
  Let Rb := po_Rb s t I.
  Let Tb := po_Tb s t I.
  Let Lt := po_Lt t.

  Lemma po_group_enter g : op_ok s (AGroupEnter t g) = true -> GStep s (fst (puppet_op s t (AGroupEnter t g))).
  Proof.
    cbn [op_ok]. rewrite andb_true_iff, !Nat.ltb_lt. intros [P1 P2].
    unfold puppet_op. fold sb. destruct (g_entered (groups sb g)).
    { apply (po_simple s t I Hidle). apply ns_refl. }
    set (s1 := upd_group sb g (gr_entered true)).
    assert (K1 : nstep [t] sb s1) by (apply ns_upd_group; intros k; reflexivity).
    assert (R1 : Run [t] sb s1) by (apply run_n; [exact Tb|exact K1]).
    pose proof (run_tree _ _ _ R1) as T1.
    destruct (po_facts s t I Hidle) as [Ab Db]. fold sb in Ab, Db.
    assert (Ag : alloc_g s1 g) by (split; assumption).
    set (gs := g_scope (groups s1 g)).
    assert (R2 : Run [t] s1 (fst (scope_enter s1 gs t))).
    { apply (run_enter [t] s1 s1 gs t (run_refl _ _ T1) Lt Ab Db).
      - apply (tr_gscope _ T1 g Ag).
      - intros _ t' g' A' G E. exfalso. destruct (tr_kgroup _ T1 t' g' A' G) as [_ [_ Ng]].
        now apply (Ng g Ag).
      - intros Ina g' G E. destruct (tr_kgroup _ T1 t g' Ab G) as [Ag' _].
        pose proof (tr_gscope_inj _ T1 g' g Ag' Ag E) as ->.
        pose proof (tr_member _ T1 t g Ab G Db) as M.
        pose proof (tr_gact _ T1 t g Ag M). fold gs in H. congruence. }
    destruct (scope_enter s1 gs t) as [s2 e]. cbn [fst] in R2.
    apply (po_run s t I Hidle). eapply run_trans; eauto.
  Qed.

  Lemma po_group_exit g : GStep s (fst (puppet_op s t (AGroupExit t g))).
  Proof.
    unfold puppet_op. fold sb.
    set (s1 := match k_held (tasks sb t) with
               | Some e => let a := scope_cancel sb (g_scope (groups sb g)) false in
                           if is_cancel e then a else upd_group a g (fun x => gr_excs (g_excs x ++ [(0, e)]) x)
               | None => sb end).
    assert (K1 : nstep [t] sb s1 /\ wq sb s1).
    { unfold s1. destruct (k_held (tasks sb t)) as [e|]; [|split; [apply ns_refl|apply wq_refl]].
      cbv zeta. destruct (is_cancel e).
      - split; [apply ns_scope_cancel|apply wq_scope_cancel].
      - split.
        + eapply ns_trans; [apply ns_scope_cancel|]. apply ns_upd_group. intros k; reflexivity.
        + eapply wq_trans; [apply wq_scope_cancel|apply wq_same; reflexivity]. }
    destruct K1 as [K1 W1].
    assert (R1 : Run [t] s s1).
    { eapply run_trans; [exact Rb|]. apply run_n; [exact Tb|exact K1]. }
    pose proof (run_tree _ _ _ R1) as T1.
    destruct (run_actor_facts s s1 t (si_ctl _ I) A N R1) as [A1 D1].
    destruct (g_tasks (groups s1 g)) eqn:Eg.
    - unfold new_scope. cbv zeta.
      pose proof (run_enter_fresh [t] s1 t None true T1 Lt A1 D1) as R2.
      destruct (fresh_enter_facts s1 t None true T1) as [F1 [F2 [F3 F4]]].
      unfold new_scope in R2, F1, F2, F3, F4. cbn [fst] in R2, F1, F2, F3, F4.
      set (s3 := fst (scope_enter _ (nscope s1) t)) in *.
      apply (sinv_blocked s t (bare_yield s3 t)); try assumption; try discriminate.
      + eapply run_trans; [exact R1|]. eapply run_trans; [exact R2|].
        apply run_n; [apply R2|apply ns_bare_yield].
      + intros g' x e E. inversion E; subst. split; [exact F1|].
        change (k_waiter (tasks s3 t) = None). rewrite F4, (W1 t). apply po_waiter.
      + intros x E. inversion E; subst x. split; [exact F2|exact F3].
    - apply (sinv_wof s t s1 g None _ I A N R1). intros w E. discriminate.
  Qed.

  Lemma po_spawn g : GStep s (fst (puppet_op s t (ASpawn t g))).
  Proof.
    unfold puppet_op. fold sb. destruct (group_active sb g) eqn:Ga; cbn [negb].
    2:{ apply (po_simple s t I Hidle). apply ns_refl. }
    destruct (group_active_alloc sb g Tb Ga) as [Ag Ha].
    pose proof (ret_ctl (fst (spawn_task sb g None)) t (RRet (snd (spawn_task sb g None)))) as Ec.
    destruct (spawn_task sb g None) as [s1 c] eqn:Es. cbn [fst snd] in Ec.
    apply (sinv_with_child s t sb g None); try assumption; rewrite ?Es; cbn [fst]; rewrite ?Ec; try discriminate.
    apply ns_ret. exact Lt.
  Qed.

  Lemma po_start g : GStep s (fst (puppet_op s t (AStart t g))).
  Proof.
    unfold puppet_op. fold sb. destruct (group_active sb g) eqn:Ga; cbn [negb].
    2:{ apply (po_simple s t I Hidle). apply ns_refl. }
    unfold new_fut. cbv zeta.
    set (s1 := mkSt _ _ _ _ _ _ _ _ _ _ _ _ _ _ _).
    assert (K1 : nstep [t] sb s1) by apply (ns_new_fut [t] sb).
    assert (R1 : Run [t] s s1).
    { eapply run_trans; [exact Rb|]. apply run_n; [exact Tb|exact K1]. }
    pose proof (run_tree _ _ _ R1) as T1.
    assert (Ga1 : group_active s1 g = true) by exact Ga.
    destruct (group_active_alloc s1 g T1 Ga1) as [Ag Ha].
    match goal with |- context [spawn_task s1 g ?sf] =>
      apply (sinv_with_child s t s1 g sf); try assumption; destruct (spawn_task s1 g sf) as [s2 c] eqn:Es end;
      cbn [fst blocked].
    - apply (ns_trans [t] s2 (suspend_on s2 t (nfut sb))); [apply ns_suspend_on; exact Lt|].
      apply (ns_trans [t] _ (set_ctl (suspend_on s2 t (nfut sb)) t (CStartWait g c (nfut sb))));
        [apply ns_set_ctl; exact Lt|apply ns_set_running].
    - cbn. unfold upd. rewrite Nat.eqb_refl. discriminate.
    - cbn. unfold upd. rewrite Nat.eqb_refl. discriminate.
    - cbn. unfold upd. rewrite Nat.eqb_refl. cbn. discriminate.
    - cbn. unfold upd. rewrite Nat.eqb_refl. cbn. discriminate.
  Qed.

  Lemma po_started v : GStep s (fst (puppet_op s t (AStarted t v))).
  Proof.
    unfold puppet_op. fold sb. destruct (k_startfut (tasks sb t)) as [f|].
    - destruct (f_st (futs sb f)); apply (po_simple s t I Hidle); try apply ns_refl.
      apply ns_fut_complete.
    - apply (po_simple s t I Hidle). apply ns_refl.
  Qed.

  Lemma po_handle_cancel h : GStep s (fst (puppet_op s t (AHandleCancel t h))).
  Proof.
    unfold puppet_op. fold sb. destruct (e_set _); apply (po_simple s t I Hidle);
      [apply ns_refl|apply ns_scope_cancel].
  Qed.

  Lemma po_handle_wait h : GStep s (fst (puppet_op s t (AHandleWait t h))).
  Proof.
    unfold puppet_op. fold sb.
    pose proof (ns_event_wait [t] sb t (k_hevent (tasks sb h)) Lt) as K.
    destruct (event_wait sb t (k_hevent (tasks sb h))) as [s1 f]. cbn [fst] in K.
    apply (sinv_blocked s t s1); try assumption; try discriminate.
    eapply run_trans; [exact Rb|]. apply run_n; [exact Tb|exact K].
  Qed.

  Lemma po_yield : GStep s (fst (puppet_op s t (AYield t))).
  Proof.
    unfold puppet_op. fold sb. apply (sinv_blocked s t (bare_yield sb t)); try assumption; try discriminate.
    eapply run_trans; [exact Rb|]. apply run_n; [exact Tb|apply ns_bare_yield].
  Qed.

  Lemma po_ckif : GStep s (fst (puppet_op s t (ACkIf t))).
  Proof.
    unfold puppet_op. fold sb. destruct (ckif_spins _ _ _).
    - apply (sinv_blocked s t (bare_yield sb t)); try assumption; try discriminate.
      eapply run_trans; [exact Rb|]. apply run_n; [exact Tb|apply ns_bare_yield].
    - apply (po_simple s t I Hidle). apply ns_refl.
  Qed.

  Lemma po_shieldck : GStep s (fst (puppet_op s t (AShieldCk t))).
  Proof.
    unfold puppet_op. fold sb. unfold new_scope. cbv zeta.
    destruct (po_facts s t I Hidle) as [Ab Db]. fold sb in Ab, Db.
    pose proof (run_enter_fresh [t] sb t None true Tb Lt Ab Db) as R2.
    destruct (fresh_enter_facts sb t None true Tb) as [F1 [F2 [F3 F4]]].
    unfold new_scope in R2, F1, F2, F3, F4. cbn [fst] in R2, F1, F2, F3, F4.
    set (s3 := fst (scope_enter _ (nscope sb) t)) in *.
    apply (sinv_blocked s t (bare_yield s3 t)); try assumption; try discriminate.
    - eapply run_trans; [exact Rb|]. eapply run_trans; [exact R2|].
      apply run_n; [apply R2|apply ns_bare_yield].
    - intros x E. inversion E; subst x. split; [exact F2|exact F3].
  Qed.

  Lemma po_sleep d : GStep s (fst (puppet_op s t (ASleep t d))).
  Proof.
    unfold puppet_op. fold sb. unfold new_fut. cbv zeta.
    set (s1 := mkSt _ _ _ _ _ _ _ _ _ _ _ _ _ _ _).
    assert (K1 : nstep [t] sb s1) by apply (ns_new_fut [t] sb).
    destruct d as [dt|].
    - unfold call_at. cbv zeta.
      set (s2 := mkSt _ _ _ _ _ _ _ _ _ _ _ _ _ _ _).
      assert (K2 : nstep [t] s1 s2) by apply (ns_call_at [t] s1 (now s1 + dt)%Z (TSleep (nfut sb))).
      apply (sinv_blocked s t (suspend_on s2 t (nfut sb))); try assumption; try discriminate.
      eapply run_trans; [exact Rb|]. apply run_n; [exact Tb|].
      eapply ns_trans; [exact K1|]. eapply ns_trans; [exact K2|apply ns_suspend_on; exact Lt].
    - apply (sinv_blocked s t (suspend_on s1 t (nfut sb))); try assumption; try discriminate.
      eapply run_trans; [exact Rb|]. apply run_n; [exact Tb|].
      eapply ns_trans; [exact K1|apply ns_suspend_on; exact Lt].
  Qed.

  Lemma po_hold n : GStep s (fst (puppet_op s t (AHold t n))).
  Proof.
    unfold puppet_op. fold sb. apply (po_simple s t I Hidle).
    apply ns_upd_task; [exact Lt|intros k; reflexivity|intros k; reflexivity|intros k; reflexivity].
  Qed.

  Lemma po_drop : GStep s (fst (puppet_op s t (ADrop t))).
  Proof.
    unfold puppet_op. fold sb. apply (po_simple s t I Hidle).
    apply ns_upd_task; [exact Lt|intros k; reflexivity|intros k; reflexivity|intros k; reflexivity].
  Qed.

  Lemma po_wrap n : GStep s (fst (puppet_op s t (AWrap t n))).
  Proof.
    unfold puppet_op. fold sb. apply (po_simple s t I Hidle).
    apply ns_upd_task; [exact Lt|intros k; reflexivity|intros k; reflexivity|intros k; reflexivity].
  Qed.

  Lemma po_uncancel : SInv (fst (puppet_op s t (AUncancel t))).
  Proof.
    unfold puppet_op. fold sb.
    set (r := RRet (pred (k_ncancel (tasks sb t)))).
    assert (R : Run0 [t] s (fst (ret_to_puppet (task_uncancel sb t) t r))).
    { eapply run0_trans; [apply Rb|]. eapply run0_trans; [apply run0_n; [exact Tb|apply ns0_task_uncancel]|].
      apply run0_n; [|apply (ns_ret [t] _ t r Lt)].
      eapply Tree_treq; [exact Tb|apply treq_task_uncancel]. }
    apply (sinv_actor0 s t _ I A N R); rewrite ret_ctl; try discriminate.
  Qed.

  Lemma po_effdeadline : GStep s (fst (puppet_op s t (AEffDeadline t))).
  Proof.
    unfold puppet_op. fold sb. cbn [fst]. apply (sinv_park s t sb I A N Rb).
  Qed.
End PuppetOp2.

(* ---------------- finishing a task ---------------- *)
Lemma hosts_nothing_of_base s t :
  Tree s -> alloc_t s t -> k_tdran (tasks s t) = false -> k_cur (tasks s t) = base s t ->
  forall x, s_host (scopes s x) <> Some t.
Proof.
  intros T A D E x Hx.
  destruct (tr_stack _ T t A D) as [l [S C]].
  assert (l = []).
  { rewrite E in S. inversion S as [E0|y l' Hh Ha S' E1]; [reflexivity|exfalso].
    unfold base in E1. destruct (k_group (tasks s t)) as [g|] eqn:G; [|discriminate].
    inversion E1; subst y. now apply (tr_ghost _ T t g A G D). }
  subst l. destruct (s_active (scopes s x)) eqn:Ea.
  - apply (C x Ea Hx).
  - rewrite (tr_host_inact _ T x Ea) in Hx. discriminate.
Qed.

Lemma finish_ctl s t o : k_ctl (tasks (finish_task s t o) t) = CDone.
Proof.
  unfold finish_task. cbn [tasks set_running]. destruct (k_group (tasks s t)); cbn; unfold upd;
    now rewrite Nat.eqb_refl.
Qed.

Lemma sinv_finish s t s1 o :
  SInv s -> alloc_t s t -> k_ctl (tasks s t) <> CDone -> Run [t] s s1 ->
  (forall x, s_host (scopes s1 x) <> Some t) -> GStep s (finish_task s1 t o).
Proof.
  intros [[T C] Dv] A N [[[T1 [Q R]] Dd] Pp] Hn. pose proof (treq_finish_task s1 t o) as K.
  split; [|apply (ids_trans s s1); [exact (ids_creq _ _ _ Q)|now apply ids_treq]].
  split.
  2:{ apply (pstep_trans s s1); [now apply Pp|apply pstep_inert, inert_finish_task|].
      intros x Ax. split; [exact (cq_alloc_t _ _ _ Q x Ax)|apply (cq_ids _ _ _ Q x Ax)]. }
  split; [split; [eapply Tree_treq; eauto|]|apply D_finish; now apply Dd].
  assert (Q' : creq [t] s (finish_task s1 t o)).
  { eapply creq_trans; [exact Q|]. apply creq_finish. now left. }
  apply (Ctl_step [t] s _ C Q'). intros t' [<-|[]].
  pose proof (cq_alloc_t _ _ _ Q' t A) as A'.
  refine (conj _ (conj _ _)).
  - intros _. unfold cok. rewrite finish_ctl.
    refine (conj _ (conj _ (conj _ (conj _ _)))); try discriminate.
    + intros _ x. rewrite (tq_host _ _ K). apply Hn.
    + intros _. reflexivity.
  - intros NA. contradiction.
  - intros _. split; [exact A'|apply finish_ctl].
Qed.

Lemma exit_ok_of_cur s c t :
  Tree s -> alloc_t s t -> k_tdran (tasks s t) = false -> k_cur (tasks s t) = Some c -> notg s c ->
  exit_ok s c t.
Proof.
  intros T A D E Ng. destruct (tr_stack _ T t A D) as [l [S _]]. rewrite E in S.
  inversion S as [E0|y l' Hh Ha S' E1]; subst.
  - exfalso. unfold base in E0. destruct (k_group (tasks s t)) as [g|] eqn:G; [|discriminate].
    inversion E0 as [E1]. destruct (tr_kgroup _ T t g A G) as [Ag _]. now apply (Ng g Ag).
  - repeat split; assumption.
Qed.

Lemma sinv_puppet_finish s t v :
  SInv s -> idle s t = true -> op_ok s (AFinish t v) = true -> GStep s (fst (puppet_finish s t v)).
Proof.
  intros I Hidle Hok. pose proof (po_A s t Hidle) as A. pose proof (po_N s t Hidle) as N.
  pose proof (po_Lt t) as Lt.
  unfold puppet_finish. set (sb := begin_act s t).
  set (raw := match k_held (tasks sb t) with Some e => OExc e | None => ORet v end).
  set (s1 := upd_task sb t (tk_final (Some raw))).
  assert (K1 : nstep [t] s s1).
  { eapply ns_trans; [apply ns_begin_act; exact Lt|]. apply ns_upd_task; [exact Lt|intros k; reflexivity|intros k; reflexivity|intros k; reflexivity]. }
  assert (R1 : Run [t] s s1) by (apply run_n; [apply I|exact K1]).
  assert (Eg : k_group (tasks sb t) = k_group (tasks s t)) by apply (tq_group _ _ (treq_begin_act s t)).
  cbn [op_ok] in Hok. rewrite Eg.
  destruct (k_group (tasks s t)) as [g|] eqn:G.
  - (* group child: record the outcome, set the event, leave the handle's scope *)
    apply opt_eqb_true in Hok.
    set (s2 := upd_task s1 t _). set (s3 := event_set s2 (k_hevent (tasks sb t))).
    assert (K3 : nstep [t] s s3).
    { eapply ns_trans; [exact K1|]. eapply ns_trans; [|apply ns_event_set].
      apply ns_upd_task; [exact Lt| | |]; intros k; destruct raw; reflexivity. }
    assert (R3 : Run [t] s s3) by (apply run_n; [apply I|exact K3]).
    pose proof (run_tree _ _ _ R3) as T3. destruct K3 as [[Q3 _] _].
    destruct (run_actor_facts s s3 t (si_ctl _ I) A N R3) as [A3 D3].
    assert (Eh : k_hscope (tasks sb t) = k_hscope (tasks s3 t)).
    { rewrite (tq_hscope _ _ Q3). apply (tq_hscope _ _ (treq_begin_act s t)). }
    rewrite Eh. set (hs := k_hscope (tasks s3 t)).
    assert (G3 : k_group (tasks s3 t) = Some g) by (rewrite (tq_group _ _ Q3); exact G).
    assert (C3 : k_cur (tasks s3 t) = Some hs).
    { rewrite (tq_cur _ _ Q3), Hok. unfold hs. now rewrite (tq_hscope _ _ Q3). }
    destruct (tr_kgroup _ T3 t g A3 G3) as [Ag [Ah Ngh]]. fold hs in Ah, Ngh.
    pose proof (exit_ok_of_cur s3 hs t T3 A3 D3 C3 Ngh) as Hx.
    assert (R4 : Run [t] s3 (fst (scope_exit s3 hs t (k_held (tasks sb t))))).
    { apply run_exit; [now apply run_refl|exact Lt|]. intros _. now apply exit_side_pub. }
    pose proof (treq_exit_result s3 hs t (k_held (tasks sb t)) Hx) as K4.
    destruct (scope_exit s3 hs t (k_held (tasks sb t))) as [s4 x]. cbn [fst] in *.
    assert (Hn : forall y, s_host (scopes s4 y) <> Some t).
    { pose proof (run_tree _ _ _ R4) as T4.
      assert (R04 : Run [t] s s4) by (eapply run_trans; eauto).
      destruct (run_actor_facts s s4 t (si_ctl _ I) A N R04) as [A4 D4].
      apply (hosts_nothing_of_base s4 t T4 A4 D4).
      rewrite (tq_cur _ _ K4), (tx_cur s3 hs t T3 Hx), Nat.eqb_refl.
      rewrite (tq_base _ _ K4), (tx_base s3 hs t T3 Hx). unfold base. rewrite G3.
      destruct Hx as [Ha _]. apply (tr_hpar _ T3 t g A3 G3 Ha). }
    assert (R04 : Run [t] s s4) by (eapply run_trans; eauto).
    destruct x; cbn [fst]; now apply (sinv_finish s t s4).
  - (* root task *)
    cbn [fst]. apply (sinv_finish s t s1 raw I A N R1).
    destruct (run_actor_facts s s1 t (si_ctl _ I) A N R1) as [A1 D1].
    apply (hosts_nothing_of_base s1 t (run_tree _ _ _ R1) A1 D1).
    destruct K1 as [[Q1 _] _]. rewrite (tq_cur _ _ Q1), (tq_base _ _ Q1). unfold base. rewrite G.
    destruct (k_cur (tasks s t)); [discriminate|reflexivity].
Qed.

(* ---------------- resumption ---------------- *)
Lemma incoming_task s t fo x :
  tasks (fst (incoming s t fo)) x =
  if Nat.eqb x t then tk_must false (k_msg (tasks s t)) (tk_waiter None (tasks s t)) else tasks s x.
Proof. unfold incoming. cbn. unfold upd. reflexivity. Qed.

Lemma incoming_ctl s t fo : k_ctl (tasks (fst (incoming s t fo)) t) = k_ctl (tasks s t).
Proof. rewrite incoming_task, Nat.eqb_refl. reflexivity. Qed.

Lemma incoming_none s t : snd (incoming s t None) = None \/ exists o, snd (incoming s t None) = Some (ECancel o).
Proof. unfold incoming. cbn. destruct (k_must (tasks s t)); [right; eauto|now left]. Qed.

Lemma scope_exit_no_raise s c t inc :
  exit_ok s c t -> (inc = None \/ exists o, inc = Some (ECancel o)) ->
  forall e, snd (scope_exit s c t inc) <> XRaise e.
Proof.
  intros [Ha [Hh Hc]] Hi e. unfold scope_exit.
  rewrite Ha. cbn [negb]. rewrite Hh, Hc. cbn [opt_eqb]. rewrite !Nat.eqb_refl. cbn [negb].
  destruct (_ && _).
  - destruct Hi as [->|[o ->]]; [discriminate|]. destruct o; cbn; discriminate.
  - discriminate.
Qed.

Lemma alloc_t_dec s t : alloc_t s t \/ ~ alloc_t s t.
Proof. unfold alloc_t. lia. Qed.

Lemma sinv_resume s0 t fo :
  SInv s0 -> (forall f, fo = Some f -> k_waiter (tasks s0 t) = Some f) -> GStep s0 (fst (resume s0 t fo)).
Proof.
  intros I Hfo. unfold resume.
  pose proof (incoming_ctl s0 t fo) as Ec.
  pose proof (ns_incoming [t] s0 t fo (po_Lt t)) as K0.
  assert (Hinc : fo = None -> snd (incoming s0 t fo) = None \/ exists o, snd (incoming s0 t fo) = Some (ECancel o)).
  { intros ->. apply incoming_none. }
  destruct (incoming s0 t fo) as [s inc]. cbn [fst snd] in *.
  destruct (k_ctl (tasks s t)) eqn:Ectl; try (now apply gstep_refl).
  all: assert (N : k_ctl (tasks s0 t) <> CDone) by (rewrite <- Ec; discriminate).
  all: assert (A : alloc_t s0 t)
         by (destruct (alloc_t_dec s0 t) as [H|H]; [exact H|exfalso; apply N; apply (c_unalloc _ (si_ctl _ I) t H)]).
  all: assert (R0 : Run [t] s0 s) by (apply run_n; [apply I|exact K0]).
  all: pose proof (run_tree _ _ _ R0) as T.
  all: destruct (run_actor_facts s0 s t (si_ctl _ I) A N R0) as [As Ds].
  all: pose proof (po_Lt t) as Lt.
  all: destruct (c_ok _ (si_ctl _ I) t A) as [Knew [Kck [Ksc [_ _]]]].
  all: destruct K0 as [[Q0 _] _].
  - (* CNew *)
    symmetry in Ec. destruct (Knew Ec) as [Ecur [Egrp Ehost]].
    set (s1 := upd_task s t (tk_started true)).
    assert (K1 : nstep [t] s s1) by (apply ns_upd_task; [exact Lt|intros k; reflexivity|intros k; reflexivity|intros k; reflexivity]).
    assert (R1 : Run [t] s0 s1).
    { eapply run_trans; [exact R0|]. apply run_n; [exact T|exact K1]. }
    pose proof (run_tree _ _ _ R1) as T1. destruct K1 as [[Q1 _] _].
    assert (Q01 : treq s0 s1) by (eapply treq_trans; eauto).
    destruct inc as [e|].
    + cbn [fst]. apply (sinv_finish s0 t s1 _ I A N R1). intros x. rewrite (tq_host _ _ Q01). apply Ehost.
    + cbn [fst]. destruct (run_actor_facts s0 s1 t (si_ctl _ I) A N R1) as [A1 D1].
      destruct (k_group (tasks s1 t)) as [g|] eqn:G.
      * set (hs := k_hscope (tasks s1 t)).
        destruct (tr_kgroup _ T1 t g A1 G) as [Ag [Ah Ngh]]. fold hs in Ah, Ngh.
        assert (R2 : Run [t] s1 (fst (scope_enter s1 hs t))).
        { apply (run_enter [t] s1 s1 hs t (run_refl _ _ T1) Lt A1 D1 Ah).
          - intros _ t' g' A' G' E.
            assert (t' = t).
            { apply (tr_hscope_inj _ T1 t' t A' A1); [congruence|congruence|exact E]. }
            subst t'. split; [reflexivity|]. rewrite G in G'. inversion G'; subst g'.
            rewrite (tq_cur _ _ Q01), Ecur, <- (tq_base _ _ Q01). unfold base. now rewrite G.
          - intros _ g' G' E. rewrite G in G'. inversion G'; subst g'. now apply (Ngh g Ag). }
        apply (sinv_park s0 t _ I A N). eapply run_trans; eauto.
      * now apply (sinv_park s0 t s1 I A N).
  - (* CIdle *)
    cbn [fst]. destruct inc as [e|]; [|now apply (sinv_park s0 t s I A N)].
    apply (sinv_park s0 t _ I A N). eapply run_trans; [exact R0|]. apply run_n; [exact T|].
    apply ns_upd_task; [exact Lt|intros k; reflexivity|intros k; reflexivity|intros k; reflexivity].
  - (* CYield *)
    destruct k as [| |c].
    + now apply (sinv_ret s0 t s _ I A N).
    + destruct inc as [e|]; [now apply (sinv_ret s0 t s _ I A N)|].
      destruct (ckif_spins _ _ _); [|now apply (sinv_ret s0 t s _ I A N)].
      cbn [fst blocked].
      assert (R1 : Run [t] s0 (set_running (bare_yield s t) None)).
      { eapply run_trans; [exact R0|]. apply run_n; [exact T|].
        eapply ns_trans; [apply ns_bare_yield|apply ns_set_running]. }
      apply (sinv_actor s0 t _ I A N R1); cbn [tasks set_running bare_yield call_soon set_ready];
        rewrite Ectl; try discriminate.
    + assert (Ok : alloc_s s c /\ notg s c).
      { apply (scope_ok_treq s0 s c Q0). apply Ksc. rewrite <- Ec. reflexivity. }
      assert (R1 : Run [t] s (fst (scope_exit s c t inc))).
      { apply run_exit; [now apply run_refl|exact Lt|]. intros Hok. apply exit_side_pub; try assumption. apply Ok. }
      destruct (scope_exit s c t inc) as [s1 x]. cbn [fst] in R1.
      destruct x; apply (sinv_ret s0 t s1 _ I A N); eapply run_trans; eauto.
  - (* CSleep *)
    apply (sinv_ret s0 t _ _ I A N). eapply run_trans; [exact R0|]. apply run_n; [exact T|apply ns_timer_cancel].
  - (* CAexitWait *)
    assert (Ok : alloc_s s ws /\ notg s ws).
    { apply (scope_ok_treq s0 s ws Q0). apply Ksc. rewrite <- Ec. reflexivity. }
    set (s1 := upd_group s g (gr_fut None)).
    assert (K1 : nstep [t] s s1) by (apply ns_upd_group; intros k; reflexivity).
    destruct inc as [e|].
    + set (s2 := upd_scope s1 ws (sc_shield true)).
      set (s3 := scope_cancel s2 (g_scope (groups s2 g)) false).
      assert (K3 : nstep [t] s s3).
      { eapply ns_trans; [exact K1|]. eapply ns_trans; [|apply ns_scope_cancel].
        apply ns_shield_true. }
      apply (sinv_wof s0 t s3); try assumption.
      * eapply run_trans; [exact R0|]. apply run_n; [exact T|exact K3].
      * intros w E. inversion E; subst w. apply (scope_ok_treq s s3); [apply K3|exact Ok].
    + apply (sinv_wof s0 t s1); try assumption.
      * eapply run_trans; [exact R0|]. apply run_n; [exact T|exact K1].
      * intros w E. inversion E; subst w. apply (scope_ok_treq s s1); [apply K1|exact Ok].
  - (* CAexitCk *)
    symmetry in Ec. destruct (Kck g sc exc Ec) as [Ecur Ew].
    assert (fo = None).
    { destruct fo as [f|]; [|reflexivity]. rewrite (Hfo f eq_refl) in Ew. discriminate. }
    specialize (Hinc H).
    assert (Ok : alloc_s s sc /\ notg s sc).
    { apply (scope_ok_treq s0 s sc Q0). apply Ksc. rewrite Ec. reflexivity. }
    assert (Hx : exit_ok s sc t).
    { apply exit_ok_of_cur; try assumption; [|apply Ok]. now rewrite (tq_cur _ _ Q0). }
    assert (R1 : Run [t] s (fst (scope_exit s sc t inc))).
    { apply run_exit; [now apply run_refl|exact Lt|]. intros _. apply exit_side_pub; try assumption. apply Ok. }
    pose proof (scope_exit_no_raise s sc t inc Hx Hinc) as Nr.
    destruct (scope_exit s sc t inc) as [s1 x]. cbn [fst snd] in *.
    assert (R01 : Run [t] s0 s1) by (eapply run_trans; eauto).
    destruct x as [| |e]; [| |exfalso; now apply (Nr e)].
    + apply (sinv_wof s0 t s1); try assumption. intros w E. discriminate.
    + destruct inc as [e|].
      * destruct Hinc as [Hi|[o Hi]]; [discriminate|]. inversion Hi; subst e. cbn [is_cancel].
        apply (sinv_wof s0 t _ g None); try assumption; [|intros w E; discriminate].
        eapply run_trans; [exact R01|]. apply run_n; [apply R01|apply ns_scope_cancel].
      * apply (sinv_wof s0 t s1); try assumption. intros w E. discriminate.
  - (* CStartWait *)
    destruct inc as [e|]; [|now apply (sinv_ret s0 t s _ I A N)].
    destruct (handle_pending s child); [|destruct (f_st (futs s _)); now apply (sinv_ret s0 t s _ I A N)].
    set (s1 := scope_cancel s (k_hscope (tasks s child)) false).
    assert (R1 : Run [t] s0 s1).
    { eapply run_trans; [exact R0|]. apply run_n; [exact T|apply ns_scope_cancel]. }
    pose proof (run_tree _ _ _ R1) as T1.
    destruct (run_actor_facts s0 s1 t (si_ctl _ I) A N R1) as [A1 D1].
    unfold new_scope. cbv zeta.
    pose proof (run_enter_fresh [t] s1 t None true T1 Lt A1 D1) as R2.
    destruct (fresh_enter_facts s1 t None true T1) as [_ [F2 [F3 _]]].
    unfold new_scope in R2, F2, F3. cbn [fst] in R2, F2, F3.
    set (s3 := fst (scope_enter _ (nscope s1) t)) in *.
    pose proof (ns_event_wait [t] s3 t (k_hevent (tasks s3 child)) Lt) as K4.
    destruct (event_wait s3 t (k_hevent (tasks s3 child))) as [s4 wf]. cbn [fst] in K4.
    apply (sinv_blocked s0 t s4); try assumption; try discriminate.
    + eapply run_trans; [exact R1|]. eapply run_trans; [exact R2|]. apply run_n; [apply R2|exact K4].
    + intros x E. inversion E; subst x. apply (scope_ok_treq s3 s4); [apply K4|now split].
  - (* CStartJoin *)
    assert (Ok : alloc_s s sc /\ notg s sc).
    { apply (scope_ok_treq s0 s sc Q0). apply Ksc. rewrite <- Ec. reflexivity. }
    set (s1 := event_unwait s (k_hevent (tasks s child)) f).
    assert (K1 : nstep [t] s s1) by apply ns_event_unwait.
    assert (R1 : Run [t] s0 s1).
    { eapply run_trans; [exact R0|]. apply run_n; [exact T|exact K1]. }
    assert (Ok1 : alloc_s s1 sc /\ notg s1 sc) by (apply (scope_ok_treq s s1); [apply K1|exact Ok]).
    assert (R2 : Run [t] s1 (fst (scope_exit s1 sc t inc))).
    { apply run_exit; [apply run_refl; apply R1|exact Lt|]. intros Hok. apply exit_side_pub; try assumption;
        [apply R1|apply Ok1]. }
    destruct (scope_exit s1 sc t inc) as [s2 x]. cbn [fst] in R2.
    assert (R02 : Run [t] s0 s2) by (eapply run_trans; eauto).
    destruct x; [| destruct inc |]; now apply (sinv_ret s0 t s2 _ I A N).
  - (* CHandleWait *)
    apply (sinv_ret s0 t _ _ I A N). eapply run_trans; [exact R0|]. apply run_n; [exact T|apply ns_event_unwait].
Qed.

(* ---------------- environment / scheduler ops ---------------- *)
Lemma sinv_env0 s s' : SInv s -> nstep0 [] s s' -> SInv s'.
Proof.
  intros [[T C] Dv] K. assert (R : Run0 [] s s') by (apply run0_n; assumption).
  destruct R as [[T' [Q _]] Dd]. split; [split; [exact T'|]|now apply Dd].
  apply (Ctl_step [] s s' C Q). intros t [].
Qed.

Lemma sinv_env s s' : SInv s -> nstep [] s s' -> GStep s s'.
Proof. intros I [K P]. split; [split; [now apply (sinv_env0 s)|apply P, I]|apply ids_treq, K]. Qed.

Lemma sinv_task_done s t :
  SInv s -> In (HTaskDone t) (ready s) ->
  GStep s (run_task_done (set_ready s (remove_first (HTaskDone t) (ready s))) t).
Proof.
  intros I Hin. destruct (c_td _ (si_ctl _ I) t Hin) as [A Ed].
  destruct (c_ok _ (si_ctl _ I) t A) as [_ [_ [_ [Kd _]]]]. specialize (Kd Ed).
  set (s1 := set_ready s (remove_first (HTaskDone t) (ready s))).
  assert (K1 : nstep [] s s1) by (apply ns_remove_first; intros c; discriminate).
  rewrite run_task_done_eq. change (tasks s1 t) with (tasks s t).
  destruct (k_group (tasks s t)) as [g|] eqn:G.
  2:{ apply (sinv_env s); [exact I|]. eapply ns_trans; [exact K1|apply ns_set_running]. }
  set (s2 := set_running s1 None).
  assert (K2 : nstep [] s s2) by (eapply ns_trans; [exact K1|apply ns_set_running]).
  pose proof (sinv_env s s2 I K2) as [[[[T2 C2] D2] P2] Id2].
  destruct K2 as [[Q2 [B2 [Rq2 _]]] _].
  assert (Hn2 : forall x, s_host (scopes s2 x) <> Some t) by (intros x; rewrite (tq_host _ _ Q2); apply Kd).
  set (s3 := td_struct s2 t g).
  pose proof (Tree_td s2 t g T2 Hn2) as T3. fold s3 in T3.
  set (s' := td_tail s3 (tasks s t) g t).
  pose proof (ns_td_tail [] s3 (tasks s t) g t) as K4. fold s' in K4. destruct K4 as [[Q4 [B4 [Rq4 Dq4]]] Pq4].
  (* fields of s3 relative to s2 *)
  assert (Eh3 : forall x, s_host (scopes s3 x) = s_host (scopes s2 x)).
  { intros x. unfold s3, td_struct. destruct (k_cur (tasks s2 t)) as [c|]; cbn; [|reflexivity].
    unfold upd. deq x c; reflexivity. }
  assert (Cn : ntask s3 = ntask s2 /\ nscope s3 = nscope s2 /\ ngroup s3 = ngroup s2 /\ ready s3 = ready s2).
  { unfold s3, td_struct. destruct (k_cur (tasks s2 t)); repeat split; reflexivity. }
  destruct Cn as [C1 [C2' [C3 C4]]].
  assert (Eg3 : forall x, g_scope (groups s3 x) = g_scope (groups s2 x)).
  { intros x. unfold s3, td_struct. destruct (k_cur (tasks s2 t)); cbn; unfold upd; deq x g; reflexivity. }
  assert (Et3 : forall x, x <> t -> tasks s3 x = tasks s2 x).
  { intros x Hx. unfold s3, td_struct. destruct (k_cur (tasks s2 t)); cbn; unfold upd;
      (deq x t; [contradiction|reflexivity]). }
  assert (Egr3 : forall x, k_group (tasks s3 x) = k_group (tasks s2 x)).
  { intros x. unfold s3, td_struct. destruct (k_cur (tasks s2 t)); cbn; unfold upd; deq x t; reflexivity. }
  assert (Ett : k_ctl (tasks s3 t) = CDone).
  { assert (E2 : k_ctl (tasks s2 t) = CDone) by (rewrite (tcore_ctl _ _ (B2 t (fun H => H))); exact Ed).
    unfold s3, td_struct. destruct (k_cur (tasks s2 t)); cbn [tasks upd_task set_tasks upd_group set_groups upd_scope set_scopes];
      unfold upd; rewrite Nat.eqb_refl; exact E2. }
  assert (Id3 : ids s2 s').
  { intros x Ax. split; [unfold alloc_t in *; now rewrite (tq_ntask _ _ Q4), C1|].
    rewrite (tq_group _ _ Q4). apply Egr3. }
  split; [|now apply (ids_trans s s2)].
  split.
  2:{ (* the potential *)
      apply (pstep_trans s s2); [exact P2| |intros x Ax; now apply same_alloc_group].
      apply (pstep_trans s2 s3); [apply pstep_inert, inert_td_struct|now apply Pq4|].
      intros x Ax. split; [unfold alloc_t in *; now rewrite C1|apply Egr3]. }
  split; [split; [eapply Tree_treq; eauto|]|apply Dq4; [now apply Tree_TreeL|now apply D_td_struct]].
  apply (Ctl_step0 [t] s s' (si_ctl _ I)).
  - constructor.
    + intros x Hx. assert (x <> t) by (intros ->; apply Hx; now left).
      rewrite (B4 x (fun H => H)), (Et3 x H). apply (B2 x (fun H => H)).
    + intros x. unfold alloc_t. now rewrite (tq_ntask _ _ Q4), C1, (tq_ntask _ _ Q2).
    + intros x. unfold alloc_t. rewrite (tq_ntask _ _ Q4), C1, (tq_ntask _ _ Q2). now left.
    + intros x y _. now rewrite (tq_host _ _ Q4), Eh3, (tq_host _ _ Q2).
    + intros x Hx _. assert (x <> t) by (intros ->; apply Hx; now left).
      rewrite (tq_base _ _ Q4). unfold base. rewrite (Et3 x H).
      rewrite (tq_group _ _ Q2). destruct (k_group (tasks s x)); [|reflexivity].
      now rewrite Eg3, (tq_gscope _ _ Q2).
    + intros x. unfold alloc_s. now rewrite (tq_nscope _ _ Q4), C2', (tq_nscope _ _ Q2).
    + intros x _ Nx. apply (tq_notg _ _ Q4). intros y Hy. rewrite Eg3, (tq_gscope _ _ Q2). apply Nx.
      unfold alloc_g in *. now rewrite C3, (tq_ngroup _ _ Q2) in Hy.
    + intros x Hx. left. apply Rq4 in Hx. rewrite C4 in Hx. now apply Rq2.
  - intros t' [<-|[]].
    assert (Ec : k_ctl (tasks s' t) = CDone).
    { rewrite (tcore_ctl _ _ (B4 t (fun H => H))). exact Ett. }
    assert (A' : alloc_t s' t).
    { unfold alloc_t. now rewrite (tq_ntask _ _ Q4), C1, (tq_ntask _ _ Q2). }
    refine (conj _ (conj _ _)).
    + intros _. unfold cok. rewrite Ec. refine (conj _ (conj _ (conj _ (conj _ _)))); try discriminate.
      * intros _ x. rewrite (tq_host _ _ Q4), Eh3. apply Hn2.
      * intros _. reflexivity.
    + intros NA. contradiction.
    + intros _. split; [exact A'|exact Ec].
Qed.

Lemma ns_run_deliver s c :
  nstep [] s (set_running (deliver_top (set_running (set_ready s (remove_first (HDeliver c) (ready s))) None) c) None).
Proof.
  set (s1 := set_running (set_ready s (remove_first (HDeliver c) (ready s))) None).
  assert (K1 : treq s s1) by (eapply treq_trans; [apply treq_set_ready|apply treq_set_running]).
  pose proof (kframe_deliver_top s1 c) as K2.
  split; [split; [|split; [|split]]|].
  - eapply treq_trans; [exact K1|]. eapply treq_trans; [apply kframe_treq, K2|apply treq_set_running].
  - eapply tcb_trans; [apply (tcb_same_tasks [] s s1); reflexivity|].
    eapply tcb_trans; [apply tcb_kframe, K2|apply tcb_same_tasks; reflexivity].
  - eapply rq_td_trans; [apply (rq_td_remove_first s (HDeliver c))|].
    eapply rq_td_trans; [apply (rq_td_same _ s1); reflexivity|].
    eapply rq_td_trans; [apply rq_td_kframe, K2|apply rq_td_same; reflexivity].
  - intros T I. apply (DInv_dq (deliver_top s1 c)); [now apply D_run_deliver|apply dq_set_running].
  - intros T. apply (pstep_trans s (deliver_top s1 c)); [apply P_run_deliver; now apply Pok_Tree|
                                                          apply pstep_inert, inert_set_running|].
    intros x Ax. apply same_alloc_group; [|exact Ax]. eapply treq_trans; [exact K1|apply kframe_treq, K2].
Qed.

Lemma gstep_after s s1 s2 : SInv s -> nstep [] s s1 -> GStep s1 s2 -> GStep s s2.
Proof.
  intros I K [[I2 P2] D2]. destruct (sinv_env s s1 I K) as [[I1 P1] D1]. split; [|now apply (ids_trans s s1)].
  split; [exact I2|]. apply (pstep_trans s s1 s2 P1 P2). exact D1.
Qed.

Lemma sinv_run_handle s h : SInv s -> op_ok s (ARun h) = true -> GStep s (fst (run_handle s h)).
Proof.
  intros I Hok. unfold run_handle.
  destruct (existsb (handle_eqb h) (ready s)) eqn:Ex; cbn [negb]; [|now apply gstep_refl].
  apply existsb_handle in Ex.
  set (s1 := set_ready s (remove_first h (ready s))).
  destruct h as [t|t f|c|t|f tm|c tm].
  - assert (K1 : nstep [] s s1) by (apply ns_remove_first; intros c; discriminate).
    apply (gstep_after s s1 _ I K1). apply (sinv_resume s1 t None (proj1 (proj1 (sinv_env s s1 I K1)))). intros f E. discriminate.
  - assert (K1 : nstep [] s s1) by (apply ns_remove_first; intros c; discriminate).
    apply (gstep_after s s1 _ I K1). apply (sinv_resume s1 t (Some f) (proj1 (proj1 (sinv_env s s1 I K1)))).
    intros f' E. inversion E; subst f'. cbn [op_ok] in Hok. apply opt_eqb_true in Hok. exact Hok.
  - cbn [fst]. apply (sinv_env s _ I). apply ns_run_deliver.
  - cbn [fst]. now apply sinv_task_done.
  - assert (K1 : nstep [] s s1) by (apply ns_remove_first; intros c; discriminate).
    cbn [fst]. apply (gstep_after s s1 _ I K1). apply (sinv_env s1 _ (proj1 (proj1 (sinv_env s s1 I K1)))). apply ns_fut_complete.
  - assert (K1 : nstep [] s s1) by (apply ns_remove_first; intros c0; discriminate).
    cbn [fst]. apply (gstep_after s s1 _ I K1). apply (sinv_env s1 _ (proj1 (proj1 (sinv_env s s1 I K1)))).
    eapply ns_trans; [apply ns_set_running|]. eapply ns_trans; [|apply ns_set_running]. apply ns_scope_timeout.
Qed.

Lemma sinv_new_root s : SInv s -> GStep s (fst (new_root s)).
Proof.
  intros [[T C] Dv]. unfold new_root. cbn [fst]. fold (root_struct s).
  set (t := ntask s). set (s1 := root_struct s).
  assert (Lt : In t [t]) by now left.
  assert (R1 : Run [t] s s1) by (apply run_new_root; [now apply run_refl|exact Lt]).
  assert (R2 : Run [t] s (set_running (park s1 t) None)).
  { eapply run_trans; [exact R1|]. apply run_n; [apply R1|].
    eapply ns_trans; [apply ns_park; exact Lt|apply ns_set_running]. }
  destruct R2 as [[[T' [Q Rq]] Dd] Pp]. split; [|exact (ids_creq _ _ _ Q)]. split; [|now apply Pp].
  split; [split; [exact T'|]|now apply Dd].
  apply (Ctl_step [t] s _ C Q). intros t' [<-|[]].
  assert (Ec : k_ctl (tasks (set_running (park s1 t) None) t) = CIdle) by apply park_ctl.
  assert (Ed : k_tdran (tasks (set_running (park s1 t) None) t) = false).
  { pose proof (treq_trans _ _ _ (treq_park s1 t) (treq_set_running (park s1 t) None)) as K.
    rewrite (tq_tdran _ _ K). unfold s1, root_struct, t. cbn. unfold upd. now rewrite Nat.eqb_refl. }
  refine (conj _ (conj _ _)).
  - intros _. unfold cok. rewrite Ec, Ed. refine (conj _ (conj _ (conj _ (conj _ _)))); discriminate.
  - intros NA. exfalso. apply NA.
    pose proof (treq_trans _ _ _ (treq_park s1 t) (treq_set_running (park s1 t) None)) as K.
    unfold alloc_t. rewrite (tq_ntask _ _ K). unfold s1, root_struct, t. cbn [ntask].
    destruct (tr_cnt _ T) as [_ [P _]]. lia.
  - intros Hin. apply Rq in Hin. destruct (c_td _ C t Hin) as [[_ A0] _]. unfold t in A0. lia.
Qed.

(* ops other than the two outside influences on the cancel counter *)
Definition quiet (o : op) : Prop :=
  match o with ANativeCancel _ | AUncancel _ => False | _ => True end.

Theorem step_g s o : SInv s -> op_ok s o = true -> quiet o -> GStep s (fst (step s o)).
Proof.
  intros I Hok Hq. unfold step. destruct (actor o) as [t|] eqn:Ea.
  - destruct (idle s t) eqn:Hidle; cbn [negb]; [|now apply gstep_refl].
    destruct o; inversion Ea; subst; try (now apply gstep_refl).
    + apply po_new_scope; assumption.
    + apply po_enter; assumption.
    + apply po_exit; assumption.
    + apply po_cancel; assumption.
    + apply po_setshield; assumption.
    + apply po_setdeadline; assumption.
    + apply po_group_new; assumption.
    + apply po_group_enter; assumption.
    + apply po_group_exit; assumption.
    + apply po_spawn; assumption.
    + apply po_start; assumption.
    + apply po_started; assumption.
    + apply po_handle_cancel; assumption.
    + apply po_handle_wait; assumption.
    + apply po_yield; assumption.
    + apply po_ckif; assumption.
    + apply po_shieldck; assumption.
    + apply po_sleep; assumption.
    + apply po_hold; assumption.
    + apply po_drop; assumption.
    + apply po_wrap; assumption.
    + apply sinv_puppet_finish; assumption.
    + destruct Hq.
    + apply po_effdeadline; assumption.
    + apply po_failat; assumption.
  - destruct o; try discriminate; try (now apply gstep_refl).
    + now apply sinv_new_root.
    + destruct Hq.
    + cbn [fst]. apply (sinv_env s _ I).
      eapply ns_trans; [apply ns_set_running|]. eapply ns_trans; [|apply ns_set_running]. apply ns_scope_cancel.
    + now apply sinv_run_handle.
    + destruct (Z.ltb dt 0); [now apply gstep_refl|]. cbn [fst]. apply (sinv_env s _ I). apply ns_tick.
Qed.

Theorem step_inv s o : SInv s -> op_ok s o = true -> SInv (fst (step s o)).
Proof.
  intros I Hok. destruct o; try (exact (proj1 (proj1 (step_g s _ I Hok Logic.I)))).
  - (* AUncancel *)
    unfold step. cbn [actor]. destruct (idle s t) eqn:Hidle; cbn [negb]; [|exact I]. now apply po_uncancel.
  - (* ANativeCancel *)
    cbn [step actor fst]. apply (sinv_env0 s _ I). apply ns0_task_cancel.
Qed.

(* ---------------- every reachable state of the generated domain ---------------- *)
Definition reach (s : st) : Prop := exists ops, s = final step init ops.
Definition reach_ok (s : st) : Prop := exists ops, ops_ok init ops = true /\ s = final step init ops.

Lemma reach_ok_reach s : reach_ok s -> reach s.
Proof. intros [ops [_ E]]. now exists ops. Qed.

Lemma Tree_init : Tree init.
Proof.
  constructor; cbn; try (intros; discriminate); try (intros; exfalso; unfold alloc_t, alloc_g, alloc_s in *; cbn in *; lia).
  - repeat split; lia.
  - intros; reflexivity.
  - intros p x. split; [intros []|intros [H _]; discriminate].
  - intros x t. split; [intros []|discriminate].
  - intros p. constructor.
  - intros x. constructor.
  - exists (fun _ => 0). intros; discriminate.
  - intros g _. reflexivity.
Qed.

Lemma Ctl_init : Ctl init.
Proof.
  constructor.
  - intros t [A B]. cbn in B. lia.
  - intros t _. reflexivity.
  - intros t [].
Qed.

Lemma DInv_init : DInv init.
Proof. split; intros c; cbn; discriminate. Qed.

Lemma sinv_init : SInv init.
Proof. split; [split; [apply Tree_init|apply Ctl_init]|apply DInv_init]. Qed.

Lemma sinv_final ops : forall s, SInv s -> ops_ok s ops = true -> SInv (final step s ops).
Proof.
  induction ops as [|o r IH]; intros s I H; cbn in *; [exact I|].
  apply andb_true_iff in H. destruct H as [H1 H2]. apply IH; [now apply step_inv|exact H2].
Qed.

Theorem reach_sinv s : reach_ok s -> SInv s.
Proof. intros [ops [H ->]]. apply sinv_final; [apply sinv_init|exact H]. Qed.

Theorem reach_tree s : reach_ok s -> Tree s.
Proof. intros H. apply (reach_sinv s H). Qed.

(* I4: in every reachable state of the domain, a cancelled hosted scope that a live task still reaches has its
   delivery callback scheduled *)
Theorem reach_dinv s : reach_ok s -> DInv s.
Proof. intros H. apply (reach_sinv s H). Qed.

(* prefixes of a run in the domain are in the domain *)
Lemma reach_ok_step s o : reach_ok s -> op_ok s o = true -> reach_ok (fst (step s o)).
Proof.
  intros [ops [H ->]] Ho. exists (ops ++ [o]). split.
  - clear - H Ho. revert H Ho. generalize init. induction ops as [|a r IH]; intros s0 H Ho; cbn in *.
    + now rewrite Ho.
    + apply andb_true_iff in H. destruct H as [H1 H2]. rewrite H1. cbn. now apply IH.
  - now rewrite final_app.
Qed.
