(* The mid-step predicate Run, scope enter/exit specifications and the per-operation preservation lemmas. *)
From AV Require Import Base Machine GroupInv GroupInv2 GroupInv3 GroupInv4 GroupInv5.

Definition Run (t : tid) (s : st) : Prop :=
  MInv s /\ running s = Some t /\ k_final (tasks s t) = None.

Definition owns (s : st) (t : tid) (c : sid) : Prop :=
  s_active (scopes s c) = true /\ s_host (scopes s c) = Some t /\ k_cur (tasks s t) = Some c /\ c < nscope s.

Lemma kframe_final C T s s' t : kframe C T s s' -> k_final (tasks s' t) = k_final (tasks s t).
Proof. intros F. pose proof (tview_inv _ _ (fr_tv _ _ _ _ F t)). tauto. Qed.

Lemma Run_kstar C T t s s' : kstar C T s s' -> ksafe C T s -> Run t s -> Run t s'.
Proof.
  intros H S [M [Hr Hf]]. pose proof (kframe_kstar _ _ _ _ H) as F.
  refine (conj (M_kstar _ _ _ _ H S M) (conj _ _)).
  - now rewrite (fr_running _ _ _ _ F).
  - now rewrite (kframe_final _ _ _ _ t F).
Qed.

Lemma Run_kstar_none t s s' : kstar none_s none_t s s' -> Run t s -> Run t s'.
Proof. intros H. apply (Run_kstar _ _ t _ _ H), ksafe_none. Qed.

Lemma owns_kframe C T s s' t c : kframe C T s s' -> ~ C c -> ~ T t -> owns s t c -> owns s' t c.
Proof.
  intros F HC HT [H1 [H2 [H3 H4]]]. destruct (fr_sc _ _ _ _ F c HC) as [E1 [E2 _]].
  unfold owns. rewrite E1, E2, (fr_cur _ _ _ _ F t HT), (fr_nscope _ _ _ _ F). auto.
Qed.

Lemma owns_kstar_none s s' t c : kstar none_s none_t s s' -> owns s t c -> owns s' t c.
Proof. intros H. apply (owns_kframe _ _ _ _ _ _ (kframe_kstar _ _ _ _ H)); intros []. Qed.

(* ---------------- scope_enter / scope_exit ---------------- *)
Lemma scope_enter_active s c t : s_active (scopes s c) = true -> scope_enter s c t = (s, Some ERuntime).
Proof. intros H. unfold scope_enter. now rewrite H. Qed.

Lemma scope_exit_cases s c t exc :
  scope_exit s c t exc = (s, XRaise ERuntime) \/
  (s_active (scopes s c) = true /\ s_host (scopes s c) = Some t /\ k_cur (tasks s t) = Some c).
Proof.
  unfold scope_exit.
  destruct (s_active (scopes s c)) eqn:Ea; cbn [negb]; [|left; reflexivity].
  destruct (s_host (scopes s c)) as [h|] eqn:Eh; cbn [opt_eqb negb]; [|left; reflexivity].
  destruct (Nat.eqb_spec h t) as [->|Hne]; cbn [negb]; [|left; reflexivity].
  destruct (k_cur (tasks s t)) as [x|] eqn:Ec; cbn [opt_eqb negb]; [|left; reflexivity].
  destruct (Nat.eqb_spec x c) as [->|Hne]; cbn [negb]; [|left; reflexivity].
  right. auto.
Qed.

Lemma ksafe_enter s c t : CInv s -> running s = Some t -> s_active (scopes s c) = false -> ksafe (eq c) (eq t) s.
Proof.
  intros Ci Hr Ha. split.
  - intros x c' Hx Ht <-. destruct (c_top s Ci x c Hx Ht) as [H _]. congruence.
  - intros x <-. exact Hr.
Qed.

Lemma ksafe_exit s c t : CInv s -> running s = Some t -> s_host (scopes s c) = Some t -> ksafe (eq c) (eq t) s.
Proof.
  intros Ci Hr Hh. split.
  - intros x c' Hx Ht <-. destruct (c_top s Ci x c Hx Ht) as [_ [H _]]. rewrite Hh in H. injection H as ->.
    contradiction.
  - intros x <-. exact Hr.
Qed.

Lemma Run_scope_enter t s c : Run t s -> Run t (fst (scope_enter s c t)).
Proof.
  intros R. destruct (s_active (scopes s c)) eqn:Ea.
  - rewrite scope_enter_active; auto.
  - destruct R as [M [Hr Hf]]. apply (Run_kstar _ _ t _ _ (ks_scope_enter s c t)); [|split; auto].
    apply ksafe_enter; auto. apply M.
Qed.

Lemma Run_scope_exit t s c exc : Run t s -> Run t (fst (scope_exit s c t exc)).
Proof.
  intros R. destruct (scope_exit_cases s c t exc) as [E|[Ha [Hh Hc]]].
  - rewrite E. exact R.
  - destruct R as [M [Hr Hf]]. apply (Run_kstar _ _ t _ _ (ks_scope_exit s c t exc)); [|split; auto].
    apply ksafe_exit; auto. apply M.
Qed.

(* entering an inactive scope makes the task own it *)
Lemma scope_enter_owns s c t : s_active (scopes s c) = false -> c < nscope s ->
  owns (fst (scope_enter s c t)) t c.
Proof.
  intros Ha Hc. unfold scope_enter. rewrite Ha. cbn [fst].
  match goal with |- owns (if _ then deliver_top ?x _ else _) _ _ => set (s5 := x) end.
  assert (O5 : owns s5 t c).
  { unfold s5. 
    match goal with |- owns (upd_scope (scope_timeout ?x c) c _) _ _ => set (s3 := x) end.
    assert (O3 : s_host (scopes s3 c) = Some t /\ k_cur (tasks s3 t) = Some c /\ nscope s3 = nscope s).
    { unfold s3. destruct (k_cur (tasks s t)) as [p|].
      - cbn [upd_scope set_scopes scopes upd_task set_tasks tasks nscope]. rewrite (upd_same (tasks s)).
        refine (conj _ (conj eq_refl eq_refl)).
        destruct (Nat.eq_dec c p) as [<-|Hne].
        + rewrite !upd_same. reflexivity.
        + rewrite (upd_other _ p _ c Hne), upd_same. reflexivity.
      - cbn [upd_scope set_scopes scopes upd_task set_tasks tasks nscope]. rewrite !upd_same. cbn. auto. }
    destruct O3 as [H1 [H2 H3]].
    pose proof (kframe_kstar _ _ _ _ (ks_scope_timeout none_s none_t s3 c)) as F.
    destruct (fr_sc _ _ _ _ F c (fun x => x)) as [_ [E2 _]].
    unfold owns. cbn [upd_scope set_scopes scopes upd_task set_tasks tasks nscope]. rewrite upd_same. cbn.
    rewrite E2, (fr_cur _ _ _ _ F t (fun x => x)), (fr_nscope _ _ _ _ F), H3. auto. }
  destruct (s_cancelled (scopes s5 c)); [|exact O5].
  apply (owns_kstar_none _ _ _ _ (ks_deliver_top _ _ s5 c)), O5.
Qed.
