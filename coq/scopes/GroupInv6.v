(* The mid-step predicate Run, scope enter/exit specifications and the per-operation preservation lemmas. *)
From AV Require Import Base Machine GroupInv GroupInv2 GroupInv3 GroupInv4 GroupInv5.

Definition Run (t : tid) (s : st) : Prop :=
  MInv s /\ running s = Some t /\ k_final (tasks s t) = None.

Definition owns (s : st) (t : tid) (c : sid) : Prop :=
  s_active (scopes s c) = true /\ s_host (scopes s c) = Some t /\ k_cur (tasks s t) = Some c /\ c < nscope s.

Lemma kframe_final C T s s' t : kframe C T s s' -> k_final (tasks s' t) = k_final (tasks s t).
Proof. intros F. pose proof (tview_inv _ _ (fr_tv _ _ _ _ F t)). tauto. Qed.

Lemma Run_kstar C T t s s' : kstar C T s s' -> ksafe C T s -> Run t s -> Run t s'.
Proof.
  intros H S [M [Hr Hf]]. pose proof (kframe_kstar _ _ _ _ H) as F.
  refine (conj (M_kstar _ _ _ _ H S M) (conj _ _)).
  - now rewrite (fr_running _ _ _ _ F).
  - now rewrite (kframe_final _ _ _ _ t F).
Qed.

Lemma Run_kstar_none t s s' : kstar none_s none_t s s' -> Run t s -> Run t s'.
Proof. intros H. apply (Run_kstar _ _ t _ _ H), ksafe_none. Qed.

Lemma owns_kframe C T s s' t c : kframe C T s s' -> ~ C c -> ~ T t -> owns s t c -> owns s' t c.
Proof.
  intros F HC HT [H1 [H2 [H3 H4]]]. destruct (fr_sc _ _ _ _ F c HC) as [E1 [E2 _]].
  unfold owns. rewrite E1, E2, (fr_cur _ _ _ _ F t HT), (fr_nscope _ _ _ _ F). auto.
Qed.

Lemma owns_kstar_none s s' t c : kstar none_s none_t s s' -> owns s t c -> owns s' t c.
Proof. intros H. apply (owns_kframe _ _ _ _ _ _ (kframe_kstar _ _ _ _ H)); intros []. Qed.

(* ---------------- scope_enter / scope_exit ---------------- *)
Lemma scope_enter_active s c t : s_active (scopes s c) = true -> scope_enter s c t = (s, Some ERuntime).
Proof. intros H. unfold scope_enter. now rewrite H. Qed.

Lemma scope_exit_cases s c t exc :
  scope_exit s c t exc = (s, XRaise ERuntime) \/
  (s_active (scopes s c) = true /\ s_host (scopes s c) = Some t /\ k_cur (tasks s t) = Some c).
Proof.
  unfold scope_exit.
  destruct (s_active (scopes s c)) eqn:Ea; cbn [negb]; [|left; reflexivity].
  destruct (s_host (scopes s c)) as [h|] eqn:Eh; cbn [opt_eqb negb]; [|left; reflexivity].
  destruct (Nat.eqb_spec h t) as [->|Hne]; cbn [negb]; [|left; reflexivity].
  destruct (k_cur (tasks s t)) as [x|] eqn:Ec; cbn [opt_eqb negb]; [|left; reflexivity].
  destruct (Nat.eqb_spec x c) as [->|Hne]; cbn [negb]; [|left; reflexivity].
  right. auto.
Qed.

Lemma ksafe_enter s c t : CInv s -> running s = Some t -> s_active (scopes s c) = false -> ksafe (eq c) (eq t) s.
Proof.
  intros Ci Hr Ha. split.
  - intros x c' Hx Ht <-. destruct (c_top s Ci x c Hx Ht) as [H _]. congruence.
  - intros x <-. exact Hr.
Qed.

Lemma ksafe_exit s c t : CInv s -> running s = Some t -> s_host (scopes s c) = Some t -> ksafe (eq c) (eq t) s.
Proof.
  intros Ci Hr Hh. split.
  - intros x c' Hx Ht <-. destruct (c_top s Ci x c Hx Ht) as [_ [H _]]. rewrite Hh in H. injection H as ->.
    contradiction.
  - intros x <-. exact Hr.
Qed.

Lemma Run_scope_enter t s c : Run t s -> Run t (fst (scope_enter s c t)).
Proof.
  intros R. destruct (s_active (scopes s c)) eqn:Ea.
  - rewrite scope_enter_active; auto.
  - destruct R as [M [Hr Hf]]. apply (Run_kstar _ _ t _ _ (ks_scope_enter s c t)); [|split; auto].
    apply ksafe_enter; auto. apply M.
Qed.

Lemma Run_scope_exit t s c exc : Run t s -> Run t (fst (scope_exit s c t exc)).
Proof.
  intros R. destruct (scope_exit_cases s c t exc) as [E|[Ha [Hh Hc]]].
  - rewrite E. exact R.
  - destruct R as [M [Hr Hf]]. apply (Run_kstar _ _ t _ _ (ks_scope_exit s c t exc)); [|split; auto].
    apply ksafe_exit; auto. apply M.
Qed.

(* entering an inactive scope makes the task own it *)
Lemma scope_enter_owns s c t : s_active (scopes s c) = false -> c < nscope s ->
  owns (fst (scope_enter s c t)) t c.
Proof.
  intros Ha Hc. unfold scope_enter. rewrite Ha. cbn [fst].
  match goal with |- owns (if _ then deliver_top ?x _ else _) _ _ => set (s5 := x) end.
  assert (O5 : owns s5 t c).
  { unfold s5. 
    match goal with |- owns (upd_scope (scope_timeout ?x c) c _) _ _ => set (s3 := x) end.
    assert (O3 : s_host (scopes s3 c) = Some t /\ k_cur (tasks s3 t) = Some c /\ nscope s3 = nscope s).
    { unfold s3. destruct (k_cur (tasks s t)) as [p|].
      - cbn [upd_scope set_scopes scopes upd_task set_tasks tasks nscope]. rewrite (upd_same (tasks s)).
        refine (conj _ (conj eq_refl eq_refl)).
        destruct (Nat.eq_dec c p) as [<-|Hne].
        + rewrite !upd_same. reflexivity.
        + rewrite (upd_other _ p _ c Hne), upd_same. reflexivity.
      - cbn [upd_scope set_scopes scopes upd_task set_tasks tasks nscope]. rewrite !upd_same. cbn. auto. }
    destruct O3 as [H1 [H2 H3]].
    pose proof (kframe_kstar _ _ _ _ (ks_scope_timeout none_s none_t s3 c)) as F.
    destruct (fr_sc _ _ _ _ F c (fun x => x)) as [_ [E2 _]].
    unfold owns. cbn [upd_scope set_scopes scopes upd_task set_tasks tasks nscope]. rewrite upd_same. cbn.
    rewrite E2, (fr_cur _ _ _ _ F t (fun x => x)), (fr_nscope _ _ _ _ F), H3. auto. }
  destruct (s_cancelled (scopes s5 c)); [|exact O5].
  apply (owns_kstar_none _ _ _ _ (ks_deliver_top _ _ s5 c)), O5.
Qed.

(* ---------------- Run across the non-terminal blocks ---------------- *)
Lemma begin_act_final s t : k_final (tasks (begin_act s t) t) = k_final (tasks s t).
Proof. unfold begin_act. tcase t t; [reflexivity|contradiction]. Qed.
Lemma begin_act_done s t : k_done (tasks (begin_act s t) t) = k_done (tasks s t).
Proof. unfold begin_act. tcase t t; [reflexivity|contradiction]. Qed.

Lemma Run_begin s t : Inv s -> idle s t = true -> Run t (begin_act s t).
Proof.
  intros I Hi. destruct (M_begin_act s t I Hi) as [M [Hr [Hc Hal]]]. refine (conj M (conj Hr _)).
  rewrite begin_act_final. destruct I as [M0 Hrun].
  destruct (k_final (tasks s t)) eqn:E; [|reflexivity]. exfalso.
  assert (Hd : k_done (tasks s t) <> None).
  { apply (h_fd s (m_c s M0) t); [rewrite Hrun; discriminate|congruence]. }
  apply Hd. destruct (k_run _ (m_k _ M) t Hr) as [_ [H _]]. rewrite begin_act_done in H. exact H.
Qed.

Lemma Inv_ret s t r : Run t s -> Inv (fst (ret_to_puppet s t r)).
Proof. intros [M [Hr Hf]]. split; [apply M_ret_to_puppet; auto|reflexivity]. Qed.

Lemma Run_new_scope t s d sh : Run t s -> Run t (ns s d sh).
Proof. intros [M [Hr Hf]]. exact (conj (M_new_scope s d sh M) (conj Hr Hf)). Qed.

Lemma Run_upd_task_irrel t s x g : tk_irrel g -> Run t s -> Run t (upd_task s x g).
Proof.
  intros Hg [M [Hr Hf]]. refine (conj (M_upd_task_irrel s x g Hg M) (conj Hr _)).
  tcase t x; [|exact Hf]. subst. destruct (Hg (tasks s x)) as [_ [_ [_ [_ [_ [_ [_ [_ [_ [_ [-> _]]]]]]]]]]]. exact Hf.
Qed.

Lemma Run_keeps t s c g : sc_keeps g -> Run t s -> Run t (upd_scope s c g).
Proof. intros Hg. apply Run_kstar_none, ks_one, kp_scope_keeps, Hg. Qed.

Lemma Run_new_fut t s : Run t s -> Run t (nf s) /\ fresh (nf s) (nfut s).
Proof. intros [M [Hr Hf]]. destruct (M_new_fut s M) as [M1 F]. exact (conj (conj M1 (conj Hr Hf)) F). Qed.

(* ---------------- the simple puppet operations ---------------- *)
Lemma op_new_scope s t d sh : Run t s ->
  Inv (fst (let '(s1, c) := new_scope s d sh in ret_to_puppet s1 t (RRet c))).
Proof. intros R. rewrite new_scope_eq. apply Inv_ret, Run_new_scope, R. Qed.

Lemma op_enter s t c : Run t s ->
  Inv (fst (let '(s1, e) := scope_enter s c t in
            ret_to_puppet s1 t (match e with Some x => RExc x | None => RRet 0 end))).
Proof.
  intros R. pose proof (Run_scope_enter t s c R) as R1.
  destruct (scope_enter s c t) as [s1 e]. apply Inv_ret, R1.
Qed.

Lemma op_fail_at s t d sh : Run t s ->
  Inv (fst (let '(s1, c) := new_scope s d sh in
            let '(s2, e) := scope_enter s1 c t in
            ret_to_puppet s2 t (match e with Some x => RExc x | None => RRet c end))).
Proof.
  intros R. rewrite new_scope_eq. pose proof (Run_scope_enter t _ (nscope s) (Run_new_scope t s d sh R)) as R1.
  destruct (scope_enter (ns s d sh) (nscope s) t) as [s2 e]. apply Inv_ret, R1.
Qed.

Lemma op_exit s t c failat : Run t s ->
  Inv (fst (let exc := k_held (tasks s t) in
      let '(s1, x) := scope_exit s c t exc in
      match x with
      | XTrue =>
          let s2 := upd_task s1 t (tk_held None) in
          if failat && s_caught (scopes s2 c) &&
             match s_deadline (scopes s2 c) with Some d => Z.leb d (now s2) | None => false end
          then ret_to_puppet s2 t (RExc ETimeout) else ret_to_puppet s2 t (RRet 1)
      | XFalse => ret_to_puppet s1 t (RRet 0)
      | XRaise e => ret_to_puppet s1 t (RExc e)
      end)).
Proof.
  intros R. cbn zeta. pose proof (Run_scope_exit t s c (k_held (tasks s t)) R) as R1.
  destruct (scope_exit s c t (k_held (tasks s t))) as [s1 x]. cbn [fst] in R1.
  destruct x; try (apply Inv_ret, R1).
  match goal with |- context [if ?b then _ else _] => destruct b end;
    apply Inv_ret, Run_upd_task_irrel; auto using irrel_held.
Qed.

Lemma op_cancel s t c : Run t s -> Inv (fst (ret_to_puppet (scope_cancel s c false) t (RRet 0))).
Proof. intros R. apply Inv_ret. apply (Run_kstar_none t _ _ (ks_scope_cancel _ _ s c false)), R. Qed.

Lemma op_set_shield s t c b : Run t s ->
  Inv (fst (if Bool.eqb (s_shield (scopes s c)) b then ret_to_puppet s t (RRet 0) else
      let s1 := upd_scope s c (sc_shield b) in
      ret_to_puppet (if b then s1 else restart s1 (s_parent (scopes s1 c))) t (RRet 0))).
Proof.
  intros R. destruct (Bool.eqb (s_shield (scopes s c)) b); [apply Inv_ret, R|]. cbn zeta.
  pose proof (Run_keeps t s c _ (keeps_shield b) R) as R1.
  apply Inv_ret. destruct b; [exact R1|]. apply (Run_kstar_none t _ _ (ks_restart _ _ _ _)), R1.
Qed.

Lemma op_set_deadline s t c d : Run t s ->
  Inv (fst (let s1 := cancel_timeout (upd_scope s c (sc_deadline d)) c in
      let s2 := if s_active (scopes s1 c) && negb (s_cancelled (scopes s1 c)) then scope_timeout s1 c else s1 in
      ret_to_puppet s2 t (RRet 0))).
Proof.
  intros R. cbn zeta. apply Inv_ret.
  pose proof (Run_keeps t s c _ (keeps_deadline d) R) as R1.
  pose proof (Run_kstar_none t _ _ (ks_cancel_timeout _ _ _ c) R1) as R2.
  match goal with |- context [if ?b then _ else _] => destruct b end; [|exact R2].
  apply (Run_kstar_none t _ _ (ks_scope_timeout _ _ _ c)), R2.
Qed.

Lemma op_group_new s t : Run t s ->
  Inv (fst (let '(s1, c) := new_scope s None false in
      let g := ngroup s1 in
      let s2 := mkSt (tasks s1) (ntask s1) (scopes s1) (nscope s1)
                     (upd (groups s1) g (mkGroup c false [] [] None [] false)) (S g)
                     (futs s1) (nfut s1) (events s1) (nevent s1) (ready s1) (timers s1) (ntimer s1)
                     (now s1) (running s1) in
      ret_to_puppet s2 t (RRet g))).
Proof.
  intros R. rewrite new_scope_eq. cbn zeta. apply Inv_ret.
  destruct (Run_new_scope t s None false R) as [M [Hr Hf]].
  change (Run t (galloc (ns s None false) (nscope s))).
  refine (conj (M_galloc _ _ M _) (conj Hr Hf)). unfold ns, new_scope. cbn. lia.
Qed.

Lemma Run_gr_entered t s g b : Run t s -> Run t (upd_group s g (gr_entered b)).
Proof. intros [M [Hr Hf]]. exact (conj (M_gr_entered s g b M) (conj Hr Hf)). Qed.

Lemma op_group_enter s t g : Run t s ->
  Inv (fst (if g_entered (groups s g) then ret_to_puppet s t (RExc ERuntime) else
      let s1 := upd_group s g (gr_entered true) in
      let '(s2, e) := scope_enter s1 (g_scope (groups s1 g)) t in
      ret_to_puppet s2 t (match e with Some x => RExc x | None => RRet 0 end))).
Proof.
  intros R. destruct (g_entered (groups s g)); [apply Inv_ret, R|]. cbn zeta.
  apply op_enter, Run_gr_entered, R.
Qed.

Lemma op_irrel s t g r : tk_irrel g -> Run t s -> Inv (fst (ret_to_puppet (upd_task s t g) t r)).
Proof. intros Hg R. apply Inv_ret, Run_upd_task_irrel; auto. Qed.

Lemma op_handle_cancel s t h : Run t s ->
  Inv (fst (if e_set (events s (k_hevent (tasks s h))) then ret_to_puppet s t (RRet 0)
            else ret_to_puppet (scope_cancel s (k_hscope (tasks s h)) false) t (RRet 0))).
Proof. intros R. destruct (e_set _); [apply Inv_ret, R|apply op_cancel, R]. Qed.

(* ---------------- blocking puppet operations ---------------- *)
Definition plain_ctl (c : ctl) : Prop :=
  c <> CDone /\ top_scope c = None /\ (forall g ch f, c <> CStartWait g ch f) /\
  (forall ch x e wf, c <> CStartJoin ch x e wf).

Lemma ctl_ok_plain s t c : plain_ctl c -> ctl_ok s t c.
Proof.
  intros [P1 [P2 [P3 P4]]]. refine (conj P1 (conj _ (conj _ _))).
  - intros x Hx. congruence.
  - intros g ch f E. exfalso. exact (P3 _ _ _ E).
  - intros ch x e wf E. exfalso. exact (P4 _ _ _ _ E).
Qed.

Lemma ctl_ok_top s t c x : top_scope c = Some x -> owns s t x -> c <> CDone ->
  (forall g ch f, c <> CStartWait g ch f) -> (forall ch y e wf, c <> CStartJoin ch y e wf) -> ctl_ok s t c.
Proof.
  intros Hx Ho P1 P3 P4. refine (conj P1 (conj _ (conj _ _))).
  - intros y Hy. rewrite Hx in Hy. injection Hy as <-. exact Ho.
  - intros g ch f E. exfalso. exact (P3 _ _ _ E).
  - intros ch y e wf E. exfalso. exact (P4 _ _ _ _ E).
Qed.

Ltac plain := unfold plain_ctl; refine (conj _ (conj _ (conj _ _))); [discriminate|reflexivity|discriminate|discriminate].

Lemma Inv_block_yield s t c : Run t s -> ctl_waiter c None -> ctl_ok s t c ->
  Inv (fst (blocked (set_ctl (bare_yield s t) t c))).
Proof. intros [M [Hr Hf]] Hw Ho. split; [apply M_block_yield; auto|reflexivity]. Qed.

Lemma Inv_block_on s t f c : Run t s -> unwaited s f -> ctl_waiter c (Some f) -> c <> CIdle -> ctl_ok s t c ->
  Inv (fst (blocked (set_ctl (suspend_on s t f) t c))).
Proof.
  intros [M [Hr Hf]] Hu Hw Hi Ho. split; [apply M_block_on; auto|reflexivity].
Qed.

Lemma Run_fut_complete t s f v : Run t s -> v <> FPend -> refd s f ->
  (forall r e, v = FRes r -> In f (e_waiters (events s e)) -> e_set (events s e) = true) ->
  Run t (fut_complete s f v).
Proof.
  intros [M [Hr Hf]] Hv Hrf He. refine (conj (M_fut_complete s f v M Hv Hrf He) (conj _ _)).
  - now rewrite fc_running.
  - now rewrite fc_tasks.
Qed.

Lemma op_started s t v : Run t s ->
  Inv (fst (match k_startfut (tasks s t) with
      | None => ret_to_puppet s t (RRet 0)
      | Some f =>
          match f_st (futs s f) with
          | FPend => ret_to_puppet (fut_complete s f (FRes v)) t (RRet 0)
          | FCanc _ => ret_to_puppet s t (RRet 0)
          | _ => ret_to_puppet s t (RExc ERuntime)
          end
      end)).
Proof.
  intros R. destruct (k_startfut (tasks s t)) as [f|] eqn:Ef; [|apply Inv_ret, R].
  destruct (f_st (futs s f)); try (apply Inv_ret, R).
  apply Inv_ret, Run_fut_complete; auto; [discriminate| |].
  - right; right; left. eauto.
  - intros r e _ Hin. exfalso. destruct R as [M _]. exact (kk_es s (m_j s M) f e t Hin Ef).
Qed.

Lemma Run_evadd t s e f : Run t s -> fresh s f -> Run t (evadd s e f).
Proof. intros [M [Hr Hf]] F. exact (conj (M_evadd s e f M F) (conj Hr Hf)). Qed.

Lemma op_handle_wait s t h : Run t s ->
  Inv (fst (let '(s1, f) := event_wait s t (k_hevent (tasks s h)) in blocked (set_ctl s1 t (CHandleWait h f)))).
Proof.
  intros R. unfold event_wait. destruct (e_set (events s (k_hevent (tasks s h)))).
  - apply Inv_block_yield; auto; [reflexivity|apply ctl_ok_plain; plain].
  - rewrite new_fut_eq. destruct (Run_new_fut t s R) as [R1 F].
    change (upd_event (nf s) (k_hevent (tasks s h))
              (fun x => mkEvent (e_set x) (e_waiters x ++ [nfut s])))
      with (evadd (nf s) (k_hevent (tasks s h)) (nfut s)).
    apply Inv_block_on; [apply Run_evadd; auto|apply unwaited_evadd, F|reflexivity|discriminate|apply ctl_ok_plain; plain].
Qed.

Lemma op_yield s t : Run t s -> Inv (fst (blocked (set_ctl (bare_yield s t) t (CYield YCheckpoint)))).
Proof. intros R. apply Inv_block_yield; auto; [reflexivity|apply ctl_ok_plain; plain]. Qed.

Lemma op_ckif s t : Run t s ->
  Inv (fst (if ckif_spins (nscope s) s (k_cur (tasks s t))
            then blocked (set_ctl (bare_yield s t) t (CYield YCkIf))
            else ret_to_puppet s t (RRet 0))).
Proof.
  intros R. destruct (ckif_spins _ _ _); [|apply Inv_ret, R].
  apply Inv_block_yield; auto; [reflexivity|apply ctl_ok_plain; plain].
Qed.

Lemma ns_inactive s d sh : s_active (scopes (ns s d sh) (nscope s)) = false.
Proof. rewrite ns_scope_new. reflexivity. Qed.

Lemma ns_nscope s d sh : nscope (ns s d sh) = S (nscope s).
Proof. reflexivity. Qed.

(* a fresh scope entered by the running task *)
Lemma Run_fresh_scope t s d sh : Run t s ->
  let s2 := fst (scope_enter (ns s d sh) (nscope s) t) in Run t s2 /\ owns s2 t (nscope s).
Proof.
  intros R. cbn zeta. split.
  - apply Run_scope_enter, Run_new_scope, R.
  - apply scope_enter_owns; [apply ns_inactive|rewrite ns_nscope; lia].
Qed.

Lemma op_shield_ck s t : Run t s ->
  Inv (fst (let '(s1, c) := new_scope s None true in
      let s2 := fst (scope_enter s1 c t) in
      blocked (set_ctl (bare_yield s2 t) t (CYield (YShield c))))).
Proof.
  intros R. rewrite new_scope_eq. cbn zeta. destruct (Run_fresh_scope t s None true R) as [R2 O].
  apply Inv_block_yield; auto; [reflexivity|].
  eapply ctl_ok_top; [reflexivity|exact O|discriminate|discriminate|discriminate].
Qed.

Lemma Run_casl t s w f : Run t s -> fresh s f -> Run t (casl s w f).
Proof. intros [M [Hr Hf]] F. exact (conj (M_casl s w f M F) (conj Hr Hf)). Qed.

Lemma op_sleep s t d : Run t s ->
  Inv (fst (let '(s1, f) := new_fut s in
      match d with
      | Some dt =>
          let '(s2, tm) := call_at s1 (now s1 + dt)%Z (TSleep f) in
          blocked (set_ctl (suspend_on s2 t f) t (CSleep f tm))
      | None => blocked (set_ctl (suspend_on s1 t f) t (CSleep f 0))
      end)).
Proof.
  intros R. rewrite new_fut_eq. destruct (Run_new_fut t s R) as [R1 F]. destruct d as [dt|].
  - rewrite call_at_eq.
    apply Inv_block_on; [apply Run_casl; auto|exact (fresh_unwaited _ _ F)|reflexivity|discriminate|apply ctl_ok_plain; plain].
  - apply Inv_block_on; [exact R1|exact (fresh_unwaited _ _ F)|reflexivity|discriminate|apply ctl_ok_plain; plain].
Qed.

Lemma Inv_park s t : Run t s -> Inv (set_running (park s t) None).
Proof. intros [M [Hr Hf]]. split; [apply M_park; auto|reflexivity]. Qed.

(* ---------------- spawning a group child ---------------- *)
Definition spawned (s : st) (g : gid) (sf : option fid) : st := fst (spawn_task s g sf).

Lemma spawn_task_eq s g sf : spawn_task s g sf = (spawned s g sf, ntask s).
Proof. reflexivity. Qed.

Lemma spawned_eq s g sf :
  spawned s g sf =
  let s1 := ns s None false in
  let c := ntask s in
  let gs := g_scope (groups s g) in
  let s2 := talloc s1 (child_rec gs g (nscope s) (nevent s) sf) true in
  let s3 := upd_scope s2 gs (fun x => sc_tasks (add c (s_tasks x)) x) in
  let s4 := upd_group s3 g (gjoin c) in
  call_soon (restart s4 (Some gs)) (HStep c).
Proof. reflexivity. Qed.

Lemma Run_spawn t s g sf : Run t s -> match sf with Some f => fresh s f | None => True end ->
  let c := ntask s in let s' := spawned s g sf in
  Run t s' /\ alloc s' c /\ k_startfut (tasks s' c) = sf /\ k_group (tasks s' c) = Some g /\ c <> t /\
  (forall f, sf = Some f -> unwaited s' f) /\
  (forall x, x <> c -> tview (tasks s' x) = tview (tasks s x) /\ k_cur (tasks s' x) = k_cur (tasks s x)) /\
  (forall x, x < nscope s -> s_active (scopes s' x) = s_active (scopes s x) /\ s_host (scopes s' x) = s_host (scopes s x)) /\
  events s' (nevent s) = event0 /\ (forall e, e <> nevent s -> events s' e = events s e) /\
  nscope s <= nscope s' /\ k_hevent (tasks s' c) = nevent s.
Proof.
  intros R Hsf. cbn zeta. rewrite spawned_eq. cbn zeta.
  set (c := ntask s). set (gs := g_scope (groups s g)).
  set (k := child_rec gs g (nscope s) (nevent s) sf).
  set (s1 := ns s None false). set (s2 := talloc s1 k true).
  set (s3 := upd_scope s2 gs (fun x => sc_tasks (add c (s_tasks x)) x)).
  set (s4 := upd_group s3 g (gjoin c)). set (s5 := restart s4 (Some gs)).
  assert (R' := R). destruct R' as [M0 [Hr0 Hf0]].
  destruct (k_run s (m_k s M0) t Hr0) as [_ [_ Halt]].
  assert (Hct : c <> t) by (unfold alloc, c in *; lia).
  destruct (Run_new_scope t s None false R) as [M1 [Hr1 Hf1]]. fold s1 in M1, Hr1, Hf1.
  assert (Ok : newtask_ok s1 k true).
  { unfold newtask_ok, k, child_rec. cbn [k_done k_waiter k_tdran k_final k_hexc k_hret k_ctl k_hscope k_startfut k_hevent k_group top_scope ctl_waiter].
    refine (conj eq_refl (conj eq_refl (conj eq_refl (conj eq_refl (conj eq_refl (conj eq_refl (conj _ (conj eq_refl (conj _ (conj _ (conj eq_refl (conj _ (conj _ (conj eq_refl _)))))))))))))); try discriminate.
    - unfold s1. rewrite ns_nscope. lia.
    - destruct sf; [exact Hsf|exact I]. }
  pose proof (M_talloc s1 k true M1 Ok) as M2. fold s2 in M2.
  assert (T2c : tasks s2 c = k) by (unfold s2, talloc; cbn [tasks]; apply upd_same).
  assert (T2o : forall x, x <> c -> tasks s2 x = tasks s x).
  { intros x Hx. unfold s2, talloc. cbn [tasks]. now apply upd_other. }
  assert (R2 : Run t s2).
  { refine (conj M2 (conj Hr1 _)). rewrite T2o; auto. }
  assert (R3 : Run t s3) by (apply Run_keeps; [apply keeps_tasks|exact R2]).
  assert (R4 : Run t s4).
  { destruct R3 as [M3 [Hr3 Hf3]]. refine (conj _ (conj Hr3 Hf3)). apply M_gjoin; auto.
    - change (tasks s3) with (tasks s2). rewrite T2c. reflexivity.
    - unfold alloc. change (ntask s3) with (S c). pose proof (c_n s (m_c s M0)). unfold c. lia.
    - change (tasks s3) with (tasks s2). rewrite T2c. reflexivity.
    - intros g' Hin. change (groups s3) with (groups s) in Hin.
      destruct (g_grp s (m_g s M0) g' c Hin) as [_ [_ H]]. unfold c in H. lia. }
  pose proof (ks_restart none_s none_t s4 (Some gs)) as KS. fold s5 in KS.
  pose proof (kframe_kstar _ _ _ _ KS) as F.
  assert (R5 : Run t s5) by (apply (Run_kstar_none t _ _ KS), R4).
  assert (V5 : forall x, tview (tasks s5 x) = tview (tasks s2 x)).
  { intros x. rewrite (fr_tv _ _ _ _ F x). reflexivity. }
  assert (T5c : k_waiter (tasks s5 c) = None /\ k_done (tasks s5 c) = None /\ k_startfut (tasks s5 c) = sf /\
                k_group (tasks s5 c) = Some g /\ k_hevent (tasks s5 c) = nevent s).
  { pose proof (tview_inv _ _ (V5 c)) as V. rewrite T2c in V.
    destruct V as [_ [V2 [V3 [V4 [_ [V6 [_ [_ [V9 _]]]]]]]]]. rewrite V2, V3, V4, V6, V9. unfold k. cbn. auto. }
  destruct T5c as [W5 [D5 [S5 [G5 E5]]]].
  assert (Al5 : alloc s5 c).
  { unfold alloc. rewrite (fr_ntask _ _ _ _ F). change (ntask s4) with (S c). pose proof (c_n s (m_c s M0)). unfold c. lia. }
  assert (R6 : Run t (call_soon s5 (HStep c))).
  { destruct R5 as [M5 [Hr5 Hf5]]. refine (conj _ (conj Hr5 Hf5)). apply M_soon_step; auto.
    - intros Hin. apply in_thtasks in Hin. destruct Hin as [Hin|[f Hin]].
      + apply (fr_step _ _ _ _ F) in Hin. change (ready s4) with (ready s) in Hin.
        destruct (k_step s (m_k s M0) c Hin) as [_ [_ [_ [_ H]]]]. unfold c in H. lia.
      + destruct (k_wake s5 (m_k s5 M5) c f Hin) as [H _]. congruence.
    - rewrite Hr5. congruence. }
  refine (conj R6 (conj Al5 (conj S5 (conj G5 (conj Hct (conj _ (conj _ (conj _ (conj _ (conj _ (conj _ E5))))))))))).
  - intros f ->. destruct (fresh_unwaited s f Hsf) as [U1 [U2 U3]].
    assert (U4 : forall x, k_waiter (tasks s4 x) <> Some f).
    { intros x. change (tasks s4) with (tasks s2). destruct (Nat.eq_dec x c) as [->|Hx]; [rewrite T2c; discriminate|].
      rewrite T2o; auto. }
    unfold unwaited. change (nfut (call_soon s5 (HStep c))) with (nfut s5). change (futs (call_soon s5 (HStep c))) with (futs s5).
    change (tasks (call_soon s5 (HStep c))) with (tasks s5).
    assert (Ef : futs s5 f = futs s f).
    { destruct (Nat.eq_dec 0 0) as [_|]; [|contradiction].
      assert (H : ~ futs s5 f <> futs s4 f).
      { intros H. destruct (fr_fut3 _ _ _ _ F f H) as [x Hx]. exact (U4 x Hx). }
      destruct (fr_fut2 _ _ _ _ F f) as [E|[_ [o Ho]]]; [exact E|].
      exfalso. apply H. intros E. rewrite E in Ho. change (futs s4) with (futs s) in Ho. rewrite U2 in Ho. discriminate. }
    refine (conj _ (conj _ _)).
    + rewrite (fr_nfut _ _ _ _ F). exact U1.
    + rewrite Ef. exact U2.
    + intros x. pose proof (tview_inv _ _ (fr_tv _ _ _ _ F x)) as V. destruct V as [_ [_ [V _]]]. rewrite V. apply U4.
  - intros x Hx. split.
    + change (tasks (call_soon s5 (HStep c))) with (tasks s5). rewrite V5, T2o; auto.
    + change (tasks (call_soon s5 (HStep c))) with (tasks s5). rewrite (fr_cur _ _ _ _ F x (fun z => z)).
      change (tasks s4) with (tasks s2). rewrite T2o; auto.
  - intros x Hx. change (scopes (call_soon s5 (HStep c))) with (scopes s5).
    destruct (fr_sc _ _ _ _ F x (fun z => z)) as [E1 [E2 _]]. rewrite E1, E2.
    assert (Es : s_active (scopes s4 x) = s_active (scopes s1 x) /\ s_host (scopes s4 x) = s_host (scopes s1 x)).
    { unfold s4, s3. cbn [upd_group set_groups upd_scope set_scopes scopes]. change (scopes s2) with (scopes s1).
      unfold upd. destruct (Nat.eqb_spec x gs) as [E|E]; [rewrite E; cbn; auto|auto]. }
    destruct Es as [-> ->]. unfold s1. rewrite ns_scope_old; [auto|lia].
  - change (events (call_soon s5 (HStep c))) with (events s5). rewrite (fr_events _ _ _ _ F).
    change (events s4) with (events s2). unfold s2, talloc. cbn [events]. apply upd_same.
  - intros e He. change (events (call_soon s5 (HStep c))) with (events s5). rewrite (fr_events _ _ _ _ F).
    change (events s4) with (events s2). unfold s2, talloc. cbn [events]. now apply upd_other.
  - change (nscope (call_soon s5 (HStep c))) with (nscope s5). rewrite (fr_nscope _ _ _ _ F).
    change (nscope s4) with (S (nscope s)). lia.
Qed.

Lemma op_spawn s t g : Run t s ->
  Inv (fst (if negb (group_active s g) then ret_to_puppet s t (RExc ERuntime) else
            let '(s1, c) := spawn_task s g None in ret_to_puppet s1 t (RRet c))).
Proof.
  intros R. destruct (negb (group_active s g)); [apply Inv_ret, R|].
  rewrite spawn_task_eq. apply Inv_ret. apply (Run_spawn t s g None R I).
Qed.

Lemma op_start s t g : Run t s ->
  Inv (fst (if negb (group_active s g) then ret_to_puppet s t (RExc ERuntime) else
      let '(s1, f) := new_fut s in
      let '(s2, c) := spawn_task s1 g (Some f) in
      blocked (set_ctl (suspend_on s2 t f) t (CStartWait g c f)))).
Proof.
  intros R. destruct (negb (group_active s g)); [apply Inv_ret, R|].
  rewrite new_fut_eq. destruct (Run_new_fut t s R) as [R1 F]. rewrite spawn_task_eq.
  destruct (Run_spawn t (nf s) g (Some (nfut s)) R1 F) as [R2 [H1 [H2 [H3 [H4 [H5 _]]]]]].
  apply Inv_block_on; auto; [reflexivity|discriminate|].
  refine (conj _ (conj _ (conj _ _))); try discriminate.
  intros g0 ch f0 E. injection E as <- <- <-. auto.
Qed.

(* ---------------- __aexit__ ---------------- *)
Lemma Run_gr_left t s g b : Run t s -> Run t (upd_group s g (gr_left b)).
Proof. intros [M [Hr Hf]]. exact (conj (M_gr_left s g b M) (conj Hr Hf)). Qed.

Lemma Run_aexit_raise t s g e : Run t s -> Run t (fst (aexit_raise s t g e)).
Proof.
  intros R. unfold aexit_raise.
  pose proof (Run_scope_exit t s (g_scope (groups s g)) (Some e) R) as R1.
  destruct (scope_exit s (g_scope (groups s g)) t (Some e)) as [s1 x]. cbn [fst] in R1.
  pose proof (Run_gr_left t s1 g true R1) as R2.
  destruct x; cbn [fst]; auto. apply Run_upd_task_irrel; auto using irrel_held.
Qed.

Lemma Run_aexit_finish t s g exc : Run t s -> Run t (fst (aexit_finish s t g exc)).
Proof.
  intros R. unfold aexit_finish. destruct (map snd (g_excs (groups s g))) as [|a l].
  - destruct exc as [e|]; [apply Run_aexit_raise, R|].
    pose proof (Run_scope_exit t s (g_scope (groups s g)) None R) as R1.
    destruct (scope_exit s (g_scope (groups s g)) t None) as [s1 x]. cbn [fst] in R1.
    pose proof (Run_gr_left t s1 g true R1) as R2. destruct x; exact R2.
  - apply Run_aexit_raise, R.
Qed.

Lemma Inv_ret_pair t (p : st * res) : Run t (fst p) -> Inv (fst (let '(s2, r) := p in ret_to_puppet s2 t r)).
Proof. destruct p as [s2 r]. cbn [fst]. apply Inv_ret. Qed.

Lemma Run_gr_fut_some t s g f : Run t s -> fresh s f -> Run t (upd_group s g (gr_fut (Some f))).
Proof. intros [M [Hr Hf]] F. exact (conj (M_gr_fut_some s g f M F) (conj Hr Hf)). Qed.

Lemma Run_gr_fut_none t s g : Run t s -> Run t (upd_group s g (gr_fut None)).
Proof. intros [M [Hr Hf]]. exact (conj (M_gr_fut_none s g M) (conj Hr Hf)). Qed.

Lemma aexit_block s t g w exc : Run t s -> owns s t w ->
  Inv (fst (let '(s1, f) := new_fut s in
            let s2 := upd_group s1 g (gr_fut (Some f)) in
            blocked (set_ctl (suspend_on s2 t f) t (CAexitWait g w exc)))).
Proof.
  intros R O. rewrite new_fut_eq. cbn zeta. destruct (Run_new_fut t s R) as [R1 F].
  apply Inv_block_on; [apply Run_gr_fut_some; auto|exact (fresh_unwaited _ _ F)|exact I|discriminate|].
  eapply ctl_ok_top; [reflexivity|exact O|discriminate|discriminate|discriminate].
Qed.

Lemma Inv_aexit_wof s t g ws exc : Run t s -> (forall w, ws = Some w -> owns s t w) ->
  Inv (fst (aexit_wait_or_finish s t g ws exc)).
Proof.
  intros R O. unfold aexit_wait_or_finish. destruct (g_tasks (groups s g)) as [|a l].
  - destruct ws as [w|].
    + pose proof (Run_scope_exit t s w None R) as R1.
      destruct (scope_exit s w t None) as [s1 x]. cbn [fst] in R1.
      destruct x; apply Inv_ret_pair; try (apply Run_aexit_finish, R1). apply Run_aexit_raise, R1.
    + apply Inv_ret_pair, Run_aexit_finish, R.
  - destruct ws as [w|].
    + apply aexit_block; auto.
    + rewrite new_scope_eq. destruct (Run_fresh_scope t s None false R) as [R2 O2].
      apply aexit_block; auto.
Qed.

Lemma Run_add_exc_body t s g e : Run t s -> is_cancel e = false -> Run t (upd_group s g (add_exc 0 e)).
Proof. intros [M [Hr Hf]] He. exact (conj (M_add_exc_body s g e M He) (conj Hr Hf)). Qed.

Lemma op_group_exit s t g : Run t s ->
  Inv (fst (let exc := k_held (tasks s t) in
      let gs := g_scope (groups s g) in
      let s1 := match exc with
                | Some e =>
                    let a := scope_cancel s gs false in
                    if is_cancel e then a else upd_group a g (fun x => gr_excs (g_excs x ++ [(0, e)]) x)
                | None => s
                end in
      match g_tasks (groups s1 g) with
      | [] =>
          let '(s2, c) := new_scope s1 None true in
          let s3 := fst (scope_enter s2 c t) in
          blocked (set_ctl (bare_yield s3 t) t (CAexitCk g c exc))
      | _ => aexit_wait_or_finish s1 t g None exc
      end)).
Proof.
  intros R. cbn zeta.
  match goal with |- context [match g_tasks (groups ?x g) with _ => _ end] => set (s1 := x) end.
  assert (R1 : Run t s1).
  { unfold s1. destruct (k_held (tasks s t)) as [e|]; [|exact R].
    pose proof (Run_kstar_none t _ _ (ks_scope_cancel _ _ s (g_scope (groups s g)) false) R) as Rc.
    destruct (is_cancel e) eqn:Ec; [exact Rc|]. apply (Run_add_exc_body t _ g e Rc Ec). }
  destruct (g_tasks (groups s1 g)) as [|a l].
  - rewrite new_scope_eq. cbn zeta. destruct (Run_fresh_scope t s1 None true R1) as [R2 O].
    apply Inv_block_yield; auto; [reflexivity|].
    eapply ctl_ok_top; [reflexivity|exact O|discriminate|discriminate|discriminate].
  - apply Inv_aexit_wof; auto. intros w E. discriminate.
Qed.
