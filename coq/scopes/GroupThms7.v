(* Non-vacuity: concrete op lists (checked by vm_compute) on which the hypotheses of the C01/C02/C07 theorems hold,
   and the witnesses showing that the state-form of C01 fails under API misuse. *)
From AV Require Import Base Machine GroupInv GroupThms GroupThms3 GroupThms4 GroupThms6.

Lemma reach_final ops : reach (final step init ops).
Proof. exists ops. reflexivity. Qed.

(* root task 1 opens group 1, spawns children 2 and 3; child 2 raises ValueError 7 *)
Definition ops_fail : list op :=
  [ANewRoot; AGroupNew 1; AGroupEnter 1 1; ASpawn 1 1; ASpawn 1 1; ARun (HStep 2); ARun (HStep 3);
   AHold 2 7; AFinish 2 0].
(* ... its task_done runs (group cancelled), the host gets the cancellation and runs __aexit__, child 3 is
   cancelled and finishes, its task_done runs: the host is ready to leave *)
Definition ops_before_leave : list op :=
  ops_fail ++ [ARun (HTaskDone 2); ARun (HWake 1 5); AGroupExit 1 1; ARun (HWake 3 7); AFinish 3 0;
               ARun (HTaskDone 3)].

Example ex_no_step_after_done :
  let s := final step init ops_before_leave in k_done (tasks s 2) <> None.
Proof. vm_compute. discriminate. Qed.

Example ex_empty_group :
  let s := final step init ops_before_leave in
  g_tasks (groups s 1) = [] /\ g_ever (groups s 1) = [2; 3].
Proof. vm_compute. auto. Qed.

Example ex_handle_outcome :
  let s := final step init ops_before_leave in
  k_group (tasks s 2) <> None /\ k_final (tasks s 2) = Some (OExc (EErr 7)) /\
  k_group (tasks s 3) <> None /\ k_final (tasks s 3) = Some (OExc (ECancel 2)) /\ handle_status s (tasks s 3) = 5%Z.
Proof. vm_compute. repeat split; discriminate. Qed.

(* a child natively cancelled before its first step: done, but its coroutine never ran *)
Example ex_cancelled_before_first_step :
  let s := final step init [ANewRoot; AGroupNew 1; AGroupEnter 1 1; ASpawn 1 1; ANativeCancel 2; ARun (HStep 2)] in
  k_group (tasks s 2) <> None /\ k_done (tasks s 2) = Some (OCanc (ECancel 0)) /\ k_final (tasks s 2) = None /\
  handle_status s (tasks s 2) = 1%Z.
Proof. vm_compute. repeat split; discriminate. Qed.

(* the leaving step *)
Example ex_group_exit_step :
  let s := final step init ops_before_leave in
  g_left (groups s 1) = false /\ g_left (groups (fst (step s (ARun (HWake 1 10)))) 1) = true /\
  snd (step s (ARun (HWake 1 10))) = RExc (EGroup [EErr 7]).
Proof. vm_compute. auto. Qed.

Example ex_members_grow :
  let s := final step init [ANewRoot; AGroupNew 1; AGroupEnter 1 1] in
  g_ever (groups (fst (step s (ASpawn 1 1))) 1) <> g_ever (groups s 1).
Proof. vm_compute. discriminate. Qed.

Example ex_excs_grow_and_first_failure :
  let s := final step init ops_fail in
  In (HTaskDone 2) (ready s) /\ k_group (tasks s 2) = Some 1 /\
  g_excs (groups (fst (step s (ARun (HTaskDone 2)))) 1) <> g_excs (groups s 1) /\
  eff_cancelled s (g_scope (groups s 1)) = false.
Proof. vm_compute. repeat split; try discriminate. auto. Qed.

Example ex_body_exception :
  let s := final step init [ANewRoot; AGroupNew 1; AGroupEnter 1 1; AHold 1 3] in
  g_excs (groups (fst (step s (AGroupExit 1 1))) 1) = [(0, EErr 3)].
Proof. vm_compute. reflexivity. Qed.

Example ex_group_excs :
  let s := final step init ops_before_leave in
  g_excs (groups s 1) = [(2, EErr 7)] /\ k_done (tasks s 3) = Some (OCanc (ECancel 2)).
Proof. vm_compute. auto. Qed.

(* ---------------- start() ---------------- *)
Definition ops_start : list op := [ANewRoot; AGroupNew 1; AGroupEnter 1 1; AStart 1 1; ARun (HStep 2)].

Example ex_started :
  let s := final step init ops_start in
  idle s 2 = true /\ k_startfut (tasks s 2) = Some 4 /\ f_st (futs s 4) = FPend /\
  f_st (futs (fst (step s (AStarted 2 42))) 4) = FRes 42.
Proof. vm_compute. auto. Qed.

Example ex_start_returns :
  let s := final step init (ops_start ++ [AStarted 2 42]) in
  k_ctl (tasks s 1) = CStartWait 1 2 4 /\ snd (step s (ARun (HWake 1 4))) = RRet 42.
Proof. vm_compute. auto. Qed.

Example ex_second_started :
  let s := final step init (ops_start ++ [AStarted 2 42]) in
  idle s 2 = true /\ k_startfut (tasks s 2) = Some 4 /\ snd (step s (AStarted 2 5)) = RExc ERuntime.
Proof. vm_compute. auto. Qed.

Example ex_pre_started_failure :
  let s := final step init (ops_start ++ [AHold 2 9; AFinish 2 0]) in
  In (HTaskDone 2) (ready s) /\ k_group (tasks s 2) = Some 1 /\ k_startfut (tasks s 2) = Some 4 /\
  f_st (futs s 4) = FPend /\ f_st (futs (fst (step s (ARun (HTaskDone 2)))) 4) = FExc (EErr 9).
Proof. vm_compute. repeat split; auto. Qed.

Definition ops_join : list op :=
  [ANewRoot; AGroupNew 1; AGroupEnter 1 1; AStart 1 1; ANativeCancel 1].

Example ex_start_cancel :
  let s := final step init ops_join in
  k_ctl (tasks s 1) = CStartWait 1 2 4 /\ In (HWake 1 4) (ready s) /\ snd (step s (ARun (HWake 1 4))) = RBlocked.
Proof. vm_compute. repeat split; auto. Qed.

Example ex_join_wakeup :
  let s := final step init (ops_join ++ [ARun (HWake 1 4); ARun (HStep 2); ARun (HDeliver 2); ARun (HWake 2 6);
                                         AFinish 2 0]) in
  k_ctl (tasks s 1) = CStartJoin 2 3 (ECancel 0) (Some 5) /\ f_st (futs s 5) = FRes 1.
Proof. vm_compute. auto. Qed.

(* ---------------- API misuse: the state-form "g_left -> every member done" is false ---------------- *)
(* (1) tg.cancel_scope is entered again after the block was left: the group accepts new children *)
Example group_exit_joins_all_refuted_reenter :
  let s := final step init [ANewRoot; AGroupNew 1; AGroupEnter 1 1; AGroupExit 1 1; ARun (HStep 1); AEnter 1 1;
                            ASpawn 1 1] in
  g_left (groups s 1) = true /\ In 2 (g_ever (groups s 1)) /\ k_done (tasks s 2) = None.
Proof. vm_compute. auto. Qed.

(* (2) __aexit__ called by a task that is not the host: it ends with RuntimeError, the scope stays active *)
Example group_exit_joins_all_refuted_foreign_exit :
  let s := final step init [ANewRoot; ANewRoot; AGroupNew 1; AGroupEnter 1 1; AGroupExit 2 1; ARun (HStep 2);
                            ASpawn 1 1] in
  g_left (groups s 1) = true /\ In 3 (g_ever (groups s 1)) /\ k_done (tasks s 3) = None.
Proof. vm_compute. auto. Qed.

(* (3) __aexit__ twice with a held exception: two entries tagged 0 (the model keeps _exceptions; CPython deletes it) *)
Example body_tag_not_unique_under_double_exit :
  let s := final step init [ANewRoot; AGroupNew 1; AGroupEnter 1 1; AHold 1 7; AGroupExit 1 1; ARun (HStep 1);
                            AGroupExit 1 1; ARun (HStep 1)] in
  g_excs (groups s 1) = [(0, EErr 7); (0, EGroup [EErr 7])].
Proof. vm_compute. reflexivity. Qed.
