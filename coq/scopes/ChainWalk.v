(* A generic walk through `Machine.step`: for any preorder R on states that contains the weak frame relation
   `frame` (nothing the timer/flag invariants look at is changed) and is satisfied by the few state transformers
   that do touch scopes' flags, deadlines or timers, every op satisfies R.  Instantiated in TimerInv.v
   (R = invariant preservation) and below (R = monotonicity of cancel_called / cancelled_caught / deadline ghost). *)
From AV Require Import Base Machine ChainFrame.

(* ---------------- the weak frame ---------------- *)
Definition is_th (h : handle) : bool :=
  match h with HSleepDone _ _ | HTimeout _ _ => true | _ => false end.
Definition ths (l : list handle) : list handle := filter is_th l.

Record tcore_eq (a b : scope) : Prop := mk_tcore_eq {
  tc_deadline : s_deadline a = s_deadline b;
  tc_cancelled : s_cancelled a = s_cancelled b;
  tc_caught : s_caught a = s_caught b;
  tc_active : s_active a = s_active b;
  tc_timeout : s_timeout a = s_timeout b;
  tc_bydeadline : s_bydeadline a = s_bydeadline b
}.

Lemma tcore_eq_refl a : tcore_eq a a.
Proof. constructor; reflexivity. Qed.

(* tm is remembered by some task sleeping in asyncio.sleep *)
Definition sleep_id (s : st) (tm : tmid) : Prop := exists t f, k_ctl (tasks s t) = CSleep f tm.

Record frame (s s' : st) : Prop := mk_frame {
  fr_timers : timers s' = timers s;
  fr_ntimer : ntimer s' = ntimer s;
  fr_now : now s' = now s;
  fr_nscope : nscope s' = nscope s;
  fr_ths : ths (ready s') = ths (ready s);
  fr_scopes : forall c, tcore_eq (scopes s' c) (scopes s c);
  fr_gscope : forall g, g_scope (groups s' g) = g_scope (groups s g);
  fr_hscope : forall t, k_hscope (tasks s' t) = k_hscope (tasks s t);
  fr_sleep : forall tm, sleep_id s' tm -> sleep_id s tm
}.

Lemma frame_refl s : frame s s.
Proof. constructor; try reflexivity; auto. intros c; apply tcore_eq_refl. Qed.

Lemma frame_trans a b c : frame a b -> frame b c -> frame a c.
Proof.
  intros [] []. constructor; try congruence; auto.
  intros x. destruct (fr_scopes0 x), (fr_scopes1 x). constructor; congruence.
Qed.

Lemma frame_intro_eq s s' :
  timers s' = timers s -> ntimer s' = ntimer s -> now s' = now s -> nscope s' = nscope s ->
  ths (ready s') = ths (ready s) -> scopes s' = scopes s -> groups s' = groups s -> tasks s' = tasks s ->
  frame s s'.
Proof.
  intros H1 H2 H3 H4 H5 H6 H7 H8. constructor; auto.
  - intros c. rewrite H6. apply tcore_eq_refl.
  - intros g. now rewrite H7.
  - intros t. now rewrite H8.
  - intros tm (t & f & H). exists t, f. now rewrite <- H8.
Qed.

Lemma ths_app l1 l2 : ths (l1 ++ l2) = ths l1 ++ ths l2.
Proof. apply filter_app. Qed.

Lemma ths_soft l : Forall soft l -> ths l = [].
Proof.
  induction 1 as [|h l Hh _ IH]; [reflexivity|]. cbn [ths filter]. fold (ths l). rewrite IH.
  destruct h; cbn in Hh; try contradiction; reflexivity.
Qed.

Lemma dframe_frame s s' : dframe s s' -> frame s s'.
Proof.
  intros H. constructor.
  - apply (df_timers _ _ H).
  - apply (df_ntimer _ _ H).
  - apply (df_now _ _ H).
  - apply (df_nscope _ _ H).
  - destruct (df_ready _ _ H) as (l & -> & Hl). now rewrite ths_app, (ths_soft l Hl), app_nil_r.
  - intros c. destruct (df_scopes _ _ H c). constructor; assumption.
  - intros g. now rewrite (df_groups _ _ H).
  - intros t. apply (te_hscope _ _ (df_tasks _ _ H t)).
  - intros tm (t & f & E). exists t, f. now rewrite <- (te_ctl _ _ (df_tasks _ _ H t)).
Qed.

(* task updates that keep the handle scope and do not invent a sleeping state *)
Definition tk_ok (g : task -> task) : Prop :=
  forall k, k_hscope (g k) = k_hscope k /\ forall f tm, k_ctl (g k) = CSleep f tm -> k_ctl k = CSleep f tm.

Lemma frame_upd_task s t g : tk_ok g -> frame s (upd_task s t g).
Proof.
  intros Hg. constructor; try reflexivity.
  - intros c. apply tcore_eq_refl.
  - intros x. cbn [upd_task set_tasks tasks]. rewrite upd_eq. destruct (Nat.eqb x t) eqn:E; [|reflexivity].
    apply Nat.eqb_eq in E. subst x. apply Hg.
  - intros tm (x & f & H). cbn [upd_task set_tasks tasks] in H. rewrite upd_eq in H.
    destruct (Nat.eqb x t) eqn:E.
    + exists t, f. now apply Hg.
    + exists x, f. exact H.
Qed.

Ltac tkok :=
  let k := fresh "k" in let f := fresh "f" in let tm := fresh "tm" in let H := fresh "H" in
  intros k; split; [reflexivity | cbn; intros f tm H; first [exact H | discriminate H]].

Definition nosleep (c : ctl) : Prop := match c with CSleep _ _ => False | _ => True end.

Lemma frame_set_ctl s t c : nosleep c -> frame s (set_ctl s t c).
Proof.
  intros Hc. apply frame_upd_task. intros k. split; [reflexivity|]. cbn. intros f tm H. subst c. destruct Hc.
Qed.

Lemma frame_upd_scope s x g : (forall c, tcore_eq (g c) c) -> frame s (upd_scope s x g).
Proof.
  intros Hg. constructor; try reflexivity; auto.
  intros y. cbn [upd_scope set_scopes scopes]. rewrite upd_eq. destruct (Nat.eqb y x) eqn:E; [|apply tcore_eq_refl].
  apply Nat.eqb_eq in E. subst y. apply Hg.
Qed.

Lemma frame_upd_group s x g : (forall k, g_scope (g k) = g_scope k) -> frame s (upd_group s x g).
Proof.
  intros Hg. constructor; try reflexivity; auto.
  - intros c. apply tcore_eq_refl.
  - intros y. cbn [upd_group set_groups groups]. rewrite upd_eq. destruct (Nat.eqb y x) eqn:E; [|reflexivity].
    apply Nat.eqb_eq in E. subst y. apply Hg.
Qed.

Lemma frame_upd_fut s f g : frame s (upd_fut s f g).
Proof. apply frame_intro_eq; reflexivity. Qed.

Lemma frame_upd_event s e g : frame s (upd_event s e g).
Proof. apply frame_intro_eq; reflexivity. Qed.

Lemma frame_set_running s r : frame s (set_running s r).
Proof. apply frame_intro_eq; reflexivity. Qed.

Lemma frame_new_fut s : frame s (fst (new_fut s)).
Proof. apply frame_intro_eq; reflexivity. Qed.

Lemma frame_call_soon s h : is_th h = false -> frame s (call_soon s h).
Proof.
  intros Hh. apply frame_intro_eq; try reflexivity. cbn [call_soon set_ready ready].
  rewrite ths_app. cbn [ths filter]. rewrite Hh. now rewrite app_nil_r.
Qed.

Lemma ths_remove_first h l : is_th h = false -> ths (remove_first h l) = ths l.
Proof.
  intros Hh. induction l as [|x l IH]; [reflexivity|]. cbn [remove_first].
  destruct (handle_eqb x h) eqn:E.
  - cbn [ths filter]. fold (ths l).
    assert (is_th x = false) as ->; [|reflexivity].
    destruct x, h; cbn in E; try discriminate; cbn in Hh; try discriminate; reflexivity.
  - cbn [ths filter]. fold (ths l) (ths (remove_first h l)). now rewrite IH.
Qed.

Lemma frame_pop s h : is_th h = false -> frame s (set_ready s (remove_first h (ready s))).
Proof.
  intros Hh. apply frame_intro_eq; try reflexivity. cbn [set_ready ready]. now apply ths_remove_first.
Qed.

Lemma frame_fut_complete s f v : frame s (fut_complete s f v).
Proof. apply dframe_frame, dframe_fut_complete. Qed.

Lemma frame_task_cancel s t o : frame s (task_cancel s t o).
Proof. apply dframe_frame, dframe_task_cancel. Qed.

Lemma frame_task_uncancel s t : frame s (task_uncancel s t).
Proof. apply dframe_frame, dframe_task_uncancel. Qed.

Lemma frame_restart s x : frame s (restart s x).
Proof. apply dframe_frame, restart_dframe. Qed.

Lemma frame_deliver_top s c : frame s (deliver_top s c).
Proof. apply dframe_frame, deliver_top_dframe. Qed.

Lemma frame_begin_act s t : frame s (begin_act s t).
Proof.
  unfold begin_act. eapply frame_trans; [|apply frame_set_running]. apply frame_upd_task. tkok.
Qed.

Lemma frame_suspend_on s t f : frame s (suspend_on s t f).
Proof.
  unfold suspend_on.
  assert (H2 : frame s (upd_task (upd_fut s f (fun x => mkFut (f_st x) (Some t))) t (tk_waiter (Some f)))).
  { eapply frame_trans; [apply frame_upd_fut|]. apply frame_upd_task. tkok. }
  destruct (f_st (futs s f)).
  - destruct (k_must (tasks s t)); [|exact H2].
    eapply frame_trans; [exact H2|]. eapply frame_trans; [apply frame_fut_complete|].
    apply frame_upd_task. tkok.
  - eapply frame_trans; [exact H2|]. now apply frame_call_soon.
  - eapply frame_trans; [exact H2|]. now apply frame_call_soon.
  - eapply frame_trans; [exact H2|]. now apply frame_call_soon.
Qed.

Lemma frame_park s t : frame s (park s t).
Proof.
  unfold park. change (new_fut s) with (fst (new_fut s), snd (new_fut s)). cbv iota.
  eapply frame_trans; [apply frame_new_fut|]. eapply frame_trans; [apply frame_suspend_on|].
  apply frame_upd_task. tkok.
Qed.

Lemma frame_ret s t r : frame s (fst (ret_to_puppet s t r)).
Proof.
  unfold ret_to_puppet. cbn [fst]. eapply frame_trans; [|apply frame_set_running].
  eapply frame_trans; [|apply frame_park].
  destruct r; try apply frame_refl. apply frame_upd_task. tkok.
Qed.

Lemma frame_blocked s : frame s (fst (blocked s)).
Proof. apply frame_set_running. Qed.

Lemma frame_bare_yield s t : frame s (bare_yield s t).
Proof. now apply frame_call_soon. Qed.

Lemma frame_fold_complete v l : forall a, frame a (fold_left (fun a f => fut_complete a f v) l a).
Proof.
  induction l as [|f l IH]; intros a; cbn [fold_left]; [apply frame_refl|].
  eapply frame_trans; [apply frame_fut_complete|apply IH].
Qed.

Lemma frame_event_set s e : frame s (event_set s e).
Proof.
  unfold event_set. destruct (e_set (events s e)); [apply frame_refl|].
  eapply frame_trans; [apply frame_upd_event|apply frame_fold_complete].
Qed.

Lemma frame_event_wait s t e : frame s (fst (event_wait s t e)).
Proof.
  unfold event_wait. destruct (e_set (events s e)); cbn [fst]; [apply frame_bare_yield|].
  change (new_fut s) with (fst (new_fut s), snd (new_fut s)). cbv iota. cbn [fst].
  eapply frame_trans; [apply frame_new_fut|]. eapply frame_trans; [apply frame_upd_event|].
  apply frame_suspend_on.
Qed.

Lemma frame_event_unwait s e fo : frame s (event_unwait s e fo).
Proof. destruct fo; [apply frame_upd_event|apply frame_refl]. Qed.

Lemma frame_finish_task s t o : frame s (finish_task s t o).
Proof.
  unfold finish_task. eapply frame_trans; [|apply frame_set_running].
  match goal with |- frame s (match ?g with Some _ => call_soon ?a _ | None => _ end) =>
    assert (H : frame s a) by (apply frame_upd_task; intros k; split; [reflexivity|cbn; intros f tm H; discriminate H]);
    destruct g; [eapply frame_trans; [exact H|now apply frame_call_soon]|exact H]
  end.
Qed.

Lemma frame_incoming s t fo : frame s (fst (incoming s t fo)).
Proof.
  unfold incoming. cbn [fst]. eapply frame_trans; [|apply frame_set_running]. apply frame_upd_task. tkok.
Qed.

(* ---------------- named pieces of step that the hypotheses talk about ---------------- *)
Definition set_deadline_body (s : st) (c : sid) (d : option Z) : st :=
  let s1 := cancel_timeout (upd_scope s c (sc_deadline d)) c in
  if s_active (scopes s1 c) && negb (s_cancelled (scopes s1 c)) then scope_timeout s1 c else s1.

Definition add_group (s : st) (c : sid) : st :=
  mkSt (tasks s) (ntask s) (scopes s) (nscope s)
       (upd (groups s) (ngroup s) (mkGroup c false [] [] None [] false)) (S (ngroup s))
       (futs s) (nfut s) (events s) (nevent s) (ready s) (timers s) (ntimer s) (now s) (running s).

Definition root_task : task :=
  mkTask CIdle true None None false 0 0 None None None 0 0 None None None None false.

Definition add_root (s : st) : st :=
  mkSt (upd (tasks s) (ntask s) root_task) (S (ntask s)) (scopes s) (nscope s) (groups s) (ngroup s) (futs s) (nfut s)
       (events s) (nevent s) (ready s) (timers s) (ntimer s) (now s) (running s).

Definition pop (s : st) (h : handle) : st := set_ready s (remove_first h (ready s)).

(* side conditions under which the individual hypotheses are required (True everywhere = no side condition) *)
Record oks : Type := mk_oks {
  ok_enter : st -> sid -> Prop;              (* AEnter: scope_enter of a scope named by the program *)
  ok_setdl : st -> sid -> option Z -> Prop;  (* ASetDeadline *)
  ok_tick : st -> Z -> Prop;                 (* ATick *)
  ok_new : option Z -> Prop;                 (* new_scope d _ followed by scope_enter (AFailAt; internally d = None) *)
  ok_genter : st -> gid -> Prop;             (* AGroupEnter: scope_enter of the group's scope *)
  ok_henter : st -> tid -> Prop;             (* first step of a child: scope_enter of its handle scope *)
  ok_trun : st -> sid -> tmid -> Prop;       (* ARun (HTimeout c tm) *)
  ok_cancel : st -> sid -> Prop              (* ACancel / AExtCancel: scope.cancel() on a scope named by the program *)
}.

Definition ok_always (e : st -> sid -> Prop) (d : st -> sid -> option Z -> Prop) (k : st -> Z -> Prop) : oks :=
  mk_oks e d k (fun _ => True) (fun _ _ => True) (fun _ _ => True) (fun _ _ _ => True) (fun _ _ => True).

Record walk_hyps (R : st -> st -> Prop) (K : oks) : Prop := mk_walk_hyps {
  wh_refl : forall s, R s s;
  wh_trans : forall a b c, R a b -> R b c -> R a c;
  wh_frame : forall a b, frame a b -> R a b;
  wh_ok_none : ok_new K None;
  wh_new_scope : forall s d sh, R s (fst (new_scope s d sh));
  wh_new_enter : forall s d sh t, ok_new K d -> R s (fst (scope_enter (fst (new_scope s d sh)) (nscope s) t));
  wh_enter : forall s c t, ok_enter K s c -> R s (fst (scope_enter s c t));
  wh_enter_g : forall s g t, ok_genter K s g -> R s (fst (scope_enter s (g_scope (groups s g)) t));
  wh_enter_h : forall s t, ok_henter K s t -> R s (fst (scope_enter s (k_hscope (tasks s t)) t));
  wh_exit : forall s c t exc, R s (fst (scope_exit s c t exc));
  wh_cancel : forall s c, ok_cancel K s c -> R s (scope_cancel s c false);
  wh_cancel_g : forall s g, R s (scope_cancel s (g_scope (groups s g)) false);
  wh_cancel_h : forall s t, R s (scope_cancel s (k_hscope (tasks s t)) false);
  wh_setdl : forall s c d, ok_setdl K s c d -> R s (set_deadline_body s c d);
  wh_group_new : forall s, R s (add_group (fst (new_scope s None false)) (nscope s));
  wh_spawn : forall s g sf, R s (fst (spawn_task s g sf));
  wh_sleep : forall s t f w, R s (set_ctl (suspend_on (fst (call_at s w (TSleep f))) t f) t (CSleep f (ntimer s)));
  wh_sleep0 : forall s t f, R s (set_ctl s t (CSleep f 0));
  wh_sleep_wake : forall s t f tm, k_ctl (tasks s t) = CSleep f tm -> R s (timer_cancel s tm);
  wh_pop_sleepdone : forall s f tm, R s (pop s (HSleepDone f tm));
  wh_timeout_run : forall s c tm, ok_trun K s c tm -> In (HTimeout c tm) (ready s) ->
                                  R s (scope_timeout (set_running (pop s (HTimeout c tm)) None) c);
  wh_add_root : forall s, R s (add_root s);
  wh_tick : forall s dt, ok_tick K s dt -> R s (tick s dt)
}.

Section Walk.
  Context {R : st -> st -> Prop} {K : oks} (W : walk_hyps R K).

  Let Rrefl := wh_refl _ _ W.
  Let Rtrans := wh_trans _ _ W.
  Let Rframe := wh_frame _ _ W.

  Lemma Rf a b c : R a b -> frame b c -> R a c.
  Proof. intros H F. eapply Rtrans; [exact H|apply Rframe, F]. Qed.

  Lemma Rf_ret a b t r : R a b -> R a (fst (ret_to_puppet b t r)).
  Proof. intros H. eapply Rf; [exact H|apply frame_ret]. Qed.

  Lemma Rf_blocked a b : R a b -> R a (fst (blocked b)).
  Proof. intros H. eapply Rf; [exact H|apply frame_blocked]. Qed.

  Lemma Rf_set_ctl a b t c : nosleep c -> R a b -> R a (set_ctl b t c).
  Proof. intros Hc H. eapply Rf; [exact H|now apply frame_set_ctl]. Qed.

  Lemma Rf_bare_yield a b t : R a b -> R a (bare_yield b t).
  Proof. intros H. eapply Rf; [exact H|apply frame_bare_yield]. Qed.

  Lemma Rf_suspend a b t f : R a b -> R a (suspend_on b t f).
  Proof. intros H. eapply Rf; [exact H|apply frame_suspend_on]. Qed.

  Lemma Rf_upd_task a b t g : tk_ok g -> R a b -> R a (upd_task b t g).
  Proof. intros Hg H. eapply Rf; [exact H|now apply frame_upd_task]. Qed.

  Lemma Rf_upd_group a b x g : (forall k, g_scope (g k) = g_scope k) -> R a b -> R a (upd_group b x g).
  Proof. intros Hg H. eapply Rf; [exact H|now apply frame_upd_group]. Qed.

  Lemma Rf_cancel a b c : ok_cancel K b c -> R a b -> R a (scope_cancel b c false).
  Proof. intros Hc H. eapply Rtrans; [exact H|now apply (wh_cancel _ _ W)]. Qed.

  Lemma Rf_cancel_g a b g : R a b -> R a (scope_cancel b (g_scope (groups b g)) false).
  Proof. intros H. eapply Rtrans; [exact H|apply (wh_cancel_g _ _ W)]. Qed.

  Lemma Rf_cancel_h a b h : R a b -> R a (scope_cancel b (k_hscope (tasks b h)) false).
  Proof. intros H. eapply Rtrans; [exact H|apply (wh_cancel_h _ _ W)]. Qed.

  Lemma Rp_exit a b c t exc s1 x : scope_exit b c t exc = (s1, x) -> R a b -> R a s1.
  Proof.
    intros E H. eapply Rtrans; [exact H|]. replace s1 with (fst (scope_exit b c t exc)) by now rewrite E.
    apply (wh_exit _ _ W).
  Qed.

  Lemma Rp_new_scope a b d sh s1 c : new_scope b d sh = (s1, c) -> R a b -> R a s1.
  Proof.
    intros E H. eapply Rtrans; [exact H|]. replace s1 with (fst (new_scope b d sh)) by now rewrite E.
    apply (wh_new_scope _ _ W).
  Qed.

  (* new_scope immediately followed by scope_enter of the fresh scope *)
  Lemma Rp_new_enter a b d sh t s1 c :
    ok_new K d -> new_scope b d sh = (s1, c) -> R a b -> R a (fst (scope_enter s1 c t)).
  Proof.
    intros Hd E H. eapply Rtrans; [exact H|]. injection E as <- <-.
    apply (wh_new_enter _ _ W b d sh t Hd).
  Qed.

  Let OkN := wh_ok_none _ _ W.

  Lemma Rp_new_fut a b s1 f : new_fut b = (s1, f) -> R a b -> R a s1.
  Proof.
    intros E H. eapply Rf; [exact H|]. replace s1 with (fst (new_fut b)) by now rewrite E. apply frame_new_fut.
  Qed.

  Lemma Rp_spawn a b g sf s1 c : spawn_task b g sf = (s1, c) -> R a b -> R a s1.
  Proof.
    intros E H. eapply Rtrans; [exact H|]. replace s1 with (fst (spawn_task b g sf)) by now rewrite E.
    apply (wh_spawn _ _ W).
  Qed.

  Lemma Rp_event_wait a b t e s1 f : event_wait b t e = (s1, f) -> R a b -> R a s1.
  Proof.
    intros E H. eapply Rf; [exact H|]. replace s1 with (fst (event_wait b t e)) by now rewrite E.
    apply frame_event_wait.
  Qed.

  Ltac dpair s1 x E :=
    match goal with
    | |- context [let '(_, _) := ?X in _] => destruct X as [s1 x] eqn:E
    end.

  Lemma R_aexit_raise a s t g e : R a s -> R a (fst (aexit_raise s t g e)).
  Proof.
    intros H. unfold aexit_raise. dpair s1 x E. pose proof (Rp_exit _ _ _ _ _ _ _ E H) as H1.
    assert (H2 : R a (upd_group s1 g (gr_left true))) by (apply Rf_upd_group; auto).
    destruct x; cbn [fst]; auto. apply Rf_upd_task; [tkok|exact H2].
  Qed.

  Lemma R_aexit_finish a s t g exc : R a s -> R a (fst (aexit_finish s t g exc)).
  Proof.
    intros H. unfold aexit_finish. destruct (map snd (g_excs (groups s g))) as [|y l].
    - destruct exc as [e|]; [now apply R_aexit_raise|].
      dpair s1 x E. pose proof (Rp_exit _ _ _ _ _ _ _ E H) as H1.
      assert (H2 : R a (upd_group s1 g (gr_left true))) by (apply Rf_upd_group; auto).
      destruct x; cbn [fst]; exact H2.
    - now apply R_aexit_raise.
  Qed.

  Lemma R_aexit_raise_ret a s t g e :
    R a s -> R a (fst (let '(s2, r) := aexit_raise s t g e in ret_to_puppet s2 t r)).
  Proof.
    intros H. pose proof (R_aexit_raise a s t g e H) as H1.
    destruct (aexit_raise s t g e) as [s2 r]. cbn [fst] in H1. now apply Rf_ret.
  Qed.

  Lemma R_aexit_finish_ret a s t g exc :
    R a s -> R a (fst (let '(s2, r) := aexit_finish s t g exc in ret_to_puppet s2 t r)).
  Proof.
    intros H. pose proof (R_aexit_finish a s t g exc H) as H1.
    destruct (aexit_finish s t g exc) as [s2 r]. cbn [fst] in H1. now apply Rf_ret.
  Qed.

  Lemma R_aexit_wait a s t g ws exc : R a s -> R a (fst (aexit_wait_or_finish s t g ws exc)).
  Proof.
    intros H. unfold aexit_wait_or_finish. destruct (g_tasks (groups s g)) as [|y l].
    - destruct ws as [w|]; [|now apply R_aexit_finish_ret].
      dpair s1 x E. pose proof (Rp_exit _ _ _ _ _ _ _ E H) as H1.
      destruct x; [now apply R_aexit_finish_ret|now apply R_aexit_finish_ret|now apply R_aexit_raise_ret].
    - assert (H0 : R a (fst (match ws with
                             | Some w => (s, w)
                             | None => let '(a0, w) := new_scope s None false in (fst (scope_enter a0 w t), w)
                             end))).
      { destruct ws as [w|]; [exact H|]. destruct (new_scope s None false) as [a0 w] eqn:E. cbn [fst].
        eapply Rp_new_enter; eauto. }
      destruct (match ws with
                | Some w => (s, w)
                | None => let '(a0, w) := new_scope s None false in (fst (scope_enter a0 w t), w)
                end) as [s0 w]. cbn [fst] in H0.
      dpair s1 f E. pose proof (Rp_new_fut _ _ _ _ E H0) as H1.
      apply Rf_blocked, Rf_set_ctl; [exact I|]. apply Rf_suspend, Rf_upd_group; auto.
  Qed.

  (* ---------------- puppet ops ---------------- *)
  Lemma R_puppet_op s0 t o :
    match o with
    | AEnter _ c => ok_enter K (begin_act s0 t) c
    | ASetDeadline _ c d => ok_setdl K (begin_act s0 t) c d
    | AFailAt _ d _ => ok_new K d
    | AGroupEnter _ g => ok_genter K (upd_group (begin_act s0 t) g (gr_entered true)) g
    | ACancel _ c => ok_cancel K (begin_act s0 t) c
    | _ => True
    end -> R s0 (fst (puppet_op s0 t o)).
  Proof.
    intros OK. assert (B : R s0 (begin_act s0 t)) by (apply Rframe, frame_begin_act).
    unfold puppet_op. set (s := begin_act s0 t) in *. destruct o; try (cbn [fst]; apply Rrefl).
    - (* ANewScope *) dpair s1 c E. apply Rf_ret. eapply Rp_new_scope; eauto.
    - (* AEnter *) dpair s1 e E. apply Rf_ret. eapply Rtrans; [exact B|].
      replace s1 with (fst (scope_enter s c t)) by now rewrite E. now apply (wh_enter _ _ W).
    - (* AExit *) dpair s1 x E. pose proof (Rp_exit _ _ _ _ _ _ _ E B) as H1.
      destruct x; try (now apply Rf_ret).
      assert (H2 : R s0 (upd_task s1 t (tk_held None))) by (apply Rf_upd_task; [tkok|exact H1]).
      destruct (_ && _); now apply Rf_ret.
    - (* ACancel *) apply Rf_ret, Rf_cancel; [exact OK|exact B].
    - (* ASetShield *) destruct (Bool.eqb _ _); [now apply Rf_ret|]. apply Rf_ret.
      assert (H1 : R s0 (upd_scope s c (sc_shield b))).
      { eapply Rf; [exact B|]. apply frame_upd_scope. intros k; constructor; reflexivity. }
      destruct b; [exact H1|]. eapply Rf; [exact H1|apply frame_restart].
    - (* ASetDeadline *) change (R s0 (fst (ret_to_puppet (set_deadline_body s c d) t (RRet 0)))).
      apply Rf_ret. eapply Rtrans; [exact B|]. now apply (wh_setdl _ _ W).
    - (* AGroupNew *) dpair s1 c E. apply Rf_ret.
      change (R s0 (add_group s1 c)). injection E as <- <-. apply Rtrans with s; [exact B|].
      change (R s (add_group (fst (new_scope s None false)) (nscope s))). apply (wh_group_new _ _ W).
    - (* AGroupEnter *) destruct (g_entered (groups s g)); [now apply Rf_ret|].
      dpair s2 e E. apply Rf_ret.
      assert (H1 : R s0 (upd_group s g (gr_entered true))) by (apply Rf_upd_group; auto).
      eapply Rtrans; [exact H1|].
      replace s2 with (fst (scope_enter (upd_group s g (gr_entered true))
                                        (g_scope (groups (upd_group s g (gr_entered true)) g)) t)) by now rewrite E.
      apply (wh_enter_g _ _ W). exact OK.
    - (* AGroupExit *)
      assert (H1 : R s0 (match k_held (tasks s t) with
                         | Some e => if is_cancel e then scope_cancel s (g_scope (groups s g)) false
                                     else upd_group (scope_cancel s (g_scope (groups s g)) false) g
                                            (fun x => gr_excs (g_excs x ++ [(0, e)]) x)
                         | None => s
                         end)).
      { destruct (k_held (tasks s t)) as [e|]; [|exact B]. destruct (is_cancel e); [now apply Rf_cancel_g|].
        apply Rf_upd_group; auto. now apply Rf_cancel_g. }
      set (s1 := match k_held (tasks s t) with Some e => _ | None => s end) in *.
      destruct (g_tasks (groups s1 g)); [|now apply R_aexit_wait].
      dpair s2 c E. apply Rf_blocked, Rf_set_ctl; [exact I|]. apply Rf_bare_yield. eapply Rp_new_enter; eauto.
    - (* ASpawn *) destruct (negb _); [now apply Rf_ret|]. dpair s1 c E. apply Rf_ret. eapply Rp_spawn; eauto.
    - (* AStart *) destruct (negb _); [now apply Rf_ret|]. dpair s1 f E. dpair s2 c E2.
      apply Rf_blocked, Rf_set_ctl; [exact I|]. apply Rf_suspend. eapply Rp_spawn; eauto. eapply Rp_new_fut; eauto.
    - (* AStarted *) destruct (k_startfut (tasks s t)) as [f|]; [|now apply Rf_ret].
      destruct (f_st (futs s f)); try (now apply Rf_ret). apply Rf_ret. eapply Rf; [exact B|apply frame_fut_complete].
    - (* AHandleCancel *) destruct (e_set _); [now apply Rf_ret|]. apply Rf_ret, Rf_cancel_h, B.
    - (* AHandleWait *) dpair s1 f E. apply Rf_blocked, Rf_set_ctl; [exact I|]. eapply Rp_event_wait; eauto.
    - (* AYield *) apply Rf_blocked, Rf_set_ctl; [exact I|]. now apply Rf_bare_yield.
    - (* ACkIf *) destruct (ckif_spins _ _ _); [|now apply Rf_ret].
      apply Rf_blocked, Rf_set_ctl; [exact I|]. now apply Rf_bare_yield.
    - (* AShieldCk *) dpair s1 c E. apply Rf_blocked, Rf_set_ctl; [exact I|]. apply Rf_bare_yield.
      eapply Rp_new_enter; eauto.
    - (* ASleep *) dpair s1 f E. pose proof (Rp_new_fut _ _ _ _ E B) as H1. destruct d as [dt|].
      + dpair s2 tm E2. apply Rf_blocked. injection E2 as <- <-. eapply Rtrans; [exact H1|].
        apply (wh_sleep _ _ W).
      + apply Rf_blocked. eapply Rtrans; [apply Rf_suspend; exact H1|]. apply (wh_sleep0 _ _ W).
    - (* AHold *) apply Rf_ret, Rf_upd_task; [tkok|exact B].
    - (* ADrop *) apply Rf_ret, Rf_upd_task; [tkok|exact B].
    - (* AWrap *) apply Rf_ret, Rf_upd_task; [tkok|exact B].
    - (* AUncancel *) apply Rf_ret. eapply Rf; [exact B|apply frame_task_uncancel].
    - (* AEffDeadline *) cbn [fst]. eapply Rf; [|apply frame_set_running]. eapply Rf; [exact B|apply frame_park].
    - (* AFailAt *) dpair s1 c E. dpair s2 e E2. apply Rf_ret.
      replace s2 with (fst (scope_enter s1 c t)) by now rewrite E2. eapply Rp_new_enter; eauto.
  Qed.

  Lemma Rf_finish_task a b t o : R a b -> R a (finish_task b t o).
  Proof. intros H. eapply Rf; [exact H|apply frame_finish_task]. Qed.

  Lemma R_puppet_finish s0 t v : R s0 (fst (puppet_finish s0 t v)).
  Proof.
    assert (B : R s0 (begin_act s0 t)) by (apply Rframe, frame_begin_act).
    unfold puppet_finish. set (s := begin_act s0 t) in *. cbv zeta.
    assert (H1 : forall raw, R s0 (upd_task s t (tk_final (Some raw)))) by (intros; apply Rf_upd_task; [tkok|exact B]).
    destruct (k_group (tasks s t)); [|cbn [fst]; now apply Rf_finish_task].
    dpair s4 x E.
    assert (H4 : R s0 s4).
    { eapply Rp_exit; [exact E|]. eapply Rf; [|apply frame_event_set]. apply Rf_upd_task; [|apply H1].
      destruct (k_held (tasks s t)); tkok. }
    destruct x; cbn [fst]; now apply Rf_finish_task.
  Qed.

  (* ---------------- resumption ---------------- *)
  Lemma R_resume s0 t fo :
    ok_henter K (upd_task (fst (incoming s0 t fo)) t (tk_started true)) t -> R s0 (fst (resume s0 t fo)).
  Proof.
    intros Hh. unfold resume. pose proof (frame_incoming s0 t fo) as F. destruct (incoming s0 t fo) as [s inc].
    cbn [fst] in F, Hh.
    assert (B : R s0 s) by (apply Rframe, F).
    destruct (k_ctl (tasks s t)) as [| |k|f tm|g ws exc|g c exc|g child f|child c e wf|h wf|] eqn:Ectl.
    - (* CNew *)
      assert (H1 : R s0 (upd_task s t (tk_started true))) by (apply Rf_upd_task; [tkok|exact B]).
      destruct inc as [e|]; cbn [fst]; [now apply Rf_finish_task|].
      eapply Rf; [|apply frame_set_running]. eapply Rf; [|apply frame_park].
      destruct (k_group (tasks (upd_task s t (tk_started true)) t)); [|exact H1].
      eapply Rtrans; [exact H1|apply (wh_enter_h _ _ W); exact Hh].
    - (* CIdle *) cbn [fst]. eapply Rf; [|apply frame_set_running]. eapply Rf; [|apply frame_park].
      destruct inc; [apply Rf_upd_task; [tkok|exact B]|exact B].
    - (* CYield *) destruct k as [| |c].
      + now apply Rf_ret.
      + destruct inc; [now apply Rf_ret|]. destruct (ckif_spins _ _ _); [|now apply Rf_ret].
        apply Rf_blocked. now apply Rf_bare_yield.
      + dpair s1 x E. pose proof (Rp_exit _ _ _ _ _ _ _ E B) as H1. destruct x; now apply Rf_ret.
    - (* CSleep *) apply Rf_ret. eapply Rtrans; [exact B|]. eapply (wh_sleep_wake _ _ W); eauto.
    - (* CAexitWait *)
      assert (H1 : R s0 (upd_group s g (gr_fut None))) by (apply Rf_upd_group; auto).
      destruct inc as [e|]; [|now apply R_aexit_wait].
      apply R_aexit_wait. apply Rf_cancel_g. eapply Rf; [exact H1|].
      apply frame_upd_scope. intros k; constructor; reflexivity.
    - (* CAexitCk *)
      dpair s1 x E. pose proof (Rp_exit _ _ _ _ _ _ _ E B) as H1.
      destruct x as [| |e'].
      + destruct inc; now apply R_aexit_wait.
      + destruct inc as [e|]; [|now apply R_aexit_wait].
        destruct (is_cancel e); [|now apply R_aexit_raise_ret].
        apply R_aexit_wait. now apply Rf_cancel_g.
      + destruct inc; now apply R_aexit_raise_ret.
    - (* CStartWait *)
      destruct inc as [e|]; [|now apply Rf_ret].
      destruct (handle_pending s child); [|destruct (f_st (futs s _)); now apply Rf_ret].
      dpair s2 c E. dpair s4 wf E4. apply Rf_blocked, Rf_set_ctl; [exact I|].
      eapply Rp_event_wait; [exact E4|]. eapply Rp_new_enter; [exact OkN|exact E|]. now apply Rf_cancel_h.
    - (* CStartJoin *)
      dpair s2 x E.
      assert (H2 : R s0 s2).
      { eapply Rp_exit; [exact E|]. eapply Rf; [exact B|apply frame_event_unwait]. }
      destruct x; [now apply Rf_ret| |now apply Rf_ret]. destruct inc; now apply Rf_ret.
    - (* CHandleWait *) apply Rf_ret. eapply Rf; [exact B|apply frame_event_unwait].
    - (* CDone *) cbn [fst]. apply Rrefl.
  Qed.

  (* ---------------- callbacks ---------------- *)
  Lemma R_run_task_done s0 t : R s0 (run_task_done s0 t).
  Proof.
    unfold run_task_done. cbv zeta.
    assert (B : R s0 (set_running s0 None)) by (apply Rframe, frame_set_running).
    set (s := set_running s0 None) in *.
    destruct (k_group (tasks s t)) as [g|]; [|exact B].
    set (s1 := match k_cur (tasks s t) with
               | Some c => upd_scope s c (fun x => sc_tasks (del t (s_tasks x)) x)
               | None => s
               end).
    assert (H1 : R s0 s1).
    { unfold s1. destruct (k_cur (tasks s t)); [|exact B].
      eapply Rf; [exact B|]. apply frame_upd_scope. intros k; constructor; reflexivity. }
    set (s3 := upd_task (upd_group s1 g (fun x => gr_tasks (del t (g_tasks x)) x)) t (fun x => tk_tdran true (tk_cur None x))).
    assert (H3 : R s0 s3).
    { unfold s3. apply Rf_upd_task; [tkok|]. apply Rf_upd_group; auto. }
    set (s4 := match g_fut (groups s3 g), g_tasks (groups s3 g) with
               | Some f, [] => fut_complete s3 f (FRes 0)
               | _, _ => s3
               end).
    assert (H4 : R s0 s4).
    { unfold s4. destruct (g_fut (groups s3 g)); [|exact H3]. destruct (g_tasks (groups s3 g)); [|exact H3].
      eapply Rf; [exact H3|apply frame_fut_complete]. }
    assert (HC : forall a, R s0 a -> R s0 (if eff_cancelled a (g_scope (groups a g)) then a
                                           else scope_cancel a (g_scope (groups a g)) false)).
    { intros a Ha. destruct (eff_cancelled a _); [exact Ha|now apply Rf_cancel_g]. }
    assert (HC2 : forall a, R s0 a -> R s0 (if s_cancelled (scopes a (g_scope (groups a g))) then a
                                            else scope_cancel a (g_scope (groups a g)) false)).
    { intros a Ha. destruct (s_cancelled _); [exact Ha|now apply Rf_cancel_g]. }
    assert (HG : forall e, R s0 (upd_group s4 g (fun x => gr_excs (g_excs x ++ [(t, e)]) x)))
      by (intros; apply Rf_upd_group; auto).
    assert (HF : forall f v, R s0 (fut_complete s4 f v)) by (intros; eapply Rf; [exact H4|apply frame_fut_complete]).
    destruct (match k_done (tasks s t) with
              | Some (OExc e) => Some e
              | Some (OCanc e) => Some e
              | _ => None
              end) as [e|].
    - destruct (k_startfut (tasks s t)) as [f|].
      + destruct (f_st (futs s4 f)).
        * apply HF.
        * destruct (is_cancel e); [apply HC; exact H4|apply HC2, HG].
        * destruct (is_cancel e); [apply HC; exact H4|apply HC2, HG].
        * destruct (is_cancel e); [exact H4|]. apply HC2, HG.
      + destruct (is_cancel e); [apply HC; exact H4|apply HC2, HG].
    - destruct (k_startfut (tasks s t)) as [f|]; [|exact H4].
      destruct (f_st (futs s4 f)); [apply HF|exact H4|exact H4|exact H4].
  Qed.

  Definition run_ok (s0 : st) (h : handle) : Prop :=
    match h with
    | HStep t => ok_henter K (upd_task (fst (incoming (pop s0 h) t None)) t (tk_started true)) t
    | HWake t f => ok_henter K (upd_task (fst (incoming (pop s0 h) t (Some f))) t (tk_started true)) t
    | HTimeout c tm => ok_trun K s0 c tm
    | _ => True
    end.

  Lemma R_run_handle s0 h : run_ok s0 h -> R s0 (fst (run_handle s0 h)).
  Proof.
    intros OK. unfold run_handle. destruct (negb (existsb (handle_eqb h) (ready s0))) eqn:Ein; [cbn [fst]; apply Rrefl|].
    cbv zeta. fold (pop s0 h).
    assert (P : forall h, is_th h = false -> R s0 (pop s0 h)) by (intros h' Hh; apply Rframe, frame_pop, Hh).
    destruct h as [t|t f|c|t|f tm|c tm].
    - apply Rtrans with (pop s0 (HStep t)); [now apply P|apply R_resume; exact OK].
    - apply Rtrans with (pop s0 (HWake t f)); [now apply P|apply R_resume; exact OK].
    - cbn [fst]. eapply Rf; [|apply frame_set_running]. eapply Rf; [|apply frame_deliver_top].
      eapply Rf; [|apply frame_set_running]. now apply P.
    - cbn [fst]. apply Rtrans with (pop s0 (HTaskDone t)); [now apply P|apply R_run_task_done].
    - cbn [fst]. eapply Rf; [|apply frame_fut_complete]. apply (wh_pop_sleepdone _ _ W).
    - cbn [fst]. eapply Rf; [|apply frame_set_running]. apply (wh_timeout_run _ _ W); [exact OK|].
      apply negb_false_iff, existsb_exists in Ein. destruct Ein as (x & Hx & E).
      destruct x; cbn in E; try discriminate. apply andb_true_iff in E. destruct E as [E1 E2].
      apply Nat.eqb_eq in E1, E2. now subst.
  Qed.

  Lemma R_new_root s : R s (fst (new_root s)).
  Proof.
    unfold new_root. cbv zeta. cbn [fst]. eapply Rf; [|apply frame_set_running]. eapply Rf; [|apply frame_park].
    apply (wh_add_root _ _ W).
  Qed.

  Definition op_ok (s : st) (o : op) : Prop :=
    match o with
    | AEnter t c => ok_enter K (begin_act s t) c
    | ASetDeadline t c d => ok_setdl K (begin_act s t) c d
    | AFailAt t d _ => ok_new K d
    | AGroupEnter t g => ok_genter K (upd_group (begin_act s t) g (gr_entered true)) g
    | ACancel t c => ok_cancel K (begin_act s t) c
    | AExtCancel c => ok_cancel K (set_running s None) c
    | ARun h => run_ok s h
    | ATick dt => ok_tick K s dt
    | _ => True
    end.

  Theorem walk_step s o : op_ok s o -> R s (fst (step s o)).
  Proof.
    intros OK. unfold step. destruct (actor o) as [t|] eqn:Ea.
    - destruct (negb (idle s t)); [cbn [fst]; apply Rrefl|].
      assert (Et : forall t' , actor o = Some t' -> t' = t) by (intros t' E'; congruence).
      destruct o; try discriminate Ea; cbn [actor] in Ea; injection Ea as ->;
        try (apply R_puppet_op; exact OK || exact I).
      apply R_puppet_finish.
    - destruct o; try discriminate Ea; try (cbn [fst]; apply Rrefl).
      + apply R_new_root.
      + cbn [fst]. apply Rframe, frame_task_cancel.
      + cbn [fst]. eapply Rf; [|apply frame_set_running]. apply Rf_cancel; [exact OK|]. apply Rframe, frame_set_running.
      + apply R_run_handle. exact OK.
      + destruct (Z.ltb dt 0); cbn [fst]; [apply Rrefl|]. now apply (wh_tick _ _ W).
  Qed.
End Walk.

(* with only the three classic side conditions, the other ops are unconditional *)
Lemma op_ok_always e d k s o :
  match o with
  | AEnter t c => e (begin_act s t) c
  | ASetDeadline t c dl => d (begin_act s t) c dl
  | ATick dt => k s dt
  | _ => True
  end -> @op_ok (ok_always e d k) s o.
Proof. destruct o; cbn; auto. destruct h; cbn; auto. Qed.
