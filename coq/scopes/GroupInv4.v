(* Building blocks of a step (begin/suspend/yield/park/allocate/complete ...) preserve the mid-step invariant MInv. *)
From AV Require Import Base Machine GroupInv GroupInv2 GroupInv3.

Ltac tcase x t := cbn [upd_task set_tasks set_running set_ctl set_ready call_soon bare_yield tasks]; unfold upd;
  destruct (Nat.eqb_spec x t).

Ltac tkc := cbn [k_ctl k_started k_done k_waiter k_must k_msg k_ncancel k_cur k_held k_group k_hscope
  k_hevent k_hexc k_hret k_startfut k_final k_tdran tk_ctl tk_started tk_done tk_waiter tk_must tk_ncancel
  tk_cur tk_held tk_hres tk_final tk_tdran f_st f_waiter].
Tactic Notation "tkc" "in" hyp(H) := cbn [k_ctl k_started k_done k_waiter k_must k_msg k_ncancel k_cur k_held
  k_group k_hscope k_hevent k_hexc k_hret k_startfut k_final k_tdran tk_ctl tk_started tk_done tk_waiter tk_must
  tk_ncancel tk_cur tk_held tk_hres tk_final tk_tdran f_st f_waiter] in H.

Lemma running_none_ne (s : st) t : running s = None -> running s <> Some t.
Proof. intros ->. discriminate. Qed.

Lemma K_run_waiter s t : KInv s -> running s = Some t -> k_waiter (tasks s t) = None.
Proof.
  intros K Hr. destruct (k_waiter (tasks s t)) as [f|] eqn:E; [|reflexivity].
  destruct (k_w1 s K t f E) as [_ [_ [H _]]]. contradiction.
Qed.

(* ---------------- a task starts running (begin_act / incoming) ---------------- *)
Definition clears_waiter (g : task -> task) : Prop :=
  forall k, k_waiter (g k) = None /\ cview (g k) = cview k /\ k_cur (g k) = k_cur k.

Lemma clears_kview g : clears_waiter g -> forall k, k_done (g k) = k_done k /\ k_tdran (g k) = k_tdran k /\
  k_group (g k) = k_group k /\ k_ctl (g k) = k_ctl k /\ k_startfut (g k) = k_startfut k.
Proof. intros H k. destruct (H k) as [_ [Hc _]]. pose proof (cview_inv _ _ Hc). tauto. Qed.

Lemma K_start_running s t g : KInv s -> running s = None -> clears_waiter g ->
  ~ In t (thtasks (ready s)) -> k_done (tasks s t) = None -> alloc s t ->
  (forall f, k_waiter (tasks s t) = Some f -> ~ refd s f \/ f_st (futs s f) <> FPend) ->
  KInv (set_running (upd_task s t g) (Some t)).
Proof.
  intros K Hrun Hg Hnt Hd Hal Hw.
  set (s' := set_running (upd_task s t g) (Some t)).
  assert (Vo : forall x, x <> t -> tasks s' x = tasks s x).
  { intros x Hx. unfold s'. tcase x t; [contradiction|reflexivity]. }
  assert (Vt : tasks s' t = g (tasks s t)).
  { unfold s'. tcase t t; [reflexivity|contradiction]. }
  assert (Hrefd : forall f, refd s' f -> refd s f).
  { apply refd_mono.
    - intros e f H. exact H.
    - intros g0 f H. exists g0. exact H.
    - intros c f H. exists c. destruct (Nat.eq_dec c t) as [->|Hc].
      + rewrite Vt in H. destruct (clears_kview g Hg (tasks s t)) as [_ [_ [_ [_ E]]]]. now rewrite <- E.
      + now rewrite (Vo c Hc) in H.
    - intros f H. exact H. }
  assert (Hin : forall x f, In (HWake x f) (ready s) -> x <> t).
  { intros x f H ->. apply Hnt, in_thtasks. eauto. }
  assert (Hin2 : forall x, In (HStep x) (ready s) -> x <> t).
  { intros x H ->. apply Hnt, in_thtasks. eauto. }
  constructor; unfold alloc; change (ready s') with (ready s); change (futs s') with (futs s);
    change (nfut s') with (nfut s); change (ntask s') with (ntask s); change (running s') with (Some t).
  - apply K.
  - apply K.
  - intros x f H. rewrite (Vo x (Hin x f H)). apply (k_wake s K x f H).
  - intros x H. pose proof (Hin2 x H) as Hx. rewrite (Vo x Hx).
    destruct (k_step s K x H) as [H1 [H2 [H3 H4]]]. refine (conj H1 (conj H2 (conj _ H4))). congruence.
  - intros x f H. destruct (Nat.eq_dec x t) as [->|Hx].
    + rewrite Vt in H. destruct (Hg (tasks s t)) as [E _]. congruence.
    + rewrite (Vo x Hx) in *. destruct (k_w1 s K x f H) as [H1 [H2 [H3 H4]]].
      refine (conj H1 (conj H2 (conj _ H4))). congruence.
  - intros x f H. destruct (Nat.eq_dec x t) as [->|Hx].
    + rewrite Vt in H. destruct (Hg (tasks s t)) as [E _]. congruence.
    + rewrite (Vo x Hx) in *. apply (k_pend s K x f H).
  - intros x Hx. injection Hx as <-. rewrite Vt. destruct (clears_kview g Hg (tasks s t)) as [-> _]. auto.
  - intros x H. destruct (Nat.eq_dec x t) as [->|Hx].
    + rewrite Vt. destruct (clears_kview g Hg (tasks s t)) as [-> [-> [-> _]]]. apply (k_td s K t H).
    + rewrite (Vo x Hx). apply (k_td s K x H).
  - intros f Hx. apply Hrefd in Hx. destruct (k_ref s K f Hx) as [H1 H2]. split; [exact H1|].
    intros Hp x Hwx. specialize (H2 Hp x Hwx). destruct (Nat.eq_dec x t) as [->|Hxt].
    + destruct (Hw f H2) as [H|H]; contradiction.
    + now rewrite (Vo x Hxt).
  - intros x f H1 H2 Hx. apply Hrefd in Hx. destruct (Nat.eq_dec x t) as [->|Hxt].
    + rewrite Vt in H2. destruct (Hg (tasks s t)) as [E _]. congruence.
    + rewrite (Vo x Hxt) in *. eapply k_idle; eauto.
Qed.

Lemma M_start_running s t g : MInv s -> running s = None -> clears_waiter g ->
  ~ In t (thtasks (ready s)) -> k_done (tasks s t) = None -> alloc s t ->
  (forall f, k_waiter (tasks s t) = Some f -> ~ refd s f \/ f_st (futs s f) <> FPend) ->
  MInv (set_running (upd_task s t g) (Some t)).
Proof.
  intros [K Ci G J] Hrun Hg Hnt Hd Hal Hw.
  assert (Hcv : forall x, cview (tasks (set_running (upd_task s t g) (Some t)) x) = cview (tasks s x)).
  { intros x. tcase x t; [subst; apply Hg|reflexivity]. }
  constructor.
  - apply K_start_running; auto.
  - revert Ci. apply C_ext2; try (cbn; lia); auto.
    + intros x Hx. cbn [running set_running] in Hx. tcase x t; [subst; congruence|reflexivity].
    + intros x _. now apply running_none_ne.
    + intros x c Hr Ht. split; [|auto]. tcase x t; [|reflexivity]. subst. apply Hg.
  - revert G. apply G_ext; try (cbn; lia); auto.
    + intros x. specialize (Hcv x). pose proof (cview_inv _ _ Hcv) as V. unfold gview.
      destruct V as [_ [-> [-> [_ [_ [_ [_ [-> [_ ->]]]]]]]]]. reflexivity.
  - revert J. apply J_ext; auto.
    intros x _. now apply running_none_ne.
Qed.

Lemma M_begin_act s t : Inv s -> idle s t = true ->
  MInv (begin_act s t) /\ running (begin_act s t) = Some t /\ k_ctl (tasks s t) = CIdle /\ alloc s t.
Proof.
  intros [M Hrun] Hi. unfold idle in Hi.
  destruct (k_ctl (tasks s t)) eqn:Ec; try discriminate.
  destruct (k_waiter (tasks s t)) as [f|] eqn:Ew; try discriminate.
  apply andb_prop in Hi. destruct Hi as [Hi H0]. apply andb_prop in Hi. destruct Hi as [Hp Hlt].
  apply Nat.ltb_lt in H0, Hlt.
  assert (Hpend : f_st (futs s f) = FPend).
  { unfold fut_pending in Hp. destruct (f_st (futs s f)); try discriminate. reflexivity. }
  assert (Hal : alloc s t) by (split; assumption).
  refine (conj _ (conj eq_refl (conj eq_refl Hal))).
  unfold begin_act. pose proof (m_k s M) as K.
  apply M_start_running; auto.
  - intros k. cbn. auto.
  - eapply k_pend; eauto.
  - apply (k_w1 s K t f Ew).
  - intros f0 E0. left. rewrite Ew in E0. injection E0 as <-. eapply k_idle; eauto.
Qed.

(* ---------------- state equivalence: same components, task table pointwise equal ---------------- *)
Record seq (s s' : st) : Prop := {
  sq_tasks : forall t, tasks s' t = tasks s t;
  sq_ntask : ntask s' = ntask s; sq_scopes : scopes s' = scopes s; sq_nscope : nscope s' = nscope s;
  sq_groups : groups s' = groups s; sq_ngroup : ngroup s' = ngroup s; sq_futs : futs s' = futs s;
  sq_nfut : nfut s' = nfut s; sq_events : events s' = events s; sq_nevent : nevent s' = nevent s;
  sq_ready : ready s' = ready s; sq_timers : timers s' = timers s; sq_running : running s' = running s
}.

Lemma sleepref_seq s s' : seq s s' -> forall f, sleepref s' f -> sleepref s f.
Proof. intros Q f. unfold sleepref. now rewrite (sq_ready _ _ Q), (sq_timers _ _ Q). Qed.

Lemma M_seq s s' : seq s s' -> MInv s -> MInv s'.
Proof.
  intros Q [K Ci G J]. constructor.
  - revert K. apply KInv_mono; try apply Q.
    + intros t. now rewrite (sq_tasks _ _ Q).
    + now rewrite (sq_ready _ _ Q).
    + now rewrite (sq_ready _ _ Q).
    + intros h _. now rewrite (sq_ready _ _ Q).
    + intros f tm. now rewrite (sq_ready _ _ Q).
    + intros x f. now rewrite (sq_timers _ _ Q).
  - revert Ci. apply C_ext; try apply Q.
    + intros t. now rewrite (sq_tasks _ _ Q).
    + intros t c _ _. now rewrite (sq_tasks _ _ Q), (sq_scopes _ _ Q).
    + intros e. now rewrite (sq_events _ _ Q).
    + rewrite (sq_nscope _ _ Q). lia.
    + rewrite (sq_nevent _ _ Q). lia.
  - revert G. apply G_ext.
    + intros t. now rewrite (sq_tasks _ _ Q).
    + intros g. now rewrite (sq_groups _ _ Q).
    + intros f e _. now rewrite (sq_futs _ _ Q).
    + rewrite (sq_ntask _ _ Q). lia.
    + rewrite (sq_nscope _ _ Q). lia.
    + rewrite (sq_nfut _ _ Q). lia.
  - revert J. apply J_ext.
    + intros t. now rewrite (sq_tasks _ _ Q).
    + intros g. now rewrite (sq_groups _ _ Q).
    + apply Q.
    + apply sleepref_seq, Q.
    + intros f v. now rewrite (sq_futs _ _ Q).
    + intros t. now rewrite (sq_running _ _ Q).
Qed.

(* ---------------- fut_complete commutes with task/running updates ---------------- *)
Lemma fc_set_running s r f v : fut_complete (set_running s r) f v = set_running (fut_complete s f v) r.
Proof.
  unfold fut_complete. cbn [futs set_running]. destruct (f_st (futs s f)); try reflexivity.
  destruct (f_waiter (futs s f)); reflexivity.
Qed.

Lemma fc_upd_task s t g f v : fut_complete (upd_task s t g) f v = upd_task (fut_complete s f v) t g.
Proof.
  unfold fut_complete. cbn [futs upd_task set_tasks]. destruct (f_st (futs s f)); try reflexivity.
  destruct (f_waiter (futs s f)); reflexivity.
Qed.

(* fut_complete with a cancellation + clearing the must-cancel flag preserves MInv *)
Lemma M_fut_cancel s f o : MInv s ->
  (f_st (futs s f) = FPend -> forall t, f_waiter (futs s f) = Some t -> k_waiter (tasks s t) = Some f) ->
  (f_st (futs s f) = FPend -> exists x, k_waiter (tasks s x) = Some f) ->
  MInv (fut_complete s f (FCanc o)).
Proof.
  intros [K Ci G J] Hw Hex. pose proof (kframe_fut_cancel none_s none_t s f o Hex) as F. constructor.
  - apply K_fut_complete; auto. discriminate.
  - eapply C_kframe; eauto. apply ksafe_none.
  - eapply G_kframe; eauto.
  - eapply J_kframe; eauto.
Qed.

Lemma M_upd_task_irrel s t g : tk_irrel g -> MInv s -> MInv (upd_task s t g).
Proof. intros Hg. apply M_kstar_none, ks_one, kp_task, Hg. Qed.

(* ---------------- allocation of a future ---------------- *)
Definition fresh (s : st) (f : fid) : Prop :=
  f < nfut s /\ futs s f = fut0 /\ ~ refd s f /\ forall t, k_waiter (tasks s t) <> Some f.

Definition nf (s : st) : st := fst (new_fut s).

Lemma new_fut_eq s : new_fut s = (nf s, nfut s).
Proof. reflexivity. Qed.

Lemma refd_nf s f : refd (nf s) f -> refd s f.
Proof. intros H. exact H. Qed.

Lemma M_new_fut s : MInv s -> MInv (nf s) /\ fresh (nf s) (nfut s).
Proof.
  intros [K Ci G J].
  assert (Hfo : forall f, f < nfut s -> futs (nf s) f = futs s f).
  { intros f Hf. unfold nf, new_fut. cbn [fst futs]. apply upd_other. lia. }
  assert (Hfn : futs (nf s) (nfut s) = fut0).
  { unfold nf, new_fut. cbn [fst futs]. apply upd_same. }
  split; [constructor|].
  - constructor; unfold alloc; change (ready (nf s)) with (ready s); change (tasks (nf s)) with (tasks s);
      change (running (nf s)) with (running s); change (ntask (nf s)) with (ntask s);
      change (nfut (nf s)) with (S (nfut s)); try apply K.
    + intros t f H. destruct (k_wake s K t f H) as [H1 H2]. split; [exact H1|].
      rewrite Hfo; [exact H2|]. apply (k_w1 s K t f H1).
    + intros t f H. destruct (k_w1 s K t f H) as [H1 [H2 [H3 [H4 H5]]]]. rewrite (Hfo f H5).
      refine (conj H1 (conj H2 (conj H3 (conj H4 _)))). lia.
    + intros t f H. destruct (k_w1 s K t f H) as [_ [_ [_ [_ H5]]]]. rewrite (Hfo f H5). apply (k_pend s K t f H).
    + intros f Hx. apply refd_nf in Hx. destruct (k_ref s K f Hx) as [H1 H2]. split; [lia|].
      rewrite (Hfo f H1). exact H2.
  - revert Ci. apply C_ext; auto.
  - revert G. apply G_ext; auto.
    + intros f e Hf. now rewrite (Hfo f Hf).
    + unfold nf, new_fut. cbn. lia.
  - revert J. apply J_ext; auto.
    intros f v. destruct (Nat.eq_dec f (nfut s)) as [->|Hne].
    + rewrite Hfn. discriminate.
    + unfold nf, new_fut. cbn [fst futs]. now rewrite upd_other.
  - unfold fresh. change (nfut (nf s)) with (S (nfut s)). refine (conj _ (conj Hfn (conj _ _))).
    + lia.
    + intros Hx. apply refd_nf in Hx. pose proof (k_ref s K _ Hx). lia.
    + intros t H. change (tasks (nf s)) with (tasks s) in H. pose proof (k_w1 s K t _ H). lia.
Qed.

(* ---------------- the running task suspends ---------------- *)
Definition ctl_ok (s : st) (t : tid) (c : ctl) : Prop :=
  c <> CDone /\
  (forall x, top_scope c = Some x ->
     s_active (scopes s x) = true /\ s_host (scopes s x) = Some t /\ k_cur (tasks s t) = Some x /\ x < nscope s) /\
  (forall g ch f, c = CStartWait g ch f ->
     alloc s ch /\ k_startfut (tasks s ch) = Some f /\ k_group (tasks s ch) = Some g /\ ch <> t) /\
  (forall ch x e wf, c = CStartJoin ch x e wf ->
     alloc s ch /\ k_group (tasks s ch) <> None /\ ch <> t /\
     forall f, wf = Some f -> In f (e_waiters (events s (k_hevent (tasks s ch))))).

(* t's record in s' differs from the one in s at most in ctl and waiter *)
Definition same_but_ctl (k k' : task) : Prop :=
  k_done k' = k_done k /\ k_group k' = k_group k /\ k_hscope k' = k_hscope k /\ k_hevent k' = k_hevent k /\
  k_hexc k' = k_hexc k /\ k_hret k' = k_hret k /\ k_startfut k' = k_startfut k /\ k_final k' = k_final k /\
  k_tdran k' = k_tdran k /\ k_cur k' = k_cur k.

Lemma C_block s s' t c w : CInv s -> running s = Some t -> running s' = None ->
  (forall x, x <> t -> tasks s' x = tasks s x) ->
  k_ctl (tasks s' t) = c -> k_waiter (tasks s' t) = w -> same_but_ctl (tasks s t) (tasks s' t) ->
  scopes s' = scopes s -> events s' = events s -> ntask s' = ntask s -> nscope s' = nscope s ->
  nevent s' = nevent s -> k_done (tasks s t) = None -> alloc s t ->
  k_final (tasks s t) = None ->
  ctl_waiter c w -> ctl_ok s t c -> CInv s'.
Proof.
  intros I Hrun Hrun' Vo Ec Ew [S1 [S2 [S3 [S4 [S5 [S6 [S7 [S8 [S9 S10]]]]]]]]] Hsc Hev Hnt Hns Hne Hd Hal Hfd Hcw
    [O1 [O2 [O3 O4]]].
  assert (Hro : forall x, x <> t -> running s <> Some x) by (intros x Hx; rewrite Hrun; congruence).
  constructor; unfold alloc; rewrite ?Hsc, ?Hev, ?Hnt, ?Hns, ?Hne.
  - intros x _. destruct (Nat.eq_dec x t) as [->|Hx]; [now rewrite Ec, Ew|].
    rewrite (Vo x Hx). apply (c_w s I x), Hro, Hx.
  - intros x. destruct (Nat.eq_dec x t) as [->|Hx]; [rewrite S1, Hd; congruence|].
    rewrite (Vo x Hx). apply (c_done1 s I x).
  - intros x Hax. destruct (Nat.eq_dec x t) as [->|Hx]; [rewrite Ec; intros; contradiction|].
    rewrite (Vo x Hx). apply (c_done2 s I x Hax).
  - intros x Hax. destruct (Nat.eq_dec x t) as [->|Hx]; [contradiction|].
    rewrite (Vo x Hx). apply (c_unalloc s I x Hax).
  - intros x. destruct (Nat.eq_dec x t) as [->|Hx]; [rewrite S9, S1; apply (c_td s I t)|].
    rewrite (Vo x Hx). apply (c_td s I x).
  - intros x e. destruct (Nat.eq_dec x t) as [->|Hx]; [rewrite S1; apply (c_oc s I t e)|].
    rewrite (Vo x Hx). apply (c_oc s I x e).
  - intros x y _. destruct (Nat.eq_dec x t) as [->|Hx].
    + rewrite Ec, S10. apply O2.
    + rewrite (Vo x Hx). apply (c_top s I x y), Hro, Hx.
  - intros x g ch f _. assert (Hch : forall g f, k_startfut (tasks s ch) = Some f /\ k_group (tasks s ch) = Some g ->
        k_startfut (tasks s' ch) = Some f /\ k_group (tasks s' ch) = Some g).
    { intros g0 f0. destruct (Nat.eq_dec ch t) as [->|Hc]; [now rewrite S7, S2|now rewrite (Vo ch Hc)]. }
    destruct (Nat.eq_dec x t) as [->|Hx].
    + rewrite Ec. intros E. destruct (O3 g ch f E) as [H1 [H2 [H3 H4]]].
      destruct (Hch g f (conj H2 H3)) as [H5 H6]. auto.
    + rewrite (Vo x Hx). intros E. destruct (c_sw s I x g ch f (Hro x Hx) E) as [H1 [H2 [H3 H4]]].
      destruct (Hch g f (conj H2 H3)) as [H5 H6]. auto.
  - intros x ch y e wf _. assert (Hch : k_group (tasks s' ch) = k_group (tasks s ch)).
    { destruct (Nat.eq_dec ch t) as [->|Hc]; [exact S2|now rewrite (Vo ch Hc)]. }
    rewrite Hch. destruct (Nat.eq_dec x t) as [->|Hx].
    + rewrite Ec. intros E. destruct (O4 ch y e wf E) as [H1 [H2 _]]. auto.
    + rewrite (Vo x Hx). apply (c_sj s I x ch y e wf), Hro, Hx.
  - intros x. destruct (Nat.eq_dec x t) as [->|Hx]; [rewrite S4; apply (c_bev s I t)|].
    rewrite (Vo x Hx). apply (c_bev s I x).
  - intros x. destruct (Nat.eq_dec x t) as [->|Hx]; [rewrite S3; apply (c_bsc s I t)|].
    rewrite (Vo x Hx). apply (c_bsc s I x).
  - apply (c_n s I).
  - intros x o. destruct (Nat.eq_dec x t) as [->|Hx].
    + rewrite S2, S8, S4. intros Hg Hf. destruct (h_fin s I t o Hg Hf) as [H1 H2]. split; [exact H1|].
      destruct o; cbn in *; rewrite ?S5, ?S6; exact H2.
    + rewrite (Vo x Hx). apply (h_fin s I x o).
  - intros x. destruct (Nat.eq_dec x t) as [->|Hx]; [rewrite S8, S5, S6; apply (h_nofin s I t)|].
    rewrite (Vo x Hx). apply (h_nofin s I x).
  - intros x. destruct (Nat.eq_dec x t) as [->|Hx]; [rewrite S1, S8; apply (h_done s I t)|].
    rewrite (Vo x Hx). apply (h_done s I x).
  - intros x _. destruct (Nat.eq_dec x t) as [->|Hx]; [rewrite S8, Hfd; intros H; contradiction|].
    rewrite (Vo x Hx). apply (h_fd s I x), Hro, Hx.
Qed.

Lemma J_block s s' t c : JInv s -> running s = Some t ->
  (forall x, x <> t -> tasks s' x = tasks s x) ->
  k_ctl (tasks s' t) = c -> same_but_ctl (tasks s t) (tasks s' t) ->
  events s' = events s -> (forall g, g_fut (groups s' g) = g_fut (groups s g)) ->
  (forall f, sleepref s' f -> sleepref s f) ->
  (forall f v, f_st (futs s' f) = FRes v -> f_st (futs s f) = FRes v) ->
  ctl_ok s t c -> JInv s'.
Proof.
  intros I Hrun Vo Ec [S1 [S2 [S3 [S4 [S5 [S6 [S7 [S8 [S9 S10]]]]]]]]] Hev Hg Hsl Hf [O1 [O2 [O3 O4]]].
  assert (V : forall x, k_group (tasks s' x) = k_group (tasks s x) /\ k_hevent (tasks s' x) = k_hevent (tasks s x) /\
     k_startfut (tasks s' x) = k_startfut (tasks s x) /\ k_final (tasks s' x) = k_final (tasks s x)).
  { intros x. destruct (Nat.eq_dec x t) as [->|Hx]; [auto|now rewrite (Vo x Hx)]. }
  constructor; rewrite ?Hev.
  - intros f e x. destruct (V x) as [_ [_ [-> _]]]. apply (kk_es s I f e x).
  - intros f e g. rewrite Hg. apply (kk_eg s I).
  - intros f e H Hs. apply Hsl in Hs. revert Hs. apply (kk_et s I f e H).
  - intros f x g. rewrite Hg. destruct (V x) as [_ [_ [-> _]]]. apply (kk_sg s I f x g).
  - intros f x. destruct (V x) as [_ [_ [-> _]]]. intros H Hs. apply Hsl in Hs. revert Hs. apply (kk_st s I f x H).
  - apply (kk_ee s I).
  - intros f x x'. destruct (V x) as [_ [_ [-> _]]]. destruct (V x') as [_ [_ [-> _]]]. apply (kk_ss s I f x x').
  - intros f e v H1 H2. apply Hf in H2. apply (j_ev s I f e v H1 H2).
  - intros x ch y e f _. destruct (V ch) as [_ [-> _]]. destruct (Nat.eq_dec x t) as [->|Hx].
    + rewrite Ec. intros E. destruct (O4 ch y e (Some f) E) as [_ [_ [_ H]]]. apply H. reflexivity.
    + rewrite (Vo x Hx). apply (j_join s I x ch y e f). rewrite Hrun. congruence.
  - intros x. destruct (V x) as [-> [-> [_ ->]]]. apply (e_hev s I x).
  - intros x x'. destruct (V x) as [-> [-> _]]. destruct (V x') as [-> [-> _]]. apply (e_inj s I x x').
  - intros x. destruct (V x) as [-> [-> _]]. apply (e_pos s I x).
Qed.

Lemma G_same_but s s' t : GInv s ->
  (forall x, x <> t -> tasks s' x = tasks s x) -> same_but_ctl (tasks s t) (tasks s' t) ->
  groups s' = groups s ->
  (forall f e, f < nfut s -> f_st (futs s f) = FExc e -> f_st (futs s' f) = FExc e) ->
  ntask s' = ntask s -> nscope s' = nscope s -> nfut s' = nfut s -> GInv s'.
Proof.
  intros I Vo [S1 [S2 [S3 [S4 [S5 [S6 [S7 [S8 [S9 S10]]]]]]]]] Hg Hf Hnt Hns Hnf. revert I.
  apply G_ext; try lia; auto.
  - intros x. destruct (Nat.eq_dec x t) as [->|Hx]; [|now rewrite (Vo x Hx)].
    unfold gview. now rewrite S1, S2, S7, S9.
  - intros g. now rewrite Hg.
Qed.

Definition unwaited (s : st) (f : fid) : Prop :=
  f < nfut s /\ f_st (futs s f) = FPend /\ forall x, k_waiter (tasks s x) <> Some f.

Lemma fresh_unwaited s f : fresh s f -> unwaited s f.
Proof. intros [H1 [H2 [_ H4]]]. refine (conj H1 (conj _ H4)). now rewrite H2. Qed.

(* the suspension without a pending must-cancel *)
Definition susp (s : st) (t : tid) (f : fid) : st :=
  upd_task (upd_fut s f (fun x => mkFut (f_st x) (Some t))) t (tk_waiter (Some f)).

Lemma K_block_on s t f c : KInv s -> running s = Some t -> unwaited s f ->
  (c = CIdle -> ~ refd s f) ->
  KInv (set_running (set_ctl (susp s t f) t c) None).
Proof.
  intros K Hrun [Hlt [Hp Hnw]] Hidle.
  set (s' := set_running (set_ctl (susp s t f) t c) None).
  destruct (k_run s K t Hrun) as [Hnt [Hd Hal]].
  pose proof (K_run_waiter s t K Hrun) as Hw0.
  assert (Vo : forall x, x <> t -> tasks s' x = tasks s x).
  { intros x Hx. unfold s', susp. tcase x t; [contradiction|reflexivity]. }
  assert (Vt : tasks s' t = tk_ctl c (tk_waiter (Some f) (tasks s t))).
  { unfold s', susp. tcase t t; [reflexivity|contradiction]. }
  assert (Ff : futs s' f = mkFut FPend (Some t)).
  { unfold s', susp. cbn [set_running set_ctl upd_task set_tasks upd_fut set_futs futs]. rewrite upd_same.
    now rewrite Hp. }
  assert (Fo : forall x, x <> f -> futs s' x = futs s x).
  { intros x Hx. unfold s', susp. cbn [set_running set_ctl upd_task set_tasks upd_fut set_futs futs].
    now apply upd_other. }
  assert (Hrefd : forall x, refd s' x -> refd s x).
  { apply refd_mono.
    - intros e x H. exact H.
    - intros g x H. exists g. exact H.
    - intros x y H. exists x. destruct (Nat.eq_dec x t) as [->|Hx]; [rewrite Vt in H; exact H|now rewrite (Vo x Hx) in H].
    - intros x H. exact H. }
  assert (Hin : forall x, In x (thtasks (ready s)) -> x <> t) by (intros x H ->; contradiction).
  constructor; unfold alloc; change (ready s') with (ready s); change (nfut s') with (nfut s);
    change (ntask s') with (ntask s); change (running s') with (@None tid).
  - apply K.
  - apply K.
  - intros x y H. assert (Hx : x <> t) by (apply Hin, in_thtasks; eauto). rewrite (Vo x Hx).
    destruct (k_wake s K x y H) as [H1 H2]. split; [exact H1|]. rewrite Fo; [exact H2|].
    intros ->. exact (Hnw x H1).
  - intros x H. assert (Hx : x <> t) by (apply Hin, in_thtasks; eauto). rewrite (Vo x Hx).
    destruct (k_step s K x H) as [H1 [H2 [H3 H4]]]. refine (conj H1 (conj H2 (conj _ H4))). discriminate.
  - intros x y. destruct (Nat.eq_dec x t) as [->|Hx].
    + rewrite Vt. tkc. intros E. injection E as <-. rewrite Ff. tkc.
      refine (conj eq_refl (conj Hd (conj _ (conj Hal Hlt)))). discriminate.
    + rewrite (Vo x Hx). intros H. destruct (k_w1 s K x y H) as [H1 [H2 [H3 H4]]].
      rewrite Fo; [|intros ->; exact (Hnw x H)]. refine (conj H1 (conj H2 (conj _ H4))). discriminate.
  - intros x y. destruct (Nat.eq_dec x t) as [->|Hx]; [intros; exact Hnt|].
    rewrite (Vo x Hx). intros H. rewrite Fo; [|intros ->; exact (Hnw x H)]. apply (k_pend s K x y H).
  - intros x Hx. discriminate.
  - intros x H. destruct (Nat.eq_dec x t) as [->|Hx]; [rewrite Vt; tkc|rewrite (Vo x Hx)]; apply (k_td s K _ H).
  - intros y Hy. apply Hrefd in Hy. destruct (k_ref s K y Hy) as [H1 H2]. split; [exact H1|].
    destruct (Nat.eq_dec y f) as [->|Hyf].
    + rewrite Ff. tkc. intros _ x E. injection E as <-. rewrite Vt. reflexivity.
    + rewrite (Fo y Hyf). intros Hpy x Hwx. specialize (H2 Hpy x Hwx).
      assert (Hx : x <> t) by (intros ->; congruence). now rewrite (Vo x Hx).
  - intros x y. destruct (Nat.eq_dec x t) as [->|Hx].
    + rewrite Vt. tkc. intros -> E Hy. injection E as <-. apply Hrefd in Hy. now apply Hidle.
    + rewrite (Vo x Hx). intros H1 H2 Hy. apply Hrefd in Hy. eapply k_idle; eauto.
Qed.

Lemma suspend_on_pending s t f : f_st (futs s f) = FPend ->
  suspend_on s t f =
  if k_must (tasks s t)
  then upd_task (fut_complete (susp s t f) f (FCanc (k_msg (tasks s t)))) t (tk_must false (k_msg (tasks s t)))
  else susp s t f.
Proof. intros H. unfold suspend_on. now rewrite H. Qed.

Lemma same_but_refl k : same_but_ctl k k.
Proof. unfold same_but_ctl. tauto. Qed.

(* no-must version of the block *)
Lemma M_block_on0 s t f c : MInv s -> running s = Some t -> k_final (tasks s t) = None -> unwaited s f ->
  ctl_waiter c (Some f) -> (c = CIdle -> ~ refd s f) -> ctl_ok s t c ->
  MInv (set_running (set_ctl (susp s t f) t c) None).
Proof.
  intros [K Ci G J] Hrun Hfin Hu Hcw Hidle Hok.
  destruct (k_run s K t Hrun) as [Hnt [Hd Hal]].
  set (s' := set_running (set_ctl (susp s t f) t c) None).
  assert (Vo : forall x, x <> t -> tasks s' x = tasks s x).
  { intros x Hx. unfold s', susp. tcase x t; [contradiction|reflexivity]. }
  assert (Vt : tasks s' t = tk_ctl c (tk_waiter (Some f) (tasks s t))).
  { unfold s', susp. tcase t t; [reflexivity|contradiction]. }
  assert (Sb : same_but_ctl (tasks s t) (tasks s' t)) by (rewrite Vt; unfold same_but_ctl; tkc; tauto).
  assert (Fo : forall x, f_st (futs s' x) = f_st (futs s x)).
  { intros x. unfold s', susp. cbn [set_running set_ctl upd_task set_tasks upd_fut set_futs futs].
    unfold upd. destruct (Nat.eqb_spec x f); [subst; reflexivity|reflexivity]. }
  constructor.
  - apply K_block_on; auto.
  - eapply (C_block s s' t c (Some f)); eauto; try reflexivity. rewrite Vt. reflexivity. rewrite Vt. reflexivity.
  - eapply (G_same_but s s' t); eauto. intros x e _. now rewrite Fo.
  - eapply (J_block s s' t c); eauto; try reflexivity. rewrite Vt. reflexivity.
    intros x v. now rewrite Fo.
Qed.

Lemma M_block_on s t f c : MInv s -> running s = Some t -> k_final (tasks s t) = None -> unwaited s f ->
  ctl_waiter c (Some f) -> (c = CIdle -> ~ refd s f) -> ctl_ok s t c ->
  MInv (set_running (set_ctl (suspend_on s t f) t c) None).
Proof.
  intros M Hrun Hfin Hu Hcw Hidle Hok.
  pose proof (M_block_on0 s t f c M Hrun Hfin Hu Hcw Hidle Hok) as M0.
  destruct Hu as [Hlt [Hp Hnw]]. rewrite (suspend_on_pending s t f Hp).
  destruct (k_must (tasks s t)); [|exact M0].
  set (X := set_running (set_ctl (susp s t f) t c) None) in *.
  set (o := k_msg (tasks s t)).
  assert (M1 : MInv (upd_task (fut_complete X f (FCanc o)) t (tk_must false o))).
  { apply M_upd_task_irrel; [apply irrel_must|]. apply M_fut_cancel; [exact M0| |].
    - intros _ x Hx. unfold X, susp in *.
      cbn [set_running set_ctl upd_task set_tasks upd_fut set_futs futs tasks] in *.
      rewrite upd_same in Hx. cbn in Hx. injection Hx as <-. rewrite upd_same. cbn. rewrite upd_same. reflexivity.
    - intros _. exists t. unfold X, susp.
      cbn [set_running set_ctl upd_task set_tasks upd_fut set_futs futs tasks]. rewrite upd_same. cbn.
      rewrite upd_same. reflexivity. }
  revert M1. apply M_seq. unfold X. rewrite fc_set_running. unfold set_ctl. rewrite fc_upd_task.
  constructor; try reflexivity.
  intros x. cbn [set_running set_ctl upd_task set_tasks tasks]. unfold upd.
  destruct (Nat.eqb_spec x t); [|reflexivity]. rewrite Nat.eqb_refl. reflexivity.
Qed.

(* ---------------- the running task yields (sleep(0)) ---------------- *)
Lemma K_block_yield s t c : KInv s -> running s = Some t ->
  KInv (set_running (set_ctl (bare_yield s t) t c) None).
Proof.
  intros K Hrun.
  set (s' := set_running (set_ctl (bare_yield s t) t c) None).
  destruct (k_run s K t Hrun) as [Hnt [Hd Hal]].
  pose proof (K_run_waiter s t K Hrun) as Hw0.
  assert (Vo : forall x, x <> t -> tasks s' x = tasks s x).
  { intros x Hx. unfold s'. tcase x t; [contradiction|reflexivity]. }
  assert (Vt : tasks s' t = tk_ctl c (tasks s t)).
  { unfold s'. tcase t t; [reflexivity|contradiction]. }
  assert (Er : ready s' = ready s ++ [HStep t]) by reflexivity.
  assert (Hrefd : forall x, refd s' x -> refd s x).
  { apply refd_mono.
    - intros e x H. exact H.
    - intros g x H. exists g. exact H.
    - intros x y H. exists x. destruct (Nat.eq_dec x t) as [->|Hx]; [rewrite Vt in H; exact H|now rewrite (Vo x Hx) in H].
    - intros x [[tm H]|H]; [left|right; exact H]. exists tm. rewrite Er, in_app_iff in H.
      destruct H as [H|[H|[]]]; [exact H|discriminate]. }
  assert (Vw : forall x, k_waiter (tasks s' x) = k_waiter (tasks s x)).
  { intros x. destruct (Nat.eq_dec x t) as [->|Hx]; [now rewrite Vt|now rewrite (Vo x Hx)]. }
  assert (Vd : forall x, k_done (tasks s' x) = k_done (tasks s x) /\ k_tdran (tasks s' x) = k_tdran (tasks s x) /\
                         k_group (tasks s' x) = k_group (tasks s x)).
  { intros x. destruct (Nat.eq_dec x t) as [->|Hx]; [now rewrite Vt|now rewrite (Vo x Hx)]. }
  constructor; unfold alloc; rewrite ?Er; change (futs s') with (futs s); change (nfut s') with (nfut s);
    change (ntask s') with (ntask s); change (running s') with (@None tid).
  - rewrite thtasks_app. change (thtasks [HStep t]) with [t]. apply NoDup_snoc; [apply K|exact Hnt].
  - rewrite tdtasks_app. change (tdtasks [HStep t]) with (@nil tid). rewrite app_nil_r. apply K.
  - intros x y. rewrite in_app_iff. intros [H|[H|[]]]; [|discriminate]. rewrite Vw. apply (k_wake s K x y H).
  - intros x. rewrite in_app_iff. rewrite Vw. destruct (Vd x) as [-> _]. intros [H|[H|[]]].
    + destruct (k_step s K x H) as [H1 [H2 [H3 H4]]]. refine (conj H1 (conj H2 (conj _ H4))). discriminate.
    + injection H as <-. refine (conj Hw0 (conj Hd (conj _ Hal))). discriminate.
  - intros x y. rewrite Vw. destruct (Vd x) as [-> _]. intros H.
    destruct (k_w1 s K x y H) as [H1 [H2 [H3 H4]]]. refine (conj H1 (conj H2 (conj _ H4))). discriminate.
  - intros x y. rewrite Vw. intros H Hp. rewrite thtasks_app, in_app_iff. intros [Hi|[<-|[]]].
    + revert Hi. apply (k_pend s K x y H Hp).
    + congruence.
  - intros x Hx. discriminate.
  - intros x. rewrite in_app_iff. destruct (Vd x) as [-> [-> ->]]. intros [H|[H|[]]]; [|discriminate].
    apply (k_td s K x H).
  - intros y Hy. apply Hrefd in Hy. destruct (k_ref s K y Hy) as [H1 H2]. split; [exact H1|].
    intros Hp x Hx. rewrite Vw. auto.
  - intros x y. rewrite Vw. intros H1 H2 Hy. apply Hrefd in Hy.
    destruct (Nat.eq_dec x t) as [->|Hx]; [congruence|]. rewrite (Vo x Hx) in H1. eapply k_idle; eauto.
Qed.

Lemma M_block_yield s t c : MInv s -> running s = Some t -> k_final (tasks s t) = None ->
  ctl_waiter c None -> ctl_ok s t c ->
  MInv (set_running (set_ctl (bare_yield s t) t c) None).
Proof.
  intros [K Ci G J] Hrun Hfin Hcw Hok.
  destruct (k_run s K t Hrun) as [Hnt [Hd Hal]].
  pose proof (K_run_waiter s t K Hrun) as Hw0.
  set (s' := set_running (set_ctl (bare_yield s t) t c) None).
  assert (Vo : forall x, x <> t -> tasks s' x = tasks s x).
  { intros x Hx. unfold s'. tcase x t; [contradiction|reflexivity]. }
  assert (Vt : tasks s' t = tk_ctl c (tasks s t)).
  { unfold s'. tcase t t; [reflexivity|contradiction]. }
  assert (Sb : same_but_ctl (tasks s t) (tasks s' t)) by (rewrite Vt; unfold same_but_ctl; tkc; tauto).
  assert (Hsl : forall f, sleepref s' f -> sleepref s f).
  { intros x [[tm H]|H]; [left|right; exact H]. exists tm.
    change (ready s') with (ready s ++ [HStep t]) in H. rewrite in_app_iff in H.
    destruct H as [H|[H|[]]]; [exact H|discriminate]. }
  constructor.
  - apply K_block_yield; auto.
  - eapply (C_block s s' t c None); eauto; try reflexivity. rewrite Vt. reflexivity. rewrite Vt. tkc. exact Hw0.
  - eapply (G_same_but s s' t); eauto.
  - eapply (J_block s s' t c); eauto; try reflexivity. rewrite Vt. reflexivity.
Qed.

Lemma tk_ctl_id k : tk_ctl (k_ctl k) k = k.
Proof. destruct k; reflexivity. Qed.

(* re-spin of checkpoint_if_cancelled: yield again without changing the control state *)
Lemma M_block_yield_same s t : MInv s -> running s = Some t -> k_final (tasks s t) = None ->
  ctl_waiter (k_ctl (tasks s t)) None -> ctl_ok s t (k_ctl (tasks s t)) ->
  MInv (set_running (bare_yield s t) None).
Proof.
  intros M Hrun Hfin Hcw Hok. pose proof (M_block_yield s t _ M Hrun Hfin Hcw Hok) as M1.
  revert M1. apply M_seq. constructor; try reflexivity.
  intros x. tcase x t; [subst; symmetry; apply tk_ctl_id|reflexivity].
Qed.

(* ---------------- park / ret_to_puppet ---------------- *)
Lemma ctl_ok_idle s t : ctl_ok s t CIdle.
Proof. unfold ctl_ok. refine (conj _ (conj _ (conj _ _))); try discriminate. Qed.

Lemma ctl_ok_ext s s' t c : ctl_ok s t c ->
  scopes s' = scopes s -> k_cur (tasks s' t) = k_cur (tasks s t) -> nscope s <= nscope s' ->
  ntask s <= ntask s' ->
  (forall x, k_startfut (tasks s' x) = k_startfut (tasks s x) /\ k_group (tasks s' x) = k_group (tasks s x) /\
             k_hevent (tasks s' x) = k_hevent (tasks s x)) ->
  events s' = events s -> ctl_ok s' t c.
Proof.
  intros [O1 [O2 [O3 O4]]] Hsc Hcur Hns Hnt Hv Hev. unfold ctl_ok, alloc. rewrite Hsc, Hcur, Hev.
  refine (conj O1 (conj _ (conj _ _))).
  - intros x Hx. destruct (O2 x Hx) as [H1 [H2 [H3 H4]]]. refine (conj H1 (conj H2 (conj H3 _))). lia.
  - intros g ch f E. destruct (Hv ch) as [-> [-> _]]. destruct (O3 g ch f E) as [[H0 H1] [H2 [H3 H4]]].
    refine (conj (conj H0 _) (conj H2 (conj H3 H4))). lia.
  - intros ch x e wf E. destruct (Hv ch) as [_ [-> ->]]. destruct (O4 ch x e wf E) as [[H0 H1] [H2 [H3 H4]]].
    refine (conj (conj H0 _) (conj H2 (conj H3 H4))). lia.
Qed.

Lemma M_park s t : MInv s -> running s = Some t -> k_final (tasks s t) = None ->
  MInv (set_running (park s t) None).
Proof.
  intros M Hrun Hfin. unfold park. rewrite new_fut_eq.
  destruct (M_new_fut s M) as [M1 Hfr].
  change (upd_task (suspend_on (nf s) t (nfut s)) t (tk_ctl CIdle))
    with (set_ctl (suspend_on (nf s) t (nfut s)) t CIdle).
  apply M_block_on; auto.
  - apply fresh_unwaited, Hfr.
  - exact I.
  - intros _. apply Hfr.
  - apply ctl_ok_idle.
Qed.

Lemma M_ret_to_puppet s t r : MInv s -> running s = Some t -> k_final (tasks s t) = None ->
  MInv (fst (ret_to_puppet s t r)).
Proof.
  intros M Hrun Hfin. unfold ret_to_puppet. cbn [fst].
  destruct r; try (apply M_park; assumption).
  apply M_park; [|exact Hrun|].
  - apply M_upd_task_irrel; [apply irrel_held|exact M].
  - tcase t t; [exact Hfin|exact Hfin].
Qed.

Lemma ret_to_puppet_running s t r : running (fst (ret_to_puppet s t r)) = None.
Proof. reflexivity. Qed.

(* ---------------- trivial moves ---------------- *)
Lemma M_set_running_same s r : running s = r -> MInv s -> MInv (set_running s r).
Proof. intros <-. apply M_seq. constructor; reflexivity. Qed.

Definition ns (s : st) (d : option Z) (sh : bool) : st := fst (new_scope s d sh).

Lemma new_scope_eq s d sh : new_scope s d sh = (ns s d sh, nscope s).
Proof. reflexivity. Qed.

Lemma M_new_scope s d sh : MInv s -> MInv (ns s d sh).
Proof.
  intros [K Ci G J]. constructor.
  - revert K. apply KInv_mono; try reflexivity; auto.
  - pose proof Ci as Ci'. revert Ci'. apply C_ext; try reflexivity; auto; try (unfold ns, new_scope; cbn; lia).
    intros t c Hr Ht. split; [reflexivity|].
    destruct (c_top s Ci t c Hr Ht) as [_ [_ [_ Hc]]].
    unfold ns, new_scope. cbn [fst scopes]. rewrite upd_other; [auto|lia].
  - revert G. apply G_ext; try reflexivity; auto; try (unfold ns, new_scope; cbn; lia).
  - revert J. apply J_ext; try reflexivity; auto.
Qed.

Lemma ns_scope_new s d sh : scopes (ns s d sh) (nscope s) = sc_shield sh (sc_deadline d scope0).
Proof. unfold ns, new_scope. cbn [fst scopes]. apply upd_same. Qed.

Lemma ns_scope_old s d sh c : c <> nscope s -> scopes (ns s d sh) c = scopes s c.
Proof. intros H. unfold ns, new_scope. cbn [fst scopes]. now apply upd_other. Qed.

(* ---------------- completing a referenced future with a value or an exception ---------------- *)
Lemma kframe_like_fc s f v x : f_st (futs s x) <> FPend -> futs (fut_complete s f v) x = futs s x.
Proof.
  intros H. destruct (fc_spec s f v) as [[_ ->]|[Hp [Ef _]]]; [reflexivity|].
  rewrite Ef. apply upd_other. congruence.
Qed.

Lemma sleepref_fc s f v x : sleepref (fut_complete s f v) x -> sleepref s x.
Proof.
  destruct (fc_spec s f v) as [[_ ->]|[Hp [Ef Er]]]; [auto|].
  intros [[tm H]|[y [H1 H2]]].
  - left. exists tm. rewrite Er, in_app_iff in H. destruct H as [H|H]; [exact H|].
    destruct (f_waiter (futs s f)); cbn in H; [destruct H as [H|[]]; discriminate|contradiction].
  - right. exists y. rewrite fc_timers in H1. auto.
Qed.

Lemma M_fut_complete s f v : MInv s -> v <> FPend -> refd s f ->
  (forall r e, v = FRes r -> In f (e_waiters (events s e)) -> e_set (events s e) = true) ->
  MInv (fut_complete s f v).
Proof.
  intros [K Ci G J] Hv Hr Hres. constructor.
  - apply K_fut_complete; auto. apply (k_ref s K f Hr).
  - revert Ci. apply C_ext; rewrite ?fc_tasks, ?fc_scopes, ?fc_events, ?fc_running, ?fc_ntask, ?fc_nscope,
      ?fc_nevent; auto.
  - revert G. apply G_ext; rewrite ?fc_tasks, ?fc_groups, ?fc_ntask, ?fc_nscope, ?fc_nfut; auto.
    intros x e _ H. rewrite kframe_like_fc; [exact H|]. rewrite H. discriminate.
  - destruct (fc_spec s f v) as [[_ ->]|[Hp [Ef Er]]]; [exact J|].
    assert (V : forall x, f_st (futs (fut_complete s f v) x) = if Nat.eqb x f then v else f_st (futs s x)).
    { intros x. rewrite Ef. unfold upd. destruct (Nat.eqb x f); reflexivity. }
    constructor; rewrite ?fc_tasks, ?fc_groups, ?fc_events, ?fc_running; try apply J.
    + intros x e H Hs. apply sleepref_fc in Hs. revert Hs. apply (kk_et s J x e H).
    + intros x c H Hs. apply sleepref_fc in Hs. revert Hs. apply (kk_st s J x c H).
    + intros x e r H1. rewrite V. destruct (Nat.eqb_spec x f) as [->|Hx].
      * intros ->. eapply Hres; eauto.
      * apply (j_ev s J x e r H1).
Qed.

Lemma fc_frame_other s f v : forall x, x <> f -> futs (fut_complete s f v) x = futs s x.
Proof.
  intros x Hx. destruct (fc_spec s f v) as [[_ ->]|[Hp [Ef _]]]; [reflexivity|].
  rewrite Ef. now apply upd_other.
Qed.

(* ---------------- asyncio.Event.set() ---------------- *)
Lemma event_set_fold_M l : forall s e, MInv s -> e_set (events s e) = true ->
  (forall f, In f l -> In f (e_waiters (events s e))) ->
  let s' := fold_left (fun a f => fut_complete a f (FRes 1)) l s in
  MInv s' /\ tasks s' = tasks s /\ events s' = events s /\ groups s' = groups s /\ scopes s' = scopes s /\
  running s' = running s /\ ntask s' = ntask s /\ nscope s' = nscope s /\ nevent s' = nevent s /\
  nfut s' = nfut s /\ ngroup s' = ngroup s /\ timers s' = timers s.
Proof.
  induction l as [|f l IH]; intros s e M He Hl; cbn [fold_left].
  - cbn. tauto.
  - assert (M1 : MInv (fut_complete s f (FRes 1))).
    { apply M_fut_complete; auto; [discriminate| |].
      - left. exists e. apply Hl. now left.
      - intros r e' _ Hin. assert (e' = e) as ->; [|exact He].
        eapply (kk_ee s (m_j s M)); eauto. apply Hl. now left. }
    specialize (IH (fut_complete s f (FRes 1)) e M1).
    rewrite fc_events in IH. specialize (IH He (fun x Hx => Hl x (or_intror Hx))).
    cbn zeta in IH. rewrite ?fc_tasks, ?fc_events, ?fc_groups, ?fc_scopes, ?fc_running, ?fc_ntask, ?fc_nscope,
      ?fc_nevent, ?fc_nfut, ?fc_ngroup, ?fc_timers in IH. exact IH.
Qed.

Definition evset (s : st) (e : eid) : st := upd_event s e (fun x => mkEvent true (e_waiters x)).

Lemma evset_waiters s e x : e_waiters (events (evset s e) x) = e_waiters (events s x).
Proof.
  unfold evset. cbn [upd_event set_events events]. unfold upd.
  destruct (Nat.eqb_spec x e); [subst; reflexivity|reflexivity].
Qed.
Lemma evset_set1 s e x : e_set (events (evset s e) x) = true -> x = e \/ e_set (events s x) = true.
Proof.
  unfold evset. cbn [upd_event set_events events]. unfold upd. destruct (Nat.eqb_spec x e); auto.
Qed.
Lemma evset_set2 s e x : e_set (events s x) = true -> e_set (events (evset s e) x) = true.
Proof.
  unfold evset. cbn [upd_event set_events events]. unfold upd.
  destruct (Nat.eqb_spec x e); [subst; reflexivity|auto].
Qed.
Lemma evset_set3 s e : e_set (events (evset s e) e) = true.
Proof. unfold evset. cbn [upd_event set_events events]. now rewrite upd_same. Qed.

Lemma K_evset s e : KInv s -> KInv (evset s e).
Proof.
  apply KInv_mono_refd; try reflexivity; auto.
  apply refd_mono; auto.
  - intros x f. now rewrite evset_waiters.
  - intros g f H. exists g. exact H.
  - intros c f H. exists c. exact H.
Qed.

Lemma C_evset s e : CInv s -> CInv (evset s e).
Proof. apply C_ext; try reflexivity; auto. intros x. apply evset_set2. Qed.

Lemma G_evset s e : GInv s -> GInv (evset s e).
Proof. apply G_ext; try reflexivity; auto. Qed.

Lemma J_evset s e : JInv s ->
  (forall t, k_group (tasks s t) <> None -> k_hevent (tasks s t) = e -> k_final (tasks s t) <> None) ->
  JInv (evset s e).
Proof.
  intros J Hfin.
  constructor; change (tasks (evset s e)) with (tasks s); change (groups (evset s e)) with (groups s);
      change (running (evset s e)) with (running s); change (futs (evset s e)) with (futs s).
  - intros f x c. rewrite evset_waiters. apply (kk_es s J f x c).
  - intros f x g. rewrite evset_waiters. apply (kk_eg s J f x g).
  - intros f x. rewrite evset_waiters. apply (kk_et s J f x).
  - apply (kk_sg s J).
  - apply (kk_st s J).
  - intros f x x'. rewrite !evset_waiters. apply (kk_ee s J f x x').
  - apply (kk_ss s J).
  - intros f x v. rewrite evset_waiters. intros H1 H2. apply evset_set2. apply (j_ev s J f x v H1 H2).
  - intros t ch c x f Hr Hc. rewrite evset_waiters. apply (j_join s J t ch c x f Hr Hc).
  - intros t Hg Hs. apply evset_set1 in Hs. destruct Hs as [Hs|Hs]; [apply Hfin; auto|apply (e_hev s J t Hg Hs)].
  - apply (e_inj s J).
  - apply (e_pos s J).
Qed.

Lemma M_evset s e : MInv s ->
  (forall t, k_group (tasks s t) <> None -> k_hevent (tasks s t) = e -> k_final (tasks s t) <> None) ->
  MInv (evset s e).
Proof.
  intros [K Ci G J] Hfin. constructor.
  - apply K_evset, K.
  - apply C_evset, Ci.
  - apply G_evset, G.
  - apply J_evset; auto.
Qed.

Lemma event_set_eq s e : event_set s e =
  if e_set (events s e) then s
  else fold_left (fun a f => fut_complete a f (FRes 1)) (e_waiters (events s e)) (evset s e).
Proof. reflexivity. Qed.

Lemma M_event_set s e : MInv s ->
  (forall t, k_group (tasks s t) <> None -> k_hevent (tasks s t) = e -> k_final (tasks s t) <> None) ->
  let s' := event_set s e in
  MInv s' /\ tasks s' = tasks s /\ groups s' = groups s /\ scopes s' = scopes s /\
  running s' = running s /\ ntask s' = ntask s /\ nscope s' = nscope s /\ nevent s' = nevent s /\
  nfut s' = nfut s /\ ngroup s' = ngroup s /\ timers s' = timers s /\
  e_set (events s' e) = true /\ (forall x, e_set (events s x) = true -> e_set (events s' x) = true).
Proof.
  intros M Hfin. cbn zeta. rewrite event_set_eq. destruct (e_set (events s e)) eqn:Ee.
  - split; [exact M|]. repeat (split; [reflexivity|]). split; [exact Ee|auto].
  - pose proof (M_evset s e M Hfin) as M1.
    assert (He : e_set (events (evset s e) e) = true).
    { unfold evset. cbn [upd_event set_events events]. now rewrite upd_same. }
    destruct (event_set_fold_M (e_waiters (events s e)) (evset s e) e M1 He) as [M2 [H1 [H2 [H3 [H4 [H5 [H6 [H7 [H8 [H9 [H10 H11]]]]]]]]]]].
    { intros f Hf. unfold evset. cbn [upd_event set_events events]. rewrite upd_same. exact Hf. }
    rewrite H2. refine (conj M2 (conj H1 (conj H3 (conj H4 (conj H5 (conj H6 (conj H7 (conj H8 (conj H9
      (conj H10 (conj H11 (conj He _)))))))))))).
    intros x Hx. unfold evset. cbn [upd_event set_events events]. unfold upd.
    destruct (Nat.eqb_spec x e); [reflexivity|exact Hx].
Qed.

(* ---------------- adding a reference to a fresh future ---------------- *)
Lemma K_add_ref s s' f :
  (forall t, kview (tasks s' t) = kview (tasks s t)) ->
  futs s' = futs s -> nfut s' = nfut s -> ntask s' = ntask s -> running s' = running s ->
  (forall x, refd s' x -> refd s x \/ x = f) -> fresh s f ->
  thtasks (ready s') = thtasks (ready s) -> tdtasks (ready s') = tdtasks (ready s) ->
  (forall h, task_handle h = true -> In h (ready s') -> In h (ready s)) ->
  KInv s -> KInv s'.
Proof.
  intros Hv Hf Hnf Hnt Hr Hrefd [F1 [F2 [F3 F4]]] Hth Htd Hh K.
  assert (V : forall t, k_waiter (tasks s' t) = k_waiter (tasks s t) /\ k_done (tasks s' t) = k_done (tasks s t) /\
                k_tdran (tasks s' t) = k_tdran (tasks s t) /\ k_group (tasks s' t) = k_group (tasks s t) /\
                k_ctl (tasks s' t) = k_ctl (tasks s t) /\ k_startfut (tasks s' t) = k_startfut (tasks s t)).
  { intros t. apply kview_inv, Hv. }
  constructor; unfold alloc; rewrite ?Hth, ?Htd, ?Hf, ?Hnf, ?Hnt, ?Hr.
  - apply K.
  - apply K.
  - intros t x H. apply (Hh (HWake t x) eq_refl) in H. destruct (V t) as [-> _]. apply (k_wake s K t x H).
  - intros t H. apply (Hh (HStep t) eq_refl) in H. destruct (V t) as [-> [-> _]]. apply (k_step s K t H).
  - intros t x. destruct (V t) as [-> [-> _]]. apply (k_w1 s K t x).
  - intros t x. destruct (V t) as [-> _]. apply (k_pend s K t x).
  - intros t. destruct (V t) as [_ [-> _]]. apply (k_run s K t).
  - intros t H. apply (Hh (HTaskDone t) eq_refl) in H. destruct (V t) as [_ [-> [-> [-> _]]]]. apply (k_td s K t H).
  - intros x Hx. apply Hrefd in Hx. destruct Hx as [Hx| ->].
    + destruct (k_ref s K x Hx) as [H1 H2]. split; [exact H1|]. intros Hp t Hw. destruct (V t) as [-> _]. auto.
    + split; [exact F1|]. rewrite F2. cbn. intros _ t Ht. discriminate.
  - intros t x. destruct (V t) as [-> [_ [_ [_ [-> _]]]]]. intros H1 H2 Hx. apply Hrefd in Hx.
    destruct Hx as [Hx| ->]; [eapply k_idle; eauto|]. exact (F4 t H2).
Qed.

Definition evadd (s : st) (e : eid) (f : fid) : st :=
  upd_event s e (fun x => mkEvent (e_set x) (e_waiters x ++ [f])).

Lemma evadd_waiters s e f x y :
  In y (e_waiters (events (evadd s e f) x)) <-> In y (e_waiters (events s x)) \/ (x = e /\ y = f).
Proof.
  unfold evadd. cbn [upd_event set_events events]. unfold upd. destruct (Nat.eqb_spec x e).
  - subst. cbn. rewrite in_app_iff. cbn. intuition.
  - intuition.
Qed.

Lemma evadd_set s e f x : e_set (events (evadd s e f) x) = e_set (events s x).
Proof.
  unfold evadd. cbn [upd_event set_events events]. unfold upd.
  destruct (Nat.eqb_spec x e); [subst; reflexivity|reflexivity].
Qed.

Lemma fresh_not_ref s f : fresh s f ->
  (forall e, ~ In f (e_waiters (events s e))) /\ (forall g, g_fut (groups s g) <> Some f) /\
  (forall c, k_startfut (tasks s c) <> Some f) /\ ~ sleepref s f.
Proof.
  intros [_ [_ [H _]]]. unfold refd in H. refine (conj _ (conj _ (conj _ _))).
  - intros e He. apply H. left. eauto.
  - intros g Hg. apply H. right; left. eauto.
  - intros c Hc. apply H. right; right; left. eauto.
  - intros Hs. apply H. right; right; right. exact Hs.
Qed.

Lemma M_evadd s e f : MInv s -> fresh s f -> MInv (evadd s e f).
Proof.
  intros [K Ci G J] Hfr. destruct (fresh_not_ref s f Hfr) as [N1 [N2 [N3 N4]]].
  constructor.
  - revert K. apply (K_add_ref s _ f); try reflexivity; auto.
    intros x [[y H]|[[g H]|[[c H]|H]]].
    + apply evadd_waiters in H. destruct H as [H|[_ ->]]; [left; left; eauto|right; reflexivity].
    + left. right; left. eauto.
    + left. right; right; left. eauto.
    + left. right; right; right. exact H.
  - revert Ci. apply C_ext; try reflexivity; auto. intros x. now rewrite evadd_set.
  - revert G. apply G_ext; try reflexivity; auto.
  - constructor; change (tasks (evadd s e f)) with (tasks s); change (groups (evadd s e f)) with (groups s);
      change (running (evadd s e f)) with (running s); change (futs (evadd s e f)) with (futs s).
    + intros y x c H. apply evadd_waiters in H. destruct H as [H|[_ ->]]; [apply (kk_es s J y x c H)|apply N3].
    + intros y x g H. apply evadd_waiters in H. destruct H as [H|[_ ->]]; [apply (kk_eg s J y x g H)|apply N2].
    + intros y x H. apply evadd_waiters in H. destruct H as [H|[_ ->]]; [apply (kk_et s J y x H)|exact N4].
    + apply (kk_sg s J).
    + apply (kk_st s J).
    + intros y x x' H H'. apply evadd_waiters in H, H'.
      destruct H as [H|[-> ->]]; destruct H' as [H'|[-> E]]; auto.
      * apply (kk_ee s J y x x' H H').
      * subst. exfalso. exact (N1 _ H).
      * exfalso. exact (N1 _ H').
    + apply (kk_ss s J).
    + intros y x v H. apply evadd_waiters in H. rewrite evadd_set. destruct H as [H|[_ ->]].
      * apply (j_ev s J y x v H).
      * destruct Hfr as [_ [F2 _]]. rewrite F2. cbn. discriminate.
    + intros t ch c x y Hr Hc. apply evadd_waiters. left. apply (j_join s J t ch c x y Hr Hc).
    + intros t. rewrite evadd_set. apply (e_hev s J t).
    + apply (e_inj s J).
    + apply (e_pos s J).
Qed.

Lemma unwaited_evadd s e f : fresh s f -> unwaited (evadd s e f) f.
Proof. intros H. apply fresh_unwaited in H. exact H. Qed.

(* event_unwait: the running task t removes its own wait future from the event *)
Lemma del_in x y l : In y (del x l) <-> In y l /\ y <> x.
Proof.
  unfold del. rewrite filter_In. split; intros [H1 H2]; split; auto.
  - intros ->. rewrite Nat.eqb_refl in H2. discriminate.
  - destruct (Nat.eqb_spec y x); [contradiction|reflexivity].
Qed.

Definition evdel (s : st) (e : eid) (f : fid) : st :=
  upd_event s e (fun x => mkEvent (e_set x) (del f (e_waiters x))).

Lemma evdel_waiters s e f x y :
  In y (e_waiters (events (evdel s e f) x)) -> In y (e_waiters (events s x)).
Proof.
  unfold evdel. cbn [upd_event set_events events]. unfold upd. destruct (Nat.eqb_spec x e); [|auto].
  subst. cbn. rewrite del_in. tauto.
Qed.

Lemma evdel_waiters2 s e f x y : y <> f ->
  In y (e_waiters (events s x)) -> In y (e_waiters (events (evdel s e f) x)).
Proof.
  intros Hy. unfold evdel. cbn [upd_event set_events events]. unfold upd. destruct (Nat.eqb_spec x e); [|auto].
  subst. cbn. rewrite del_in. tauto.
Qed.

Lemma evdel_set s e f x : e_set (events (evdel s e f) x) = e_set (events s x).
Proof.
  unfold evdel. cbn [upd_event set_events events]. unfold upd.
  destruct (Nat.eqb_spec x e); [subst; reflexivity|reflexivity].
Qed.

Lemma M_evdel s e f t : MInv s -> running s = Some t -> f_waiter (futs s f) = Some t -> MInv (evdel s e f).
Proof.
  intros [K Ci G J] Hrun Hfw. constructor.
  - revert K. apply KInv_mono_refd; try reflexivity; auto.
    apply refd_mono; auto.
    + intros x y. apply evdel_waiters.
    + intros g y H. exists g. exact H.
    + intros c y H. exists c. exact H.
  - revert Ci. apply C_ext; try reflexivity; auto. intros x. now rewrite evdel_set.
  - revert G. apply G_ext; try reflexivity; auto.
  - constructor; change (tasks (evdel s e f)) with (tasks s); change (groups (evdel s e f)) with (groups s);
      change (running (evdel s e f)) with (running s); change (futs (evdel s e f)) with (futs s).
    + intros y x c H. apply evdel_waiters in H. apply (kk_es s J y x c H).
    + intros y x g H. apply evdel_waiters in H. apply (kk_eg s J y x g H).
    + intros y x H. apply evdel_waiters in H. apply (kk_et s J y x H).
    + apply (kk_sg s J).
    + apply (kk_st s J).
    + intros y x x' H H'. apply evdel_waiters in H, H'. apply (kk_ee s J y x x' H H').
    + apply (kk_ss s J).
    + intros y x v H. apply evdel_waiters in H. rewrite evdel_set. apply (j_ev s J y x v H).
    + intros x ch c y z Hr Hc. apply evdel_waiters2; [|apply (j_join s J x ch c y z Hr Hc)].
      intros ->. pose proof (c_w s Ci x Hr) as Hw. rewrite Hc in Hw. cbn in Hw.
      destruct (k_w1 s K x f Hw) as [H1 _]. rewrite Hfw in H1. injection H1 as <-. contradiction.
    + intros x. rewrite evdel_set. apply (e_hev s J x).
    + apply (e_inj s J).
    + apply (e_pos s J).
Qed.

Lemma event_unwait_eq s e fo : event_unwait s e fo = match fo with Some f => evdel s e f | None => s end.
Proof. reflexivity. Qed.

(* ---------------- the running task's coroutine ends ---------------- *)
Definition fin_outcome (k : task) (o : outcome) : outcome :=
  match o with
  | ORet v => if k_must k then OCanc (ECancel (k_msg k)) else ORet v
  | OExc e => if is_cancel e then OCanc e else OExc e
  | OCanc e => OCanc e
  end.

Definition fin_rec (d : outcome) (x : task) : task :=
  tk_must false (k_msg x) (tk_waiter None (tk_ctl CDone (tk_done (Some d) x))).

Lemma finish_task_eq s t o :
  finish_task s t o =
  let d := fin_outcome (tasks s t) o in
  let s1 := upd_task s t (fin_rec d) in
  set_running (match k_group (tasks s t) with Some _ => call_soon s1 (HTaskDone t) | None => s1 end) None.
Proof. reflexivity. Qed.

Lemma J_block2 s s' t : JInv s ->
  (forall x, k_group (tasks s' x) = k_group (tasks s x) /\ k_hevent (tasks s' x) = k_hevent (tasks s x) /\
     k_startfut (tasks s' x) = k_startfut (tasks s x) /\
     (k_final (tasks s x) <> None -> k_final (tasks s' x) <> None)) ->
  (forall x, x <> t -> k_ctl (tasks s' x) = k_ctl (tasks s x)) ->
  (running s' <> Some t -> forall ch c e f, k_ctl (tasks s' t) <> CStartJoin ch c e (Some f)) ->
  (forall x, x <> t -> running s <> Some x) ->
  events s' = events s -> (forall g, g_fut (groups s' g) = g_fut (groups s g)) ->
  (forall f, sleepref s' f -> sleepref s f) ->
  (forall f v, f_st (futs s' f) = FRes v -> f_st (futs s f) = FRes v) ->
  JInv s'.
Proof.
  intros I V Vc Ht Hro Hev Hg Hsl Hf.
  constructor; rewrite ?Hev.
  - intros f e x. destruct (V x) as [_ [_ [-> _]]]. apply (kk_es s I f e x).
  - intros f e g. rewrite Hg. apply (kk_eg s I).
  - intros f e H Hs. apply Hsl in Hs. revert Hs. apply (kk_et s I f e H).
  - intros f x g. rewrite Hg. destruct (V x) as [_ [_ [-> _]]]. apply (kk_sg s I f x g).
  - intros f x. destruct (V x) as [_ [_ [-> _]]]. intros H Hs. apply Hsl in Hs. revert Hs. apply (kk_st s I f x H).
  - apply (kk_ee s I).
  - intros f x x'. destruct (V x) as [_ [_ [-> _]]]. destruct (V x') as [_ [_ [-> _]]]. apply (kk_ss s I f x x').
  - intros f e v H1 H2. apply Hf in H2. apply (j_ev s I f e v H1 H2).
  - intros x ch y e f Hr. destruct (V ch) as [_ [-> _]]. destruct (Nat.eq_dec x t) as [->|Hx].
    + intros E. exfalso. exact (Ht Hr _ _ _ _ E).
    + rewrite (Vc x Hx). apply (j_join s I x ch y e f). auto.
  - intros x. destruct (V x) as [-> [-> [_ Hm]]]. intros H1 H2. apply Hm. apply (e_hev s I x H1 H2).
  - intros x x'. destruct (V x) as [-> [-> _]]. destruct (V x') as [-> [-> _]]. apply (e_inj s I x x').
  - intros x. destruct (V x) as [-> [-> _]]. apply (e_pos s I x).
Qed.

Lemma fin_outcome_shape k o : (forall e, o <> OCanc e) ->
  forall e, (fin_outcome k o = OCanc e -> is_cancel e = true) /\ (fin_outcome k o = OExc e -> is_cancel e = false).
Proof.
  intros Ho e. destruct o as [v|x|x]; cbn.
  - destruct (k_must k); split; intros H; try discriminate. injection H as <-. reflexivity.
  - destruct (is_cancel x) eqn:E; split; intros H; try discriminate; injection H as <-; exact E.
  - exfalso. exact (Ho x eq_refl).
Qed.

Lemma M_finish_task s t o : MInv s -> running s = Some t -> (forall e, o <> OCanc e) ->
  (k_final (tasks s t) = None -> exists e, o = OExc e /\ is_cancel e = true) ->
  MInv (finish_task s t o).
Proof.
  intros [K Ci G J] Hrun Ho Hfin. rewrite finish_task_eq. cbn zeta.
  set (d := fin_outcome (tasks s t) o).
  destruct (k_run s K t Hrun) as [Hnt [Hd Hal]].
  pose proof (K_run_waiter s t K Hrun) as Hw0.
  assert (Htd : k_tdran (tasks s t) = false).
  { destruct (k_tdran (tasks s t)) eqn:E; [|reflexivity]. exfalso. apply (c_td s Ci t E). exact Hd. }
  set (s' := set_running _ None).
  assert (Vo : forall x, x <> t -> tasks s' x = tasks s x).
  { intros x Hx. unfold s'. destruct (k_group (tasks s t)); tcase x t; try contradiction; reflexivity. }
  assert (Vt : tasks s' t = fin_rec d (tasks s t)).
  { unfold s'. destruct (k_group (tasks s t)); tcase t t; try contradiction; reflexivity. }
  assert (Er : ready s' = ready s ++ match k_group (tasks s t) with Some _ => [HTaskDone t] | None => [] end).
  { unfold s'. destruct (k_group (tasks s t)); cbn; rewrite ?app_nil_r; reflexivity. }
  assert (Eth : thtasks (ready s') = thtasks (ready s)).
  { rewrite Er, thtasks_app. destruct (k_group (tasks s t)); cbn; now rewrite app_nil_r. }
  assert (Ein : forall h, In h (ready s') -> In h (ready s) \/ (h = HTaskDone t /\ k_group (tasks s t) <> None)).
  { intros h. rewrite Er, in_app_iff. intros [H|H]; [auto|]. destruct (k_group (tasks s t)); [|contradiction].
    destruct H as [<-|[]]. right. split; [reflexivity|discriminate]. }
  assert (Eother : futs s' = futs s /\ nfut s' = nfut s /\ ntask s' = ntask s /\ events s' = events s /\
                   groups s' = groups s /\ scopes s' = scopes s /\ nscope s' = nscope s /\ nevent s' = nevent s /\
                   timers s' = timers s /\ running s' = None).
  { unfold s'. destruct (k_group (tasks s t)); cbn; tauto. }
  destruct Eother as [E1 [E2 [E3 [E4 [E5 [E6 [E7 [E8 [E9 E10]]]]]]]]].
  assert (Hsl : forall f, sleepref s' f -> sleepref s f).
  { intros f [[tm H]|H]; [|right; rewrite E9 in H; exact H]. left. exists tm. apply Ein in H.
    destruct H as [H|[H _]]; [exact H|discriminate]. }
  assert (Hrefd : forall x, refd s' x -> refd s x).
  { apply refd_mono.
    - intros e x. now rewrite E4.
    - intros g x. rewrite E5. eauto.
    - intros x y H. exists x. destruct (Nat.eq_dec x t) as [->|Hx]; [rewrite Vt in H; exact H|now rewrite (Vo x Hx) in H].
    - exact Hsl. }
  assert (Hro : forall x, x <> t -> running s <> Some x) by (intros x Hx; rewrite Hrun; congruence).
  constructor.
  - constructor; unfold alloc; rewrite ?Eth, ?E1, ?E2, ?E3, ?E10.
    + apply K.
    + rewrite Er, tdtasks_app. destruct (k_group (tasks s t)) eqn:Eg; cbn; [|rewrite app_nil_r; apply K].
      apply NoDup_snoc; [apply K|]. rewrite in_tdtasks. intros H. apply (k_td s K t) in H. tauto.
    + intros x f H. apply Ein in H. destruct H as [H|[H _]]; [|discriminate].
      assert (Hx : x <> t) by (intros ->; apply Hnt, in_thtasks; eauto). rewrite (Vo x Hx). apply (k_wake s K x f H).
    + intros x H. apply Ein in H. destruct H as [H|[H _]]; [|discriminate].
      assert (Hx : x <> t) by (intros ->; apply Hnt, in_thtasks; eauto). rewrite (Vo x Hx).
      destruct (k_step s K x H) as [H1 [H2 [H3 H4]]]. refine (conj H1 (conj H2 (conj _ H4))). discriminate.
    + intros x f. destruct (Nat.eq_dec x t) as [->|Hx]; [rewrite Vt; cbn; discriminate|].
      rewrite (Vo x Hx). intros H. destruct (k_w1 s K x f H) as [H1 [H2 [H3 H4]]].
      refine (conj H1 (conj H2 (conj _ H4))). discriminate.
    + intros x f. destruct (Nat.eq_dec x t) as [->|Hx]; [rewrite Vt; cbn; discriminate|].
      rewrite (Vo x Hx). apply (k_pend s K x f).
    + discriminate.
    + intros x H. apply Ein in H. destruct H as [H|[H Hg]].
      * assert (Hx : x <> t). { intros ->. apply (k_td s K t) in H. tauto. }
        rewrite (Vo x Hx). apply (k_td s K x H).
      * injection H as ->. rewrite Vt. cbn. refine (conj _ (conj Htd (conj Hg Hal))). discriminate.
    + intros f Hf. apply Hrefd in Hf. destruct (k_ref s K f Hf) as [H1 H2]. split; [exact H1|].
      intros Hp x Hx. specialize (H2 Hp x Hx). assert (x <> t) by (intros ->; congruence). now rewrite Vo.
    + intros x f. destruct (Nat.eq_dec x t) as [->|Hx]; [rewrite Vt; cbn; discriminate|].
      rewrite (Vo x Hx). intros H1 H2 Hf. apply Hrefd in Hf. eapply k_idle; eauto.
  - constructor; unfold alloc; rewrite ?E3, ?E6, ?E7, ?E8, ?E4, ?E10.
    + intros x _. destruct (Nat.eq_dec x t) as [->|Hx]; [rewrite Vt; cbn; reflexivity|].
      rewrite (Vo x Hx). apply (c_w s Ci x), Hro, Hx.
    + intros x. destruct (Nat.eq_dec x t) as [->|Hx]; [rewrite Vt; cbn; reflexivity|].
      rewrite (Vo x Hx). apply (c_done1 s Ci x).
    + intros x Hax. destruct (Nat.eq_dec x t) as [->|Hx]; [rewrite Vt; cbn; discriminate|].
      rewrite (Vo x Hx). apply (c_done2 s Ci x Hax).
    + intros x Hax. destruct (Nat.eq_dec x t) as [->|Hx]; [contradiction|].
      rewrite (Vo x Hx). apply (c_unalloc s Ci x Hax).
    + intros x. destruct (Nat.eq_dec x t) as [->|Hx]; [rewrite Vt; cbn; discriminate|].
      rewrite (Vo x Hx). apply (c_td s Ci x).
    + intros x e. destruct (Nat.eq_dec x t) as [->|Hx].
      * rewrite Vt. cbn. destruct (fin_outcome_shape (tasks s t) o Ho e) as [H1 H2].
        split; intros H; injection H as H; auto.
      * rewrite (Vo x Hx). apply (c_oc s Ci x e).
    + intros x c _. destruct (Nat.eq_dec x t) as [->|Hx]; [rewrite Vt; cbn; discriminate|].
      rewrite (Vo x Hx). apply (c_top s Ci x c), Hro, Hx.
    + intros x g ch f _. destruct (Nat.eq_dec x t) as [->|Hx]; [rewrite Vt; cbn; discriminate|].
      rewrite (Vo x Hx). intros E. destruct (c_sw s Ci x g ch f (Hro x Hx) E) as [H1 [H2 [H3 H4]]].
      destruct (Nat.eq_dec ch t) as [->|Hc]; [rewrite Vt; cbn; auto|rewrite (Vo ch Hc); auto].
    + intros x ch c e wf _. destruct (Nat.eq_dec x t) as [->|Hx]; [rewrite Vt; cbn; discriminate|].
      rewrite (Vo x Hx). intros E. destruct (c_sj s Ci x ch c e wf (Hro x Hx) E) as [H1 H2].
      destruct (Nat.eq_dec ch t) as [->|Hc]; [rewrite Vt; cbn; auto|rewrite (Vo ch Hc); auto].
    + intros x. destruct (Nat.eq_dec x t) as [->|Hx]; [rewrite Vt; cbn; apply (c_bev s Ci t)|].
      rewrite (Vo x Hx). apply (c_bev s Ci x).
    + intros x. destruct (Nat.eq_dec x t) as [->|Hx]; [rewrite Vt; cbn; apply (c_bsc s Ci t)|].
      rewrite (Vo x Hx). apply (c_bsc s Ci x).
    + apply (c_n s Ci).
    + intros x y. destruct (Nat.eq_dec x t) as [->|Hx]; [rewrite Vt; cbn; apply (h_fin s Ci t y)|].
      rewrite (Vo x Hx). apply (h_fin s Ci x y).
    + intros x. destruct (Nat.eq_dec x t) as [->|Hx]; [rewrite Vt; cbn; apply (h_nofin s Ci t)|].
      rewrite (Vo x Hx). apply (h_nofin s Ci x).
    + intros x. destruct (Nat.eq_dec x t) as [->|Hx]; [|rewrite (Vo x Hx); apply (h_done s Ci x)].
      rewrite Vt. cbn. intros _ Hf. destruct (Hfin Hf) as [e [-> He]]. exists e. unfold d. cbn. now rewrite He.
    + intros x _. destruct (Nat.eq_dec x t) as [->|Hx]; [rewrite Vt; cbn; discriminate|].
      rewrite (Vo x Hx). apply (h_fd s Ci x), Hro, Hx.
  - constructor; unfold alloc; rewrite ?E5, ?E3, ?E7, ?E2, ?E1.
    + intros g x. destruct (Nat.eq_dec x t) as [->|Hx]; [rewrite Vt; cbn|rewrite (Vo x Hx)]; apply (g_mem s G g _).
    + intros g x. destruct (Nat.eq_dec x t) as [->|Hx]; [rewrite Vt; cbn|rewrite (Vo x Hx)]; apply (g_grp s G g _).
    + intros g x e H Hx0. destruct (x_tags s G g x e H Hx0) as [H1 [H2 H3]].
      destruct (Nat.eq_dec x t) as [->|Hx]; [congruence|]. rewrite (Vo x Hx). auto.
    + apply (x_zero s G).
    + apply (x_nd s G).
    + intros g x e. destruct (Nat.eq_dec x t) as [->|Hx]; [rewrite Vt; cbn; intros; congruence|].
      rewrite (Vo x Hx). apply (x_conv s G g x e).
    + apply (b_gscope s G).
    + intros x f. destruct (Nat.eq_dec x t) as [->|Hx]; [rewrite Vt; cbn|rewrite (Vo x Hx)]; apply (b_sf s G _ f).
  - apply (J_block2 s s' t); auto.
    + intros x. destruct (Nat.eq_dec x t) as [->|Hx]; [rewrite Vt; cbn; auto|rewrite (Vo x Hx); auto].
    + intros x Hx. now rewrite (Vo x Hx).
    + intros _ ch c e f. rewrite Vt. cbn. discriminate.
    + intros g. now rewrite E5.
    + intros f v. now rewrite E1.
Qed.

(* ---------------- TaskHandle._run_coro records the outcome and sets the finished event ---------------- *)
Definition hres_of (raw : outcome) : task -> task :=
  match raw with
  | ORet r => tk_hres None (Some r)
  | OExc e => tk_hres (Some e) None
  | OCanc e => tk_hres (Some e) None
  end.

Definition rec_task (s : st) (t : tid) (raw : outcome) : st :=
  upd_task (upd_task s t (tk_final (Some raw))) t (hres_of raw).

Lemma rec_task_other s t raw x : x <> t -> tasks (rec_task s t raw) x = tasks s x.
Proof. intros Hx. unfold rec_task. tcase x t; [contradiction|reflexivity]. Qed.

Lemma rec_task_same s t raw : tasks (rec_task s t raw) t = hres_of raw (tk_final (Some raw) (tasks s t)).
Proof. unfold rec_task. tcase t t; [reflexivity|contradiction]. Qed.

Lemma rec_task_kview s t raw x : kview (tasks (rec_task s t raw) x) = kview (tasks s x).
Proof.
  destruct (Nat.eq_dec x t) as [->|Hx]; [|now rewrite rec_task_other].
  rewrite rec_task_same. destruct raw; reflexivity.
Qed.

Lemma rec_task_fields s t raw x :
  k_ctl (tasks (rec_task s t raw) x) = k_ctl (tasks s x) /\ k_done (tasks (rec_task s t raw) x) = k_done (tasks s x) /\
  k_waiter (tasks (rec_task s t raw) x) = k_waiter (tasks s x) /\ k_group (tasks (rec_task s t raw) x) = k_group (tasks s x) /\
  k_hscope (tasks (rec_task s t raw) x) = k_hscope (tasks s x) /\ k_hevent (tasks (rec_task s t raw) x) = k_hevent (tasks s x) /\
  k_startfut (tasks (rec_task s t raw) x) = k_startfut (tasks s x) /\ k_tdran (tasks (rec_task s t raw) x) = k_tdran (tasks s x) /\
  k_cur (tasks (rec_task s t raw) x) = k_cur (tasks s x).
Proof.
  destruct (Nat.eq_dec x t) as [->|Hx]; [|rewrite rec_task_other; tauto].
  rewrite rec_task_same. destruct raw; cbn; tauto.
Qed.

Lemma M_record s t raw : MInv s -> running s = Some t -> k_final (tasks s t) = None ->
  k_group (tasks s t) <> None -> (forall e, raw <> OCanc e) ->
  MInv (evset (rec_task s t raw) (k_hevent (tasks s t))).
Proof.
  intros [K Ci G J] Hrun Hfin Hg Hraw.
  set (e := k_hevent (tasks s t)). set (s2 := rec_task s t raw).
  assert (F := rec_task_fields s t raw). fold s2 in F.
  assert (Hro : forall x, x <> t -> running s <> Some x) by (intros x Hx; rewrite Hrun; congruence).
  assert (Ft : k_final (tasks s2 t) = Some raw /\ outcome_ok (tasks s2 t) raw).
  { unfold s2. rewrite rec_task_same. destruct raw; cbn; auto. exfalso. exact (Hraw e0 eq_refl). }
  assert (J2 : JInv s2).
  { apply (J_block2 s s2 t J).
    - intros x. destruct (F x) as [_ [_ [_ [-> [_ [-> [-> _]]]]]]]. refine (conj eq_refl (conj eq_refl (conj eq_refl _))).
      destruct (Nat.eq_dec x t) as [->|Hx]; [|unfold s2; now rewrite rec_task_other].
      intros _. destruct Ft as [-> _]. discriminate.
    - intros x _. apply F.
    - intros Hr. exfalso. apply Hr. exact Hrun.
    - exact Hro.
    - reflexivity.
    - reflexivity.
    - auto.
    - auto. }
  constructor.
  - apply K_evset. revert K. apply KInv_mono; try reflexivity; auto. apply rec_task_kview.
  - constructor; unfold alloc; change (running (evset s2 e)) with (running s); change (tasks (evset s2 e)) with (tasks s2);
      change (scopes (evset s2 e)) with (scopes s); change (ntask (evset s2 e)) with (ntask s);
      change (nscope (evset s2 e)) with (nscope s); change (nevent (evset s2 e)) with (nevent s).
    + intros x. destruct (F x) as [-> [_ [-> _]]]. apply (c_w s Ci x).
    + intros x. destruct (F x) as [-> [-> _]]. apply (c_done1 s Ci x).
    + intros x. destruct (F x) as [-> [-> _]]. apply (c_done2 s Ci x).
    + intros x Hx. assert (x <> t) by (intros ->; apply Hx; apply (k_run s K t Hrun)).
      unfold s2. rewrite rec_task_other; auto. apply (c_unalloc s Ci x Hx).
    + intros x. destruct (F x) as [_ [-> [_ [_ [_ [_ [_ [-> _]]]]]]]]. apply (c_td s Ci x).
    + intros x y. destruct (F x) as [_ [-> _]]. apply (c_oc s Ci x y).
    + intros x c. destruct (F x) as [-> [_ [_ [_ [_ [_ [_ [_ ->]]]]]]]]. apply (c_top s Ci x c).
    + intros x g ch f. destruct (F x) as [-> _]. destruct (F ch) as [_ [_ [_ [-> [_ [_ [-> _]]]]]]]. apply (c_sw s Ci x g ch f).
    + intros x ch c y wf. destruct (F x) as [-> _]. destruct (F ch) as [_ [_ [_ [-> _]]]]. apply (c_sj s Ci x ch c y wf).
    + intros x. destruct (F x) as [_ [_ [_ [_ [_ [-> _]]]]]]. apply (c_bev s Ci x).
    + intros x. destruct (F x) as [_ [_ [_ [_ [-> _]]]]]. apply (c_bsc s Ci x).
    + apply (c_n s Ci).
    + intros x o. destruct (Nat.eq_dec x t) as [->|Hx].
      * destruct Ft as [E1 E2]. rewrite E1. intros _ E. injection E as <-. split; [|exact E2].
        destruct (F t) as [_ [_ [_ [_ [_ [-> _]]]]]]. apply evset_set3.
      * unfold s2. rewrite rec_task_other; auto. intros H1 H2. destruct (h_fin s Ci x o H1 H2) as [H3 H4].
        split; [apply evset_set2, H3|exact H4].
    + intros x. destruct (Nat.eq_dec x t) as [->|Hx]; [destruct Ft as [-> _]; discriminate|].
      unfold s2. rewrite rec_task_other; auto. apply (h_nofin s Ci x).
    + intros x. destruct (Nat.eq_dec x t) as [->|Hx].
      * destruct (F t) as [_ [-> _]]. destruct (k_run s K t Hrun) as [_ [-> _]]. intros H. contradiction.
      * unfold s2. rewrite rec_task_other; auto. apply (h_done s Ci x).
    + intros x Hr. assert (Hx : x <> t) by (intros ->; contradiction).
      unfold s2. rewrite rec_task_other; auto. apply (h_fd s Ci x Hr).
  - apply G_evset. revert G. apply G_ext; try reflexivity; auto.
    intros x. destruct (F x) as [_ [E1 [_ [E2 [_ [_ [E3 [E4 _]]]]]]]]. unfold gview. now rewrite E1, E2, E3, E4.
  - apply J_evset; [exact J2|].
    intros x Hgx Hex. destruct (Nat.eq_dec x t) as [->|Hx]; [destruct Ft as [-> _]; discriminate|].
    exfalso. apply Hx. destruct (F x) as [_ [_ [_ [E1 [_ [E2 _]]]]]]. rewrite E1 in Hgx. rewrite E2 in Hex.
    apply (e_inj s J x t Hgx Hg Hex).
Qed.

(* the finished event was not set before (the coroutine had not ended) *)
Lemma not_set_before_finish s t : MInv s -> k_final (tasks s t) = None -> k_group (tasks s t) <> None ->
  e_set (events s (k_hevent (tasks s t))) = false.
Proof.
  intros M Hf Hg. destruct (e_set (events s (k_hevent (tasks s t)))) eqn:E; [|reflexivity].
  exfalso. apply (e_hev s (m_j s M) t Hg E). exact Hf.
Qed.

(* a root task (no group, no handle) records how its coroutine ended *)
Lemma M_set_final_root s t raw : MInv s -> running s = Some t -> k_group (tasks s t) = None ->
  MInv (upd_task s t (tk_final (Some raw))).
Proof.
  intros [K Ci G J] Hrun Hg.
  set (s2 := upd_task s t (tk_final (Some raw))).
  assert (Vo : forall x, x <> t -> tasks s2 x = tasks s x).
  { intros x Hx. unfold s2. tcase x t; [contradiction|reflexivity]. }
  assert (Vt : tasks s2 t = tk_final (Some raw) (tasks s t)).
  { unfold s2. tcase t t; [reflexivity|contradiction]. }
  assert (F : forall x,
    k_ctl (tasks s2 x) = k_ctl (tasks s x) /\ k_done (tasks s2 x) = k_done (tasks s x) /\
    k_waiter (tasks s2 x) = k_waiter (tasks s x) /\ k_group (tasks s2 x) = k_group (tasks s x) /\
    k_hscope (tasks s2 x) = k_hscope (tasks s x) /\ k_hevent (tasks s2 x) = k_hevent (tasks s x) /\
    k_startfut (tasks s2 x) = k_startfut (tasks s x) /\ k_tdran (tasks s2 x) = k_tdran (tasks s x) /\
    k_cur (tasks s2 x) = k_cur (tasks s x) /\ k_hexc (tasks s2 x) = k_hexc (tasks s x) /\
    k_hret (tasks s2 x) = k_hret (tasks s x)).
  { intros x. destruct (Nat.eq_dec x t) as [->|Hx]; [rewrite Vt; cbn; tauto|rewrite (Vo x Hx); tauto]. }
  assert (Hro : forall x, x <> t -> running s <> Some x) by (intros x Hx; rewrite Hrun; congruence).
  constructor.
  - revert K. apply KInv_mono; try reflexivity; auto.
    intros x. destruct (Nat.eq_dec x t) as [->|Hx]; [rewrite Vt; reflexivity|now rewrite (Vo x Hx)].
  - constructor; unfold alloc; change (running s2) with (running s); change (scopes s2) with (scopes s);
      change (ntask s2) with (ntask s); change (nscope s2) with (nscope s); change (nevent s2) with (nevent s);
      change (events s2) with (events s).
    + intros x. destruct (F x) as [-> [_ [-> _]]]. apply (c_w s Ci x).
    + intros x. destruct (F x) as [-> [-> _]]. apply (c_done1 s Ci x).
    + intros x. destruct (F x) as [-> [-> _]]. apply (c_done2 s Ci x).
    + intros x Hx. assert (x <> t) by (intros ->; apply Hx; apply (k_run s K t Hrun)).
      rewrite Vo; auto. apply (c_unalloc s Ci x Hx).
    + intros x. destruct (F x) as [_ [-> [_ [_ [_ [_ [_ [-> _]]]]]]]]. apply (c_td s Ci x).
    + intros x y. destruct (F x) as [_ [-> _]]. apply (c_oc s Ci x y).
    + intros x c. destruct (F x) as [-> [_ [_ [_ [_ [_ [_ [_ [-> _]]]]]]]]]. apply (c_top s Ci x c).
    + intros x g ch f. destruct (F x) as [-> _]. destruct (F ch) as [_ [_ [_ [-> [_ [_ [-> _]]]]]]]. apply (c_sw s Ci x g ch f).
    + intros x ch c y wf. destruct (F x) as [-> _]. destruct (F ch) as [_ [_ [_ [-> _]]]]. apply (c_sj s Ci x ch c y wf).
    + intros x. destruct (F x) as [_ [_ [_ [_ [_ [-> _]]]]]]. apply (c_bev s Ci x).
    + intros x. destruct (F x) as [_ [_ [_ [_ [-> _]]]]]. apply (c_bsc s Ci x).
    + apply (c_n s Ci).
    + intros x o. destruct (Nat.eq_dec x t) as [->|Hx].
      * destruct (F t) as [_ [_ [_ [-> _]]]]. intros H. contradiction.
      * rewrite Vo; auto. apply (h_fin s Ci x o).
    + intros x. destruct (Nat.eq_dec x t) as [->|Hx]; [rewrite Vt; cbn; discriminate|].
      rewrite Vo; auto. apply (h_nofin s Ci x).
    + intros x. destruct (Nat.eq_dec x t) as [->|Hx].
      * destruct (F t) as [_ [-> _]]. destruct (k_run s K t Hrun) as [_ [-> _]]. intros H. contradiction.
      * rewrite Vo; auto. apply (h_done s Ci x).
    + intros x Hr. assert (Hx : x <> t) by (intros ->; contradiction).
      rewrite Vo; auto. apply (h_fd s Ci x Hr).
  - revert G. apply G_ext; try reflexivity; auto.
    intros x. destruct (F x) as [_ [E1 [_ [E2 [_ [_ [E3 [E4 _]]]]]]]]. unfold gview. now rewrite E1, E2, E3, E4.
  - apply (J_block2 s s2 t J).
    + intros x. destruct (F x) as [_ [_ [_ [-> [_ [-> [-> _]]]]]]]. refine (conj eq_refl (conj eq_refl (conj eq_refl _))).
      destruct (Nat.eq_dec x t) as [->|Hx]; [rewrite Vt; cbn; discriminate|now rewrite Vo].
    + intros x _. apply F.
    + intros Hr. exfalso. apply Hr. exact Hrun.
    + exact Hro.
    + reflexivity.
    + reflexivity.
    + auto.
    + auto.
Qed.

(* ---------------- group record updates ---------------- *)
(* fields the invariants do not look at: g_entered, g_left *)
Lemma M_upd_group_irrel s g h : MInv s ->
  (forall x, g_tasks (h x) = g_tasks x /\ g_ever (h x) = g_ever x /\ g_excs (h x) = g_excs x /\
             g_scope (h x) = g_scope x /\ g_fut (h x) = g_fut x) ->
  MInv (upd_group s g h).
Proof.
  intros [K Ci G J] Hh.
  assert (V : forall x, g_tasks (groups (upd_group s g h) x) = g_tasks (groups s x) /\
     g_ever (groups (upd_group s g h) x) = g_ever (groups s x) /\ g_excs (groups (upd_group s g h) x) = g_excs (groups s x) /\
     g_scope (groups (upd_group s g h) x) = g_scope (groups s x) /\ g_fut (groups (upd_group s g h) x) = g_fut (groups s x)).
  { intros x. cbn [upd_group set_groups groups]. unfold upd. destruct (Nat.eqb_spec x g); [subst; apply Hh|tauto]. }
  constructor.
  - revert K. apply KInv_mono_refd; try reflexivity; auto.
    apply refd_mono; auto.
    + intros x f H. exists x. destruct (V x) as [_ [_ [_ [_ E]]]]. now rewrite <- E.
    + intros c f H. exists c. exact H.
  - revert Ci. apply C_ext; try reflexivity; auto.
  - revert G. apply G_ext; try reflexivity; auto. intros x. destruct (V x) as [H1 [H2 [H3 [H4 _]]]]. auto.
  - revert J. apply J_ext; try reflexivity; auto. intros x. apply V.
Qed.

Lemma M_gr_entered s g b : MInv s -> MInv (upd_group s g (gr_entered b)).
Proof. intros M. apply M_upd_group_irrel; [exact M|]. intros x. cbn. tauto. Qed.

Lemma M_gr_left s g b : MInv s -> MInv (upd_group s g (gr_left b)).
Proof. intros M. apply M_upd_group_irrel; [exact M|]. intros x. cbn. tauto. Qed.

(* clearing / setting the on_completed future *)
Lemma gr_fut_groups s g fo x :
  g_tasks (groups (upd_group s g (gr_fut fo)) x) = g_tasks (groups s x) /\
  g_ever (groups (upd_group s g (gr_fut fo)) x) = g_ever (groups s x) /\
  g_excs (groups (upd_group s g (gr_fut fo)) x) = g_excs (groups s x) /\
  g_scope (groups (upd_group s g (gr_fut fo)) x) = g_scope (groups s x) /\
  g_fut (groups (upd_group s g (gr_fut fo)) x) = if Nat.eqb x g then fo else g_fut (groups s x).
Proof.
  cbn [upd_group set_groups groups]. unfold upd. destruct (Nat.eqb x g) eqn:E; [|tauto].
  apply Nat.eqb_eq in E. subst. cbn. tauto.
Qed.

Lemma M_gr_fut_none s g : MInv s -> MInv (upd_group s g (gr_fut None)).
Proof.
  intros [K Ci G J]. pose proof (gr_fut_groups s g None) as V.
  constructor.
  - revert K. apply KInv_mono_refd; try reflexivity; auto.
    apply refd_mono; auto.
    + intros x f H. destruct (V x) as [_ [_ [_ [_ E]]]]. rewrite E in H.
      destruct (Nat.eqb x g); [discriminate|eauto].
    + intros c f H. exists c. exact H.
  - revert Ci. apply C_ext; try reflexivity; auto.
  - revert G. apply G_ext; try reflexivity; auto. intros x. destruct (V x) as [H1 [H2 [H3 [H4 _]]]]. auto.
  - constructor; change (tasks (upd_group s g (gr_fut None))) with (tasks s);
      change (events (upd_group s g (gr_fut None))) with (events s);
      change (running (upd_group s g (gr_fut None))) with (running s);
      change (futs (upd_group s g (gr_fut None))) with (futs s); try apply J.
    + intros f e x H. destruct (V x) as [_ [_ [_ [_ ->]]]]. destruct (Nat.eqb x g); [discriminate|apply (kk_eg s J f e x H)].
    + intros f c x H. destruct (V x) as [_ [_ [_ [_ ->]]]]. destruct (Nat.eqb x g); [discriminate|apply (kk_sg s J f c x H)].
Qed.

Lemma M_gr_fut_some s g f : MInv s -> fresh s f -> MInv (upd_group s g (gr_fut (Some f))).
Proof.
  intros [K Ci G J] Hfr. pose proof (gr_fut_groups s g (Some f)) as V.
  destruct (fresh_not_ref s f Hfr) as [N1 [N2 [N3 N4]]].
  constructor.
  - revert K. apply (K_add_ref s _ f); try reflexivity; auto.
    intros x [[y H]|[[y H]|[[c H]|H]]].
    + left. left. eauto.
    + destruct (V y) as [_ [_ [_ [_ E]]]]. rewrite E in H. destruct (Nat.eqb y g).
      * injection H as <-. right. reflexivity.
      * left. right; left. eauto.
    + left. right; right; left. eauto.
    + left. right; right; right. exact H.
  - revert Ci. apply C_ext; try reflexivity; auto.
  - revert G. apply G_ext; try reflexivity; auto. intros x. destruct (V x) as [H1 [H2 [H3 [H4 _]]]]. auto.
  - constructor; change (tasks (upd_group s g (gr_fut (Some f)))) with (tasks s);
      change (events (upd_group s g (gr_fut (Some f)))) with (events s);
      change (running (upd_group s g (gr_fut (Some f)))) with (running s);
      change (futs (upd_group s g (gr_fut (Some f)))) with (futs s); try apply J.
    + intros y e x H. destruct (V x) as [_ [_ [_ [_ ->]]]]. destruct (Nat.eqb x g); [|apply (kk_eg s J y e x H)].
      intros E. injection E as <-. exact (N1 e H).
    + intros y c x H. destruct (V x) as [_ [_ [_ [_ ->]]]]. destruct (Nat.eqb x g); [|apply (kk_sg s J y c x H)].
      intros E. injection E as <-. exact (N3 c H).
Qed.
