(* C08 on the S machine: semantics of the three checkpoint functions. *)
From AV Require Import Base Machine.

Lemma ckif_spins_is_eff_cancelled fuel s x : ckif_spins fuel s x = eff_cancelled_from fuel s x.
Proof.
  revert x. induction fuel as [|fu IH]; intros x; cbn; [reflexivity|].
  destruct x as [c|]; [|reflexivity].
  destruct (s_cancelled (scopes s c)); [reflexivity|].
  destruct (s_shield (scopes s c)); [reflexivity|]. apply IH.
Qed.

(* the chain predicates only look at the scope table *)
Lemma eff_cancelled_from_scopes fuel s s' x :
  scopes s' = scopes s -> eff_cancelled_from fuel s' x = eff_cancelled_from fuel s x.
Proof.
  intros E. revert x. induction fuel as [|fu IH]; intros x; cbn; [reflexivity|].
  destruct x as [c|]; [|reflexivity]. rewrite E.
  destruct (s_cancelled (scopes s c)); [reflexivity|].
  destruct (s_shield (scopes s c)); [reflexivity|]. apply IH.
Qed.

Lemma begin_act_scopes s t : scopes (begin_act s t) = scopes s.
Proof. reflexivity. Qed.
Lemma begin_act_nscope s t : nscope (begin_act s t) = nscope s.
Proof. reflexivity. Qed.
Lemma begin_act_cur s t : k_cur (tasks (begin_act s t) t) = k_cur (tasks s t).
Proof. unfold begin_act, upd_task; cbn. rewrite upd_same. reflexivity. Qed.

(* checkpoint_if_cancelled: suspends iff the caller's scope is effectively cancelled; otherwise returns at once *)
Theorem ckif_suspends_iff_effectively_cancelled s t :
  idle s t = true ->
  snd (step s (ACkIf t)) =
    if eff_cancelled_from (nscope s) s (k_cur (tasks s t)) then RBlocked else RRet 0.
Proof.
  intros Hi. cbn [step actor]. rewrite Hi. cbn [negb]. unfold puppet_op.
  rewrite ckif_spins_is_eff_cancelled, begin_act_nscope, begin_act_cur.
  rewrite (eff_cancelled_from_scopes _ s (begin_act s t)) by apply begin_act_scopes.
  destruct (eff_cancelled_from (nscope s) s (k_cur (tasks s t))); reflexivity.
Qed.

(* the walks only read the scope table *)
Lemma ckif_spins_scopes fuel s s' : scopes s' = scopes s -> forall x, ckif_spins fuel s' x = ckif_spins fuel s x.
Proof.
  intros E. induction fuel as [|fu IH]; intros x; [reflexivity|].
  destruct x as [c|]; cbn [ckif_spins]; [|reflexivity]. rewrite E. now rewrite IH.
Qed.

(* while it spins (F46: the walk is restarted from the task's own scope at every resumption): a resumption with a
   cancellation raises it; one without yields again iff a cancelled scope is still visible from the task's current
   scope, and returns normally otherwise *)
Theorem ckif_spin_resume s t fo :
  k_ctl (tasks s t) = CYield YCkIf ->
  match snd (incoming s t fo) with
  | None => snd (resume s t fo) =
            if ckif_spins (nscope s) s (k_cur (tasks s t)) then RBlocked else RRet 0
  | Some e => snd (resume s t fo) = RExc e
  end.
Proof.
  intros Hc. unfold resume. destruct (incoming s t fo) as [s1 inc] eqn:E. cbn [snd].
  assert (Hc1 : k_ctl (tasks s1 t) = CYield YCkIf /\ k_cur (tasks s1 t) = k_cur (tasks s t) /\
                nscope s1 = nscope s /\ scopes s1 = scopes s).
  { unfold incoming in E. injection E as <- _. cbn. unfold upd_task; cbn. rewrite upd_same. cbn. auto. }
  destruct Hc1 as (Hc1 & Hk & Hn & Hs). rewrite Hc1. destruct inc; [reflexivity|].
  rewrite Hk, Hn, (ckif_spins_scopes _ s s1 Hs). destruct (ckif_spins _ _ _); reflexivity.
Qed.

(* checkpoint() and cancel_shielded_checkpoint() always suspend *)
Theorem yield_always_suspends s t : idle s t = true -> snd (step s (AYield t)) = RBlocked.
Proof. intros Hi. cbn [step actor]. rewrite Hi. reflexivity. Qed.

Theorem shieldck_always_suspends s t : idle s t = true -> snd (step s (AShieldCk t)) = RBlocked.
Proof.
  intros Hi. cbn [step actor]. rewrite Hi. cbn [negb]. unfold puppet_op.
  destruct (new_scope (begin_act s t) None true) as [s1 c]. reflexivity.
Qed.

(* a plain checkpoint returns to the program exactly what the kernel hands it on resumption *)
Theorem yield_resume s t fo :
  k_ctl (tasks s t) = CYield YCheckpoint ->
  snd (resume s t fo) = res_of_inc (snd (incoming s t fo)).
Proof.
  intros Hc. unfold resume. destruct (incoming s t fo) as [s1 inc] eqn:E. cbn [snd].
  assert (Hc1 : k_ctl (tasks s1 t) = CYield YCheckpoint).
  { unfold incoming in E. injection E as <- _. cbn. unfold upd_task; cbn. rewrite upd_same. cbn. exact Hc. }
  rewrite Hc1. unfold ret_to_puppet. destruct (res_of_inc inc); reflexivity.
Qed.

(* non-vacuity *)
Example ex_ckif_cancelled :
  let s := final step init [ANewRoot; ANewScope 1 None false; AEnter 1 1; ACancel 1 1] in
  idle s 1 = true /\ eff_cancelled_from (nscope s) s (k_cur (tasks s 1)) = true /\
  snd (step s (ACkIf 1)) = RBlocked.
Proof. vm_compute. auto. Qed.

Example ex_ckif_shielded :
  let s := final step init [ANewRoot; ANewScope 1 None false; AEnter 1 1;
                            ANewScope 1 None true; AEnter 1 2; ACancel 1 1] in
  idle s 1 = true /\ snd (step s (ACkIf 1)) = RRet 0.
Proof. vm_compute. auto. Qed.

(* F46: the same at EVERY re-check of the spin.  When the loop runs the step callback of a task spinning in
   checkpoint_if_cancelled and the task carries no cancellation request, the walk is restarted from the task's own
   scope: it yields again iff that scope is (still) effectively cancelled, and returns normally otherwise -- it never
   spins when nothing cancelled is visible (any state; no invariant needed). *)
Theorem ckif_respin_iff_effectively_cancelled s t :
  In (HStep t) (ready s) -> k_ctl (tasks s t) = CYield YCkIf -> k_must (tasks s t) = false ->
  snd (step s (ARun (HStep t))) =
    if eff_cancelled_from (nscope s) s (k_cur (tasks s t)) then RBlocked else RRet 0.
Proof.
  intros Hin Hc Hm. cbn [step actor]. unfold run_handle.
  assert (Ex : existsb (handle_eqb (HStep t)) (ready s) = true).
  { apply existsb_exists. exists (HStep t). split; [exact Hin|]. cbn. apply Nat.eqb_refl. }
  rewrite Ex. cbn [negb]. set (s1 := set_ready s (remove_first (HStep t) (ready s))).
  pose proof (ckif_spin_resume s1 t None Hc) as H.
  assert (Ei : snd (incoming s1 t None) = None).
  { unfold incoming. cbn [snd]. change (tasks s1 t) with (tasks s t). now rewrite Hm. }
  rewrite Ei in H. rewrite H. rewrite ckif_spins_is_eff_cancelled.
  change (nscope s1) with (nscope s). change (tasks s1 t) with (tasks s t).
  now rewrite (eff_cancelled_from_scopes _ s s1 _ eq_refl).
Qed.

Corollary ckif_spin_released_when_nothing_visible s t :
  In (HStep t) (ready s) -> k_ctl (tasks s t) = CYield YCkIf -> k_must (tasks s t) = false ->
  eff_cancelled_from (nscope s) s (k_cur (tasks s t)) = false ->
  snd (step s (ARun (HStep t))) = RRet 0.
Proof. intros A B C D. rewrite (ckif_respin_iff_effectively_cancelled s t A B C), D. reflexivity. Qed.

(* not vacuous, both ways: a task spinning under its own cancelled scope yields again (the delivery has not run yet);
   after its scope is un-seen through a raised shield it returns *)
Example ckif_respin_examples :
  let s := final step init [ANewRoot; ANewScope 1 None false; AEnter 1 1; ACancel 1 1; ACkIf 1] in
  In (HStep 1) (ready s) /\ k_ctl (tasks s 1) = CYield YCkIf /\ k_must (tasks s 1) = false /\
  eff_cancelled_from (nscope s) s (k_cur (tasks s 1)) = true /\ snd (step s (ARun (HStep 1))) = RBlocked.
Proof. vm_compute. repeat split; auto. Qed.
