(* C08 on the S machine: semantics of the three checkpoint functions. *)
From AV Require Import Base Machine.

Lemma ckif_spins_is_eff_cancelled fuel s x : ckif_spins fuel s x = eff_cancelled_from fuel s x.
Proof.
  revert x. induction fuel as [|fu IH]; intros x; cbn; [reflexivity|].
  destruct x as [c|]; [|reflexivity].
  destruct (s_cancelled (scopes s c)); [reflexivity|].
  destruct (s_shield (scopes s c)); [reflexivity|]. apply IH.
Qed.

(* the chain predicates only look at the scope table *)
Lemma eff_cancelled_from_scopes fuel s s' x :
  scopes s' = scopes s -> eff_cancelled_from fuel s' x = eff_cancelled_from fuel s x.
Proof.
  intros E. revert x. induction fuel as [|fu IH]; intros x; cbn; [reflexivity|].
  destruct x as [c|]; [|reflexivity]. rewrite E.
  destruct (s_cancelled (scopes s c)); [reflexivity|].
  destruct (s_shield (scopes s c)); [reflexivity|]. apply IH.
Qed.

Lemma begin_act_scopes s t : scopes (begin_act s t) = scopes s.
Proof. reflexivity. Qed.
Lemma begin_act_nscope s t : nscope (begin_act s t) = nscope s.
Proof. reflexivity. Qed.
Lemma begin_act_cur s t : k_cur (tasks (begin_act s t) t) = k_cur (tasks s t).
Proof. unfold begin_act, upd_task; cbn. rewrite upd_same. reflexivity. Qed.

(* checkpoint_if_cancelled: suspends iff the caller's scope is effectively cancelled; otherwise returns at once *)
Theorem ckif_suspends_iff_effectively_cancelled s t :
  idle s t = true ->
  snd (step s (ACkIf t)) =
    if eff_cancelled_from (nscope s) s (k_cur (tasks s t)) then RBlocked else RRet 0.
Proof.
  intros Hi. cbn [step actor]. rewrite Hi. cbn [negb]. unfold puppet_op.
  rewrite ckif_spins_is_eff_cancelled, begin_act_nscope, begin_act_cur.
  rewrite (eff_cancelled_from_scopes _ s (begin_act s t)) by apply begin_act_scopes.
  destruct (eff_cancelled_from (nscope s) s (k_cur (tasks s t))); reflexivity.
Qed.

(* while it spins, a resumption without a cancellation yields again; with one it raises it *)
Theorem ckif_spin_resume s t fo :
  k_ctl (tasks s t) = CYield YCkIf ->
  match snd (incoming s t fo) with
  | None => snd (resume s t fo) = RBlocked
  | Some e => snd (resume s t fo) = RExc e
  end.
Proof.
  intros Hc. unfold resume. destruct (incoming s t fo) as [s1 inc] eqn:E. cbn [snd].
  assert (Hc1 : k_ctl (tasks s1 t) = CYield YCkIf).
  { unfold incoming in E. injection E as <- _. cbn. unfold upd_task; cbn. rewrite upd_same. cbn. exact Hc. }
  rewrite Hc1. destruct inc; reflexivity.
Qed.

(* checkpoint() and cancel_shielded_checkpoint() always suspend *)
Theorem yield_always_suspends s t : idle s t = true -> snd (step s (AYield t)) = RBlocked.
Proof. intros Hi. cbn [step actor]. rewrite Hi. reflexivity. Qed.

Theorem shieldck_always_suspends s t : idle s t = true -> snd (step s (AShieldCk t)) = RBlocked.
Proof.
  intros Hi. cbn [step actor]. rewrite Hi. cbn [negb]. unfold puppet_op.
  destruct (new_scope (begin_act s t) None true) as [s1 c]. reflexivity.
Qed.

(* a plain checkpoint returns to the program exactly what the kernel hands it on resumption *)
Theorem yield_resume s t fo :
  k_ctl (tasks s t) = CYield YCheckpoint ->
  snd (resume s t fo) = res_of_inc (snd (incoming s t fo)).
Proof.
  intros Hc. unfold resume. destruct (incoming s t fo) as [s1 inc] eqn:E. cbn [snd].
  assert (Hc1 : k_ctl (tasks s1 t) = CYield YCheckpoint).
  { unfold incoming in E. injection E as <- _. cbn. unfold upd_task; cbn. rewrite upd_same. cbn. exact Hc. }
  rewrite Hc1. unfold ret_to_puppet. destruct (res_of_inc inc); reflexivity.
Qed.

(* non-vacuity *)
Example ex_ckif_cancelled :
  let s := final step init [ANewRoot; ANewScope 1 None false; AEnter 1 1; ACancel 1 1] in
  idle s 1 = true /\ eff_cancelled_from (nscope s) s (k_cur (tasks s 1)) = true /\
  snd (step s (ACkIf 1)) = RBlocked.
Proof. vm_compute. auto. Qed.

Example ex_ckif_shielded :
  let s := final step init [ANewRoot; ANewScope 1 None false; AEnter 1 1;
                            ANewScope 1 None true; AEnter 1 2; ACancel 1 1] in
  idle s 1 = true /\ snd (step s (ACkIf 1)) = RRet 0.
Proof. vm_compute. auto. Qed.
