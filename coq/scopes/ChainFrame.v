(* Frame lemmas for the S machine: what the cancellation-delivery machinery (task_cancel, deliver, restart) can and
   cannot change.  `dframe s s'` is the strong relation satisfied by deliver/restart; the chain predicates, the
   timers and everything the C04/C06 theorems talk about are invariant under it. *)
From AV Require Import Base Machine.

(* ---------------- upd ---------------- *)
Lemma upd_eq {A} (f : nat -> A) k v x : upd f k v x = if Nat.eqb x k then v else f x.
Proof. reflexivity. Qed.

Lemma upd_pres {A} (P : A -> Prop) (f : nat -> A) k v : P v -> (forall x, P (f x)) -> forall x, P (upd f k v x).
Proof. intros Hv Hf x. unfold upd. destruct (Nat.eqb x k); auto. Qed.

(* ---------------- per-record frames ---------------- *)
(* everything of a scope except _cancel_handle and _pending_uncancellations *)
Record core_eq (a b : scope) : Prop := mk_core_eq {
  ce_deadline : s_deadline a = s_deadline b;
  ce_shield : s_shield a = s_shield b;
  ce_parent : s_parent a = s_parent b;
  ce_children : s_children a = s_children b;
  ce_cancelled : s_cancelled a = s_cancelled b;
  ce_caught : s_caught a = s_caught b;
  ce_active : s_active a = s_active b;
  ce_timeout : s_timeout a = s_timeout b;
  ce_tasks : s_tasks a = s_tasks b;
  ce_host : s_host a = s_host b;
  ce_bydeadline : s_bydeadline a = s_bydeadline b
}.

Lemma core_eq_refl a : core_eq a a.
Proof. constructor; reflexivity. Qed.

Lemma core_eq_trans a b c : core_eq a b -> core_eq b c -> core_eq a c.
Proof. intros [] []. constructor; congruence. Qed.

Lemma core_eq_chandle b c : core_eq (sc_chandle b c) c.
Proof. constructor; reflexivity. Qed.

Lemma core_eq_pending n c : core_eq (sc_pending n c) c.
Proof. constructor; reflexivity. Qed.

(* everything of a task except the cancellation request state (_num_cancels_requested, _must_cancel, message) *)
Record tk_eq (a b : task) : Prop := mk_tk_eq {
  te_ctl : k_ctl a = k_ctl b;
  te_started : k_started a = k_started b;
  te_done : k_done a = k_done b;
  te_waiter : k_waiter a = k_waiter b;
  te_cur : k_cur a = k_cur b;
  te_held : k_held a = k_held b;
  te_group : k_group a = k_group b;
  te_hscope : k_hscope a = k_hscope b;
  te_hevent : k_hevent a = k_hevent b;
  te_hexc : k_hexc a = k_hexc b;
  te_hret : k_hret a = k_hret b;
  te_startfut : k_startfut a = k_startfut b;
  te_final : k_final a = k_final b;
  te_tdran : k_tdran a = k_tdran b
}.

Lemma tk_eq_refl a : tk_eq a a.
Proof. constructor; reflexivity. Qed.

Lemma tk_eq_trans a b c : tk_eq a b -> tk_eq b c -> tk_eq a c.
Proof. intros [] []. constructor; congruence. Qed.

Lemma tk_eq_ncancel n k : tk_eq (tk_ncancel n k) k.
Proof. constructor; reflexivity. Qed.

Lemma tk_eq_must b m k : tk_eq (tk_must b m k) k.
Proof. constructor; reflexivity. Qed.

(* handles the delivery machinery may append to the ready queue *)
Definition soft (h : handle) : Prop :=
  match h with HWake _ _ | HDeliver _ => True | _ => False end.

(* ---------------- the delivery frame ---------------- *)
Record dframe (s s' : st) : Prop := mk_dframe {
  df_ntask : ntask s' = ntask s;
  df_nscope : nscope s' = nscope s;
  df_groups : groups s' = groups s;
  df_ngroup : ngroup s' = ngroup s;
  df_nfut : nfut s' = nfut s;
  df_events : events s' = events s;
  df_nevent : nevent s' = nevent s;
  df_timers : timers s' = timers s;
  df_ntimer : ntimer s' = ntimer s;
  df_now : now s' = now s;
  df_running : running s' = running s;
  df_scopes : forall x, core_eq (scopes s' x) (scopes s x);
  df_tasks : forall t, tk_eq (tasks s' t) (tasks s t);
  df_ready : exists l, ready s' = ready s ++ l /\ Forall soft l
}.

Lemma dframe_refl s : dframe s s.
Proof.
  constructor; try reflexivity.
  - intros x. apply core_eq_refl.
  - intros t. apply tk_eq_refl.
  - exists []. split; [now rewrite app_nil_r|constructor].
Qed.

Lemma dframe_trans a b c : dframe a b -> dframe b c -> dframe a c.
Proof.
  intros H1 H2. destruct H1, H2. constructor; try congruence.
  - intros x. eapply core_eq_trans; eauto.
  - intros t. eapply tk_eq_trans; eauto.
  - destruct df_ready0 as (l1 & E1 & F1), df_ready1 as (l2 & E2 & F2).
    exists (l1 ++ l2). split; [rewrite E2, E1; now rewrite app_assoc|]. apply Forall_app. auto.
Qed.

Lemma dframe_upd_task s t g : (forall k, tk_eq (g k) k) -> dframe s (upd_task s t g).
Proof.
  intros Hg. destruct (dframe_refl s). constructor; try reflexivity; try assumption.
  intros x. cbn [upd_task set_tasks tasks]. rewrite upd_eq. destruct (Nat.eqb x t) eqn:E.
  - apply Nat.eqb_eq in E. subst x. apply Hg.
  - apply tk_eq_refl.
Qed.

Lemma dframe_upd_scope s x g : (forall c, core_eq (g c) c) -> dframe s (upd_scope s x g).
Proof.
  intros Hg. destruct (dframe_refl s). constructor; try reflexivity; try assumption.
  intros y. cbn [upd_scope set_scopes scopes]. rewrite upd_eq. destruct (Nat.eqb y x) eqn:E.
  - apply Nat.eqb_eq in E. subst y. apply Hg.
  - apply core_eq_refl.
Qed.

Lemma dframe_upd_fut s f g : dframe s (upd_fut s f g).
Proof. destruct (dframe_refl s). constructor; try reflexivity; assumption. Qed.

Lemma dframe_call_soon s h : soft h -> dframe s (call_soon s h).
Proof.
  intros Hh. destruct (dframe_refl s). constructor; try reflexivity; try assumption.
  exists [h]. split; [reflexivity|]. constructor; [exact Hh|constructor].
Qed.

Lemma dframe_fut_complete s f v : dframe s (fut_complete s f v).
Proof.
  unfold fut_complete. destruct (f_st (futs s f)); try apply dframe_refl.
  destruct (f_waiter (futs s f)) as [t|].
  - eapply dframe_trans; [apply dframe_upd_fut|]. apply dframe_call_soon. exact I.
  - apply dframe_upd_fut.
Qed.

Lemma dframe_task_cancel s t o : dframe s (task_cancel s t o).
Proof.
  unfold task_cancel. destruct (k_done (tasks s t)); [apply dframe_refl|].
  assert (H1 : dframe s (upd_task s t (tk_ncancel (S (k_ncancel (tasks s t))))))
    by (apply dframe_upd_task; intros k; apply tk_eq_ncancel).
  destruct (k_waiter (tasks s t)) as [f|].
  - destruct (fut_pending _ f).
    + eapply dframe_trans; [exact H1|apply dframe_fut_complete].
    + eapply dframe_trans; [exact H1|]. apply dframe_upd_task. intros k; apply tk_eq_must.
  - eapply dframe_trans; [exact H1|]. apply dframe_upd_task. intros k; apply tk_eq_must.
Qed.

Lemma dframe_task_uncancel s t : dframe s (task_uncancel s t).
Proof. unfold task_uncancel. apply dframe_upd_task. intros k. apply tk_eq_ncancel. Qed.

Lemma dframe_iter_uncancel n t : forall s, dframe s (iter n (fun a => task_uncancel a t) s).
Proof.
  induction n as [|n IH]; intros s; cbn [iter]; [apply dframe_refl|].
  eapply dframe_trans; [apply dframe_task_uncancel|apply IH].
Qed.

(* task_cancel touches no other task *)
Lemma task_cancel_other s t o x : x <> t -> tasks (task_cancel s t o) x = tasks s x.
Proof.
  intros Hx. unfold task_cancel. destruct (k_done (tasks s t)); [reflexivity|].
  assert (E : forall a g, tasks (upd_task a t g) x = tasks a x).
  { intros a g. cbn [upd_task set_tasks tasks]. now rewrite upd_other. }
  assert (F : forall a f v, tasks (fut_complete a f v) x = tasks a x).
  { intros a f v. unfold fut_complete. destruct (f_st (futs a f)); try reflexivity.
    destruct (f_waiter (futs a f)); reflexivity. }
  destruct (k_waiter (tasks s t)) as [f|].
  - destruct (fut_pending _ f); [now rewrite F, E|now rewrite !E].
  - now rewrite !E.
Qed.

(* ---------------- deliver ---------------- *)
Lemma deliver_task_dframe self origin a r t : dframe a (fst (deliver_task self origin (a, r) t)).
Proof.
  unfold deliver_task. destruct (k_done (tasks a t)); [apply dframe_refl|].
  destruct (k_must (tasks a t)); [apply dframe_refl|].
  destruct (negb (opt_eqb (running a) t) && (opt_eqb (s_host (scopes a self)) t || k_started (tasks a t)));
    [|apply dframe_refl].
  destruct (match k_waiter (tasks a t) with Some f => fut_pending a f | None => true end); [|apply dframe_refl].
  cbn [fst]. destruct (opt_eqb _ t).
  - eapply dframe_trans; [apply dframe_task_cancel|]. apply dframe_upd_scope. intros c. apply core_eq_pending.
  - apply dframe_task_cancel.
Qed.

Lemma deliver_task_other self origin a r t x :
  x <> t -> tasks (fst (deliver_task self origin (a, r) t)) x = tasks a x.
Proof.
  intros Hx. unfold deliver_task. destruct (k_done (tasks a t)); [reflexivity|].
  destruct (k_must (tasks a t)); [reflexivity|].
  destruct (negb (opt_eqb (running a) t) && (opt_eqb (s_host (scopes a self)) t || k_started (tasks a t)));
    [|reflexivity].
  destruct (match k_waiter (tasks a t) with Some f => fut_pending a f | None => true end); [|reflexivity].
  cbn [fst]. destruct (opt_eqb _ t); cbn [upd_scope set_scopes tasks]; now apply task_cancel_other.
Qed.

Lemma deliver_tasks_fold self origin l : forall acc,
  dframe (fst acc) (fst (fold_left (deliver_task self origin) l acc)) /\
  forall x, ~ In x l -> tasks (fst (fold_left (deliver_task self origin) l acc)) x = tasks (fst acc) x.
Proof.
  induction l as [|t l IH]; intros acc; cbn [fold_left].
  - split; [apply dframe_refl|reflexivity].
  - destruct acc as [a r]. destruct (IH (deliver_task self origin (a, r) t)) as [H1 H2]. split.
    + eapply dframe_trans; [apply deliver_task_dframe|exact H1].
    + intros x Hx. rewrite H2 by (intros Hin; apply Hx; now right).
      apply deliver_task_other. intros ->. apply Hx. now left.
Qed.

(* the scopes a delivery run started at `self` goes through: self, then recursively the children that are
   neither shielded nor cancelled *)
Fixpoint vlist (fuel : nat) (s : st) (self : sid) : list sid :=
  match fuel with
  | 0 => []
  | S fu =>
      self :: flat_map (fun c => if negb (s_shield (scopes s c)) && negb (s_cancelled (scopes s c))
                                 then vlist fu s c else [])
                       (s_children (scopes s self))
  end.

(* the tasks in reach of such a run *)
Definition reach_tasks (fuel : nat) (s : st) (self : sid) : list tid :=
  flat_map (fun x => s_tasks (scopes s x)) (vlist fuel s self).

Lemma vlist_frame fuel : forall s s' self,
  (forall x, core_eq (scopes s' x) (scopes s x)) -> vlist fuel s' self = vlist fuel s self.
Proof.
  induction fuel as [|fu IH]; intros s s' self H; [reflexivity|].
  cbn [vlist]. f_equal. rewrite (ce_children _ _ (H self)).
  apply flat_map_ext. intros c. rewrite (ce_shield _ _ (H c)), (ce_cancelled _ _ (H c)).
  destruct (negb _ && negb _); [now apply IH|reflexivity].
Qed.

Lemma reach_tasks_frame fuel s s' self :
  (forall x, core_eq (scopes s' x) (scopes s x)) -> reach_tasks fuel s' self = reach_tasks fuel s self.
Proof.
  intros H. unfold reach_tasks. rewrite (vlist_frame fuel s s' self H).
  apply flat_map_ext. intros x. apply (ce_tasks _ _ (H x)).
Qed.

(* deliver: (1) stays within dframe, (2) leaves every task outside reach completely untouched *)
Theorem deliver_spec fuel : forall s self origin,
  dframe s (fst (deliver fuel s self origin)) /\
  forall t, ~ In t (reach_tasks fuel s self) -> tasks (fst (deliver fuel s self origin)) t = tasks s t.
Proof.
  induction fuel as [|fu IH]; intros s self origin; [split; [apply dframe_refl|reflexivity]|].
  cbn [deliver].
  destruct (deliver_tasks_fold self origin (s_tasks (scopes s self)) (s, false)) as [F1 T1].
  destruct (fold_left (deliver_task self origin) (s_tasks (scopes s self)) (s, false)) as [s1 r1] eqn:E1.
  cbn [fst] in F1, T1.
  (* the fold over the children, generalised *)
  set (G := fun (acc : st * bool) (c : sid) =>
              let '(a, r) := acc in
              if negb (s_shield (scopes a c)) && negb (s_cancelled (scopes a c)) then
                let '(a', r') := deliver fu a c origin in (a', r' || r)
              else (a, r)).
  assert (HG : forall l acc, dframe s (fst acc) ->
             dframe s (fst (fold_left G l acc)) /\
             forall t, ~ In t (flat_map (fun x => s_tasks (scopes s x))
                                 (flat_map (fun c => if negb (s_shield (scopes s c)) && negb (s_cancelled (scopes s c))
                                                     then vlist fu s c else []) l)) ->
                       tasks (fst (fold_left G l acc)) t = tasks (fst acc) t).
  { induction l as [|c l IHl]; intros [a r] Ha; cbn [fold_left].
    - split; [exact Ha|reflexivity].
    - cbn [fst] in Ha. unfold G at 2 4. cbn [flat_map].
      rewrite <- (ce_shield _ _ (df_scopes _ _ Ha c)), <- (ce_cancelled _ _ (df_scopes _ _ Ha c)).
      destruct (negb (s_shield (scopes a c)) && negb (s_cancelled (scopes a c))) eqn:Eo.
      + destruct (IH a c origin) as [D1 D2]. destruct (deliver fu a c origin) as [a' r'] eqn:Ed.
        cbn [fst] in D1, D2.
        destruct (IHl (a', r' || r)) as [K1 K2]; [cbn [fst]; eapply dframe_trans; eauto|].
        split; [exact K1|]. intros t Ht. rewrite flat_map_app, in_app_iff in Ht.
        rewrite K2 by (intros Hin; apply Ht; now right). cbn [fst].
        apply D2. rewrite (reach_tasks_frame fu s a c (df_scopes _ _ Ha)).
        intros Hin. apply Ht. left. exact Hin.
      + destruct (IHl (a, r)) as [K1 K2]; [exact Ha|]. split; [exact K1|].
        intros t Ht. apply K2. exact Ht. }
  destruct (HG (s_children (scopes s1 self)) (s1, r1) F1) as [F2 T2].
  fold G. destruct (fold_left G (s_children (scopes s1 self)) (s1, r1)) as [s2 r2] eqn:E2.
  cbn [fst] in F2, T2.
  assert (F3 : dframe s (fst (if Nat.eqb origin self
                              then if r2 then (call_soon (upd_scope s2 self (sc_chandle true)) (HDeliver self), r2)
                                   else (upd_scope s2 self (sc_chandle false), r2)
                              else (s2, r2))) /\
               forall t, tasks (fst (if Nat.eqb origin self
                              then if r2 then (call_soon (upd_scope s2 self (sc_chandle true)) (HDeliver self), r2)
                                   else (upd_scope s2 self (sc_chandle false), r2)
                              else (s2, r2))) t = tasks s2 t).
  { destruct (Nat.eqb origin self); [destruct r2|]; cbn [fst]; (split; [|reflexivity]).
    - eapply dframe_trans; [exact F2|]. eapply dframe_trans; [|apply dframe_call_soon; exact I].
      apply dframe_upd_scope. intros c. apply core_eq_chandle.
    - eapply dframe_trans; [exact F2|]. apply dframe_upd_scope. intros c. apply core_eq_chandle.
    - exact F2. }
  destruct F3 as [F3 T3]. split; [exact F3|].
  intros t Ht. rewrite T3. unfold reach_tasks in Ht. cbn [vlist flat_map] in Ht. rewrite in_app_iff in Ht.
  rewrite T2.
  - apply T1. intros Hin. apply Ht. now left.
  - rewrite (ce_children _ _ (df_scopes _ _ F1 self)). intros Hin. apply Ht. now right.
Qed.

Corollary deliver_dframe fuel s self origin : dframe s (fst (deliver fuel s self origin)).
Proof. apply deliver_spec. Qed.

Corollary deliver_top_dframe s c : dframe s (deliver_top s c).
Proof. apply deliver_dframe. Qed.

Lemma restart_from_dframe fuel s : forall x, dframe s (restart_from fuel s x).
Proof.
  induction fuel as [|fu IH]; intros x; [destruct x; apply dframe_refl|].
  destruct x as [c|]; cbn [restart_from]; [|apply dframe_refl].
  destruct (s_cancelled (scopes s c)).
  - destruct (s_chandle (scopes s c)); [apply dframe_refl|apply deliver_top_dframe].
  - destruct (s_shield (scopes s c)); [apply dframe_refl|apply IH].
Qed.

Lemma restart_dframe s x : dframe s (restart s x).
Proof. apply restart_from_dframe. Qed.

(* ---------------- the chain predicates only read (cancelled, shield, parent) ---------------- *)
Lemma eff_cancelled_from_ext fuel s s' :
  (forall c, s_cancelled (scopes s' c) = s_cancelled (scopes s c) /\
             s_shield (scopes s' c) = s_shield (scopes s c) /\
             s_parent (scopes s' c) = s_parent (scopes s c)) ->
  forall x, eff_cancelled_from fuel s' x = eff_cancelled_from fuel s x.
Proof.
  intros H. induction fuel as [|fu IH]; intros x; [reflexivity|].
  destruct x as [c|]; cbn [eff_cancelled_from]; [|reflexivity].
  destruct (H c) as (-> & -> & ->). now rewrite IH.
Qed.

Lemma parent_visible_ext s s' :
  nscope s' = nscope s ->
  (forall c, s_cancelled (scopes s' c) = s_cancelled (scopes s c) /\
             s_shield (scopes s' c) = s_shield (scopes s c) /\
             s_parent (scopes s' c) = s_parent (scopes s c)) ->
  forall c, parent_visible s' c = parent_visible s c.
Proof.
  intros Hn H c. unfold parent_visible, eff_cancelled. destruct (H c) as (_ & -> & ->).
  destruct (s_parent (scopes s c)); [|reflexivity]. now rewrite Hn, (eff_cancelled_from_ext _ s s' H).
Qed.

Lemma dframe_chain_fields s s' : dframe s s' ->
  forall c, s_cancelled (scopes s' c) = s_cancelled (scopes s c) /\
            s_shield (scopes s' c) = s_shield (scopes s c) /\
            s_parent (scopes s' c) = s_parent (scopes s c).
Proof.
  intros H c. destruct (df_scopes _ _ H c). auto.
Qed.

Lemma dframe_parent_visible s s' c : dframe s s' -> parent_visible s' c = parent_visible s c.
Proof.
  intros H. apply parent_visible_ext; [apply (df_nscope _ _ H)|apply dframe_chain_fields, H].
Qed.

Lemma dframe_eff_cancelled s s' c : dframe s s' -> eff_cancelled s' c = eff_cancelled s c.
Proof.
  intros H. unfold eff_cancelled. rewrite (df_nscope _ _ H).
  apply eff_cancelled_from_ext, dframe_chain_fields, H.
Qed.
