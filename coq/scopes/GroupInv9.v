(* step_inv, inv_init, reachable: the invariant holds in every reachable state of the S machine. *)
From AV Require Import Base Machine GroupInv GroupInv2 GroupInv3 GroupInv4 GroupInv5 GroupInv6 GroupInv7 GroupInv8.

Lemma park_running_irrel s r t : set_running (park (set_running s r) t) None = set_running (park s t) None.
Proof.
  unfold park, new_fut, suspend_on. cbn [futs set_running nfut tasks].
  destruct (f_st (upd (futs s) (nfut s) fut0 (nfut s))); try reflexivity.
  destruct (k_must (tasks s t)); [|reflexivity].
  unfold fut_complete. cbn [futs upd_task set_tasks upd_fut set_futs].
  match goal with |- context [f_st ?x] => destruct (f_st x) end; try reflexivity.
  match goal with |- context [f_waiter ?x] => destruct (f_waiter x) end; reflexivity.
Qed.

Lemma M_set_running_some s t : MInv s -> running s = None -> ~ In t (thtasks (ready s)) ->
  k_waiter (tasks s t) = None -> k_done (tasks s t) = None -> alloc s t -> MInv (set_running s (Some t)).
Proof.
  intros [K Ci G J] Hr Hnt Hw Hd Hal. constructor.
  - constructor; unfold alloc; cbn [set_running ready tasks futs nfut ntask running].
    + apply K.
    + apply K.
    + apply (k_wake s K).
    + intros x H. destruct (k_step s K x H) as [H1 [H2 [H3 H4]]]. refine (conj H1 (conj H2 (conj _ H4))).
      intros E. injection E as <-. apply Hnt, in_thtasks. auto.
    + intros x f H. destruct (k_w1 s K x f H) as [H1 [H2 [H3 H4]]]. refine (conj H1 (conj H2 (conj _ H4))).
      intros E. injection E as <-. congruence.
    + apply (k_pend s K).
    + intros x E. injection E as <-. auto.
    + apply (k_td s K).
    + apply (k_ref s K).
    + apply (k_idle s K).
  - revert Ci. apply C_ext2; try reflexivity; auto.
    intros x _. rewrite Hr. discriminate.
  - revert G. apply G_ext; try reflexivity; auto.
  - revert J. apply J_ext; try reflexivity; auto. intros x _. rewrite Hr. discriminate.
Qed.

Lemma new_root_inv s : Inv s -> Inv (fst (new_root s)).
Proof.
  intros [M Hr]. unfold new_root. cbn [fst].
  change (Inv (set_running (park (talloc s root_rec false) (ntask s)) None)).
  set (t := ntask s). set (s1 := talloc s root_rec false).
  assert (M1 : MInv s1).
  { apply M_talloc; auto. unfold newtask_ok, root_rec. cbn.
    pose proof (c_n s (m_c s M)) as Hn.
    refine (conj eq_refl (conj eq_refl (conj eq_refl (conj eq_refl (conj eq_refl (conj eq_refl (conj _ (conj eq_refl (conj _ (conj _ (conj I (conj _ (conj I (conj eq_refl eq_refl)))))))))))))); try discriminate. lia. }
  rewrite <- (park_running_irrel s1 (Some t) t).
  assert (Tt : tasks s1 t = root_rec) by (unfold s1, talloc, t; cbn [tasks]; apply upd_same).
  apply Inv_park. refine (conj _ (conj eq_refl _)).
  - apply M_set_running_some; auto.
    + intros Hin. apply (thtasks_alloc s t (m_k s M)) in Hin. unfold alloc, t in Hin. lia.
    + now rewrite Tt.
    + now rewrite Tt.
    + unfold alloc, s1, talloc, t. cbn. pose proof (c_n s (m_c s M)). lia.
  - cbn [set_running tasks]. now rewrite Tt.
Qed.

(* fut_complete with the kernel precondition stated directly (the reference may just have been consumed) *)
Lemma M_fut_complete' s f v : MInv s -> v <> FPend ->
  (f_st (futs s f) = FPend -> forall t, f_waiter (futs s f) = Some t -> k_waiter (tasks s t) = Some f) ->
  (forall r e, v = FRes r -> In f (e_waiters (events s e)) -> e_set (events s e) = true) ->
  MInv (fut_complete s f v).
Proof.
  intros [K Ci G J] Hv Hw Hres. constructor.
  - apply K_fut_complete; auto.
  - apply C_fut_complete, Ci.
  - revert G. apply G_ext; rewrite ?fc_tasks, ?fc_groups, ?fc_ntask, ?fc_nscope, ?fc_nfut; auto.
    intros x e _ H. rewrite kframe_like_fc; [exact H|]. rewrite H. discriminate.
  - apply J_fut_complete; auto.
Qed.

Lemma pop_eq s h : set_ready s (remove_first h (ready s)) = pop s h.
Proof. reflexivity. Qed.

Lemma run_handle_inv s0 h : Inv s0 -> Inv (fst (run_handle s0 h)).
Proof.
  intros I0. unfold run_handle. destruct (existsb (handle_eqb h) (ready s0)) eqn:Eh; cbn [negb]; [|exact I0].
  apply existsb_handle in Eh. destruct I0 as [M0 Hr0].
  destruct (M_pop s0 h M0 Eh) as [M [Hnt Hsub]]. rewrite pop_eq.
  set (s := pop s0 h) in *.
  assert (Hr : running s = None) by exact Hr0.
  pose proof (m_k s0 M0) as K0.
  destruct h as [t|t f|c|t|f tm|c tm].
  - (* HStep *)
    destruct (k_step s0 K0 t Eh) as [H1 [H2 [H3 H4]]].
    apply resume_inv. constructor; auto. apply Hnt. cbn. auto.
  - (* HWake *)
    destruct (k_wake s0 K0 t f Eh) as [H1 H2]. destruct (k_w1 s0 K0 t f H1) as [H3 [H4 [H5 [H6 H7]]]].
    apply resume_inv. constructor; auto. apply Hnt. cbn. auto.
  - (* HDeliver *)
    cbn [fst]. pose proof (M_set_running_same s None Hr M) as M1.
    pose proof (ks_deliver_top none_s none_t (set_running s None) c) as KS.
    apply Inv_of_M; [|reflexivity]. apply M_set_running_same.
    + now rewrite (fr_running _ _ _ _ (kframe_kstar _ _ _ _ KS)).
    + apply (M_kstar_none _ _ KS M1).
  - (* HTaskDone *)
    cbn [fst]. destruct (k_td s0 K0 t Eh) as [H1 [H2 [H3 H4]]].
    apply run_task_done_inv; auto.
    intros Hin. destruct (remove_first_split (HTaskDone t) (ready s0) Eh) as [l1 [l2 [E1 E2]]].
    pose proof (k_tdnodup s0 K0) as Nd. rewrite E1, tdtasks_app, tdtasks_cons in Nd. cbn in Nd.
    apply NoDup_remove_2 in Nd. apply Nd. rewrite <- tdtasks_app. apply in_tdtasks.
    unfold s, pop in Hin. cbn [set_ready ready] in Hin. now rewrite E2 in Hin.
  - (* HSleepDone *)
    cbn [fst]. apply Inv_of_M; [|now rewrite fc_running].
    assert (Hrf : refd s0 f) by (right; right; right; left; eauto).
    apply M_fut_complete'; auto; [discriminate| |].
    + apply (k_ref s0 K0 f Hrf).
    + intros r e _ Hin. exfalso. apply (kk_et s0 (m_j s0 M0) f e Hin). left. eauto.
  - (* HTimeout *)
    cbn [fst]. pose proof (M_set_running_same s None Hr M) as M1.
    pose proof (ks_scope_timeout none_s none_t (set_running s None) c) as KS.
    apply Inv_of_M; [|reflexivity]. apply M_set_running_same.
    + now rewrite (fr_running _ _ _ _ (kframe_kstar _ _ _ _ KS)).
    + apply (M_kstar_none _ _ KS M1).
Qed.

Theorem step_inv s o : Inv s -> Inv (fst (step s o)).
Proof.
  intros I0. unfold step. destruct (actor o) as [t|] eqn:Ea.
  - destruct (idle s t) eqn:Ei; cbn [negb]; [|exact I0].
    destruct o; try (apply puppet_op_inv; assumption); try discriminate.
    apply puppet_finish_inv; assumption.
  - destruct o; try discriminate; try exact I0.
    + apply new_root_inv, I0.
    + (* ANativeCancel *)
      cbn [fst]. destruct I0 as [M Hr].
      pose proof (ks_one none_s none_t _ _ (kp_cancel none_s none_t s t 0)) as KS.
      apply Inv_of_M; [apply (M_kstar_none _ _ KS M)|]. now rewrite (fr_running _ _ _ _ (kframe_kstar _ _ _ _ KS)).
    + (* AExtCancel *)
      cbn [fst]. destruct I0 as [M Hr]. pose proof (M_set_running_same s None Hr M) as M1.
      pose proof (ks_scope_cancel none_s none_t (set_running s None) c false) as KS.
      apply Inv_of_M; [|reflexivity]. apply M_set_running_same.
      * now rewrite (fr_running _ _ _ _ (kframe_kstar _ _ _ _ KS)).
      * apply (M_kstar_none _ _ KS M1).
    + apply run_handle_inv, I0.
    + destruct (Z.ltb dt 0); [exact I0|]. cbn [fst]. destruct I0 as [M Hr].
      apply Inv_of_M; [apply M_tick, M|exact Hr].
Qed.

Lemma refd_init f : ~ refd init f.
Proof.
  intros [[e H]|[[g H]|[[c H]|[[tm H]|[x [H _]]]]]]; cbn in H; try contradiction; discriminate.
Qed.

Lemma inv_init : Inv init.
Proof.
  split; [|reflexivity]. constructor.
  - constructor; cbn [init ready tasks futs running nfut ntask thtasks tdtasks flat_map].
    + constructor.
    + constructor.
    + intros t f [].
    + intros t [].
    + intros t f H. discriminate.
    + intros t f H. discriminate.
    + intros t H. discriminate.
    + intros t [].
    + intros f H. exfalso. exact (refd_init f H).
    + intros t f _ H. discriminate.
  - constructor; unfold alloc; cbn [init ready tasks futs running nfut ntask scopes nscope events nevent].
    + intros t _. exact eq_refl.
    + intros t H. reflexivity.
    + intros t H. lia.
    + intros t _. cbn. tauto.
    + intros t H. discriminate.
    + intros t e. split; discriminate.
    + intros t c _ H. discriminate.
    + intros t g ch f _ H. discriminate.
    + intros t ch c e wf _ H. discriminate.
    + intros t. cbn. lia.
    + intros t. cbn. lia.
    + lia.
    + intros t o H. contradiction.
    + intros t _. cbn. auto.
    + intros t H. contradiction.
    + intros t _ H. contradiction.
  - constructor; unfold alloc; cbn [init tasks futs groups nfut ntask nscope].
    + intros g t. cbn. tauto.
    + intros g t [].
    + intros g t e [].
    + intros g e [].
    + intros g. constructor.
    + intros g t e [].
    + intros g. cbn. lia.
    + intros t f H. discriminate.
  - constructor; cbn [init tasks futs groups events running].
    + intros f e c [].
    + intros f e g [].
    + intros f e [].
    + intros f c g H. discriminate.
    + intros f c H. discriminate.
    + intros f e e' [].
    + intros f c c' H. discriminate.
    + intros f e v [].
    + intros t ch c e f _ H. discriminate.
    + intros t H. contradiction.
    + intros t t' H. contradiction.
    + intros t H. contradiction.
Qed.

Theorem reachable s : reach s -> Inv s.
Proof. intros [ops ->]. apply final_inv; [intros; apply step_inv; assumption|apply inv_init]. Qed.

Lemma reach_M s : reach s -> MInv s.
Proof. intros R. apply (reachable s R). Qed.
