(* Facts about task records allocated during a step: a new group child gets the fresh scope id h0 = nscope s as
   its handle scope (a copy of the walk of GroupThms5 for the predicate Q below). *)
From AV Require Import Base Machine GroupInv GroupInv2 GroupInv3 GroupInv4 GroupInv5 GroupInv6 GroupInv7 GroupInv8
  GroupThms2.

Definition Qh (h0 : nat * nat) (k : task) : Prop :=
  (k_group k = None /\ k_startfut k = None) \/
  (k_hscope k = fst h0 /\ forall f, k_startfut k = Some f -> snd h0 <= f).

Definition nstab (h0 : nat * nat) (s s' : st) : Prop := forall t, Qh h0 (tasks s t) -> Qh h0 (tasks s' t).

Lemma nstab_refl h0 s : nstab h0 s s.
Proof. intros t H. exact H. Qed.

Lemma nstab_trans h0 a b c : nstab h0 a b -> nstab h0 b c -> nstab h0 a c.
Proof. intros A B t H. apply B, A, H. Qed.

Lemma nstab_eq h0 s s' : tasks s' = tasks s -> ntask s' = ntask s -> ngroup s <= ngroup s' -> nstab h0 s s'.
Proof. intros E _ _ t H. now rewrite E. Qed.

Lemma nstab_kstar h0 C T s s' : kstar C T s s' -> nstab h0 s s'.
Proof.
  intros H t. pose proof (tview_inv _ _ (fr_tv _ _ _ _ (kframe_kstar _ _ _ _ H) t)) as V.
  destruct V as [_ [_ [_ [V4 [V5 [_ [_ [_ [V9 _]]]]]]]]]. unfold Qh. now rewrite V4, V5, V9.
Qed.

Definition nk_keeps (g : task -> task) : Prop :=
  forall k, k_group (g k) = k_group k /\ k_hscope (g k) = k_hscope k /\ k_startfut (g k) = k_startfut k.

Lemma nstab_upd_task h0 s t g : nk_keeps g -> nstab h0 s (upd_task s t g).
Proof.
  intros Hg x. cbn [upd_task set_tasks tasks]. unfold upd. destruct (Nat.eqb_spec x t); [subst|auto].
  destruct (Hg (tasks s t)) as [E1 [E2 E3]]. unfold Qh. now rewrite E1, E2, E3.
Qed.

Lemma nkeeps_ctl c : nk_keeps (tk_ctl c). Proof. intros k. cbn. tauto. Qed.
Lemma nkeeps_waiter w : nk_keeps (tk_waiter w). Proof. intros k. cbn. tauto. Qed.
Lemma nkeeps_must b m : nk_keeps (tk_must b m). Proof. intros k. cbn. tauto. Qed.
Lemma nkeeps_held h : nk_keeps (tk_held h). Proof. intros k. cbn. tauto. Qed.
Lemma nkeeps_started b : nk_keeps (tk_started b). Proof. intros k. cbn. tauto. Qed.
Lemma nkeeps_hres a b : nk_keeps (tk_hres a b). Proof. intros k. cbn. tauto. Qed.
Lemma nkeeps_irrel g : tk_irrel g -> nk_keeps g.
Proof. intros H k. destruct (H k) as [_ [_ [_ [_ [H5 [H6 [_ [_ [_ [H10 _]]]]]]]]]]. tauto. Qed.

Lemma nstab_fc h0 s f v : nstab h0 s (fut_complete s f v).
Proof. apply nstab_eq; [apply fc_tasks|apply fc_ntask|rewrite fc_ngroup; lia]. Qed.

Lemma nstab_suspend_on h0 s t f : nstab h0 s (suspend_on s t f).
Proof.
  unfold suspend_on. destruct (f_st (futs s f)).
  - set (s2 := upd_task _ t (tk_waiter (Some f))).
    assert (T2 : nstab h0 s s2).
    { unfold s2. eapply nstab_trans; [|apply nstab_upd_task, nkeeps_waiter]. apply nstab_eq; reflexivity. }
    destruct (k_must (tasks s t)); [|exact T2].
    eapply nstab_trans; [exact T2|]. eapply nstab_trans; [apply nstab_fc|apply nstab_upd_task, nkeeps_must].
  - eapply nstab_trans; [|apply nstab_eq; reflexivity]. eapply nstab_trans; [|apply nstab_upd_task, nkeeps_waiter].
    apply nstab_eq; reflexivity.
  - eapply nstab_trans; [|apply nstab_eq; reflexivity]. eapply nstab_trans; [|apply nstab_upd_task, nkeeps_waiter].
    apply nstab_eq; reflexivity.
  - eapply nstab_trans; [|apply nstab_eq; reflexivity]. eapply nstab_trans; [|apply nstab_upd_task, nkeeps_waiter].
    apply nstab_eq; reflexivity.
Qed.

Lemma nstab_park h0 s t : nstab h0 s (park s t).
Proof.
  unfold park. rewrite new_fut_eq. eapply nstab_trans; [|apply nstab_upd_task, nkeeps_ctl].
  eapply nstab_trans; [|apply nstab_suspend_on]. apply nstab_eq; reflexivity.
Qed.

Lemma nstab_ret h0 s t r : nstab h0 s (fst (ret_to_puppet s t r)).
Proof.
  unfold ret_to_puppet. cbn [fst]. eapply nstab_trans; [|apply nstab_eq; reflexivity].
  eapply nstab_trans; [|apply nstab_park]. destruct r; try apply nstab_refl. apply nstab_upd_task, nkeeps_held.
Qed.

Lemma nstab_set_running h0 s r : nstab h0 s (set_running s r).
Proof. apply nstab_eq; reflexivity. Qed.

Lemma nstab_block h0 s t c : nstab h0 s (fst (blocked (set_ctl s t c))).
Proof. cbn [blocked fst]. eapply nstab_trans; [|apply nstab_set_running]. apply nstab_upd_task, nkeeps_ctl. Qed.

Lemma nstab_scope_enter h0 s c t : nstab h0 s (fst (scope_enter s c t)).
Proof. apply (nstab_kstar _ _ _ _ _ (ks_scope_enter s c t)). Qed.
Lemma nstab_scope_exit h0 s c t e : nstab h0 s (fst (scope_exit s c t e)).
Proof. apply (nstab_kstar _ _ _ _ _ (ks_scope_exit s c t e)). Qed.
Lemma nstab_scope_cancel h0 s c b : nstab h0 s (scope_cancel s c b).
Proof. apply (nstab_kstar _ _ _ _ _ (ks_scope_cancel none_s none_t s c b)). Qed.
Lemma nstab_restart h0 s x : nstab h0 s (restart s x).
Proof. apply (nstab_kstar _ _ _ _ _ (ks_restart none_s none_t s x)). Qed.
Lemma nstab_scope_timeout h0 s c : nstab h0 s (scope_timeout s c).
Proof. apply (nstab_kstar _ _ _ _ _ (ks_scope_timeout none_s none_t s c)). Qed.
Lemma nstab_cancel_timeout h0 s c : nstab h0 s (cancel_timeout s c).
Proof. apply (nstab_kstar _ _ _ _ _ (ks_cancel_timeout none_s none_t s c)). Qed.
Lemma nstab_deliver_top h0 s c : nstab h0 s (deliver_top s c).
Proof. apply (nstab_kstar _ _ _ _ _ (ks_deliver_top none_s none_t s c)). Qed.

Lemma nstab_event_set h0 s e : nstab h0 s (event_set s e).
Proof.
  rewrite event_set_eq. destruct (e_set (events s e)); [apply nstab_refl|].
  assert (H : forall l a, nstab h0 a (fold_left (fun a f => fut_complete a f (FRes 1)) l a)).
  { induction l as [|f l IH]; intros a; cbn [fold_left]; [apply nstab_refl|].
    eapply nstab_trans; [apply nstab_fc|apply IH]. }
  eapply nstab_trans; [|apply H]. apply nstab_eq; reflexivity.
Qed.

Lemma nstab_event_wait h0 s t e : nstab h0 s (fst (event_wait s t e)).
Proof.
  unfold event_wait. destruct (e_set (events s e)); [apply nstab_eq; reflexivity|].
  rewrite new_fut_eq. cbn [fst]. eapply nstab_trans; [|apply nstab_suspend_on]. apply nstab_eq; reflexivity.
Qed.

Lemma nkeeps_fin_unused : True. Proof. exact I. Qed.

(* finish_task sets k_done on a task that was not done: we need that fact *)
Lemma nstab_finish_task h0 s t o : nstab h0 s (finish_task s t o).
Proof.
  rewrite finish_task_eq. cbn zeta. eapply nstab_trans; [|apply nstab_set_running].
  assert (T1 : nstab h0 s (upd_task s t (fin_rec (fin_outcome (tasks s t) o)))).
  { apply nstab_upd_task. intros k. cbn. tauto. }
  destruct (k_group (tasks s t)); [|exact T1]. eapply nstab_trans; [exact T1|apply nstab_eq; reflexivity].
Qed.

Ltac npeel L := eapply nstab_trans; [|apply L].
Ltac npeel_ret := npeel nstab_ret.
Ltac nby_eq := apply nstab_eq; reflexivity.

Lemma nstab_begin h0 s t : nstab h0 s (begin_act s t).
Proof. unfold begin_act. npeel nstab_set_running. apply nstab_upd_task, nkeeps_waiter. Qed.

Lemma nstab_ns h0 s d sh : nstab h0 s (ns s d sh). Proof. nby_eq. Qed.
Lemma nstab_nf h0 s : nstab h0 s (nf s). Proof. nby_eq. Qed.

Lemma nstab_talloc h0 s k ev : Qh h0 k -> nstab h0 s (talloc s k ev).
Proof.
  intros Hk t H. unfold talloc. cbn [tasks]. unfold upd. destruct (Nat.eqb_spec t (ntask s)); [exact Hk|exact H].
Qed.

Lemma nstab_spawned h0 s g sf : h0 = (nscope s, nfut s) \/ (exists f, sf = Some f /\ h0 = (nscope s, f)) ->
  (sf = None \/ exists f, sf = Some f /\ snd h0 <= f) -> nstab h0 s (spawned s g sf).
Proof.
  intros Hh Hsf t H. rewrite spawned_eq. cbn zeta. cbn [call_soon set_ready tasks].
  match goal with |- Qh h0 (tasks (restart ?a ?b) t) =>
    pose proof (tview_inv _ _ (fr_tv _ _ _ _ (kframe_kstar _ _ _ _ (ks_restart none_s none_t a b)) t)) as V end.
  destruct V as [_ [_ [_ [V4 [V5 [_ [_ [_ [V9 _]]]]]]]]]. unfold Qh. rewrite V4, V5, V9.
  cbn [upd_group set_groups upd_scope set_scopes tasks talloc]. unfold upd.
  destruct (Nat.eqb_spec t (ntask (ns s None false))); [|exact H]. right. cbn. split.
  - destruct Hh as [->|[f [_ ->]]]; reflexivity.
  - intros f E. destruct Hsf as [->|[f' [-> Hf]]]; [discriminate|]. injection E as <-. exact Hf.
Qed.

Lemma nstab_aexit_raise h0 s t g e : nstab h0 s (fst (aexit_raise s t g e)).
Proof.
  unfold aexit_raise. pose proof (nstab_scope_exit h0 s (g_scope (groups s g)) t (Some e)) as H.
  destruct (scope_exit s (g_scope (groups s g)) t (Some e)) as [s1 x]. cbn [fst] in H.
  destruct x; cbn [fst].
  - npeel nstab_upd_task; [|apply nkeeps_held]. eapply nstab_trans; [exact H|nby_eq].
  - eapply nstab_trans; [exact H|nby_eq].
  - eapply nstab_trans; [exact H|nby_eq].
Qed.

Lemma nstab_aexit_finish h0 s t g exc : nstab h0 s (fst (aexit_finish s t g exc)).
Proof.
  unfold aexit_finish. destruct (map snd (g_excs (groups s g))); [|apply nstab_aexit_raise].
  destruct exc; [apply nstab_aexit_raise|].
  pose proof (nstab_scope_exit h0 s (g_scope (groups s g)) t None) as H.
  destruct (scope_exit s (g_scope (groups s g)) t None) as [s1 x]. cbn [fst] in H.
  destruct x; cbn [fst]; (eapply nstab_trans; [exact H|nby_eq]).
Qed.

Lemma nstab_ret_pair h0 s0 (p : st * res) t : nstab h0 s0 (fst p) ->
  nstab h0 s0 (fst (let '(s2, r) := p in ret_to_puppet s2 t r)).
Proof. destruct p as [s2 r]. cbn [fst]. intros H. eapply nstab_trans; [exact H|apply nstab_ret]. Qed.

Lemma nstab_wof h0 s t g ws exc : nstab h0 s (fst (aexit_wait_or_finish s t g ws exc)).
Proof.
  unfold aexit_wait_or_finish. destruct (g_tasks (groups s g)) as [|a l].
  - destruct ws as [w|].
    + pose proof (nstab_scope_exit h0 s w t None) as H. destruct (scope_exit s w t None) as [s1 x]. cbn [fst] in H.
      destruct x; apply nstab_ret_pair; (eapply nstab_trans; [exact H|]);
        first [apply nstab_aexit_finish|apply nstab_aexit_raise].
    + apply nstab_ret_pair, nstab_aexit_finish.
  - assert (Hb : forall s0 w, nstab h0 s s0 ->
      nstab h0 s (fst (let '(s1, f) := new_fut s0 in
                    let s2 := upd_group s1 g (gr_fut (Some f)) in
                    blocked (set_ctl (suspend_on s2 t f) t (CAexitWait g w exc))))).
    { intros s0 w E0. rewrite new_fut_eq. cbn zeta. npeel nstab_block. npeel nstab_suspend_on.
      eapply nstab_trans; [exact E0|nby_eq]. }
    destruct ws as [w|].
    + apply Hb, nstab_refl.
    + rewrite new_scope_eq. cbn [fst]. apply Hb. npeel nstab_scope_enter. nby_eq.
Qed.

(* the puppet operations *)
Lemma nstab_puppet_op h0 s0 t o : h0 = (nscope s0, nfut s0) -> nstab h0 s0 (fst (puppet_op s0 t o)).
Proof.
  intros Hh. unfold puppet_op. pose proof (nstab_begin h0 s0 t) as B. set (s := begin_act s0 t) in *.
  destruct o; try apply nstab_refl; (eapply nstab_trans; [exact B|]).
  - rewrite new_scope_eq. npeel_ret. nby_eq.
  - pose proof (nstab_scope_enter h0 s c t) as H. destruct (scope_enter s c t) as [s1 e]. cbn [fst] in H.
    npeel_ret. exact H.
  - pose proof (nstab_scope_exit h0 s c t (k_held (tasks s t))) as H.
    destruct (scope_exit s c t (k_held (tasks s t))) as [s1 x]. cbn [fst] in H.
    destruct x; [|npeel_ret; exact H|npeel_ret; exact H].
    match goal with |- context [if ?b then _ else _] => destruct b end; npeel_ret;
      (eapply nstab_trans; [exact H|apply nstab_upd_task, nkeeps_held]).
  - npeel_ret. apply nstab_scope_cancel.
  - destruct (Bool.eqb (s_shield (scopes s c)) b); [npeel_ret; apply nstab_refl|]. cbn zeta. npeel_ret.
    destruct b; [nby_eq|]. npeel nstab_restart. nby_eq.
  - cbn zeta. npeel_ret. match goal with |- context [if ?b then _ else _] => destruct b end.
    + npeel nstab_scope_timeout. npeel nstab_cancel_timeout. nby_eq.
    + npeel nstab_cancel_timeout. nby_eq.
  - rewrite new_scope_eq. cbn zeta. npeel_ret. apply nstab_eq; [reflexivity|reflexivity|cbn; lia].
  - destruct (g_entered (groups s g)); [npeel_ret; apply nstab_refl|]. cbn zeta.
    match goal with |- context [scope_enter ?a ?b ?c] => pose proof (nstab_scope_enter h0 a b c) as H;
      destruct (scope_enter a b c) as [s2 e] end.
    cbn [fst] in H. npeel_ret. eapply nstab_trans; [|exact H]. nby_eq.
  - (* AGroupExit *) cbn zeta.
    match goal with |- context [match g_tasks (groups ?x g) with _ => _ end] => set (s1 := x) end.
    assert (T1 : nstab h0 s s1).
    { unfold s1. destruct (k_held (tasks s t)) as [e|]; [|apply nstab_refl].
      destruct (is_cancel e); [apply nstab_scope_cancel|]. npeel nstab_eq; [|reflexivity|reflexivity|reflexivity]. apply nstab_scope_cancel. }
    eapply nstab_trans; [exact T1|]. destruct (g_tasks (groups s1 g)); [|apply nstab_wof].
    rewrite new_scope_eq. cbn zeta. npeel nstab_block. npeel nstab_eq; [|reflexivity|reflexivity|reflexivity].
    npeel nstab_scope_enter. nby_eq.
  - destruct (negb (group_active s g)); [npeel_ret; apply nstab_refl|]. rewrite spawn_task_eq. npeel_ret. apply nstab_spawned; [left; exact Hh|left; reflexivity].
  - destruct (negb (group_active s g)); [npeel_ret; apply nstab_refl|]. rewrite new_fut_eq. cbv beta iota.
    rewrite spawn_task_eq. cbv beta iota. npeel nstab_block. npeel nstab_suspend_on.
    eapply nstab_trans; [apply (nstab_nf h0 s)|apply nstab_spawned; [right; exists (nfut s); split; [reflexivity|exact Hh]|right; exists (nfut s); split; [reflexivity|rewrite Hh; cbn; lia]]].
  - destruct (k_startfut (tasks s t)) as [f|]; [|npeel_ret; apply nstab_refl].
    destruct (f_st (futs s f)); npeel_ret; try apply nstab_refl. apply nstab_fc.
  - destruct (e_set _); npeel_ret; [apply nstab_refl|apply nstab_scope_cancel].
  - pose proof (nstab_event_wait h0 s t (k_hevent (tasks s h))) as H.
    destruct (event_wait s t (k_hevent (tasks s h))) as [s1 f]. cbn [fst] in H. npeel nstab_block. exact H.
  - npeel nstab_block. nby_eq.
  - destruct (ckif_spins _ _ _); [npeel nstab_block; nby_eq|npeel_ret; apply nstab_refl].
  - rewrite new_scope_eq. cbn zeta. npeel nstab_block. npeel nstab_eq; [|reflexivity|reflexivity|reflexivity]. npeel nstab_scope_enter. nby_eq.
  - rewrite new_fut_eq. destruct d as [dt|].
    + rewrite call_at_eq. npeel nstab_block. npeel nstab_suspend_on. nby_eq.
    + npeel nstab_block. npeel nstab_suspend_on. nby_eq.
  - npeel_ret. apply nstab_upd_task, nkeeps_held.
  - npeel_ret. apply nstab_upd_task, nkeeps_held.
  - npeel_ret. apply nstab_upd_task, nkeeps_held.
  - npeel_ret. apply nstab_upd_task, nkeeps_irrel, irrel_uncancel.
  - cbn [fst]. npeel nstab_set_running. apply nstab_park.
  - rewrite new_scope_eq. pose proof (nstab_scope_enter h0 (ns s d sh) (nscope s) t) as H.
    destruct (scope_enter (ns s d sh) (nscope s) t) as [s2 e]. cbn [fst] in H. npeel_ret.
    eapply nstab_trans; [|exact H]. nby_eq.
Qed.

(* ---------------- operations that need the invariant (the acting task is not done, has no final outcome) ---- *)
From AV Require Import GroupInv9.

Lemma nstable_rec_unused : True. Proof. exact I. Qed.

Lemma nstable_final_unused : True. Proof. exact I. Qed.

Lemma nstab_rec_task h0 s t raw : nstab h0 s (rec_task s t raw).
Proof.
  intros x. destruct (rec_task_fields s t raw x) as [_ [_ [_ [E4 [E5 [_ [E7 _]]]]]]]. unfold Qh. now rewrite E4, E5, E7.
Qed.

Lemma nstab_puppet_finish h0 s0 t v : nstab h0 s0 (fst (puppet_finish s0 t v)).
Proof.
  pose proof (nstab_begin h0 s0 t) as B.
  unfold puppet_finish. set (s := begin_act s0 t) in *. eapply nstab_trans; [exact B|].
  set (raw := match k_held (tasks s t) with Some e => OExc e | None => ORet v end).
  assert (T1 : nstab h0 s (upd_task s t (tk_final (Some raw)))) by (apply nstab_upd_task; intros k; cbn; tauto).
  destruct (k_group (tasks s t)) as [g|] eqn:Eg.
  - match goal with |- context [scope_exit ?a ?b ?c ?d] => pose proof (nstab_scope_exit h0 a b c d) as T4;
      assert (T3 : nstab h0 s a);
      [|destruct (scope_exit a b c d) as [s4 x]] end.
    { npeel nstab_event_set. eapply nstab_trans; [exact T1|]. apply nstab_upd_task. intros k. destruct raw; cbn; tauto. }
    cbn [fst] in T4. eapply nstab_trans; [exact T3|]. eapply nstab_trans; [exact T4|].
    destruct x; apply nstab_finish_task.
  - cbn [fst]. eapply nstab_trans; [exact T1|]. apply nstab_finish_task.
Qed.

Lemma nstab_incs h0 s0 t : nstab h0 s0 (incs s0 t).
Proof. unfold incs. npeel nstab_set_running. apply nstab_upd_task. intros k. cbn. tauto. Qed.

Lemma nstab_event_unwait h0 s e fo : nstab h0 s (event_unwait s e fo).
Proof. destruct fo; nby_eq. Qed.

Lemma nstab_resume h0 s0 t fo : wake_ok s0 t fo -> nstab h0 s0 (fst (resume s0 t fo)).
Proof.
  intros W. pose proof (Run_incs s0 t fo W) as [M [Hr Hf]].
  destruct (k_run _ (m_k _ M) t Hr) as [_ [Hd _]].
  rewrite resume_unfold. cbn zeta. pose proof (nstab_incs h0 s0 t) as B.
  set (s := incs s0 t) in *. set (inc := snd (incoming s0 t fo)).
  destruct (k_ctl (tasks s0 t)) as [| |k|f tm|g ws exc|g c exc|g child f|child c e wf|h wf|]; try apply nstab_refl;
    (eapply nstab_trans; [exact B|]).
  - destruct inc as [e|]; cbn [fst].
    + npeel nstab_finish_task. apply nstab_upd_task, nkeeps_started.
    + npeel nstab_set_running. npeel nstab_park.
      destruct (k_group (tasks (upd_task s t (tk_started true)) t)).
      * npeel nstab_scope_enter. apply nstab_upd_task, nkeeps_started.
      * apply nstab_upd_task, nkeeps_started.
  - cbn [fst]. npeel nstab_set_running. npeel nstab_park. destruct inc; [apply nstab_upd_task, nkeeps_held|apply nstab_refl].
  - destruct k as [| |c].
    + apply nstab_ret.
    + destruct inc; [apply nstab_ret|]. destruct (ckif_spins _ _ _); [nby_eq|apply nstab_ret].
    + pose proof (nstab_scope_exit h0 s c t inc) as H. destruct (scope_exit s c t inc) as [s1 x]. cbn [fst] in H.
      destruct x; npeel_ret; exact H.
  - npeel_ret. nby_eq.
  - destruct inc as [e|].
    + npeel nstab_wof. npeel nstab_scope_cancel. nby_eq.
    + npeel nstab_wof. nby_eq.
  - pose proof (nstab_scope_exit h0 s c t inc) as H. destruct (scope_exit s c t inc) as [s1 x]. cbn [fst] in H.
    eapply nstab_trans; [exact H|].
    destruct x.
    + apply nstab_wof.
    + destruct inc as [e|]; [|apply nstab_wof]. destruct (is_cancel e).
      * npeel nstab_wof. apply nstab_scope_cancel.
      * apply nstab_ret_pair, nstab_aexit_raise.
    + apply nstab_ret_pair, nstab_aexit_raise.
  - destruct inc as [e|]; [|apply nstab_ret].
    destruct (handle_pending s child); [|apply nstab_ret].
    rewrite new_scope_eq. cbn zeta.
    match goal with |- context [event_wait ?a ?b ?c] => pose proof (nstab_event_wait h0 a b c) as H;
      destruct (event_wait a b c) as [s4 wf] end.
    cbn [fst] in H. npeel nstab_block. eapply nstab_trans; [|exact H]. npeel nstab_scope_enter.
    npeel nstab_eq; [|reflexivity|reflexivity|reflexivity]. apply nstab_scope_cancel.
  - match goal with |- context [scope_exit ?a ?b ?c ?d] => pose proof (nstab_scope_exit h0 a b c d) as H;
      destruct (scope_exit a b c d) as [s2 x] end.
    cbn [fst] in H. assert (H2 : nstab h0 s s2) by (eapply nstab_trans; [apply nstab_event_unwait|exact H]).
    destruct x; [|destruct inc|]; npeel_ret; exact H2.
  - npeel_ret. apply nstab_event_unwait.
Qed.

Lemma nstab_run_task_done h0 s0 t : nstab h0 s0 (run_task_done s0 t).
Proof.
  rewrite run_task_done_eq. cbn zeta. set (s := set_running s0 None).
  assert (B : nstab h0 s0 s) by nby_eq. eapply nstab_trans; [exact B|].
  change (tasks s t) with (tasks s0 t).
  destruct (k_group (tasks s0 t)) as [g|]; [|apply nstab_refl].
  set (s1 := match k_cur (tasks s0 t) with Some c => _ | None => _ end).
  assert (T1 : nstab h0 s s1) by (unfold s1; destruct (k_cur (tasks s0 t)); [nby_eq|apply nstab_refl]).
  set (s3 := tdcore s1 t g).
  assert (T3 : nstab h0 s1 s3).
  { unfold s3, tdcore. npeel nstab_upd_task; [nby_eq|]. intros k. unfold td_rec. cbn. tauto. }
  set (s4 := match g_fut (groups s3 g) with Some f => _ | None => _ end).
  assert (T4 : nstab h0 s3 s4).
  { unfold s4. destruct (g_fut (groups s3 g)); [|apply nstab_refl]. destruct (g_tasks (groups s3 g)); [apply nstab_fc|apply nstab_refl]. }
  assert (T : nstab h0 s s4) by (eapply nstab_trans; [exact T1|]; eapply nstab_trans; [exact T3|exact T4]).
  eapply nstab_trans; [exact T|].
  assert (Hc : forall s5, nstab h0 s5 (if eff_cancelled s5 (g_scope (groups s5 g)) then s5
                                   else scope_cancel s5 (g_scope (groups s5 g)) false)).
  { intros s5. destruct (eff_cancelled s5 _); [apply nstab_refl|apply nstab_scope_cancel]. }
  assert (Hsc : forall s5, nstab h0 s5 (scope_cancel s5 (g_scope (groups s5 g)) false)) by (intros s5; apply nstab_scope_cancel).
  assert (Ha : forall e, nstab h0 s4 (upd_group s4 g (add_exc t e))) by (intros e; nby_eq).
  destruct (k_done (tasks s0 t)) as [[v|e|e]|].
  - destruct (k_startfut (tasks s0 t)) as [f|]; [|apply nstab_refl].
    destruct (f_st (futs s4 f)); try apply nstab_refl. apply nstab_fc.
  - destruct (k_startfut (tasks s0 t)) as [f|].
    + destruct (f_st (futs s4 f)).
      * apply nstab_fc.
      * destruct (is_cancel e); [apply Hc|]. eapply nstab_trans; [apply Ha|apply Hsc].
      * destruct (is_cancel e); [apply Hc|]. eapply nstab_trans; [apply Ha|apply Hsc].
      * destruct (is_cancel e); [apply nstab_refl|]. eapply nstab_trans; [apply Ha|apply Hsc].
    + destruct (is_cancel e); [apply Hc|]. eapply nstab_trans; [apply Ha|apply Hsc].
  - destruct (k_startfut (tasks s0 t)) as [f|].
    + destruct (f_st (futs s4 f)).
      * apply nstab_fc.
      * destruct (is_cancel e); [apply Hc|]. eapply nstab_trans; [apply Ha|apply Hsc].
      * destruct (is_cancel e); [apply Hc|]. eapply nstab_trans; [apply Ha|apply Hsc].
      * destruct (is_cancel e); [apply nstab_refl|]. eapply nstab_trans; [apply Ha|apply Hsc].
    + destruct (is_cancel e); [apply Hc|]. eapply nstab_trans; [apply Ha|apply Hsc].
  - destruct (k_startfut (tasks s0 t)) as [f|]; [|apply nstab_refl].
    destruct (f_st (futs s4 f)); try apply nstab_refl. apply nstab_fc.
Qed.

Lemma nstab_new_root h0 s : nstab h0 s (fst (new_root s)).
Proof.
  unfold new_root. cbn [fst]. npeel nstab_set_running. npeel nstab_park.
  apply (nstab_talloc h0 s root_rec false). left. split; reflexivity.
Qed.

Lemma N5b_wake_step (h0 : nat * nat) s t : Inv s -> In (HStep t) (ready s) -> wake_ok (pop s (HStep t)) t None.
Proof.
  intros [M Hr] Hin. destruct (M_pop s (HStep t) M Hin) as [M1 [Hnt _]].
  destruct (k_step s (m_k s M) t Hin) as [H1 [H2 [H3 H4]]].
  constructor; auto. apply Hnt. cbn. auto.
Qed.

Lemma N5b_wake_wake (h0 : nat * nat) s t f : Inv s -> In (HWake t f) (ready s) -> wake_ok (pop s (HWake t f)) t (Some f).
Proof.
  intros [M Hr] Hin. destruct (M_pop s (HWake t f) M Hin) as [M1 [Hnt _]].
  destruct (k_wake s (m_k s M) t f Hin) as [H1 H2]. destruct (k_w1 s (m_k s M) t f H1) as [H3 [H4 [H5 [H6 H7]]]].
  constructor; auto. apply Hnt. cbn. auto.
Qed.

(* C01: stability. For every already allocated task: its group, handle scope, finished event and start future
   never change; once done / task_done-ran / coroutine-ended, always so (with the same outcome) *)
Theorem new_task_qh h0 s o : reach s -> h0 = (nscope s, nfut s) -> nstab h0 s (fst (step s o)).
Proof.
  intros R Hh. pose proof (reachable s R) as I0. unfold step. destruct (actor o) as [t|] eqn:Ea.
  - destruct (idle s t) eqn:Ei; cbn [negb]; [|apply nstab_refl].
    destruct o; try (apply nstab_puppet_op; exact Hh). apply nstab_puppet_finish.
  - destruct o; try apply nstab_refl.
    + apply nstab_new_root.
    + cbn [fst]. apply (nstab_kstar _ _ _ _ _ (ks_one _ _ _ _ (kp_cancel none_s none_t s t 0))).
    + cbn [fst]. npeel nstab_set_running. npeel nstab_scope_cancel. nby_eq.
    + unfold run_handle. destruct (existsb (handle_eqb h) (ready s)) eqn:Eh; cbn [negb]; [|apply nstab_refl].
      apply existsb_handle in Eh. rewrite pop_eq_frame.
      assert (P : nstab h0 s (pop s h)) by nby_eq. eapply nstab_trans; [exact P|].
      destruct h as [t|t f|c|t|f tm|c tm].
      * apply nstab_resume, (N5b_wake_step (0,0)); assumption.
      * apply nstab_resume, (N5b_wake_wake (0,0)); assumption.
      * cbn [fst]. npeel nstab_set_running. npeel nstab_deliver_top. nby_eq.
      * cbn [fst]. apply nstab_run_task_done.
      * cbn [fst]. apply nstab_fc.
      * cbn [fst]. npeel nstab_set_running. npeel nstab_scope_timeout. nby_eq.
    + destruct (Z.ltb dt 0); [apply nstab_refl|nby_eq].
Qed.
