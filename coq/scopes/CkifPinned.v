(* F46, pinned: the resumption of a task spinning in checkpoint_if_cancelled as it was BEFORE the fix (the loop kept the
   cancelled scope it had found first and yielded again unconditionally), and the witness of the resulting spin
   "with nothing left to deliver" (scenario B of the hunt: a shield raised between the cancellation and the delivery). *)
From AV Require Import Base Machine ScopeFrames DeliverInv TreeInv DeliverAlive PotentialInv TreeStep CheckpointFacts.

(* `resume` of a task in CYield YCkIf before F46 *)
Definition resume_ckif_pinned (s0 : st) (t : tid) : st * res :=
  let '(s, inc) := incoming s0 t None in
  match inc with
  | Some e => ret_to_puppet s t (RExc e)
  | None => blocked (bare_yield s t)
  end.

(* the machine with that one case put back; every other op is today's `step` *)
Definition step_pinned (s : st) (o : op) : st * res :=
  match o with
  | ARun (HStep t) =>
      if existsb (handle_eqb (HStep t)) (ready s) then
        match k_ctl (tasks s t) with
        | CYield YCkIf => resume_ckif_pinned (set_ready s (remove_first (HStep t) (ready s))) t
        | _ => step s o
        end
      else step s o
  | _ => step s o
  end.

(* t is alone in the ready queue, spinning, without a cancellation request *)
Record spinning (s : st) (t : tid) : Prop := mk_spinning {
  sp_ready : ready s = [HStep t];
  sp_ctl : k_ctl (tasks s t) = CYield YCkIf;
  sp_must : k_must (tasks s t) = false
}.

(* before the fix such a task yields again whatever the scopes say, and is in the same situation afterwards *)
Lemma pinned_spin_step s t :
  spinning s t ->
  snd (step_pinned s (ARun (HStep t))) = RBlocked /\ spinning (fst (step_pinned s (ARun (HStep t)))) t /\
  scopes (fst (step_pinned s (ARun (HStep t)))) = scopes s.
Proof.
  intros [Hr Hc Hm]. unfold step_pinned. rewrite Hr. cbn [existsb handle_eqb remove_first]. rewrite Nat.eqb_refl.
  cbn [orb]. rewrite Hc. unfold resume_ckif_pinned, incoming. cbn [set_ready tasks]. rewrite Hm.
  cbn [fst snd blocked]. refine (conj eq_refl (conj _ eq_refl)). constructor.
  - reflexivity.
  - cbn [set_running bare_yield call_soon set_ready tasks upd_task set_tasks]. rewrite upd_same. cbn. exact Hc.
  - cbn [set_running bare_yield call_soon set_ready tasks upd_task set_tasks]. rewrite upd_same. reflexivity.
Qed.

Fixpoint pinned_rounds (n : nat) (s : st) (t : tid) : st :=
  match n with 0 => s | S m => pinned_rounds m (fst (step_pinned s (ARun (HStep t)))) t end.

Theorem pinned_spins_for_ever n : forall s t,
  spinning s t ->
  spinning (pinned_rounds n s t) t /\ scopes (pinned_rounds n s t) = scopes s /\
  snd (step_pinned (pinned_rounds n s t) (ARun (HStep t))) = RBlocked.
Proof.
  induction n as [|n IH]; intros s t Sp.
  - refine (conj Sp (conj eq_refl _)). apply (pinned_spin_step s t Sp).
  - cbn [pinned_rounds]. destruct (pinned_spin_step s t Sp) as (_ & Sp' & Es).
    destruct (IH _ t Sp') as (A & B & C). rewrite Es in B. auto.
Qed.

(* Scenario B.  Task 1 sleeps in scope 2 inside scope 1; its sleep is over (wake-up scheduled) when task 2 cancels
   scope 1: the delivery skips task 1 ("about to resume with a value") and re-schedules itself.  Task 1 resumes and calls
   checkpoint_if_cancelled: scope 1 is visible and cancelled, it yields.  Task 2 sets shield = True on scope 2.  The
   delivery callback runs: scope 2 is shielded, nobody is reached, it does not re-schedule itself. *)
Definition f46_ops : list op :=
  [ANewRoot; ANewScope 1 None false; AEnter 1 1; ANewScope 1 None false; AEnter 1 2; ASleep 1 (Some 3%Z); ANewRoot;
   ATick 3; ARun (HSleepDone 6 1); ACancel 2 1; ARun (HWake 1 6); ACkIf 1; ASetShield 2 2 true; ARun (HDeliver 1)].
Definition f46_state : st := final step init f46_ops.

Example ckif_spin_without_delivery_witness :
  (* the history is in the generated domain; no op of it re-runs a spinning task, so it is the same under step_pinned *)
  ops_ok init f46_ops = true /\
  nth 11 (snd (run_ops step init f46_ops)) RNone = RBlocked /\           (* the ACkIf of task 1 suspended *)
  (* the situation after the delivery callback has run *)
  spinning f46_state 1 /\ k_cur (tasks f46_state 1) = Some 2 /\
  s_cancelled (scopes f46_state 1) = true /\ s_shield (scopes f46_state 2) = true /\
  eff_cancelled f46_state 2 = false /\ s_chandle (scopes f46_state 1) = false /\ timers f46_state = [] /\
  (* today: the task returns normally from checkpoint_if_cancelled *)
  snd (step f46_state (ARun (HStep 1))) = RRet 0 /\
  (* before F46: it yields again, the queue holds nothing but its own callback, no cancellation can ever arrive *)
  snd (step_pinned f46_state (ARun (HStep 1))) = RBlocked /\
  ready (fst (step_pinned f46_state (ARun (HStep 1)))) = [HStep 1].
Proof.
  assert (Sp : spinning f46_state 1) by (constructor; vm_compute; reflexivity).
  split; [vm_compute; reflexivity|]. split; [vm_compute; reflexivity|]. split; [exact Sp|].
  split; [vm_compute; reflexivity|]. split; [vm_compute; reflexivity|]. split; [vm_compute; reflexivity|].
  split; [vm_compute; reflexivity|]. split; [vm_compute; reflexivity|]. split; [vm_compute; reflexivity|].
  split; [vm_compute; reflexivity|].
  destruct (pinned_spin_step f46_state 1 Sp) as (A & B & _). split; [exact A|apply B].
Qed.

(* ... for ever: after any number of rounds of the loop the task is blocked again, alone in the queue, the scopes
   unchanged (scope 1 cancelled, scope 2 shielded, no delivery callback) *)
Theorem ckif_pinned_spins_for_ever n :
  spinning (pinned_rounds n f46_state 1) 1 /\ scopes (pinned_rounds n f46_state 1) = scopes f46_state /\
  snd (step_pinned (pinned_rounds n f46_state 1) (ARun (HStep 1))) = RBlocked.
Proof. apply pinned_spins_for_ever. constructor; vm_compute; reflexivity. Qed.

(* the same from the initial state on the pinned machine itself (no op of the history re-runs a spinning task, so the two
   machines give the same results op by op) *)
Definition f46_state_pinned : st := final step_pinned init f46_ops.

Example ckif_pinned_run_witness :
  snd (run_ops step_pinned init f46_ops) = snd (run_ops step init f46_ops) /\
  spinning f46_state_pinned 1 /\ eff_cancelled f46_state_pinned 2 = false /\
  s_chandle (scopes f46_state_pinned 1) = false /\ timers f46_state_pinned = [] /\
  forall n, snd (step_pinned (pinned_rounds n f46_state_pinned 1) (ARun (HStep 1))) = RBlocked /\
            ready (pinned_rounds n f46_state_pinned 1) = [HStep 1].
Proof.
  assert (Sp : spinning f46_state_pinned 1) by (constructor; vm_compute; reflexivity).
  split; [vm_compute; reflexivity|]. split; [exact Sp|]. split; [vm_compute; reflexivity|].
  split; [vm_compute; reflexivity|]. split; [vm_compute; reflexivity|].
  intro n. destruct (pinned_spins_for_ever n _ _ Sp) as (A & _ & C). split; [exact C|apply A].
Qed.

(* the same with the two facts that make it the negation of ckif_spin_released_when_nothing_visible on the pinned machine:
   the premises of that theorem hold in f46_state_pinned (spinning; current scope 2 not effectively cancelled), today's
   step returns RRet 0 there, the pinned step suspends again *)
Example ckif_pinned_run_witness_full :
  snd (run_ops step_pinned init f46_ops) = snd (run_ops step init f46_ops) /\
  spinning f46_state_pinned 1 /\ k_cur (tasks f46_state_pinned 1) = Some 2 /\
  eff_cancelled f46_state_pinned 2 = false /\
  s_chandle (scopes f46_state_pinned 1) = false /\ timers f46_state_pinned = [] /\
  snd (step f46_state_pinned (ARun (HStep 1))) = RRet 0 /\
  forall n, snd (step_pinned (pinned_rounds n f46_state_pinned 1) (ARun (HStep 1))) = RBlocked /\
            ready (pinned_rounds n f46_state_pinned 1) = [HStep 1].
Proof.
  destruct ckif_pinned_run_witness as (A & B & C & D & E & F).
  refine (conj A (conj B (conj _ (conj C (conj D (conj E (conj _ F))))))); vm_compute; reflexivity.
Qed.
