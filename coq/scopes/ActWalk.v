(* C03: what ANY op that is not an act of task t (an API call of another task, an environment op, the run of a
   callback that does not resume t) can do to t and to the walk from t's current scope to a cancelled scope.
   One light relation (aw) is carried through every helper and every op; the tracking theorems are in ActThms. *)
From Coq Require Import ZArith Lia.
From AV Require Import Base Machine ScopeFrames DeliverInv TreeInv DeliverAlive PotentialInv TreeStep KernelInv
  DeliverThms TimerInv TimerThms CycleThms DebtInv.

Definition view3 (c : scope) := (s_parent c, s_shield c, s_cancelled c).

Section AW.
  Variable t : tid.

  (* t's record and its wait across a step that is not t's *)
  Definition tframe (a b : st) : Prop :=
    (forall f, k_waiter (tasks a t) = Some f -> byst t f a b) /\ (k_waiter (tasks a t) = None -> bym t a b).

  Lemma tframe_refl a : tframe a a.
  Proof. split; intros; [apply byst_refl|apply bym_refl]. Qed.

  Lemma tframe_core a b : tframe a b -> tk_core (tasks b t) = tk_core (tasks a t).
  Proof.
    intros [H1 H2]. destruct (k_waiter (tasks a t)) as [f|] eqn:E; [apply (by_core _ _ _ _ (H1 f eq_refl))|apply (bm_core _ _ _ (H2 eq_refl))].
  Qed.

  Lemma tframe_trans a b c : tframe a b -> tframe b c -> tframe a c.
  Proof.
    intros H1 H2. pose proof (tframe_core a b H1) as E. split.
    - intros f Hf. apply (byst_trans t f a b c); [now apply H1|]. apply H2. now rewrite (tcore_waiter _ _ E).
    - intros Hn. apply (bym_trans t a b c); [now apply H1|]. apply H2. now rewrite (tcore_waiter _ _ E).
  Qed.

  Lemma tframe_same a b :
    tasks b t = tasks a t ->
    (forall f, k_waiter (tasks a t) = Some f ->
               futs b f = futs a f /\ (In (HWake t f) (ready a) -> In (HWake t f) (ready b))) ->
    tframe a b.
  Proof.
    intros E H. split; [|intros _; now apply bym_exact].
    intros f Hf. destruct (H f Hf) as [E2 E3]. now apply byst_exact.
  Qed.

  Lemma rsh_keep a b h : rsh a b -> In h (ready a) -> nontimer h = true -> In h (ready b).
  Proof.
    intros [P [new [E HP]]] Hin Hn. rewrite E. apply in_or_app. left. apply filter_In. split; [exact Hin|now apply HP].
  Qed.

  Record aw (XE X : list sid) (a b : st) : Prop := {
    aw_k : KInv a -> KInv b;
    aw_nf : nfut a <= nfut b;
    aw_ns : nscope a <= nscope b;
    aw_nt : ntask a <= ntask b;
    aw_t : KInv a -> tframe a b;
    aw_q : rsh a b;
    aw_run : running a <> Some t -> running b <> Some t;
    aw_par : forall y, y < nscope a -> ~ In y XE -> s_parent (scopes b y) = s_parent (scopes a y);
    aw_v : forall y, y < nscope a -> ~ In y X ->
           s_cancelled (scopes b y) = s_cancelled (scopes a y) /\
           (s_shield (scopes a y) = true -> s_shield (scopes b y) = true);
    aw_mono : forall y, y < nscope a -> s_cancelled (scopes a y) = true -> s_cancelled (scopes b y) = true
  }.

  Lemma aw_refl XE X a : aw XE X a a.
  Proof. constructor; auto. - intros _. apply tframe_refl. - apply rsh_refl. Qed.

  Lemma aw_trans XE X a b c : aw XE X a b -> aw XE X b c -> aw XE X a c.
  Proof.
    intros H1 H2. pose proof (aw_ns _ _ _ _ H1) as N1. constructor.
    - intros K. apply H2, H1, K.
    - pose proof (aw_nf _ _ _ _ H1). pose proof (aw_nf _ _ _ _ H2). lia.
    - pose proof (aw_ns _ _ _ _ H2). lia.
    - pose proof (aw_nt _ _ _ _ H1). pose proof (aw_nt _ _ _ _ H2). lia.
    - intros K. apply (tframe_trans a b c); [now apply H1|]. apply H2. now apply H1.
    - eapply rsh_trans; [apply H1|apply H2].
    - intros R. apply H2, H1, R.
    - intros y Hy Hn. rewrite (aw_par _ _ _ _ H2 y); [now apply H1|lia|exact Hn].
    - intros y Hy Hn. destruct (aw_v _ _ _ _ H1 y Hy Hn) as [A2 A3].
      destruct (aw_v _ _ _ _ H2 y) as [B2 B3]; [lia|exact Hn|]. rewrite B2, A2. split; auto.
    - intros y Hy Hc. apply (aw_mono _ _ _ _ H2); [lia|]. now apply H1.
  Qed.

  Lemma aw_weaken XE X XE' X' a b : incl XE XE' -> incl X X' -> aw XE X a b -> aw XE' X' a b.
  Proof.
    intros I0 I1 H. constructor; try apply H.
    - intros y Hy Hn. apply (aw_par _ _ _ _ H y Hy). intros Hin. apply Hn, I0, Hin.
    - intros y Hy Hn. apply (aw_v _ _ _ _ H y Hy). intros Hin. apply Hn, I1, Hin.
  Qed.

  (* a generic constructor for steps that keep t, its future and the scope views *)
  Lemma aw_plain XE X a b :
    (KInv a -> KInv b) -> nfut a <= nfut b -> nscope a <= nscope b -> ntask a <= ntask b ->
    tasks b t = tasks a t -> (forall f, f < nfut a -> futs b f = futs a f) ->
    rsh a b ->
    (running a <> Some t -> running b <> Some t) ->
    (forall y, y < nscope a -> view3 (scopes b y) = view3 (scopes a y)) ->
    aw XE X a b.
  Proof.
    intros K Nf Ns Nt Et Ef Q R V. constructor; auto.
    - intros Ka. apply tframe_same; [exact Et|]. intros f Hf. split.
      + apply Ef. apply (k_alloc _ Ka t f Hf).
      + intros Hin. now apply (rsh_keep a b).
    - intros y Hy _. pose proof (V y Hy) as E. unfold view3 in E. now inversion E.
    - intros y Hy _. pose proof (V y Hy) as E. unfold view3 in E. inversion E as [[E1 E2 E3]]. rewrite E2, E3. now split.
    - intros y Hy Hc. pose proof (V y Hy) as E. unfold view3 in E. inversion E. congruence.
  Qed.

  (* steps that only touch other parts of the state *)
  Lemma aw_light XE X a b :
    kq a b -> tasks b t = tasks a t -> futs b = futs a -> rsh a b -> scopes b = scopes a -> nscope b = nscope a ->
    ntask b = ntask a -> (running a <> Some t -> running b <> Some t) -> aw XE X a b.
  Proof.
    intros K Et Ef Q Es En Ent R. apply aw_plain; auto; try lia.
    - intros Ka. now apply (KInv_kq a).
    - apply (kq_nfut _ _ K).
    - intros f _. now rewrite Ef.
    - intros y _. now rewrite Es.
  Qed.
End AW.

(* ---------------- helpers, seen from a task t that does not act ---------------- *)
Section AWHelpers.
  Variable t : tid.
  Notation aw := (aw t).

  Lemma tframe_mk a b :
    (forall f, k_waiter (tasks a t) = Some f -> byst t f a b) ->
    (k_waiter (tasks a t) = None -> bym t a b) -> tframe t a b.
  Proof. intros H1 H2. now split. Qed.

  (* a composite step described by the existing frame lemmas *)
  Lemma aw_of XE X a b :
    (KInv a -> KInv b) -> nfut a <= nfut b -> nscope a <= nscope b -> ntask a <= ntask b ->
    (KInv a -> tframe t a b) -> rsh a b -> (running a <> Some t -> running b <> Some t) ->
    (forall y, y < nscope a -> view3 (scopes b y) = view3 (scopes a y)) -> aw XE X a b.
  Proof.
    intros K Nf Ns Nt Tf Q R V. constructor; auto.
    - intros y Hy _. pose proof (V y Hy) as E. unfold view3 in E. now inversion E.
    - intros y Hy _. pose proof (V y Hy) as E. unfold view3 in E. inversion E as [[E1 E2 E3]]. rewrite E2, E3. now split.
    - intros y Hy Hc. pose proof (V y Hy) as E. unfold view3 in E. inversion E. congruence.
  Qed.

  Lemma aw_upd_task XE X a u g : u <> t -> (forall k, k_waiter (g k) = k_waiter k \/ k_waiter (g k) = None) ->
    aw XE X a (upd_task a u g).
  Proof.
    intros Hu Hg. apply aw_light; try reflexivity; [now apply kq_upd_task|now apply tsame_upd_other|apply rsh_same; reflexivity|auto].
  Qed.

  Lemma aw_upd_group XE X a g h : aw XE X a (upd_group a g h).
  Proof. apply aw_light; try reflexivity; [apply kq_upd_group|apply rsh_same; reflexivity|auto]. Qed.

  Lemma aw_set_running XE X a v : v <> Some t -> aw XE X a (set_running a v).
  Proof. intros Hv. apply aw_light; try reflexivity; [apply kq_set_running|apply rsh_same; reflexivity|]. intros _. exact Hv. Qed.

  Lemma aw_call_soon XE X a h : aw XE X a (call_soon a h).
  Proof.
    apply aw_light; try reflexivity; [apply kq_tasks_same; reflexivity|apply (rsh_append _ _ [h]); reflexivity|auto].
  Qed.

  Lemma aw_set_ctl XE X a u c : u <> t -> aw XE X a (set_ctl a u c).
  Proof. intros Hu. apply aw_light; try reflexivity; [apply kq_set_ctl|now apply tsame_upd_other|apply rsh_same; reflexivity|auto]. Qed.

  Lemma aw_bare_yield XE X a u : aw XE X a (bare_yield a u).
  Proof. apply aw_call_soon. Qed.

  (* scope records: only fields outside the walk view *)
  Lemma aw_upd_scope_keep XE X a c g : (forall k, view3 (g k) = view3 k) -> aw XE X a (upd_scope a c g).
  Proof.
    intros Hg. apply aw_plain; [|cbn; lia|cbn; lia|cbn; lia|reflexivity|intros f _; reflexivity|apply rsh_same; reflexivity|auto|].
    - intros K. apply (KInv_kq a); [exact K|apply kq_upd_scope].
    - intros y _. cbn. unfold upd. destruct (Nat.eqb_spec y c); [subst; apply Hg|reflexivity].
  Qed.

  (* scope records: the listed scope may change arbitrarily as long as it stays cancelled *)
  Lemma aw_upd_scope_x XE X a c g : In c XE -> In c X -> (forall k, s_cancelled k = true -> s_cancelled (g k) = true) ->
    aw XE X a (upd_scope a c g).
  Proof.
    intros Hie Hin Hg. constructor; try (cbn; lia).
    - intros K. apply (KInv_kq a); [exact K|apply kq_upd_scope].
    - intros K. apply tframe_same; [reflexivity|]. intros f _. split; [reflexivity|auto].
    - apply rsh_same. reflexivity.
    - auto.
    - intros y _ Hn. cbn. unfold upd. destruct (Nat.eqb_spec y c); [subst; contradiction|reflexivity].
    - intros y _ Hn. cbn. unfold upd. destruct (Nat.eqb_spec y c); [subst; contradiction|now split].
    - intros y _. cbn. unfold upd. destruct (Nat.eqb_spec y c); [subst; apply Hg|auto].
  Qed.

  (* flags of a listed scope change (cancel, lowered shield): the parent link stays *)
  Lemma aw_upd_scope_flag XE X a c g : In c X -> (forall k, s_parent (g k) = s_parent k) ->
    (forall k, s_cancelled k = true -> s_cancelled (g k) = true) -> aw XE X a (upd_scope a c g).
  Proof.
    intros Hin Hp Hg. constructor; try (cbn; lia).
    - intros K. apply (KInv_kq a); [exact K|apply kq_upd_scope].
    - intros K. apply tframe_same; [reflexivity|]. intros f _. split; [reflexivity|auto].
    - apply rsh_same. reflexivity.
    - auto.
    - intros y _ _. cbn. unfold upd. destruct (Nat.eqb_spec y c); [subst; apply Hp|reflexivity].
    - intros y _ Hn. cbn. unfold upd. destruct (Nat.eqb_spec y c); [subst; contradiction|now split].
    - intros y _. cbn. unfold upd. destruct (Nat.eqb_spec y c); [subst; apply Hg|auto].
  Qed.

  (* raising a shield needs no exception *)
  Lemma aw_shield_true XE X a c : aw XE X a (upd_scope a c (sc_shield true)).
  Proof.
    constructor; try (cbn; lia).
    - intros K. apply (KInv_kq a); [exact K|apply kq_upd_scope].
    - intros K. apply tframe_same; [reflexivity|]. intros f _. split; [reflexivity|auto].
    - apply rsh_same. reflexivity.
    - auto.
    - intros y _ _. cbn. unfold upd. destruct (Nat.eqb_spec y c); [subst|]; reflexivity.
    - intros y _ _. cbn. unfold upd. destruct (Nat.eqb_spec y c); [subst|]; now split.
    - intros y _. cbn. unfold upd. destruct (Nat.eqb_spec y c); [subst|]; auto.
  Qed.

  Lemma aw_fut_complete XE X a g v : v <> FPend -> aw XE X a (fut_complete a g v).
  Proof.
    intros Hv. pose proof (kframe_fut_complete a g v) as K. apply aw_of.
    - intros Ka. apply (KInv_kq a); [exact Ka|now apply kq_kframe].
    - rewrite (kf_nfut _ _ K). lia.
    - rewrite (kf_nscope _ _ K). lia.
    - rewrite (kf_ntask _ _ K). lia.
    - intros _. split; [intros f _; now apply byst_fut_complete|intros _; apply bym_exact, tsame_fut_complete].
    - now apply rsh_kframe.
    - now rewrite (kf_running _ _ K).
    - intros y _. now rewrite fut_complete_scopes.
  Qed.

  Lemma view3_core x y : sc_core x = sc_core y -> view3 x = view3 y.
  Proof. intros H. unfold view3. now rewrite (core_parent _ _ H), (core_shield _ _ H), (core_cancelled _ _ H). Qed.

  Lemma aw_deliver_top XE X a c : aw XE X a (deliver_top a c).
  Proof.
    pose proof (kframe_deliver_top a c) as K. apply aw_of.
    - intros Ka. apply (KInv_kq a); [exact Ka|now apply kq_kframe].
    - rewrite (kf_nfut _ _ K). lia.
    - rewrite (kf_nscope _ _ K). lia.
    - rewrite (kf_ntask _ _ K). lia.
    - intros Ka. split; [intros f _; apply byst_deliver_top, (k_link _ Ka)|intros Hn; apply bym_deliver_top; [apply (k_link _ Ka)|exact Hn]].
    - now apply rsh_kframe.
    - now rewrite (kf_running _ _ K).
    - intros y _. symmetry. apply view3_core. symmetry. apply (kf_scopes _ _ K y).
  Qed.

  Lemma aw_restart XE X a x : aw XE X a (restart a x).
  Proof.
    unfold restart. generalize (nscope a) as fuel. intros fuel. revert x.
    induction fuel as [|fu IH]; intros x; cbn [restart_from]; [apply aw_refl|].
    destruct x as [c|]; [|apply aw_refl].
    destruct (s_cancelled (scopes a c)).
    - destruct (s_chandle (scopes a c)); [apply aw_refl|apply aw_deliver_top].
    - destruct (s_shield (scopes a c)); [apply aw_refl|apply IH].
  Qed.

  Lemma aw_timer_cancel XE X a tm : aw XE X a (timer_cancel a tm).
  Proof.
    apply aw_light; try reflexivity; [apply kq_tasks_same; reflexivity|apply rsh_timer_cancel|auto].
  Qed.

  Lemma aw_cancel_timeout XE X a c : aw XE X a (cancel_timeout a c).
  Proof.
    unfold cancel_timeout. destruct (s_timeout (scopes a c)); [|apply aw_refl].
    apply (aw_trans t XE X a (timer_cancel a t0)); [apply aw_timer_cancel|]. apply aw_upd_scope_keep. intros k; reflexivity.
  Qed.

  Lemma aw_scope_cancel XE X a c b : In c X -> aw XE X a (scope_cancel a c b).
  Proof.
    intros Hin. unfold scope_cancel. destruct (s_cancelled (scopes a c)); [apply aw_refl|].
    set (s1 := cancel_timeout a c).
    set (s2 := upd_scope s1 c (fun x => sc_bydeadline b (sc_cancelled true x))).
    assert (K2 : aw XE X a s2).
    { apply (aw_trans t XE X a s1); [apply aw_cancel_timeout|]. apply aw_upd_scope_flag; [exact Hin|intros k; reflexivity|]. intros k _. reflexivity. }
    destruct (s_host (scopes s2 c)); [|exact K2]. apply (aw_trans t XE X a s2); [exact K2|apply aw_deliver_top].
  Qed.

  Lemma aw_scope_timeout XE X a c : In c X -> aw XE X a (scope_timeout a c).
  Proof.
    intros Hin. unfold scope_timeout. destruct (s_deadline (scopes a c)); [|apply aw_refl].
    destruct (Z.leb z (now a)); [now apply aw_scope_cancel|].
    unfold call_at. cbv zeta.
    match goal with |- aw XE X a (upd_scope ?m c ?g) => apply (aw_trans t XE X a m) end.
    - apply aw_light; try reflexivity; [apply kq_tasks_same; reflexivity|apply rsh_same; reflexivity|auto].
    - apply aw_upd_scope_keep. intros k; reflexivity.
  Qed.
End AWHelpers.

(* counters and the running slot across the kernel helpers *)
Lemma fut_complete_cnt a g v :
  nfut (fut_complete a g v) = nfut a /\ running (fut_complete a g v) = running a.
Proof. unfold fut_complete. destruct (f_st (futs a g)); try (now split). destruct (f_waiter (futs a g)); now split. Qed.

Lemma suspend_on_cnt a u f : nfut (suspend_on a u f) = nfut a /\ running (suspend_on a u f) = running a.
Proof.
  unfold suspend_on. destruct (f_st (futs a f)); try (now split).
  destruct (k_must (tasks a u)); [|now split].
  set (s2 := upd_task (upd_fut a f (fun x => mkFut (f_st x) (Some u))) u (tk_waiter (Some f))).
  destruct (fut_complete_cnt s2 f (FCanc (k_msg (tasks a u)))) as [E1 E2]. cbn [nfut running upd_task set_tasks].
  now rewrite E1, E2.
Qed.

Lemma park_cnt a u : nfut (park a u) = S (nfut a) /\ running (park a u) = running a.
Proof.
  unfold park, new_fut. cbn [nfut running upd_task set_tasks].
  destruct (suspend_on_cnt (fst (new_fut a)) u (nfut a)) as [E1 E2]. cbn [fst new_fut] in *. now rewrite E1, E2.
Qed.

Section AWHelpers2.
  Variable t : tid.
  Notation aw := (aw t).

  Lemma aw_begin_act XE X a u : u <> t -> aw XE X a (begin_act a u).
  Proof.
    intros Hu. apply aw_light; try reflexivity; [apply kq_begin_act| |apply rsh_same; reflexivity|].
    - cbn. unfold upd. destruct (Nat.eqb_spec t u); [congruence|reflexivity].
    - intros _. cbn. congruence.
  Qed.

  Lemma aw_park XE X a u : u <> t -> aw XE X a (park a u).
  Proof.
    intros Hu. destruct (park_cnt a u) as [E1 E2]. apply aw_of.
    - apply K_park.
    - rewrite E1. lia.
    - rewrite (tq_nscope _ _ (treq_park a u)). lia.
    - rewrite (tq_ntask _ _ (treq_park a u)). lia.
    - intros K. split; [intros f Hf; apply byst_park_other; [exact Hu|apply (k_alloc _ K t f Hf)]|
                        intros _; apply bym_exact; now apply tsame_park_other].
    - apply rsh_park.
    - now rewrite E2.
    - intros y _. now rewrite (proj1 (ss_park a u)).
  Qed.

  Lemma aw_ret XE X a u r : u <> t -> aw XE X a (fst (ret_to_puppet a u r)).
  Proof.
    intros Hu. unfold ret_to_puppet. cbn [fst].
    set (s1 := match r with RExc e => upd_task a u (tk_held (Some e)) | _ => a end).
    assert (K1 : aw XE X a s1).
    { unfold s1. destruct r; try apply aw_refl. apply aw_upd_task; [exact Hu|intros k; now left]. }
    apply (aw_trans t XE X a s1); [exact K1|]. apply (aw_trans t XE X s1 (park s1 u)); [now apply aw_park|].
    now apply aw_set_running.
  Qed.

  Lemma aw_incoming XE X a u fo : u <> t -> aw XE X a (fst (incoming a u fo)).
  Proof.
    intros Hu. unfold incoming. cbn [fst].
    match goal with |- aw XE X a (set_running ?x ?v) => apply (aw_trans t XE X a x) end.
    - apply aw_upd_task; [exact Hu|intros k; now right].
    - apply aw_set_running. congruence.
  Qed.

  Lemma aw_task_cancel XE X a u o : u <> t -> aw XE X a (task_cancel a u o).
  Proof.
    intros Hu. unfold task_cancel. destruct (k_done (tasks a u)); [apply aw_refl|].
    set (s1 := upd_task a u (tk_ncancel (S (k_ncancel (tasks a u))))).
    assert (K1 : aw XE X a s1) by (apply aw_upd_task; [exact Hu|intros k; now left]).
    destruct (k_waiter (tasks a u)) as [f|].
    - destruct (fut_pending s1 f).
      + apply (aw_trans t XE X a s1); [exact K1|]. apply aw_fut_complete. discriminate.
      + apply (aw_trans t XE X a s1); [exact K1|]. apply aw_upd_task; [exact Hu|intros k; now left].
    - apply (aw_trans t XE X a s1); [exact K1|]. apply aw_upd_task; [exact Hu|intros k; now left].
  Qed.

  Lemma aw_task_uncancel XE X a u : u <> t -> aw XE X a (task_uncancel a u).
  Proof. intros Hu. apply aw_upd_task; [exact Hu|intros k; now left]. Qed.

  Lemma aw_new_scope XE X a d sh : aw XE X a (fst (new_scope a d sh)).
  Proof.
    apply aw_plain; [|cbn; lia|cbn; lia|cbn; lia|reflexivity|intros f _; reflexivity|apply rsh_same; reflexivity|auto|].
    - intros K. apply (KInv_kq a); [exact K|apply kq_new_scope].
    - intros y Hy. cbn. unfold upd. destruct (Nat.eqb_spec y (nscope a)); [lia|reflexivity].
  Qed.

  Lemma aw_fold_fut_complete XE X v fs : v <> FPend -> forall a, aw XE X a (fold_left (fun a f => fut_complete a f v) fs a).
  Proof.
    intros Hv. induction fs as [|f fs IH]; intros a; cbn [fold_left]; [apply aw_refl|].
    apply (aw_trans t XE X a (fut_complete a f v)); [now apply aw_fut_complete|apply IH].
  Qed.

  Lemma aw_event_set XE X a e : aw XE X a (event_set a e).
  Proof.
    unfold event_set. destruct (e_set (events a e)); [apply aw_refl|].
    match goal with |- aw XE X a (fold_left _ ?l ?m) => apply (aw_trans t XE X a m) end.
    - apply aw_light; try reflexivity; [apply kq_tasks_same; reflexivity|apply rsh_same; reflexivity|auto].
    - apply aw_fold_fut_complete. discriminate.
  Qed.

  Lemma aw_event_unwait XE X a e fo : aw XE X a (event_unwait a e fo).
  Proof.
    destruct fo; [|apply aw_refl]. apply aw_light; try reflexivity; [apply kq_tasks_same; reflexivity|apply rsh_same; reflexivity|auto].
  Qed.

  (* the acting task suspends on the fresh future nfut a *)
  Lemma aw_fresh_suspend XE X a a2 u :
    u <> t -> aw XE X (fst (new_fut a)) a2 -> nfut a2 = S (nfut a) ->
    (KInv a -> KInv (suspend_on a2 u (nfut a))) ->
    aw XE X a (suspend_on a2 u (nfut a)).
  Proof.
    intros Hu H2 En Kk.
    assert (H1 : aw XE X a (fst (new_fut a))).
    { apply aw_plain; [|cbn; lia|cbn; lia|cbn; lia|reflexivity| |apply rsh_same; reflexivity|auto|intros y _; reflexivity].
      - intros K. destruct K as [A L]. constructor.
        + intros x y Hw. cbn in *. pose proof (A x y Hw). lia.
        + intros x y Hw Hp. cbn in *. pose proof (A x y Hw) as Hy. unfold upd in *.
          destruct (Nat.eqb_spec y (nfut a)); [lia|]. now apply L.
      - intros f Hf. cbn. unfold upd. destruct (Nat.eqb_spec f (nfut a)); [lia|reflexivity]. }
    pose proof (aw_trans t XE X _ _ _ H1 H2) as H12.
    destruct (suspend_on_cnt a2 u (nfut a)) as [C1 C2].
    constructor.
    - exact Kk.
    - rewrite C1, En. lia.
    - rewrite (tq_nscope _ _ (treq_suspend_on a2 u (nfut a))). apply H12.
    - rewrite (tq_ntask _ _ (treq_suspend_on a2 u (nfut a))). apply H12.
    - intros K. apply (tframe_trans t a a2); [now apply H12|].
      split; [intros f Hf|intros _; apply bym_exact; now apply tsame_suspend_other].
      apply byst_suspend_other; [exact Hu|].
      pose proof (tframe_core t a a2 (aw_t _ _ _ _ _ H12 K)) as E. rewrite (tcore_waiter _ _ E) in Hf.
      pose proof (k_alloc _ K t f Hf). lia.
    - eapply rsh_trans; [apply H12|apply rsh_suspend_on].
    - intros R. rewrite C2. now apply H12.
    - intros y Hy Hn. rewrite (proj1 (ss_suspend_on a2 u (nfut a))). now apply (aw_par _ _ _ _ _ H12).
    - intros y Hy Hn. rewrite (proj1 (ss_suspend_on a2 u (nfut a))). now apply (aw_v _ _ _ _ _ H12).
    - intros y Hy Hc. rewrite (proj1 (ss_suspend_on a2 u (nfut a))). now apply (aw_mono _ _ _ _ _ H12).
  Qed.
End AWHelpers2.

Section AWHelpers3.
  Variable t : tid.
  Notation aw := (aw t).

  Lemma aw_event_wait XE X a u e : u <> t -> aw XE X a (fst (event_wait a u e)).
  Proof.
    intros Hu. pose proof (K_event_wait a u e) as Kk. unfold event_wait in *.
    destruct (e_set (events a e)); cbn [fst] in *; [apply aw_bare_yield|].
    unfold new_fut in *. cbn [fst] in *.
    match goal with |- aw XE X a (suspend_on ?a2 u _) => apply (aw_fresh_suspend t XE X a a2 u Hu) end; [|reflexivity|exact Kk].
    apply aw_light; try reflexivity; [apply kq_tasks_same; reflexivity|apply rsh_same; reflexivity|auto].
  Qed.

  Lemma aw_finish_task XE X a u o : u <> t -> aw XE X a (finish_task a u o).
  Proof.
    intros Hu. unfold finish_task.
    set (s1 := upd_task a u _).
    assert (K1 : aw XE X a s1) by (apply aw_upd_task; [exact Hu|intros k; now right]).
    destruct (k_group (tasks a u)).
    - apply (aw_trans t XE X a s1); [exact K1|]. apply (aw_trans t XE X s1 (call_soon s1 (HTaskDone u))); [apply aw_call_soon|].
      apply aw_set_running. discriminate.
    - apply (aw_trans t XE X a s1); [exact K1|]. apply aw_set_running. discriminate.
  Qed.

  Lemma aw_tick XE X a dt : aw XE X a (tick a dt).
  Proof.
    apply aw_light; try reflexivity; [apply kq_tasks_same; reflexivity| |auto].
    apply (rsh_append a _ (map handle_of_timer (sort_timers (filter (fun x => Z.leb (tm_when x) (now a + dt)%Z) (timers a))))).
    reflexivity.
  Qed.

  Lemma aw_enter XE X a c u : u <> t -> In c XE -> In c X -> aw XE X a (fst (scope_enter a c u)).
  Proof.
    intros Hu Hie Hin. destruct (s_active (scopes a c)) eqn:Ea; [rewrite (scope_enter_fail a c u Ea); apply aw_refl|].
    rewrite (scope_enter_eq a c u Ea).
    assert (K3 : aw XE X a (enter_s3 a c u)).
    { unfold enter_s3. set (par := k_cur (tasks a u)).
      set (s1 := upd_scope a c (fun x => sc_parent par (sc_tasks (add u (s_tasks x)) (sc_host (Some u) x)))).
      set (s2 := upd_task s1 u (tk_cur (Some c))).
      assert (K2 : aw XE X a s2).
      { apply (aw_trans t XE X a s1); [apply aw_upd_scope_x; [exact Hie|exact Hin|intros k Hk; exact Hk]|].
        apply aw_upd_task; [exact Hu|intros k; now left]. }
      destruct par as [p|]; [|exact K2]. apply (aw_trans t XE X a s2); [exact K2|].
      apply aw_upd_scope_keep. intros k; reflexivity. }
    assert (K5 : aw XE X a (enter_s5 a c u)).
    { unfold enter_s5. apply (aw_trans t XE X a (scope_timeout (enter_s3 a c u) c)).
      - apply (aw_trans t XE X a (enter_s3 a c u)); [exact K3|now apply aw_scope_timeout].
      - apply aw_upd_scope_keep. intros k; reflexivity. }
    destruct (s_cancelled (scopes (enter_s5 a c u) c)); [|exact K5].
    apply (aw_trans t XE X a (enter_s5 a c u)); [exact K5|apply aw_deliver_top].
  Qed.

  Lemma aw_iter_uncancel XE X n u : u <> t -> forall a, aw XE X a (iter n (fun a => task_uncancel a u) a).
  Proof.
    intros Hu. induction n as [|n IH]; intros a; cbn [iter]; [apply aw_refl|].
    apply (aw_trans t XE X a (task_uncancel a u)); [now apply aw_task_uncancel|apply IH].
  Qed.

  Lemma aw_exit_struct XE X a c u : u <> t -> aw XE X a (exit_struct a c u).
  Proof.
    intros Hu. unfold exit_struct.
    set (s0 := upd_scope a c (sc_active false)).
    set (s1 := cancel_timeout s0 c).
    set (s2 := upd_scope s1 c (fun x => sc_tasks (del u (s_tasks x)) x)).
    assert (K2 : aw XE X a s2).
    { apply (aw_trans t XE X a s1).
      - apply (aw_trans t XE X a s0); [apply aw_upd_scope_keep; intros k; reflexivity|apply aw_cancel_timeout].
      - apply aw_upd_scope_keep. intros k; reflexivity. }
    destruct (s_parent (scopes a c)) as [p|].
    - match goal with |- aw XE X a (upd_task ?m u ?g) => apply (aw_trans t XE X a m) end.
      + apply (aw_trans t XE X a s2); [exact K2|apply aw_upd_scope_keep; intros k; reflexivity].
      + apply aw_upd_task; [exact Hu|intros k; now left].
    - apply (aw_trans t XE X a s2); [exact K2|]. apply aw_upd_task; [exact Hu|intros k; now left].
  Qed.

  Lemma aw_exit XE X a c u exc : u <> t -> aw XE X a (fst (scope_exit a c u exc)).
  Proof.
    intros Hu. unfold scope_exit.
    destruct (s_active (scopes a c)); cbn [negb]; [|apply aw_refl].
    destruct (opt_eqb (s_host (scopes a c)) u); cbn [negb]; [|apply aw_refl].
    destruct (opt_eqb (k_cur (tasks a u)) c); cbn [negb]; [|apply aw_refl].
    fold (exit_struct a c u).
    set (par := s_parent (scopes a c)).
    set (s5 := restart (exit_struct a c u) par).
    assert (K5 : aw XE X a s5).
    { apply (aw_trans t XE X a (exit_struct a c u)); [now apply aw_exit_struct|apply aw_restart]. }
    clearbody s5. set (n := s_pending (scopes s5 c)).
    assert (Fin : forall m, aw XE X a m -> aw XE X a (upd_scope m c (sc_host None))).
    { intros m Hm. apply (aw_trans t XE X a m); [exact Hm|apply aw_upd_scope_keep; intros k; reflexivity]. }
    set (sA := upd_scope (iter n (fun a => task_uncancel a u) s5) c (sc_pending 0)).
    assert (KA : aw XE X a sA).
    { apply (aw_trans t XE X a (iter n (fun a => task_uncancel a u) s5)).
      - apply (aw_trans t XE X a s5); [exact K5|now apply aw_iter_uncancel].
      - apply aw_upd_scope_keep. intros k; reflexivity. }
    assert (KC : aw XE X a (upd_scope sA c (sc_caught true))).
    { apply (aw_trans t XE X a sA); [exact KA|apply aw_upd_scope_keep; intros k; reflexivity]. }
    destruct (s_cancelled (scopes s5 c) && negb (parent_visible s5 c)).
    - destruct exc as [e|].
      + destruct e; cbn [is_anyio_cancel].
        * destruct o; cbn [fst]; now apply Fin.
        * cbn [fst]. now apply Fin.
        * cbn [fst]. now apply Fin.
        * cbn [fst]. now apply Fin.
        * destruct (split_exn (EGroup l)) as [[m|] [r|]]; cbn [fst]; now apply Fin.
      + cbn [fst]. now apply Fin.
    - cbn [fst]. fold n. destruct (Nat.eqb n 0); [now apply Fin|].
      destruct par as [p|]; [|now apply Fin].
      destruct (opt_eqb (s_host (scopes s5 p)) u); [|now apply Fin].
      apply Fin.
      match goal with |- aw XE X a (upd_scope ?m c ?g) => apply (aw_trans t XE X a m) end.
      + apply (aw_trans t XE X a s5); [exact K5|apply aw_upd_scope_keep; intros k; reflexivity].
      + apply aw_upd_scope_keep. intros k; reflexivity.
  Qed.
End AWHelpers3.

Section AWHelpers4.
  Variable t : tid.
  Notation aw := (aw t).

  Lemma aw_spawn XE X a g sf : t < ntask a -> aw XE X a (fst (spawn_task a g sf)).
  Proof.
    intros At. rewrite spawn_task_eq. cbn [fst].
    set (s1 := fst (new_scope a None false)).
    assert (K1 : aw XE X a s1) by apply aw_new_scope.
    assert (K4 : aw XE X a (spawn_struct a g sf)).
    { unfold spawn_struct. fold s1. cbv zeta.
      match goal with |- aw XE X a (upd_group (upd_scope ?m ?c ?f) ?g0 ?h) =>
        apply (aw_trans t XE X a (upd_scope m c f)); [|apply aw_upd_group];
        apply (aw_trans t XE X a m); [|apply aw_upd_scope_keep; intros k; reflexivity] end.
      apply (aw_trans t XE X a s1); [exact K1|].
      apply aw_plain; [|cbn; lia|cbn; lia|cbn; lia| |intros f _; reflexivity|apply rsh_same; reflexivity|auto|intros y _; reflexivity].
      - intros K. apply (KInv_kq s1); [exact K|]. apply kq_same; [reflexivity|reflexivity|].
        intros x. cbn. unfold upd. destruct (Nat.eqb_spec x (ntask a)); [now right|now left].
      - cbn. unfold upd. destruct (Nat.eqb_spec t (ntask a)); [lia|reflexivity]. }
    apply (aw_trans t XE X a (restart (spawn_struct a g sf) (Some (g_scope (groups a g))))); [|apply aw_call_soon].
    apply (aw_trans t XE X a (spawn_struct a g sf)); [exact K4|apply aw_restart].
  Qed.

  Lemma aw_run_task_done XE X a u :
    u <> t -> (forall g, k_group (tasks a u) = Some g -> In (g_scope (groups a g)) X) -> aw XE X a (run_task_done a u).
  Proof.
    intros Hu Hg. unfold run_task_done. cbn [tasks set_running].
    destruct (k_group (tasks a u)) as [g|] eqn:Eg; [|apply aw_set_running; discriminate].
    specialize (Hg g eq_refl).
    set (s3 := upd_task _ u _).
    assert (K3 : aw XE X a s3).
    { unfold s3.
      match goal with |- aw XE X a (upd_task (upd_group ?m ?g0 ?h) u ?f) =>
        apply (aw_trans t XE X a (upd_group m g0 h)); [|apply aw_upd_task; [exact Hu|intros k; now left]];
        apply (aw_trans t XE X a m); [|apply aw_upd_group] end.
      destruct (k_cur (tasks a u)).
      - apply (aw_trans t XE X a (set_running a None)); [apply aw_set_running; discriminate|].
        apply aw_upd_scope_keep. intros k; reflexivity.
      - apply aw_set_running. discriminate. }
    assert (G3 : g_scope (groups s3 g) = g_scope (groups a g)).
    { unfold s3. cbn. unfold upd. rewrite Nat.eqb_refl. destruct (k_cur (tasks a u)); reflexivity. }
    clearbody s3.
    set (s4 := match g_fut (groups s3 g) with
               | Some f => match g_tasks (groups s3 g) with [] => fut_complete s3 f (FRes 0) | _ :: _ => s3 end
               | None => s3 end).
    assert (K4 : aw XE X a s4).
    { apply (aw_trans t XE X a s3); [exact K3|]. unfold s4. destruct (g_fut (groups s3 g)); [|apply aw_refl].
      destruct (g_tasks (groups s3 g)); [apply aw_fut_complete; discriminate|apply aw_refl]. }
    assert (G4 : g_scope (groups s4 g) = g_scope (groups a g)).
    { rewrite <- G3. unfold s4. destruct (g_fut (groups s3 g)); [|reflexivity].
      destruct (g_tasks (groups s3 g)); [|reflexivity]. unfold fut_complete.
      destruct (f_st (futs s3 f)); try reflexivity. destruct (f_waiter (futs s3 f)); reflexivity. }
    clearbody s4.
    assert (Kc : aw XE X s4 (if eff_cancelled s4 (g_scope (groups s4 g)) then s4
                             else scope_cancel s4 (g_scope (groups s4 g)) false)).
    { destruct (eff_cancelled s4 _); [apply aw_refl|apply aw_scope_cancel]. now rewrite G4. }
    assert (Kx : forall e, aw XE X s4
              (let s5 := upd_group s4 g (fun x => gr_excs (g_excs x ++ [(u, e)]) x) in
               if s_cancelled (scopes s5 (g_scope (groups s5 g))) then s5 else scope_cancel s5 (g_scope (groups s5 g)) false)).
    { intros e. cbv zeta. set (s5 := upd_group s4 g (fun x => gr_excs (g_excs x ++ [(u, e)]) x)).
      assert (G5 : g_scope (groups s5 g) = g_scope (groups a g)).
      { rewrite <- G4. unfold s5. cbn. unfold upd. now rewrite Nat.eqb_refl. }
      destruct (s_cancelled _); [apply aw_upd_group|].
      apply (aw_trans t XE X s4 s5); [apply aw_upd_group|apply aw_scope_cancel]. now rewrite G5. }
    assert (Kf : forall f v, v <> FPend -> aw XE X s4 (fut_complete s4 f v)) by (intros f v Hv; now apply aw_fut_complete).
    apply (aw_trans t XE X a s4); [exact K4|].
    destruct (k_done (tasks a u)) as [[v|e|e]|].
    - destruct (k_startfut (tasks a u)) as [f|]; [|apply aw_refl].
      destruct (f_st (futs s4 f)); try apply aw_refl. apply Kf. discriminate.
    - destruct (k_startfut (tasks a u)) as [f|].
      + destruct (f_st (futs s4 f)).
        * apply Kf. discriminate.
        * destruct (is_cancel e); [apply Kc|apply Kx].
        * destruct (is_cancel e); [apply Kc|apply Kx].
        * destruct (is_cancel e); [apply aw_refl|apply Kx].
      + destruct (is_cancel e); [apply Kc|apply Kx].
    - destruct (k_startfut (tasks a u)) as [f|].
      + destruct (f_st (futs s4 f)).
        * apply Kf. discriminate.
        * destruct (is_cancel e); [apply Kc|apply Kx].
        * destruct (is_cancel e); [apply Kc|apply Kx].
        * destruct (is_cancel e); [apply aw_refl|apply Kx].
      + destruct (is_cancel e); [apply Kc|apply Kx].
    - destruct (k_startfut (tasks a u)) as [f|]; [|apply aw_refl].
      destruct (f_st (futs s4 f)); try apply aw_refl. apply Kf. discriminate.
  Qed.

  Lemma aw_aexit_raise XE X a u g e : u <> t -> aw XE X a (fst (aexit_raise a u g e)).
  Proof.
    intros Hu. unfold aexit_raise. pose proof (aw_exit t XE X a (g_scope (groups a g)) u (Some e) Hu) as K1.
    destruct (scope_exit a (g_scope (groups a g)) u (Some e)) as [s1 x]. cbn [fst] in K1.
    assert (K2 : aw XE X a (upd_group s1 g (gr_left true))) by (apply (aw_trans t XE X a s1); [exact K1|apply aw_upd_group]).
    destruct x; cbn [fst]; try exact K2.
    apply (aw_trans t XE X a _ _ K2). apply aw_upd_task; [exact Hu|intros k; now left].
  Qed.

  Lemma aw_aexit_finish XE X a u g exc : u <> t -> aw XE X a (fst (aexit_finish a u g exc)).
  Proof.
    intros Hu. unfold aexit_finish. destruct (map snd (g_excs (groups a g))) as [|e0 l]; [|now apply aw_aexit_raise].
    destruct exc as [e|]; [now apply aw_aexit_raise|].
    pose proof (aw_exit t XE X a (g_scope (groups a g)) u None Hu) as K1.
    destruct (scope_exit a (g_scope (groups a g)) u None) as [s1 x]. cbn [fst] in K1.
    destruct x; cbn [fst]; (apply (aw_trans t XE X a s1); [exact K1|apply aw_upd_group]).
  Qed.

  Lemma aw_new_enter XE X a d sh u :
    u <> t -> In (nscope a) XE -> In (nscope a) X -> aw XE X a (fst (scope_enter (fst (new_scope a d sh)) (nscope a) u)).
  Proof.
    intros Hu H1 H2. apply (aw_trans t XE X a (fst (new_scope a d sh))); [apply aw_new_scope|now apply aw_enter].
  Qed.

  Lemma aw_block XE X a a1 u c : u <> t -> aw XE X a a1 -> aw XE X a (fst (blocked (set_ctl a1 u c))).
  Proof.
    intros Hu H. cbn [fst blocked]. apply (aw_trans t XE X a (set_ctl a1 u c)).
    - apply (aw_trans t XE X a a1); [exact H|now apply aw_set_ctl].
    - apply aw_set_running. discriminate.
  Qed.

  Lemma aw_wof XE X a u g ws exc :
    u <> t -> (ws = None -> In (nscope a) XE /\ In (nscope a) X) -> aw XE X a (fst (aexit_wait_or_finish a u g ws exc)).
  Proof.
    intros Hu HS. pose proof (K_wof a u g ws exc) as Kk. unfold aexit_wait_or_finish in *.
    destruct (g_tasks (groups a g)) as [|c0 cs].
    - destruct ws as [w|].
      + pose proof (aw_exit t XE X a w u None Hu) as K1. destruct (scope_exit a w u None) as [s1 x]. cbn [fst] in K1.
        destruct x.
        * pose proof (aw_aexit_finish XE X s1 u g exc Hu) as K2. destruct (aexit_finish s1 u g exc) as [s2 r]. cbn [fst] in K2.
          apply (aw_trans t XE X a s2); [eapply aw_trans; eauto|now apply aw_ret].
        * pose proof (aw_aexit_finish XE X s1 u g exc Hu) as K2. destruct (aexit_finish s1 u g exc) as [s2 r]. cbn [fst] in K2.
          apply (aw_trans t XE X a s2); [eapply aw_trans; eauto|now apply aw_ret].
        * pose proof (aw_aexit_raise XE X s1 u g e Hu) as K2. destruct (aexit_raise s1 u g e) as [s2 r]. cbn [fst] in K2.
          apply (aw_trans t XE X a s2); [eapply aw_trans; eauto|now apply aw_ret].
      + pose proof (aw_aexit_finish XE X a u g exc Hu) as K2. destruct (aexit_finish a u g exc) as [s2 r]. cbn [fst] in K2.
        apply (aw_trans t XE X a s2); [exact K2|now apply aw_ret].
    - assert (Tail : forall m w, aw XE X a m ->
                (KInv a -> KInv (fst (let '(s1, f) := new_fut m in
                          blocked (set_ctl (suspend_on (upd_group s1 g (gr_fut (Some f))) u f) u (CAexitWait g w exc))))) ->
                aw XE X a (fst (let '(s1, f) := new_fut m in
                          blocked (set_ctl (suspend_on (upd_group s1 g (gr_fut (Some f))) u f) u (CAexitWait g w exc))))).
      { intros m w Hm Km. unfold new_fut in *. cbv zeta in *. cbn [fst blocked] in *.
        match goal with |- aw XE X a (set_running (set_ctl (suspend_on ?b u ?f) u ?c) None) =>
          apply (aw_trans t XE X a (suspend_on b u f)); [|apply (aw_trans t XE X _ (set_ctl (suspend_on b u f) u c));
                                                        [now apply aw_set_ctl|apply aw_set_running; discriminate]] end.
        apply (aw_trans t XE X a m); [exact Hm|].
        apply (aw_fresh_suspend t XE X m _ u Hu); [apply aw_upd_group|reflexivity|].
        intros Kmm. (* the kernel invariant of the suspended state follows from the generic lemma on m *)
        apply (K_fresh_suspend m _ u Kmm). apply kq_upd_group. }
      destruct ws as [w|].
      + apply Tail; [apply aw_refl|exact Kk].
      + cbn [fst]. unfold new_scope in *. cbv zeta in *. cbn [fst] in *.
        destruct (HS eq_refl) as [I1 I2].
        apply Tail; [now apply (aw_new_enter XE X a None false u)|exact Kk].
  Qed.
End AWHelpers4.

(* ---------------- the exception lists of an op: scopes it enters (possibly the fresh id), and scopes whose
   cancelled flag it may set or whose shield it lowers ---------------- *)
Definition xe_ctl (a : st) (u : tid) : list sid :=
  match k_ctl (tasks a u) with
  | CNew => [k_hscope (tasks a u)]
  | CAexitCk _ _ _ | CStartWait _ _ _ => [nscope a]
  | _ => []
  end.

Definition xc_ctl (a : st) (u : tid) : list sid :=
  match k_ctl (tasks a u) with
  | CAexitWait g _ _ | CAexitCk g _ _ => [g_scope (groups a g)]
  | CStartWait _ child _ => [k_hscope (tasks a child)]
  | _ => []
  end.

Definition xe (a : st) (o : op) : list sid :=
  match o with
  | AEnter _ c => [c]
  | AFailAt _ _ _ | AGroupExit _ _ | AShieldCk _ => [nscope a]
  | AGroupEnter _ g => [g_scope (groups a g)]
  | ARun (HStep u) | ARun (HWake u _) => xe_ctl a u
  | _ => []
  end.

Definition xc (a : st) (o : op) : list sid :=
  match o with
  | ACancel _ c | ASetDeadline _ c _ | AExtCancel c | ARun (HTimeout c _) => [c]
  | ASetShield _ c b => if b then [] else [c]
  | AGroupExit _ g => [g_scope (groups a g)]
  | AHandleCancel _ h => [k_hscope (tasks a h)]
  | ARun (HTaskDone u) => match k_group (tasks a u) with Some g => [g_scope (groups a g)] | None => [] end
  | ARun (HStep u) | ARun (HWake u _) => xc_ctl a u
  | _ => []
  end.

Lemma spawn_nfut m g sf : nfut (fst (spawn_task m g sf)) = nfut m.
Proof.
  rewrite spawn_task_eq. cbn [fst nfut call_soon set_ready].
  rewrite (kf_nfut _ _ (kframe_restart (spawn_struct m g sf) (Some (g_scope (groups m g))))). reflexivity.
Qed.

Section AWOps.
  Variable t : tid.
  Notation aw := (aw t).

  Lemma begin_hscope a u h : k_hscope (tasks (begin_act a u) h) = k_hscope (tasks a h).
  Proof. cbn. unfold upd. destruct (Nat.eqb_spec h u); [subst|]; reflexivity. Qed.

  Lemma aw_op_group_exit XE X a u g :
    u <> t -> In (nscope a) XE -> In (nscope a) X -> In (g_scope (groups a g)) X ->
    aw XE X a (fst (puppet_op a u (AGroupExit u g))).
  Proof.
    intros Hu I1 I2 I3. unfold puppet_op. set (s := begin_act a u).
      set (s1 := match k_held (tasks s u) with Some e => _ | None => s end).
      assert (H1 : aw XE X s s1).
      { unfold s1. destruct (k_held (tasks s u)) as [e|]; [|apply aw_refl]. cbv zeta.
        assert (Hc : aw XE X s (scope_cancel s (g_scope (groups s g)) false)) by (apply aw_scope_cancel; exact I3).
        destruct (is_cancel e); [exact Hc|]. eapply aw_trans; [exact Hc|apply aw_upd_group]. }
      assert (N1 : nscope s1 = nscope a).
      { unfold s1. destruct (k_held (tasks s u)) as [e|]; [|reflexivity]. cbv zeta.
        destruct (is_cancel e); cbn [nscope upd_group set_groups]; apply (tq_nscope _ _ (treq_scope_cancel s _ false)). }
      assert (H01 : aw XE X a s1) by (apply (aw_trans t XE X a s); [now apply aw_begin_act|exact H1]).
      destruct (g_tasks (groups s1 g)) eqn:Eg.
      + unfold new_scope. cbv zeta. cbn [fst blocked].
        match goal with |- _ (set_running (set_ctl (bare_yield ?m u) u ?c) None) =>
          apply (aw_trans t XE X a m); [|apply (aw_trans t XE X m (bare_yield m u)); [apply aw_bare_yield|];
             apply (aw_trans t XE X _ (set_ctl (bare_yield m u) u c)); [now apply aw_set_ctl|apply aw_set_running; discriminate]] end.
        apply (aw_trans t XE X a s1); [exact H01|].
        apply (aw_new_enter t XE X s1 None true u Hu); now rewrite N1.
      + apply (aw_trans t XE X a s1); [exact H01|]. apply aw_wof; [exact Hu|]. intros _. rewrite N1. now split.
  Qed.

  Lemma aw_puppet_op a u o :
    u <> t -> t < ntask a -> aw (xe a o) (xe a o ++ xc a o) a (fst (puppet_op a u o)).
  Proof.
    intros Hu At. unfold puppet_op.
    set (XE := xe a o). set (X := xe a o ++ xc a o).
    assert (K0 : aw XE X a (begin_act a u)) by now apply aw_begin_act.
    set (s := begin_act a u) in *.
    assert (At' : t < ntask s) by exact At.
    assert (Q : forall s1 r, aw XE X s s1 -> aw XE X a (fst (ret_to_puppet s1 u r))).
    { intros s1 r H. apply (aw_trans t XE X a s1); [eapply aw_trans; eauto|now apply aw_ret]. }
    assert (B : forall s1 c, aw XE X s s1 -> aw XE X a (fst (blocked (set_ctl s1 u c)))).
    { intros s1 c H. apply aw_block; [exact Hu|eapply aw_trans; eauto]. }
    destruct o; try (apply aw_refl); subst XE X; cbn [xe xc app] in *.
    - unfold new_scope. cbv zeta. apply Q. apply (aw_new_scope t _ _ s d sh).
    - (* AEnter *)
      pose proof (aw_enter t [c] [c] s c u Hu (or_introl eq_refl) (or_introl eq_refl)) as H.
      destruct (scope_enter s c u) as [s1 e]. now apply Q.
    - (* AExit *)
      pose proof (aw_exit t [] [] s c u (k_held (tasks s u)) Hu) as H.
      destruct (scope_exit s c u (k_held (tasks s u))) as [s1 x]. cbn [fst] in H. destruct x.
      + assert (H2 : aw [] [] s (upd_task s1 u (tk_held None))).
        { eapply aw_trans; [exact H|]. apply aw_upd_task; [exact Hu|intros k; now left]. }
        destruct (_ && _); now apply Q.
      + now apply Q.
      + now apply Q.
    - apply Q. apply aw_scope_cancel. now left.
    - (* ASetShield *)
      destruct (Bool.eqb _ b); [apply Q, aw_refl|]. apply Q. destruct b.
      + apply aw_shield_true.
      + apply (aw_trans t [] [c] s (upd_scope s c (sc_shield false))); [|apply aw_restart].
        apply aw_upd_scope_flag; [now left|intros k; reflexivity|intros k Hk; exact Hk].
    - (* ASetDeadline *)
      apply Q. set (s1 := cancel_timeout _ c).
      assert (H : aw [] [c] s s1).
      { unfold s1. apply (aw_trans t [] [c] s (upd_scope s c (sc_deadline d))); [apply aw_upd_scope_keep; intros k; reflexivity|].
        apply aw_cancel_timeout. }
      destruct (_ && _); [|exact H]. eapply aw_trans; [exact H|apply aw_scope_timeout; now left].
    - (* AGroupNew *)
      unfold new_scope. cbv zeta. apply Q.
      match goal with |- aw [] [] s ?b => apply (aw_trans t [] [] s (fst (new_scope s None false))) end; [apply aw_new_scope|].
      apply aw_light; try reflexivity; [apply kq_tasks_same; reflexivity|apply rsh_same; reflexivity|auto].
    - (* AGroupEnter *)
      destruct (g_entered (groups s g)); [apply Q, aw_refl|].
      set (s1 := upd_group s g (gr_entered true)).
      assert (Eg : g_scope (groups s1 g) = g_scope (groups a g)).
      { unfold s1. cbn. unfold upd. now rewrite Nat.eqb_refl. }
      assert (Hin : In (g_scope (groups s1 g)) [g_scope (groups a g)]) by (rewrite Eg; now left).
      pose proof (aw_enter t [g_scope (groups a g)] [g_scope (groups a g)] s1 (g_scope (groups s1 g)) u Hu Hin Hin) as H.
      destruct (scope_enter _ _ u) as [s2 e]. cbn [fst] in H. apply Q.
      apply (aw_trans t _ _ s s1); [apply aw_upd_group|exact H].
    - (* AGroupExit *)
      apply (aw_op_group_exit [nscope a] [nscope a; g_scope (groups a g)] a u g Hu); [now left|now left|right; now left].
    - (* ASpawn *)
      destruct (group_active s g); cbn [negb]; [|apply Q, aw_refl].
      pose proof (aw_spawn t [] [] s g None At') as H. destruct (spawn_task s g None) as [s1 c]. now apply Q.
    - (* AStart *)
      destruct (group_active s g); cbn [negb]; [|apply Q, aw_refl].
      unfold new_fut. cbv zeta.
      match goal with |- context [spawn_task ?m g ?sf] =>
        pose proof (aw_spawn t [] [] m g sf At') as H; pose proof (kq_spawn_task m g sf) as Hk;
        pose proof (spawn_nfut m g sf) as Hn; destruct (spawn_task m g sf) as [s2 c] end.
      cbn [fst blocked] in *.
      match goal with |- _ (set_running (set_ctl (suspend_on s2 u ?f) u ?c0) None) =>
        apply (aw_trans t [] [] a (suspend_on s2 u f));
          [|apply (aw_trans t [] [] _ (set_ctl (suspend_on s2 u f) u c0)); [now apply aw_set_ctl|apply aw_set_running; discriminate]] end.
      apply (aw_trans t [] [] a s); [exact K0|].
      apply (aw_fresh_suspend t [] [] s s2 u Hu); [exact H|exact Hn|]. intros K. now apply (K_fresh_suspend s s2 u K).
    - (* AStarted *)
      destruct (k_startfut (tasks s u)) as [f|]; [|apply Q, aw_refl].
      destruct (f_st (futs s f)); apply Q; try apply aw_refl. apply aw_fut_complete. discriminate.
    - (* AHandleCancel *)
      destruct (e_set _); apply Q; [apply aw_refl|]. apply aw_scope_cancel. unfold s. rewrite begin_hscope. now left.
    - (* AHandleWait *)
      pose proof (aw_event_wait t [] [] s u (k_hevent (tasks s h)) Hu) as H.
      destruct (event_wait s u (k_hevent (tasks s h))) as [s1 f]. cbn [fst] in H. now apply B.
    - apply B. apply aw_bare_yield.
    - destruct (ckif_spins _ _ _); [apply B, aw_bare_yield|apply Q, aw_refl].
    - (* AShieldCk *)
      unfold new_scope. cbv zeta. cbn [fst blocked].
      match goal with |- _ (set_running (set_ctl (bare_yield ?m u) u ?c) None) =>
        apply (aw_trans t [nscope a] [nscope a] a m); [|apply (aw_trans t _ _ m (bare_yield m u)); [apply aw_bare_yield|];
           apply (aw_trans t _ _ _ (set_ctl (bare_yield m u) u c)); [now apply aw_set_ctl|apply aw_set_running; discriminate]] end.
      apply (aw_trans t _ _ a s); [exact K0|]. apply (aw_new_enter t [nscope a] [nscope a] s None true u Hu); now left.
    - (* ASleep *)
      unfold new_fut. cbv zeta. destruct d as [dt|].
      + unfold call_at. cbv zeta. cbn [fst blocked].
        match goal with |- _ (set_running (set_ctl (suspend_on ?m u ?f) u ?c0) None) =>
          apply (aw_trans t [] [] a (suspend_on m u f));
            [|apply (aw_trans t [] [] _ (set_ctl (suspend_on m u f) u c0)); [now apply aw_set_ctl|apply aw_set_running; discriminate]];
          apply (aw_trans t [] [] a s); [exact K0|];
          apply (aw_fresh_suspend t [] [] s m u Hu); [|reflexivity|] end.
        * apply aw_light; try reflexivity; [apply kq_tasks_same; reflexivity|apply rsh_same; reflexivity|auto].
        * intros K. apply (K_fresh_suspend s _ u K). apply kq_tasks_same; reflexivity.
      + cbn [fst blocked].
        match goal with |- _ (set_running (set_ctl (suspend_on ?m u ?f) u ?c0) None) =>
          apply (aw_trans t [] [] a (suspend_on m u f));
            [|apply (aw_trans t [] [] _ (set_ctl (suspend_on m u f) u c0)); [now apply aw_set_ctl|apply aw_set_running; discriminate]];
          apply (aw_trans t [] [] a s); [exact K0|];
          apply (aw_fresh_suspend t [] [] s m u Hu); [apply aw_refl|reflexivity|] end.
        intros K. apply (K_fresh_suspend s _ u K). apply kq_refl.
    - apply Q. apply aw_upd_task; [exact Hu|intros k; now left].
    - apply Q. apply aw_upd_task; [exact Hu|intros k; now left].
    - apply Q. apply aw_upd_task; [exact Hu|intros k; now left].
    - apply Q. now apply aw_task_uncancel.
    - cbn [fst]. apply (aw_trans t [] [] a (park s u)); [|apply aw_set_running; discriminate].
      apply (aw_trans t [] [] a s); [exact K0|now apply aw_park].
    - (* AFailAt *)
      unfold new_scope. cbv zeta.
      match goal with |- context [scope_enter ?m ?c u] =>
        assert (H : aw [nscope a] [nscope a] s (fst (scope_enter m c u)))
          by (apply (aw_new_enter t [nscope a] [nscope a] s d sh u Hu); now left);
        destruct (scope_enter m c u) as [s2 e] end.
      cbn [fst] in H. now apply Q.
  Qed.
End AWOps.

Lemma exit_struct_groups s c t : groups (exit_struct s c t) = groups s.
Proof.
  unfold exit_struct. cbn [groups upd_task set_tasks].
  assert (E : forall a, groups (cancel_timeout a c) = groups a).
  { intros a. unfold cancel_timeout. destruct (s_timeout (scopes a c)); reflexivity. }
  destruct (s_parent (scopes s c)); cbn [groups upd_scope set_scopes]; rewrite E; reflexivity.
Qed.

Lemma scope_exit_groups s c t exc : groups (fst (scope_exit s c t exc)) = groups s.
Proof.
  destruct (exit_ok_dec s c t) as [Hok|Hno]; [|now rewrite (scope_exit_fail s c t exc Hno)].
  destruct (scope_exit_spec s c t exc Hok) as [s6 [K E]]. rewrite E. cbn [groups upd_scope set_scopes].
  rewrite (kf_groups _ _ K), (kf_groups _ _ (kframe_restart _ _)). apply exit_struct_groups.
Qed.

Lemma scope_cancel_groups s c b : groups (scope_cancel s c b) = groups s.
Proof.
  unfold scope_cancel. destruct (s_cancelled (scopes s c)); [reflexivity|].
  set (s2 := upd_scope (cancel_timeout s c) c _).
  assert (E2 : groups s2 = groups s).
  { unfold s2, cancel_timeout. destruct (s_timeout (scopes s c)); reflexivity. }
  destruct (s_host (scopes s2 c)); [|exact E2]. now rewrite (kf_groups _ _ (kframe_deliver_top s2 c)).
Qed.

Section AWOps2.
  Variable t : tid.
  Notation aw := (aw t).

  Lemma aw_puppet_finish a u v : u <> t -> aw [] [] a (fst (puppet_finish a u v)).
  Proof.
    intros Hu. unfold puppet_finish.
    set (s := begin_act a u).
    set (raw := match k_held (tasks s u) with Some e => OExc e | None => ORet v end).
    set (s1 := upd_task s u (tk_final (Some raw))).
    assert (H1 : aw [] [] a s1).
    { apply (aw_trans t [] [] a s); [now apply aw_begin_act|]. apply aw_upd_task; [exact Hu|intros k; now left]. }
    destruct (k_group (tasks s u)).
    - set (s2 := upd_task s1 u _). set (s3 := event_set s2 (k_hevent (tasks s u))).
      assert (H3 : aw [] [] a s3).
      { apply (aw_trans t [] [] a s2); [|apply aw_event_set]. apply (aw_trans t [] [] a s1); [exact H1|].
        apply aw_upd_task; [exact Hu|]. intros k. destruct raw; now left. }
      pose proof (aw_exit t [] [] s3 (k_hscope (tasks s u)) u (k_held (tasks s u)) Hu) as H4.
      destruct (scope_exit s3 (k_hscope (tasks s u)) u (k_held (tasks s u))) as [s4 x]. cbn [fst] in H4.
      destruct x; cbn [fst]; (apply (aw_trans t [] [] a s4); [eapply aw_trans; eauto|now apply aw_finish_task]).
    - cbn [fst]. apply (aw_trans t [] [] a s1); [exact H1|now apply aw_finish_task].
  Qed.

  Lemma incoming_hscope a u fo x : k_hscope (tasks (fst (incoming a u fo)) x) = k_hscope (tasks a x).
  Proof. unfold incoming. cbn. unfold upd. destruct (Nat.eqb_spec x u); [subst|]; reflexivity. Qed.

  Lemma aw_resume_gen XE X a u fo :
    u <> t ->
    (k_ctl (tasks a u) = CNew -> In (k_hscope (tasks a u)) XE /\ In (k_hscope (tasks a u)) X) ->
    (forall g ws e, k_ctl (tasks a u) = CAexitWait g ws e -> snd (incoming a u fo) <> None -> In (g_scope (groups a g)) X) ->
    (forall g c e, k_ctl (tasks a u) = CAexitCk g c e ->
                   In (nscope a) XE /\ In (nscope a) X /\ In (g_scope (groups a g)) X) ->
    (forall g child f, k_ctl (tasks a u) = CStartWait g child f -> snd (incoming a u fo) <> None ->
                   In (nscope a) XE /\ In (nscope a) X /\ In (k_hscope (tasks a child)) X) ->
    aw XE X a (fst (resume a u fo)).
  Proof.
    intros Hu H1 H2 H3 H4. unfold resume.
    pose proof (aw_incoming t XE X a u fo Hu) as K0. pose proof (incoming_ctl a u fo) as Ec.
    pose proof (incoming_hscope a u fo) as Eh.
    assert (Eg : groups (fst (incoming a u fo)) = groups a) by reflexivity.
    assert (En : nscope (fst (incoming a u fo)) = nscope a) by reflexivity.
    destruct (incoming a u fo) as [s inc]. cbn [fst snd] in *.
    assert (Q : forall s1 r, aw XE X s s1 -> aw XE X a (fst (ret_to_puppet s1 u r))).
    { intros s1 r H. apply (aw_trans t XE X a s1); [eapply aw_trans; eauto|now apply aw_ret]. }
    rewrite Ec. destruct (k_ctl (tasks a u)) eqn:Ectl; try apply aw_refl.
    - (* CNew *)
      destruct (H1 eq_refl) as [I1 I2].
      set (s1 := upd_task s u (tk_started true)).
      assert (K1 : aw XE X a s1) by (apply (aw_trans t XE X a s); [exact K0|apply aw_upd_task; [exact Hu|intros k; now left]]).
      destruct inc as [e|].
      + cbn [fst]. apply (aw_trans t XE X a s1); [exact K1|now apply aw_finish_task].
      + cbn [fst]. set (s2 := match k_group (tasks s1 u) with Some _ => _ | None => s1 end).
        assert (K2 : aw XE X a s2).
        { unfold s2. destruct (k_group (tasks s1 u)); [|exact K1]. apply (aw_trans t XE X a s1); [exact K1|].
          assert (E : k_hscope (tasks s1 u) = k_hscope (tasks a u)).
          { unfold s1. cbn. unfold upd. rewrite Nat.eqb_refl. cbn. apply Eh. }
          apply aw_enter; [exact Hu|now rewrite E|now rewrite E]. }
        apply (aw_trans t XE X a (park s2 u)); [|apply aw_set_running; discriminate].
        apply (aw_trans t XE X a s2); [exact K2|now apply aw_park].
    - (* CIdle *)
      cbn [fst]. set (s1 := match inc with Some e => upd_task s u (tk_held (Some e)) | None => s end).
      assert (K1 : aw XE X a s1).
      { unfold s1. destruct inc; [|exact K0]. apply (aw_trans t XE X a s); [exact K0|apply aw_upd_task; [exact Hu|intros k; now left]]. }
      apply (aw_trans t XE X a (park s1 u)); [|apply aw_set_running; discriminate].
      apply (aw_trans t XE X a s1); [exact K1|now apply aw_park].
    - (* CYield *)
      destruct k as [| |c].
      + apply Q, aw_refl.
      + destruct inc; [apply Q, aw_refl|]. destruct (ckif_spins _ _ _); [|apply Q, aw_refl]. cbn [fst blocked].
        apply (aw_trans t XE X a (bare_yield s u)); [|apply aw_set_running; discriminate].
        apply (aw_trans t XE X a s); [exact K0|apply aw_bare_yield].
      + pose proof (aw_exit t XE X s c u inc Hu) as K. destruct (scope_exit s c u inc) as [s1 x]. cbn [fst] in K.
        destruct x; now apply Q.
    - (* CSleep *) apply Q. apply aw_timer_cancel.
    - (* CAexitWait *)
      pose proof (H2 _ _ _ eq_refl) as I.
      set (s1 := upd_group s g (gr_fut None)).
      assert (K1 : aw XE X a s1) by (apply (aw_trans t XE X a s); [exact K0|apply aw_upd_group]).
      assert (G1 : g_scope (groups s1 g) = g_scope (groups a g)).
      { unfold s1. cbn. unfold upd. rewrite Nat.eqb_refl. cbn. now rewrite Eg. }
      destruct inc as [e|].
      + match goal with |- _ (fst (aexit_wait_or_finish ?m u g (Some ws) ?ex)) => apply (aw_trans t XE X a m) end.
        * apply (aw_trans t XE X a (upd_scope s1 ws (sc_shield true))); [apply (aw_trans t XE X a s1); [exact K1|apply aw_shield_true]|].
          apply aw_scope_cancel. change (groups (upd_scope s1 ws (sc_shield true)) g) with (groups s1 g). rewrite G1. apply I. discriminate.
        * apply aw_wof; [exact Hu|discriminate].
      + apply (aw_trans t XE X a s1); [exact K1|]. apply aw_wof; [exact Hu|discriminate].
    - (* CAexitCk *)
      destruct (H3 _ _ _ eq_refl) as [I1 [I2 I3]].
      pose proof (aw_exit t XE X s sc u inc Hu) as K. pose proof (sfr_exit s sc u inc) as Fx.
      pose proof (scope_exit_groups s sc u inc) as Gx.
      destruct (scope_exit s sc u inc) as [s1 x]. cbn [fst] in K, Fx, Gx.
      assert (K1 : aw XE X a s1) by (eapply aw_trans; eauto).
      assert (N1 : nscope s1 = nscope a) by (rewrite (sf_ns _ _ Fx); exact En).
      assert (G1 : g_scope (groups s1 g) = g_scope (groups a g)) by (now rewrite Gx, Eg).
      assert (W : forall m ex, aw XE X a m -> nscope m = nscope a ->
                  aw XE X a (fst (aexit_wait_or_finish m u g None ex))).
      { intros m ex Hm Nm. apply (aw_trans t XE X a m); [exact Hm|]. apply aw_wof; [exact Hu|]. intros _. now rewrite Nm. }
      destruct x as [| |e].
      + now apply W.
      + destruct inc as [e|]; [|now apply W].
        destruct (is_cancel e).
        * apply W.
          -- apply (aw_trans t XE X a s1); [exact K1|]. apply aw_scope_cancel. now rewrite G1.
          -- rewrite (tq_nscope _ _ (treq_scope_cancel s1 _ false)). exact N1.
        * pose proof (aw_aexit_raise t XE X s1 u g e Hu) as K2. destruct (aexit_raise s1 u g e) as [s2 r]. cbn [fst] in K2.
          apply (aw_trans t XE X a s2); [eapply aw_trans; eauto|now apply aw_ret].
      + pose proof (aw_aexit_raise t XE X s1 u g e Hu) as K2. destruct (aexit_raise s1 u g e) as [s2 r]. cbn [fst] in K2.
        apply (aw_trans t XE X a s2); [eapply aw_trans; eauto|now apply aw_ret].
    - (* CStartWait *)
      destruct inc as [e|]; [|apply Q, aw_refl].
      destruct (H4 _ _ _ eq_refl) as [I1 [I2 I3]]; [discriminate|].
      destruct (handle_pending s child); [|destruct (f_st (futs s _)); apply Q, aw_refl].
      unfold new_scope. cbv zeta.
      set (s1 := scope_cancel s (k_hscope (tasks s child)) false).
      assert (K1 : aw XE X a s1).
      { apply (aw_trans t XE X a s); [exact K0|]. apply aw_scope_cancel. now rewrite Eh. }
      assert (N1 : nscope s1 = nscope a) by (unfold s1; rewrite (tq_nscope _ _ (treq_scope_cancel s _ false)); exact En).
      match goal with |- context [scope_enter ?m ?c u] => set (s3 := fst (scope_enter m c u)) end.
      assert (K3 : aw XE X a s3).
      { apply (aw_trans t XE X a s1); [exact K1|]. unfold s3. apply (aw_new_enter t XE X s1 None true u Hu); now rewrite N1. }
      pose proof (aw_event_wait t XE X s3 u (k_hevent (tasks s3 child)) Hu) as K4.
      destruct (event_wait s3 u (k_hevent (tasks s3 child))) as [s4 wf]. cbn [fst blocked] in *.
      apply (aw_trans t XE X a (set_ctl s4 u (CStartJoin child (nscope s1) e wf))); [|apply aw_set_running; discriminate].
      apply (aw_trans t XE X a s4); [eapply aw_trans; eauto|now apply aw_set_ctl].
    - (* CStartJoin *)
      set (s1 := event_unwait s (k_hevent (tasks s child)) f).
      pose proof (aw_exit t XE X s1 sc u inc Hu) as K. destruct (scope_exit s1 sc u inc) as [s2 x]. cbn [fst] in K.
      assert (K2 : aw XE X s s2) by (apply (aw_trans t XE X s s1); [apply aw_event_unwait|exact K]).
      destruct x; [| destruct inc |]; now apply Q.
    - (* CHandleWait *) apply Q. apply aw_event_unwait.
  Qed.

  Lemma aw_resume a u fo :
    u <> t -> aw (xe_ctl a u) (xe_ctl a u ++ xc_ctl a u) a (fst (resume a u fo)).
  Proof.
    intros Hu. apply aw_resume_gen; [exact Hu| | | |]; unfold xe_ctl, xc_ctl.
    - intros E. rewrite E. cbn. auto.
    - intros g ws e E _. rewrite E. cbn. auto.
    - intros g c e E. rewrite E. cbn. auto.
    - intros g child f E _. rewrite E. cbn. auto.
  Qed.

  (* an op that is not an act of t: API calls of other tasks, environment ops *)
  Definition other_act (o : op) : Prop :=
    match o with
    | ARun _ => False
    | ANativeCancel u => u <> t
    | _ => actor o <> Some t
    end.

  Lemma aw_step_act a o :
    other_act o -> t < ntask a -> aw (xe a o) (xe a o ++ xc a o) a (fst (step a o)).
  Proof.
    intros Ho At. unfold step. destruct (actor o) as [u|] eqn:Ea.
    - assert (Hu : u <> t).
      { destruct o; cbn [other_act actor] in *; try discriminate; inversion Ea; subst; intros ->; now apply Ho. }
      destruct (negb (idle a u)); [apply aw_refl|].
      destruct o; cbn [actor] in Ea; try discriminate; inversion Ea; subst;
        try (now apply aw_puppet_op). cbn [xe xc app fst]. now apply aw_puppet_finish.
    - destruct o; cbn [actor] in Ea; try discriminate; cbn [xe xc app]; try apply aw_refl.
      + (* ANewRoot *)
        unfold new_root. cbn [fst].
        match goal with |- _ (set_running (park ?m ?u) None) => set (s1 := m) end.
        assert (Hu : ntask a <> t) by lia.
        apply (aw_trans t [] [] a (park s1 (ntask a))); [|apply aw_set_running; discriminate].
        apply (aw_trans t [] [] a s1); [|now apply aw_park].
        apply aw_plain; [|cbn; lia|cbn; lia|cbn; lia| |intros f _; reflexivity|apply rsh_same; reflexivity|auto|intros y _; reflexivity].
        * intros K. apply (KInv_kq a); [exact K|]. apply kq_same; [reflexivity|reflexivity|].
          intros x. unfold s1. cbn. unfold upd. destruct (Nat.eqb_spec x (ntask a)); [now right|now left].
        * unfold s1. cbn. unfold upd. destruct (Nat.eqb_spec t (ntask a)); [lia|reflexivity].
      + (* ANativeCancel *) cbn [fst]. now apply aw_task_cancel.
      + (* AExtCancel *)
        cbn [fst]. apply (aw_trans t [] [c] a (scope_cancel (set_running a None) c false)); [|apply aw_set_running; discriminate].
        apply (aw_trans t [] [c] a (set_running a None)); [apply aw_set_running; discriminate|apply aw_scope_cancel; now left].
      + (* ARun *) destruct Ho.
      + (* ATick *) destruct (Z.ltb dt 0); [apply aw_refl|]. cbn [fst]. apply aw_tick.
  Qed.

  (* running the head of the ready queue, when it is not t's own step or wake-up *)
  Definition other_head (h : handle) : Prop :=
    match h with HStep u | HWake u _ | HTaskDone u => u <> t | _ => True end.

  Lemma step_run_head a h r : ready a = h :: r ->
    fst (step a (ARun h)) =
    fst (match h with
         | HStep u => resume (set_ready a r) u None
         | HWake u f => resume (set_ready a r) u (Some f)
         | HDeliver c => (set_running (deliver_top (set_running (set_ready a r) None) c) None, RNone)
         | HTaskDone u => (run_task_done (set_ready a r) u, RNone)
         | HSleepDone f _ => (fut_complete (set_ready a r) f (FRes 0), RNone)
         | HTimeout c _ => (set_running (scope_timeout (set_running (set_ready a r) None) c) None, RNone)
         end).
  Proof.
    intros E. cbn [step actor]. unfold run_handle. rewrite E. cbn [existsb remove_first].
    rewrite handle_eqb_refl. cbn [orb negb]. reflexivity.
  Qed.

  Lemma aw_run_head a h r :
    ready a = h :: r -> other_head h ->
    aw (xe a (ARun h)) (xe a (ARun h) ++ xc a (ARun h)) (set_ready a r) (fst (step a (ARun h))).
  Proof.
    intros E Ho. rewrite (step_run_head a h r E). set (s1 := set_ready a r).
    destruct h as [u|u f|c|u|f tm|c tm]; cbn [other_head xe xc app fst] in *.
    - apply (aw_resume s1 u None Ho).
    - apply (aw_resume s1 u (Some f) Ho).
    - apply (aw_trans t [] [] s1 (deliver_top (set_running s1 None) c)); [|apply aw_set_running; discriminate].
      apply (aw_trans t [] [] s1 (set_running s1 None)); [apply aw_set_running; discriminate|apply aw_deliver_top].
    - apply aw_run_task_done; [exact Ho|]. intros g Eg. change (tasks s1 u) with (tasks a u) in Eg. rewrite Eg.
      now left.
    - apply aw_fut_complete. discriminate.
    - apply (aw_trans t [] [c] s1 (scope_timeout (set_running s1 None) c)); [|apply aw_set_running; discriminate].
      apply (aw_trans t [] [c] s1 (set_running s1 None)); [apply aw_set_running; discriminate|apply aw_scope_timeout; now left].
  Qed.
End AWOps2.
