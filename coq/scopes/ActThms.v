(* C03: bounded cancellation latency under arbitrary concurrent activity.
   Task t is suspended inside a cancelled scope and takes requests; any other task may perform any API call, the
   environment may cancel scopes, advance time and add root tasks, and every callback at the head of the ready
   queue may run - except t's own.  Within two FIFO cycles t is resumed with a cancellation, unless its wait
   completed with a value first or somebody shielded it (its scope is then no longer effectively cancelled). *)
From Coq Require Import ZArith Lia.
From AV Require Import Base Machine ScopeFrames DeliverInv TreeInv DeliverAlive PotentialInv TreeStep KernelInv
  DeliverThms TimerInv TimerThms CycleThms DebtInv ActWalk.

Section Track.
  Variable t : tid.

  (* t takes requests; it waits on a pending future or sits in a bare yield *)
  Definition eligG (s : st) : Prop :=
    k_done (tasks s t) = None /\ k_must (tasks s t) = false /\ k_started (tasks s t) = true /\
    match k_waiter (tasks s t) with Some f => f_st (futs s f) = FPend | None => True end.

  (* a request is recorded: the future t waits on is done (cancelled or completed), or _must_cancel is set *)
  Definition reqG (s : st) : Prop :=
    match k_waiter (tasks s t) with
    | Some f => f_st (futs s f) <> FPend
    | None => k_must (tasks s t) = true
    end.

  (* somebody raised a shield between t and every cancelled scope above it *)
  Definition Esc (s : st) : Prop :=
    exists x z, k_cur (tasks s t) = Some x /\ vis s z x /\ s_shield (scopes s z) = true /\ s_cancelled (scopes s z) = false.

  Lemma Esc_not_effectively_cancelled s fuel : Esc s -> eff_cancelled_from fuel s (k_cur (tasks s t)) = false.
  Proof.
    intros [x [z [Ec [V [Hs Hc]]]]]. rewrite Ec. clear Ec. revert fuel.
    induction V as [|y p E1 E2 E3 V IH]; intros fuel; destruct fuel as [|fu]; cbn [eff_cancelled_from]; try reflexivity.
    - now rewrite Hc, Hs.
    - rewrite E2, E1, E3. apply IH.
  Qed.

  Lemma reqG_mono a b : KInv a -> tframe t a b -> reqG a -> reqG b.
  Proof.
    intros K [F1 F2] R. pose proof (tframe_core t a b (conj F1 F2)) as E. unfold reqG in *.
    rewrite (tcore_waiter _ _ E). destruct (k_waiter (tasks a t)) as [f|] eqn:Ew.
    - rewrite (by_done _ _ _ _ (F1 f eq_refl) R). exact R.
    - now apply (bm_must _ _ _ (F2 eq_refl)).
  Qed.

  Lemma eligG_keep a b : KInv a -> tframe t a b -> eligG a -> ~ reqG b -> eligG b.
  Proof.
    intros K [F1 F2] [Hd [Hm [Hs Hw]]] Nr. pose proof (tframe_core t a b (conj F1 F2)) as E. unfold eligG, reqG in *.
    rewrite (tcore_done _ _ E), (tcore_started _ _ E), (tcore_waiter _ _ E) in *.
    destruct (k_waiter (tasks a t)) as [f|] eqn:Ew.
    - assert (Hp : f_st (futs b f) = FPend) by (destruct (f_st (futs b f)); [reflexivity| | |]; exfalso; apply Nr; discriminate).
      refine (conj Hd (conj _ (conj Hs Hp))).
      destruct (by_pend _ _ _ _ (F1 f eq_refl) Hw (k_link _ K t f Ew Hw) Ew Hm) as [[_ M]|[N _]]; [exact M|congruence].
    - refine (conj Hd (conj _ (conj Hs I))). destruct (k_must (tasks b t)); [now elim Nr|reflexivity].
  Qed.

  (* the delivery of a scope t reaches records a request *)
  Lemma hitsG a x : Good t a -> eligG a -> reaches a t x -> reqG (deliver_top a x).
  Proof.
    intros G [Hd [Hm [Hs Hw]]] R. pose proof (kframe_deliver_top a x) as K. unfold reqG.
    rewrite (tcore_waiter _ _ (kf_tasks _ _ K t)). destruct (k_waiter (tasks a t)) as [f|] eqn:Ew.
    - apply (deliver_hits t f a x G); [now repeat split|exact R].
    - apply (deliver_hits_y t a x G); [now repeat split|exact R].
  Qed.

  (* ---------------- the walk from t's current scope, in two states ---------------- *)
  Lemma scan a b c : forall k, vis a c k ->
    (forall y, vis a y k -> s_parent (scopes b y) = s_parent (scopes a y)) ->
    vis b c k \/
    (exists y, vis a y k /\ vis b y k /\ s_cancelled (scopes a y) = false /\ s_cancelled (scopes b y) = true) \/
    (exists y, vis b y k /\ s_shield (scopes b y) = true /\ s_cancelled (scopes b y) = false).
  Proof.
    intros k V. induction V as [|x p E1 E2 E3 V IH]; intros H; [left; apply vis_here|].
    destruct (s_cancelled (scopes b x)) eqn:Cb.
    { right; left. exists x. split; [apply vis_here|]. split; [apply vis_here|now split]. }
    destruct (s_shield (scopes b x)) eqn:Sb.
    { right; right. exists x. split; [apply vis_here|now split]. }
    assert (Ep : s_parent (scopes b x) = Some p) by (rewrite (H x (vis_here a x)); exact E3).
    destruct IH as [IH|[[y [A [B [C D]]]]|[y [B [C D]]]]].
    - intros y Hy. apply H. eapply vis_up; eauto.
    - left. eapply vis_up; eauto.
    - right; left. exists y. split; [eapply vis_up; eauto|]. split; [eapply vis_up; eauto|now split].
    - right; right. exists y. split; [eapply vis_up; eauto|now split].
  Qed.

  Lemma walk_active s k y : TreeL s -> s_active (scopes s k) = true -> vis s y k -> s_active (scopes s y) = true.
  Proof. intros T Ak V. induction V as [|x p F1 F2 F3 V IH]; [exact Ak|]. apply IH. now apply (tl_par_act _ T x p). Qed.

  Lemma active_lt s y : TreeL s -> s_active (scopes s y) = true -> y < nscope s.
  Proof. intros T A. apply (tl_act_alloc _ T y A). Qed.

  (* the walk in the later state, read back in the earlier one *)
  Lemma vis_back a b x : forall k, vis b x k ->
    TreeL a -> s_active (scopes a k) = true ->
    (forall z, s_active (scopes a z) = true -> z <> x ->
               s_parent (scopes b z) = s_parent (scopes a z) /\
               (s_cancelled (scopes a z) = true -> s_cancelled (scopes b z) = true) /\
               (s_shield (scopes a z) = true -> s_shield (scopes b z) = true)) ->
    vis a x k.
  Proof.
    intros k V T. induction V as [|z p E1 E2 E3 V IH]; intros Ak H; [apply vis_here|].
    destruct (Nat.eq_dec z x) as [->|Hz]; [apply vis_here|].
    destruct (H z Ak Hz) as [Ep [Ec Es]].
    assert (S0 : s_shield (scopes a z) = false) by (destruct (s_shield (scopes a z)); [rewrite Es in E1; auto|reflexivity]).
    assert (C0 : s_cancelled (scopes a z) = false) by (destruct (s_cancelled (scopes a z)); [rewrite Ec in E2; auto|reflexivity]).
    rewrite Ep in E3. eapply vis_up; eauto. apply IH; [|exact H]. now apply (tl_par_act _ T z p).
  Qed.
End Track.

Section Track2.
  Variable t : tid.

  Lemma Good_scope_cancel m x bd : Good t m -> Good t (scope_cancel m x bd).
  Proof. intros G. exact (proj1 (out_scope_cancel t 0 0 m x bd G)). Qed.

  (* cancel() of a scope that t reaches (but for the flag) records a request at once *)
  Lemma cancel_hits m x bd k :
    Good t m -> eligG t m -> k_cur (tasks m t) = Some k -> vis m x k -> s_cancelled (scopes m x) = false ->
    reqG t (scope_cancel m x bd).
  Proof.
    intros G El Hc V Cx. unfold scope_cancel. rewrite Cx.
    set (s1 := cancel_timeout m x).
    assert (E1t : tasks s1 = tasks m) by (unfold s1, cancel_timeout; destruct (s_timeout (scopes m x)); reflexivity).
    assert (E1f : futs s1 = futs m) by (unfold s1, cancel_timeout; destruct (s_timeout (scopes m x)); reflexivity).
    assert (G1 : Good t s1).
    { pose proof (treq_cancel_timeout m x) as K. apply (Good_same t m s1 G).
      - apply (tq_nscope _ _ K).
      - unfold s1, cancel_timeout. destruct (s_timeout (scopes m x)); [cbn|]; apply G.
      - intros y. now rewrite (tq_active _ _ K), (tq_parent _ _ K), (tq_children _ _ K), (tq_stasks _ _ K), (tq_host _ _ K).
      - exact E1t.
      - exact E1f.
      - unfold s1, cancel_timeout. destruct (s_timeout (scopes m x)); reflexivity. }
    set (s2 := upd_scope s1 x (fun y => sc_bydeadline bd (sc_cancelled true y))).
    assert (G2 : Good t s2).
    { apply (Good_same t s1 s2 G1); try reflexivity; [apply G1|].
      intros y. unfold s2. cbn. unfold upd. destruct (Nat.eqb_spec y x); [subst|]; now repeat split. }
    assert (El2 : eligG t s2).
    { unfold eligG in *. change (tasks s2) with (tasks s1). change (futs s2) with (futs s1). now rewrite E1t, E1f. }
    assert (Hc2 : k_cur (tasks s2 t) = Some k) by (change (tasks s2) with (tasks s1); now rewrite E1t).
    assert (V2' : vis s2 x k).
    { (* the two states agree on every scope but x, and the walk stops at x *)
      clear - V. induction V as [|z p F1 F2 F3 V IH]; [apply vis_here|].
      destruct (Nat.eq_dec z x) as [->|Hz]; [apply vis_here|].
      assert (Ez : scopes s2 z = scopes s1 z) by (unfold s2; cbn; unfold upd; destruct (Nat.eqb_spec z x); [contradiction|reflexivity]).
      pose proof (dq_scope _ _ (dq_cancel_timeout m x) z) as E. fold s1 in E.
      eapply vis_up; [| | |exact IH]; rewrite Ez; [now rewrite (vw_shield _ _ E)|now rewrite (vw_cancelled _ _ E)|now rewrite (vw_parent _ _ E)]. }
    assert (Ax : s_active (scopes s2 x) = true).
    { apply (walk_active s2 k x (gd_tl _ _ G2)); [apply (tl_cur_act _ (gd_tl _ _ G2) t k Hc2)|exact V2']. }
    destruct (s_host (scopes s2 x)) eqn:Eh; [|exfalso; now apply (gd_host _ _ G2 x Ax)].
    apply (hitsG t s2 x G2 El2). split; [apply El2|]. exists k. now split.
  Qed.

  (* ops that cancel no active scope (and enter only inactive ones) *)
  Lemma track0 XE X a b c :
    Good t a -> Good t b -> aw t XE X a b ->
    (forall y, In y XE -> s_active (scopes a y) = false) -> (forall y, In y X -> s_active (scopes a y) = false) ->
    trk t c a -> trk t c b \/ Esc t b.
  Proof.
    intros Ga Gb W HE HX [[Hd [k [Hc V]]] [Cc Hh]].
    pose proof (tframe_core t a b (aw_t _ _ _ _ _ W (gd_k _ _ Ga))) as E.
    pose proof (gd_tl _ _ Ga) as Ta. pose proof (gd_tl _ _ Gb) as Tb.
    assert (Ak : s_active (scopes a k) = true) by apply (tl_cur_act _ Ta t k Hc).
    assert (Hcb : k_cur (tasks b t) = Some k) by (rewrite (tcore_cur _ _ E); exact Hc).
    assert (Hdb : k_done (tasks b t) = None) by (rewrite (tcore_done _ _ E); exact Hd).
    assert (Wk : forall y, vis a y k -> s_active (scopes a y) = true /\ y < nscope a).
    { intros y Hy. pose proof (walk_active a k y Ta Ak Hy) as Ay. split; [exact Ay|now apply active_lt]. }
    destruct (scan a b c k V) as [S1|[[y [A [B [C D]]]]|[y [B [C D]]]]].
    - intros y Hy. destruct (Wk y Hy) as [Ay Ly]. apply (aw_par _ _ _ _ _ W y Ly). intros Hin. rewrite (HE y Hin) in Ay. discriminate.
    - left. destruct (Wk c V) as [Ac Lc]. split; [split; [exact Hdb|exists k; now split]|]. split.
      + now apply (aw_mono _ _ _ _ _ W c Lc).
      + apply (gd_host _ _ Gb). apply (walk_active b k c Tb); [apply (tl_cur_act _ Tb t k Hcb)|exact S1].
    - exfalso. destruct (Wk y A) as [Ay Ly].
      destruct (aw_v _ _ _ _ _ W y Ly) as [Ec _]; [intros Hin; rewrite (HX y Hin) in Ay; discriminate|]. congruence.
    - right. exists k, y. now repeat split.
  Qed.

  (* ops of the form: light prefix; cancel(x); rest that cancels no active scope *)
  Lemma track1 XE' X' a m x bd b c :
    Good t a -> Good t b ->
    treq a m -> KInv m -> running m <> Some t -> tasks m t = tasks a t -> futs m = futs a -> aw t [] [] a m ->
    aw t XE' X' (scope_cancel m x bd) b ->
    (forall y, In y XE' \/ In y X' -> s_active (scopes m y) = false) ->
    eligG t a -> trk t c a -> ~ reqG t b -> trk t c b \/ Esc t b.
  Proof.
    intros Ga Gb Q Km Rm Et Ef Wp Ws HI El Tk Nr.
    pose proof (Good_treq t a m Ga Q Km Rm) as Gm.
    pose proof (Good_scope_cancel m x bd Gm) as Gm2. set (m2 := scope_cancel m x bd) in *.
    assert (Wc : aw t [] [x] m m2) by (apply aw_scope_cancel; now left).
    assert (Wall : aw t XE' ([x] ++ X') a b).
    { apply (aw_trans t _ _ a m2).
      - apply (aw_trans t _ _ a m); [apply (aw_weaken t [] []); [intros y []|intros y []|exact Wp]|].
        apply (aw_weaken t [] [x]); [intros y []|intros y Hy; apply in_or_app; now left|exact Wc].
      - apply (aw_weaken t XE' X'); [apply incl_refl|intros y Hy; apply in_or_app; now right|exact Ws]. }
    destruct Tk as [[Hd [k [Hc V]]] [Cc Hh]].
    pose proof (tframe_core t a b (aw_t _ _ _ _ _ Wall (gd_k _ _ Ga))) as E.
    pose proof (gd_tl _ _ Ga) as Ta. pose proof (gd_tl _ _ Gb) as Tb.
    assert (Ak : s_active (scopes a k) = true) by apply (tl_cur_act _ Ta t k Hc).
    assert (Hcb : k_cur (tasks b t) = Some k) by (rewrite (tcore_cur _ _ E); exact Hc).
    assert (Hdb : k_done (tasks b t) = None) by (rewrite (tcore_done _ _ E); exact Hd).
    assert (Act : forall y, s_active (scopes m y) = s_active (scopes a y)) by (intros y; apply (tq_active _ _ Q)).
    assert (Wk : forall y, vis a y k -> s_active (scopes a y) = true /\ y < nscope a).
    { intros y Hy. pose proof (walk_active a k y Ta Ak Hy) as Ay. split; [exact Ay|now apply active_lt]. }
    destruct (scan a b c k V) as [S1|[[y [A [B [C D]]]]|[y [B [C D]]]]].
    - intros y Hy. destruct (Wk y Hy) as [Ay Ly]. apply (aw_par _ _ _ _ _ Wall y Ly).
      intros Hin. rewrite <- Act, (HI y (or_introl Hin)) in Ay. discriminate.
    - left. destruct (Wk c V) as [Ac Lc]. split; [split; [exact Hdb|exists k; now split]|]. split.
      + now apply (aw_mono _ _ _ _ _ Wall c Lc).
      + apply (gd_host _ _ Gb). apply (walk_active b k c Tb); [apply (tl_cur_act _ Tb t k Hcb)|exact S1].
    - (* a scope on the walk was cancelled: it is x, and its cancel() reached t *)
      exfalso. destruct (Wk y A) as [Ay Ly].
      assert (Eyx : y = x).
      { destruct (Nat.eq_dec y x) as [E0|N0]; [exact E0|exfalso].
        destruct (aw_v _ _ _ _ _ Wall y Ly) as [Ec _]; [|congruence].
        intros Hin. apply in_app_or in Hin. destruct Hin as [[Hin|[]]|Hin]; [congruence|].
        rewrite <- Act, (HI y (or_intror Hin)) in Ay. discriminate. }
      subst y.
      assert (Hcm : k_cur (tasks m t) = Some k) by (rewrite Et; exact Hc).
      assert (Hcm2 : k_cur (tasks m2 t) = Some k).
      { pose proof (tframe_core t m m2 (aw_t _ _ _ _ _ Wc Km)) as E2. rewrite (tcore_cur _ _ E2). exact Hcm. }
      pose proof (gd_tl _ _ Gm) as Tm. pose proof (gd_tl _ _ Gm2) as Tm2.
      assert (Inact : forall z, s_active (scopes m2 z) = true -> ~ (In z XE' \/ In z X')).
      { intros z Az Hin. rewrite (tq_active _ _ (treq_scope_cancel m x bd)) in Az. rewrite (HI z Hin) in Az. discriminate. }
      assert (Vm2 : vis m2 x k).
      { apply (vis_back m2 b x k B Tm2); [apply (tl_cur_act _ Tm2 t k Hcm2)|].
        intros z Az Hz. pose proof (active_lt m2 z Tm2 Az) as Lz.
        split; [apply (aw_par _ _ _ _ _ Ws z Lz); intros Hin; apply (Inact z Az); now left|].
        destruct (aw_v _ _ _ _ _ Ws z Lz) as [Ec Es]; [intros Hin; apply (Inact z Az); now right|].
        split; [intros Hcz; now rewrite Ec|exact Es]. }
      assert (Vm : vis m x k).
      { apply (vis_back m m2 x k Vm2 Tm); [apply (tl_cur_act _ Tm t k Hcm)|].
        intros z Az Hz. pose proof (active_lt m z Tm Az) as Lz.
        split; [apply (aw_par _ _ _ _ _ Wc z Lz); intros []|].
        destruct (aw_v _ _ _ _ _ Wc z Lz) as [Ec Es]; [intros [Hin|[]]; congruence|].
        split; [intros Hcz; now rewrite Ec|exact Es]. }
      assert (Cm : s_cancelled (scopes m x) = false).
      { destruct (aw_v _ _ _ _ _ Wp x Ly) as [Ec _]; [intros []|]. now rewrite Ec. }
      assert (Elm : eligG t m) by (unfold eligG in *; now rewrite Et, Ef).
      pose proof (cancel_hits m x bd k Gm Elm Hcm Vm Cm) as Rq. fold m2 in Rq.
      apply Nr. apply (reqG_mono t m2 b (gd_k _ _ Gm2)); [|exact Rq]. apply (aw_t _ _ _ _ _ Ws (gd_k _ _ Gm2)).
    - right. exists k, y. now repeat split.
  Qed.
End Track2.

Lemma good_reach t s : reach_ok s -> running s <> Some t -> Good t s.
Proof.
  intros R Hr. pose proof (reach_tree s R) as T. constructor.
  - now apply Tree_TreeL.
  - destruct R as [ops [_ ->]]. apply reach_kinv.
  - exact Hr.
  - intros y Ha. destruct (tr_host_act _ T y Ha) as [x [E _]]. rewrite E. discriminate.
Qed.

Lemma fresh_inactive s : reach_ok s -> s_active (scopes s (nscope s)) = false.
Proof.
  intros R. destruct (s_active (scopes s (nscope s))) eqn:E; [|reflexivity].
  pose proof (tr_act_alloc _ (reach_tree s R) _ E) as A. unfold alloc_s in A. lia.
Qed.

(* the handle scope of a task that has not started is not active *)
Lemma new_hscope_inactive s u : reach_ok s -> k_ctl (tasks s u) = CNew -> s_active (scopes s (k_hscope (tasks s u))) = false.
Proof.
  intros R Hc. destruct (reach_sinv s R) as [[T C] _].
  destruct (s_active (scopes s (k_hscope (tasks s u)))) eqn:Ea; [exfalso|reflexivity].
  assert (A : alloc_t s u).
  { destruct (alloc_t_dec s u) as [A|A]; [exact A|]. rewrite (c_unalloc _ C u A) in Hc. discriminate. }
  destruct (c_ok _ C u A) as [K1 _]. destruct (K1 Hc) as [_ [Hg Hh]].
  destruct (k_group (tasks s u)) as [g|] eqn:Eg; [|now elim Hg].
  destruct (tr_hpar _ T u g A Eg Ea) as [_ Hhost]. now apply (Hh (k_hscope (tasks s u))).
Qed.

Section ActTrack.
  Variables (t : tid) (c : sid).

  (* the generic K0 step: an act of somebody else whose exception lists are inactive scopes *)
  Lemma act_track0 a o :
    reach_ok a -> running a <> Some t -> t < ntask a -> other_act t o -> op_ok a o = true ->
    (forall y, In y (xe a o) \/ In y (xc a o) -> s_active (scopes a y) = false) ->
    running (fst (step a o)) <> Some t ->
    trk t c a -> trk t c (fst (step a o)) \/ Esc t (fst (step a o)).
  Proof.
    intros R Hr At Ho Hok HI Hrb Tk.
    pose proof (aw_step_act t a o Ho At) as W.
    apply (track0 t (xe a o) (xe a o ++ xc a o) a _ c); auto.
    - now apply good_reach.
    - apply good_reach; [now apply reach_ok_step|exact Hrb].
    - intros y Hy. apply in_app_or in Hy. apply HI. tauto.
  Qed.
End ActTrack.

Section Sites.
  Variables (t : tid) (c : sid).

  Definition TR (a b : st) : Prop := eligG t a -> trk t c a -> ~ reqG t b -> trk t c b \/ Esc t b.

  (* prefix; (cancel(x) | a neutral step); rest that cancels no active scope *)
  Lemma track_site XE' X' a m m2 x bd b :
    Good t a -> Good t b ->
    treq a m -> KInv m -> running m <> Some t -> tasks m t = tasks a t -> futs m = futs a -> aw t [] [] a m ->
    (m2 = scope_cancel m x bd \/ (aw t [] [] m m2 /\ forall y, s_active (scopes m2 y) = s_active (scopes m y))) ->
    aw t XE' X' m2 b ->
    (forall y, In y XE' \/ In y X' -> s_active (scopes m y) = false) ->
    TR a b.
  Proof.
    intros Ga Gb Q Km Rm Et Ef Wp [->|[Wm Am]] Ws HI El Tk Nr.
    - now apply (track1 t XE' X' a m x bd b c).
    - assert (W : aw t XE' X' a b).
      { apply (aw_trans t _ _ a m2); [|exact Ws].
        apply (aw_weaken t [] []); [intros y []|intros y []|]. apply (aw_trans t _ _ a m); assumption. }
      apply (track0 t XE' X' a b c Ga Gb W); [| |exact Tk].
      + intros y Hy. rewrite <- (tq_active _ _ Q). apply HI. now left.
      + intros y Hy. rewrite <- (tq_active _ _ Q). apply HI. now right.
  Qed.
End Sites.

Section PuppetTR.
  Variables (t : tid) (c : sid).
  Notation TR := (TR t c).

  Lemma pre_begin a u : u <> t -> KInv a ->
    treq a (begin_act a u) /\ KInv (begin_act a u) /\ running (begin_act a u) <> Some t /\
    tasks (begin_act a u) t = tasks a t /\ futs (begin_act a u) = futs a /\ aw t [] [] a (begin_act a u).
  Proof.
    intros Hu K. split; [apply treq_begin_act|]. split; [apply (KInv_kq a); [exact K|apply kq_begin_act]|].
    split; [cbn; congruence|]. split; [cbn; unfold upd; destruct (Nat.eqb_spec t u); [congruence|reflexivity]|].
    split; [reflexivity|now apply aw_begin_act].
  Qed.

  (* K0 shape: the whole op has inactive exception lists *)
  Lemma TR0 XE X a b :
    Good t a -> Good t b -> aw t XE X a b ->
    (forall y, In y XE \/ In y X -> s_active (scopes a y) = false) -> TR a b.
  Proof.
    intros Ga Gb W HI _ Tk _. apply (track0 t XE X a b c Ga Gb W); [| |exact Tk]; intros y Hy; apply HI; tauto.
  Qed.

  Lemma ret_TR a u s1 r b :
    u <> t -> Good t a -> Good t b -> aw t [] [] a s1 -> b = fst (ret_to_puppet s1 u r) -> TR a b.
  Proof.
    intros Hu Ga Gb W ->. apply (TR0 [] [] a _ Ga Gb); [|intros y [[]|[]]].
    apply (aw_trans t _ _ a s1); [exact W|now apply aw_ret].
  Qed.

  Lemma puppet_TR a u o :
    reach_ok a -> running a <> Some t -> t < ntask a -> u <> t ->
    Good t (fst (puppet_op a u o)) -> TR a (fst (puppet_op a u o)).
  Proof.
    intros R Hr At Hu Gb. pose proof (good_reach t a R Hr) as Ga.
    destruct (pre_begin a u Hu (gd_k _ _ Ga)) as [Q [Ks [Rs [Et [Ef Wp]]]]].
    pose proof (fresh_inactive a R) as Fr.
    assert (K0 : (forall y, In y (xe a o) \/ In y (xe a o ++ xc a o) -> s_active (scopes a y) = false) ->
                 TR a (fst (puppet_op a u o))).
    { intros HI. apply (TR0 (xe a o) (xe a o ++ xc a o) a _ Ga Gb); [now apply aw_puppet_op|exact HI]. }
    destruct o; try (apply K0; cbn [xe xc app]; intros y [[]|[]]; fail).
    - (* AEnter *)
      destruct (s_active (scopes a c0)) eqn:Ea.
      + assert (E : scope_enter (begin_act a u) c0 u = (begin_act a u, Some ERuntime))
          by (apply scope_enter_fail; now rewrite (tq_active _ _ Q)).
        unfold puppet_op in *. rewrite E in *. eapply ret_TR; eauto.
      + apply K0. cbn [xe xc app]. intros y [[<-|[]]|[<-|[]]]; exact Ea.
    - (* ACancel *)
      unfold puppet_op in *.
      apply (track_site t c [] [] a (begin_act a u) (scope_cancel (begin_act a u) c0 false) c0 false _ Ga Gb Q Ks Rs Et Ef Wp);
        [now left|now apply aw_ret|intros y [[]|[]]].
    - (* ASetShield *)
      admit_shield.
    - admit_rest.
  Abort.
End PuppetTR.
