(* C03: bounded cancellation latency under arbitrary concurrent activity.
   Task t is suspended inside a cancelled scope and takes requests; any other task may perform any API call, the
   environment may cancel scopes, advance time and add root tasks, and every callback at the head of the ready
   queue may run - except t's own.  Within two FIFO cycles t is resumed with a cancellation, unless its wait
   completed with a value first or somebody shielded it (its scope is then no longer effectively cancelled). *)
From Coq Require Import ZArith Lia.
From AV Require Import Base Machine ScopeFrames DeliverInv TreeInv DeliverAlive PotentialInv TreeStep KernelInv
  DeliverThms TimerInv TimerThms CycleThms DebtInv ActWalk.

Section Track.
  Variable t : tid.

  (* t takes requests; it waits on a pending future or sits in a bare yield *)
  Definition eligG (s : st) : Prop :=
    k_done (tasks s t) = None /\ k_must (tasks s t) = false /\ k_started (tasks s t) = true /\
    match k_waiter (tasks s t) with Some f => f_st (futs s f) = FPend | None => True end.

  (* a request is recorded: the future t waits on is done (cancelled or completed), or _must_cancel is set *)
  Definition reqG (s : st) : Prop :=
    match k_waiter (tasks s t) with
    | Some f => f_st (futs s f) <> FPend
    | None => k_must (tasks s t) = true
    end.

  (* somebody raised a shield between t and every cancelled scope above it *)
  Definition Esc (s : st) : Prop :=
    exists x z, k_cur (tasks s t) = Some x /\ vis s z x /\ s_shield (scopes s z) = true /\ s_cancelled (scopes s z) = false.

  Lemma Esc_not_effectively_cancelled s fuel : Esc s -> eff_cancelled_from fuel s (k_cur (tasks s t)) = false.
  Proof.
    intros [x [z [Ec [V [Hs Hc]]]]]. rewrite Ec. clear Ec. revert fuel.
    induction V as [|y p E1 E2 E3 V IH]; intros fuel; destruct fuel as [|fu]; cbn [eff_cancelled_from]; try reflexivity.
    - now rewrite Hc, Hs.
    - rewrite E2, E1, E3. apply IH.
  Qed.

  Lemma reqG_mono a b : KInv a -> tframe t a b -> reqG a -> reqG b.
  Proof.
    intros K [F1 F2] R. pose proof (tframe_core t a b (conj F1 F2)) as E. unfold reqG in *.
    rewrite (tcore_waiter _ _ E). destruct (k_waiter (tasks a t)) as [f|] eqn:Ew.
    - rewrite (by_done _ _ _ _ (F1 f eq_refl) R). exact R.
    - now apply (bm_must _ _ _ (F2 eq_refl)).
  Qed.

  Lemma eligG_keep a b : KInv a -> tframe t a b -> eligG a -> ~ reqG b -> eligG b.
  Proof.
    intros K [F1 F2] [Hd [Hm [Hs Hw]]] Nr. pose proof (tframe_core t a b (conj F1 F2)) as E. unfold eligG, reqG in *.
    rewrite (tcore_done _ _ E), (tcore_started _ _ E), (tcore_waiter _ _ E) in *.
    destruct (k_waiter (tasks a t)) as [f|] eqn:Ew.
    - assert (Hp : f_st (futs b f) = FPend) by (destruct (f_st (futs b f)); [reflexivity| | |]; exfalso; apply Nr; discriminate).
      refine (conj Hd (conj _ (conj Hs Hp))).
      destruct (by_pend _ _ _ _ (F1 f eq_refl) Hw (k_link _ K t f Ew Hw) Ew Hm) as [[_ M]|[N _]]; [exact M|congruence].
    - refine (conj Hd (conj _ (conj Hs I))). destruct (k_must (tasks b t)); [now elim Nr|reflexivity].
  Qed.

  (* the delivery of a scope t reaches records a request *)
  Lemma hitsG a x : Good t a -> eligG a -> reaches a t x -> reqG (deliver_top a x).
  Proof.
    intros G [Hd [Hm [Hs Hw]]] R. pose proof (kframe_deliver_top a x) as K. unfold reqG.
    rewrite (tcore_waiter _ _ (kf_tasks _ _ K t)). destruct (k_waiter (tasks a t)) as [f|] eqn:Ew.
    - apply (deliver_hits t f a x G); [now repeat split|exact R].
    - apply (deliver_hits_y t a x G); [now repeat split|exact R].
  Qed.

  (* ---------------- the walk from t's current scope, in two states ---------------- *)
  Lemma scan a b c : forall k, vis a c k ->
    (forall y, vis a y k -> s_parent (scopes b y) = s_parent (scopes a y)) ->
    vis b c k \/
    (exists y, vis a y k /\ vis b y k /\ s_cancelled (scopes a y) = false /\ s_cancelled (scopes b y) = true) \/
    (exists y, vis b y k /\ s_shield (scopes b y) = true /\ s_cancelled (scopes b y) = false).
  Proof.
    intros k V. induction V as [|x p E1 E2 E3 V IH]; intros H; [left; apply vis_here|].
    destruct (s_cancelled (scopes b x)) eqn:Cb.
    { right; left. exists x. split; [apply vis_here|]. split; [apply vis_here|now split]. }
    destruct (s_shield (scopes b x)) eqn:Sb.
    { right; right. exists x. split; [apply vis_here|now split]. }
    assert (Ep : s_parent (scopes b x) = Some p) by (rewrite (H x (vis_here a x)); exact E3).
    destruct IH as [IH|[[y [A [B [C D]]]]|[y [B [C D]]]]].
    - intros y Hy. apply H. eapply vis_up; eauto.
    - left. eapply vis_up; eauto.
    - right; left. exists y. split; [eapply vis_up; eauto|]. split; [eapply vis_up; eauto|now split].
    - right; right. exists y. split; [eapply vis_up; eauto|now split].
  Qed.

  Lemma walk_active s k y : TreeL s -> s_active (scopes s k) = true -> vis s y k -> s_active (scopes s y) = true.
  Proof. intros T Ak V. induction V as [|x p F1 F2 F3 V IH]; [exact Ak|]. apply IH. now apply (tl_par_act _ T x p). Qed.

  Lemma active_lt s y : TreeL s -> s_active (scopes s y) = true -> y < nscope s.
  Proof. intros T A. apply (tl_act_alloc _ T y A). Qed.

  (* the walk in the later state, read back in the earlier one *)
  Lemma vis_back a b x : forall k, vis b x k ->
    TreeL a -> s_active (scopes a k) = true ->
    (forall z, s_active (scopes a z) = true -> z <> x ->
               s_parent (scopes b z) = s_parent (scopes a z) /\
               (s_cancelled (scopes a z) = true -> s_cancelled (scopes b z) = true) /\
               (s_shield (scopes a z) = true -> s_shield (scopes b z) = true)) ->
    vis a x k.
  Proof.
    intros k V T. induction V as [|z p E1 E2 E3 V IH]; intros Ak H; [apply vis_here|].
    destruct (Nat.eq_dec z x) as [->|Hz]; [apply vis_here|].
    destruct (H z Ak Hz) as [Ep [Ec Es]].
    assert (S0 : s_shield (scopes a z) = false) by (destruct (s_shield (scopes a z)); [rewrite Es in E1; auto|reflexivity]).
    assert (C0 : s_cancelled (scopes a z) = false) by (destruct (s_cancelled (scopes a z)); [rewrite Ec in E2; auto|reflexivity]).
    rewrite Ep in E3. eapply vis_up; eauto. apply IH; [|exact H]. now apply (tl_par_act _ T z p).
  Qed.
End Track.

Section Track2.
  Variable t : tid.

  Lemma Good_scope_cancel m x bd : Good t m -> Good t (scope_cancel m x bd).
  Proof. intros G. exact (proj1 (out_scope_cancel t 0 0 m x bd G)). Qed.

  (* cancel() of a scope that t reaches (but for the flag) records a request at once *)
  Lemma cancel_hits m x bd k :
    Good t m -> eligG t m -> k_cur (tasks m t) = Some k -> vis m x k -> s_cancelled (scopes m x) = false ->
    reqG t (scope_cancel m x bd).
  Proof.
    intros G El Hc V Cx. unfold scope_cancel. rewrite Cx.
    set (s1 := cancel_timeout m x).
    assert (E1t : tasks s1 = tasks m) by (unfold s1, cancel_timeout; destruct (s_timeout (scopes m x)); reflexivity).
    assert (E1f : futs s1 = futs m) by (unfold s1, cancel_timeout; destruct (s_timeout (scopes m x)); reflexivity).
    assert (G1 : Good t s1).
    { pose proof (treq_cancel_timeout m x) as K. apply (Good_same t m s1 G).
      - apply (tq_nscope _ _ K).
      - unfold s1, cancel_timeout. destruct (s_timeout (scopes m x)); [cbn|]; apply G.
      - intros y. now rewrite (tq_active _ _ K), (tq_parent _ _ K), (tq_children _ _ K), (tq_stasks _ _ K), (tq_host _ _ K).
      - exact E1t.
      - exact E1f.
      - unfold s1, cancel_timeout. destruct (s_timeout (scopes m x)); reflexivity. }
    set (s2 := upd_scope s1 x (fun y => sc_bydeadline bd (sc_cancelled true y))).
    assert (G2 : Good t s2).
    { apply (Good_same t s1 s2 G1); try reflexivity; [apply G1|].
      intros y. unfold s2. cbn. unfold upd. destruct (Nat.eqb_spec y x); [subst|]; now repeat split. }
    assert (El2 : eligG t s2).
    { unfold eligG in *. change (tasks s2) with (tasks s1). change (futs s2) with (futs s1). now rewrite E1t, E1f. }
    assert (Hc2 : k_cur (tasks s2 t) = Some k) by (change (tasks s2) with (tasks s1); now rewrite E1t).
    assert (V2' : vis s2 x k).
    { (* the two states agree on every scope but x, and the walk stops at x *)
      clear - V. induction V as [|z p F1 F2 F3 V IH]; [apply vis_here|].
      destruct (Nat.eq_dec z x) as [->|Hz]; [apply vis_here|].
      assert (Ez : scopes s2 z = scopes s1 z) by (unfold s2; cbn; unfold upd; destruct (Nat.eqb_spec z x); [contradiction|reflexivity]).
      pose proof (dq_scope _ _ (dq_cancel_timeout m x) z) as E. fold s1 in E.
      eapply vis_up; [| | |exact IH]; rewrite Ez; [now rewrite (vw_shield _ _ E)|now rewrite (vw_cancelled _ _ E)|now rewrite (vw_parent _ _ E)]. }
    assert (Ax : s_active (scopes s2 x) = true).
    { apply (walk_active s2 k x (gd_tl _ _ G2)); [apply (tl_cur_act _ (gd_tl _ _ G2) t k Hc2)|exact V2']. }
    destruct (s_host (scopes s2 x)) eqn:Eh; [|exfalso; now apply (gd_host _ _ G2 x Ax)].
    apply (hitsG t s2 x G2 El2). split; [apply El2|]. exists k. now split.
  Qed.

  (* ops that cancel no active scope (and enter only inactive ones) *)
  Lemma track0 XE X a b c :
    Good t a -> Good t b -> aw t XE X a b ->
    (forall y, In y XE -> s_active (scopes a y) = false) ->
    (forall y, In y X -> s_active (scopes a y) = false \/ s_cancelled (scopes b y) = s_cancelled (scopes a y)) ->
    trk t c a -> trk t c b \/ Esc t b.
  Proof.
    intros Ga Gb W HE HX [[Hd [k [Hc V]]] [Cc Hh]].
    pose proof (tframe_core t a b (aw_t _ _ _ _ _ W (gd_k _ _ Ga))) as E.
    pose proof (gd_tl _ _ Ga) as Ta. pose proof (gd_tl _ _ Gb) as Tb.
    assert (Ak : s_active (scopes a k) = true) by apply (tl_cur_act _ Ta t k Hc).
    assert (Hcb : k_cur (tasks b t) = Some k) by (rewrite (tcore_cur _ _ E); exact Hc).
    assert (Hdb : k_done (tasks b t) = None) by (rewrite (tcore_done _ _ E); exact Hd).
    assert (Wk : forall y, vis a y k -> s_active (scopes a y) = true /\ y < nscope a).
    { intros y Hy. pose proof (walk_active a k y Ta Ak Hy) as Ay. split; [exact Ay|now apply active_lt]. }
    destruct (scan a b c k V) as [S1|[[y [A [B [C D]]]]|[y [B [C D]]]]].
    - intros y Hy. destruct (Wk y Hy) as [Ay Ly]. apply (aw_par _ _ _ _ _ W y Ly). intros Hin. rewrite (HE y Hin) in Ay. discriminate.
    - left. destruct (Wk c V) as [Ac Lc]. split; [split; [exact Hdb|exists k; now split]|]. split.
      + now apply (aw_mono _ _ _ _ _ W c Lc).
      + apply (gd_host _ _ Gb). apply (walk_active b k c Tb); [apply (tl_cur_act _ Tb t k Hcb)|exact S1].
    - exfalso. destruct (Wk y A) as [Ay Ly].
      destruct (in_dec Nat.eq_dec y X) as [Hin|Hn].
      + destruct (HX y Hin) as [E0|E0]; congruence.
      + destruct (aw_v _ _ _ _ _ W y Ly Hn) as [Ec _]. congruence.
    - right. exists k, y. now repeat split.
  Qed.

  (* ops of the form: light prefix; cancel(x); rest that cancels no active scope *)
  Lemma track1' XE' X' a m x bd b c :
    Good t a -> Good t b -> Good t m -> aw t [] [] a m ->
    aw t XE' X' (scope_cancel m x bd) b ->
    (forall y, In y XE' \/ In y X' -> s_active (scopes m y) = false) ->
    (forall y, In y XE' \/ In y X' -> s_active (scopes a y) = false) ->
    eligG t a -> trk t c a -> ~ reqG t b -> trk t c b \/ Esc t b.
  Proof.
    intros Ga Gb Gm Wp Ws HI HIa El Tk Nr. pose proof (gd_k _ _ Gm) as Km.
    pose proof (Good_scope_cancel m x bd Gm) as Gm2. set (m2 := scope_cancel m x bd) in *.
    assert (Wc : aw t [] [x] m m2) by (apply aw_scope_cancel; now left).
    assert (Wall : aw t XE' ([x] ++ X') a b).
    { apply (aw_trans t _ _ a m2).
      - apply (aw_trans t _ _ a m); [apply (aw_weaken t [] []); [intros y []|intros y []|exact Wp]|].
        apply (aw_weaken t [] [x]); [intros y []|intros y Hy; apply in_or_app; now left|exact Wc].
      - apply (aw_weaken t XE' X'); [apply incl_refl|intros y Hy; apply in_or_app; now right|exact Ws]. }
    destruct Tk as [[Hd [k [Hc V]]] [Cc Hh]].
    pose proof (tframe_core t a b (aw_t _ _ _ _ _ Wall (gd_k _ _ Ga))) as E.
    pose proof (gd_tl _ _ Ga) as Ta. pose proof (gd_tl _ _ Gb) as Tb.
    assert (Ak : s_active (scopes a k) = true) by apply (tl_cur_act _ Ta t k Hc).
    assert (Hcb : k_cur (tasks b t) = Some k) by (rewrite (tcore_cur _ _ E); exact Hc).
    assert (Hdb : k_done (tasks b t) = None) by (rewrite (tcore_done _ _ E); exact Hd).
    assert (Wk : forall y, vis a y k -> s_active (scopes a y) = true /\ y < nscope a).
    { intros y Hy. pose proof (walk_active a k y Ta Ak Hy) as Ay. split; [exact Ay|now apply active_lt]. }
    destruct (scan a b c k V) as [S1|[[y [A [B [C D]]]]|[y [B [C D]]]]].
    - intros y Hy. destruct (Wk y Hy) as [Ay Ly]. apply (aw_par _ _ _ _ _ Wall y Ly).
      intros Hin. rewrite (HIa y (or_introl Hin)) in Ay. discriminate.
    - left. destruct (Wk c V) as [Ac Lc]. split; [split; [exact Hdb|exists k; now split]|]. split.
      + now apply (aw_mono _ _ _ _ _ Wall c Lc).
      + apply (gd_host _ _ Gb). apply (walk_active b k c Tb); [apply (tl_cur_act _ Tb t k Hcb)|exact S1].
    - (* a scope on the walk was cancelled: it is x, and its cancel() reached t *)
      exfalso. destruct (Wk y A) as [Ay Ly].
      assert (Eyx : y = x).
      { destruct (Nat.eq_dec y x) as [E0|N0]; [exact E0|exfalso].
        destruct (aw_v _ _ _ _ _ Wall y Ly) as [Ec _]; [|congruence].
        intros Hin. apply in_app_or in Hin. destruct Hin as [[Hin|[]]|Hin]; [congruence|].
        rewrite (HIa y (or_intror Hin)) in Ay. discriminate. }
      subst y.
      assert (Hcm : k_cur (tasks m t) = Some k).
      { rewrite (tcore_cur _ _ (tframe_core t a m (aw_t _ _ _ _ _ Wp (gd_k _ _ Ga)))). exact Hc. }
      assert (Hcm2 : k_cur (tasks m2 t) = Some k).
      { pose proof (tframe_core t m m2 (aw_t _ _ _ _ _ Wc Km)) as E2. rewrite (tcore_cur _ _ E2). exact Hcm. }
      pose proof (gd_tl _ _ Gm) as Tm. pose proof (gd_tl _ _ Gm2) as Tm2.
      assert (Inact : forall z, s_active (scopes m2 z) = true -> ~ (In z XE' \/ In z X')).
      { intros z Az Hin. rewrite (tq_active _ _ (treq_scope_cancel m x bd)) in Az. rewrite (HI z Hin) in Az. discriminate. }
      assert (Vm2 : vis m2 x k).
      { apply (vis_back m2 b x k B Tm2); [apply (tl_cur_act _ Tm2 t k Hcm2)|].
        intros z Az Hz. pose proof (active_lt m2 z Tm2 Az) as Lz.
        split; [apply (aw_par _ _ _ _ _ Ws z Lz); intros Hin; apply (Inact z Az); now left|].
        destruct (aw_v _ _ _ _ _ Ws z Lz) as [Ec Es]; [intros Hin; apply (Inact z Az); now right|].
        split; [intros Hcz; now rewrite Ec|exact Es]. }
      assert (Vm : vis m x k).
      { apply (vis_back m m2 x k Vm2 Tm); [apply (tl_cur_act _ Tm t k Hcm)|].
        intros z Az Hz. pose proof (active_lt m z Tm Az) as Lz.
        split; [apply (aw_par _ _ _ _ _ Wc z Lz); intros []|].
        destruct (aw_v _ _ _ _ _ Wc z Lz) as [Ec Es]; [intros [Hin|[]]; congruence|].
        split; [intros Hcz; now rewrite Ec|exact Es]. }
      assert (Cm : s_cancelled (scopes m x) = false).
      { destruct (aw_v _ _ _ _ _ Wp x Ly) as [Ec _]; [intros []|]. now rewrite Ec. }
      assert (Mono2 : reqG t m2 -> reqG t b).
      { intros Rq. apply (reqG_mono t m2 b (gd_k _ _ Gm2)); [|exact Rq]. apply (aw_t _ _ _ _ _ Ws (gd_k _ _ Gm2)). }
      assert (Elm : eligG t m).
      { apply (eligG_keep t a m (gd_k _ _ Ga) (aw_t _ _ _ _ _ Wp (gd_k _ _ Ga)) El).
        intros Rm. apply Nr, Mono2. apply (reqG_mono t m m2 Km); [|exact Rm]. apply (aw_t _ _ _ _ _ Wc Km). }
      pose proof (cancel_hits m x bd k Gm Elm Hcm Vm Cm) as Rq. fold m2 in Rq.
      apply Nr, Mono2, Rq.
    - right. exists k, y. now repeat split.
  Qed.

  Lemma track1 XE' X' a m x bd b c :
    Good t a -> Good t b ->
    treq a m -> KInv m -> running m <> Some t -> tasks m t = tasks a t -> futs m = futs a -> aw t [] [] a m ->
    aw t XE' X' (scope_cancel m x bd) b ->
    (forall y, In y XE' \/ In y X' -> s_active (scopes m y) = false) ->
    eligG t a -> trk t c a -> ~ reqG t b -> trk t c b \/ Esc t b.
  Proof.
    intros Ga Gb Q Km Rm _ _ Wp Ws HI. apply (track1' XE' X' a m x bd b c); auto.
    - now apply (Good_treq t a m).
    - intros y Hy. rewrite <- (tq_active _ _ Q). now apply HI.
  Qed.
End Track2.

Lemma good_reach t s : reach_ok s -> running s <> Some t -> Good t s.
Proof.
  intros R Hr. pose proof (reach_tree s R) as T. constructor.
  - now apply Tree_TreeL.
  - destruct R as [ops [_ ->]]. apply reach_kinv.
  - exact Hr.
  - intros y Ha. destruct (tr_host_act _ T y Ha) as [x [E _]]. rewrite E. discriminate.
Qed.

Lemma fresh_inactive s : reach_ok s -> s_active (scopes s (nscope s)) = false.
Proof.
  intros R. destruct (s_active (scopes s (nscope s))) eqn:E; [|reflexivity].
  pose proof (tr_act_alloc _ (reach_tree s R) _ E) as A. unfold alloc_s in A. lia.
Qed.

(* the handle scope of a task that has not started is not active *)
Lemma new_hscope_inactive s u : reach_ok s -> k_ctl (tasks s u) = CNew -> s_active (scopes s (k_hscope (tasks s u))) = false.
Proof.
  intros R Hc. destruct (reach_sinv s R) as [[T C] _].
  destruct (s_active (scopes s (k_hscope (tasks s u)))) eqn:Ea; [exfalso|reflexivity].
  assert (A : alloc_t s u).
  { destruct (alloc_t_dec s u) as [A|A]; [exact A|]. rewrite (c_unalloc _ C u A) in Hc. discriminate. }
  destruct (c_ok _ C u A) as [K1 _]. destruct (K1 Hc) as [_ [Hg Hh]].
  destruct (k_group (tasks s u)) as [g|] eqn:Eg; [|now elim Hg].
  destruct (tr_hpar _ T u g A Eg Ea) as [_ Hhost]. now apply (Hh (k_hscope (tasks s u))).
Qed.

Section ActTrack.
  Variables (t : tid) (c : sid).

  (* the generic K0 step: an act of somebody else whose exception lists are inactive scopes *)
  Lemma act_track0 a o :
    reach_ok a -> running a <> Some t -> t < ntask a -> other_act t o -> op_ok a o = true ->
    (forall y, In y (xe a o) \/ In y (xc a o) -> s_active (scopes a y) = false) ->
    running (fst (step a o)) <> Some t ->
    trk t c a -> trk t c (fst (step a o)) \/ Esc t (fst (step a o)).
  Proof.
    intros R Hr At Ho Hok HI Hrb Tk.
    pose proof (aw_step_act t a o Ho At) as W.
    apply (track0 t (xe a o) (xe a o ++ xc a o) a _ c); auto.
    - now apply good_reach.
    - apply good_reach; [now apply reach_ok_step|exact Hrb].
    - intros y Hy. left. apply in_app_or in Hy. apply HI. tauto.
  Qed.
End ActTrack.

Section Sites.
  Variables (t : tid) (c : sid).

  Definition TR (a b : st) : Prop := eligG t a -> trk t c a -> ~ reqG t b -> trk t c b \/ Esc t b.

  (* prefix; (cancel(x) | a neutral step); rest that cancels no active scope *)
  Lemma track_site XE' X' a m m2 x bd b :
    Good t a -> Good t b ->
    treq a m -> KInv m -> running m <> Some t -> tasks m t = tasks a t -> futs m = futs a -> aw t [] [] a m ->
    (m2 = scope_cancel m x bd \/ (aw t [] [] m m2 /\ forall y, s_active (scopes m2 y) = s_active (scopes m y))) ->
    aw t XE' X' m2 b ->
    (forall y, In y XE' \/ In y X' -> s_active (scopes m y) = false) ->
    TR a b.
  Proof.
    intros Ga Gb Q Km Rm Et Ef Wp [->|[Wm Am]] Ws HI El Tk Nr.
    - now apply (track1 t XE' X' a m x bd b c).
    - assert (W : aw t XE' X' a b).
      { apply (aw_trans t _ _ a m2); [|exact Ws].
        apply (aw_weaken t [] []); [intros y []|intros y []|]. apply (aw_trans t _ _ a m); assumption. }
      apply (track0 t XE' X' a b c Ga Gb W); [| |exact Tk].
      + intros y Hy. rewrite <- (tq_active _ _ Q). apply HI. now left.
      + intros y Hy. left. rewrite <- (tq_active _ _ Q). apply HI. now right.
  Qed.

  (* the same with an arbitrary well-formed site state (the prefix may change the tree, e.g. leave a scope) *)
  Lemma track_site' XE' X' a m m2 x bd b :
    Good t a -> Good t b -> Good t m -> aw t [] [] a m ->
    (m2 = scope_cancel m x bd \/ aw t [] [] m m2) ->
    aw t XE' X' m2 b ->
    (forall y, In y XE' \/ In y X' -> s_active (scopes m y) = false) ->
    (forall y, In y XE' \/ In y X' -> s_active (scopes a y) = false) ->
    TR a b.
  Proof.
    intros Ga Gb Gm Wp [->|Wm] Ws HI HIa El Tk Nr.
    - now apply (track1' t XE' X' a m x bd b c).
    - assert (W : aw t XE' X' a b).
      { apply (aw_trans t _ _ a m2); [|exact Ws].
        apply (aw_weaken t [] []); [intros y []|intros y []|]. apply (aw_trans t _ _ a m); assumption. }
      apply (track0 t XE' X' a b c Ga Gb W); [| |exact Tk].
      + intros y Hy. apply HIa. now left.
      + intros y Hy. left. apply HIa. now right.
  Qed.
End Sites.

Section PuppetTR.
  Variables (t : tid) (c : sid).
  Notation TR := (TR t c).

  Lemma pre_begin a u : u <> t -> KInv a ->
    treq a (begin_act a u) /\ KInv (begin_act a u) /\ running (begin_act a u) <> Some t /\
    tasks (begin_act a u) t = tasks a t /\ futs (begin_act a u) = futs a /\ aw t [] [] a (begin_act a u).
  Proof.
    intros Hu K. split; [apply treq_begin_act|]. split; [apply (KInv_kq a); [exact K|apply kq_begin_act]|].
    split; [cbn; congruence|]. split; [cbn; unfold upd; destruct (Nat.eqb_spec t u); [congruence|reflexivity]|].
    split; [reflexivity|now apply aw_begin_act].
  Qed.

  (* K0 shape: the whole op has inactive exception lists *)
  Lemma TR0 XE X a b :
    Good t a -> Good t b -> aw t XE X a b ->
    (forall y, In y XE \/ In y X -> s_active (scopes a y) = false) -> TR a b.
  Proof.
    intros Ga Gb W HI _ Tk _. apply (track0 t XE X a b c Ga Gb W); [| |exact Tk]; intros y Hy; [|left]; apply HI; tauto.
  Qed.

  Lemma ret_TR a u s1 r b :
    u <> t -> Good t a -> Good t b -> aw t [] [] a s1 -> b = fst (ret_to_puppet s1 u r) -> TR a b.
  Proof.
    intros Hu Ga Gb W ->. apply (TR0 [] [] a _ Ga Gb); [|intros y [[]|[]]].
    apply (aw_trans t _ _ a s1); [exact W|now apply aw_ret].
  Qed.

  Lemma puppet_TR a u o :
    reach_ok a -> running a <> Some t -> t < ntask a -> u <> t ->
    Good t (fst (puppet_op a u o)) -> TR a (fst (puppet_op a u o)).
  Proof.
    intros R Hr At Hu Gb. pose proof (good_reach t a R Hr) as Ga.
    destruct (pre_begin a u Hu (gd_k _ _ Ga)) as [Q [Ks [Rs [Et [Ef Wp]]]]].
    pose proof (fresh_inactive a R) as Fr.
    assert (K0 : (forall y, In y (xe a o) \/ In y (xe a o ++ xc a o) -> s_active (scopes a y) = false) ->
                 TR a (fst (puppet_op a u o))).
    { intros HI. apply (TR0 (xe a o) (xe a o ++ xc a o) a _ Ga Gb); [now apply aw_puppet_op|exact HI]. }
    destruct o; try (apply K0; cbn [xe xc app]; intros y [[]|[]]; fail).
    - (* AEnter *)
      destruct (s_active (scopes a c0)) eqn:Ea.
      + assert (E : scope_enter (begin_act a u) c0 u = (begin_act a u, Some ERuntime))
          by (apply scope_enter_fail; now rewrite (tq_active _ _ Q)).
        unfold puppet_op in *. rewrite E in *. eapply ret_TR; eauto.
      + apply K0. cbn [xe xc app]. intros y [[<-|[]]|[<-|[]]]; exact Ea.
    - (* ACancel *)
      unfold puppet_op in *.
      apply (track_site t c [] [] a (begin_act a u) (scope_cancel (begin_act a u) c0 false) c0 false _ Ga Gb Q Ks Rs Et Ef Wp);
        [now left|now apply aw_ret|intros y [[]|[]]].
    - (* ASetShield *)
      intros _ Tk _.
      apply (track0 t [] ([] ++ (if b then [] else [c0])) a _ c Ga Gb (aw_puppet_op t a u (ASetShield t0 c0 b) Hu At));
        [intros y []| |exact Tk].
      intros y Hy. right. cbn [app] in Hy. unfold puppet_op.
      set (s := begin_act a u).
      destruct (Bool.eqb (s_shield (scopes s c0)) b); [now rewrite (proj1 (ss_ret s u (RRet 0)))|].
      destruct b; [destruct Hy|].
      rewrite (proj1 (ss_ret _ u (RRet 0))).
      rewrite (core_cancelled _ _ (kf_scopes _ _ (kframe_restart (upd_scope s c0 (sc_shield false)) _) y)).
      cbn. unfold upd. destruct (Nat.eqb_spec y c0); [subst|]; reflexivity.
    - (* ASetDeadline *)
      unfold puppet_op in *. set (s := begin_act a u) in *.
      set (m := cancel_timeout (upd_scope s c0 (sc_deadline d)) c0) in *.
      assert (Qm : treq a m).
      { apply (treq_trans a s m); [exact Q|]. apply (treq_trans s (upd_scope s c0 (sc_deadline d)) m);
          [apply treq_upd_scope; intros k; reflexivity|apply treq_cancel_timeout]. }
      assert (Wm : aw t [] [] a m).
      { apply (aw_trans t _ _ a s); [exact Wp|]. apply (aw_trans t _ _ s (upd_scope s c0 (sc_deadline d)));
          [apply aw_upd_scope_keep; intros k; reflexivity|apply aw_cancel_timeout]. }
      assert (Km : KInv m) by (apply (aw_k _ _ _ _ _ Wm), (gd_k _ _ Ga)).
      assert (Rm : running m <> Some t).
      { unfold m, cancel_timeout. destruct (s_timeout _); cbn; congruence. }
      assert (Etm : tasks m t = tasks a t).
      { unfold m, cancel_timeout. destruct (s_timeout _); cbn [tasks upd_scope set_scopes timer_cancel set_ready set_timers]; exact Et. }
      assert (Efm : futs m = futs a) by (unfold m, cancel_timeout; destruct (s_timeout _); reflexivity).
      set (m2 := if s_active (scopes m c0) && negb (s_cancelled (scopes m c0)) then scope_timeout m c0 else m) in *.
      apply (track_site t c [] [] a m m2 c0 true _ Ga Gb Qm Km Rm Etm Efm Wm); [|now apply aw_ret|intros y [[]|[]]].
      unfold m2. destruct (_ && _); [|right; split; [apply aw_refl|reflexivity]].
      pose proof (treq_scope_timeout m c0) as Qt. unfold scope_timeout in *.
      destruct (s_deadline (scopes m c0)); [|right; split; [apply aw_refl|reflexivity]].
      destruct (Z.leb z (now m)); [now left|right]. split; [|intros y; apply (tq_active _ _ Qt)].
      unfold call_at. cbv zeta.
      match goal with |- aw t [] [] m (upd_scope ?m1 c0 ?g) => apply (aw_trans t [] [] m m1) end.
      + apply aw_light; try reflexivity; [apply kq_tasks_same; reflexivity|apply rsh_same; reflexivity|auto].
      + apply aw_upd_scope_keep. intros k; reflexivity.
    - (* AGroupEnter *)
      unfold puppet_op in *. set (s := begin_act a u) in *.
      destruct (g_entered (groups s g)) eqn:Ee; [eapply ret_TR; eauto|].
      set (s1 := upd_group s g (gr_entered true)) in *.
      assert (Eg : g_scope (groups s1 g) = g_scope (groups a g)) by (unfold s1; cbn; unfold upd; now rewrite Nat.eqb_refl).
      assert (W1 : aw t [] [] a s1) by (apply (aw_trans t _ _ a s); [exact Wp|apply aw_upd_group]).
      destruct (s_active (scopes s1 (g_scope (groups s1 g)))) eqn:Ea.
      + rewrite (scope_enter_fail s1 _ u Ea) in *. eapply ret_TR; eauto.
      + pose proof (aw_puppet_op t a u (AGroupEnter t0 g) Hu At) as W. unfold puppet_op in W. fold s in W. rewrite Ee in W. fold s1 in W.
        assert (Q1 : treq a s1) by (apply (treq_trans a s s1); [exact Q|apply treq_upd_group; intros k; reflexivity]).
        apply (TR0 _ _ a _ Ga Gb W). cbn [xe xc app]. rewrite <- Eg.
        intros y [[<-|[]]|[<-|[]]]; rewrite <- (tq_active _ _ Q1); exact Ea.
    - (* AGroupExit *)
      unfold puppet_op in *. set (s := begin_act a u) in *.
      set (gs := g_scope (groups s g)) in *.
      set (exc := k_held (tasks s u)) in *.
      set (m2 := match exc with Some _ => scope_cancel s gs false | None => s end).
      assert (N2 : nscope m2 = nscope a).
      { unfold m2. destruct exc; [rewrite (tq_nscope _ _ (treq_scope_cancel s gs false))|]; apply (tq_nscope _ _ Q). }
      assert (Fr2 : In (nscope m2) [nscope a]) by (rewrite N2; now left).
      apply (track_site t c [nscope a] [nscope a] a s m2 gs false _ Ga Gb Q Ks Rs Et Ef Wp).
      + unfold m2. destruct exc; [now left|right; split; [apply aw_refl|reflexivity]].
      + (* the rest: record the exception, then the shielded checkpoint or the wait loop *)
        set (s1 := match exc with
                   | Some e => if is_cancel e then scope_cancel s gs false
                               else upd_group (scope_cancel s gs false) g (fun x => gr_excs (g_excs x ++ [(0, e)]) x)
                   | None => s end).
        assert (W1 : aw t [nscope a] [nscope a] m2 s1).
        { unfold s1, m2. destruct exc as [e|]; [|apply aw_refl]. destruct (is_cancel e); [apply aw_refl|apply aw_upd_group]. }
        assert (N1 : nscope s1 = nscope a).
        { rewrite <- N2. unfold s1, m2. destruct exc as [e|]; [|reflexivity]. destruct (is_cancel e); reflexivity. }
        change (match exc with
                | Some e => let a0 := scope_cancel s gs false in
                            if is_cancel e then a0 else upd_group a0 g (fun x => gr_excs (g_excs x ++ [(0, e)]) x)
                | None => s end) with s1.
        destruct (g_tasks (groups s1 g)).
        * unfold new_scope. cbv zeta. cbn [fst blocked].
          match goal with |- _ (set_running (set_ctl (bare_yield ?mm u) u ?cc) None) =>
            apply (aw_trans t _ _ m2 mm); [|apply (aw_trans t _ _ mm (bare_yield mm u)); [apply aw_bare_yield|];
               apply (aw_trans t _ _ _ (set_ctl (bare_yield mm u) u cc)); [now apply aw_set_ctl|apply aw_set_running; discriminate]] end.
          apply (aw_trans t _ _ m2 s1); [exact W1|].
          apply (aw_new_enter t [nscope a] [nscope a] s1 None true u Hu); rewrite N1; now left.
        * apply (aw_trans t _ _ m2 s1); [exact W1|]. apply aw_wof; [exact Hu|]. intros _. rewrite N1. split; now left.
      + intros y [[<-|[]]|[<-|[]]]; rewrite (tq_active _ _ Q); exact Fr.
    - (* AHandleCancel *)
      unfold puppet_op in *. set (s := begin_act a u) in *.
      destruct (e_set (events s (k_hevent (tasks s h)))); [eapply ret_TR; eauto|].
      apply (track_site t c [] [] a s (scope_cancel s (k_hscope (tasks s h)) false) (k_hscope (tasks s h)) false _
               Ga Gb Q Ks Rs Et Ef Wp); [now left|now apply aw_ret|intros y [[]|[]]].
    - (* AShieldCk *)
      apply K0. cbn [xe xc app]. intros y [[<-|[]]|[<-|[]]]; exact Fr.
    - (* AFailAt *)
      apply K0. cbn [xe xc app]. intros y [[<-|[]]|[<-|[]]]; exact Fr.
    - (* AExtCancel: not a puppet op *) intros _ Tk _. left. exact Tk.
    - (* ARun *) intros _ Tk _. left. exact Tk.
  Qed.
End PuppetTR.

Section StepTR.
  Variables (t : tid) (c : sid).
  Notation TR := (TR t c).

  Lemma TR_refl a : TR a a.
  Proof. intros _ Tk _. now left. Qed.

  Lemma step_TR a o :
    reach_ok a -> running a <> Some t -> t < ntask a -> other_act t o ->
    Good t (fst (step a o)) -> TR a (fst (step a o)).
  Proof.
    intros R Hr At Ho Gb. pose proof (good_reach t a R Hr) as Ga.
    unfold step in *. destruct (actor o) as [u|] eqn:Ea.
    - assert (Hu : u <> t).
      { destruct o; cbn [other_act actor] in *; try discriminate; inversion Ea; subst; intros ->; now apply Ho. }
      destruct (negb (idle a u)); [apply TR_refl|].
      destruct o; cbn [actor] in Ea; try discriminate; try (now apply puppet_TR).
      (* AFinish *)
      apply (TR0 t c [] [] a _ Ga Gb); [now apply aw_puppet_finish|intros y [[]|[]]].
    - destruct o; cbn [actor] in Ea; try discriminate; try apply TR_refl.
      + (* ANewRoot *)
        apply (TR0 t c [] [] a _ Ga Gb); [|intros y [[]|[]]].
        apply (aw_step_act t a ANewRoot Ho At).
      + (* ANativeCancel *)
        apply (TR0 t c [] [] a _ Ga Gb); [|intros y [[]|[]]]. apply (aw_step_act t a (ANativeCancel t0) Ho At).
      + (* AExtCancel *)
        cbn [fst] in *. set (m := set_running a None) in *.
        apply (track_site t c [] [] a m (scope_cancel m c0 false) c0 false _ Ga Gb).
        * apply treq_set_running.
        * apply (KInv_kq a); [apply (gd_k _ _ Ga)|apply kq_set_running].
        * discriminate.
        * reflexivity.
        * reflexivity.
        * apply aw_set_running. discriminate.
        * now left.
        * apply aw_set_running. discriminate.
        * intros y [[]|[]].
      + (* ARun *) destruct Ho.
      + (* ATick *)
        apply (TR0 t c [] [] a _ Ga Gb); [|intros y [[]|[]]]. apply (aw_step_act t a (ATick dt) Ho At).
  Qed.
End StepTR.

Section ResumeTR.
  Variables (t : tid) (c : sid).
  Notation TR := (TR t c).

  Definition new_frame (k : ctl) : bool :=
    match k with
    | CNew | CYield (YShield _) | CAexitWait _ _ _ | CAexitCk _ _ _ | CStartWait _ _ _ | CStartJoin _ _ _ _ => true
    | _ => false
    end.

  Lemma resume_TR a u fo :
    Tree a -> Ctl a ->
    (k_ctl (tasks a u) = CNew -> s_active (scopes a (k_hscope (tasks a u))) = false) ->
    s_active (scopes a (nscope a)) = false ->
    u <> t -> Good t a -> Good t (fst (resume a u fo)) ->
    new_frame (k_ctl (tasks a u)) = true -> TR a (fst (resume a u fo)).
  Proof.
    intros Ta Ca Hnew Hfresh Hu Ga Gb Hf.
    assert (K0 : (forall y, In y (xe_ctl a u) \/ In y (xe_ctl a u ++ xc_ctl a u) -> s_active (scopes a y) = false) ->
                 TR a (fst (resume a u fo))).
    { intros HI. apply (TR0 t c _ _ a _ Ga Gb (aw_resume t a u fo Hu) HI). }
    destruct (k_ctl (tasks a u)) eqn:Ectl; try discriminate.
    - (* CNew *)
      apply K0. unfold xe_ctl, xc_ctl. rewrite Ectl. cbn [app]. intros y [[<-|[]]|[<-|[]]]; now apply Hnew.
    - (* YShield *)
      destruct k; try discriminate. apply K0. unfold xe_ctl, xc_ctl. rewrite Ectl. cbn [app]. intros y [[]|[]].
    - (* CAexitWait *)
      destruct (snd (incoming a u fo)) as [e|] eqn:Ei.
      + unfold resume in *. pose proof (incoming_ctl a u fo) as Ec.
        pose proof (treq_incoming a u fo) as Qi. pose proof (aw_incoming t [] [] a u fo Hu) as Wi.
        pose proof (kq_incoming a u fo) as Ki.
        assert (Eti : tasks (fst (incoming a u fo)) t = tasks a t).
        { unfold incoming. cbn. unfold upd. destruct (Nat.eqb_spec t u); [congruence|reflexivity]. }
        assert (Efi : futs (fst (incoming a u fo)) = futs a) by reflexivity.
        assert (Eri : running (fst (incoming a u fo)) = Some u) by reflexivity.
        destruct (incoming a u fo) as [s inc]. cbn [fst snd] in *. subst inc. rewrite Ec, Ectl in *.
        set (s1 := upd_group s g (gr_fut None)) in *.
        set (m := upd_scope s1 ws (sc_shield true)) in *.
        assert (Qm : treq a m).
        { apply (treq_trans a s m); [exact Qi|]. apply (treq_trans s s1 m); [apply treq_upd_group; intros k; reflexivity|].
          apply treq_upd_scope. intros k; reflexivity. }
        assert (Wm : aw t [] [] a m).
        { apply (aw_trans t _ _ a s); [exact Wi|]. apply (aw_trans t _ _ s s1); [apply aw_upd_group|apply aw_shield_true]. }
        apply (track_site t c [] [] a m (scope_cancel m (g_scope (groups m g)) false) (g_scope (groups m g)) false _ Ga Gb Qm).
        * apply (aw_k _ _ _ _ _ Wm), (gd_k _ _ Ga).
        * unfold m, s1. cbn. rewrite Eri. congruence.
        * exact Eti.
        * exact Efi.
        * exact Wm.
        * now left.
        * apply aw_wof; [exact Hu|discriminate].
        * intros y [[]|[]].
      + apply (TR0 t c [] [] a _ Ga Gb); [|intros y [[]|[]]].
        apply aw_resume_gen; [exact Hu| | | |].
        * intros E. congruence.
        * intros g0 ws0 e0 _ N. now elim N.
        * intros g0 c0 e0 E. congruence.
        * intros g0 ch f0 E. congruence.
    - (* CAexitCk *)
      unfold resume in *. pose proof (incoming_ctl a u fo) as Ec.
      pose proof (treq_incoming a u fo) as Qi. pose proof (aw_incoming t [] [] a u fo Hu) as Wi.
      assert (Eti : tasks (fst (incoming a u fo)) t = tasks a t).
      { unfold incoming. cbn. unfold upd. destruct (Nat.eqb_spec t u); [congruence|reflexivity]. }
      assert (Efi : futs (fst (incoming a u fo)) = futs a) by reflexivity.
      assert (Eni : nscope (fst (incoming a u fo)) = nscope a) by reflexivity.
      assert (Egi : groups (fst (incoming a u fo)) = groups a) by reflexivity.
      destruct (incoming a u fo) as [s inc]. cbn [fst snd] in *. rewrite Ec, Ectl in *.
      assert (Ts : Tree s) by (apply (Tree_treq a); assumption).
      assert (Au : alloc_t a u).
      { destruct (alloc_t_dec a u) as [A|A]; [exact A|]. rewrite (c_unalloc _ Ca u A) in Ectl. discriminate. }
      assert (Ng : notg s sc).
      { destruct (c_ok _ Ca u Au) as [_ [_ [K3 _]]]. apply (scope_ok_treq a s sc Qi). apply K3. now rewrite Ectl. }
      assert (R1 : Run [u] s (fst (scope_exit s sc u inc))).
      { apply run_exit; [now apply run_refl|now left|]. intros Hok. now apply exit_side_pub. }
      pose proof (run_tree _ _ _ R1) as T1.
      pose proof (aw_exit t [] [] s sc u inc Hu) as Wx. pose proof (sfr_exit s sc u inc) as Fx.
      pose proof (scope_exit_groups s sc u inc) as Gx.
      destruct (scope_exit s sc u inc) as [s1 x]. cbn [fst] in *.
      assert (W1 : aw t [] [] a s1) by (apply (aw_trans t _ _ a s); assumption).
      assert (N1 : nscope s1 = nscope a) by (rewrite (sf_ns _ _ Fx); exact Eni).
      assert (G1 : Good t s1).
      { constructor; [now apply Tree_TreeL|apply (aw_k _ _ _ _ _ W1), (gd_k _ _ Ga)|apply (aw_run _ _ _ _ _ W1), Ga|].
        intros y Hy. destruct (tr_host_act _ T1 y Hy) as [w [E _]]. rewrite E. discriminate. }
      assert (Fr1 : s_active (scopes s1 (nscope a)) = false).
      { destruct (s_active (scopes s1 (nscope a))) eqn:E; [|reflexivity].
        pose proof (tr_act_alloc _ T1 _ E) as A. unfold alloc_s in A. lia. }
      assert (Ggs : g_scope (groups s1 g) = g_scope (groups a g)) by (now rewrite Gx, Egi).
      assert (HI1 : forall y, In y [nscope a] \/ In y [nscope a] -> s_active (scopes s1 y) = false)
        by (intros y [[<-|[]]|[<-|[]]]; exact Fr1).
      assert (HIa : forall y, In y [nscope a] \/ In y [nscope a] -> s_active (scopes a y) = false)
        by (intros y [[<-|[]]|[<-|[]]]; exact Hfresh).
      assert (Wof : forall m ex, nscope m = nscope a -> aw t [nscope a] [nscope a] m (fst (aexit_wait_or_finish m u g None ex))).
      { intros m ex Nm. apply aw_wof; [exact Hu|]. intros _. rewrite Nm. split; now left. }
      destruct x as [| |e].
      + apply (track_site' t c [nscope a] [nscope a] a s1 s1 0 false _ Ga Gb G1 W1); [right; apply aw_refl|now apply Wof|exact HI1|exact HIa].
      + destruct inc as [e|].
        * destruct (is_cancel e).
          -- apply (track_site' t c [nscope a] [nscope a] a s1 (scope_cancel s1 (g_scope (groups s1 g)) false)
                      (g_scope (groups s1 g)) false _ Ga Gb G1 W1); [now left| |exact HI1|exact HIa].
             apply Wof. rewrite (tq_nscope _ _ (treq_scope_cancel s1 _ false)). exact N1.
          -- pose proof (aw_aexit_raise t [] [] s1 u g e Hu) as K2. destruct (aexit_raise s1 u g e) as [s2 r]. cbn [fst] in K2.
             apply (track_site' t c [] [] a s1 s1 0 false _ Ga Gb G1 W1); [right; apply aw_refl| |intros y [[]|[]]|intros y [[]|[]]].
             apply (aw_trans t _ _ s1 s2); [exact K2|now apply aw_ret].
        * apply (track_site' t c [nscope a] [nscope a] a s1 s1 0 false _ Ga Gb G1 W1); [right; apply aw_refl|now apply Wof|exact HI1|exact HIa].
      + pose proof (aw_aexit_raise t [] [] s1 u g e Hu) as K2. destruct (aexit_raise s1 u g e) as [s2 r]. cbn [fst] in K2.
        apply (track_site' t c [] [] a s1 s1 0 false _ Ga Gb G1 W1); [right; apply aw_refl| |intros y [[]|[]]|intros y [[]|[]]].
        apply (aw_trans t _ _ s1 s2); [exact K2|now apply aw_ret].
    - (* CStartWait *)
      destruct (snd (incoming a u fo)) as [e|] eqn:Ei.
      + unfold resume in *. pose proof (incoming_ctl a u fo) as Ec.
        pose proof (treq_incoming a u fo) as Qi. pose proof (aw_incoming t [] [] a u fo Hu) as Wi.
        assert (Eti : tasks (fst (incoming a u fo)) t = tasks a t).
        { unfold incoming. cbn. unfold upd. destruct (Nat.eqb_spec t u); [congruence|reflexivity]. }
        assert (Efi : futs (fst (incoming a u fo)) = futs a) by reflexivity.
        assert (Eri : running (fst (incoming a u fo)) = Some u) by reflexivity.
        assert (Eni : nscope (fst (incoming a u fo)) = nscope a) by reflexivity.
        destruct (incoming a u fo) as [s inc]. cbn [fst snd] in *. subst inc. rewrite Ec, Ectl in *.
        set (x := k_hscope (tasks s child)) in *.
        set (m2 := if handle_pending s child then scope_cancel s x false else s).
        assert (N2 : nscope m2 = nscope a).
        { unfold m2. destruct (handle_pending s child); [rewrite (tq_nscope _ _ (treq_scope_cancel s x false))|]; exact Eni. }
        apply (track_site t c [nscope a] [nscope a] a s m2 x false _ Ga Gb Qi).
        * apply (aw_k _ _ _ _ _ Wi), (gd_k _ _ Ga).
        * rewrite Eri. congruence.
        * exact Eti.
        * exact Efi.
        * exact Wi.
        * unfold m2. destruct (handle_pending s child); [now left|right; split; [apply aw_refl|reflexivity]].
        * unfold m2. destruct (handle_pending s child).
          -- unfold new_scope. cbv zeta.
             set (s1 := scope_cancel s x false).
             assert (N1 : nscope s1 = nscope a) by (unfold s1; rewrite (tq_nscope _ _ (treq_scope_cancel s x false)); exact Eni).
             match goal with |- context [scope_enter ?mm ?cc u] => set (s3 := fst (scope_enter mm cc u)) end.
             assert (K3 : aw t [nscope a] [nscope a] s1 s3).
             { unfold s3. apply (aw_new_enter t _ _ s1 None true u Hu); rewrite N1; now left. }
             pose proof (aw_event_wait t [nscope a] [nscope a] s3 u (k_hevent (tasks s3 child)) Hu) as K4.
             destruct (event_wait s3 u (k_hevent (tasks s3 child))) as [s4 wf]. cbn [fst blocked] in *.
             apply (aw_trans t _ _ s1 (set_ctl s4 u (CStartJoin child (nscope s1) e wf))); [|apply aw_set_running; discriminate].
             apply (aw_trans t _ _ s1 s4); [eapply aw_trans; eauto|now apply aw_set_ctl].
          -- destruct (f_st (futs s f)); now apply aw_ret.
        * intros y [[<-|[]]|[<-|[]]]; rewrite (tq_active _ _ Qi); exact Hfresh.
      + apply (TR0 t c [] [] a _ Ga Gb); [|intros y [[]|[]]].
        apply aw_resume_gen; [exact Hu| | | |].
        * intros E. congruence.
        * intros g0 ws0 e0 E. congruence.
        * intros g0 c0 e0 E. congruence.
        * intros g0 ch f0 _ N. now elim N.
    - (* CStartJoin *)
      apply K0. unfold xe_ctl, xc_ctl. rewrite Ectl. cbn [app]. intros y [[]|[]].
  Qed.
End ResumeTR.

Section Window.
  Variables (t : tid) (f : fid) (c : sid).
  Notation LInv := (LInv t f c).

  (* from the light walk and the tracking to the invariant of the latency argument *)
  Lemma linv_next XE X a a' b :
    LInv a -> tasks a' = tasks a -> futs a' = futs a -> scopes a' = scopes a -> KInv a' ->
    (In (HWake t f) (ready a) -> In (HWake t f) (ready a')) ->
    aw t XE X a' b -> reach_ok b -> running a' <> Some t ->
    (eligG t a' -> trk t c a' -> ~ reqG t b -> trk t c b \/ Esc t b) ->
    (LInv b /\ (f_st (futs a f) <> FPend -> f_st (futs b f) <> FPend)) \/ Esc t b.
  Proof.
    intros L Et Ef Es K Keep W Rb Ra Tr.
    assert (Hw : k_waiter (tasks a' t) = Some f) by (rewrite Et; apply L).
    pose proof (proj1 (aw_t _ _ _ _ _ W K) f Hw) as By.
    pose proof (by_core _ _ _ _ By) as Ec. rewrite Et in Ec.
    assert (KeepF : f_st (futs a f) <> FPend -> f_st (futs b f) <> FPend).
    { intros Hn. rewrite (by_done _ _ _ _ By); rewrite Ef; exact Hn. }
    assert (Mk : (f_st (futs b f) = FPend /\ k_must (tasks b t) = false /\ trk t c b) \/
                 (f_st (futs b f) <> FPend /\ In (HWake t f) (ready b)) -> LInv b).
    { intros Hc. constructor.
      - exact Rb.
      - apply (aw_run _ _ _ _ _ W Ra).
      - rewrite (tcore_waiter _ _ Ec). apply L.
      - rewrite (tcore_started _ _ Ec). apply L.
      - rewrite (tcore_done _ _ Ec). apply L.
      - rewrite (tcore_ctl _ _ Ec). apply L.
      - exact Hc. }
    destruct (li_cases _ _ _ _ L) as [[Hp [Hm Tk]]|[Hn Hin]].
    - assert (Hp' : f_st (futs a' f) = FPend) by (rewrite Ef; exact Hp).
      assert (Hm' : k_must (tasks a' t) = false) by (rewrite Et; exact Hm).
      destruct (by_pend _ _ _ _ By Hp' (k_link _ K t f Hw Hp') Hw Hm') as [[P M]|[P I]].
      + assert (El : eligG t a').
        { unfold eligG. rewrite Et, Ef. rewrite (li_waiter _ _ _ _ L). repeat split; try apply L; assumption. }
        assert (Tk' : trk t c a').
        { destruct Tk as [[Hd [k [Hc V]]] [Cc Hh]]. unfold trk, reaches. rewrite Et, Es.
          split; [split; [exact Hd|exists k; split; [exact Hc|]]|now split].
          apply (vis_view a' a c k); [intros y; now rewrite Es|exact V]. }
        assert (Nr : ~ reqG t b).
        { unfold reqG. rewrite (tcore_waiter _ _ Ec), (li_waiter _ _ _ _ L). intros N. now apply N. }
        destruct (Tr El Tk' Nr) as [T|E]; [left|now right].
        split; [apply Mk; left; exact (conj P (conj M T))|exact KeepF].
      + left. split; [apply Mk; right; now split|exact KeepF].
    - left. split; [|exact KeepF]. apply Mk. right. split; [now apply KeepF|].
      apply (by_keep _ _ _ _ By). now apply Keep.
  Qed.
End Window.

Lemma remove_first_head a h r : ready a = h :: r -> remove_first h (ready a) = r.
Proof. intros E. rewrite E. cbn. now rewrite handle_eqb_refl. Qed.

Section Window2.
  Variables (t : tid) (f : fid) (c : sid).
  Notation LInv := (LInv t f c).
  Notation pend s := (f_st (futs s f) = FPend).

  (* the ops of a window: any act of somebody else ... *)
  Definition wact (s : st) (o : op) : Prop := other_act t o /\ op_ok s o = true.

  (* ... and the run of any callback at the head of the queue that does not resume t (every frame kind of the
     resumed task is covered: simple_ctl or new_frame is always true) *)
  Definition whead (s : st) (h : handle) : Prop :=
    op_ok s (ARun h) = true /\ h <> HWake t f /\
    match h with
    | HStep u | HWake u _ =>
        u <> t /\ (simple_ctl (k_ctl (tasks s u)) = true \/ new_frame (k_ctl (tasks s u)) = true)
    | _ => True
    end.

  Lemma LInv_good s : LInv s -> Good t s.
  Proof. intros L. apply good_reach; apply L. Qed.

  Lemma wstep_act a o :
    LInv a -> t < ntask a -> wact a o ->
    (LInv (fst (step a o)) /\ (~ pend a -> ~ pend (fst (step a o))) /\ rsh a (fst (step a o)) /\
     t < ntask (fst (step a o))) \/ Esc t (fst (step a o)).
  Proof.
    intros L At [Ho Hok]. pose proof (aw_step_act t a o Ho At) as W.
    assert (Rb : reach_ok (fst (step a o))) by (apply reach_ok_step; [apply L|exact Hok]).
    assert (Hrb : running (fst (step a o)) <> Some t) by (apply (aw_run _ _ _ _ _ W), L).
    destruct (linv_next t f c _ _ a a _ L eq_refl eq_refl eq_refl (gd_k _ _ (LInv_good a L)) (fun H => H) W Rb (li_run _ _ _ _ L))
      as [[L' Kp]|E]; [|left|now right].
    - apply step_TR; [apply L|apply L|exact At|exact Ho|now apply good_reach].
    - split; [exact L'|]. split; [exact Kp|]. split; [apply W|]. pose proof (aw_nt _ _ _ _ _ W). lia.
  Qed.

  Definition rshT (r : list handle) (b : st) : Prop :=
    exists P new, ready b = filter P r ++ new /\ forall x, nontimer x = true -> P x = true.

  Lemma wstep_head_byst a h r :
    LInv a -> t < ntask a -> ready a = h :: r -> bystander t f a h ->
    LInv (fst (step a (ARun h))) /\ (h = HDeliver c -> ~ pend (fst (step a (ARun h)))) /\
    (~ pend a -> ~ pend (fst (step a (ARun h)))) /\ rshT r (fst (step a (ARun h))) /\
    t < ntask (fst (step a (ARun h))).
  Proof.
    intros L At E B. rewrite <- (run_head_step a h r E).
    destruct (linv_step t f c a h r L E B) as [L' [Hd Keep]].
    split; [exact L'|]. split; [exact Hd|]. split; [exact Keep|]. split.
    - apply (rsh_run_head a h r E). destruct B as [_ [_ Hk]]. destruct h; try exact I; apply Hk.
    - rewrite (run_head_step a h r E).
      assert (Ho : other_head t h).
      { destruct B as [_ [_ Hk]]. destruct h; cbn; try exact I; try apply Hk. intros ->.
        destruct (reach_sinv a (li_reach _ _ _ _ L)) as [[_ C] _].
        assert (Hin : In (HTaskDone t) (ready a)) by (rewrite E; now left).
        destruct (c_td _ C t Hin) as [_ Ed]. pose proof (li_ctl _ _ _ _ L) as Hw. rewrite Ed in Hw. discriminate. }
      pose proof (aw_nt _ _ _ _ _ (aw_run_head t a h r E Ho)) as N. change (ntask (set_ready a r)) with (ntask a) in N. lia.
  Qed.

  Lemma wstep_head_new a h r u fo :
    LInv a -> t < ntask a -> ready a = h :: r ->
    (h = HStep u /\ fo = None \/ exists g, h = HWake u g /\ fo = Some g) ->
    u <> t -> new_frame (k_ctl (tasks a u)) = true -> op_ok a (ARun h) = true ->
    (LInv (fst (step a (ARun h))) /\ (h = HDeliver c -> ~ pend (fst (step a (ARun h)))) /\
     (~ pend a -> ~ pend (fst (step a (ARun h)))) /\ rshT r (fst (step a (ARun h))) /\
     t < ntask (fst (step a (ARun h)))) \/ Esc t (fst (step a (ARun h))).
  Proof.
    intros L At E Hh Hu Hf Hok.
    assert (Ho : other_head t h) by (destruct Hh as [[-> _]|[g [-> _]]]; exact Hu).
    pose proof (aw_run_head t a h r E Ho) as W.
    assert (Rb : reach_ok (fst (step a (ARun h)))) by (apply reach_ok_step; [apply L|exact Hok]).
    assert (Es : fst (step a (ARun h)) = fst (resume (set_ready a r) u fo)).
    { rewrite (step_run_head a h r E). destruct Hh as [[-> ->]|[g [-> ->]]]; reflexivity. }
    set (b := fst (step a (ARun h))) in *.
    set (a' := set_ready a r) in *.
    assert (Ga' : Good t a').
    { apply (Good_same t a a' (LInv_good a L)); try reflexivity; [apply L|]. intros y; now repeat split. }
    assert (Hne : h <> HWake t f) by (destruct Hh as [[-> _]|[g [-> _]]]; [discriminate|intros N; inversion N; congruence]).
    assert (Keep : In (HWake t f) (ready a) -> In (HWake t f) (ready a')).
    { rewrite E. intros [H|H]; [congruence|exact H]. }
    assert (Hrb : running b <> Some t) by (apply (aw_run _ _ _ _ _ W), L).
    assert (Gb : Good t b) by now apply good_reach.
    destruct (linv_next t f c _ _ a a' b L eq_refl eq_refl eq_refl (gd_k _ _ Ga') Keep W Rb (li_run _ _ _ _ L))
      as [[L' Kp]|Ex]; [|left|now right].
    - clearbody b. subst b.
      destruct (reach_sinv a (li_reach _ _ _ _ L)) as [[Ta Ca] _].
      assert (Ta' : Tree a') by (apply (Tree_treq a); [exact Ta|apply treq_set_ready]).
      assert (Ca' : Ctl a').
      { apply (Ctl_step0 [] a a' Ca); [|intros y []]. apply creq_creq0.
        apply creq_treq; [apply treq_set_ready|apply tcb_same_tasks; reflexivity|].
        unfold a'. rewrite <- (remove_first_head a h r E). apply rq_td_remove_first. }
      apply resume_TR; [exact Ta'|exact Ca'|intros Hc; apply (new_hscope_inactive a u (li_reach _ _ _ _ L) Hc)
                       |apply (fresh_inactive a (li_reach _ _ _ _ L))|exact Hu|exact Ga'|exact Gb|exact Hf].
    - split; [exact L'|]. split; [intros Eh; destruct Hh as [[-> _]|[g [-> _]]]; discriminate|]. split; [exact Kp|].
      split; [apply (aw_q _ _ _ _ _ W)|]. pose proof (aw_nt _ _ _ _ _ W) as N. change (ntask a') with (ntask a) in N. lia.
  Qed.

  Lemma wstep_head a h r :
    LInv a -> t < ntask a -> ready a = h :: r -> whead a h ->
    (LInv (fst (step a (ARun h))) /\ (h = HDeliver c -> ~ pend (fst (step a (ARun h)))) /\
     (~ pend a -> ~ pend (fst (step a (ARun h)))) /\ rshT r (fst (step a (ARun h))) /\
     t < ntask (fst (step a (ARun h)))) \/ Esc t (fst (step a (ARun h))).
  Proof.
    intros L At E [Hok [Hne Hk]].
    destruct h as [u|u g|x|u|g tm|x tm].
    - destruct Hk as [Hu [Hs|Hn]].
      + left. apply wstep_head_byst; auto. split; [exact Hok|]. split; [exact Hne|now split].
      + apply (wstep_head_new a (HStep u) r u None); auto.
    - destruct Hk as [Hu [Hs|Hn]].
      + left. apply wstep_head_byst; auto. split; [exact Hok|]. split; [exact Hne|now split].
      + apply (wstep_head_new a (HWake u g) r u (Some g)); auto. right. now exists g.
    - left. apply wstep_head_byst; auto. split; [exact Hok|]. split; [exact Hne|exact I].
    - left. apply wstep_head_byst; auto. split; [exact Hok|]. split; [exact Hne|exact I].
    - left. apply wstep_head_byst; auto. split; [exact Hok|]. split; [exact Hne|exact I].
    - left. apply wstep_head_byst; auto. split; [exact Hok|]. split; [exact Hne|exact I].
  Qed.
End Window2.

(* ---------------- FIFO cycles with interleaved activity ---------------- *)
Fixpoint trace (s : st) (ops : list op) : list (st * op) :=
  match ops with [] => [] | o :: r => (s, o) :: trace (fst (step s o)) r end.

Fixpoint states (s : st) (ops : list op) : list st :=
  match ops with [] => [s] | o :: r => s :: states (fst (step s o)) r end.

(* one event-loop iteration: exactly n callbacks are run, each one at the head of the queue at that moment
   (or the queue runs dry); API calls of tasks and environment ops happen in between *)
Inductive wcyc : nat -> st -> list op -> st -> Prop :=
| wc_nil s : wcyc 0 s [] s
| wc_head n s h q ops s' :
    ready s = h :: q -> wcyc n (fst (step s (ARun h))) ops s' -> wcyc (S n) s (ARun h :: ops) s'
| wc_act n s o ops s' :
    (forall h, o <> ARun h) -> wcyc n (fst (step s o)) ops s' -> wcyc n s (o :: ops) s'
| wc_dry n s : ready s = [] -> wcyc n s [] s.

Lemma trace_app s a b : trace s (a ++ b) = trace s a ++ trace (final step s a) b.
Proof. revert s. induction a as [|o a IH]; intros s; cbn; [reflexivity|]. now rewrite IH. Qed.

Lemma states_in_app s a b si : In si (states s a) \/ In si (states (final step s a) b) -> In si (states s (a ++ b)).
Proof.
  revert s. induction a as [|o a IH]; intros s H; cbn in *.
  - destruct H as [[->|[]]|H]; [|exact H]. destruct b; now left.
  - destruct H as [[->|H]|H]; [now left|right; apply IH; now left|right; apply IH; now right].
Qed.

Lemma wcyc_final n s ops s' : wcyc n s ops s' -> s' = final step s ops.
Proof. induction 1; cbn; auto. Qed.

Section Cycles.
  Variables (t : tid) (f : fid) (c : sid).
  Notation LInv := (LInv t f c).
  Notation pend s := (f_st (futs s f) = FPend).

  (* every op is a window op, until t's wake-up is run with its future done *)
  Fixpoint wok (s : st) (ops : list op) : Prop :=
    match ops with
    | [] => True
    | o :: r =>
        (o = ARun (HWake t f) /\ ~ pend s) \/
        ((wact t s o \/ exists h q, o = ARun h /\ ready s = h :: q /\ whead t f s h) /\ wok (fst (step s o)) r)
    end.

  Definition found (s : st) (ops : list op) : Prop :=
    exists si q, In (si, ARun (HWake t f)) (trace s ops) /\ LInv si /\ ~ pend si /\ ready si = HWake t f :: q.
  Definition escd (s : st) (ops : list op) : Prop := exists si, In si (states s ops) /\ Esc t si.

  Lemma found_cons s o r : found (fst (step s o)) r -> found s (o :: r).
  Proof. intros [si [q [H1 H2]]]. exists si, q. split; [now right|exact H2]. Qed.
  Lemma escd_cons s o r : escd (fst (step s o)) r -> escd s (o :: r).
  Proof. intros [si [H1 H2]]. exists si. split; [now right|exact H2]. Qed.
  Lemma escd_here s o r : Esc t (fst (step s o)) -> escd s (o :: r).
  Proof. intros H. exists (fst (step s o)). split; [right; destruct r; now left|exact H]. Qed.

  Lemma split_filter (P : handle -> bool) pre h0 post new :
    P h0 = true ->
    exists pre' post', filter P (pre ++ h0 :: post) ++ new = pre' ++ h0 :: post' /\ length pre' <= length pre.
  Proof.
    intros H. exists (filter P pre), (filter P post ++ new). rewrite filter_app. cbn [filter]. rewrite H.
    split; [now rewrite <- app_assoc|apply filter_len].
  Qed.

  Lemma wok_head_inv s h r :
    wok s (ARun h :: r) ->
    (h = HWake t f /\ ~ pend s) \/ ((exists q, ready s = h :: q /\ whead t f s h) /\ wok (fst (step s (ARun h))) r).
  Proof.
    cbn [wok]. intros [[E N]|[[[Ho _]|[h' [q [E [Er W]]]]] K]].
    - left. inversion E. now split.
    - destruct Ho.
    - right. inversion E; subst h'. split; [now exists q|exact K].
  Qed.

  Lemma wok_act_inv s o r :
    (forall h, o <> ARun h) -> wok s (o :: r) -> wact t s o /\ wok (fst (step s o)) r.
  Proof.
    intros Hn. cbn [wok]. intros [[E _]|[[W|[h [q [E _]]]] K]]; [now elim (Hn (HWake t f))|now split|now elim (Hn h)].
  Qed.

  (* the invariant survives a cycle, unless t is woken or escapes *)
  Lemma phase_keep n s ops s' : wcyc n s ops s' -> forall rest,
    wok s (ops ++ rest) -> LInv s -> t < ntask s ->
    found s ops \/ escd s ops \/ (LInv s' /\ t < ntask s' /\ (~ pend s -> ~ pend s') /\ wok s' rest).
  Proof.
    induction 1 as [s|n s h q ops s' E Hc IH|n s o ops s' Hn Hc IH|n s E]; intros rest Wk L At.
    - right; right. exact (conj L (conj At (conj (fun H => H) Wk))).
    - cbn [app] in Wk. destruct (wok_head_inv s h _ Wk) as [[-> Np]|[[q' [E' Wh]] Wk']].
      + left. exists s, q. split; [now left|exact (conj L (conj Np E))].
      + destruct (wstep_head t f c s h q L At E Wh) as [[L' [_ [Kp [_ At']]]]|Ex]; [|right; left; now apply escd_here].
        destruct (IH rest Wk' L' At') as [F|[X|[L2 [At2 [Kp2 W2]]]]];
          [left; now apply found_cons|right; left; now apply escd_cons|right; right].
        split; [exact L2|]. split; [exact At2|]. split; [intros Np; apply Kp2, Kp, Np|exact W2].
    - cbn [app] in Wk. destruct (wok_act_inv s o _ Hn Wk) as [Wa Wk'].
      destruct (wstep_act t f c s o L At Wa) as [[L' [Kp [_ At']]]|Ex]; [|right; left; now apply escd_here].
      destruct (IH rest Wk' L' At') as [F|[X|[L2 [At2 [Kp2 W2]]]]];
        [left; now apply found_cons|right; left; now apply escd_cons|right; right].
      split; [exact L2|]. split; [exact At2|]. split; [intros Np; apply Kp2, Kp, Np|exact W2].
    - right; right. exact (conj L (conj At (conj (fun H => H) Wk))).
  Qed.

  Lemma rshT_split r b pre h0 post :
    rshT r b -> r = pre ++ h0 :: post -> nontimer h0 = true ->
    exists pre' post', ready b = pre' ++ h0 :: post' /\ length pre' <= length pre.
  Proof.
    intros [P [new [E HP]]] -> Hn. rewrite E. apply split_filter. now apply HP.
  Qed.

  Lemma rsh_split a b pre h0 post :
    rsh a b -> ready a = pre ++ h0 :: post -> nontimer h0 = true ->
    exists pre' post', ready b = pre' ++ h0 :: post' /\ length pre' <= length pre.
  Proof.
    intros [P [new [E HP]]] Er Hn. rewrite E, Er. apply split_filter. now apply HP.
  Qed.

  (* once the future is done, t's wake-up (a queue position below the cycle's length) is run in this cycle *)
  Lemma phase_wake n s ops s' : wcyc n s ops s' -> forall rest pre post,
    wok s (ops ++ rest) -> LInv s -> t < ntask s -> ~ pend s ->
    ready s = pre ++ HWake t f :: post -> length pre < n ->
    found s ops \/ escd s ops.
  Proof.
    induction 1 as [s|n s h q ops s' E Hc IH|n s o ops s' Hn Hc IH|n s E]; intros rest pre post Wk L At Np Er Hl.
    - lia.
    - cbn [app] in Wk. destruct (wok_head_inv s h _ Wk) as [[-> _]|[[q' [E' Wh]] Wk']].
      + left. exists s, q. split; [now left|exact (conj L (conj Np E))].
      + destruct pre as [|h1 pre]; cbn [app] in Er; rewrite E in Er; inversion Er; subst.
        { destruct Wh as [_ [N _]]. now elim N. }
        destruct (wstep_head t f c s h1 _ L At E Wh) as [[L' [_ [Kp [Q At']]]]|Ex]; [|right; now apply escd_here].
        destruct (rshT_split _ _ pre (HWake t f) post Q eq_refl eq_refl) as [pre' [post' [Er' Hl']]].
        cbn [length] in Hl.
        destruct (IH rest pre' post' Wk' L' At' (Kp Np) Er' ltac:(lia)) as [F|X];
          [left; now apply found_cons|right; now apply escd_cons].
    - cbn [app] in Wk. destruct (wok_act_inv s o _ Hn Wk) as [Wa Wk'].
      destruct (wstep_act t f c s o L At Wa) as [[L' [Kp [Q At']]]|Ex]; [|right; now apply escd_here].
      destruct (rsh_split _ _ pre (HWake t f) post Q Er eq_refl) as [pre' [post' [Er' Hl']]].
      destruct (IH rest pre' post' Wk' L' At' (Kp Np) Er' ltac:(lia)) as [F|X];
        [left; now apply found_cons|right; now apply escd_cons].
    - rewrite E in Er. destruct pre; discriminate.
  Qed.

  (* the delivery callback of c (a queue position below the cycle's length) is run in this cycle: afterwards the
     future is done *)
  Lemma phase_deliver n s ops s' : wcyc n s ops s' -> forall rest pre post,
    wok s (ops ++ rest) -> LInv s -> t < ntask s ->
    ready s = pre ++ HDeliver c :: post -> length pre < n ->
    found s ops \/ escd s ops \/ (LInv s' /\ t < ntask s' /\ ~ pend s' /\ wok s' rest).
  Proof.
    induction 1 as [s|n s h q ops s' E Hc IH|n s o ops s' Hn Hc IH|n s E]; intros rest pre post Wk L At Er Hl.
    - lia.
    - cbn [app] in Wk. destruct (wok_head_inv s h _ Wk) as [[-> _]|[[q' [E' Wh]] Wk']].
      + left. exists s, q. split; [now left|]. split; [exact L|]. split; [|exact E].
        destruct (wok_head_inv s _ _ Wk) as [[_ Np]|[[q2 [_ [_ [N _]]]] _]]; [exact Np|now elim N].
      + destruct (wstep_head t f c s h q L At E Wh) as [[L' [Hd [Kp [Q At']]]]|Ex]; [|right; left; now apply escd_here].
        destruct pre as [|h1 pre]; cbn [app] in Er; rewrite E in Er; inversion Er; subst.
        * (* the delivery runs now *)
          destruct (phase_keep n _ ops s' Hc rest Wk' L' At') as [F|[X|[L2 [At2 [Kp2 W2]]]]];
            [left; now apply found_cons|right; left; now apply escd_cons|right; right].
          split; [exact L2|]. split; [exact At2|]. split; [apply Kp2, Hd; reflexivity|exact W2].
        * destruct (rshT_split _ _ pre (HDeliver c) post Q eq_refl eq_refl) as [pre' [post' [Er' Hl']]].
          cbn [length] in Hl.
          destruct (IH rest pre' post' Wk' L' At' Er' ltac:(lia)) as [F|[X|R]];
            [left; now apply found_cons|right; left; now apply escd_cons|right; right; exact R].
    - cbn [app] in Wk. destruct (wok_act_inv s o _ Hn Wk) as [Wa Wk'].
      destruct (wstep_act t f c s o L At Wa) as [[L' [Kp [Q At']]]|Ex]; [|right; left; now apply escd_here].
      destruct (rsh_split _ _ pre (HDeliver c) post Q Er eq_refl) as [pre' [post' [Er' Hl']]].
      destruct (IH rest pre' post' Wk' L' At' Er' ltac:(lia)) as [F|[X|R]];
        [left; now apply found_cons|right; left; now apply escd_cons|right; right; exact R].
    - rewrite E in Er. destruct pre; discriminate.
  Qed.
End Cycles.

(* C03 cancel_latency_any_activity.  Task t is suspended on the pending future f with no request recorded, has
   started, and reaches the cancelled hosted scope c, at a cycle boundary of a reachable state.  ops1 and ops2 are
   two consecutive event-loop iterations (wcyc: as many head-of-queue callback runs as the queue was long at the
   start of the iteration, with any number of other ops in between), and up to the moment t's wake-up is run
   every op is a window op (wok): ANY API call of ANY other task, scope.cancel() from a callback, time passing,
   a new root task, a native cancel of another task, or the run of the callback at the head of the queue unless it
   resumes t.  Then:
   t's wake-up is run within the two iterations and raises a cancellation - unless its future was completed with a
   result or an exception first - or at some moment of the window t was no longer effectively cancelled (somebody
   raised a shield between t and every cancelled scope). *)
Theorem cancel_latency_any_activity t f c s ops1 ops2 s1 s2 :
  reach_ok s -> running s <> Some t ->
  s_cancelled (scopes s c) = true -> s_host (scopes s c) <> None -> reaches s t c ->
  k_must (tasks s t) = false -> k_started (tasks s t) = true ->
  k_waiter (tasks s t) = Some f -> f_st (futs s f) = FPend -> wait_ctl (k_ctl (tasks s t)) = true ->
  wcyc (length (ready s)) s ops1 s1 -> wcyc (length (ready s1)) s1 ops2 s2 -> wok t f s (ops1 ++ ops2) ->
  (exists si, In (si, ARun (HWake t f)) (trace s (ops1 ++ ops2)) /\
     ((exists o, snd (step si (ARun (HWake t f))) = RExc (ECancel o)) \/
      (exists v, f_st (futs si f) = FRes v) \/ (exists e, f_st (futs si f) = FExc e))) \/
  (exists si, In si (states s (ops1 ++ ops2)) /\ eff_cancelled_from (nscope si) si (k_cur (tasks si t)) = false).
Proof.
  intros R Hr Cc Hh Rt Hm Hs Hw Hp Hctl C1 C2 Wk.
  assert (L : LInv t f c s).
  { constructor; try assumption; [apply Rt|]. left. split; [exact Hp|]. split; [exact Hm|]. exact (conj Rt (conj Cc Hh)). }
  assert (At : t < ntask s).
  { destruct Rt as [_ [x [Hc _]]]. pose proof (tr_cur_alloc _ (reach_tree s R) t x Hc) as A. apply A. }
  destruct (delivery_alive s c R Cc Hh (ex_intro _ t Rt)) as [_ Hin].
  destruct (in_split _ _ Hin) as [pre [post E]].
  assert (Hl : length pre < length (ready s)) by (rewrite E, app_length; cbn; lia).
  assert (Fin : forall a ops, found t f c a ops ->
            exists si, In (si, ARun (HWake t f)) (trace a ops) /\
              ((exists o, snd (step si (ARun (HWake t f))) = RExc (ECancel o)) \/
               (exists v, f_st (futs si f) = FRes v) \/ (exists e, f_st (futs si f) = FExc e))).
  { intros a ops [si [q [Hi [Li [Np Er]]]]]. exists si. split; [exact Hi|].
    apply (wake_result t f si q); [apply Li|apply Li|exact Er|exact Np]. }
  assert (Ex : forall a ops, escd t a ops ->
            exists si, In si (states a ops) /\ eff_cancelled_from (nscope si) si (k_cur (tasks si t)) = false).
  { intros a ops [si [Hi He]]. exists si. split; [exact Hi|now apply Esc_not_effectively_cancelled]. }
  pose proof (wcyc_final _ _ _ _ C1) as E1.
  destruct (phase_deliver t f c _ s ops1 s1 C1 ops2 pre post Wk L At E Hl) as [F|[X|[L1 [At1 [Np1 W1]]]]].
  - left. destruct (Fin _ _ F) as [si [Hi Hres]]. exists si. split; [|exact Hres].
    rewrite trace_app. apply in_or_app. now left.
  - right. destruct (Ex _ _ X) as [si [Hi He]]. exists si. split; [|exact He]. apply states_in_app. now left.
  - destruct (li_cases _ _ _ _ L1) as [[Hp1 _]|[_ Hin1]]; [contradiction|].
    destruct (in_split _ _ Hin1) as [pre1 [post1 Er1]].
    assert (Hl1 : length pre1 < length (ready s1)) by (rewrite Er1, app_length; cbn; lia).
    assert (W1' : wok t f s1 (ops2 ++ [])) by now rewrite app_nil_r.
    destruct (phase_wake t f c _ s1 ops2 s2 C2 [] pre1 post1 W1' L1 At1 Np1 Er1 Hl1) as [F|X].
    + left. destruct (Fin _ _ F) as [si [Hi Hres]]. exists si. split; [|exact Hres].
      rewrite trace_app, <- E1. apply in_or_app. now right.
    + right. destruct (Ex _ _ X) as [si [Hi He]]. exists si. split; [|exact He]. apply states_in_app. right. now rewrite <- E1.
Qed.


(* ---------------- non-vacuity: a task group with two sleeping children whose scope is cancelled ----------------
   Host 1 waits in TaskGroup.__aexit__ (frame CAexitWait); children 2 and 3 sleep.  Child 3 cancelled the group
   scope 1 itself before going to sleep (so the delivery that hit child 2 and the host skipped it: it was
   running) - it is the task t of the theorem, f = 11.
   Iteration 1: child 2 is woken with the cancellation; its program ends (AFinish, an API-level act of another
                task); the host is woken inside __aexit__ with the cancellation (shields its wait scope, waits
                again); the delivery callback of scope 1 cancels child 3's sleep.
   Iteration 2: the task-done callback of child 2; child 3's wake-up raises the cancellation. *)
Definition grp_pre : list op :=
  [ANewRoot; AGroupNew 1; AGroupEnter 1 1; ASpawn 1 1; ASpawn 1 1; ARun (HStep 2); ARun (HStep 3);
   ASleep 2 None; AGroupExit 1 1; ACancel 3 1; ASleep 3 None].
Definition grp_ops1 : list op := [ARun (HWake 2 8); AFinish 2 0; ARun (HWake 1 9); ARun (HDeliver 1)].
Definition grp_ops2 : list op := [ARun (HTaskDone 2); ARun (HWake 3 11); ARun (HDeliver 1)].

Ltac vcr := vm_compute; reflexivity.

Example grp_premises :
  let s := final step init grp_pre in
  reach_ok s /\ running s <> Some 3 /\ s_cancelled (scopes s 1) = true /\ s_host (scopes s 1) <> None /\
  reaches s 3 1 /\ k_must (tasks s 3) = false /\ k_started (tasks s 3) = true /\ k_waiter (tasks s 3) = Some 11 /\
  f_st (futs s 11) = FPend /\ wait_ctl (k_ctl (tasks s 3)) = true /\
  k_ctl (tasks s 1) = CAexitWait 1 4 None /\ k_ctl (tasks s 2) = CSleep 8 0 /\
  ready s = [HWake 2 8; HWake 1 9; HDeliver 1] /\
  wok 3 11 s (grp_ops1 ++ grp_ops2) /\
  exists s1 s2, wcyc (length (ready s)) s grp_ops1 s1 /\ wcyc (length (ready s1)) s1 grp_ops2 s2 /\
                ready s1 = [HTaskDone 2; HWake 3 11; HDeliver 1].
Proof.
  cbv zeta. set (s := final step init grp_pre).
  assert (R : reach_ok s) by (exists grp_pre; split; [vcr|reflexivity]).
  refine (conj R _). repeat (match goal with |- _ /\ _ => split end).
  - assert (E : running s = None) by vcr. rewrite E. discriminate.
  - vcr.
  - assert (E : s_host (scopes s 1) = Some 1) by vcr. rewrite E. discriminate.
  - split; [vcr|]. exists 3. split; [vcr|].
    eapply vis_up; [vcr|vcr|vcr|]. apply vis_here.
  - vcr.
  - vcr.
  - vcr.
  - vcr.
  - vcr.
  - vcr.
  - vcr.
  - vcr.
  - unfold grp_ops1, grp_ops2. cbn [app wok].
    right. split; [right; exists (HWake 2 8), [HWake 1 9; HDeliver 1]; split; [reflexivity|split; [vcr|]]|].
    { split; [vcr|]. split; [discriminate|]. cbv beta iota. split; [intros N; discriminate N|]. left. vcr. }
    right. split; [left; split; [cbn; intros N; discriminate N|vcr]|].
    right. split; [right; exists (HWake 1 9), [HDeliver 1; HTaskDone 2]; split; [reflexivity|split; [vcr|]]|].
    { split; [vcr|]. split; [discriminate|]. cbv beta iota. split; [intros N; discriminate N|]. right. vcr. }
    right. split; [right; exists (HDeliver 1), [HTaskDone 2]; split; [reflexivity|split; [vcr|]]|].
    { split; [vcr|]. split; [discriminate|exact I]. }
    right. split; [right; exists (HTaskDone 2), [HWake 3 11; HDeliver 1]; split; [reflexivity|split; [vcr|]]|].
    { split; [vcr|]. split; [discriminate|exact I]. }
    left. split; [reflexivity|]. vm_compute. discriminate.
  - eexists. eexists. split; [|split].
    + assert (E : length (ready s) = 3) by vcr. rewrite E. unfold grp_ops1.
      eapply wc_head; [vcr|]. apply wc_act; [intros h; discriminate|].
      eapply wc_head; [vcr|]. eapply wc_head; [vcr|]. apply wc_nil.
    + match goal with |- wcyc (length (ready ?x)) _ _ _ => assert (E : length (ready x) = 3) by vcr; rewrite E end.
      unfold grp_ops2. eapply wc_head; [vcr|]. eapply wc_head; [vcr|]. eapply wc_head; [vcr|]. apply wc_nil.
    + vcr.
Qed.

(* the theorem applied to it *)
Example grp_instance :
  let s := final step init grp_pre in
  (exists si, In (si, ARun (HWake 3 11)) (trace s (grp_ops1 ++ grp_ops2)) /\
     ((exists o, snd (step si (ARun (HWake 3 11))) = RExc (ECancel o)) \/
      (exists v, f_st (futs si 11) = FRes v) \/ (exists e, f_st (futs si 11) = FExc e))) \/
  (exists si, In si (states s (grp_ops1 ++ grp_ops2)) /\ eff_cancelled_from (nscope si) si (k_cur (tasks si 3)) = false).
Proof.
  cbv zeta. destruct grp_premises as (H1 & H2 & H3 & H4 & H5 & H6 & H7 & H8 & H9 & H10 & _ & _ & _ & H13 & s1 & s2 & H11 & H12 & _).
  exact (cancel_latency_any_activity 3 11 1 _ _ _ s1 s2 H1 H2 H3 H4 H5 H6 H7 H8 H9 H10 H11 H12 H13).
Qed.

(* ---------------- the window predicate without any mention of frames ---------------- *)
Lemma frame_cover k : simple_ctl k = true \/ new_frame k = true.
Proof. destruct k as [| |[| |x]| | | | | | |]; cbn; auto. Qed.

Section Final.
  Variables (t : tid) (f : fid).

  (* a window op: an act of somebody else, or the run of the callback at the head of the ready queue unless it
     resumes t (t's wake-up HWake t f ends the window, see wok0) *)
  Definition wop (s : st) (o : op) : Prop :=
    (other_act t o /\ op_ok s o = true) \/
    (exists h q, o = ARun h /\ ready s = h :: q /\ op_ok s o = true /\ h <> HWake t f /\
                 match h with HStep u | HWake u _ => u <> t | _ => True end).

  Fixpoint wok0 (s : st) (ops : list op) : Prop :=
    match ops with
    | [] => True
    | o :: r => (o = ARun (HWake t f) /\ f_st (futs s f) <> FPend) \/ (wop s o /\ wok0 (fst (step s o)) r)
    end.

  Lemma wok0_wok ops : forall s, wok0 s ops -> wok t f s ops.
  Proof.
    induction ops as [|o r IH]; intros s H; [exact I|]. cbn [wok0 wok] in *.
    destruct H as [H|[[W|[h [q [E [Er [Hok [Hne Hk]]]]]]] K]]; [now left| |]; right; (split; [|now apply IH]).
    - now left.
    - right. exists h, q. split; [exact E|]. split; [exact Er|]. subst o. split; [exact Hok|]. split; [exact Hne|].
      destruct h; try exact I; (split; [exact Hk|apply frame_cover]).
  Qed.
End Final.

(* C03 cancel_latency_any_activity, final form *)
Theorem cancel_latency_any_activity_full t f c s ops1 ops2 s1 s2 :
  reach_ok s -> running s <> Some t ->
  s_cancelled (scopes s c) = true -> s_host (scopes s c) <> None -> reaches s t c ->
  k_must (tasks s t) = false -> k_started (tasks s t) = true ->
  k_waiter (tasks s t) = Some f -> f_st (futs s f) = FPend -> wait_ctl (k_ctl (tasks s t)) = true ->
  wcyc (length (ready s)) s ops1 s1 -> wcyc (length (ready s1)) s1 ops2 s2 -> wok0 t f s (ops1 ++ ops2) ->
  (exists si, In (si, ARun (HWake t f)) (trace s (ops1 ++ ops2)) /\
     ((exists o, snd (step si (ARun (HWake t f))) = RExc (ECancel o)) \/
      (exists v, f_st (futs si f) = FRes v) \/ (exists e, f_st (futs si f) = FExc e))) \/
  (exists si, In si (states s (ops1 ++ ops2)) /\ eff_cancelled_from (nscope si) si (k_cur (tasks si t)) = false).
Proof.
  intros R Hr Cc Hh Rt Hm Hs Hw Hp Hctl C1 C2 Wk.
  apply (cancel_latency_any_activity t f c s ops1 ops2 s1 s2); auto. now apply wok0_wok.
Qed.

Example grp_wok0 : wok0 3 11 (final step init grp_pre) (grp_ops1 ++ grp_ops2).
Proof.
  set (s := final step init grp_pre). unfold grp_ops1, grp_ops2. cbn [app wok0].
  right. split; [right; exists (HWake 2 8), [HWake 1 9; HDeliver 1]; split; [reflexivity|split; [vcr|]]|].
  { split; [vcr|]. split; [discriminate|]. intros N; discriminate N. }
  right. split; [left; split; [cbn; intros N; discriminate N|vcr]|].
  right. split; [right; exists (HWake 1 9), [HDeliver 1; HTaskDone 2]; split; [reflexivity|split; [vcr|]]|].
  { split; [vcr|]. split; [discriminate|]. intros N; discriminate N. }
  right. split; [right; exists (HDeliver 1), [HTaskDone 2]; split; [reflexivity|split; [vcr|]]|].
  { split; [vcr|]. split; [discriminate|exact I]. }
  right. split; [right; exists (HTaskDone 2), [HWake 3 11; HDeliver 1]; split; [reflexivity|split; [vcr|]]|].
  { split; [vcr|]. split; [discriminate|exact I]. }
  left. split; [reflexivity|]. vm_compute. discriminate.
Qed.

(* ================= a task that has not started yet (C03 item 2, first part) ================= *)
Section NewTask.
  Variable t : tid.

  (* t was spawned and has not run yet: its first step is in the ready queue *)
  Record NInv (s : st) : Prop := {
    ni_reach : reach_ok s;
    ni_run : running s <> Some t;
    ni_alloc : t < ntask s;
    ni_ctl : k_ctl (tasks s t) = CNew;
    ni_started : k_started (tasks s t) = false;
    ni_waiter : k_waiter (tasks s t) = None;
    ni_done : k_done (tasks s t) = None;
    ni_step : In (HStep t) (ready s)
  }.

  (* window ops for a task without a wait: acts of others, or head runs that do not resume t *)
  Definition wopn (s : st) (o : op) : Prop :=
    (other_act t o /\ op_ok s o = true) \/
    (exists h q, o = ARun h /\ ready s = h :: q /\ op_ok s o = true /\ other_head t h).

  Lemma ninv_next XE X a a' b :
    NInv a -> tasks a' = tasks a -> ntask a' = ntask a -> KInv a' -> aw t XE X a' b -> reach_ok b ->
    running a' <> Some t -> (In (HStep t) (ready a) -> In (HStep t) (ready a')) ->
    NInv b /\ (k_must (tasks a t) = true -> k_must (tasks b t) = true).
  Proof.
    intros N Et En K W Rb Ra Keep.
    assert (Hw : k_waiter (tasks a' t) = None) by (rewrite Et; apply N).
    pose proof (proj2 (aw_t _ _ _ _ _ W K) Hw) as By. pose proof (bm_core _ _ _ By) as Ec. rewrite Et in Ec.
    split; [|intros Hm; apply (bm_must _ _ _ By); now rewrite Et].
    constructor.
    - exact Rb.
    - apply (aw_run _ _ _ _ _ W Ra).
    - pose proof (aw_nt _ _ _ _ _ W) as Nt. pose proof (ni_alloc _ N). lia.
    - rewrite (tcore_ctl _ _ Ec). apply N.
    - rewrite (tcore_started _ _ Ec). apply N.
    - rewrite (tcore_waiter _ _ Ec). apply N.
    - rewrite (tcore_done _ _ Ec). apply N.
    - apply (rsh_keep a' b); [apply W|apply Keep, N|reflexivity].
  Qed.

  Lemma nstep_act a o :
    NInv a -> other_act t o -> op_ok a o = true ->
    NInv (fst (step a o)) /\ (k_must (tasks a t) = true -> k_must (tasks (fst (step a o)) t) = true) /\
    rsh a (fst (step a o)).
  Proof.
    intros N Ho Hok. pose proof (aw_step_act t a o Ho (ni_alloc _ N)) as W.
    assert (K : KInv a) by (destruct (ni_reach _ N) as [ops [_ ->]]; apply reach_kinv).
    destruct (ninv_next _ _ a a _ N eq_refl eq_refl K W) as [N' M]; auto.
    - apply reach_ok_step; [apply N|exact Hok].
    - apply N.
    - split; [exact N'|]. split; [exact M|apply W].
  Qed.

  Lemma nstep_head a h r :
    NInv a -> ready a = h :: r -> other_head t h -> h <> HStep t -> op_ok a (ARun h) = true ->
    NInv (fst (step a (ARun h))) /\ (k_must (tasks a t) = true -> k_must (tasks (fst (step a (ARun h))) t) = true) /\
    rshT r (fst (step a (ARun h))).
  Proof.
    intros N E Ho Hne Hok. pose proof (aw_run_head t a h r E Ho) as W.
    assert (K : KInv (set_ready a r)).
    { apply (KInv_kq a); [destruct (ni_reach _ N) as [ops [_ ->]]; apply reach_kinv|apply kq_tasks_same; reflexivity]. }
    destruct (ninv_next _ _ a (set_ready a r) _ N eq_refl eq_refl K W) as [N' M]; auto.
    - apply reach_ok_step; [apply N|exact Hok].
    - apply N.
    - rewrite E. intros [H|H]; [congruence|exact H].
    - split; [exact N'|]. split; [exact M|apply (aw_q _ _ _ _ _ W)].
  Qed.

End NewTask.

(* ---------------- the running task is never touched by a delivery ---------------- *)
Lemma task_cancel_other s u o t : u <> t -> tasks (task_cancel s u o) t = tasks s t.
Proof.
  intros Hu. unfold task_cancel. destruct (k_done (tasks s u)); [reflexivity|].
  destruct (k_waiter (tasks s u)) as [f|].
  - destruct (fut_pending _ f).
    + rewrite fut_complete_tasks. cbn. unfold upd. destruct (Nat.eqb_spec t u); [congruence|reflexivity].
    + cbn. unfold upd. destruct (Nat.eqb_spec t u); [congruence|reflexivity].
  - cbn. unfold upd. destruct (Nat.eqb_spec t u); [congruence|reflexivity].
Qed.

Lemma deliver_top_running s c t : running s = Some t -> tasks (deliver_top s c) t = tasks s t.
Proof.
  intros Hr. unfold deliver_top.
  apply (deliver_inv (fun a => tasks a t = tasks s t /\ running a = Some t) c); [| | |now split].
  - intros self a r u [Ea Ra]. pose proof (kframe_deliver_task self c a r u) as K.
    split; [|now rewrite (kf_running _ _ K)].
    unfold deliver_task. destruct (k_done (tasks a u)); [exact Ea|]. destruct (k_must (tasks a u)); [exact Ea|].
    destruct (Nat.eq_dec u t) as [->|Hu].
    + rewrite Ra. cbn [opt_eqb]. rewrite Nat.eqb_refl. cbn [negb andb]. exact Ea.
    + destruct (_ && _); [|exact Ea].
      destruct (match k_waiter (tasks a u) with Some f => fut_pending a f | None => true end); [|exact Ea].
      cbn [fst]. set (a1 := task_cancel a u (S c)).
      assert (E1 : tasks a1 t = tasks a t) by now apply task_cancel_other.
      destruct (opt_eqb (s_host (scopes a1 c)) u); cbn [tasks upd_scope set_scopes]; now rewrite E1.
  - intros a x b [Ea Ra]. now split.
  - intros a h [Ea Ra]. now split.
Qed.

Lemma scope_cancel_running s c b t : running s = Some t -> tasks (scope_cancel s c b) t = tasks s t.
Proof.
  intros Hr. unfold scope_cancel. destruct (s_cancelled (scopes s c)); [reflexivity|].
  set (s2 := upd_scope (cancel_timeout s c) c _).
  assert (E2 : tasks s2 = tasks s /\ running s2 = running s).
  { unfold s2, cancel_timeout. destruct (s_timeout (scopes s c)); now split. }
  destruct E2 as [E2 R2]. destruct (s_host (scopes s2 c)); [|now rewrite E2].
  rewrite deliver_top_running; [now rewrite E2|now rewrite R2].
Qed.

Lemma scope_cancel_slot s c b : running (scope_cancel s c b) = running s.
Proof.
  unfold scope_cancel. destruct (s_cancelled (scopes s c)); [reflexivity|].
  set (s2 := upd_scope (cancel_timeout s c) c _).
  assert (R2 : running s2 = running s) by (unfold s2, cancel_timeout; destruct (s_timeout (scopes s c)); reflexivity).
  destruct (s_host (scopes s2 c)); [|exact R2]. now rewrite (kf_running _ _ (kframe_deliver_top s2 c)).
Qed.

Lemma scope_enter_own s c t :
  running s = Some t -> s_active (scopes s c) = false ->
  tasks (fst (scope_enter s c t)) t = tk_cur (Some c) (tasks s t).
Proof.
  intros Hr Ha. rewrite (scope_enter_eq s c t Ha).
  assert (R3 : running (enter_s3 s c t) = Some t) by (unfold enter_s3; destruct (k_cur (tasks s t)); exact Hr).
  assert (E5 : tasks (enter_s5 s c t) t = tk_cur (Some c) (tasks s t) /\ running (enter_s5 s c t) = Some t).
  { unfold enter_s5. cbn [tasks running upd_scope set_scopes]. unfold scope_timeout.
    destruct (s_deadline (scopes (enter_s3 s c t) c)).
    - destruct (Z.leb z (now (enter_s3 s c t))).
      + rewrite (scope_cancel_running _ c true t R3), enter_s3_task, Nat.eqb_refl. split; [reflexivity|].
        now rewrite scope_cancel_slot.
      + cbn. rewrite enter_s3_task, Nat.eqb_refl. now split.
    - rewrite enter_s3_task, Nat.eqb_refl. now split. }
  destruct E5 as [E5 R5]. destruct (s_cancelled _); [|exact E5]. now rewrite (deliver_top_running _ c t R5).
Qed.

Lemma park_fields s t : k_must (tasks s t) = false ->
  tasks (park s t) t = tk_ctl CIdle (tk_waiter (Some (nfut s)) (tasks s t)) /\
  f_st (futs (park s t) (nfut s)) = FPend.
Proof.
  intros Hm. set (s1 := fst (new_fut s)).
  assert (E : f_st (futs s1 (nfut s)) = FPend) by (unfold s1; cbn; unfold upd; now rewrite Nat.eqb_refl).
  assert (Es : suspend_on s1 t (nfut s) =
               upd_task (upd_fut s1 (nfut s) (fun x => mkFut (f_st x) (Some t))) t (tk_waiter (Some (nfut s)))).
  { unfold suspend_on. rewrite E. change (tasks s1 t) with (tasks s t). now rewrite Hm. }
  assert (Ep : park s t = upd_task (suspend_on s1 t (nfut s)) t (tk_ctl CIdle)) by reflexivity.
  rewrite Ep, Es. split.
  - cbn [tasks upd_task set_tasks upd_fut set_futs]. unfold upd. rewrite !Nat.eqb_refl. reflexivity.
  - cbn [futs upd_task set_tasks upd_fut set_futs]. unfold upd at 1. rewrite Nat.eqb_refl. cbn [f_st]. exact E.
Qed.

Section NewTask2.
  Variable t : tid.

  (* the first step of a task with no request recorded: it starts and parks at its first decision point, waiting
     on a fresh pending future; with a (native) request recorded it ends cancelled without running *)
  Lemma first_step a r :
    NInv t a -> ready a = HStep t :: r ->
    let b := fst (step a (ARun (HStep t))) in
    (k_must (tasks a t) = false ->
       k_started (tasks b t) = true /\ k_ctl (tasks b t) = CIdle /\ k_done (tasks b t) = None /\
       k_must (tasks b t) = false /\ running b = None /\
       exists fp, k_waiter (tasks b t) = Some fp /\ f_st (futs b fp) = FPend) /\
    (k_must (tasks a t) = true ->
       k_ctl (tasks b t) = CDone /\ exists e, k_done (tasks b t) = Some (OCanc (ECancel e))).
  Proof.
    intros N E. cbv zeta. rewrite (step_run_head a (HStep t) r E). set (a' := set_ready a r).
    unfold resume. pose proof (incoming_ctl a' t None) as Ec. pose proof (incoming_task a' t None t) as Et.
    rewrite Nat.eqb_refl in Et.
    assert (Ei : snd (incoming a' t None) = if k_must (tasks a t) then Some (ECancel (k_msg (tasks a t))) else None).
    { unfold incoming. cbn [snd]. change (tasks a' t) with (tasks a t). destruct (k_must (tasks a t)); reflexivity. }
    assert (Er : running (fst (incoming a' t None)) = Some t) by reflexivity.
    assert (Es : scopes (fst (incoming a' t None)) = scopes a) by reflexivity.
    destruct (incoming a' t None) as [s inc]. cbn [fst snd] in *. subst inc.
    rewrite Ec. change (tasks a' t) with (tasks a t) in *. rewrite (ni_ctl _ _ N).
    set (s1 := upd_task s t (tk_started true)).
    assert (E1 : tasks s1 t = tk_started true (tk_must false (k_msg (tasks a t)) (tk_waiter None (tasks a t)))).
    { unfold s1. cbn. unfold upd. rewrite Nat.eqb_refl. now rewrite Et. }
    split; intros Hm; rewrite Hm.
    - cbn [fst].
      set (s2 := match k_group (tasks s1 t) with Some _ => fst (scope_enter s1 (k_hscope (tasks s1 t)) t) | None => s1 end).
      assert (E2 : exists x, tasks s2 t = tk_cur x (tasks s1 t)).
      { unfold s2. destruct (k_group (tasks s1 t)) eqn:Eg; [|exists (k_cur (tasks s1 t)); now destruct (tasks s1 t)].
        exists (Some (k_hscope (tasks s1 t))). apply scope_enter_own; [exact Er|].
        change (scopes s1) with (scopes s). rewrite Es. rewrite E1. cbn [k_hscope tk_started tk_must tk_waiter].
        apply (new_hscope_inactive a t (ni_reach _ _ N) (ni_ctl _ _ N)). }
      destruct E2 as [x E2].
      assert (Hm2 : k_must (tasks s2 t) = false) by (rewrite E2, E1; reflexivity).
      destruct (park_fields s2 t Hm2) as [P1 P2].
      cbn [tasks running set_running futs]. rewrite P1, E2, E1. cbn.
      repeat split; try apply N. exists (nfut s2). split; [reflexivity|exact P2].
    - cbn [fst]. unfold finish_task. cbn [is_cancel].
      destruct (k_group (tasks s1 t)); cbn; unfold upd; rewrite !Nat.eqb_refl; cbn; (split; [reflexivity|eauto]).
  Qed.
End NewTask2.

Section NewTask3.
  Variable t : tid.

  (* every op is a window op until t's first step is run *)
  Fixpoint wokn (s : st) (ops : list op) : Prop :=
    match ops with
    | [] => True
    | o :: r => o = ARun (HStep t) \/ (wopn t s o /\ o <> ARun (HStep t) /\ wokn (fst (step s o)) r)
    end.

  (* the first step of t (a queue position below the iteration's length) is run in this iteration, whatever else
     happens; a request recorded before stays recorded *)
  Lemma phase_new n s ops s' : wcyc n s ops s' -> forall pre post,
    wokn s ops -> NInv t s -> ready s = pre ++ HStep t :: post -> length pre < n ->
    exists si q, In (si, ARun (HStep t)) (trace s ops) /\ NInv t si /\ ready si = HStep t :: q /\
                 (k_must (tasks s t) = true -> k_must (tasks si t) = true).
  Proof.
    induction 1 as [s|n s h q ops s' E Hc IH|n s o ops s' Hn Hc IH|n s E]; intros pre post Wk N Er Hl.
    - lia.
    - cbn [wokn] in Wk. destruct Wk as [Eo|[[[Ho _]|[h' [q' [Eo [Er' [Hok Hoh]]]]]] [Hne Wk']]].
      + inversion Eo; subst h. exists s, q. split; [now left|]. split; [exact N|]. split; [exact E|auto].
      + destruct Ho.
      + inversion Eo; subst h'. assert (Hh : h <> HStep t) by (intros ->; now apply Hne).
        destruct pre as [|h1 pre]; cbn [app] in Er; rewrite E in Er; inversion Er; subst; [now elim Hh|].
        destruct (nstep_head t s h1 _ N E Hoh Hh Hok) as [N' [M Q]].
        destruct Q as [P [new [Eq HP]]]. rewrite filter_app in Eq. cbn [filter] in Eq. rewrite (HP (HStep t) eq_refl) in Eq.
        rewrite <- app_assoc in Eq. cbn [app] in Eq.
        pose proof (filter_len P pre) as Fl. cbn [length] in Hl.
        destruct (IH (filter P pre) (filter P post ++ new) Wk' N' Eq ltac:(lia)) as [si [q2 [Hi [Ni [Eri Mi]]]]].
        exists si, q2. split; [now right|]. split; [exact Ni|]. split; [exact Eri|]. intros Hm. apply Mi, M, Hm.
    - cbn [wokn] in Wk. destruct Wk as [Eo|[[[Ho Hok]|[h' [q' [Eo _]]]] [Hne Wk']]]; [now elim (Hn (HStep t))| |now elim (Hn h')].
      destruct (nstep_act t s o N Ho Hok) as [N' [M [P [new [Eq HP]]]]].
      rewrite Er, filter_app in Eq. cbn [filter] in Eq. rewrite (HP (HStep t) eq_refl) in Eq.
      rewrite <- app_assoc in Eq. cbn [app] in Eq. pose proof (filter_len P pre) as Fl.
      destruct (IH (filter P pre) (filter P post ++ new) Wk' N' Eq ltac:(lia)) as [si [q2 [Hi [Ni [Eri Mi]]]]].
      exists si, q2. split; [now right|]. split; [exact Ni|]. split; [exact Eri|]. intros Hm. apply Mi, M, Hm.
    - rewrite E in Er. destruct pre; discriminate.
  Qed.
End NewTask3.

(* C03 new_task_cancelled, first part (proved).  A freshly spawned task t (frame CNew, its first step HStep t in the
   ready queue) at the boundary of an iteration.  Whatever the other tasks and the environment do (wokn: any act of
   others, any head-of-queue callback that does not resume t), t's first step is run within this iteration.  If a
   (native) request was recorded on it before, the step ends the task as cancelled without running its body;
   otherwise the task starts and is then parked at its first decision point on a fresh pending future with no
   request recorded - i.e. it satisfies the task-side premises of C03_cancel_latency_any_activity, which bounds the
   rest by two more iterations for whatever cancelled scope it reaches then (AnyIO deliveries skip a task that has
   not started, so the scope's delivery callback is still scheduled: C03_delivery_alive). *)
Theorem new_task_first_step t s ops s' :
  reach_ok s -> running s <> Some t -> k_ctl (tasks s t) = CNew -> k_started (tasks s t) = false ->
  k_waiter (tasks s t) = None -> k_done (tasks s t) = None -> In (HStep t) (ready s) -> t < ntask s ->
  wcyc (length (ready s)) s ops s' -> wokn t s ops ->
  exists si, In (si, ARun (HStep t)) (trace s ops) /\ reach_ok si /\
    let b := fst (step si (ARun (HStep t))) in
    (k_must (tasks s t) = true -> k_ctl (tasks b t) = CDone /\ exists e, k_done (tasks b t) = Some (OCanc (ECancel e))) /\
    (k_must (tasks si t) = false ->
       reach_ok b /\ running b <> Some t /\ k_started (tasks b t) = true /\ k_done (tasks b t) = None /\
       k_must (tasks b t) = false /\ wait_ctl (k_ctl (tasks b t)) = true /\
       exists fp, k_waiter (tasks b t) = Some fp /\ f_st (futs b fp) = FPend).
Proof.
  intros R Hr Hc Hs Hw Hd Hin At C Wk.
  assert (N : NInv t s) by (constructor; assumption).
  destruct (in_split _ _ Hin) as [pre [post E]].
  assert (Hl : length pre < length (ready s)) by (rewrite E, app_length; cbn; lia).
  destruct (phase_new t _ s ops s' C pre post Wk N E Hl) as [si [q [Hi [Ni [Eri Mi]]]]].
  exists si. split; [exact Hi|]. split; [apply Ni|]. cbv zeta.
  destruct (first_step t si q Ni Eri) as [F0 F1]. split.
  - intros Hm. apply F1, Mi, Hm.
  - intros Hm. destruct (F0 Hm) as [A1 [A2 [A3 [A4 [A5 [fp [A6 A7]]]]]]].
    split; [apply reach_ok_step; [apply Ni|reflexivity]|]. split; [rewrite A5; discriminate|].
    split; [exact A1|]. split; [exact A3|]. split; [exact A4|]. split; [now rewrite A2|]. now exists fp.
Qed.

(* an earlier formulation of the full statement (superseded by new_task_cancelled below, which is proved): three
   iterations in which every op that does not resume t is a window op; then t has been resumed with a cancellation,
   or is done, or was at some moment not effectively cancelled.  What is missing: carrying "t reaches some
   cancelled hosted scope" through the ops before its first step (an unstarted task is skipped by deliveries, so
   the reached scope may change without a request being recorded) and through its own first step (which enters
   the handle scope), after which C03_cancel_latency_any_activity applies. *)
Definition resumes (t : tid) (h : handle) : Prop := h = HStep t \/ exists g, h = HWake t g.

Fixpoint wokt (t : tid) (s : st) (ops : list op) : Prop :=
  match ops with
  | [] => True
  | o :: r => ((exists h, o = ARun h /\ resumes t h) \/ wopn t s o) /\ wokt t (fst (step s o)) r
  end.

Definition new_task_cancelled_stmt : Prop :=
  forall t c s ops1 ops2 ops3 s1 s2 s3,
    reach_ok s -> running s <> Some t -> k_ctl (tasks s t) = CNew -> k_started (tasks s t) = false ->
    k_waiter (tasks s t) = None -> k_done (tasks s t) = None -> In (HStep t) (ready s) ->
    s_cancelled (scopes s c) = true -> s_host (scopes s c) <> None -> reaches s t c ->
    wcyc (length (ready s)) s ops1 s1 -> wcyc (length (ready s1)) s1 ops2 s2 -> wcyc (length (ready s2)) s2 ops3 s3 ->
    wokt t s (ops1 ++ ops2 ++ ops3) ->
    (exists si h o, In (si, ARun h) (trace s (ops1 ++ ops2 ++ ops3)) /\ resumes t h /\
                    snd (step si (ARun h)) = RExc (ECancel o)) \/
    (exists si, In si (states s (ops1 ++ ops2 ++ ops3)) /\ k_done (tasks si t) <> None) \/
    (exists si, In si (states s (ops1 ++ ops2 ++ ops3)) /\
                eff_cancelled_from (nscope si) si (k_cur (tasks si t)) = false).

(* non-vacuity of new_task_first_step: a child spawned into a task group whose scope is already cancelled; the
   delivery callback runs first and skips the unstarted child, then the child's first step *)
Definition nt_pre : list op := [ANewRoot; AGroupNew 1; AGroupEnter 1 1; ACancel 1 1; ASpawn 1 1].
Definition nt_ops : list op := [ARun (HDeliver 1); ARun (HStep 2)].

Example nt_premises :
  let s := final step init nt_pre in
  reach_ok s /\ running s <> Some 2 /\ k_ctl (tasks s 2) = CNew /\ k_started (tasks s 2) = false /\
  k_waiter (tasks s 2) = None /\ k_done (tasks s 2) = None /\ In (HStep 2) (ready s) /\ 2 < ntask s /\
  s_cancelled (scopes s 1) = true /\ reaches s 2 1 /\ k_must (tasks s 2) = false /\
  wokn 2 s nt_ops /\ exists s', wcyc (length (ready s)) s nt_ops s'.
Proof.
  cbv zeta. set (s := final step init nt_pre).
  assert (R : reach_ok s) by (exists nt_pre; split; [vcr|reflexivity]).
  refine (conj R _). repeat (match goal with |- _ /\ _ => split end).
  - assert (E : running s = None) by vcr. rewrite E. discriminate.
  - vcr.
  - vcr.
  - vcr.
  - vcr.
  - assert (E : ready s = [HDeliver 1; HStep 2]) by vcr. rewrite E. right. now left.
  - assert (E : ntask s = 3) by vcr. rewrite E. lia.
  - vcr.
  - split; [vcr|]. exists 1. split; [vcr|apply vis_here].
  - vcr.
  - unfold nt_ops. cbn [wokn]. right. split; [|split; [discriminate|now left]].
    right. exists (HDeliver 1), [HStep 2]. split; [reflexivity|]. split; [vcr|]. split; [vcr|exact I].
  - eexists. assert (E : length (ready s) = 2) by vcr. rewrite E. unfold nt_ops.
    eapply wc_head; [vcr|]. eapply wc_head; [vcr|]. apply wc_nil.
Qed.

(* ================= new_task_cancelled: the three-iteration bound ================= *)
Section TrackN.
  Variable t : tid.

  (* a task that takes no requests yet (not started): the walk to a cancelled scope survives any op of the others,
     possibly ending at a nearer scope that was cancelled meanwhile, unless a shield is raised *)
  Lemma trackN XE X a b c :
    Good t a -> Good t b -> aw t XE X a b ->
    (forall y, In y XE -> s_active (scopes a y) = false \/ s_parent (scopes b y) = s_parent (scopes a y)) ->
    trk t c a -> (exists c', trk t c' b) \/ Esc t b.
  Proof.
    intros Ga Gb W HE [[Hd [k [Hc V]]] [Cc Hh]].
    pose proof (tframe_core t a b (aw_t _ _ _ _ _ W (gd_k _ _ Ga))) as E.
    pose proof (gd_tl _ _ Ga) as Ta. pose proof (gd_tl _ _ Gb) as Tb.
    assert (Ak : s_active (scopes a k) = true) by apply (tl_cur_act _ Ta t k Hc).
    assert (Hcb : k_cur (tasks b t) = Some k) by (rewrite (tcore_cur _ _ E); exact Hc).
    assert (Hdb : k_done (tasks b t) = None) by (rewrite (tcore_done _ _ E); exact Hd).
    assert (Wk : forall y, vis a y k -> s_active (scopes a y) = true /\ y < nscope a).
    { intros y Hy. pose proof (walk_active a k y Ta Ak Hy) as Ay. split; [exact Ay|now apply active_lt]. }
    assert (Mk : forall y, vis b y k -> s_cancelled (scopes b y) = true -> trk t y b).
    { intros y Vy Cy. split; [split; [exact Hdb|exists k; now split]|]. split; [exact Cy|].
      apply (gd_host _ _ Gb). apply (walk_active b k y Tb); [apply (tl_cur_act _ Tb t k Hcb)|exact Vy]. }
    destruct (scan a b c k V) as [S1|[[y [A [B [C D]]]]|[y [B [C D]]]]].
    - intros y Hy. destruct (Wk y Hy) as [Ay Ly].
      destruct (in_dec Nat.eq_dec y XE) as [Hin|Hn]; [|now apply (aw_par _ _ _ _ _ W y Ly)].
      destruct (HE y Hin) as [E0|E0]; [congruence|exact E0].
    - left. exists c. apply Mk; [exact S1|]. destruct (Wk c V) as [_ Lc]. now apply (aw_mono _ _ _ _ _ W c Lc).
    - left. exists y. now apply Mk.
    - right. exists k, y. now repeat split.
  Qed.

  (* the entered scopes of an op are inactive, or (degenerate enters) nothing happened to them *)
  Lemma xe_act_ok a u o :
    reach_ok a -> u <> t -> actor o = Some u ->
    forall y, In y (xe a o) ->
      s_active (scopes a y) = false \/ s_parent (scopes (fst (puppet_op a u o)) y) = s_parent (scopes a y).
  Proof.
    intros R Hu Ea y Hy. pose proof (fresh_inactive a R) as Fr.
    destruct o; cbn [xe] in Hy; try (destruct Hy; fail).
    - (* AEnter *) destruct Hy as [<-|[]]. destruct (s_active (scopes a c)) eqn:Ec; [right|now left].
      unfold puppet_op. rewrite (scope_enter_fail (begin_act a u) c u); [|exact Ec].
      now rewrite (proj1 (ss_ret (begin_act a u) u _)).
    - (* AGroupEnter *) destruct Hy as [<-|[]]. unfold puppet_op. set (s := begin_act a u).
      destruct (g_entered (groups s g)); [right; now rewrite (proj1 (ss_ret s u _))|].
      set (s1 := upd_group s g (gr_entered true)).
      assert (Eg : g_scope (groups s1 g) = g_scope (groups a g)) by (unfold s1; cbn; unfold upd; now rewrite Nat.eqb_refl).
      destruct (s_active (scopes a (g_scope (groups a g)))) eqn:Ec; [right|now left].
      rewrite (scope_enter_fail s1 _ u); [|rewrite Eg; exact Ec]. now rewrite (proj1 (ss_ret s1 u _)).
    - destruct Hy as [<-|[]]. now left.
    - destruct Hy as [<-|[]]. now left.
    - destruct Hy as [<-|[]]. now left.
    - discriminate.
  Qed.
End TrackN.

(* ---------------- entering a scope changes the walk view of that scope only ---------------- *)
Lemma scope_cancel_view3 s c b y : y <> c -> view3 (scopes (scope_cancel s c b) y) = view3 (scopes s y).
Proof.
  intros Hy. unfold scope_cancel. destruct (s_cancelled (scopes s c)); [reflexivity|].
  set (s2 := upd_scope (cancel_timeout s c) c _).
  assert (E2 : view3 (scopes s2 y) = view3 (scopes s y)).
  { unfold s2. cbn [scopes upd_scope set_scopes]. unfold upd. destruct (Nat.eqb_spec y c); [contradiction|].
    pose proof (dq_scope _ _ (dq_cancel_timeout s c) y) as E. unfold view3.
    now rewrite (vw_parent _ _ E), (vw_shield _ _ E), (vw_cancelled _ _ E). }
  destruct (s_host (scopes s2 c)); [|exact E2]. rewrite <- E2. apply view3_core.
  apply (kf_scopes _ _ (kframe_deliver_top s2 c) y).
Qed.

Lemma scope_timeout_view3 s c y : y <> c -> view3 (scopes (scope_timeout s c) y) = view3 (scopes s y).
Proof.
  intros Hy. unfold scope_timeout. destruct (s_deadline (scopes s c)); [|reflexivity].
  destruct (Z.leb z (now s)); [now apply scope_cancel_view3|].
  cbn. unfold upd. destruct (Nat.eqb_spec y c); [contradiction|reflexivity].
Qed.

Lemma enter_view3 s c u y : y <> c -> view3 (scopes (fst (scope_enter s c u)) y) = view3 (scopes s y).
Proof.
  intros Hy. destruct (s_active (scopes s c)) eqn:Ea; [now rewrite (scope_enter_fail s c u Ea)|].
  rewrite (scope_enter_eq s c u Ea).
  assert (E3 : view3 (scopes (enter_s3 s c u) y) = view3 (scopes s y)).
  { unfold enter_s3. destruct (k_cur (tasks s u)) as [p|]; cbn; unfold upd.
    - destruct (Nat.eqb_spec y p) as [->|Hp]; [|destruct (Nat.eqb_spec y c); [contradiction|reflexivity]].
      destruct (Nat.eqb_spec p c); [contradiction|reflexivity].
    - destruct (Nat.eqb_spec y c); [contradiction|reflexivity]. }
  assert (E5 : view3 (scopes (enter_s5 s c u) y) = view3 (scopes s y)).
  { unfold enter_s5. cbn [scopes upd_scope set_scopes]. unfold upd. destruct (Nat.eqb_spec y c); [contradiction|].
    now rewrite scope_timeout_view3. }
  destruct (s_cancelled (scopes (enter_s5 s c u) c)); [|exact E5]. rewrite <- E5. apply view3_core.
  apply (kf_scopes _ _ (kframe_deliver_top (enter_s5 s c u) c) y).
Qed.

Lemma enter_parent s c u : s_active (scopes s c) = false ->
  s_parent (scopes (fst (scope_enter s c u)) c) = k_cur (tasks s u).
Proof.
  intros Ea. rewrite (scope_enter_eq s c u Ea).
  assert (E3 : s_parent (scopes (enter_s3 s c u) c) = k_cur (tasks s u)).
  { unfold enter_s3. destruct (k_cur (tasks s u)) as [p|] eqn:Ep; cbn; unfold upd; rewrite ?Nat.eqb_refl.
    - destruct (Nat.eqb_spec c p); [subst; cbn; now rewrite Nat.eqb_refl|reflexivity].
    - reflexivity. }
  assert (E5 : s_parent (scopes (enter_s5 s c u) c) = k_cur (tasks s u)).
  { unfold enter_s5. cbn [scopes upd_scope set_scopes]. unfold upd. rewrite Nat.eqb_refl. cbn [s_parent sc_active].
    rewrite (tq_parent _ _ (treq_scope_timeout (enter_s3 s c u) c)). exact E3. }
  destruct (s_cancelled (scopes (enter_s5 s c u) c)); [|exact E5].
  now rewrite (core_parent _ _ (kf_scopes _ _ (kframe_deliver_top (enter_s5 s c u) c) c)).
Qed.

Section NewTask4.
  Variable t : tid.
  Definition trkE (s : st) : Prop := exists c, trk t c s.

  Lemma nstep_act_trk a o :
    NInv t a -> trkE a -> other_act t o -> op_ok a o = true ->
    (trkE (fst (step a o))) \/ Esc t (fst (step a o)).
  Proof.
    intros N [c Tk] Ho Hok. pose proof (aw_step_act t a o Ho (ni_alloc _ _ N)) as W.
    pose proof (good_reach t a (ni_reach _ _ N) (ni_run _ _ N)) as Ga.
    assert (Gb : Good t (fst (step a o))).
    { apply good_reach; [apply reach_ok_step; [apply N|exact Hok]|apply (aw_run _ _ _ _ _ W), N]. }
    apply (trackN t _ _ a _ c Ga Gb W); [|exact Tk].
    intros y Hy. unfold step. destruct (actor o) as [u|] eqn:Ea.
    - assert (Hu : u <> t).
      { destruct o; cbn [other_act actor] in *; try discriminate; inversion Ea; subst; intros ->; now apply Ho. }
      destruct (negb (idle a u)); [now right|].
      destruct o; cbn [actor] in Ea; try discriminate; inversion Ea; subst.
      all: try (match goal with |- context [puppet_op _ _ ?oo] => apply (xe_act_ok t a u oo (ni_reach _ _ N) Hu eq_refl y Hy) end).
      all: cbn [xe] in Hy; destruct Hy.
    - destruct o; cbn [actor] in Ea; try discriminate; cbn [xe] in Hy; try (destruct Hy; fail). destruct Ho.
  Qed.

  Lemma nstep_head_trk a h r :
    NInv t a -> trkE a -> ready a = h :: r -> other_head t h -> op_ok a (ARun h) = true ->
    (trkE (fst (step a (ARun h)))) \/ Esc t (fst (step a (ARun h))).
  Proof.
    intros N [c Tk] E Ho Hok. pose proof (aw_run_head t a h r E Ho) as W.
    pose proof (good_reach t a (ni_reach _ _ N) (ni_run _ _ N)) as Ga.
    assert (Ga' : Good t (set_ready a r)).
    { apply (Good_same t a _ Ga); try reflexivity; [apply N|]. intros y; now repeat split. }
    assert (Gb : Good t (fst (step a (ARun h)))).
    { apply good_reach; [apply reach_ok_step; [apply N|exact Hok]|apply (aw_run _ _ _ _ _ W), N]. }
    apply (trackN t _ _ (set_ready a r) _ c Ga' Gb W); [|apply (trk_view t c a); auto].
    intros y Hy. left. change (scopes (set_ready a r) y) with (scopes a y).
    destruct h as [u|u g|x|u|g tm|x tm]; cbn [xe] in Hy; try (destruct Hy; fail);
      unfold xe_ctl in Hy; destruct (k_ctl (tasks a u)) eqn:Ec; try (destruct Hy; fail); destruct Hy as [<-|[]];
      first [apply (fresh_inactive a (ni_reach _ _ N))|apply (new_hscope_inactive a u (ni_reach _ _ N) Ec)].
  Qed.

  Lemma vis_transfer a b c k : vis a c k ->
    (forall y, vis a y k -> y <> c -> view3 (scopes b y) = view3 (scopes a y)) -> vis b c k.
  Proof.
    intros V. induction V as [|x p E1 E2 E3 V IH]; intros H; [apply vis_here|].
    destruct (Nat.eq_dec x c) as [->|Hx]; [apply vis_here|].
    pose proof (H x (vis_here a x) Hx) as E. unfold view3 in E. injection E as P1 P2 P3.
    apply (vis_up b c x p); [rewrite P2; exact E1|rewrite P3; exact E2|rewrite P1; exact E3|].
    apply IH. intros y Hy Hn. apply H; [eapply vis_up; eauto|exact Hn].
  Qed.

  (* t's own first step keeps it under a cancelled scope (possibly its own handle scope), unless the handle scope
     is shielded *)
  Lemma first_step_trk a r :
    NInv t a -> ready a = HStep t :: r -> k_must (tasks a t) = false -> trkE a ->
    trkE (fst (step a (ARun (HStep t)))) \/ Esc t (fst (step a (ARun (HStep t)))).
  Proof.
    intros N E Hm [c [[Hd [k [Hc V]]] [Cc Hh]]].
    pose proof (ni_reach _ _ N) as R.
    assert (Rb : reach_ok (fst (step a (ARun (HStep t))))) by (apply reach_ok_step; [exact R|reflexivity]).
    destruct (first_step t a r N E) as [F0 _]. destruct (F0 Hm) as [A1 [A2 [A3 [A4 [A5 _]]]]].
    assert (Gb : Good t (fst (step a (ARun (HStep t))))) by (apply good_reach; [exact Rb|rewrite A5; discriminate]).
    revert A3 Gb. rewrite (step_run_head a (HStep t) r E). set (a' := set_ready a r).
    unfold resume. pose proof (incoming_ctl a' t None) as Ec. pose proof (incoming_task a' t None t) as Et.
    rewrite Nat.eqb_refl in Et.
    assert (Ei : snd (incoming a' t None) = None).
    { unfold incoming. cbn [snd]. change (tasks a' t) with (tasks a t). now rewrite Hm. }
    assert (Er : running (fst (incoming a' t None)) = Some t) by reflexivity.
    assert (Es : scopes (fst (incoming a' t None)) = scopes a) by reflexivity.
    destruct (incoming a' t None) as [s inc]. cbn [fst snd] in *. subst inc.
    rewrite Ec. change (tasks a' t) with (tasks a t) in *. rewrite (ni_ctl _ _ N). cbn [fst].
    set (s1 := upd_task s t (tk_started true)).
    assert (E1 : tasks s1 t = tk_started true (tk_must false (k_msg (tasks a t)) (tk_waiter None (tasks a t)))).
    { unfold s1. cbn. unfold upd. rewrite Nat.eqb_refl. now rewrite Et. }
    destruct (reach_sinv a R) as [[T C] _].
    assert (A : alloc_t a t).
    { destruct (alloc_t_dec a t) as [A|A]; [exact A|]. pose proof (ni_ctl _ _ N) as X.
      rewrite (c_unalloc _ C t A) in X. discriminate. }
    destruct (c_ok _ C t A) as [K1 _]. destruct (K1 (ni_ctl _ _ N)) as [_ [Hg _]].
    assert (Eg : k_group (tasks s1 t) = k_group (tasks a t)) by (rewrite E1; reflexivity).
    assert (Ehs : k_hscope (tasks s1 t) = k_hscope (tasks a t)) by (rewrite E1; reflexivity).
    rewrite Eg. destruct (k_group (tasks a t)) as [g|] eqn:Egg; [|now elim Hg].
    set (hs := k_hscope (tasks s1 t)) in *.
    assert (Ha : s_active (scopes s1 hs) = false).
    { change (scopes s1) with (scopes s). rewrite Es. rewrite Ehs.
      apply (new_hscope_inactive a t R (ni_ctl _ _ N)). }
    set (s2 := fst (scope_enter s1 hs t)).
    intros A3 Gb.
    assert (Esc2 : forall y, scopes (set_running (park s2 t) None) y = scopes s2 y).
    { intros y. cbn [scopes set_running]. now rewrite (proj1 (ss_park s2 t)). }
    set (b := set_running (park s2 t) None) in *.
    assert (Hcb : k_cur (tasks b t) = Some hs).
    { unfold b. cbn [tasks set_running]. destruct (park_fields s2 t) as [P1 _].
      - unfold s2. rewrite (scope_enter_own s1 hs t Er Ha), E1. reflexivity.
      - rewrite P1. cbn. unfold s2. rewrite (scope_enter_own s1 hs t Er Ha). reflexivity. }
    assert (Hk1 : k_cur (tasks s1 t) = Some k) by (rewrite E1; cbn; exact Hc).
    assert (Ep : s_parent (scopes b hs) = Some k).
    { rewrite Esc2. unfold s2. rewrite (enter_parent s1 hs t Ha). exact Hk1. }
    assert (Ev : forall y, y <> hs -> view3 (scopes b y) = view3 (scopes a y)).
    { intros y Hy. rewrite Esc2. unfold s2. rewrite (enter_view3 s1 hs t y Hy). change (scopes s1 y) with (scopes s y).
      now rewrite Es. }
    pose proof (gd_tl _ _ Gb) as Tb.
    assert (Ahs : s_active (scopes b hs) = true) by apply (tl_cur_act _ Tb t hs Hcb).
    assert (Mk : forall y, vis b y hs -> s_cancelled (scopes b y) = true -> trk t y b).
    { intros y Vy Cy. split; [split; [exact A3|exists hs; now split]|]. split; [exact Cy|].
      apply (gd_host _ _ Gb). now apply (walk_active b hs y Tb). }
    destruct (s_cancelled (scopes b hs)) eqn:Chs; [left; exists hs; apply Mk; [apply vis_here|exact Chs]|].
    destruct (s_shield (scopes b hs)) eqn:Shs; [right; exists hs, hs; repeat split; auto; apply vis_here|].
    left. exists c. apply Mk.
    - eapply vis_up; [exact Shs|exact Chs|exact Ep|]. apply (vis_transfer a b c k V).
      intros y Vy _. apply Ev. intros ->.
      pose proof (walk_active a k hs (Tree_TreeL _ T) (tr_cur_act _ T t k Hc) Vy) as X.
      change (scopes s1) with (scopes s) in Ha. rewrite Es in Ha. congruence.
    - assert (Hch : c <> hs).
      { intros ->. pose proof (walk_active a k hs (Tree_TreeL _ T) (tr_cur_act _ T t k Hc) V) as X.
        change (scopes s1) with (scopes s) in Ha. rewrite Es in Ha. congruence. }
      pose proof (Ev c Hch) as E0. unfold view3 in E0. inversion E0. congruence.
  Qed.
End NewTask4.

Section NewTask5.
  Variable t : tid.

  (* what the theorem promises about a run *)
  Definition GoalN (s : st) (ops : list op) : Prop :=
    (exists si h, In (si, ARun h) (trace s ops) /\ resumes t h /\
       ((exists o, snd (step si (ARun h)) = RExc (ECancel o)) \/
        (exists g, h = HWake t g /\ ((exists v, f_st (futs si g) = FRes v) \/ (exists e, f_st (futs si g) = FExc e))))) \/
    (exists si, In si (states s ops) /\ k_done (tasks si t) <> None) \/
    (exists si, In si (states s ops) /\ eff_cancelled_from (nscope si) si (k_cur (tasks si t)) = false).

  Lemma states_cons_in s o r si : In si (states (fst (step s o)) r) -> In si (states s (o :: r)).
  Proof. intros H. now right. Qed.

  Lemma GoalN_cons s o r : GoalN (fst (step s o)) r -> GoalN s (o :: r).
  Proof.
    intros [[si [h [H1 H2]]]|[[si [H1 H2]]|[si [H1 H2]]]].
    - left. exists si, h. split; [now right|exact H2].
    - right; left. exists si. split; [now apply states_cons_in|exact H2].
    - right; right. exists si. split; [now apply states_cons_in|exact H2].
  Qed.

  Lemma GoalN_app_l s a b : GoalN s a -> GoalN s (a ++ b).
  Proof.
    intros [[si [h [H1 H2]]]|[[si [H1 H2]]|[si [H1 H2]]]].
    - left. exists si, h. split; [rewrite trace_app; apply in_or_app; now left|exact H2].
    - right; left. exists si. split; [apply states_in_app; now left|exact H2].
    - right; right. exists si. split; [apply states_in_app; now left|exact H2].
  Qed.

  Lemma GoalN_app_r s a b : GoalN (final step s a) b -> GoalN s (a ++ b).
  Proof.
    intros [[si [h [H1 H2]]]|[[si [H1 H2]]|[si [H1 H2]]]].
    - left. exists si, h. split; [rewrite trace_app; apply in_or_app; now right|exact H2].
    - right; left. exists si. split; [apply states_in_app; now right|exact H2].
    - right; right. exists si. split; [apply states_in_app; now right|exact H2].
  Qed.

  Lemma GoalN_esc_here s o r : Esc t (fst (step s o)) -> GoalN s (o :: r).
  Proof.
    intros H. right; right. exists (fst (step s o)). split; [right; destruct r; now left|].
    now apply Esc_not_effectively_cancelled.
  Qed.

  Lemma GoalN_found f c s ops : found t f c s ops -> GoalN s ops.
  Proof.
    intros [si [q [Hi [Li [Np Er]]]]]. left. exists si, (HWake t f). split; [exact Hi|]. split; [right; now exists f|].
    destruct (wake_result t f si q (li_waiter _ _ _ _ Li) (li_ctl _ _ _ _ Li) Er Np) as [H|H]; [now left|right; now exists f].
  Qed.

  Lemma GoalN_escd s ops : escd t s ops -> GoalN s ops.
  Proof. intros [si [Hi He]]. right; right. exists si. split; [exact Hi|now apply Esc_not_effectively_cancelled]. Qed.

  (* window: acts of others and head runs that do not resume t, until t's first step; from then on the window of
     C03_cancel_latency_any_activity for the future t is parked on *)
  Fixpoint wok2 (s : st) (ops : list op) : Prop :=
    match ops with
    | [] => True
    | o :: r =>
        (o = ARun (HStep t) /\
         forall fp, k_waiter (tasks (fst (step s o)) t) = Some fp -> wok0 t fp (fst (step s o)) r) \/
        (wopn t s o /\ o <> ARun (HStep t) /\ wok2 (fst (step s o)) r)
    end.

  (* iteration in which t takes its first step: up to that step the invariant and the walk survive (or t
     escapes); the continuation K receives the state after the step and the rest of the iteration *)
  Lemma phase_first n s ops s' : wcyc n s ops s' -> forall rest pre post,
    wok2 s (ops ++ rest) -> NInv t s -> trkE t s -> ready s = pre ++ HStep t :: post -> length pre < n ->
    (forall si q m opsB, NInv t si -> trkE t si -> ready si = HStep t :: q ->
        wcyc m (fst (step si (ARun (HStep t)))) opsB s' ->
        (forall fp, k_waiter (tasks (fst (step si (ARun (HStep t)))) t) = Some fp ->
                    wok0 t fp (fst (step si (ARun (HStep t)))) (opsB ++ rest)) ->
        GoalN (fst (step si (ARun (HStep t)))) (opsB ++ rest)) ->
    GoalN s (ops ++ rest).
  Proof.
    induction 1 as [s|n s h q ops s' E Hc IH|n s o ops s' Hn Hc IH|n s E]; intros rest pre post Wk N Tk Er Hl K.
    - lia.
    - cbn [app wok2] in Wk. destruct Wk as [[Eo Wf]|[[[Ho _]|[h' [q' [Eo [Er' [Hok Hoh]]]]]] [Hne Wk']]].
      + inversion Eo; subst h. cbn [app]. apply GoalN_cons. now apply (K s q n ops).
      + destruct Ho.
      + inversion Eo; subst h'. assert (Hh : h <> HStep t) by (intros ->; now apply Hne).
        destruct pre as [|h1 pre]; cbn [app] in Er; rewrite E in Er; inversion Er; subst; [now elim Hh|].
        cbn [app]. destruct (nstep_head_trk t s h1 _ N Tk E Hoh Hok) as [Tk'|Ex]; [|now apply GoalN_esc_here].
        apply GoalN_cons.
        destruct (nstep_head t s h1 _ N E Hoh Hh Hok) as [N' [_ [P [new [Eq HP]]]]].
        rewrite filter_app in Eq. cbn [filter] in Eq. rewrite (HP (HStep t) eq_refl) in Eq.
        rewrite <- app_assoc in Eq. cbn [app] in Eq. pose proof (filter_len P pre) as Fl. cbn [length] in Hl.
        apply (IH rest (filter P pre) (filter P post ++ new) Wk' N' Tk' Eq ltac:(lia) K).
    - cbn [app wok2] in Wk. destruct Wk as [[Eo _]|[[[Ho Hok]|[h' [q' [Eo _]]]] [Hne Wk']]];
        [now elim (Hn (HStep t))| |now elim (Hn h')].
      cbn [app]. destruct (nstep_act_trk t s o N Tk Ho Hok) as [Tk'|Ex]; [|now apply GoalN_esc_here].
      apply GoalN_cons.
      destruct (nstep_act t s o N Ho Hok) as [N' [_ [P [new [Eq HP]]]]].
      rewrite Er, filter_app in Eq. cbn [filter] in Eq. rewrite (HP (HStep t) eq_refl) in Eq.
      rewrite <- app_assoc in Eq. cbn [app] in Eq. pose proof (filter_len P pre) as Fl.
      apply (IH rest (filter P pre) (filter P post ++ new) Wk' N' Tk' Eq ltac:(lia) K).
    - rewrite E in Er. destruct pre; discriminate.
  Qed.
End NewTask5.

(* C03 new_task_cancelled.  A freshly spawned task t (frame CNew, first step queued, not started) reaches the
   cancelled hosted scope c at the boundary of an iteration.  Three iterations follow in which everything but t is
   unconstrained (wok2: before t's first step any act of others and any head-of-queue callback not resuming t; after
   it the window of C03_cancel_latency_any_activity).  Then (GoalN):
   a resumption of t raised a cancellation (or the future it was parked on was completed with a value first), or
   t is done (a request recorded before its first step ends it without running), or at some state of the run t
   was not effectively cancelled (somebody raised a shield between t and every cancelled scope - the handle scope
   included). *)
Theorem new_task_cancelled t c s ops1 ops2 ops3 s1 s2 s3 :
  reach_ok s -> running s <> Some t -> k_ctl (tasks s t) = CNew -> k_started (tasks s t) = false ->
  k_waiter (tasks s t) = None -> k_done (tasks s t) = None -> In (HStep t) (ready s) ->
  s_cancelled (scopes s c) = true -> s_host (scopes s c) <> None -> reaches s t c ->
  wcyc (length (ready s)) s ops1 s1 -> wcyc (length (ready s1)) s1 ops2 s2 -> wcyc (length (ready s2)) s2 ops3 s3 ->
  wok2 t s (ops1 ++ ops2 ++ ops3) ->
  GoalN t s (ops1 ++ ops2 ++ ops3).
Proof.
  intros R Hr Hc Hs Hw Hd Hin Cc Hh Rt C1 C2 C3 Wk.
  assert (At : t < ntask s).
  { destruct Rt as [_ [x [Hx _]]]. pose proof (tr_cur_alloc _ (reach_tree s R) t x Hx) as A. apply A. }
  assert (N : NInv t s) by (constructor; assumption).
  assert (Tk : trkE t s) by (exists c; exact (conj Rt (conj Cc Hh))).
  destruct (in_split _ _ Hin) as [pre [post E]].
  assert (Hl : length pre < length (ready s)) by (rewrite E, app_length; cbn; lia).
  apply (phase_first t _ s ops1 s1 C1 (ops2 ++ ops3) pre post Wk N Tk E Hl).
  intros si q m opsB Ni Tki Eri Cb Wf. set (b := fst (step si (ARun (HStep t)))) in *.
  destruct (first_step t si q Ni Eri) as [F0 F1]. fold b in F0, F1.
  destruct (k_must (tasks si t)) eqn:Hm.
  { (* a request recorded before the first step: the task is done *)
    destruct (F1 eq_refl) as [_ [e Ed]]. right; left. exists b. split; [|rewrite Ed; discriminate].
    destruct (opsB ++ ops2 ++ ops3); now left. }
  destruct (F0 eq_refl) as [A1 [A2 [A3 [A4 [A5 [fp [A6 A7]]]]]]].
  assert (Rb : reach_ok b) by (apply reach_ok_step; [apply Ni|reflexivity]).
  destruct (first_step_trk t si q Ni Eri Hm Tki) as [[c' Tb]|Ex].
  2:{ right; right. exists b. split; [destruct (opsB ++ ops2 ++ ops3); now left|now apply Esc_not_effectively_cancelled]. }
  fold b in Tb.
  assert (Lb : LInv t fp c' b).
  { constructor; [exact Rb|rewrite A5; discriminate|exact A6|exact A1|exact A3|now rewrite A2|].
    left. exact (conj A7 (conj A4 Tb)). }
  assert (Atb : t < ntask b).
  { destruct Tb as [[_ [x [Hx _]]] _]. pose proof (tr_cur_alloc _ (reach_tree b Rb) t x Hx) as A. apply A. }
  pose proof (wok0_wok t fp _ _ (Wf fp A6)) as Wb.
  pose proof (wcyc_final _ _ _ _ Cb) as E1. pose proof (wcyc_final _ _ _ _ C2) as E2.
  destruct (phase_keep t fp c' m b opsB s1 Cb (ops2 ++ ops3) Wb Lb Atb) as [F|[X|[L1 [At1 [_ W1]]]]].
  - apply GoalN_app_l. now apply (GoalN_found t fp c').
  - apply GoalN_app_l. now apply GoalN_escd.
  - apply GoalN_app_r. rewrite <- E1.
    destruct (fstate_pending_dec (f_st (futs s1 fp))) as [Hp1|Np1].
    + destruct (li_cases _ _ _ _ L1) as [[_ [_ T1]]|[Np _]]; [|contradiction].
      destruct T1 as [Rt1 [Cc1 Hh1]].
      destruct (delivery_alive s1 c' (li_reach _ _ _ _ L1) Cc1 Hh1 (ex_intro _ t Rt1)) as [_ Hin1].
      destruct (in_split _ _ Hin1) as [pre1 [post1 Er1]].
      assert (Hl1 : length pre1 < length (ready s1)) by (rewrite Er1, app_length; cbn; lia).
      destruct (phase_deliver t fp c' _ s1 ops2 s2 C2 ops3 pre1 post1 W1 L1 At1 Er1 Hl1) as [F|[X|[L2 [At2 [Np2 W2]]]]].
      * apply GoalN_app_l. now apply (GoalN_found t fp c').
      * apply GoalN_app_l. now apply GoalN_escd.
      * apply GoalN_app_r. rewrite <- E2.
        destruct (li_cases _ _ _ _ L2) as [[Hp2 _]|[_ Hin2]]; [contradiction|].
        destruct (in_split _ _ Hin2) as [pre2 [post2 Er2]].
        assert (Hl2 : length pre2 < length (ready s2)) by (rewrite Er2, app_length; cbn; lia).
        assert (W2' : wok t fp s2 (ops3 ++ [])) by now rewrite app_nil_r.
        destruct (phase_wake t fp c' _ s2 ops3 s3 C3 [] pre2 post2 W2' L2 At2 Np2 Er2 Hl2) as [F|X];
          [now apply (GoalN_found t fp c')|now apply GoalN_escd].
    + destruct (li_cases _ _ _ _ L1) as [[Hp1 _]|[_ Hin1]]; [contradiction|].
      destruct (in_split _ _ Hin1) as [pre1 [post1 Er1]].
      assert (Hl1 : length pre1 < length (ready s1)) by (rewrite Er1, app_length; cbn; lia).
      apply GoalN_app_l.
      destruct (phase_wake t fp c' _ s1 ops2 s2 C2 ops3 pre1 post1 W1 L1 At1 Np1 Er1 Hl1) as [F|X];
        [now apply (GoalN_found t fp c')|now apply GoalN_escd].
Qed.

(* non-vacuity of new_task_cancelled: the child spawned into the cancelled group (nt_pre).  Iteration 1: the
   delivery callback skips the unstarted child, the child takes its first step; iteration 2: the host (an idle
   puppet in the cancelled scope) is woken, the delivery callback now cancels the child's wait; iteration 3: the
   child's wake-up raises the cancellation. *)
Definition nt_ops1 : list op := [ARun (HDeliver 1); ARun (HStep 2)].
Definition nt_ops2 : list op := [ARun (HWake 1 5); ARun (HDeliver 1)].
Definition nt_ops3 : list op := [ARun (HWake 1 7); ARun (HWake 2 6); ARun (HDeliver 1)].

Example nt3_premises :
  let s := final step init nt_pre in
  wok2 2 s (nt_ops1 ++ nt_ops2 ++ nt_ops3) /\
  exists s1 s2 s3, wcyc (length (ready s)) s nt_ops1 s1 /\ wcyc (length (ready s1)) s1 nt_ops2 s2 /\
                   wcyc (length (ready s2)) s2 nt_ops3 s3.
Proof.
  cbv zeta. set (s := final step init nt_pre). split.
  - unfold nt_ops1, nt_ops2, nt_ops3. cbn [app wok2].
    right. split; [|split; [discriminate|]].
    { right. exists (HDeliver 1), [HStep 2]. split; [reflexivity|]. split; [vcr|]. split; [vcr|exact I]. }
    left. split; [reflexivity|]. intros fp Hfp.
    assert (Efp : fp = 6) by (vm_compute in Hfp; congruence). subst fp. cbn [wok0].
    right. split; [right; exists (HWake 1 5), [HDeliver 1]; split; [reflexivity|split; [vcr|]]|].
    { split; [vcr|]. split; [discriminate|intros N; discriminate N]. }
    right. split; [right; exists (HDeliver 1), []; split; [reflexivity|split; [vcr|]]|].
    { split; [vcr|]. split; [discriminate|exact I]. }
    right. split; [right; exists (HWake 1 7), [HWake 2 6; HDeliver 1]; split; [reflexivity|split; [vcr|]]|].
    { split; [vcr|]. split; [discriminate|intros N; discriminate N]. }
    left. split; [reflexivity|]. vm_compute. discriminate.
  - eexists. eexists. eexists. split; [|split].
    + assert (E : length (ready s) = 2) by vcr. rewrite E. unfold nt_ops1.
      eapply wc_head; [vcr|]. eapply wc_head; [vcr|]. apply wc_nil.
    + match goal with |- wcyc (length (ready ?x)) _ _ _ => assert (E : length (ready x) = 2) by vcr; rewrite E end.
      unfold nt_ops2. eapply wc_head; [vcr|]. eapply wc_head; [vcr|]. apply wc_nil.
    + match goal with |- wcyc (length (ready ?x)) _ _ _ => assert (E : length (ready x) = 3) by vcr; rewrite E end.
      unfold nt_ops3. eapply wc_head; [vcr|]. eapply wc_head; [vcr|]. eapply wc_head; [vcr|]. apply wc_nil.
Qed.

Example nt3_instance : GoalN 2 (final step init nt_pre) (nt_ops1 ++ nt_ops2 ++ nt_ops3).
Proof.
  destruct nt_premises as (H1 & H2 & H3 & H4 & H5 & H6 & H7 & _ & H8 & H9 & _).
  destruct nt3_premises as (W & s1 & s2 & s3 & C1 & C2 & C3).
  assert (Hh : s_host (scopes (final step init nt_pre) 1) <> None) by (vm_compute; discriminate).
  exact (new_task_cancelled 2 1 _ _ _ _ s1 s2 s3 H1 H2 H3 H4 H5 H6 H7 H8 Hh H9 C1 C2 C3 W).
Qed.
