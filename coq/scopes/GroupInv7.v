(* step_inv: every operation of the S machine preserves Inv. *)
From AV Require Import Base Machine GroupInv GroupInv2 GroupInv3 GroupInv4 GroupInv5 GroupInv6.

Lemma puppet_op_inv s0 t o : Inv s0 -> idle s0 t = true -> Inv (fst (puppet_op s0 t o)).
Proof.
  intros I0 Hi. pose proof (Run_begin s0 t I0 Hi) as R. unfold puppet_op.
  set (s := begin_act s0 t) in *. clearbody s.
  destruct o; try exact I0.
  - apply op_new_scope, R.
  - apply op_enter, R.
  - apply op_exit, R.
  - apply op_cancel, R.
  - apply op_set_shield, R.
  - apply op_set_deadline, R.
  - apply op_group_new, R.
  - apply op_group_enter, R.
  - apply op_group_exit, R.
  - apply op_spawn, R.
  - apply op_start, R.
  - apply op_started, R.
  - apply op_handle_cancel, R.
  - apply op_handle_wait, R.
  - apply op_yield, R.
  - apply op_ckif, R.
  - apply op_shield_ck, R.
  - apply op_sleep, R.
  - apply op_irrel; [apply irrel_held|exact R].
  - apply op_irrel; [apply irrel_held|exact R].
  - apply op_irrel; [apply irrel_held|exact R].
  - apply op_irrel; [apply irrel_uncancel|exact R].
  - cbn [fst]. apply Inv_park, R.
  - apply op_fail_at, R.
Qed.

(* ---------------- AFinish ---------------- *)
Lemma MR_scope_exit t s c exc : MInv s -> running s = Some t ->
  let s' := fst (scope_exit s c t exc) in
  MInv s' /\ running s' = Some t /\ forall x, tview (tasks s' x) = tview (tasks s x).
Proof.
  intros M Hr. cbn zeta. destruct (scope_exit_cases s c t exc) as [E|[Ha [Hh Hc]]].
  - rewrite E. auto.
  - pose proof (ks_scope_exit s c t exc) as KS. pose proof (kframe_kstar _ _ _ _ KS) as F.
    refine (conj _ (conj _ (fr_tv _ _ _ _ F))).
    + apply (M_kstar _ _ _ _ KS); [|exact M]. apply ksafe_exit; auto. apply M.
    + now rewrite (fr_running _ _ _ _ F).
Qed.

Lemma Inv_finish_task s t o : MInv s -> running s = Some t -> (forall e, o <> OCanc e) ->
  k_final (tasks s t) <> None -> Inv (finish_task s t o).
Proof.
  intros M Hr Ho Hf. split.
  - apply M_finish_task; auto. intros H. contradiction.
  - reflexivity.
Qed.

Lemma puppet_finish_inv s0 t v : Inv s0 -> idle s0 t = true -> Inv (fst (puppet_finish s0 t v)).
Proof.
  intros I0 Hi. destruct (Run_begin s0 t I0 Hi) as [M [Hr Hf]]. unfold puppet_finish.
  set (s := begin_act s0 t) in *. clearbody s.
  set (raw := match k_held (tasks s t) with Some e => OExc e | None => ORet v end).
  assert (Hraw : forall e, raw <> OCanc e) by (intros e; unfold raw; destruct (k_held (tasks s t)); discriminate).
  destruct (k_group (tasks s t)) as [g|] eqn:Eg.
  - change (upd_task (upd_task s t (tk_final (Some raw))) t
              match raw with
              | ORet r => tk_hres None (Some r)
              | OExc e => tk_hres (Some e) None
              | OCanc e => tk_hres (Some e) None
              end) with (rec_task s t raw).
    assert (Hg : k_group (tasks s t) <> None) by congruence.
    set (e := k_hevent (tasks s t)).
    pose proof (M_record s t raw M Hr Hf Hg Hraw) as M2. fold e in M2.
    assert (Ens : e_set (events (rec_task s t raw) e) = false) by (apply (not_set_before_finish s t M Hf Hg)).
    rewrite event_set_eq, Ens.
    destruct (event_set_fold_M (e_waiters (events (rec_task s t raw) e)) (evset (rec_task s t raw) e) e M2
                (evset_set3 _ _)) as [M3 [T3 [_ [_ [_ [R3 _]]]]]].
    { intros f Hf0. rewrite evset_waiters. exact Hf0. }
    set (s3 := fold_left _ _ _) in *. clearbody s3.
    assert (Hr3 : running s3 = Some t) by (rewrite R3; exact Hr).
    assert (Hf3 : k_final (tasks s3 t) <> None).
    { rewrite T3. change (tasks (evset (rec_task s t raw) e)) with (tasks (rec_task s t raw)).
      rewrite rec_task_same. destruct raw; cbn; discriminate. }
    destruct (MR_scope_exit t s3 (k_hscope (tasks s t)) (k_held (tasks s t)) M3 Hr3) as [M4 [Hr4 V4]].
    destruct (scope_exit s3 (k_hscope (tasks s t)) t (k_held (tasks s t))) as [s4 x]. cbn [fst] in *.
    assert (Hf4 : k_final (tasks s4 t) <> None).
    { pose proof (tview_inv _ _ (V4 t)) as V. destruct V as [_ [_ [_ [_ [_ [_ [_ [_ [_ [V _]]]]]]]]]]. now rewrite V. }
    destruct x; apply Inv_finish_task; auto; try discriminate.
    destruct (k_held (tasks s t)); discriminate.
  - cbn [fst]. apply Inv_finish_task; auto.
    + apply M_set_final_root; auto.
    + tcase t t; [cbn; discriminate|contradiction].
Qed.

(* ---------------- resumption of a suspended task ---------------- *)
Definition inc_rec (x : task) : task := tk_must false (k_msg x) (tk_waiter None x).

Definition incs (s0 : st) (t : tid) : st := set_running (upd_task s0 t inc_rec) (Some t).

Lemma incoming_fst s0 t fo : fst (incoming s0 t fo) = incs s0 t.
Proof. reflexivity. Qed.

Lemma incs_task_other s0 t x : x <> t -> tasks (incs s0 t) x = tasks s0 x.
Proof. intros Hx. unfold incs. tcase x t; [contradiction|reflexivity]. Qed.

Lemma incs_task_same s0 t : tasks (incs s0 t) t = inc_rec (tasks s0 t).
Proof. unfold incs. tcase t t; [reflexivity|contradiction]. Qed.

Lemma incs_cview s0 t x : cview (tasks (incs s0 t) x) = cview (tasks s0 x) /\
  k_cur (tasks (incs s0 t) x) = k_cur (tasks s0 x).
Proof.
  destruct (Nat.eq_dec x t) as [->|Hx]; [rewrite incs_task_same; auto|rewrite incs_task_other; auto].
Qed.

Record wake_ok (s0 : st) (t : tid) (fo : option fid) : Prop := {
  w_m : MInv s0; w_run : running s0 = None; w_nt : ~ In t (thtasks (ready s0));
  w_done : k_done (tasks s0 t) = None; w_al : alloc s0 t;
  w_fo : match fo with
         | None => k_waiter (tasks s0 t) = None
         | Some f => k_waiter (tasks s0 t) = Some f /\ f_st (futs s0 f) <> FPend /\ f_waiter (futs s0 f) = Some t
         end
}.

Lemma Run_incs s0 t fo : wake_ok s0 t fo -> Run t (incs s0 t).
Proof.
  intros [M Hr Hnt Hd Hal Hfo]. refine (conj _ (conj eq_refl _)).
  - apply M_start_running; auto.
    + intros k. cbn. auto.
    + intros f Hf. right. destruct fo as [f0|]; [|congruence]. destruct Hfo as [H1 [H2 _]].
      rewrite H1 in Hf. injection Hf as <-. exact H2.
  - destruct (incs_cview s0 t t) as [V _]. pose proof (cview_inv _ _ V) as V'.
    destruct V' as [_ [_ [_ [_ [_ [_ [_ [_ [-> _]]]]]]]]].
    destruct (k_final (tasks s0 t)) eqn:E; [|reflexivity]. exfalso.
    apply (h_fd s0 (m_c s0 M) t); [rewrite Hr; discriminate|congruence|exact Hd].
Qed.

Lemma owns_incs s0 t c : owns s0 t c -> owns (incs s0 t) t c.
Proof.
  intros [H1 [H2 [H3 H4]]]. unfold owns. destruct (incs_cview s0 t t) as [_ ->]. auto.
Qed.

Lemma Run_evdel t s e f : Run t s -> f_waiter (futs s f) = Some t -> Run t (evdel s e f).
Proof. intros [M [Hr Hf]] Hw. exact (conj (M_evdel s e f t M Hr Hw) (conj Hr Hf)). Qed.

Lemma Run_event_unwait t s e fo : Run t s -> (forall f, fo = Some f -> f_waiter (futs s f) = Some t) ->
  Run t (event_unwait s e fo).
Proof.
  intros R H. rewrite event_unwait_eq. destruct fo as [f|]; [|exact R]. apply Run_evdel; auto.
Qed.

(* the wait-future of the resumed task still points at it *)
Lemma wake_fwaiter s0 t fo f : wake_ok s0 t fo -> k_waiter (tasks s0 t) = Some f ->
  f_waiter (futs (incs s0 t) f) = Some t.
Proof.
  intros W Hw. change (futs (incs s0 t)) with (futs s0).
  apply (k_w1 s0 (m_k s0 (w_m _ _ _ W)) t f Hw).
Qed.

Lemma start_join_block s t child c e : Run t s -> owns s t c -> alloc s child -> k_group (tasks s child) <> None ->
  child <> t ->
  Inv (fst (let '(s4, wf) := event_wait s t (k_hevent (tasks s child)) in
            blocked (set_ctl s4 t (CStartJoin child c e wf)))).
Proof.
  intros R O Hal Hg Hne. unfold event_wait. destruct (e_set (events s (k_hevent (tasks s child)))).
  - apply Inv_block_yield; auto; [reflexivity|].
    refine (conj _ (conj _ (conj _ _))); try discriminate.
    + intros x E. injection E as <-. exact O.
    + intros ch x e0 wf E. injection E as <- <- <- <-. refine (conj Hal (conj Hg (conj Hne _))). discriminate.
  - rewrite new_fut_eq. destruct (Run_new_fut t s R) as [R1 F].
    change (upd_event (nf s) (k_hevent (tasks s child))
              (fun x => mkEvent (e_set x) (e_waiters x ++ [nfut s])))
      with (evadd (nf s) (k_hevent (tasks s child)) (nfut s)).
    apply Inv_block_on; [apply Run_evadd; auto|apply unwaited_evadd, F|reflexivity|discriminate|].
    refine (conj _ (conj _ (conj _ _))); try discriminate.
    + intros x E. injection E as <-. exact O.
    + intros ch x e0 wf E. injection E as <- <- <- <-. refine (conj Hal (conj Hg (conj Hne _))).
      intros f E. injection E as <-. apply evadd_waiters. right. auto.
Qed.

Lemma incoming_none_cancel s0 t e : snd (incoming s0 t None) = Some e -> is_cancel e = true.
Proof.
  unfold incoming. cbn [snd]. destruct (k_must (tasks s0 t)); [|discriminate]. intros H. injection H as <-. reflexivity.
Qed.

Lemma Run_timer_cancel t s tm : Run t s -> Run t (timer_cancel s tm).
Proof. apply Run_kstar_none, ks_one, kp_tcancel. Qed.

Lemma resume_inv s0 t fo : wake_ok s0 t fo -> Inv (fst (resume s0 t fo)).
Proof.
  intros W. pose proof (Run_incs s0 t fo W) as R.
  assert (I0 : Inv s0) by (split; [apply W|apply W]).
  pose proof (w_m _ _ _ W) as M0.
  assert (Hnr : running s0 <> Some t) by (rewrite (w_run _ _ _ W); discriminate).
  pose proof (c_w s0 (m_c s0 M0) t Hnr) as Hcw.
  pose proof (fun c => c_top s0 (m_c s0 M0) t c Hnr) as Htop.
  pose proof (fun g ch f => c_sw s0 (m_c s0 M0) t g ch f Hnr) as Hsw.
  pose proof (fun ch c e wf => c_sj s0 (m_c s0 M0) t ch c e wf Hnr) as Hsj.
  unfold resume. destruct (incoming s0 t fo) as [s inc] eqn:Ei.
  assert (Es : s = incs s0 t) by (rewrite <- (incoming_fst s0 t fo), Ei; reflexivity).
  assert (Einc : inc = snd (incoming s0 t fo)) by (rewrite Ei; reflexivity).
  subst s.
  assert (Ec : k_ctl (tasks (incs s0 t) t) = k_ctl (tasks s0 t)).
  { destruct (incs_cview s0 t t) as [V _]. pose proof (cview_inv _ _ V). tauto. }
  rewrite Ec. destruct (k_ctl (tasks s0 t)) as [| |k|f tm|g ws exc|g c exc|g child f|child c e wf|h wf|] eqn:Ectl.
  - (* CNew *)
    destruct inc as [e|].
    + cbn [fst]. split; [|reflexivity]. apply M_finish_task.
      * apply M_upd_task_irrel; [apply irrel_started|apply R].
      * apply R.
      * discriminate.
      * intros _. exists e. split; [reflexivity|]. cbn in Hcw.
        destruct fo as [f|]; [destruct (w_fo _ _ _ W) as [H _]; congruence|].
        apply (incoming_none_cancel s0 t). now rewrite <- Einc.
    + cbn [fst]. apply Inv_park.
      pose proof (Run_upd_task_irrel t _ t _ (irrel_started true) R) as R1.
      destruct (k_group (tasks (upd_task (incs s0 t) t (tk_started true)) t)); [|exact R1].
      apply Run_scope_enter, R1.
  - (* CIdle *)
    cbn [fst]. apply Inv_park. destruct inc as [e|]; [|exact R]. apply Run_upd_task_irrel; [apply irrel_held|exact R].
  - (* CYield *)
    destruct k as [| |c].
    + apply Inv_ret, R.
    + destruct inc as [e|]; [apply Inv_ret, R|]. destruct (ckif_spins _ _ _); [|apply Inv_ret, R].
      destruct R as [M [Hr Hf]]. split; [|reflexivity].
      apply M_block_yield_same; auto; rewrite Ec; [reflexivity|apply ctl_ok_plain; plain].
    + pose proof (Run_scope_exit t _ c inc R) as R1.
      destruct (scope_exit (incs s0 t) c t inc) as [s1 x]. destruct x; apply Inv_ret, R1.
  - (* CSleep *)
    apply Inv_ret, Run_timer_cancel, R.
  - (* CAexitWait *)
    destruct (Htop ws eq_refl) as [O1 [O2 [O3 O4]]].
    assert (O : owns (incs s0 t) t ws) by (apply owns_incs; unfold owns; auto).
    pose proof (Run_gr_fut_none t _ g R) as R1.
    destruct inc as [e|].
    + cbn zeta. apply Inv_aexit_wof.
      * apply (Run_kstar_none t _ _ (ks_scope_cancel _ _ _ _ false)). apply Run_keeps; [apply keeps_shield|exact R1].
      * intros w Ew. injection Ew as <-.
        apply (owns_kstar_none _ _ _ _ (ks_scope_cancel _ _ _ _ false)).
        apply (owns_kstar_none _ _ _ _ (ks_one _ _ _ _ (kp_scope_keeps _ _ _ ws _ (keeps_shield true)))). exact O.
    + apply Inv_aexit_wof; [exact R1|]. intros w Ew. injection Ew as <-. exact O.
  - (* CAexitCk *)
    pose proof (Run_scope_exit t _ c inc R) as R1.
    destruct (scope_exit (incs s0 t) c t inc) as [s1 x]. cbn [fst] in R1.
    assert (Hn : forall w, @None sid = Some w -> owns s1 t w) by (intros w Ew; discriminate).
    destruct x.
    + apply Inv_aexit_wof; auto.
    + destruct inc as [e|]; [|apply Inv_aexit_wof; auto].
      destruct (is_cancel e); [|apply Inv_ret_pair, Run_aexit_raise, R1].
      apply Inv_aexit_wof; [|intros w Ew; discriminate].
      apply (Run_kstar_none t _ _ (ks_scope_cancel _ _ _ _ false)), R1.
    + apply Inv_ret_pair, Run_aexit_raise, R1.
  - (* CStartWait *)
    destruct inc as [e|]; [|apply Inv_ret, R].
    destruct (handle_pending (incs s0 t) child); [|destruct (f_st (futs (incs s0 t) _)); apply Inv_ret, R].
    destruct (Hsw g child f eq_refl) as [Hal [Hsf [Hg Hne]]].
    set (s1 := scope_cancel (incs s0 t) (k_hscope (tasks (incs s0 t) child)) false).
    assert (R1 : Run t s1) by (apply (Run_kstar_none t _ _ (ks_scope_cancel _ _ _ _ false)), R).
    rewrite new_scope_eq. cbn zeta. destruct (Run_fresh_scope t s1 None true R1) as [R3 O3].
    set (s3 := fst (scope_enter (ns s1 None true) (nscope s1) t)) in *.
    assert (V3 : forall x, x <> t -> tview (tasks s3 x) = tview (tasks s0 x) /\ ntask s3 = ntask s0).
    { intros x Hx.
      pose proof (kframe_kstar _ _ _ _ (ks_scope_cancel none_s none_t (incs s0 t) (k_hscope (tasks (incs s0 t) child)) false)) as F1.
      fold s1 in F1.
      assert (F3 : forall y, tview (tasks s3 y) = tview (tasks (ns s1 None true) y) /\ ntask s3 = ntask (ns s1 None true)).
      { intros y. unfold s3. destruct (s_active (scopes (ns s1 None true) (nscope s1))) eqn:Ea.
        - rewrite scope_enter_active; auto.
        - pose proof (kframe_kstar _ _ _ _ (ks_scope_enter (ns s1 None true) (nscope s1) t)) as F.
          split; [apply (fr_tv _ _ _ _ F)|apply (fr_ntask _ _ _ _ F)]. }
      destruct (F3 x) as [-> ->]. change (tasks (ns s1 None true)) with (tasks s1).
      change (ntask (ns s1 None true)) with (ntask s1).
      rewrite (fr_tv _ _ _ _ F1 x), (fr_ntask _ _ _ _ F1). split; [|reflexivity].
      now rewrite incs_task_other. }
    apply start_join_block; auto.
    + unfold alloc. destruct (V3 child Hne) as [_ ->]. exact Hal.
    + destruct (V3 child Hne) as [V _]. pose proof (tview_inv _ _ V) as V'. destruct V' as [_ [_ [_ [-> _]]]]. congruence.
  - (* CStartJoin *)
    set (s1 := event_unwait (incs s0 t) (k_hevent (tasks (incs s0 t) child)) wf).
    assert (R1 : Run t s1).
    { apply Run_event_unwait; [exact R|]. intros f ->. cbn in Hcw. apply (wake_fwaiter s0 t fo f W Hcw). }
    pose proof (Run_scope_exit t s1 c inc R1) as R2.
    destruct (scope_exit s1 c t inc) as [s2 x]. cbn [fst] in R2.
    destruct x; [apply Inv_ret, R2|destruct inc; apply Inv_ret, R2|apply Inv_ret, R2].
  - (* CHandleWait *)
    apply Inv_ret. apply Run_event_unwait; [exact R|]. intros f ->. cbn in Hcw. apply (wake_fwaiter s0 t fo f W Hcw).
  - (* CDone *)
    exact I0.
Qed.
