(* C03 — delivery of cancellation.  Part 1: what one run of _deliver_cancellation does (function level,
   by induction on the fuel of the recursion over child scopes). *)
From AV Require Import Base Machine ScopeFrames.

(* a pending wait is registered on its future (Task._fut_waiter <-> the future's wake-up callback) *)
Definition wait_link (s : st) : Prop :=
  forall t f, k_waiter (tasks s t) = Some f -> f_st (futs s f) = FPend -> f_waiter (futs s f) = Some t.

(* task t carries a cancellation request with origin o that its next step will receive *)
Definition requested (s : st) (t : tid) (o : nat) : Prop :=
  (k_must (tasks s t) = true /\ k_msg (tasks s t) = o /\ k_waiter (tasks s t) = None) \/
  (exists f, k_must (tasks s t) = false /\ k_waiter (tasks s t) = Some f /\ f_st (futs s f) = FCanc o /\
             In (HWake t f) (ready s)).

(* the recursive walk of deliver, from the tree side: t is a member of scope x, which lies below `self`
   through child links that are neither shielded nor cancelled; fuel as in `deliver` *)
Inductive dreach (s : st) : nat -> sid -> sid -> tid -> Prop :=
| dr_here fu self t : In t (s_tasks (scopes s self)) -> dreach s (S fu) self self t
| dr_child fu self ch x t :
    In ch (s_children (scopes s self)) ->
    s_shield (scopes s ch) = false -> s_cancelled (scopes s ch) = false ->
    dreach s fu ch x t -> dreach s (S fu) self x t.

Lemma task_cancel_nowaiter s t o :
  k_done (tasks s t) = None -> k_waiter (tasks s t) = None ->
  task_cancel s t o =
  upd_task (upd_task s t (tk_ncancel (S (k_ncancel (tasks s t))))) t (tk_must true o).
Proof. intros Hd Hw. unfold task_cancel. now rewrite Hd, Hw. Qed.

Lemma task_cancel_pending s t o f :
  k_done (tasks s t) = None -> k_waiter (tasks s t) = Some f -> f_st (futs s f) = FPend ->
  task_cancel s t o =
  let s1 := upd_task s t (tk_ncancel (S (k_ncancel (tasks s t)))) in
  let s2 := upd_fut s1 f (fun x => mkFut (FCanc o) (f_waiter x)) in
  match f_waiter (futs s f) with Some w => call_soon s2 (HWake w f) | None => s2 end.
Proof.
  intros Hd Hw Hp. unfold task_cancel. rewrite Hd, Hw.
  unfold fut_pending, fut_complete. cbn [futs upd_task set_tasks]. now rewrite Hp.
Qed.

Section DeliverSpec.
  Variable s0 : st.
  Variable origin : sid.
  Hypothesis WL : wait_link s0.

  (* eligibility of member t of scope x, in the state before the delivery *)
  Definition elig (t : tid) (x : sid) : Prop :=
    k_done (tasks s0 t) = None /\ k_must (tasks s0 t) = false /\ running s0 <> Some t /\
    (s_host (scopes s0 x) = Some t \/ k_started (tasks s0 t) = true) /\
    match k_waiter (tasks s0 t) with Some f => f_st (futs s0 f) = FPend | None => True end.

  Definition untouched (a : st) (t : tid) : Prop :=
    tasks a t = tasks s0 t /\ forall f, k_waiter (tasks s0 t) = Some f -> futs a f = futs s0 f.

  Definition Q (a : st) : Prop :=
    kframe s0 a /\ forall t, untouched a t \/ requested a t (S origin).

  Lemma pend_back a f : kframe s0 a -> f_st (futs a f) = FPend -> f_st (futs s0 f) = FPend.
  Proof.
    intros K H. destruct (f_st (futs s0 f)) eqn:E; [reflexivity| | |];
      rewrite (kf_fdone _ _ K f) in H; congruence.
  Qed.

  Lemma Q_deliver_task self a r t :
    Q a ->
    let a' := fst (deliver_task self origin (a, r) t) in
    Q a' /\ (elig t self -> requested a' t (S origin)) /\
    snd (deliver_task self origin (a, r) t) =
      match k_done (tasks s0 t) with Some _ => r | None => true end.
  Proof.
    intros [K HQ]. cbv zeta.
    pose proof (kframe_deliver_task self origin a r t) as Kstep.
    assert (Kall : kframe s0 (fst (deliver_task self origin (a, r) t))) by (eapply kframe_trans; eauto).
    pose proof (kf_tasks _ _ K t) as Kt.
    unfold deliver_task in *.
    rewrite (tcore_done _ _ Kt) in *.
    destruct (k_done (tasks s0 t)) eqn:Ed.
    { cbn [fst snd]. split; [split; assumption|]. split; [|reflexivity].
      intros [H _]. congruence. }
    destruct (k_must (tasks a t)) eqn:Em.
    { cbn [fst snd]. split; [split; assumption|]. split; [|reflexivity].
      intros [_ [Hm _]]. destruct (HQ t) as [[U _]|R]; [|exact R]. rewrite U in Em. congruence. }
    rewrite (kf_running _ _ K), (core_host _ _ (kf_scopes _ _ K self)), (tcore_started _ _ Kt) in *.
    destruct (negb (opt_eqb (running s0) t) &&
              (opt_eqb (s_host (scopes s0 self)) t || k_started (tasks s0 t))) eqn:Ec.
    2:{ cbn [fst snd]. split; [split; assumption|]. split; [|reflexivity].
        intros [_ [_ [Hr [Hh _]]]]. exfalso.
        apply andb_false_iff in Ec. destruct Ec as [Ec|Ec].
        - apply negb_false_iff, opt_eqb_true in Ec. contradiction.
        - apply orb_false_iff in Ec. destruct Ec as [E1 E2]. apply opt_eqb_false in E1.
          destruct Hh as [Hh|Hh]; [contradiction|congruence]. }
    rewrite (tcore_waiter _ _ Kt) in *.
    destruct (match k_waiter (tasks s0 t) with Some f => fut_pending a f | None => true end) eqn:Ew.
    2:{ cbn [fst snd]. split; [split; assumption|]. split; [|reflexivity].
        intros [_ [_ [_ [_ Hw]]]]. destruct (HQ t) as [[_ U]|R]; [|exact R]. exfalso.
        destruct (k_waiter (tasks s0 t)) as [f|]; [|discriminate].
        unfold fut_pending in Ew. rewrite (U f eq_refl), Hw in Ew. discriminate. }
    cbn [fst snd] in *. split; [|split; [|reflexivity]].
    - (* Q preserved *)
      split; [exact Kall|]. intros t'.
      set (a1 := task_cancel a t (S origin)) in *.
      set (a2 := if opt_eqb (s_host (scopes a1 origin)) t
                 then upd_scope a1 origin (fun c => sc_pending (S (s_pending c)) c) else a1) in *.
      assert (E2 : tasks a2 = tasks a1 /\ futs a2 = futs a1 /\ ready a2 = ready a1).
      { unfold a2. destruct (opt_eqb (s_host (scopes a1 origin)) t); repeat split; reflexivity. }
      destruct E2 as [E2t [E2f E2r]].
      assert (Hda : k_done (tasks a t) = None) by (rewrite (tcore_done _ _ Kt); exact Ed).
      assert (Hwa : k_waiter (tasks a t) = k_waiter (tasks s0 t)) by apply (tcore_waiter _ _ Kt).
      destruct (Nat.eq_dec t' t) as [->|Hne].
      + (* the cancelled task itself *)
        right. unfold requested. rewrite E2t, E2f, E2r.
        destruct (k_waiter (tasks s0 t)) as [f|] eqn:Ewt.
        * right. exists f. unfold fut_pending in Ew.
          destruct (f_st (futs a f)) eqn:Ep; try discriminate.
          assert (Hfw : f_waiter (futs a f) = Some t).
          { rewrite (kf_fwaiter _ _ K f). apply WL; [exact Ewt|]. exact (pend_back a f K Ep). }
          unfold a1. rewrite (task_cancel_pending a t (S origin) f Hda Hwa Ep). cbv zeta. rewrite Hfw.
          cbn. unfold upd. rewrite !Nat.eqb_refl. cbn.
          split; [exact Em|]. split; [exact Hwa|]. split; [reflexivity|].
          apply in_or_app. right. now left.
        * left. unfold a1. rewrite (task_cancel_nowaiter a t (S origin) Hda Hwa).
          cbn. unfold upd. rewrite !Nat.eqb_refl. cbn. repeat split. exact Hwa.
      + (* another task *)
        assert (Et : tasks a2 t' = tasks a t').
        { rewrite E2t. unfold a1, task_cancel. rewrite Hda.
          destruct (k_waiter (tasks a t)) as [f|].
          - destruct (fut_pending _ f).
            + unfold fut_complete. destruct (f_st _); try destruct (f_waiter _); cbn; unfold upd;
                destruct (Nat.eqb_spec t' t); try contradiction; reflexivity.
            + cbn. unfold upd. destruct (Nat.eqb_spec t' t); try contradiction; reflexivity.
          - cbn. unfold upd. destruct (Nat.eqb_spec t' t); try contradiction; reflexivity. }
        assert (Ef : forall f', (k_waiter (tasks s0 t) = Some f' -> f_st (futs a f') <> FPend) ->
                                futs a2 f' = futs a f').
        { intros f' Hf'. rewrite E2f. unfold a1, task_cancel. rewrite Hda, Hwa.
          destruct (k_waiter (tasks s0 t)) as [f|]; [|reflexivity].
          unfold fut_pending. cbn [futs upd_task set_tasks].
          destruct (f_st (futs a f)) eqn:Ep; try reflexivity.
          unfold fut_complete. cbn [futs upd_task set_tasks]. rewrite Ep.
          assert (f' <> f) by (intros ->; now apply (Hf' eq_refl)).
          destruct (f_waiter (futs a f)); cbn; unfold upd; destruct (Nat.eqb_spec f' f); try contradiction; reflexivity. }
        assert (Er : forall h, In h (ready a) -> In h (ready a2)).
        { intros h Hh. destruct (kf_ready _ _ Kstep) as [l [El _]].
          change (ready a2 = ready a ++ l) in El. rewrite El. apply in_or_app. now left. }
        destruct (HQ t') as [[U1 U2]|R].
        * left. split; [now rewrite Et|]. intros f' Hf'. rewrite Ef; [now apply U2|].
          intros Hw Hp. apply Hne.
          assert (P0 : f_st (futs s0 f') = FPend) by exact (pend_back a f' K Hp).
          pose proof (WL _ _ Hf' P0) as W1. pose proof (WL _ _ Hw P0) as W2. congruence.
        * right. destruct R as [[R1 [R2 R3]]|[f' [R0 [R1 [R2 R3]]]]].
          -- left. now rewrite Et.
          -- right. exists f'. rewrite Et. split; [exact R0|]. split; [exact R1|]. split; [|now apply Er].
             rewrite Ef; [exact R2|]. intros _ Hp. rewrite Hp in R2. discriminate.
    - (* established for t (same computation as above, first case) *)
      intros _.
      set (a1 := task_cancel a t (S origin)) in *.
      set (a2 := if opt_eqb (s_host (scopes a1 origin)) t
                 then upd_scope a1 origin (fun c => sc_pending (S (s_pending c)) c) else a1) in *.
      assert (E2 : tasks a2 = tasks a1 /\ futs a2 = futs a1 /\ ready a2 = ready a1).
      { unfold a2. destruct (opt_eqb (s_host (scopes a1 origin)) t); repeat split; reflexivity. }
      destruct E2 as [E2t [E2f E2r]].
      assert (Hda : k_done (tasks a t) = None) by (rewrite (tcore_done _ _ Kt); exact Ed).
      assert (Hwa : k_waiter (tasks a t) = k_waiter (tasks s0 t)) by apply (tcore_waiter _ _ Kt).
      unfold requested. rewrite E2t, E2f, E2r.
      destruct (k_waiter (tasks s0 t)) as [f|] eqn:Ewt.
      * right. exists f. unfold fut_pending in Ew.
        destruct (f_st (futs a f)) eqn:Ep; try discriminate.
        assert (Hfw : f_waiter (futs a f) = Some t).
        { rewrite (kf_fwaiter _ _ K f). apply WL; [exact Ewt|]. exact (pend_back a f K Ep). }
        unfold a1. rewrite (task_cancel_pending a t (S origin) f Hda Hwa Ep). cbv zeta. rewrite Hfw.
        cbn. unfold upd. rewrite !Nat.eqb_refl. cbn.
        split; [exact Em|]. split; [exact Hwa|]. split; [reflexivity|].
        apply in_or_app. right. now left.
      * left. unfold a1. rewrite (task_cancel_nowaiter a t (S origin) Hda Hwa).
        cbn. unfold upd. rewrite !Nat.eqb_refl. cbn. repeat split. exact Hwa.
  Qed.
End DeliverSpec.
