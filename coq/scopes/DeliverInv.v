(* C03 — delivery of cancellation.  Part 1: what one run of _deliver_cancellation does (function level,
   by induction on the fuel of the recursion over child scopes). *)
From AV Require Import Base Machine ScopeFrames.

(* a pending wait is registered on its future (Task._fut_waiter <-> the future's wake-up callback) *)
Definition wait_link (s : st) : Prop :=
  forall t f, k_waiter (tasks s t) = Some f -> f_st (futs s f) = FPend -> f_waiter (futs s f) = Some t.

(* task t carries a cancellation request with origin o that its next step will receive *)
Definition requested (s : st) (t : tid) (o : nat) : Prop :=
  (k_must (tasks s t) = true /\ k_msg (tasks s t) = o /\ k_waiter (tasks s t) = None) \/
  (exists f, k_must (tasks s t) = false /\ k_waiter (tasks s t) = Some f /\ f_st (futs s f) = FCanc o /\
             In (HWake t f) (ready s)).

(* the recursive walk of deliver, from the tree side: t is a member of scope x, which lies below `self`
   through child links that are neither shielded nor cancelled; fuel as in `deliver` *)
Inductive dreach (s : st) : nat -> sid -> sid -> tid -> Prop :=
| dr_here fu self t : In t (s_tasks (scopes s self)) -> dreach s (S fu) self self t
| dr_child fu self ch x t :
    In ch (s_children (scopes s self)) ->
    s_shield (scopes s ch) = false -> s_cancelled (scopes s ch) = false ->
    dreach s fu ch x t -> dreach s (S fu) self x t.

Lemma task_cancel_nowaiter s t o :
  k_done (tasks s t) = None -> k_waiter (tasks s t) = None ->
  task_cancel s t o =
  upd_task (upd_task s t (tk_ncancel (S (k_ncancel (tasks s t))))) t (tk_must true o).
Proof. intros Hd Hw. unfold task_cancel. now rewrite Hd, Hw. Qed.

Lemma task_cancel_pending s t o f :
  k_done (tasks s t) = None -> k_waiter (tasks s t) = Some f -> f_st (futs s f) = FPend ->
  task_cancel s t o =
  let s1 := upd_task s t (tk_ncancel (S (k_ncancel (tasks s t)))) in
  let s2 := upd_fut s1 f (fun x => mkFut (FCanc o) (f_waiter x)) in
  match f_waiter (futs s f) with Some w => call_soon s2 (HWake w f) | None => s2 end.
Proof.
  intros Hd Hw Hp. unfold task_cancel. rewrite Hd, Hw.
  unfold fut_pending, fut_complete. cbn [futs upd_task set_tasks]. now rewrite Hp.
Qed.

(* a request, once placed, is not disturbed by the rest of the delivery *)
Lemma requested_deliver_task self origin a r t t' o :
  requested a t' o -> requested (fst (deliver_task self origin (a, r) t)) t' o.
Proof.
  intros R. pose proof (kframe_deliver_task self origin a r t) as Kstep.
  unfold deliver_task in *.
  destruct (k_done (tasks a t)) eqn:Hda; [exact R|].
  destruct (k_must (tasks a t)) eqn:Em; [exact R|].
  destruct (negb (opt_eqb (running a) t) && (opt_eqb (s_host (scopes a self)) t || k_started (tasks a t)));
    [|exact R].
  destruct (match k_waiter (tasks a t) with Some f => fut_pending a f | None => true end) eqn:Ew; [|exact R].
  cbn [fst] in *.
  set (a1 := task_cancel a t (S origin)) in *.
  set (a2 := if opt_eqb (s_host (scopes a1 origin)) t
             then upd_scope a1 origin (fun c => sc_pending (S (s_pending c)) c) else a1) in *.
  assert (E2 : tasks a2 = tasks a1 /\ futs a2 = futs a1).
  { unfold a2. destruct (opt_eqb (s_host (scopes a1 origin)) t); split; reflexivity. }
  destruct E2 as [E2t E2f].
  destruct (Nat.eq_dec t' t) as [->|Hne].
  { exfalso. destruct R as [[R1 _]|[f [_ [R1 [R2 _]]]]]; [congruence|].
    rewrite R1 in Ew. unfold fut_pending in Ew. rewrite R2 in Ew. discriminate. }
  assert (Et : tasks a2 t' = tasks a t').
  { rewrite E2t. unfold a1, task_cancel. rewrite Hda.
    destruct (k_waiter (tasks a t)) as [f|].
    - destruct (fut_pending _ f).
      + unfold fut_complete. destruct (f_st _); try destruct (f_waiter _); cbn; unfold upd;
          destruct (Nat.eqb_spec t' t); try contradiction; reflexivity.
      + cbn. unfold upd. destruct (Nat.eqb_spec t' t); try contradiction; reflexivity.
    - cbn. unfold upd. destruct (Nat.eqb_spec t' t); try contradiction; reflexivity. }
  assert (Ef : forall f', f_st (futs a f') <> FPend -> futs a2 f' = futs a f').
  { intros f' Hf'. rewrite E2f. unfold a1, task_cancel. rewrite Hda.
    destruct (k_waiter (tasks a t)) as [f|]; [|reflexivity].
    unfold fut_pending. cbn [futs upd_task set_tasks].
    destruct (f_st (futs a f)) eqn:Ep; try reflexivity.
    unfold fut_complete. cbn [futs upd_task set_tasks]. rewrite Ep.
    assert (f' <> f) by (intros ->; now apply Hf').
    destruct (f_waiter (futs a f)); cbn; unfold upd; destruct (Nat.eqb_spec f' f); try contradiction; reflexivity. }
  assert (Er : forall h, In h (ready a) -> In h (ready a2)).
  { intros h Hh. destruct (kf_ready _ _ Kstep) as [l [El _]]. rewrite El. apply in_or_app. now left. }
  destruct R as [[R1 [R2 R3]]|[f' [R0 [R1 [R2 R3]]]]].
  - left. now rewrite Et.
  - right. exists f'. rewrite Et. split; [exact R0|]. split; [exact R1|]. split; [|now apply Er].
    rewrite Ef; [exact R2|]. rewrite R2. discriminate.
Qed.

Lemma requested_fold_deliver_task self origin t' o l : forall a r,
  requested a t' o -> requested (fst (fold_left (deliver_task self origin) l (a, r))) t' o.
Proof.
  induction l as [|t l IH]; intros a r R; cbn [fold_left]; [exact R|].
  destruct (deliver_task self origin (a, r) t) as [a1 r1] eqn:E. apply IH.
  change a1 with (fst (a1, r1)). rewrite <- E. now apply requested_deliver_task.
Qed.

Definition dstep (fu : nat) (origin : sid) (acc : st * bool) (c : sid) : st * bool :=
  let '(a, r) := acc in
  if negb (s_shield (scopes a c)) && negb (s_cancelled (scopes a c))
  then let '(a', r') := deliver fu a c origin in (a', r' || r) else (a, r).

Lemma deliver_unfold fu s self origin :
  deliver (S fu) s self origin =
  let '(s1, r1) := fold_left (deliver_task self origin) (s_tasks (scopes s self)) (s, false) in
  let '(s2, r2) := fold_left (dstep fu origin) (s_children (scopes s1 self)) (s1, r1) in
  if Nat.eqb origin self then
    if r2 then (call_soon (upd_scope s2 self (sc_chandle true)) (HDeliver self), r2)
    else (upd_scope s2 self (sc_chandle false), r2)
  else (s2, r2).
Proof. reflexivity. Qed.

Lemma requested_chandle a self b t' o :
  requested a t' o -> requested (upd_scope a self (sc_chandle b)) t' o.
Proof. intros R. exact R. Qed.

Lemma requested_call_soon a h t' o : requested a t' o -> requested (call_soon a h) t' o.
Proof.
  intros [R|[f [R0 [R1 [R2 R3]]]]]; [now left|right]. exists f. repeat split; try assumption.
  cbn. apply in_or_app. now left.
Qed.

Lemma requested_deliver origin t' o fu : forall a self,
  requested a t' o -> requested (fst (deliver fu a self origin)) t' o.
Proof.
  induction fu as [|fu IH]; intros a self R; [exact R|].
  rewrite deliver_unfold.
  destruct (fold_left (deliver_task self origin) (s_tasks (scopes a self)) (a, false)) as [s1 r1] eqn:E1.
  assert (R1 : requested s1 t' o).
  { change s1 with (fst (s1, r1)). rewrite <- E1. now apply requested_fold_deliver_task. }
  assert (F : forall l b r, requested b t' o -> requested (fst (fold_left (dstep fu origin) l (b, r))) t' o).
  { induction l as [|c l IHl]; intros b r Rb; cbn [fold_left]; [exact Rb|].
    destruct (dstep fu origin (b, r) c) as [b1 r1'] eqn:Es. apply IHl.
    unfold dstep in Es. destruct (negb (s_shield (scopes b c)) && negb (s_cancelled (scopes b c))).
    - destruct (deliver fu b c origin) as [b' r'] eqn:Ed. inversion Es; subst.
      change b1 with (fst (b1, r')). rewrite <- Ed. now apply IH.
    - now inversion Es; subst. }
  destruct (fold_left (dstep fu origin) (s_children (scopes s1 self)) (s1, r1)) as [s2 r2] eqn:E2.
  assert (R2 : requested s2 t' o).
  { change s2 with (fst (s2, r2)). rewrite <- E2. now apply F. }
  destruct (Nat.eqb origin self); [|exact R2].
  destruct r2; cbn [fst]; [apply requested_call_soon|]; now apply requested_chandle.
Qed.

Lemma requested_fold_dstep fu origin t' o l : forall b r,
  requested b t' o -> requested (fst (fold_left (dstep fu origin) l (b, r))) t' o.
Proof.
  induction l as [|c l IHl]; intros b r Rb; cbn [fold_left]; [exact Rb|].
  destruct (dstep fu origin (b, r) c) as [b1 r1'] eqn:Es. apply IHl.
  unfold dstep in Es. destruct (negb (s_shield (scopes b c)) && negb (s_cancelled (scopes b c))).
  - destruct (deliver fu b c origin) as [b' r'] eqn:Ed. inversion Es; subst.
    change b1 with (fst (b1, r')). rewrite <- Ed. now apply requested_deliver.
  - now inversion Es; subst.
Qed.

Section DeliverSpec.
  Variable s0 : st.
  Variable origin : sid.
  Hypothesis WL : wait_link s0.

  (* eligibility of member t of scope x, in the state before the delivery *)
  Definition elig (t : tid) (x : sid) : Prop :=
    k_done (tasks s0 t) = None /\ k_must (tasks s0 t) = false /\ running s0 <> Some t /\
    (s_host (scopes s0 x) = Some t \/ k_started (tasks s0 t) = true) /\
    match k_waiter (tasks s0 t) with Some f => f_st (futs s0 f) = FPend | None => True end.

  Definition untouched (a : st) (t : tid) : Prop :=
    tasks a t = tasks s0 t /\ forall f, k_waiter (tasks s0 t) = Some f -> futs a f = futs s0 f.

  Definition Q (a : st) : Prop :=
    kframe s0 a /\ forall t, untouched a t \/ requested a t (S origin).

  Lemma pend_back a f : kframe s0 a -> f_st (futs a f) = FPend -> f_st (futs s0 f) = FPend.
  Proof.
    intros K H. destruct (f_st (futs s0 f)) eqn:E; [reflexivity| | |];
      rewrite (kf_fdone _ _ K f) in H; congruence.
  Qed.

  Lemma Q_deliver_task self a r t :
    Q a ->
    let a' := fst (deliver_task self origin (a, r) t) in
    Q a' /\ (elig t self -> requested a' t (S origin)) /\
    snd (deliver_task self origin (a, r) t) =
      match k_done (tasks s0 t) with Some _ => r | None => true end.
  Proof.
    intros [K HQ]. cbv zeta.
    pose proof (kframe_deliver_task self origin a r t) as Kstep.
    assert (Kall : kframe s0 (fst (deliver_task self origin (a, r) t))) by (eapply kframe_trans; eauto).
    pose proof (kf_tasks _ _ K t) as Kt.
    unfold deliver_task in *.
    rewrite (tcore_done _ _ Kt) in *.
    destruct (k_done (tasks s0 t)) eqn:Ed.
    { cbn [fst snd]. split; [split; assumption|]. split; [|reflexivity].
      intros [H _]. congruence. }
    destruct (k_must (tasks a t)) eqn:Em.
    { cbn [fst snd]. split; [split; assumption|]. split; [|reflexivity].
      intros [_ [Hm _]]. destruct (HQ t) as [[U _]|R]; [|exact R]. rewrite U in Em. congruence. }
    rewrite (kf_running _ _ K), (core_host _ _ (kf_scopes _ _ K self)), (tcore_started _ _ Kt) in *.
    destruct (negb (opt_eqb (running s0) t) &&
              (opt_eqb (s_host (scopes s0 self)) t || k_started (tasks s0 t))) eqn:Ec.
    2:{ cbn [fst snd]. split; [split; assumption|]. split; [|reflexivity].
        intros [_ [_ [Hr [Hh _]]]]. exfalso.
        apply andb_false_iff in Ec. destruct Ec as [Ec|Ec].
        - apply negb_false_iff, opt_eqb_true in Ec. contradiction.
        - apply orb_false_iff in Ec. destruct Ec as [E1 E2]. apply opt_eqb_false in E1.
          destruct Hh as [Hh|Hh]; [contradiction|congruence]. }
    rewrite (tcore_waiter _ _ Kt) in *.
    destruct (match k_waiter (tasks s0 t) with Some f => fut_pending a f | None => true end) eqn:Ew.
    2:{ cbn [fst snd]. split; [split; assumption|]. split; [|reflexivity].
        intros [_ [_ [_ [_ Hw]]]]. destruct (HQ t) as [[_ U]|R]; [|exact R]. exfalso.
        destruct (k_waiter (tasks s0 t)) as [f|]; [|discriminate].
        unfold fut_pending in Ew. rewrite (U f eq_refl), Hw in Ew. discriminate. }
    cbn [fst snd] in *. split; [|split; [|reflexivity]].
    - (* Q preserved *)
      split; [exact Kall|]. intros t'.
      set (a1 := task_cancel a t (S origin)) in *.
      set (a2 := if opt_eqb (s_host (scopes a1 origin)) t
                 then upd_scope a1 origin (fun c => sc_pending (S (s_pending c)) c) else a1) in *.
      assert (E2 : tasks a2 = tasks a1 /\ futs a2 = futs a1 /\ ready a2 = ready a1).
      { unfold a2. destruct (opt_eqb (s_host (scopes a1 origin)) t); repeat split; reflexivity. }
      destruct E2 as [E2t [E2f E2r]].
      assert (Hda : k_done (tasks a t) = None) by (rewrite (tcore_done _ _ Kt); exact Ed).
      assert (Hwa : k_waiter (tasks a t) = k_waiter (tasks s0 t)) by apply (tcore_waiter _ _ Kt).
      destruct (Nat.eq_dec t' t) as [->|Hne].
      + (* the cancelled task itself *)
        right. unfold requested. rewrite E2t, E2f, E2r.
        destruct (k_waiter (tasks s0 t)) as [f|] eqn:Ewt.
        * right. exists f. unfold fut_pending in Ew.
          destruct (f_st (futs a f)) eqn:Ep; try discriminate.
          assert (Hfw : f_waiter (futs a f) = Some t).
          { rewrite (kf_fwaiter _ _ K f). apply WL; [exact Ewt|]. exact (pend_back a f K Ep). }
          unfold a1. rewrite (task_cancel_pending a t (S origin) f Hda Hwa Ep). cbv zeta. rewrite Hfw.
          cbn. unfold upd. rewrite !Nat.eqb_refl. cbn.
          split; [exact Em|]. split; [exact Hwa|]. split; [reflexivity|].
          apply in_or_app. right. now left.
        * left. unfold a1. rewrite (task_cancel_nowaiter a t (S origin) Hda Hwa).
          cbn. unfold upd. rewrite !Nat.eqb_refl. cbn. repeat split. exact Hwa.
      + (* another task *)
        assert (Et : tasks a2 t' = tasks a t').
        { rewrite E2t. unfold a1, task_cancel. rewrite Hda.
          destruct (k_waiter (tasks a t)) as [f|].
          - destruct (fut_pending _ f).
            + unfold fut_complete. destruct (f_st _); try destruct (f_waiter _); cbn; unfold upd;
                destruct (Nat.eqb_spec t' t); try contradiction; reflexivity.
            + cbn. unfold upd. destruct (Nat.eqb_spec t' t); try contradiction; reflexivity.
          - cbn. unfold upd. destruct (Nat.eqb_spec t' t); try contradiction; reflexivity. }
        assert (Ef : forall f', (k_waiter (tasks s0 t) = Some f' -> f_st (futs a f') <> FPend) ->
                                futs a2 f' = futs a f').
        { intros f' Hf'. rewrite E2f. unfold a1, task_cancel. rewrite Hda, Hwa.
          destruct (k_waiter (tasks s0 t)) as [f|]; [|reflexivity].
          unfold fut_pending. cbn [futs upd_task set_tasks].
          destruct (f_st (futs a f)) eqn:Ep; try reflexivity.
          unfold fut_complete. cbn [futs upd_task set_tasks]. rewrite Ep.
          assert (f' <> f) by (intros ->; now apply (Hf' eq_refl)).
          destruct (f_waiter (futs a f)); cbn; unfold upd; destruct (Nat.eqb_spec f' f); try contradiction; reflexivity. }
        assert (Er : forall h, In h (ready a) -> In h (ready a2)).
        { intros h Hh. destruct (kf_ready _ _ Kstep) as [l [El _]].
          change (ready a2 = ready a ++ l) in El. rewrite El. apply in_or_app. now left. }
        destruct (HQ t') as [[U1 U2]|R].
        * left. split; [now rewrite Et|]. intros f' Hf'. rewrite Ef; [now apply U2|].
          intros Hw Hp. apply Hne.
          assert (P0 : f_st (futs s0 f') = FPend) by exact (pend_back a f' K Hp).
          pose proof (WL _ _ Hf' P0) as W1. pose proof (WL _ _ Hw P0) as W2. congruence.
        * right. destruct R as [[R1 [R2 R3]]|[f' [R0 [R1 [R2 R3]]]]].
          -- left. now rewrite Et.
          -- right. exists f'. rewrite Et. split; [exact R0|]. split; [exact R1|]. split; [|now apply Er].
             rewrite Ef; [exact R2|]. intros _ Hp. rewrite Hp in R2. discriminate.
    - (* established for t (same computation as above, first case) *)
      intros _.
      set (a1 := task_cancel a t (S origin)) in *.
      set (a2 := if opt_eqb (s_host (scopes a1 origin)) t
                 then upd_scope a1 origin (fun c => sc_pending (S (s_pending c)) c) else a1) in *.
      assert (E2 : tasks a2 = tasks a1 /\ futs a2 = futs a1 /\ ready a2 = ready a1).
      { unfold a2. destruct (opt_eqb (s_host (scopes a1 origin)) t); repeat split; reflexivity. }
      destruct E2 as [E2t [E2f E2r]].
      assert (Hda : k_done (tasks a t) = None) by (rewrite (tcore_done _ _ Kt); exact Ed).
      assert (Hwa : k_waiter (tasks a t) = k_waiter (tasks s0 t)) by apply (tcore_waiter _ _ Kt).
      unfold requested. rewrite E2t, E2f, E2r.
      destruct (k_waiter (tasks s0 t)) as [f|] eqn:Ewt.
      * right. exists f. unfold fut_pending in Ew.
        destruct (f_st (futs a f)) eqn:Ep; try discriminate.
        assert (Hfw : f_waiter (futs a f) = Some t).
        { rewrite (kf_fwaiter _ _ K f). apply WL; [exact Ewt|]. exact (pend_back a f K Ep). }
        unfold a1. rewrite (task_cancel_pending a t (S origin) f Hda Hwa Ep). cbv zeta. rewrite Hfw.
        cbn. unfold upd. rewrite !Nat.eqb_refl. cbn.
        split; [exact Em|]. split; [exact Hwa|]. split; [reflexivity|].
        apply in_or_app. right. now left.
      * left. unfold a1. rewrite (task_cancel_nowaiter a t (S origin) Hda Hwa).
        cbn. unfold upd. rewrite !Nat.eqb_refl. cbn. repeat split. exact Hwa.
  Qed.

  Lemma Q_fold_tasks self l : forall a r, Q a ->
    let res := fold_left (deliver_task self origin) l (a, r) in
    Q (fst res) /\ (forall t, In t l -> elig t self -> requested (fst res) t (S origin)) /\
    (snd res = true <-> r = true \/ exists t, In t l /\ k_done (tasks s0 t) = None).
  Proof.
    induction l as [|t l IH]; intros a r HQ; cbn [fold_left].
    - cbn. split; [exact HQ|]. split; [intros t []|]. split; [now left|]. intros [H|[t [[] _]]]. exact H.
    - destruct (Q_deliver_task self a r t HQ) as [HQ1 [He Hr]].
      destruct (deliver_task self origin (a, r) t) as [a1 r1] eqn:E. cbn [fst snd] in *.
      destruct (IH a1 r1 HQ1) as [HQ2 [He2 Hr2]]. cbv zeta in *.
      split; [exact HQ2|]. split.
      + intros t' [->|Hin] El; [|now apply He2].
        apply requested_fold_deliver_task. now apply He.
      + rewrite Hr2. subst r1. destruct (k_done (tasks s0 t)) eqn:Ed.
        * split.
          -- intros [H|[t' [Hin Hd]]]; [now left|]. right. exists t'. split; [now right|exact Hd].
          -- intros [H|[t' [[->|Hin] Hd]]]; [now left|congruence|]. right. exists t'. now split.
        * split; [|now left]. intros _. right. exists t. split; [now left|exact Ed].
  Qed.

  Lemma Q_deliver fu : forall a self, Q a ->
    let res := deliver fu a self origin in
    Q (fst res) /\
    (forall x t, dreach s0 fu self x t -> elig t x -> requested (fst res) t (S origin)) /\
    (snd res = true <-> exists x t, dreach s0 fu self x t /\ k_done (tasks s0 t) = None).
  Proof.
    induction fu as [|fu IH]; intros a self HQ.
    - cbn. split; [exact HQ|]. split; [intros x t H; inversion H|].
      split; [discriminate|]. intros [x [t [H _]]]. inversion H.
    - cbv zeta. rewrite deliver_unfold.
      destruct (Q_fold_tasks self (s_tasks (scopes a self)) a false HQ) as [HQ1 [He1 Hr1]].
      destruct (fold_left (deliver_task self origin) (s_tasks (scopes a self)) (a, false)) as [s1 r1] eqn:E1.
      cbn [fst snd] in *.
      (* the fold over the children *)
      assert (F : forall l b r, Q b ->
                let res := fold_left (dstep fu origin) l (b, r) in
                Q (fst res) /\
                (forall ch x t, In ch l -> s_shield (scopes s0 ch) = false -> s_cancelled (scopes s0 ch) = false ->
                   dreach s0 fu ch x t -> elig t x -> requested (fst res) t (S origin)) /\
                (snd res = true <-> r = true \/
                   exists ch x t, In ch l /\ s_shield (scopes s0 ch) = false /\ s_cancelled (scopes s0 ch) = false /\
                                  dreach s0 fu ch x t /\ k_done (tasks s0 t) = None)).
      { induction l as [|c l IHl]; intros b r Hb; cbn [fold_left].
        - cbn. split; [exact Hb|]. split; [intros ch x t []|]. split; [now left|].
          intros [H|[ch [x [t [[] _]]]]]. exact H.
        - assert (Ksb : kframe s0 b) by apply Hb.
          assert (Es : dstep fu origin (b, r) c =
                       if negb (s_shield (scopes s0 c)) && negb (s_cancelled (scopes s0 c))
                       then (let '(a', r') := deliver fu b c origin in (a', r' || r)) else (b, r)).
          { unfold dstep.
            now rewrite (core_shield _ _ (kf_scopes _ _ Ksb c)), (core_cancelled _ _ (kf_scopes _ _ Ksb c)). }
          rewrite Es. clear Es.
          destruct (negb (s_shield (scopes s0 c)) && negb (s_cancelled (scopes s0 c))) eqn:Eg.
          + apply andb_true_iff in Eg. destruct Eg as [Eg1 Eg2].
            apply negb_true_iff in Eg1, Eg2.
            destruct (IH b c Hb) as [Hb1 [He Hr]].
            destruct (deliver fu b c origin) as [b' r'] eqn:Ed. cbn [fst snd] in *.
            destruct (IHl b' (r' || r) Hb1) as [Hb2 [He2 Hr2]]. cbv zeta in *.
            split; [exact Hb2|]. split.
            * intros ch x t [->|Hin] Hs Hc Hd El; [|now apply (He2 ch x t)].
              assert (R : requested b' t (S origin)) by now apply (He x t).
              now apply requested_fold_dstep.
            * rewrite Hr2, orb_true_iff, Hr. split.
              -- intros [[[x [t [Hd Hk]]]|H]|[ch [x [t [Hin H]]]]].
                 ++ right. exists c, x, t. repeat split; try assumption. now left.
                 ++ now left.
                 ++ right. exists ch, x, t. split; [now right|exact H].
              -- intros [H|[ch [x [t [[->|Hin] [H1 [H2 [H3 H4]]]]]]]].
                 ++ left. now right.
                 ++ left. left. now exists x, t.
                 ++ right. exists ch, x, t. repeat split; assumption.
          + destruct (IHl b r Hb) as [Hb2 [He2 Hr2]]. cbv zeta in *.
            split; [exact Hb2|]. split.
            * intros ch x t [->|Hin] Hs Hc Hd El; [|now apply (He2 ch x t)].
              rewrite Hs, Hc in Eg. discriminate.
            * rewrite Hr2. split.
              -- intros [H|[ch [x [t [Hin H]]]]]; [now left|]. right. exists ch, x, t. split; [now right|exact H].
              -- intros [H|[ch [x [t [[->|Hin] [H1 [H2 [H3 H4]]]]]]]]; [now left| |].
                 ++ rewrite H1, H2 in Eg. discriminate.
                 ++ right. exists ch, x, t. repeat split; assumption. }
      assert (Ks1 : kframe s0 s1) by apply HQ1.
      destruct (F (s_children (scopes s1 self)) s1 r1 HQ1) as [HQ2 [He2 Hr2]].
      destruct (fold_left (dstep fu origin) (s_children (scopes s1 self)) (s1, r1)) as [s2 r2] eqn:E2.
      cbn [fst snd] in *.
      assert (Ka : kframe s0 a) by apply HQ.
      (* facts about (s2, r2), then the wrap-up at the origin *)
      assert (G2 : forall x t, dreach s0 (S fu) self x t -> elig t x -> requested s2 t (S origin)).
      { intros x t Hd El. inversion Hd; subst.
        - assert (R : requested s1 t (S origin)).
          { apply He1; [|exact El]. now rewrite (core_tasks _ _ (kf_scopes _ _ Ka x)). }
          change s2 with (fst (s2, r2)). rewrite <- E2. now apply requested_fold_dstep.
        - apply (He2 ch x t); try assumption.
          now rewrite (core_children _ _ (kf_scopes _ _ Ks1 self)). }
      assert (G3 : r2 = true <-> exists x t, dreach s0 (S fu) self x t /\ k_done (tasks s0 t) = None).
      { rewrite Hr2, Hr1. split.
        - intros [[H|[t [Hin Hd]]]|[ch [x [t [Hin [H1 [H2 [H3 H4]]]]]]]]; [discriminate| |].
          + exists self, t. split; [|exact Hd]. apply dr_here.
            now rewrite <- (core_tasks _ _ (kf_scopes _ _ Ka self)).
          + exists x, t. split; [|exact H4]. eapply dr_child; eauto.
            now rewrite <- (core_children _ _ (kf_scopes _ _ Ks1 self)).
        - intros [x [t [Hd Hk]]]. inversion Hd; subst.
          + left. right. exists t. split; [|exact Hk].
            now rewrite (core_tasks _ _ (kf_scopes _ _ Ka x)).
          + right. exists ch, x, t. repeat split; try assumption.
            now rewrite (core_children _ _ (kf_scopes _ _ Ks1 self)). }
      assert (W : forall b, Q s2 -> kframe s2 b -> tasks b = tasks s2 -> futs b = futs s2 -> Q b).
      { intros b [K2 H2] Kb Et Ef. split; [eapply kframe_trans; eauto|].
        intros t. destruct (H2 t) as [[U1 U2]|R].
        - left. split; [now rewrite Et|]. intros f Hf. rewrite Ef. now apply U2.
        - right. destruct R as [R|[f [R0 [R1 [R2 R3]]]]]; [left; now rewrite Et|right].
          exists f. rewrite Et, Ef. repeat split; try assumption.
          destruct (kf_ready _ _ Kb) as [l [El _]]. rewrite El. apply in_or_app. now left. }
      destruct (Nat.eqb origin self).
      + destruct r2; cbn [fst snd].
        * split; [|split; [|exact G3]].
          -- apply W; [exact HQ2| |reflexivity|reflexivity].
             eapply kframe_trans; [|apply kframe_call_soon; exact I].
             apply kframe_upd_scope. intros k; reflexivity.
          -- intros x t Hd El. apply requested_call_soon, requested_chandle. now apply (G2 x t).
        * split; [|split; [|exact G3]].
          -- apply W; [exact HQ2| |reflexivity|reflexivity]. apply kframe_upd_scope. intros k; reflexivity.
          -- intros x t Hd El. apply requested_chandle. now apply (G2 x t).
      + cbn [fst snd]. split; [exact HQ2|]. split; [exact G2|exact G3].
  Qed.
End DeliverSpec.

(* ---------------- scopes other than the origin are not touched at all ---------------- *)
Lemma fut_complete_scopes s f v : scopes (fut_complete s f v) = scopes s.
Proof.
  unfold fut_complete. destruct (f_st (futs s f)); try reflexivity.
  destruct (f_waiter (futs s f)); reflexivity.
Qed.

Lemma task_cancel_scopes s t o : scopes (task_cancel s t o) = scopes s.
Proof.
  unfold task_cancel. destruct (k_done (tasks s t)); [reflexivity|].
  destruct (k_waiter (tasks s t)); [|reflexivity].
  destruct (fut_pending _ f); [|reflexivity]. now rewrite fut_complete_scopes.
Qed.

Lemma deliver_task_scopes_other self origin a r t c' : c' <> origin ->
  scopes (fst (deliver_task self origin (a, r) t)) c' = scopes a c'.
Proof.
  intros Hne. unfold deliver_task.
  destruct (k_done (tasks a t)); [reflexivity|]. destruct (k_must (tasks a t)); [reflexivity|].
  destruct (_ && _); [|reflexivity].
  destruct (match k_waiter (tasks a t) with Some f => fut_pending a f | None => true end); [|reflexivity].
  cbn [fst]. destruct (opt_eqb _ t).
  - cbn. unfold upd. destruct (Nat.eqb_spec c' origin); [contradiction|]. now rewrite task_cancel_scopes.
  - now rewrite task_cancel_scopes.
Qed.

Lemma fold_deliver_task_scopes_other self origin c' l : c' <> origin -> forall a r,
  scopes (fst (fold_left (deliver_task self origin) l (a, r))) c' = scopes a c'.
Proof.
  intros Hne. induction l as [|t l IH]; intros a r; cbn [fold_left]; [reflexivity|].
  destruct (deliver_task self origin (a, r) t) as [a1 r1] eqn:E. rewrite IH.
  change a1 with (fst (a1, r1)). rewrite <- E. now apply deliver_task_scopes_other.
Qed.

Lemma deliver_scopes_other origin c' fu : c' <> origin -> forall a self,
  scopes (fst (deliver fu a self origin)) c' = scopes a c'.
Proof.
  intros Hne. induction fu as [|fu IH]; intros a self; [reflexivity|].
  rewrite deliver_unfold.
  pose proof (fold_deliver_task_scopes_other self origin c' (s_tasks (scopes a self)) Hne a false) as H1.
  destruct (fold_left (deliver_task self origin) (s_tasks (scopes a self)) (a, false)) as [s1 r1].
  cbn [fst] in H1.
  assert (F : forall l b r, scopes (fst (fold_left (dstep fu origin) l (b, r))) c' = scopes b c').
  { induction l as [|c l IHl]; intros b r; cbn [fold_left]; [reflexivity|].
    destruct (dstep fu origin (b, r) c) as [b1 r1'] eqn:Es. rewrite IHl.
    unfold dstep in Es. destruct (negb (s_shield (scopes b c)) && negb (s_cancelled (scopes b c))).
    - destruct (deliver fu b c origin) as [b' r'] eqn:Ed. inversion Es; subst.
      change b1 with (fst (b1, r')). rewrite <- Ed. apply IH.
    - now inversion Es; subst. }
  pose proof (F (s_children (scopes s1 self)) s1 r1) as H2.
  destruct (fold_left (dstep fu origin) (s_children (scopes s1 self)) (s1, r1)) as [s2 r2].
  cbn [fst] in H2.
  destruct (Nat.eqb_spec origin self) as [->|Hos]; [|cbn [fst]; now rewrite H2].
  destruct r2; cbn; unfold upd; destruct (Nat.eqb_spec c' self); try contradiction; now rewrite H2.
Qed.

(* ---------------- deliver at the top: the C03 function-level statement ---------------- *)
Theorem deliver_top_spec s c : wait_link s ->
  let s' := deliver_top s c in
  kframe s s' /\
  (forall c', c' <> c -> scopes s' c' = scopes s c') /\
  (forall x t, dreach s (S (nscope s)) c x t -> elig s t x -> requested s' t (S c)) /\
  ((exists x t, dreach s (S (nscope s)) c x t /\ k_done (tasks s t) = None) ->
     s_chandle (scopes s' c) = true /\ In (HDeliver c) (ready s')) /\
  (~ (exists x t, dreach s (S (nscope s)) c x t /\ k_done (tasks s t) = None) ->
     s_chandle (scopes s' c) = false).
Proof.
  intros WL s'. split; [apply kframe_deliver_top|]. split.
  { intros c' Hne. now apply deliver_scopes_other. }
  assert (HQ : Q s c s).
  { split; [apply kframe_refl|]. intros t. left. split; [reflexivity|]. intros; reflexivity. }
  destruct (Q_deliver s c WL (S (nscope s)) s c HQ) as [_ [He Hr]]. cbv zeta in *.
  split; [exact He|].
  unfold s', deliver_top. rewrite deliver_unfold in *.
  destruct (fold_left (deliver_task c c) (s_tasks (scopes s c)) (s, false)) as [s1 r1].
  destruct (fold_left (dstep (nscope s) c) (s_children (scopes s1 c)) (s1, r1)) as [s2 r2].
  rewrite Nat.eqb_refl in *. destruct r2; cbn [fst snd] in *.
  - split.
    + intros _. split; [cbn; unfold upd; now rewrite Nat.eqb_refl|].
      cbn. apply in_or_app. right. now left.
    + intros Hn. exfalso. apply Hn. now apply Hr.
  - split.
    + intros H. apply Hr in H. discriminate.
    + intros _. cbn. unfold upd. now rewrite Nat.eqb_refl.
Qed.

Theorem deliver_reschedules_iff_retry fu s c :
  let s' := fst (deliver (S fu) s c c) in
  let r := snd (deliver (S fu) s c c) in
  s_chandle (scopes s' c) = r /\
  (r = true -> exists l, ready s' = l ++ [HDeliver c]) /\
  (r = false -> ~ In (HDeliver c) (ready s) -> forall c', c' <> c -> scopes s' c' = scopes s c').
Proof.
  cbv zeta. split; [|split].
  - rewrite deliver_unfold.
    destruct (fold_left (deliver_task c c) (s_tasks (scopes s c)) (s, false)) as [s1 r1].
    destruct (fold_left (dstep fu c) (s_children (scopes s1 c)) (s1, r1)) as [s2 r2].
    rewrite Nat.eqb_refl. destruct r2; cbn; unfold upd; now rewrite Nat.eqb_refl.
  - rewrite deliver_unfold.
    destruct (fold_left (deliver_task c c) (s_tasks (scopes s c)) (s, false)) as [s1 r1].
    destruct (fold_left (dstep fu c) (s_children (scopes s1 c)) (s1, r1)) as [s2 r2].
    rewrite Nat.eqb_refl. destruct r2; cbn [fst snd]; [|discriminate].
    intros _. exists (ready s2). reflexivity.
  - intros _ _ c' Hne. now apply deliver_scopes_other.
Qed.

(* ---------------- retry flag of deliver, without any assumption on the kernel state ---------------- *)
Lemma deliver_task_retry self origin a r t :
  snd (deliver_task self origin (a, r) t) = match k_done (tasks a t) with Some _ => r | None => true end.
Proof.
  unfold deliver_task. destruct (k_done (tasks a t)); [reflexivity|].
  destruct (k_must (tasks a t)); [reflexivity|]. destruct (_ && _); [|reflexivity].
  destruct (match k_waiter (tasks a t) with Some f => fut_pending a f | None => true end); reflexivity.
Qed.

Lemma fold_deliver_task_retry s0 self origin l : forall a r, kframe s0 a ->
  (snd (fold_left (deliver_task self origin) l (a, r)) = true <->
   r = true \/ exists t, In t l /\ k_done (tasks s0 t) = None).
Proof.
  induction l as [|t l IH]; intros a r K; cbn [fold_left].
  - cbn. split; [now left|]. intros [H|[t [[] _]]]. exact H.
  - pose proof (deliver_task_retry self origin a r t) as Hr.
    pose proof (kframe_deliver_task self origin a r t) as Ks.
    destruct (deliver_task self origin (a, r) t) as [a1 r1]. cbn [fst snd] in *.
    rewrite (IH a1 r1 (kframe_trans _ _ _ K Ks)). subst r1.
    rewrite (tcore_done _ _ (kf_tasks _ _ K t)).
    destruct (k_done (tasks s0 t)) eqn:Ed.
    + split.
      * intros [H|[t' [Hin Hd]]]; [now left|]. right. exists t'. split; [now right|exact Hd].
      * intros [H|[t' [[->|Hin] Hd]]]; [now left|congruence|]. right. exists t'. now split.
    + split; [|now left]. intros _. right. exists t. split; [now left|exact Ed].
Qed.

Lemma deliver_retry s0 origin fu : forall a self, kframe s0 a ->
  (snd (deliver fu a self origin) = true <-> exists x t, dreach s0 fu self x t /\ k_done (tasks s0 t) = None).
Proof.
  induction fu as [|fu IH]; intros a self K.
  - cbn. split; [discriminate|]. intros [x [t [H _]]]. inversion H.
  - rewrite deliver_unfold.
    pose proof (fold_deliver_task_retry s0 self origin (s_tasks (scopes a self)) a false K) as Hr1.
    pose proof (kframe_fold_deliver_task self origin (s_tasks (scopes a self)) a false) as K1.
    destruct (fold_left (deliver_task self origin) (s_tasks (scopes a self)) (a, false)) as [s1 r1].
    cbn [fst snd] in *.
    assert (Ks1 : kframe s0 s1) by (eapply kframe_trans; eauto).
    assert (F : forall l b r, kframe s0 b ->
              kframe s0 (fst (fold_left (dstep fu origin) l (b, r))) /\
              (snd (fold_left (dstep fu origin) l (b, r)) = true <-> r = true \/
               exists ch x t, In ch l /\ s_shield (scopes s0 ch) = false /\ s_cancelled (scopes s0 ch) = false /\
                              dreach s0 fu ch x t /\ k_done (tasks s0 t) = None)).
    { induction l as [|c l IHl]; intros b r Kb; cbn [fold_left].
      - cbn. split; [exact Kb|]. split; [now left|]. intros [H|[ch [x [t [[] _]]]]]. exact H.
      - assert (Es : dstep fu origin (b, r) c =
                     if negb (s_shield (scopes s0 c)) && negb (s_cancelled (scopes s0 c))
                     then (let '(a', r') := deliver fu b c origin in (a', r' || r)) else (b, r)).
        { unfold dstep.
          now rewrite (core_shield _ _ (kf_scopes _ _ Kb c)), (core_cancelled _ _ (kf_scopes _ _ Kb c)). }
        rewrite Es. clear Es.
        destruct (negb (s_shield (scopes s0 c)) && negb (s_cancelled (scopes s0 c))) eqn:Eg.
        + apply andb_true_iff in Eg. destruct Eg as [Eg1 Eg2]. apply negb_true_iff in Eg1, Eg2.
          pose proof (IH b c Kb) as Hr. pose proof (kframe_deliver fu b c origin) as Kd.
          destruct (deliver fu b c origin) as [b' r']. cbn [fst snd] in *.
          destruct (IHl b' (r' || r) (kframe_trans _ _ _ Kb Kd)) as [Kl Hl]. split; [exact Kl|].
          rewrite Hl, orb_true_iff, Hr. split.
          * intros [[[x [t [Hd Hk]]]|H]|[ch [x [t [Hin H]]]]].
            -- right. exists c, x, t. repeat split; try assumption. now left.
            -- now left.
            -- right. exists ch, x, t. split; [now right|exact H].
          * intros [H|[ch [x [t [[->|Hin] [H1 [H2 [H3 H4]]]]]]]].
            -- left. now right.
            -- left. left. now exists x, t.
            -- right. exists ch, x, t. repeat split; assumption.
        + destruct (IHl b r Kb) as [Kl Hl]. split; [exact Kl|]. rewrite Hl. split.
          * intros [H|[ch [x [t [Hin H]]]]]; [now left|]. right. exists ch, x, t. split; [now right|exact H].
          * intros [H|[ch [x [t [[->|Hin] [H1 [H2 [H3 H4]]]]]]]]; [now left| |].
            -- rewrite H1, H2 in Eg. discriminate.
            -- right. exists ch, x, t. repeat split; assumption. }
    destruct (F (s_children (scopes s1 self)) s1 r1 Ks1) as [_ Hr2].
    destruct (fold_left (dstep fu origin) (s_children (scopes s1 self)) (s1, r1)) as [s2 r2].
    cbn [fst snd] in *.
    assert (G3 : r2 = true <-> exists x t, dreach s0 (S fu) self x t /\ k_done (tasks s0 t) = None).
    { rewrite Hr2, Hr1. split.
      - intros [[H|[t [Hin Hd]]]|[ch [x [t [Hin [H1 [H2 [H3 H4]]]]]]]]; [discriminate| |].
        + exists self, t. split; [|exact Hd]. apply dr_here.
          now rewrite <- (core_tasks _ _ (kf_scopes _ _ K self)).
        + exists x, t. split; [|exact H4]. eapply dr_child; eauto.
          now rewrite <- (core_children _ _ (kf_scopes _ _ Ks1 self)).
      - intros [x [t [Hd Hk]]]. inversion Hd; subst.
        + left. right. exists t. split; [|exact Hk].
          now rewrite (core_tasks _ _ (kf_scopes _ _ K x)).
        + right. exists ch, x, t. repeat split; try assumption.
          now rewrite (core_children _ _ (kf_scopes _ _ Ks1 self)). }
    destruct (Nat.eqb origin self); [destruct r2|]; cbn [snd]; exact G3.
Qed.

Lemma deliver_top_chandle s c :
  s_chandle (scopes (deliver_top s c) c) = true <->
  exists x t, dreach s (S (nscope s)) c x t /\ k_done (tasks s t) = None.
Proof.
  rewrite <- (deliver_retry s c (S (nscope s)) s c (kframe_refl s)).
  unfold deliver_top. rewrite deliver_unfold.
  destruct (fold_left (deliver_task c c) (s_tasks (scopes s c)) (s, false)) as [s1 r1].
  destruct (fold_left (dstep (nscope s) c) (s_children (scopes s1 c)) (s1, r1)) as [s2 r2].
  rewrite Nat.eqb_refl. destruct r2; cbn; unfold upd; rewrite Nat.eqb_refl; cbn; split; auto.
Qed.

Lemma deliver_top_ready s c :
  s_chandle (scopes (deliver_top s c) c) = true -> In (HDeliver c) (ready (deliver_top s c)).
Proof.
  unfold deliver_top. rewrite deliver_unfold.
  destruct (fold_left (deliver_task c c) (s_tasks (scopes s c)) (s, false)) as [s1 r1].
  destruct (fold_left (dstep (nscope s) c) (s_children (scopes s1 c)) (s1, r1)) as [s2 r2].
  rewrite Nat.eqb_refl. destruct r2; cbn; unfold upd; rewrite Nat.eqb_refl; cbn.
  - intros _. apply in_or_app. right. now left.
  - discriminate.
Qed.

(* what one delivery does to an arbitrary task: nothing, or a request with this origin *)
Lemma deliver_top_task s c t : wait_link s ->
  (tasks (deliver_top s c) t = tasks s t /\
   forall f, k_waiter (tasks s t) = Some f -> futs (deliver_top s c) f = futs s f) \/
  requested (deliver_top s c) t (S c).
Proof.
  intros WL.
  assert (HQ : Q s c s).
  { split; [apply kframe_refl|]. intros x. left. split; [reflexivity|]. intros; reflexivity. }
  destruct (Q_deliver s c WL (S (nscope s)) s c HQ) as [[_ H] _]. exact (H t).
Qed.
