(* C07: the caller waiting in CStartJoin is not reached by any delivery of cancellation.
   Part 1: the join predicate JP, the relation jr and the primitive moves of the machine. *)
From AV Require Import Base Machine GroupInv GroupInv2 GroupInv3 GroupInv4 GroupInv5 GroupInv6 GroupInv7 GroupInv8
  GroupInv9 GroupThms2 GroupThms5b.

Section Join.
Variables (tj : tid) (fj : fid) (scj : sid) (ch : tid) (ej : exn).

(* what keeps the joining caller tj out of reach: it is a member of the private scope scj only; scj is shielded,
   not cancelled, active, hosted by tj and has no deadline; tj waits on fj and nobody else does, fj is nobody's
   start future; ids in use are below the counters; scj is nobody's handle scope and no group's scope *)
Record JP (X : st) : Prop := {
  jp_tasks : forall x, In tj (s_tasks (scopes X x)) -> x = scj;
  jp_shield : s_shield (scopes X scj) = true;
  jp_ncanc : s_cancelled (scopes X scj) = false;
  jp_act : s_active (scopes X scj) = true;
  jp_host : s_host (scopes X scj) = Some tj;
  jp_dl : s_deadline (scopes X scj) = None;
  jp_w : k_waiter (tasks X tj) = Some fj;
  jp_uniq : forall x, k_waiter (tasks X x) = Some fj -> x = tj;
  jp_fw : f_waiter (futs X fj) = Some tj;
  jp_ctl : k_ctl (tasks X tj) = CStartJoin ch scj ej (Some fj);
  jp_sf : forall x, k_startfut (tasks X x) <> Some fj;
  jp_t : tj < ntask X;
  jp_f : fj < nfut X;
  jp_sc : scj < nscope X;
  jp_pos : scj <> 0;
  jp_hs : forall x, k_hscope (tasks X x) <> scj;
  jp_gs : forall g, g_scope (groups X g) <> scj
}.

Definition jres (X Y : st) : Prop :=
  tasks Y tj = tasks X tj /\
  (f_st (futs Y fj) = f_st (futs X fj) \/ exists v, f_st (futs Y fj) = FRes v).

Definition jr (X Y : st) : Prop := JP X -> JP Y /\ jres X Y.

Lemma jr_refl X : jr X X.
Proof. intros J. split; [exact J|]. split; auto. Qed.

Lemma jr_trans A B C : jr A B -> jr B C -> jr A C.
Proof.
  intros H1 H2 J. destruct (H1 J) as [JB [T1 F1]]. destruct (H2 JB) as [JC [T2 F2]].
  split; [exact JC|]. split; [congruence|]. destruct F2 as [F2|F2]; [|right; exact F2].
  destruct F1 as [F1|[v F1]]; [left; congruence|right; exists v; congruence].
Qed.

Lemma jr_pre X Y : (JP X -> jr X Y) -> jr X Y.
Proof. intros H J. exact (H J J). Qed.

(* a fact P known at A is used for the second leg *)
Lemma jr_trans_pre (P : Prop) A B C : (JP A -> P) -> jr A B -> (P -> jr B C) -> jr A C.
Proof. intros HP H1 H2. apply jr_pre. intros J. eapply jr_trans; [exact H1|apply H2, HP, J]. Qed.

Definition scq (X Y : st) : Prop :=
  s_shield (scopes Y scj) = s_shield (scopes X scj) /\ s_cancelled (scopes Y scj) = s_cancelled (scopes X scj) /\
  s_active (scopes Y scj) = s_active (scopes X scj) /\ s_host (scopes Y scj) = s_host (scopes X scj) /\
  s_deadline (scopes Y scj) = s_deadline (scopes X scj).

Record jx (X Y : st) : Prop := {
  jx_mem : forall x, In tj (s_tasks (scopes Y x)) -> In tj (s_tasks (scopes X x));
  jx_scq : scq X Y;
  jx_tj : tasks Y tj = tasks X tj;
  jx_w : forall x, k_waiter (tasks Y x) = Some fj -> k_waiter (tasks X x) = Some fj;
  jx_fw : f_waiter (futs Y fj) = f_waiter (futs X fj);
  jx_fs : f_st (futs Y fj) = f_st (futs X fj) \/ exists v, f_st (futs Y fj) = FRes v;
  jx_sf : forall x, k_startfut (tasks Y x) = Some fj -> k_startfut (tasks X x) = Some fj;
  jx_nt : ntask X <= ntask Y;
  jx_nf : nfut X <= nfut Y;
  jx_ns : nscope X <= nscope Y;
  jx_hs : forall x, k_hscope (tasks Y x) = k_hscope (tasks X x) \/ k_hscope (tasks Y x) <> scj;
  jx_gs : forall g, g_scope (groups Y g) = g_scope (groups X g) \/ g_scope (groups Y g) <> scj
}.

Lemma jr_ext X Y : (JP X -> jx X Y) -> jr X Y.
Proof.
  intros H J. destruct (H J) as [E1 [S1 [S2 [S3 [S4 S5]]]] E3 E4 E5 E6 E6b N1 N2 N3 E7 E8].
  split; [|split; assumption]. constructor.
  - intros x Hx. apply (jp_tasks X J), E1, Hx.
  - rewrite S1. apply J.
  - rewrite S2. apply J.
  - rewrite S3. apply J.
  - rewrite S4. apply J.
  - rewrite S5. apply J.
  - rewrite E3. apply J.
  - intros x Hx. apply (jp_uniq X J), E4, Hx.
  - rewrite E5. apply J.
  - rewrite E3. apply J.
  - intros x Hx. apply (jp_sf X J x), E6b, Hx.
  - pose proof (jp_t X J). lia.
  - pose proof (jp_f X J). lia.
  - pose proof (jp_sc X J). lia.
  - apply J.
  - intros x. destruct (E7 x) as [E|E]; [rewrite E; apply J|exact E].
  - intros g. destruct (E8 g) as [E|E]; [rewrite E; apply J|exact E].
Qed.

Lemma scq_refl X : scq X X.
Proof. unfold scq. tauto. Qed.

Lemma scq_scopes X Y : scopes Y = scopes X -> scq X Y.
Proof. intros E. unfold scq. rewrite E. tauto. Qed.

(* states that agree on everything JP looks at *)
Lemma jr_eqg X Y : scopes Y = scopes X -> tasks Y = tasks X -> futs Y = futs X ->
  ntask Y = ntask X -> nfut Y = nfut X -> nscope Y = nscope X ->
  (forall g, g_scope (groups Y g) = g_scope (groups X g)) -> jr X Y.
Proof.
  intros E1 E2 E3 E5 E6 E7 E4. apply jr_ext. intros _.
  constructor; rewrite ?E1, ?E2, ?E3, ?E5, ?E6, ?E7; auto using scq_scopes.
Qed.

Lemma jr_eq X Y : scopes Y = scopes X -> tasks Y = tasks X -> futs Y = futs X -> groups Y = groups X ->
  ntask Y = ntask X -> nfut Y = nfut X -> nscope Y = nscope X -> jr X Y.
Proof. intros E1 E2 E3 E4 E5 E6 E7. apply jr_eqg; auto. intros g. now rewrite E4. Qed.

Lemma jr_upd_group X g h : (forall y, g_scope (h y) = g_scope y) -> jr X (upd_group X g h).
Proof.
  intros H. apply jr_eqg; try reflexivity. intros g0. cbn [upd_group set_groups groups]. unfold upd.
  destruct (Nat.eqb g0 g) eqn:E; [apply Nat.eqb_eq in E; subst; apply H|reflexivity].
Qed.

Definition jkeeps (g : task -> task) : Prop :=
  forall k, k_hscope (g k) = k_hscope k /\ (k_waiter (g k) = k_waiter k \/ k_waiter (g k) <> Some fj) /\
            k_startfut (g k) = k_startfut k.

Lemma jr_upd_task X x g : x <> tj -> jkeeps g -> jr X (upd_task X x g).
Proof.
  intros Hx Hg. apply jr_ext. intros J.
  assert (V : forall y, tasks (upd_task X x g) y = if Nat.eqb y x then g (tasks X x) else tasks X y) by (intros y; reflexivity).
  constructor; try (cbn; auto; fail).
  - apply scq_scopes. reflexivity.
  - rewrite V. destruct (Nat.eqb_spec tj x); [congruence|reflexivity].
  - intros y. rewrite V. destruct (Nat.eqb_spec y x) as [->|Hy]; [|auto].
    destruct (Hg (tasks X x)) as [_ [[E|E] _]]; [rewrite E; auto|intros E2; contradiction].
  - intros y. rewrite V. destruct (Nat.eqb_spec y x) as [->|Hy]; [|auto].
    destruct (Hg (tasks X x)) as [_ [_ E]]. rewrite E. auto.
  - intros y. rewrite V. destruct (Nat.eqb_spec y x) as [->|Hy]; [|auto]. left. apply Hg.
Qed.

Lemma jkeeps_ctl c : jkeeps (tk_ctl c). Proof. intros k. cbn. auto. Qed.
Lemma jkeeps_waiter_none : jkeeps (tk_waiter None). Proof. intros k. cbn. split; [auto|split; [right; discriminate|auto]]. Qed.
Lemma jkeeps_waiter f : f <> fj -> jkeeps (tk_waiter (Some f)).
Proof. intros H k. cbn. split; [auto|split; [right; congruence|auto]]. Qed.
Lemma jkeeps_must b m : jkeeps (tk_must b m). Proof. intros k. cbn. auto. Qed.
Lemma jkeeps_held h : jkeeps (tk_held h). Proof. intros k. cbn. auto. Qed.
Lemma jkeeps_started b : jkeeps (tk_started b). Proof. intros k. cbn. auto. Qed.
Lemma jkeeps_cur c : jkeeps (tk_cur c). Proof. intros k. cbn. auto. Qed.
Lemma jkeeps_final o : jkeeps (tk_final o). Proof. intros k. cbn. auto. Qed.
Lemma jkeeps_ncancel n : jkeeps (tk_ncancel n). Proof. intros k. cbn. auto. Qed.
Lemma jkeeps_irrel g : tk_irrel g -> jkeeps g.
Proof. intros H k. pose proof (H k) as V. intuition. Qed.

(* updating a scope record *)
Lemma jr_upd_scope X c g :
  (c = scj -> forall y, s_shield (g y) = s_shield y /\ s_cancelled (g y) = s_cancelled y /\
                        s_active (g y) = s_active y /\ s_host (g y) = s_host y /\ s_deadline (g y) = s_deadline y) ->
  (forall y, In tj (s_tasks (g y)) -> In tj (s_tasks y)) -> jr X (upd_scope X c g).
Proof.
  intros Hc Ht. apply jr_ext. intros J.
  assert (V : forall y, scopes (upd_scope X c g) y = if Nat.eqb y c then g (scopes X c) else scopes X y) by (intros y; reflexivity).
  constructor; try (cbn; auto; fail).
  - intros y. rewrite V. destruct (Nat.eqb_spec y c) as [->|Hy]; [apply Ht|auto].
  - unfold scq. rewrite V. destruct (Nat.eqb_spec scj c) as [E|E]; [|tauto].
    rewrite <- E. destruct (Hc (eq_sym E) (scopes X scj)) as [H1 [H2 [H3 [H4 H5]]]]. auto.
Qed.

Lemma jr_upd_scope_ne X c g : c <> scj -> (forall y, In tj (s_tasks (g y)) -> In tj (s_tasks y)) -> jr X (upd_scope X c g).
Proof. intros Hc. apply jr_upd_scope. intros E. contradiction. Qed.

Lemma in_tj_add t l : t <> tj -> In tj (add t l) -> In tj l.
Proof. intros Hne H. apply add_in in H. destruct H as [H|H]; [exact H|congruence]. Qed.
Lemma in_tj_del t l : In tj (del t l) -> In tj l.
Proof. intros H. apply del_in in H. tauto. Qed.

(* allocations *)
Lemma jr_nf X : jr X (nf X).
Proof.
  apply jr_ext. intros J. pose proof (jp_f X J) as Hf.
  assert (V : futs (nf X) fj = futs X fj).
  { unfold nf, new_fut. cbn [fst futs]. unfold upd. destruct (Nat.eqb_spec fj (nfut X)); [lia|reflexivity]. }
  constructor; try (cbn; auto; fail).
  - apply scq_scopes. reflexivity.
  - now rewrite V.
  - left. now rewrite V.
Qed.

Lemma jr_ns X d sh : jr X (ns X d sh).
Proof.
  apply jr_ext. intros J. pose proof (jp_sc X J) as Hs.
  assert (V : forall y, scopes (ns X d sh) y = if Nat.eqb y (nscope X) then sc_shield sh (sc_deadline d scope0) else scopes X y)
    by (intros y; reflexivity).
  constructor; try (cbn; auto; fail).
  - intros y. rewrite V. destruct (Nat.eqb_spec y (nscope X)); [cbn; tauto|auto].
  - unfold scq. rewrite V. destruct (Nat.eqb_spec scj (nscope X)); [lia|tauto].
Qed.

Lemma jr_talloc X k ev : k_hscope k <> scj -> k_waiter k <> Some fj -> k_startfut k <> Some fj -> jr X (talloc X k ev).
Proof.
  intros H1 H2 H3. apply jr_ext. intros J. pose proof (jp_t X J) as Ht.
  assert (V : forall y, tasks (talloc X k ev) y = if Nat.eqb y (ntask X) then k else tasks X y) by (intros y; reflexivity).
  constructor; try (cbn; auto; fail).
  - apply scq_scopes. reflexivity.
  - rewrite V. destruct (Nat.eqb_spec tj (ntask X)); [lia|reflexivity].
  - intros y. rewrite V. destruct (Nat.eqb_spec y (ntask X)); [intros E; contradiction|auto].
  - intros y. rewrite V. destruct (Nat.eqb_spec y (ntask X)); [intros E; contradiction|auto].
  - intros y. rewrite V. destruct (Nat.eqb_spec y (ntask X)); [right; exact H1|auto].
Qed.

(* futures *)
Lemma jr_fc X f v : (f <> fj \/ exists n, v = FRes n) -> jr X (fut_complete X f v).
Proof.
  intros Hf. destruct (fc_spec X f v) as [[_ ->]|[Hp [Ef _]]]; [apply jr_refl|].
  apply jr_ext. intros J.
  constructor; rewrite ?fc_tasks, ?fc_scopes, ?fc_groups, ?fc_ntask, ?fc_nfut, ?fc_nscope; auto.
  - apply scq_scopes. apply fc_scopes.
  - rewrite Ef. unfold upd. destruct (Nat.eqb_spec fj f); [subst; reflexivity|reflexivity].
  - rewrite Ef. unfold upd. destruct (Nat.eqb_spec fj f) as [E|E]; [|auto]. cbn.
    destruct Hf as [Hf|[n ->]]; [congruence|eauto].
Qed.

Lemma jr_upd_fut X f g : f <> fj -> jr X (upd_fut X f g).
Proof.
  intros Hf. apply jr_ext. intros J.
  assert (V : futs (upd_fut X f g) fj = futs X fj).
  { cbn [upd_fut set_futs futs]. unfold upd. destruct (Nat.eqb_spec fj f); [congruence|reflexivity]. }
  constructor; try (cbn; auto; fail).
  - apply scq_scopes. reflexivity.
  - now rewrite V.
  - left. now rewrite V.
Qed.

Ltac jeq0 := first [ apply jr_eq; reflexivity | apply jr_nf | apply jr_ns
                   | (eapply jr_trans; [apply jr_nf|]; apply jr_eq; reflexivity)
                   | (eapply jr_trans; [apply jr_ns|]; apply jr_eq; reflexivity) ].
Ltac jeq := first [ jeq0 | (eapply jr_trans; [|apply jr_upd_group; intros ?; reflexivity]; jeq0) ].

Lemma jr_task_cancel X x o : x <> tj -> jr X (task_cancel X x o).
Proof.
  intros Hx. unfold task_cancel. destruct (k_done (tasks X x)); [apply jr_refl|].
  set (s1 := upd_task X x (tk_ncancel (S (k_ncancel (tasks X x))))).
  assert (T1 : jr X s1) by (apply jr_upd_task; [exact Hx|apply jkeeps_ncancel]).
  destruct (k_waiter (tasks X x)) as [f|] eqn:Ew.
  - destruct (fut_pending s1 f).
    + eapply jr_trans; [exact T1|]. apply jr_pre. intros J. apply jr_fc. left. intros ->.
      apply Hx, (jp_uniq s1 J). unfold s1. tcase x x; [cbn; exact Ew|contradiction].
    + eapply jr_trans; [exact T1|]. apply jr_upd_task; [exact Hx|apply jkeeps_must].
  - eapply jr_trans; [exact T1|]. apply jr_upd_task; [exact Hx|apply jkeeps_must].
Qed.

Lemma jr_suspend_on X t f : t <> tj -> f <> fj -> jr X (suspend_on X t f).
Proof.
  intros Ht Hf.
  assert (A : jr X (upd_task (upd_fut X f (fun x => mkFut (f_st x) (Some t))) t (tk_waiter (Some f)))).
  { eapply jr_trans; [apply jr_upd_fut; exact Hf|]. apply jr_upd_task; [exact Ht|apply jkeeps_waiter, Hf]. }
  unfold suspend_on. destruct (f_st (futs X f)).
  - destruct (k_must (tasks X t)); [|exact A].
    eapply jr_trans; [exact A|]. eapply jr_trans; [|apply jr_upd_task; [exact Ht|apply jkeeps_must]].
    apply jr_fc. left. exact Hf.
  - eapply jr_trans; [exact A|jeq].
  - eapply jr_trans; [exact A|jeq].
  - eapply jr_trans; [exact A|jeq].
Qed.

Lemma jr_set_running X r : jr X (set_running X r).
Proof. jeq. Qed.

Lemma jr_call_soon X h : jr X (call_soon X h).
Proof. jeq. Qed.

Lemma jr_event_set X e : jr X (event_set X e).
Proof.
  rewrite event_set_eq. destruct (e_set (events X e)); [apply jr_refl|].
  assert (H : forall l a, jr a (fold_left (fun a f => fut_complete a f (FRes 1)) l a)).
  { induction l as [|f l IH]; intros a; cbn [fold_left]; [apply jr_refl|].
    apply (jr_trans a (fut_complete a f (FRes 1))); [apply jr_fc; right; eauto|apply IH]. }
  eapply jr_trans; [|apply H]. jeq.
Qed.

Lemma jr_finish_task X t o : t <> tj -> jr X (finish_task X t o).
Proof.
  intros Ht. rewrite finish_task_eq. cbn zeta. eapply jr_trans; [|apply jr_set_running].
  assert (T1 : jr X (upd_task X t (fin_rec (fin_outcome (tasks X t) o)))).
  { apply jr_upd_task; [exact Ht|]. intros k. cbn. split; [auto|split; [right; discriminate|auto]]. }
  destruct (k_group (tasks X t)); [|exact T1]. eapply jr_trans; [exact T1|jeq].
Qed.

(* ---------------- the cancel-scope machinery ---------------- *)
Lemma jr_timer_cancel X tm : jr X (timer_cancel X tm).
Proof. jeq. Qed.

Lemma jr_cancel_timeout X c : jr X (cancel_timeout X c).
Proof.
  unfold cancel_timeout. destruct (s_timeout (scopes X c)); [|apply jr_refl].
  eapply jr_trans; [apply jr_timer_cancel|]. apply jr_upd_scope; [intros _ y; cbn; tauto|intros y; cbn; auto].
Qed.

Lemma jr_deliver_task self origin a r t : t <> tj -> jr a (fst (deliver_task self origin (a, r) t)).
Proof.
  intros Ht. unfold deliver_task.
  destruct (k_done (tasks a t)); [apply jr_refl|].
  destruct (k_must (tasks a t)); [apply jr_refl|].
  destruct (negb (opt_eqb (running a) t) && _); [|apply jr_refl].
  destruct (match k_waiter (tasks a t) with Some f => fut_pending a f | None => true end); [|apply jr_refl].
  cbn [fst].
  destruct (opt_eqb (s_host (scopes (task_cancel a t (S origin)) origin)) t).
  - eapply jr_trans; [apply jr_task_cancel, Ht|]. apply jr_upd_scope; [intros _ y; cbn; tauto|intros y; cbn; auto].
  - apply jr_task_cancel, Ht.
Qed.

Lemma jr_fold {A} (f : st * bool -> A -> st * bool) (P : A -> Prop) :
  (forall a r x, P x -> jr a (fst (f (a, r) x))) ->
  forall l a r, (forall x, In x l -> P x) -> jr a (fst (fold_left f l (a, r))).
Proof.
  intros Hf l. induction l as [|x l IH]; intros a r Hl; cbn [fold_left]; [apply jr_refl|].
  destruct (f (a, r) x) as [a' r'] eqn:E.
  eapply jr_trans; [|apply IH; intros y Hy; apply Hl; now right].
  specialize (Hf a r x (Hl x (or_introl eq_refl))). now rewrite E in Hf.
Qed.

Lemma jr_deliver fuel : forall X self origin, self <> scj -> jr X (fst (deliver fuel X self origin)).
Proof.
  induction fuel as [|fu IH]; intros X self origin Hs; cbn [deliver]; [apply jr_refl|].
  apply jr_pre. intros J.
  destruct (fold_left (deliver_task self origin) (s_tasks (scopes X self)) (X, false)) as [s1 r1] eqn:E1.
  assert (K1 : jr X s1).
  { pose proof (jr_fold (deliver_task self origin) (fun t => t <> tj) (jr_deliver_task self origin)
                  (s_tasks (scopes X self)) X false) as H. rewrite E1 in H. apply H.
    intros x Hx ->. apply Hs, (jp_tasks X J), Hx. }
  match goal with |- context [fold_left ?f ?l (s1, r1)] =>
    destruct (fold_left f l (s1, r1)) as [s2 r2] eqn:E2;
    assert (K2 : jr s1 s2);
    [ pose proof (jr_fold f (fun _ => True)) as H; specialize (fun Hf => H Hf l s1 r1); rewrite E2 in H; apply H; [|auto] | ]
  end.
  { intros a r c _. destruct (negb (s_shield (scopes a c))) eqn:Esh; cbn [andb]; [|apply jr_refl].
    destruct (negb (s_cancelled (scopes a c))); [|apply jr_refl].
    apply jr_pre. intros Ja.
    assert (Hc : c <> scj) by (intros ->; rewrite (jp_shield a Ja) in Esh; discriminate).
    specialize (IH a c origin Hc). destruct (deliver fu a c origin) as [a' r']. exact IH. }
  assert (Hh : forall b, jr s2 (upd_scope s2 self (sc_chandle b)))
    by (intros b; apply jr_upd_scope; [intros _ y; cbn; tauto|intros y; cbn; auto]).
  destruct (Nat.eqb origin self).
  - destruct r2; cbn [fst].
    + eapply jr_trans; [exact K1|]. eapply jr_trans; [exact K2|]. eapply jr_trans; [apply Hh|jeq].
    + eapply jr_trans; [exact K1|]. eapply jr_trans; [exact K2|apply Hh].
  - cbn [fst]. eapply jr_trans; eassumption.
Qed.

Lemma jr_deliver_top X c : c <> scj -> jr X (deliver_top X c).
Proof. apply jr_deliver. Qed.

Lemma jr_restart_from fuel : forall X x, jr X (restart_from fuel X x).
Proof.
  induction fuel as [|fu IH]; intros X x; cbn [restart_from]; [apply jr_refl|].
  destruct x as [c|]; [|apply jr_refl]. apply jr_pre. intros J.
  destruct (s_cancelled (scopes X c)) eqn:Ec.
  - destruct (s_chandle (scopes X c)); [apply jr_refl|]. apply jr_deliver_top. intros ->.
    rewrite (jp_ncanc X J) in Ec. discriminate.
  - destruct (s_shield (scopes X c)); [apply jr_refl|apply IH].
Qed.

Lemma jr_restart X x : jr X (restart X x).
Proof. apply jr_restart_from. Qed.

Lemma jr_scope_cancel X c b : (JP X -> c <> scj) -> jr X (scope_cancel X c b).
Proof.
  intros Hc. apply jr_pre. intros J. specialize (Hc J). unfold scope_cancel.
  destruct (s_cancelled (scopes X c)); [apply jr_refl|].
  set (s2 := upd_scope (cancel_timeout X c) c (fun x => sc_bydeadline b (sc_cancelled true x))).
  assert (T : jr X s2).
  { eapply jr_trans; [apply jr_cancel_timeout|]. apply jr_upd_scope_ne; [exact Hc|intros y; cbn; auto]. }
  destruct (s_host (scopes s2 c)); [|exact T]. eapply jr_trans; [exact T|apply jr_deliver_top, Hc].
Qed.

Lemma jr_scope_timeout X c : jr X (scope_timeout X c).
Proof.
  apply jr_pre. intros J. unfold scope_timeout. destruct (s_deadline (scopes X c)) as [d|] eqn:Ed; [|apply jr_refl].
  assert (Hc : c <> scj) by (intros ->; rewrite (jp_dl X J) in Ed; discriminate).
  destruct (Z.leb d (now X)); [apply jr_scope_cancel; auto|].
  destruct (call_at X d (TScope c)) as [s1 tm] eqn:E.
  assert (T : jr X s1) by (injection E as <- _; jeq).
  eapply jr_trans; [exact T|]. apply jr_upd_scope_ne; [exact Hc|intros y; cbn; auto].
Qed.

Lemma jr_iter_uncancel n t : t <> tj -> forall X, jr X (iter n (fun a => task_uncancel a t) X).
Proof.
  intros Ht. induction n as [|n IH]; intros X; cbn [iter]; [apply jr_refl|].
  eapply jr_trans; [|apply IH]. apply jr_upd_task; [exact Ht|]. intros k. cbn. auto.
Qed.

Lemma jr_scope_enter X c t : t <> tj -> jr X (fst (scope_enter X c t)).
Proof.
  intros Ht. apply jr_pre. intros J. unfold scope_enter. destruct (s_active (scopes X c)) eqn:Ea; [apply jr_refl|].
  assert (Hc : c <> scj) by (intros ->; rewrite (jp_act X J) in Ea; discriminate).
  cbn zeta.
  set (s1 := upd_scope X c (fun x => sc_parent (k_cur (tasks X t)) (sc_tasks (add t (s_tasks x)) (sc_host (Some t) x)))).
  set (s2 := upd_task s1 t (tk_cur (Some c))).
  set (s3 := match k_cur (tasks X t) with Some p => _ | None => s2 end).
  assert (T1 : jr X s1) by (apply jr_upd_scope_ne; [exact Hc|intros y; cbn; apply in_tj_add, Ht]).
  assert (T2 : jr s1 s2) by (apply jr_upd_task; [exact Ht|apply jkeeps_cur]).
  assert (T3 : jr s2 s3).
  { unfold s3. destruct (k_cur (tasks X t)); [|apply jr_refl].
    apply jr_upd_scope; [intros _ y; cbn; tauto|intros y; cbn; apply in_tj_del]. }
  set (s5 := upd_scope (scope_timeout s3 c) c (sc_active true)).
  assert (T5 : jr s3 s5).
  { eapply jr_trans; [apply jr_scope_timeout|]. apply jr_upd_scope_ne; [exact Hc|intros y; cbn; auto]. }
  assert (T : jr X s5) by (eapply jr_trans; [exact T1|]; eapply jr_trans; [exact T2|]; eapply jr_trans; [exact T3|exact T5]).
  destruct (s_cancelled (scopes s5 c)); cbn [fst]; [|exact T].
  eapply jr_trans; [exact T|apply jr_deliver_top, Hc].
Qed.

Lemma jr_scope_exit X c t e : t <> tj -> jr X (fst (scope_exit X c t e)).
Proof.
  intros Ht. apply jr_pre. intros J. unfold scope_exit.
  destruct (negb (s_active (scopes X c))); [apply jr_refl|].
  destruct (negb (opt_eqb (s_host (scopes X c)) t)) eqn:Eh; [apply jr_refl|].
  destruct (negb (opt_eqb (k_cur (tasks X t)) c)); [apply jr_refl|].
  assert (Hc : c <> scj).
  { intros ->. rewrite (jp_host X J) in Eh. cbn in Eh. destruct (Nat.eqb_spec tj t); [congruence|discriminate]. }
  cbn zeta.
  set (s2 := upd_scope (cancel_timeout (upd_scope X c (sc_active false)) c) c (fun x => sc_tasks (del t (s_tasks x)) x)).
  assert (T2 : jr X s2).
  { eapply jr_trans; [|apply jr_upd_scope_ne; [exact Hc|intros y; cbn; apply in_tj_del]].
    eapply jr_trans; [|apply jr_cancel_timeout]. apply jr_upd_scope_ne; [exact Hc|intros y; cbn; auto]. }
  set (s3 := match s_parent (scopes X c) with Some p => _ | None => s2 end).
  assert (T3 : jr s2 s3).
  { unfold s3. destruct (s_parent (scopes X c)); [|apply jr_refl].
    apply jr_upd_scope; [intros _ y; cbn; tauto|intros y; cbn; apply in_tj_add, Ht]. }
  set (s5 := restart (upd_task s3 t (tk_cur (s_parent (scopes X c)))) (s_parent (scopes X c))).
  assert (T5 : jr X s5).
  { eapply jr_trans; [exact T2|]. eapply jr_trans; [exact T3|]. eapply jr_trans; [|apply jr_restart].
    apply jr_upd_task; [exact Ht|apply jkeeps_cur]. }
  assert (Hu : forall a g, (forall y, s_tasks (g y) = s_tasks y) -> jr a (upd_scope a c g)).
  { intros a g Hg. apply jr_upd_scope_ne; [exact Hc|]. intros y. now rewrite Hg. }
  assert (Hfin : forall a, jr a (upd_scope a c (sc_host None))) by (intros a; apply Hu; reflexivity).
  assert (Hit : forall a n, jr a (upd_scope (iter n (fun a => task_uncancel a t) a) c (sc_pending 0))).
  { intros a n. eapply jr_trans; [apply jr_iter_uncancel, Ht|]. apply Hu. reflexivity. }
  assert (Hcaught : forall a, jr a (upd_scope a c (sc_caught true))) by (intros a; apply Hu; reflexivity).
  eapply jr_trans; [exact T5|].
  destruct (s_cancelled (scopes s5 c) && negb (parent_visible s5 c)).
  - set (s6 := upd_scope (iter (s_pending (scopes s5 c)) (fun a => task_uncancel a t) s5) c (sc_pending 0)).
    assert (T6 : jr s5 s6) by apply Hit.
    assert (R1 : jr s5 (upd_scope s6 c (sc_host None))) by (eapply jr_trans; [exact T6|apply Hfin]).
    assert (R2 : jr s5 (upd_scope (upd_scope s6 c (sc_caught true)) c (sc_host None))).
    { eapply jr_trans; [exact T6|]. eapply jr_trans; [apply Hcaught|apply Hfin]. }
    destruct e as [e|]; [|exact R1].
    destruct e; try exact R1; try (destruct (is_anyio_cancel _); [exact R2|exact R1]).
    destruct (split_exn (EGroup l)) as [[a|] [b|]]; cbn [fst]; first [exact R1|exact R2].
  - cbn [fst]. eapply jr_trans; [|apply Hfin].
    destruct (Nat.eqb (s_pending (scopes s5 c)) 0); [apply jr_refl|].
    destruct (s_parent (scopes X c)) as [p|]; [|apply Hit].
    destruct (opt_eqb (s_host (scopes s5 p)) t); [|apply Hit].
    eapply jr_trans; [|apply Hu; reflexivity].
    apply jr_upd_scope; [intros _ y; cbn; tauto|intros y; cbn; auto].
Qed.

(* ---------------- blocks of the acting task t <> tj ---------------- *)
Ltac jut K := apply jr_upd_task; [assumption|apply K].
Ltac jpeel L := eapply jr_trans; [|apply L; try assumption].
Ltac jfresh := let J := fresh "J" in intros J; pose proof (jp_f _ J); pose proof (jp_sc _ J); lia.

Lemma nfut_ne X : JP X -> nfut X <> fj.
Proof. intros J. pose proof (jp_f X J). lia. Qed.
Lemma nscope_ne X : JP X -> nscope X <> scj.
Proof. intros J. pose proof (jp_sc X J). lia. Qed.

(* suspending on the future allocated last *)
Lemma jr_nf_suspend X t : t <> tj -> jr X (suspend_on (nf X) t (nfut X)).
Proof.
  intros Ht. apply (jr_trans_pre (nfut X <> fj) X (nf X)); [apply nfut_ne|apply jr_nf|].
  intros Hf. apply jr_suspend_on; assumption.
Qed.

Lemma jr_park X t : t <> tj -> jr X (park X t).
Proof. intros Ht. unfold park. rewrite new_fut_eq. eapply jr_trans; [|jut jkeeps_ctl]. apply jr_nf_suspend, Ht. Qed.

Lemma jr_ret X t r : t <> tj -> jr X (fst (ret_to_puppet X t r)).
Proof.
  intros Ht. unfold ret_to_puppet. cbn [fst]. jpeel jr_set_running.
  jpeel jr_park. destruct r; try apply jr_refl. jut jkeeps_held.
Qed.
Ltac jpeel_ret := jpeel jr_ret.

Lemma jr_block X t c : t <> tj -> jr X (fst (blocked (set_ctl X t c))).
Proof. intros Ht. cbn [blocked fst]. eapply jr_trans; [|apply jr_set_running]. jut jkeeps_ctl. Qed.

Lemma jr_event_wait X t e : t <> tj -> jr X (fst (event_wait X t e)).
Proof.
  intros Ht. unfold event_wait. destruct (e_set (events X e)); [jeq|].
  rewrite new_fut_eq. cbn [fst].
  apply (jr_trans_pre (nfut X <> fj) X (upd_event (nf X) e (fun x => mkEvent (e_set x) (e_waiters x ++ [nfut X]))));
    [apply nfut_ne|jeq|].
  intros Hf. apply jr_suspend_on; assumption.
Qed.

Lemma jr_begin X t : t <> tj -> jr X (begin_act X t).
Proof. intros Ht. unfold begin_act. jpeel jr_set_running. jut jkeeps_waiter_none. Qed.

Lemma jr_spawned X g sf : (JP X -> sf <> Some fj) -> jr X (spawned X g sf).
Proof.
  intros Hsf. apply jr_pre. intros J. specialize (Hsf J). pose proof (nscope_ne X J) as H1.
  assert (H3 : ntask X <> tj) by (pose proof (jp_t X J); lia).
  rewrite spawned_eq. cbn zeta. eapply jr_trans; [|apply jr_call_soon].
  eapply jr_trans; [|apply jr_restart].
  eapply jr_trans; [|apply jr_upd_group; intros ?; reflexivity].
  eapply jr_trans; [|apply jr_upd_scope; [intros _ y; cbn; tauto|intros y; cbn; apply in_tj_add, H3]].
  eapply jr_trans; [apply jr_ns|]. apply jr_talloc; cbn; [exact H1|discriminate|exact Hsf].
Qed.

Lemma jr_aexit_raise X t g e : t <> tj -> jr X (fst (aexit_raise X t g e)).
Proof.
  intros Ht. unfold aexit_raise. pose proof (jr_scope_exit X (g_scope (groups X g)) t (Some e) Ht) as H.
  destruct (scope_exit X (g_scope (groups X g)) t (Some e)) as [s1 x]. cbn [fst] in H.
  destruct x; cbn [fst].
  - eapply jr_trans; [|jut jkeeps_held]. eapply jr_trans; [exact H|jeq].
  - eapply jr_trans; [exact H|jeq].
  - eapply jr_trans; [exact H|jeq].
Qed.

Lemma jr_aexit_finish X t g exc : t <> tj -> jr X (fst (aexit_finish X t g exc)).
Proof.
  intros Ht. unfold aexit_finish. destruct (map snd (g_excs (groups X g))); [|apply jr_aexit_raise, Ht].
  destruct exc; [apply jr_aexit_raise, Ht|].
  pose proof (jr_scope_exit X (g_scope (groups X g)) t None Ht) as H.
  destruct (scope_exit X (g_scope (groups X g)) t None) as [s1 x]. cbn [fst] in H.
  destruct x; cbn [fst]; (eapply jr_trans; [exact H|jeq]).
Qed.

Lemma jr_ret_pair s0 (p : st * res) t : t <> tj -> jr s0 (fst p) ->
  jr s0 (fst (let '(s2, r) := p in ret_to_puppet s2 t r)).
Proof. intros Ht. destruct p as [s2 r]. cbn [fst]. intros H. eapply jr_trans; [exact H|apply jr_ret, Ht]. Qed.

Lemma jr_wof X t g ws exc : t <> tj -> jr X (fst (aexit_wait_or_finish X t g ws exc)).
Proof.
  intros Ht. unfold aexit_wait_or_finish. destruct (g_tasks (groups X g)) as [|a l].
  - destruct ws as [w|].
    + pose proof (jr_scope_exit X w t None Ht) as H. destruct (scope_exit X w t None) as [s1 x]. cbn [fst] in H.
      destruct x; apply jr_ret_pair; try exact Ht; (eapply jr_trans; [exact H|]);
        first [apply jr_aexit_finish, Ht|apply jr_aexit_raise, Ht].
    + apply jr_ret_pair; [exact Ht|apply jr_aexit_finish, Ht].
  - assert (Hb : forall s0 w, jr X s0 ->
      jr X (fst (let '(s1, f) := new_fut s0 in
                    let s2 := upd_group s1 g (gr_fut (Some f)) in
                    blocked (set_ctl (suspend_on s2 t f) t (CAexitWait g w exc))))).
    { intros s0 w E0. rewrite new_fut_eq. cbn zeta. jpeel jr_block. eapply jr_trans; [exact E0|].
      apply (jr_trans_pre (nfut s0 <> fj) s0 (upd_group (nf s0) g (gr_fut (Some (nfut s0))))); [apply nfut_ne|jeq|].
      intros Hf. apply jr_suspend_on; assumption. }
    destruct ws as [w|].
    + apply Hb, jr_refl.
    + rewrite new_scope_eq. cbn [fst]. apply Hb. jpeel jr_scope_enter. jeq.
Qed.

(* ---------------- the operations that are excluded while the join lasts ---------------- *)
Definition jok (o : op) : Prop :=
  match o with
  | ACancel _ c | AExtCancel c | ASetDeadline _ c _ => c <> scj
  | ASetShield _ c b => b = false -> c <> scj
  | ANativeCancel t => t <> tj
  | ARun (HWake t _) => t <> tj
  | ARun (HDeliver c) => c <> scj
  | _ => True
  end.

Lemma jr_puppet_op s0 t o : t <> tj -> jok o -> jr s0 (fst (puppet_op s0 t o)).
Proof.
  intros Ht Hok. unfold puppet_op. pose proof (jr_begin s0 t Ht) as B. set (s := begin_act s0 t) in *.
  destruct o; try apply jr_refl; (eapply jr_trans; [exact B|]).
  - rewrite new_scope_eq. jpeel_ret. jeq.
  - pose proof (jr_scope_enter s c t Ht) as H. destruct (scope_enter s c t) as [s1 e]. cbn [fst] in H.
    jpeel_ret. exact H.
  - pose proof (jr_scope_exit s c t (k_held (tasks s t)) Ht) as H.
    destruct (scope_exit s c t (k_held (tasks s t))) as [s1 x]. cbn [fst] in H.
    destruct x; [|jpeel_ret; exact H|jpeel_ret; exact H].
    match goal with |- context [if ?b then _ else _] => destruct b end; jpeel_ret;
      (eapply jr_trans; [exact H|jut jkeeps_held]).
  - jpeel_ret. apply jr_scope_cancel. intros _. exact Hok.
  - destruct (Bool.eqb (s_shield (scopes s c)) b) eqn:Eb; [jpeel_ret; apply jr_refl|]. cbn zeta. jpeel_ret.
    apply jr_pre. intros J.
    assert (Hc : c <> scj).
    { intros ->. rewrite (jp_shield s J) in Eb. destruct b; [discriminate|]. now apply Hok. }
    destruct b; [apply jr_upd_scope_ne; [exact Hc|intros y; cbn; auto]|].
    jpeel jr_restart. apply jr_upd_scope_ne; [exact Hc|intros y; cbn; auto].
  - cbn zeta. jpeel_ret. cbn [jok] in Hok.
    assert (T : jr s (cancel_timeout (upd_scope s c (sc_deadline d)) c)).
    { jpeel jr_cancel_timeout. apply jr_upd_scope_ne; [exact Hok|intros y; cbn; auto]. }
    match goal with |- context [if ?b then _ else _] => destruct b end; [|exact T].
    jpeel jr_scope_timeout. exact T.
  - rewrite new_scope_eq. cbn zeta. jpeel_ret.
    apply (jr_trans_pre (nscope s <> scj) s (ns s None false)); [apply nscope_ne|apply jr_ns|].
    intros Hn. apply jr_ext. intros J. constructor; try (cbn; auto; fail).
    + apply scq_scopes. reflexivity.
    + intros g0. cbn [groups]. unfold upd. destruct (Nat.eqb g0 (ngroup (ns s None false))); [right; cbn; exact Hn|auto].
  - destruct (g_entered (groups s g)); [jpeel_ret; apply jr_refl|]. cbn zeta.
    match goal with |- context [scope_enter ?a ?b ?c] => pose proof (jr_scope_enter a b c Ht) as H;
      destruct (scope_enter a b c) as [s2 e] end.
    cbn [fst] in H. jpeel_ret. eapply jr_trans; [|exact H]. jeq.
  - (* AGroupExit *) cbn zeta.
    match goal with |- context [match g_tasks (groups ?x g) with _ => _ end] => set (s1 := x) end.
    assert (Hg : jr s (scope_cancel s (g_scope (groups s g)) false)).
    { apply jr_scope_cancel. intros J. apply (jp_gs s J). }
    assert (T1 : jr s s1).
    { unfold s1. destruct (k_held (tasks s t)) as [e|]; [|apply jr_refl].
      destruct (is_cancel e); [exact Hg|]. eapply jr_trans; [exact Hg|jeq]. }
    eapply jr_trans; [exact T1|]. destruct (g_tasks (groups s1 g)); [|apply jr_wof, Ht].
    rewrite new_scope_eq. cbn zeta. jpeel jr_block. jpeel jr_call_soon.
    jpeel jr_scope_enter. jeq.
  - destruct (negb (group_active s g)); [jpeel_ret; apply jr_refl|]. rewrite spawn_task_eq. jpeel_ret.
    apply jr_spawned. intros _. discriminate.
  - destruct (negb (group_active s g)); [jpeel_ret; apply jr_refl|]. rewrite new_fut_eq. cbv beta iota.
    rewrite spawn_task_eq. cbv beta iota. jpeel jr_block.
    apply (jr_trans_pre (nfut s <> fj) s (spawned (nf s) g (Some (nfut s)))); [apply nfut_ne| |].
    + eapply jr_trans; [apply jr_nf|]. apply jr_spawned. intros J E. injection E as E.
      pose proof (jp_f _ J) as Hf. rewrite <- E in Hf. cbn in Hf. 
      (* fj < S (nfut s) only: use the waiter of the fresh future *)
      pose proof (jp_fw _ J) as W. rewrite <- E in W. cbn in W. rewrite upd_same in W. discriminate W.
    + intros Hf. apply jr_suspend_on; assumption.
  - destruct (k_startfut (tasks s t)) as [f|] eqn:Esf; [|jpeel_ret; apply jr_refl].
    destruct (f_st (futs s f)); jpeel_ret; try apply jr_refl. apply jr_fc. right. eauto.
  - destruct (e_set _); jpeel_ret; [apply jr_refl|]. apply jr_scope_cancel. intros J. apply (jp_hs s J).
  - pose proof (jr_event_wait s t (k_hevent (tasks s h)) Ht) as H.
    destruct (event_wait s t (k_hevent (tasks s h))) as [s1 f]. cbn [fst] in H. jpeel jr_block. exact H.
  - jpeel jr_block. jeq.
  - destruct (ckif_spins _ _ _); [jpeel jr_block; jeq|jpeel_ret; apply jr_refl].
  - rewrite new_scope_eq. cbn zeta. jpeel jr_block. jpeel jr_call_soon. jpeel jr_scope_enter. jeq.
  - rewrite new_fut_eq. destruct d as [dt|].
    + rewrite call_at_eq. jpeel jr_block.
      apply (jr_trans_pre (nfut s <> fj) s (casl (nf s) (now (nf s) + dt) (nfut s))); [apply nfut_ne|jeq|].
      intros Hf. apply jr_suspend_on; assumption.
    + jpeel jr_block. apply jr_nf_suspend, Ht.
  - jpeel_ret. jut jkeeps_held.
  - jpeel_ret. jut jkeeps_held.
  - jpeel_ret. jut jkeeps_held.
  - jpeel_ret. apply jr_upd_task; [exact Ht|apply jkeeps_irrel, irrel_uncancel].
  - cbn [fst]. jpeel jr_set_running. apply jr_park, Ht.
  - rewrite new_scope_eq. pose proof (jr_scope_enter (ns s d sh) (nscope s) t Ht) as H.
    destruct (scope_enter (ns s d sh) (nscope s) t) as [s2 e]. cbn [fst] in H. jpeel_ret.
    eapply jr_trans; [|exact H]. jeq.
Qed.

Lemma jr_puppet_finish s0 t v : t <> tj -> jr s0 (fst (puppet_finish s0 t v)).
Proof.
  intros Ht. pose proof (jr_begin s0 t Ht) as B.
  unfold puppet_finish. set (s := begin_act s0 t) in *. eapply jr_trans; [exact B|].
  set (raw := match k_held (tasks s t) with Some e => OExc e | None => ORet v end).
  assert (T1 : jr s (upd_task s t (tk_final (Some raw)))) by (jut jkeeps_final).
  destruct (k_group (tasks s t)) as [g|] eqn:Eg.
  - match goal with |- context [scope_exit ?a ?b ?c ?d] => pose proof (jr_scope_exit a b c d Ht) as T4;
      assert (T3 : jr s a);
      [|destruct (scope_exit a b c d) as [s4 x]] end.
    { eapply jr_trans; [|apply jr_event_set].
      eapply jr_trans; [exact T1|]. apply jr_upd_task; [exact Ht|]. intros k. destruct raw; cbn; auto. }
    cbn [fst] in T4. eapply jr_trans; [exact T3|]. eapply jr_trans; [exact T4|].
    destruct x; apply jr_finish_task, Ht.
  - cbn [fst]. eapply jr_trans; [exact T1|]. apply jr_finish_task, Ht.
Qed.

Lemma jr_incs s0 t : t <> tj -> jr s0 (incs s0 t).
Proof.
  intros Ht. unfold incs. jpeel jr_set_running. apply jr_upd_task; [exact Ht|]. intros k. cbn.
  split; [auto|split; [right; discriminate|auto]].
Qed.

Lemma jr_event_unwait X e fo : jr X (event_unwait X e fo).
Proof. destruct fo; [jeq|apply jr_refl]. Qed.

Lemma jr_shield_true X c : jr X (upd_scope X c (sc_shield true)).
Proof.
  apply jr_ext. intros J.
  assert (V : forall y, scopes (upd_scope X c (sc_shield true)) y = if Nat.eqb y c then sc_shield true (scopes X c) else scopes X y)
    by (intros y; reflexivity).
  constructor; try (cbn; auto; fail).
  - intros y. rewrite V. destruct (Nat.eqb_spec y c) as [->|Hy]; [cbn; auto|auto].
  - unfold scq. rewrite V. destruct (Nat.eqb_spec scj c) as [E|E]; [|tauto].
    rewrite <- E. cbn. rewrite (jp_shield X J). tauto.
Qed.

Lemma jr_resume s0 t fo : t <> tj -> jr s0 (fst (resume s0 t fo)).
Proof.
  intros Ht.
  rewrite resume_unfold. cbn zeta. pose proof (jr_incs s0 t Ht) as B.
  set (s := incs s0 t) in *. set (inc := snd (incoming s0 t fo)).
  destruct (k_ctl (tasks s0 t)) as [| |k|f tm|g ws exc|g c exc|g child f|child c e wf|h wf|]; try apply jr_refl;
    (eapply jr_trans; [exact B|]).
  - destruct inc as [e|]; cbn [fst].
    + jpeel jr_finish_task. jut jkeeps_started.
    + jpeel jr_set_running. jpeel jr_park.
      destruct (k_group (tasks (upd_task s t (tk_started true)) t)).
      * jpeel jr_scope_enter. jut jkeeps_started.
      * jut jkeeps_started.
  - cbn [fst]. jpeel jr_set_running. jpeel jr_park. destruct inc; [jut jkeeps_held|apply jr_refl].
  - destruct k as [| |c].
    + apply jr_ret, Ht.
    + destruct inc; [apply jr_ret, Ht|]. destruct (ckif_spins _ _ _); [|apply jr_ret, Ht]. cbn [blocked fst]. jpeel jr_set_running. jeq.
    + pose proof (jr_scope_exit s c t inc Ht) as H. destruct (scope_exit s c t inc) as [s1 x]. cbn [fst] in H.
      destruct x; jpeel_ret; exact H.
  - jpeel_ret. apply jr_timer_cancel.
  - destruct inc as [e|].
    + jpeel jr_wof.
      match goal with |- jr s (scope_cancel ?a _ _) => assert (T : jr s a) end.
      { eapply jr_trans; [|apply jr_shield_true]. jeq. }
      eapply jr_trans; [exact T|]. apply jr_scope_cancel. intros J. apply (jp_gs _ J).
    + jpeel jr_wof. jeq.
  - pose proof (jr_scope_exit s c t inc Ht) as H. destruct (scope_exit s c t inc) as [s1 x]. cbn [fst] in H.
    eapply jr_trans; [exact H|].
    destruct x.
    + apply jr_wof, Ht.
    + destruct inc as [e|]; [|apply jr_wof, Ht]. destruct (is_cancel e).
      * jpeel jr_wof. apply jr_scope_cancel. intros J. apply (jp_gs _ J).
      * apply jr_ret_pair; [exact Ht|apply jr_aexit_raise, Ht].
    + apply jr_ret_pair; [exact Ht|apply jr_aexit_raise, Ht].
  - destruct inc as [e|]; [|apply jr_ret, Ht].
    destruct (handle_pending s child); [|apply jr_ret, Ht].
    rewrite new_scope_eq. cbn zeta.
    match goal with |- context [event_wait ?a ?b ?c] => pose proof (jr_event_wait a b c Ht) as H;
      destruct (event_wait a b c) as [s4 wf] end.
    cbn [fst] in H. jpeel jr_block. eapply jr_trans; [|exact H]. jpeel jr_scope_enter.
    eapply jr_trans; [|apply jr_ns]. apply jr_scope_cancel. intros J. apply (jp_hs _ J).
  - match goal with |- context [scope_exit ?a ?b ?c ?d] => pose proof (jr_scope_exit a b c d Ht) as H;
      destruct (scope_exit a b c d) as [s2 x] end.
    cbn [fst] in H. assert (H2 : jr s s2) by (eapply jr_trans; [apply jr_event_unwait|exact H]).
    destruct x; [|destruct inc|]; jpeel_ret; exact H2.
  - jpeel_ret. apply jr_event_unwait.
Qed.

Lemma jr_run_task_done s0 t : t <> tj -> jr s0 (run_task_done s0 t).
Proof.
  intros Ht.
  rewrite run_task_done_eq. cbn zeta. set (s := set_running s0 None).
  assert (B : jr s0 s) by apply jr_set_running. eapply jr_trans; [exact B|].
  change (tasks s t) with (tasks s0 t).
  destruct (k_group (tasks s0 t)) as [g|] eqn:Eg; [|apply jr_refl].
  set (s1 := match k_cur (tasks s0 t) with Some c => _ | None => _ end).
  assert (T1 : jr s s1).
  { unfold s1. destruct (k_cur (tasks s0 t)); [|apply jr_refl].
    apply jr_upd_scope; [intros _ y; cbn; tauto|intros y; cbn; apply in_tj_del]. }
  set (s3 := tdcore s1 t g).
  assert (T3 : jr s1 s3).
  { unfold s3, tdcore. eapply jr_trans; [|apply jr_upd_task; [exact Ht|]]; [jeq|]. intros k. unfold td_rec. cbn. auto. }
  set (s4 := match g_fut (groups s3 g) with Some f => _ | None => _ end).
  assert (T4 : jr s3 s4).
  { unfold s4. destruct (g_fut (groups s3 g)) as [f0|] eqn:Ef0; [|apply jr_refl].
    destruct (g_tasks (groups s3 g)); [|apply jr_refl]. apply jr_fc. right. eauto. }
  assert (T : jr s s4) by (eapply jr_trans; [exact T1|]; eapply jr_trans; [exact T3|exact T4]).
  eapply jr_trans; [exact T|].
  assert (Hc : forall s5, jr s5 (if eff_cancelled s5 (g_scope (groups s5 g)) then s5
                                   else scope_cancel s5 (g_scope (groups s5 g)) false)).
  { intros s5. destruct (eff_cancelled s5 _); [apply jr_refl|]. apply jr_scope_cancel. intros J. apply (jp_gs _ J). }
  assert (Hsc : forall s5, jr s5 (scope_cancel s5 (g_scope (groups s5 g)) false)).
  { intros s5. apply jr_scope_cancel. intros J. apply (jp_gs _ J). }
  assert (Ha : forall e, jr s4 (upd_group s4 g (add_exc t e))) by (intros e; jeq).
  assert (Hsf : forall f v, k_startfut (tasks s0 t) = Some f -> jr s4 (fut_complete s4 f v)).
  { intros f v Ef. apply jr_pre. intros J. apply jr_fc. left. intros ->.
    assert (E : k_startfut (tasks s4 t) = Some fj); [|exact (jp_sf s4 J t E)].
    rewrite <- Ef. unfold s4.
    assert (E3 : k_startfut (tasks s3 t) = k_startfut (tasks s0 t)).
    { unfold s3. rewrite tdcore_same. unfold td_rec. cbn. unfold s1. destruct (k_cur (tasks s0 t)); reflexivity. }
    rewrite <- E3. destruct (g_fut (groups s3 g)); [|reflexivity]. destruct (g_tasks (groups s3 g)); [|reflexivity].
    now rewrite fc_tasks. }
  destruct (k_done (tasks s0 t)) as [[v|e|e]|].
  - destruct (k_startfut (tasks s0 t)) as [f|] eqn:Ef; [|apply jr_refl].
    destruct (f_st (futs s4 f)); try apply jr_refl. now apply Hsf.
  - destruct (k_startfut (tasks s0 t)) as [f|] eqn:Ef.
    + destruct (f_st (futs s4 f)).
      * now apply Hsf.
      * destruct (is_cancel e); [apply Hc|]. eapply jr_trans; [apply Ha|apply Hsc].
      * destruct (is_cancel e); [apply Hc|]. eapply jr_trans; [apply Ha|apply Hsc].
      * destruct (is_cancel e); [apply jr_refl|]. eapply jr_trans; [apply Ha|apply Hsc].
    + destruct (is_cancel e); [apply Hc|]. eapply jr_trans; [apply Ha|apply Hsc].
  - destruct (k_startfut (tasks s0 t)) as [f|] eqn:Ef.
    + destruct (f_st (futs s4 f)).
      * now apply Hsf.
      * destruct (is_cancel e); [apply Hc|]. eapply jr_trans; [apply Ha|apply Hsc].
      * destruct (is_cancel e); [apply Hc|]. eapply jr_trans; [apply Ha|apply Hsc].
      * destruct (is_cancel e); [apply jr_refl|]. eapply jr_trans; [apply Ha|apply Hsc].
    + destruct (is_cancel e); [apply Hc|]. eapply jr_trans; [apply Ha|apply Hsc].
  - destruct (k_startfut (tasks s0 t)) as [f|] eqn:Ef; [|apply jr_refl].
    destruct (f_st (futs s4 f)); try apply jr_refl. now apply Hsf.
Qed.

Lemma jr_new_root X : jr X (fst (new_root X)).
Proof.
  apply jr_pre. intros J. assert (Ht : ntask X <> tj) by (pose proof (jp_t X J); lia).
  unfold new_root. cbn [fst]. jpeel jr_set_running. jpeel jr_park.
  apply (jr_talloc X root_rec false); cbn; [intros E; apply (jp_pos X J); auto|discriminate|discriminate].
Qed.

Lemma jr_tick X dt : jr X (tick X dt).
Proof. jeq. Qed.

(* one step of the machine that is not one of the excluded operations keeps the joining caller untouched *)
Theorem step_jr s o : reach s -> jok o -> jr s (fst (step s o)).
Proof.
  intros R Hok. apply jr_pre. intros J. destruct (reachable s R) as [[K Ci G Jv] Hrun].
  unfold step. destruct (actor o) as [t|] eqn:Ea.
  - destruct (idle s t) eqn:Ei; cbn [negb]; [|apply jr_refl].
    assert (Ht : t <> tj).
    { intros ->. unfold idle in Ei. rewrite (jp_ctl s J) in Ei. discriminate. }
    destruct o; try (apply jr_puppet_op; assumption). apply jr_puppet_finish, Ht.
  - destruct o; try apply jr_refl.
    + apply jr_new_root.
    + cbn [fst]. apply jr_task_cancel. exact Hok.
    + cbn [fst]. jpeel jr_set_running. eapply jr_trans; [apply (jr_set_running s None)|].
      apply jr_scope_cancel. intros _. exact Hok.
    + unfold run_handle. destruct (existsb (handle_eqb h) (ready s)) eqn:Eh; cbn [negb]; [|apply jr_refl].
      apply existsb_handle in Eh. rewrite pop_eq_frame.
      assert (P : jr s (pop s h)) by jeq. eapply jr_trans; [exact P|].
      destruct h as [t|t f|c|t|f tm|c tm].
      * apply jr_resume. intros ->. destruct (k_step s K tj Eh) as [Hw _]. rewrite (jp_w s J) in Hw. discriminate.
      * apply jr_resume. exact Hok.
      * cbn [fst]. jpeel jr_set_running. eapply jr_trans; [apply (jr_set_running (pop s (HDeliver c)) None)|].
        apply jr_deliver_top. exact Hok.
      * cbn [fst]. apply jr_run_task_done. intros ->. destruct (k_td s K tj Eh) as [Hd _].
        pose proof (c_done1 s Ci tj Hd) as E. rewrite (jp_ctl s J) in E. discriminate.
      * cbn [fst]. apply jr_fc. right. eauto.
      * cbn [fst]. jpeel jr_set_running. eapply jr_trans; [apply (jr_set_running (pop s (HTimeout c tm)) None)|].
        apply jr_scope_timeout.
    + destruct (Z.ltb dt 0); [apply jr_refl|apply jr_tick].
Qed.
End Join.
