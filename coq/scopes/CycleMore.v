(* C03, a plain checkpoint() under the FIFO event loop: the task sits in the bare yield of CYield YCheckpoint with
   its step callback queued.  If the delivery callback of the cancelled scope it reaches is queued in front of
   that step (or a request is already recorded), the step - the first one of the task in this iteration - raises
   the cancellation.  Windows as in cancel_latency_le_2_cycles (covered callbacks of others). *)
From Coq Require Import ZArith Lia.
From AV Require Import Base Machine ScopeFrames DeliverInv TreeInv DeliverAlive PotentialInv TreeStep KernelInv
  DeliverThms TimerInv TimerThms CycleThms.

Section Checkpoint.
  Variables (t : tid) (c : sid).

  Record LInvC (s : st) : Prop := {
    lc_reach : reach_ok s;
    lc_run : running s <> Some t;
    lc_waiter : k_waiter (tasks s t) = None;
    lc_started : k_started (tasks s t) = true;
    lc_done : k_done (tasks s t) = None;
    lc_ctl : k_ctl (tasks s t) = CYield YCheckpoint;
    lc_step : In (HStep t) (ready s);
    lc_cases : k_must (tasks s t) = true \/ (k_must (tasks s t) = false /\ trk t c s)
  }.

  (* the next n callbacks up to t's own step are covered callbacks of others *)
  Fixpoint cycle_okc (n : nat) (s : st) : Prop :=
    match n with
    | 0 => True
    | S m => match ready s with
             | [] => True
             | h :: _ => h = HStep t \/ (bystander_y t s h /\ cycle_okc m (run_head s))
             end
    end.

  Lemma LInvC_Good s : LInvC s -> Good t s.
  Proof.
    intros L. pose proof (reach_tree s (lc_reach _ L)) as T. constructor.
    - now apply Tree_TreeL.
    - destruct (lc_reach _ L) as [ops [_ ->]]. apply reach_kinv.
    - apply L.
    - intros y Ha. destruct (tr_host_act _ T y Ha) as [x [E _]]. rewrite E. discriminate.
  Qed.

  Lemma linvc_step s h r :
    LInvC s -> ready s = h :: r -> bystander_y t s h ->
    LInvC (run_head s) /\
    (h = HDeliver c -> k_must (tasks (run_head s) t) = true) /\
    (k_must (tasks s t) = true -> k_must (tasks (run_head s) t) = true).
  Proof.
    intros L E B. pose proof (LInvC_Good s L) as G.
    assert (Nd : k_ctl (tasks s t) <> CDone) by (rewrite (lc_ctl _ L); discriminate).
    destruct (callback_outy t c s h r (lc_reach _ L) Nd (lc_waiter _ L) E B) as [O Hd].
    destruct (O G) as [G' [By Tp]]. pose proof (bm_core _ _ _ By) as Ec.
    assert (R' : reach_ok (run_head s)).
    { unfold run_head. rewrite E. apply reach_ok_step; [apply L|apply B]. }
    assert (El : k_must (tasks s t) = false -> elig_y t s) by (intros Hm; repeat split; try apply L; exact Hm).
    split; [|split; [|apply (bm_must _ _ _ By)]].
    - constructor.
      + exact R'.
      + apply G'.
      + rewrite (tcore_waiter _ _ Ec). apply L.
      + rewrite (tcore_started _ _ Ec). apply L.
      + rewrite (tcore_done _ _ Ec). apply L.
      + rewrite (tcore_ctl _ _ Ec). apply L.
      + destruct B as [_ [Hne Hk]].
        destruct (rsh_run_head s h r E) as [P [new [Er HP]]]; [destruct h; try exact I; apply Hk|].
        rewrite Er. apply in_or_app. left. apply filter_In. split; [|now apply HP].
        pose proof (lc_step _ L) as Hin. rewrite E in Hin. destruct Hin as [Hin|Hin]; [now elim Hne|exact Hin].
      + destruct (k_must (tasks (run_head s) t)) eqn:Em; [now left|right]. split; [reflexivity|].
        destruct (lc_cases _ L) as [Hm|[Hm Tk]]; [rewrite (bm_must _ _ _ By Hm) in Em; discriminate|].
        now apply Tp; [apply El| |].
    - intros Eh. destruct (lc_cases _ L) as [Hm|[Hm Tk]]; [now apply (bm_must _ _ _ By)|].
      apply Hd; [exact Eh|exact G|now apply El|exact Tk].
  Qed.

  Lemma phasec n : forall s pre post,
    LInvC s -> ready s = pre ++ HStep t :: post -> ~ In (HStep t) pre ->
    (k_must (tasks s t) = true \/ In (HDeliver c) pre) -> length pre < n -> cycle_okc n s ->
    exists si, In (si, HStep t) (heads n s) /\ LInvC si /\ k_must (tasks si t) = true /\
               exists q, ready si = HStep t :: q.
  Proof.
    induction n as [|n IH]; intros s pre post L E Hn Hc Hl Ok; [lia|].
    destruct pre as [|h pre]; cbn [app] in E.
    - exists s. split; [rewrite (heads_cons n s _ _ E); now left|]. split; [exact L|].
      split; [destruct Hc as [Hc|[]]; exact Hc|now exists post].
    - cbn [cycle_okc] in Ok. rewrite E in Ok. destruct Ok as [Eh|[B Ok]]; [subst h; elim Hn; now left|].
      destruct (linvc_step s h _ L E B) as [L' [Hd Keep]].
      destruct (rsh_run_head s h _ E) as [P [new [Er HP]]].
      { destruct B as [_ [_ Hk]]. destruct h; try exact I; apply Hk. }
      rewrite filter_app in Er. cbn [filter] in Er. rewrite (HP (HStep t) eq_refl) in Er.
      rewrite <- app_assoc in Er. cbn [app] in Er.
      assert (Hn' : ~ In (HStep t) (filter P pre)).
      { intros Hin. apply filter_In in Hin. apply Hn. right. apply Hin. }
      assert (Hc' : k_must (tasks (run_head s) t) = true \/ In (HDeliver c) (filter P pre)).
      { destruct Hc as [Hc|[Hc|Hc]]; [left; now apply Keep|left; now apply Hd|right].
        apply filter_In. split; [exact Hc|now apply HP]. }
      pose proof (filter_len P pre) as Fl. cbn [length] in Hl.
      destruct (IH (run_head s) (filter P pre) (filter P post ++ new) L' Er Hn' Hc' ltac:(lia) Ok) as [si [Hi Hs]].
      exists si. split; [rewrite (heads_cons n s h _ E); now right|exact Hs].
  Qed.

  Lemma own_result_c si r :
    ready si = HStep t :: r -> k_must (tasks si t) = true -> k_ctl (tasks si t) = CYield YCheckpoint ->
    exists o, snd (step si (ARun (HStep t))) = RExc (ECancel o).
  Proof.
    intros E Hm Hc. exists (k_msg (tasks si t)). cbn [step actor]. unfold run_handle. rewrite E.
    cbn [existsb remove_first]. rewrite handle_eqb_refl. cbn [orb negb]. set (s1 := set_ready si r).
    unfold resume. pose proof (incoming_ctl s1 t None) as Ec.
    assert (Hi : snd (incoming s1 t None) = Some (ECancel (k_msg (tasks si t)))).
    { unfold incoming. cbn [snd]. change (tasks s1 t) with (tasks si t). now rewrite Hm. }
    destruct (incoming s1 t None) as [s2 inc]. cbn [fst snd] in *. subst inc. rewrite Ec.
    change (tasks s1 t) with (tasks si t). rewrite Hc. reflexivity.
  Qed.
End Checkpoint.

(* C03 checkpoint_raises_fifo.  Task t is in a plain checkpoint() (CYield YCheckpoint, waiter None, step queued)
   and reaches the cancelled hosted scope c.  In the ready queue no step of t precedes position |pre|, where its
   step sits, and the delivery callback of c is queued in front of it (or a request is already recorded).  If the
   callbacks in front of it are of the covered kinds, then the first step of t in this iteration raises the
   cancellation.  (If the step is queued in front of the delivery callback the checkpoint returns normally: the
   task is not blocked; the next wait is covered by the latency theorems.) *)
Theorem checkpoint_raises_fifo t c s pre post :
  reach_ok s -> running s <> Some t ->
  s_cancelled (scopes s c) = true -> s_host (scopes s c) <> None -> reaches s t c ->
  k_started (tasks s t) = true -> k_waiter (tasks s t) = None -> k_ctl (tasks s t) = CYield YCheckpoint ->
  ready s = pre ++ HStep t :: post -> ~ In (HStep t) pre ->
  (k_must (tasks s t) = true \/ In (HDeliver c) pre) ->
  cycle_okc t (length (ready s)) s ->
  exists si, In (si, HStep t) (heads (length (ready s)) s) /\
             exists o, snd (step si (ARun (HStep t))) = RExc (ECancel o).
Proof.
  intros R Hr Cc Hh Rt Hs Hw Hctl E Hn Hc Ok.
  assert (L : LInvC t c s).
  { constructor; try assumption; [apply Rt|rewrite E; apply in_or_app; right; now left|].
    destruct (k_must (tasks s t)); [now left|right]. split; [reflexivity|]. exact (conj Rt (conj Cc Hh)). }
  assert (Hl : length pre < length (ready s)) by (rewrite E, app_length; cbn; lia).
  destruct (phasec t c _ s pre post L E Hn Hc Hl Ok) as [si [Hi [Li [Hm [q Eq]]]]].
  exists si. split; [exact Hi|]. apply (own_result_c t si q Eq Hm). apply Li.
Qed.

(* non-vacuity: the task cancels its own scope while running (the delivery callback is queued), then calls
   checkpoint(): the queue is [HDeliver 1; HStep 1] *)
Definition ck_ops : list op := [ANewRoot; ANewScope 1 None false; AEnter 1 1; ACancel 1 1; AYield 1].

Example ck_premises :
  let s := final step init ck_ops in
  reach_ok s /\ running s <> Some 1 /\ s_cancelled (scopes s 1) = true /\ s_host (scopes s 1) <> None /\
  reaches s 1 1 /\ k_started (tasks s 1) = true /\ k_waiter (tasks s 1) = None /\
  k_ctl (tasks s 1) = CYield YCheckpoint /\ ready s = [HDeliver 1] ++ HStep 1 :: [] /\
  ~ In (HStep 1) [HDeliver 1] /\ In (HDeliver 1) [HDeliver 1] /\ cycle_okc 1 (length (ready s)) s.
Proof.
  cbv zeta. set (s := final step init ck_ops).
  assert (R : reach_ok s) by (exists ck_ops; split; [vm_compute; reflexivity|reflexivity]).
  assert (E1 : ready s = [HDeliver 1; HStep 1]) by (vm_compute; reflexivity).
  refine (conj R _). repeat (match goal with |- _ /\ _ => split end).
  - assert (E : running s = None) by (vm_compute; reflexivity). rewrite E. discriminate.
  - vm_compute; reflexivity.
  - assert (E : s_host (scopes s 1) = Some 1) by (vm_compute; reflexivity). rewrite E. discriminate.
  - split; [vm_compute; reflexivity|]. exists 1. split; [vm_compute; reflexivity|apply vis_here].
  - vm_compute; reflexivity.
  - vm_compute; reflexivity.
  - vm_compute; reflexivity.
  - exact E1.
  - intros [H|[]]. discriminate.
  - now left.
  - rewrite E1. cbn [length cycle_okc]. rewrite E1. right. split; [split; [reflexivity|split; [discriminate|exact I]]|].
    assert (E2 : ready (run_head s) = [HStep 1; HDeliver 1]) by (vm_compute; reflexivity). rewrite E2. now left.
Qed.
