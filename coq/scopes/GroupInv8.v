(* The done-callback of a group child (TaskGroup._spawn.task_done) preserves the invariants. *)
From AV Require Import Base Machine GroupInv GroupInv2 GroupInv3 GroupInv4 GroupInv5 GroupInv6 GroupInv7.

(* ---------------- per-invariant versions of fut_complete ---------------- *)
Lemma C_fut_complete s f v : CInv s -> CInv (fut_complete s f v).
Proof.
  apply C_ext; rewrite ?fc_tasks, ?fc_scopes, ?fc_events, ?fc_running, ?fc_ntask, ?fc_nscope, ?fc_nevent; auto.
Qed.

Lemma J_fut_complete s f v : JInv s ->
  (forall r e, v = FRes r -> In f (e_waiters (events s e)) -> e_set (events s e) = true) ->
  JInv (fut_complete s f v).
Proof.
  intros J Hres. destruct (fc_spec s f v) as [[_ ->]|[Hp [Ef Er]]]; [exact J|].
  assert (V : forall x, f_st (futs (fut_complete s f v) x) = if Nat.eqb x f then v else f_st (futs s x)).
  { intros x. rewrite Ef. unfold upd. destruct (Nat.eqb x f); reflexivity. }
  constructor; rewrite ?fc_tasks, ?fc_groups, ?fc_events, ?fc_running; try apply J.
  + intros x e H Hs. apply sleepref_fc in Hs. revert Hs. apply (kk_et s J x e H).
  + intros x c H Hs. apply sleepref_fc in Hs. revert Hs. apply (kk_st s J x c H).
  + intros x e r H1. rewrite V. destruct (Nat.eqb_spec x f) as [->|Hx].
    * intros ->. eapply Hres; eauto.
    * apply (j_ev s J x e r H1).
Qed.

(* ---------------- GInv with the converse clause suspended for one task ---------------- *)
Record GInvE (ex : tid) (s : st) : Prop := {
  ge_mem : forall g t, In t (g_tasks (groups s g)) <->
                      In t (g_ever (groups s g)) /\ k_tdran (tasks s t) = false;
  ge_grp : forall g t, In t (g_ever (groups s g)) -> k_group (tasks s t) = Some g /\ alloc s t;
  ge_tags : forall g t e, In (t, e) (g_excs (groups s g)) -> t <> 0 ->
      k_group (tasks s t) = Some g /\ k_tdran (tasks s t) = true /\ k_done (tasks s t) = Some (OExc e);
  ge_zero : forall g e, In (0, e) (g_excs (groups s g)) -> is_cancel e = false;
  ge_nd : forall g, NoDup (filter nzb (map fst (g_excs (groups s g))));
  ge_conv : forall g t e, t <> ex -> In t (g_ever (groups s g)) -> k_tdran (tasks s t) = true ->
      k_done (tasks s t) = Some (OExc e) ->
      In (t, e) (g_excs (groups s g)) \/
      exists f, k_startfut (tasks s t) = Some f /\ f_st (futs s f) = FExc e;
  ge_gscope : forall g, g_scope (groups s g) < nscope s;
  ge_sf : forall t f, k_startfut (tasks s t) = Some f -> f < nfut s
}.

Lemma GE_ext ex s s' :
  (forall t, gview (tasks s' t) = gview (tasks s t)) ->
  (forall g, g_tasks (groups s' g) = g_tasks (groups s g) /\ g_ever (groups s' g) = g_ever (groups s g) /\
             g_excs (groups s' g) = g_excs (groups s g) /\ g_scope (groups s' g) = g_scope (groups s g)) ->
  (forall f e, f < nfut s -> f_st (futs s f) = FExc e -> f_st (futs s' f) = FExc e) ->
  ntask s <= ntask s' -> nscope s <= nscope s' -> nfut s <= nfut s' -> GInvE ex s -> GInvE ex s'.
Proof.
  intros Hv Hg Hf Hnt Hns Hnf I.
  assert (V : forall t, k_done (tasks s' t) = k_done (tasks s t) /\ k_group (tasks s' t) = k_group (tasks s t) /\
     k_startfut (tasks s' t) = k_startfut (tasks s t) /\ k_tdran (tasks s' t) = k_tdran (tasks s t)).
  { intros t. specialize (Hv t). unfold gview in Hv. injection Hv. tauto. }
  constructor; unfold alloc.
  - intros g t. destruct (Hg g) as [-> [-> _]]. destruct (V t) as [_ [_ [_ ->]]]. apply (ge_mem ex s I g t).
  - intros g t. destruct (Hg g) as [_ [-> _]]. intros Ht. destruct (V t) as [_ [-> _]].
    destruct (ge_grp ex s I g t Ht) as [H1 [H2 H3]]. repeat split; auto. lia.
  - intros g t e. destruct (Hg g) as [_ [_ [-> _]]]. destruct (V t) as [-> [-> [_ ->]]]. apply (ge_tags ex s I g t e).
  - intros g e. destruct (Hg g) as [_ [_ [-> _]]]. apply (ge_zero ex s I).
  - intros g. destruct (Hg g) as [_ [_ [-> _]]]. apply (ge_nd ex s I).
  - intros g t e Hne. destruct (Hg g) as [_ [-> [-> _]]]. destruct (V t) as [-> [_ [-> ->]]]. intros H1 H2 H3.
    destruct (ge_conv ex s I g t e Hne H1 H2 H3) as [H|[f [H4 H5]]]; [left; exact H|right].
    exists f. split; [exact H4|apply Hf; [eapply ge_sf; eauto|exact H5]].
  - intros g. destruct (Hg g) as [_ [_ [_ ->]]]. pose proof (ge_gscope ex s I g). lia.
  - intros t f. destruct (V t) as [_ [_ [-> _]]]. intros H. pose proof (ge_sf ex s I t f H). lia.
Qed.

Lemma GE_kframe ex C T s s' : kframe C T s s' -> GInvE ex s -> GInvE ex s'.
Proof.
  intros F. apply GE_ext.
  - intros t. apply tview_gview, (fr_tv _ _ _ _ F).
  - intros g. rewrite (fr_groups _ _ _ _ F). auto.
  - intros f e _ H. rewrite (fr_fut _ _ _ _ F f); [exact H|]. rewrite H. discriminate.
  - rewrite (fr_ntask _ _ _ _ F). lia.
  - rewrite (fr_nscope _ _ _ _ F). lia.
  - rewrite (fr_nfut _ _ _ _ F). lia.
Qed.

Lemma GE_fut_complete ex s f v : GInvE ex s -> GInvE ex (fut_complete s f v).
Proof.
  apply GE_ext; rewrite ?fc_tasks, ?fc_groups, ?fc_ntask, ?fc_nscope, ?fc_nfut; auto.
  intros x e _ H. rewrite kframe_like_fc; [exact H|]. rewrite H. discriminate.
Qed.

Lemma G_to_E ex s : GInv s -> GInvE ex s.
Proof.
  intros G. constructor; try apply G. intros g t e _. apply (x_conv s G g t e).
Qed.

(* closing the suspension: the converse clause holds for the exempted task as well *)
Lemma GE_close ex s : GInvE ex s ->
  (forall g e, In ex (g_ever (groups s g)) -> k_tdran (tasks s ex) = true -> k_done (tasks s ex) = Some (OExc e) ->
     In (ex, e) (g_excs (groups s g)) \/ exists f, k_startfut (tasks s ex) = Some f /\ f_st (futs s f) = FExc e) ->
  GInv s.
Proof.
  intros E H. constructor; try apply E.
  intros g t e. destruct (Nat.eq_dec t ex) as [->|Hne]; [apply H|apply (ge_conv ex s E g t e Hne)].
Qed.

(* ---------------- the bookkeeping core of task_done ---------------- *)
Definition td_rec (x : task) : task := tk_tdran true (tk_cur None x).
Definition td_grp (t : tid) (x : group) : group := gr_tasks (del t (g_tasks x)) x.
Definition tdcore (s : st) (t : tid) (g : gid) : st := upd_task (upd_group s g (td_grp t)) t td_rec.

Lemma tdcore_other s t g x : x <> t -> tasks (tdcore s t g) x = tasks s x.
Proof. intros Hx. unfold tdcore. tcase x t; [contradiction|reflexivity]. Qed.
Lemma tdcore_same s t g : tasks (tdcore s t g) t = td_rec (tasks s t).
Proof. unfold tdcore. tcase t t; [reflexivity|contradiction]. Qed.

Lemma tdcore_groups s t g x :
  g_ever (groups (tdcore s t g) x) = g_ever (groups s x) /\ g_excs (groups (tdcore s t g) x) = g_excs (groups s x) /\
  g_scope (groups (tdcore s t g) x) = g_scope (groups s x) /\ g_fut (groups (tdcore s t g) x) = g_fut (groups s x) /\
  g_tasks (groups (tdcore s t g) x) = if Nat.eqb x g then del t (g_tasks (groups s x)) else g_tasks (groups s x).
Proof.
  unfold tdcore. cbn [upd_task set_tasks upd_group set_groups groups]. unfold upd.
  destruct (Nat.eqb x g) eqn:E; [|tauto]. apply Nat.eqb_eq in E. subst. cbn. tauto.
Qed.

Lemma tdcore_fields s t g x :
  k_ctl (tasks (tdcore s t g) x) = k_ctl (tasks s x) /\ k_done (tasks (tdcore s t g) x) = k_done (tasks s x) /\
  k_waiter (tasks (tdcore s t g) x) = k_waiter (tasks s x) /\ k_group (tasks (tdcore s t g) x) = k_group (tasks s x) /\
  k_hscope (tasks (tdcore s t g) x) = k_hscope (tasks s x) /\ k_hevent (tasks (tdcore s t g) x) = k_hevent (tasks s x) /\
  k_startfut (tasks (tdcore s t g) x) = k_startfut (tasks s x) /\ k_final (tasks (tdcore s t g) x) = k_final (tasks s x) /\
  k_hexc (tasks (tdcore s t g) x) = k_hexc (tasks s x) /\ k_hret (tasks (tdcore s t g) x) = k_hret (tasks s x) /\
  (k_tdran (tasks s x) = true -> k_tdran (tasks (tdcore s t g) x) = true) /\
  (x <> t -> k_tdran (tasks (tdcore s t g) x) = k_tdran (tasks s x) /\ k_cur (tasks (tdcore s t g) x) = k_cur (tasks s x)).
Proof.
  destruct (Nat.eq_dec x t) as [->|Hx].
  - rewrite tdcore_same. cbn. refine (conj eq_refl (conj eq_refl (conj eq_refl (conj eq_refl (conj eq_refl
      (conj eq_refl (conj eq_refl (conj eq_refl (conj eq_refl (conj eq_refl (conj _ _))))))))))); auto.
    intros H. contradiction.
  - rewrite tdcore_other; auto. tauto.
Qed.

Lemma K_tdcore s t g : KInv s -> ~ In (HTaskDone t) (ready s) -> KInv (tdcore s t g).
Proof.
  intros K Hnt. pose proof (tdcore_fields s t g) as F. pose proof (tdcore_groups s t g) as Gr.
  assert (Hrefd : forall f, refd (tdcore s t g) f -> refd s f).
  { apply refd_mono; auto.
    - intros x f H. exists x. destruct (Gr x) as [_ [_ [_ [E _]]]]. now rewrite <- E.
    - intros c f H. exists c. destruct (F c) as [_ [_ [_ [_ [_ [_ [E _]]]]]]]. now rewrite <- E. }
  constructor; unfold alloc; change (ready (tdcore s t g)) with (ready s); change (futs (tdcore s t g)) with (futs s);
    change (nfut (tdcore s t g)) with (nfut s); change (ntask (tdcore s t g)) with (ntask s);
    change (running (tdcore s t g)) with (running s).
  - apply K.
  - apply K.
  - intros x f. destruct (F x) as [_ [_ [-> _]]]. apply (k_wake s K x f).
  - intros x. destruct (F x) as [_ [-> [-> _]]]. apply (k_step s K x).
  - intros x f. destruct (F x) as [_ [-> [-> _]]]. apply (k_w1 s K x f).
  - intros x f. destruct (F x) as [_ [_ [-> _]]]. apply (k_pend s K x f).
  - intros x. destruct (F x) as [_ [-> _]]. apply (k_run s K x).
  - intros x H. destruct (F x) as [_ [-> [_ [-> [_ [_ [_ [_ [_ [_ [_ Ho]]]]]]]]]]].
    assert (Hx : x <> t) by (intros ->; contradiction). destruct (Ho Hx) as [-> _]. apply (k_td s K x H).
  - intros f Hf. apply Hrefd in Hf. destruct (k_ref s K f Hf) as [H1 H2]. split; [exact H1|].
    intros Hp x Hx. destruct (F x) as [_ [_ [-> _]]]. auto.
  - intros x f. destruct (F x) as [-> [_ [-> _]]]. intros H1 H2 Hf. apply Hrefd in Hf. eapply k_idle; eauto.
Qed.

Lemma C_tdcore s t g : CInv s -> k_done (tasks s t) <> None -> CInv (tdcore s t g).
Proof.
  intros Ci Hd. pose proof (tdcore_fields s t g) as F.
  assert (Hctl : k_ctl (tasks s t) = CDone) by (apply (c_done1 s Ci t Hd)).
  constructor; unfold alloc; change (scopes (tdcore s t g)) with (scopes s); change (events (tdcore s t g)) with (events s);
    change (nscope (tdcore s t g)) with (nscope s); change (ntask (tdcore s t g)) with (ntask s);
    change (nevent (tdcore s t g)) with (nevent s); change (running (tdcore s t g)) with (running s).
  - intros x. destruct (F x) as [-> [_ [-> _]]]. apply (c_w s Ci x).
  - intros x. destruct (F x) as [-> [-> _]]. apply (c_done1 s Ci x).
  - intros x. destruct (F x) as [-> [-> _]]. apply (c_done2 s Ci x).
  - intros x Hx. destruct (Nat.eq_dec x t) as [->|Hne].
    + exfalso. destruct (c_unalloc s Ci t Hx) as [_ [H _]]. contradiction.
    + rewrite tdcore_other; auto. apply (c_unalloc s Ci x Hx).
  - intros x. destruct (F x) as [_ [-> _]]. destruct (Nat.eq_dec x t) as [->|Hne]; [intros _; exact Hd|].
    rewrite tdcore_other; auto. apply (c_td s Ci x).
  - intros x e. destruct (F x) as [_ [-> _]]. apply (c_oc s Ci x e).
  - intros x c Hr. destruct (F x) as [-> _]. intros Ht. destruct (Nat.eq_dec x t) as [->|Hne].
    + rewrite Hctl in Ht. discriminate.
    + rewrite tdcore_other; auto. apply (c_top s Ci x c Hr Ht).
  - intros x g0 ch f. destruct (F x) as [-> _]. destruct (F ch) as [_ [_ [_ [-> [_ [_ [-> _]]]]]]]. apply (c_sw s Ci x g0 ch f).
  - intros x ch c e wf. destruct (F x) as [-> _]. destruct (F ch) as [_ [_ [_ [-> _]]]]. apply (c_sj s Ci x ch c e wf).
  - intros x. destruct (F x) as [_ [_ [_ [_ [_ [-> _]]]]]]. apply (c_bev s Ci x).
  - intros x. destruct (F x) as [_ [_ [_ [_ [-> _]]]]]. apply (c_bsc s Ci x).
  - apply (c_n s Ci).
  - intros x o. destruct (F x) as [_ [_ [_ [-> [_ [-> [_ [-> [E1 [E2 _]]]]]]]]]]. intros H1 H2.
    destruct (h_fin s Ci x o H1 H2) as [H3 H4]. split; [exact H3|]. destruct o; cbn in *; rewrite ?E1, ?E2; exact H4.
  - intros x. destruct (F x) as [_ [_ [_ [_ [_ [_ [_ [-> [-> [-> _]]]]]]]]]]. apply (h_nofin s Ci x).
  - intros x. destruct (F x) as [_ [-> [_ [_ [_ [_ [_ [-> _]]]]]]]]. apply (h_done s Ci x).
  - intros x. destruct (F x) as [_ [-> [_ [_ [_ [_ [_ [-> _]]]]]]]]. apply (h_fd s Ci x).
Qed.

Lemma J_tdcore s t g : JInv s -> k_ctl (tasks s t) = CDone -> running s = None -> JInv (tdcore s t g).
Proof.
  intros J Hctl Hrun. pose proof (tdcore_fields s t g) as F. pose proof (tdcore_groups s t g) as Gr.
  apply (J_block2 s (tdcore s t g) t J).
  - intros x. destruct (F x) as [_ [_ [_ [-> [_ [-> [-> [-> _]]]]]]]]. auto.
  - intros x _. apply F.
  - intros _ ch c e f. destruct (F t) as [-> _]. rewrite Hctl. discriminate.
  - intros x _. rewrite Hrun. discriminate.
  - reflexivity.
  - intros x. apply Gr.
  - auto.
  - auto.
Qed.

Lemma GE_tdcore s t g : GInv s -> k_group (tasks s t) = Some g -> GInvE t (tdcore s t g).
Proof.
  intros G Hg. pose proof (tdcore_fields s t g) as F. pose proof (tdcore_groups s t g) as Gr.
  constructor; unfold alloc; change (futs (tdcore s t g)) with (futs s); change (nfut (tdcore s t g)) with (nfut s);
    change (ntask (tdcore s t g)) with (ntask s); change (nscope (tdcore s t g)) with (nscope s).
  - intros x y. destruct (Gr x) as [-> [_ [_ [_ ->]]]]. destruct (Nat.eq_dec y t) as [->|Hy].
    + rewrite tdcore_same. cbn [k_tdran td_rec tk_tdran]. split; [|intros [_ H]; discriminate].
      intros H. exfalso. destruct (Nat.eqb_spec x g) as [E|Hx].
      * apply del_in in H. destruct H as [_ H]. apply H. reflexivity.
      * apply (g_mem s G x t) in H. destruct H as [H _]. apply (g_grp s G x t) in H. destruct H as [H _]. congruence.
    + rewrite tdcore_other; auto. pose proof (g_mem s G x y) as H. destruct (Nat.eqb x g); [|exact H].
      rewrite del_in. tauto.
  - intros x y. destruct (Gr x) as [-> _]. destruct (F y) as [_ [_ [_ [-> _]]]]. apply (g_grp s G x y).
  - intros x y e. destruct (Gr x) as [_ [-> _]]. destruct (F y) as [_ [-> [_ [-> [_ [_ [_ [_ [_ [_ [Hm _]]]]]]]]]]].
    intros H1 H2. destruct (x_tags s G x y e H1 H2) as [H3 [H4 H5]]. auto.
  - intros x e. destruct (Gr x) as [_ [-> _]]. apply (x_zero s G x e).
  - intros x. destruct (Gr x) as [_ [-> _]]. apply (x_nd s G x).
  - intros x y e Hne. destruct (Gr x) as [-> [-> _]]. destruct (F y) as [_ [-> [_ [_ [_ [_ [-> [_ [_ [_ [_ Ho]]]]]]]]]]].
    destruct (Ho Hne) as [-> _]. apply (x_conv s G x y e).
  - intros x. destruct (Gr x) as [_ [_ [-> _]]]. apply (b_gscope s G x).
  - intros x f. destruct (F x) as [_ [_ [_ [_ [_ [_ [-> _]]]]]]]. apply (b_sf s G x f).
Qed.

Record TInv (t : tid) (s : st) : Prop := { t_k : KInv s; t_c : CInv s; t_j : JInv s; t_g : GInvE t s }.

Lemma T_fut_complete t s f v : TInv t s -> v <> FPend -> refd s f ->
  (forall r e, v = FRes r -> In f (e_waiters (events s e)) -> e_set (events s e) = true) ->
  TInv t (fut_complete s f v).
Proof.
  intros [K Ci J G] Hv Hr Hres. constructor.
  - apply K_fut_complete; auto. apply (k_ref s K f Hr).
  - apply C_fut_complete, Ci.
  - apply J_fut_complete; auto.
  - apply GE_fut_complete, G.
Qed.

Lemma T_close t s : TInv t s ->
  (forall g e, In t (g_ever (groups s g)) -> k_tdran (tasks s t) = true -> k_done (tasks s t) = Some (OExc e) ->
     In (t, e) (g_excs (groups s g)) \/ exists f, k_startfut (tasks s t) = Some f /\ f_st (futs s f) = FExc e) ->
  MInv s.
Proof. intros [K Ci J G] H. constructor; auto. apply (GE_close t s G H). Qed.

Lemma T_append t s g e : TInv t s -> k_group (tasks s t) = Some g -> k_tdran (tasks s t) = true ->
  k_done (tasks s t) = Some (OExc e) -> t <> 0 ->
  (forall e', ~ In (t, e') (g_excs (groups s g))) ->
  MInv (upd_group s g (add_exc t e)).
Proof.
  intros [K Ci J G] Hg Htd Hd Ht0 Hnew.
  destruct (KCJ_upd_group s g (add_exc t e)) as [HK [HC HJ]]; [intros x; reflexivity|].
  pose proof (add_exc_groups s g t e) as V.
  constructor; auto.
  constructor; unfold alloc; change (tasks (upd_group s g (add_exc t e))) with (tasks s);
    change (futs (upd_group s g (add_exc t e))) with (futs s);
    change (ntask (upd_group s g (add_exc t e))) with (ntask s);
    change (nscope (upd_group s g (add_exc t e))) with (nscope s);
    change (nfut (upd_group s g (add_exc t e))) with (nfut s).
  - intros x y. destruct (V x) as [-> [-> _]]. apply (ge_mem t s G x y).
  - intros x y. destruct (V x) as [_ [-> _]]. apply (ge_grp t s G x y).
  - intros x y e'. destruct (V x) as [_ [_ [_ [_ ->]]]]. destruct (Nat.eqb_spec x g) as [E|Hx]; [|apply (ge_tags t s G x y e')].
    rewrite in_app_iff. intros [H|[H|[]]] Hy; [apply (ge_tags t s G x y e' H Hy)|]. injection H as <- <-. subst x. auto.
  - intros x e'. destruct (V x) as [_ [_ [_ [_ ->]]]]. destruct (Nat.eqb x g); [|apply (ge_zero t s G x e')].
    rewrite in_app_iff. intros [H|[H|[]]]; [apply (ge_zero t s G x e' H)|]. injection H as H _. contradiction.
  - intros x. destruct (V x) as [_ [_ [_ [_ ->]]]]. destruct (Nat.eqb_spec x g) as [E|Hx]; [|apply (ge_nd t s G x)].
    rewrite map_app. cbn [map fst]. rewrite filter_nzb_app.
    assert (Hnz : nzb t = true) by (unfold nzb; destruct (Nat.eqb_spec t 0); [contradiction|reflexivity]).
    rewrite Hnz. apply NoDup_snoc; [apply (ge_nd t s G x)|]. intros Hin. apply filter_In in Hin.
    destruct Hin as [Hin _]. apply in_map_iff in Hin. destruct Hin as [[y e'] [Ey Hin]]. cbn in Ey. subst y x.
    exact (Hnew e' Hin).
  - intros x y e'. destruct (V x) as [_ [-> [_ [_ ->]]]]. intros H1 H2 H3.
    destruct (Nat.eq_dec y t) as [->|Hy].
    + left. destruct (ge_grp t s G x t H1) as [Hgx _]. assert (x = g) by congruence. subst x.
      rewrite Nat.eqb_refl. apply in_app_iff. right. left. rewrite Hd in H3. injection H3 as <-. reflexivity.
    + destruct (ge_conv t s G x y e' Hy H1 H2 H3) as [H|H]; [left|right; exact H].
      destruct (Nat.eqb x g); [apply in_app_iff; auto|exact H].
  - intros x. destruct (V x) as [_ [_ [-> _]]]. apply (ge_gscope t s G x).
  - apply (ge_sf t s G).
Qed.

Lemma scope_cancel_idem s c b : (if s_cancelled (scopes s c) then s else scope_cancel s c b) = scope_cancel s c b.
Proof. unfold scope_cancel. destruct (s_cancelled (scopes s c)); reflexivity. Qed.

(* F23: a child that failed cancels the group's own scope (scope_cancel is a no-op on a scope whose cancel() has
   been called); a child that merely ended cancelled cancels it only if it is not effectively cancelled *)
Lemma run_task_done_eq s0 t :
  run_task_done s0 t =
  let s := set_running s0 None in
  let k := tasks s t in
  match k_group k with
  | None => s
  | Some g =>
      let s1 := match k_cur k with
                | Some c => upd_scope s c (fun x => sc_tasks (del t (s_tasks x)) x)
                | None => s
                end in
      let s3 := tdcore s1 t g in
      let s4 := match g_fut (groups s3 g), g_tasks (groups s3 g) with
                | Some f, [] => fut_complete s3 f (FRes 0)
                | _, _ => s3
                end in
      let exc := match k_done k with
                 | Some (OExc e) => Some e
                 | Some (OCanc e) => Some e
                 | _ => None
                 end in
      let sf := k_startfut k in
      let sf_state := match sf with Some f => Some (f_st (futs s4 f)) | None => None end in
      match exc with
      | Some e =>
          match sf_state with
          | Some (FCanc _) =>
              if is_cancel e then s4 else
              let s5 := upd_group s4 g (add_exc t e) in
              scope_cancel s5 (g_scope (groups s5 g)) false
          | Some FPend =>
              match sf with Some f => fut_complete s4 f (FExc e) | None => s4 end
          | _ =>
              if is_cancel e then
                if eff_cancelled s4 (g_scope (groups s4 g)) then s4 else scope_cancel s4 (g_scope (groups s4 g)) false
              else
                let s5 := upd_group s4 g (add_exc t e) in
                scope_cancel s5 (g_scope (groups s5 g)) false
          end
      | None =>
          match sf, sf_state with
          | Some f, Some FPend => fut_complete s4 f (FExc ERuntime)
          | _, _ => s4
          end
      end
  end.
Proof.
  unfold run_task_done. cbn zeta. cbv delta [tdcore td_grp td_rec add_exc] beta.
  destruct (k_group (tasks (set_running s0 None) t)) as [g|]; [|reflexivity].
  destruct (k_done (tasks (set_running s0 None) t)) as [[v|e|e]|]; try reflexivity.
  - destruct (k_startfut (tasks (set_running s0 None) t)) as [f|].
    + match goal with |- context [f_st (futs ?a f)] => destruct (f_st (futs a f)) end; try reflexivity;
        destruct (is_cancel e); try reflexivity; apply scope_cancel_idem.
    + destruct (is_cancel e); try reflexivity; apply scope_cancel_idem.
  - destruct (k_startfut (tasks (set_running s0 None) t)) as [f|].
    + match goal with |- context [f_st (futs ?a f)] => destruct (f_st (futs a f)) end; try reflexivity;
        destruct (is_cancel e); try reflexivity; apply scope_cancel_idem.
    + destruct (is_cancel e); try reflexivity; apply scope_cancel_idem.
Qed.

Lemma Inv_of_M s : MInv s -> running s = None -> Inv s.
Proof. intros M H. split; auto. Qed.

Lemma run_task_done_inv s0 t : MInv s0 -> running s0 = None -> ~ In (HTaskDone t) (ready s0) ->
  k_done (tasks s0 t) <> None -> k_tdran (tasks s0 t) = false -> alloc s0 t -> Inv (run_task_done s0 t).
Proof.
  intros M0 Hr0 Hnt Hd Htd Hal. rewrite run_task_done_eq. cbn zeta.
  set (s := set_running s0 None).
  assert (M : MInv s) by (apply M_set_running_same; auto).
  assert (Hr : running s = None) by reflexivity.
  change (tasks s t) with (tasks s0 t).
  destruct (k_group (tasks s0 t)) as [g|] eqn:Eg; [|apply Inv_of_M; auto].
  set (s1 := match k_cur (tasks s0 t) with Some c => upd_scope s c (fun x => sc_tasks (del t (s_tasks x)) x) | None => s end).
  assert (M1 : MInv s1).
  { unfold s1. destruct (k_cur (tasks s0 t)); [|exact M]. apply (M_kstar_none s); [|exact M].
    apply ks_one, kp_scope_keeps, keeps_tasks. }
  assert (E1 : tasks s1 = tasks s0 /\ ready s1 = ready s0 /\ running s1 = None /\ groups s1 = groups s0 /\
               futs s1 = futs s0 /\ ntask s1 = ntask s0).
  { unfold s1. destruct (k_cur (tasks s0 t)); cbn; tauto. }
  destruct E1 as [T1 [Rd1 [Hr1 [G1 [F1 N1]]]]].
  assert (Hd1 : k_done (tasks s1 t) <> None) by (rewrite T1; exact Hd).
  assert (Hctl : k_ctl (tasks s1 t) = CDone) by (apply (c_done1 s1 (m_c s1 M1) t Hd1)).
  set (s3 := tdcore s1 t g).
  assert (T3 : TInv t s3).
  { destruct M1 as [K1 C1 Gi1 J1]. constructor.
    - apply K_tdcore; auto. now rewrite Rd1.
    - apply C_tdcore; auto.
    - apply J_tdcore; auto.
    - apply GE_tdcore; auto. now rewrite T1. }
  assert (Ft : tasks s3 t = td_rec (tasks s0 t)) by (unfold s3; rewrite tdcore_same, T1; reflexivity).
  assert (Hr3 : running s3 = None) by exact Hr1.
  set (s4 := match g_fut (groups s3 g), g_tasks (groups s3 g) with
             | Some f, [] => fut_complete s3 f (FRes 0) | _, _ => s3 end).
  assert (T4 : TInv t s4).
  { unfold s4. destruct (g_fut (groups s3 g)) as [f|] eqn:Ef; [|exact T3].
    destruct (g_tasks (groups s3 g)); [|exact T3].
    apply T_fut_complete; auto; [discriminate| |].
    - right; left. eauto.
    - intros r e _ Hin. exfalso. exact (kk_eg s3 (t_j t s3 T3) f e g Hin Ef). }
  assert (E4 : tasks s4 = tasks s3 /\ groups s4 = groups s3 /\ running s4 = None).
  { unfold s4. destruct (g_fut (groups s3 g)); [|auto]. destruct (g_tasks (groups s3 g)); [|auto].
    rewrite fc_tasks, fc_groups, fc_running. auto. }
  destruct E4 as [T4e [G4e Hr4]].
  assert (Ft4 : tasks s4 t = td_rec (tasks s0 t)) by (rewrite T4e; exact Ft).
  assert (Hg4 : k_group (tasks s4 t) = Some g) by (rewrite Ft4; exact Eg).
  assert (Htd4 : k_tdran (tasks s4 t) = true) by (rewrite Ft4; reflexivity).
  assert (Hd4 : k_done (tasks s4 t) = k_done (tasks s0 t)) by (rewrite Ft4; reflexivity).
  assert (Hsf4 : k_startfut (tasks s4 t) = k_startfut (tasks s0 t)) by (rewrite Ft4; reflexivity).
  assert (Ht0 : t <> 0) by (unfold alloc in Hal; lia).
  assert (Hnew : forall e', ~ In (t, e') (g_excs (groups s4 g))).
  { intros e' Hin. rewrite G4e in Hin. destruct (tdcore_groups s1 t g g) as [_ [E _]]. fold s3 in E. rewrite E, G1 in Hin.
    destruct (x_tags s0 (m_g s0 M0) g t e' Hin Ht0) as [_ [H _]]. congruence. }
  pose proof (c_oc s0 (m_c s0 M0) t) as Hoc.
  (* common endings *)
  assert (Close_nc : (forall e, k_done (tasks s0 t) <> Some (OExc e)) -> MInv s4).
  { intros Hne. apply (T_close t s4 T4). intros g0 e _ _ H. rewrite Hd4 in H. exfalso. exact (Hne e H). }
  assert (Cancel_end : forall s5, MInv s5 -> running s5 = None ->
            Inv (if eff_cancelled s5 (g_scope (groups s5 g)) then s5 else scope_cancel s5 (g_scope (groups s5 g)) false)).
  { intros s5 M5 Hr5. destruct (eff_cancelled s5 _); [apply Inv_of_M; auto|].
    pose proof (ks_scope_cancel none_s none_t s5 (g_scope (groups s5 g)) false) as KS.
    apply Inv_of_M; [apply (M_kstar_none _ _ KS M5)|]. now rewrite (fr_running _ _ _ _ (kframe_kstar _ _ _ _ KS)). }
  assert (Cancel_own : forall s5, MInv s5 -> running s5 = None ->
            Inv (scope_cancel s5 (g_scope (groups s5 g)) false)).
  { intros s5 M5 Hr5.
    pose proof (ks_scope_cancel none_s none_t s5 (g_scope (groups s5 g)) false) as KS.
    apply Inv_of_M; [apply (M_kstar_none _ _ KS M5)|]. now rewrite (fr_running _ _ _ _ (kframe_kstar _ _ _ _ KS)). }
  assert (Append : forall e, k_done (tasks s0 t) = Some (OExc e) -> MInv (upd_group s4 g (add_exc t e))).
  { intros e He. apply T_append; auto. now rewrite Hd4. }
  destruct (k_done (tasks s0 t)) as [[v|e|e]|] eqn:Ed; [| | |contradiction].
  - (* returned *)
    assert (Mc : MInv s4) by (apply Close_nc; intros e; discriminate).
    destruct (k_startfut (tasks s0 t)) as [f|] eqn:Esf; [|apply Inv_of_M; auto].
    destruct (f_st (futs s4 f)) eqn:Est; [|apply Inv_of_M; assumption|apply Inv_of_M; assumption|apply Inv_of_M; assumption].
    apply Inv_of_M; [|rewrite fc_running; exact Hr4]. apply M_fut_complete; auto; [discriminate| |discriminate].
    right; right; left. exists t. now rewrite Hsf4.
  - (* raised e (not a cancellation) *)
    destruct (Hoc e) as [_ Hnc]. specialize (Hnc eq_refl).
    destruct (k_startfut (tasks s0 t)) as [f|] eqn:Esf.
    + destruct (f_st (futs s4 f)) eqn:Est.
      * (* pending: routed to the start future *)
        apply Inv_of_M; [|rewrite fc_running; exact Hr4].
        assert (T5 : TInv t (fut_complete s4 f (FExc e))).
        { apply T_fut_complete; auto; [discriminate| |discriminate]. right; right; left. exists t. now rewrite Hsf4. }
        apply (T_close t _ T5). intros g0 e' _ _ H. rewrite fc_tasks, Hd4 in H. injection H as <-.
        right. exists f. rewrite fc_tasks, Hsf4. split; [reflexivity|].
        destruct (fc_spec s4 f (FExc e)) as [[H _]|[_ [Ef _]]]; [contradiction|]. rewrite Ef, upd_same. reflexivity.
      * rewrite Hnc. apply Cancel_own; [apply Append; reflexivity|exact Hr4].
      * rewrite Hnc. apply Cancel_own; [apply Append; reflexivity|exact Hr4].
      * rewrite Hnc. apply Cancel_own; [apply Append; reflexivity|exact Hr4].
    + rewrite Hnc. apply Cancel_own; [apply Append; reflexivity|exact Hr4].
  - (* cancelled *)
    destruct (Hoc e) as [Hc _]. specialize (Hc eq_refl).
    assert (Mc : MInv s4) by (apply Close_nc; intros e'; discriminate).
    destruct (k_startfut (tasks s0 t)) as [f|] eqn:Esf.
    + destruct (f_st (futs s4 f)) eqn:Est.
      * apply Inv_of_M; [|rewrite fc_running; exact Hr4]. apply M_fut_complete; auto; [discriminate| |discriminate].
        right; right; left. exists t. now rewrite Hsf4.
      * rewrite Hc. apply Cancel_end; auto.
      * rewrite Hc. apply Cancel_end; auto.
      * rewrite Hc. apply Inv_of_M; auto.
    + rewrite Hc. apply Cancel_end; auto.
Qed.
