(* scopes/TimeoutSpec: the four timeout helpers of anyio._core._tasks (fail_at, fail_after, move_on_at, move_on_after) as
   shapes - which deadline the scope gets, whether `shield` reaches it, what happens after the block - and their
   specification: what the S machine assumes of them (Machine.v: AFailAt t d sh creates the scope `new_scope s d sh`;
   AExit t c true raises TimeoutError iff the scope swallowed its cancellation and `deadline <= now`; ANewScope for the
   move_on helpers).  tools/translate_timeouts.py regenerates scopes/TimeoutGen.v from the source on every run;
   scopes/TimeoutEq.v proves the regenerated shapes equal to this specification.  Definitions only. *)
From AV Require Import Base Machine.

Inductive dexp :=
| DArg            (* the argument itself; None -> math.inf *)
| DNowPlusArg.    (* current_time() + argument; None -> math.inf *)

Inductive post :=
| PNone                      (* nothing after the block: the scope object IS the context manager *)
| PTimeoutIfCaughtAndDue.    (* if scope.cancelled_caught and current_time() >= scope.deadline: raise TimeoutError *)

Inductive helper :=
| HScope (d : dexp) (passes_shield : bool) (p : post)            (* create_cancel_scope(deadline=<d>, shield=shield) *)
| HDelegate (callee : nat) (d : dexp) (passes_shield : bool).    (* with <callee>(<d>, shield=shield) as scope: yield scope *)

(* index of a helper in the table *)
Definition i_fail_at := 0. Definition i_fail_after := 1. Definition i_move_on_at := 2. Definition i_move_on_after := 3.

Definition eval_d (d : dexp) (now : Z) (arg : option Z) : option Z :=
  match d with DArg => arg | DNowPlusArg => option_map (Z.add now) arg end.

(* what a call helper(arg, shield=sh) at time `now` amounts to: (deadline of the scope, shield of the scope, what
   follows the block); one level of delegation is resolved through the table *)
Definition shape_of (table : nat -> helper) (h : helper) (now : Z) (arg : option Z) (sh : bool) : option Z * bool * post :=
  match h with
  | HScope d ps p => (eval_d d now arg, ps && sh, p)
  | HDelegate callee d ps =>
      match table callee with
      | HScope d2 ps2 p2 => (eval_d d2 now (eval_d d now arg), ps2 && (ps && sh), p2)
      | HDelegate _ _ _ => (None, false, PNone)       (* deeper delegation: outside the accepted form *)
      end
  end.

(* ---- the specification: what Machine.v and the S harness assume ---- *)
Definition spec_shape (i : nat) (now : Z) (arg : option Z) (sh : bool) : option Z * bool * post :=
  match i with
  | 0 => (arg, sh, PTimeoutIfCaughtAndDue)                          (* fail_at(deadline, shield) *)
  | 1 => (option_map (Z.add now) arg, sh, PTimeoutIfCaughtAndDue)   (* fail_after(delay, shield) *)
  | 2 => (arg, sh, PNone)                                           (* move_on_at(deadline, shield) *)
  | _ => (option_map (Z.add now) arg, sh, PNone)                    (* move_on_after(delay, shield) *)
  end.

(* the test after the block, on the scope as the machine records it *)
Definition post_raises (p : post) (sc : scope) (now : Z) : bool :=
  match p with
  | PNone => false
  | PTimeoutIfCaughtAndDue =>
      s_caught sc && match s_deadline sc with Some d => Z.leb d now | None => false end
  end.
