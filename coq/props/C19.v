(* C19 — anyio.itertools / functools.reduce agree with the standard library.
   This file contains only statements closed by `exact` and their Print Assumptions.
   outcome t = (the values yielded by trace t, the error class that ends it); sources are (kind, elements) with
   kind = synchronous or asynchronous iterable; callbacks are arbitrary functions. *)
From AV Require Import Base Itertools ItertoolsProofs ItertoolsTee ItertoolsAlias.

(* callbacks of accumulate / reduce may raise: `f a b = None` is a TypeError (e.g. arithmetic on None) *)
Theorem C19_accumulate_agrees : forall (f : Z -> Z -> option Z) (initial : option Z) (s : src),
  outcome (accumulate_model f initial s) = accumulate_spec f initial (snd s).
Proof. exact accumulate_agrees. Qed.
Print Assumptions C19_accumulate_agrees.

Theorem C19_batched_agrees : forall (n : Z) (strict : bool) (s : src),
  outcome (batched_model n strict s) = batched_spec n strict (snd s).
Proof. exact batched_agrees. Qed.
Print Assumptions C19_batched_agrees.

Theorem C19_chain_agrees : forall (outer : kind) (ss : list src),
  outcome (chain_model outer ss) = chain_spec (map snd ss).
Proof. exact chain_agrees. Qed.
Print Assumptions C19_chain_agrees.

Theorem C19_combinations_agrees : forall (r : Z) (s : src),
  outcome (combinations_model r s) = combinations_spec r (snd s).
Proof. exact combinations_agrees. Qed.
Print Assumptions C19_combinations_agrees.

Theorem C19_combinations_with_replacement_agrees : forall (r : Z) (s : src),
  outcome (cwr_model r s) = cwr_spec r (snd s).
Proof. exact combinations_with_replacement_agrees. Qed.
Print Assumptions C19_combinations_with_replacement_agrees.

Theorem C19_compress_agrees : forall (d s : src),
  outcome (compress_model d s) = compress_spec (snd d) (snd s).
Proof. exact compress_agrees. Qed.
Print Assumptions C19_compress_agrees.

Theorem C19_count_agrees : forall (start step : Z) (k : nat),
  outcome (count_model start step k) = count_spec start step k.
Proof. exact count_agrees. Qed.
Print Assumptions C19_count_agrees.

Theorem C19_cycle_agrees : forall (s : src) (k : nat),
  outcome (cycle_model s k) = cycle_spec (snd s) k.
Proof. exact cycle_agrees. Qed.
Print Assumptions C19_cycle_agrees.

Theorem C19_dropwhile_agrees : forall (p : Z -> bool) (s : src),
  outcome (dropwhile_model p s) = dropwhile_spec p (snd s).
Proof. exact dropwhile_agrees. Qed.
Print Assumptions C19_dropwhile_agrees.

Theorem C19_filterfalse_agrees : forall (p : Z -> bool) (s : src),
  outcome (filterfalse_model p s) = filterfalse_spec p (snd s).
Proof. exact filterfalse_agrees. Qed.
Print Assumptions C19_filterfalse_agrees.

(* `same` is the test applied to consecutive keys (identity-or-equality in Python): an arbitrary relation *)
Theorem C19_groupby_agrees : forall (same : Z -> Z -> bool) (key : Z -> Z) (s : src),
  outcome (groupby_model same key s) = groupby_spec same key (snd s).
Proof. exact groupby_agrees. Qed.
Print Assumptions C19_groupby_agrees.

Theorem C19_groupby_pre_F35_refuted_pinned :
  exists key s, outcome (groupby_model eq_only key s) <> groupby_spec same_obj key (snd s).
Proof. exact groupby_pre_F35_refuted_pinned. Qed.
Print Assumptions C19_groupby_pre_F35_refuted_pinned.

Theorem C19_islice_agrees : forall (args : list (option Z)) (s : src),
  outcome (islice_model args s) = islice_spec args (snd s).
Proof. exact islice_agrees. Qed.
Print Assumptions C19_islice_agrees.

(* consumption of the source by islice (Nx events), for all start, stop, step: min(len + 1, max(start, stop)) polls,
   i.e. exactly min(len, max(start, stop)) elements (islice_consumed) *)
Theorem C19_islice_consumption : forall (a b c : option Z) (s : src),
  snd (islice_model [a; b; c] s) = None ->
  count_next (fst (islice_model [a; b; c] s)) =
    match b with
    | None => S (length (snd s))
    | Some st => Nat.min (S (length (snd s))) (Z.to_nat (Z.max (dflt 0 a) st))
    end /\
  Nat.min (count_next (fst (islice_model [a; b; c] s))) (length (snd s)) = islice_consumed [a; b; c] (snd s).
Proof. exact islice_consumption. Qed.
Print Assumptions C19_islice_consumption.

Theorem C19_islice_then_rest_agrees : forall (outer : kind) (args : list (option Z)) (s : src),
  outcome (islice_then_rest_model outer args s) = islice_then_rest_spec args (snd s).
Proof. exact islice_then_rest_agrees. Qed.
Print Assumptions C19_islice_then_rest_agrees.

Theorem C19_islice_pre_F36_refuted_pinned :
  exists args s, snd (islice_model_pre_F36 args s) = None /\
                 Nat.min (count_next (fst (islice_model_pre_F36 args s))) (length (snd s)) <> islice_consumed args (snd s).
Proof. exact islice_pre_F36_refuted_pinned. Qed.
Print Assumptions C19_islice_pre_F36_refuted_pinned.

Theorem C19_pairwise_agrees : forall (s : src),
  outcome (pairwise_model s) = pairwise_spec (snd s).
Proof. exact pairwise_agrees. Qed.
Print Assumptions C19_pairwise_agrees.

Theorem C19_permutations_agrees : forall (r : option Z) (s : src),
  outcome (permutations_model r s) = permutations_spec r (snd s).
Proof. exact permutations_agrees. Qed.
Print Assumptions C19_permutations_agrees.

Theorem C19_product_agrees : forall (rep : Z) (ss : list src),
  outcome (product_model rep ss) = product_spec rep (map snd ss).
Proof. exact product_agrees. Qed.
Print Assumptions C19_product_agrees.

Theorem C19_repeat_agrees : forall (x : Z) (times : option Z) (k : nat),
  outcome (repeat_model x times k) = repeat_spec x times k.
Proof. exact repeat_agrees. Qed.
Print Assumptions C19_repeat_agrees.

Theorem C19_starmap_agrees : forall (f : list Z -> Z) (outer : kind) (ss : list src),
  outcome (starmap_model f outer ss) = starmap_spec f (map snd ss).
Proof. exact starmap_agrees. Qed.
Print Assumptions C19_starmap_agrees.

Theorem C19_takewhile_agrees : forall (p : Z -> bool) (s : src),
  outcome (takewhile_model p s) = takewhile_spec p (snd s).
Proof. exact takewhile_agrees. Qed.
Print Assumptions C19_takewhile_agrees.

Theorem C19_zip_longest_agrees : forall (fill : Z) (ss : list src),
  outcome (zip_longest_model fill ss) = zip_longest_spec fill (map snd ss).
Proof. exact zip_longest_agrees. Qed.
Print Assumptions C19_zip_longest_agrees.

Theorem C19_zip_longest_fuel_ok : forall (fill : Z) (ss : list src), zip_longest_run fill ss <> None.
Proof. exact zip_longest_fuel_ok. Qed.
Print Assumptions C19_zip_longest_fuel_ok.

Theorem C19_reduce_agrees : forall (f : Z -> Z -> option Z) (initial : option Z) (s : src),
  outcome (reduce_model f initial s false) = reduce_spec f initial (snd s).
Proof. exact reduce_agrees. Qed.
Print Assumptions C19_reduce_agrees.

Theorem C19_tee_consumers_see_all : forall (mode : nat) (source : list Z) (n : nat) (ops : list top) (c : nat),
  let s := trun mode source n ops in
  tseen s c = firstn (length (tseen s c)) (skipn (tstart s c) source) /\
  (tstopped s c = true -> tseen s c = skipn (tstart s c) source).
Proof. exact tee_consumers_see_all. Qed.
Print Assumptions C19_tee_consumers_see_all.

Theorem C19_tee_originals_start : forall (mode : nat) (source : list Z) (n : nat) (ops : list top) (c : nat),
  c < n -> tstart (trun mode source n ops) c = 0.
Proof. exact tee_originals_start. Qed.
Print Assumptions C19_tee_originals_start.

Theorem C19_tee_copy_spec : forall (s : tst) (c k : nat) (s' : tst) (r : tres) (ev : list (event Z)),
  tstep s (TCopy c k) = (s', r, ev) -> c < tn s ->
  r = TCopied (tn s) /\ ev = [] /\ tn s' = tn s + k /\
  (forall j, tn s <= j < tn s + k ->
     tstart s' j = tlink s c /\ tlink s' j = tlink s c /\ tseen s' j = [] /\ tstopped s' j = false /\
     tyielded s' j = false /\ tcks s' j = 0 /\ tlocks s' j = 0) /\
  (forall j, j < tn s ->
     tstart s' j = tstart s j /\ tlink s' j = tlink s j /\ tseen s' j = tseen s j /\ tstopped s' j = tstopped s j /\
     tyielded s' j = tyielded s j /\ tphase s' j = tphase s j).
Proof. exact tee_copy_spec. Qed.
Print Assumptions C19_tee_copy_spec.

Theorem C19_tee_source_once : forall (mode : nat) (source : list Z) (n : nat) (ops : list top),
  let s := trun mode source n ops in
  tpolled s = firstn (length (tpolled s)) (map CVal source ++ [CEnd]) /\
  tsrc s = skipn (length (tpolled s)) source.
Proof. exact tee_source_once. Qed.
Print Assumptions C19_tee_source_once.

Theorem C19_tee_outputs_logged : forall (s : tst) (o : top) (s' : tst) (r : tres) (ev : list (event Z)),
  tstep s o = (s', r, ev) ->
  match r with
  | TRet v => exists c, (o = TNext c \/ o = TResume c) /\ tseen s' c = tseen s c ++ [v]
  | TStop => exists c, (o = TNext c \/ o = TResume c) /\ tstopped s' c = true
  | _ => True
  end.
Proof. exact tee_outputs_logged. Qed.
Print Assumptions C19_tee_outputs_logged.

Theorem C19_tee_no_deadlock : forall (mode : nat) (source : list Z) (n : nat) (ops : list top) (c : nat),
  let s := trun mode source n ops in
  tphase s c <> TIdle -> exists c', snd (fst (tstep s (TResume c'))) <> TRejected.
Proof. exact tee_no_deadlock. Qed.
Print Assumptions C19_tee_no_deadlock.

(* ---- aliasing: the same iterator object at several argument positions (store of underlying iterators + a
   position -> index list; distinct sources = no index twice).  Not covered by a theorem, only by the stdlib
   differential in harness/c19.py: tee iterators passed onward into these functions (composition of the tee LTS
   with the aliased models). *)
Theorem C19_zip_longest_alias_agrees : forall (fill : Z) (kd : ikinds) (st : istore) (ps : list nat),
  exists rows, zip_longest_alias_spec fill st ps = Some rows /\
               zip_longest_alias_run fill kd st ps <> None /\
               outcome (zip_longest_alias_model fill kd st ps) = (rows, None).
Proof. exact zip_longest_alias_agrees. Qed.
Print Assumptions C19_zip_longest_alias_agrees.

Theorem C19_zip_longest_alias_spec_distinct : forall (fill : Z) (st : istore) (ps : list nat), NoDup ps ->
  zip_longest_alias_spec fill st ps = Some (fst (zip_longest_spec fill (map st ps))).
Proof. exact zip_longest_alias_spec_distinct. Qed.
Print Assumptions C19_zip_longest_alias_spec_distinct.

Theorem C19_chain_alias_agrees : forall (outer : kind) (kd : ikinds) (st : istore) (ps : list nat),
  outcome (chain_alias_model outer kd st ps) = chain_alias_spec st ps.
Proof. exact chain_alias_agrees. Qed.
Print Assumptions C19_chain_alias_agrees.

Theorem C19_product_alias_agrees : forall (rep : Z) (kd : ikinds) (st : istore) (ps : list nat),
  outcome (product_alias_model rep kd st ps) = product_alias_spec rep st ps.
Proof. exact product_alias_agrees. Qed.
Print Assumptions C19_product_alias_agrees.

Theorem C19_starmap_alias_agrees : forall (f : list Z -> Z) (outer : kind) (kd : ikinds) (st : istore) (ps : list nat),
  outcome (starmap_alias_model f outer kd st ps) = starmap_alias_spec f st ps.
Proof. exact starmap_alias_agrees. Qed.
Print Assumptions C19_starmap_alias_agrees.

Theorem C19_compress_self_agrees : forall (s : src),
  outcome (compress_self_model s) = compress_self_spec (snd s).
Proof. exact compress_self_agrees. Qed.
Print Assumptions C19_compress_self_agrees.

Theorem C19_chain_alias_spec_distinct : forall (st : istore) (ps : list nat), NoDup ps ->
  chain_alias_spec st ps = chain_spec (map st ps).
Proof. exact chain_alias_spec_distinct. Qed.
Print Assumptions C19_chain_alias_spec_distinct.

Theorem C19_product_alias_spec_distinct : forall (rep : Z) (st : istore) (ps : list nat), NoDup ps ->
  product_alias_spec rep st ps = product_spec rep (map st ps).
Proof. exact product_alias_spec_distinct. Qed.
Print Assumptions C19_product_alias_spec_distinct.

Theorem C19_starmap_alias_spec_distinct : forall (f : list Z -> Z) (st : istore) (ps : list nat), NoDup ps ->
  starmap_alias_spec f st ps = starmap_spec f (map st ps).
Proof. exact starmap_alias_spec_distinct. Qed.
Print Assumptions C19_starmap_alias_spec_distinct.
