(* C03 — level-triggered cancellation: nothing stays blocked in a cancelled scope.
   This file contains only statements closed by `exact` and their Print Assumptions. *)
From AV Require Import Base Machine ScopeFrames DeliverInv.

Theorem C03_deliver_cancels_reach : forall s c, wait_link s ->
  let s' := deliver_top s c in
  kframe s s' /\
  (forall c', c' <> c -> scopes s' c' = scopes s c') /\
  (forall x t, dreach s (S (nscope s)) c x t -> elig s t x -> requested s' t (S c)) /\
  ((exists x t, dreach s (S (nscope s)) c x t /\ k_done (tasks s t) = None) ->
     s_chandle (scopes s' c) = true /\ In (HDeliver c) (ready s')) /\
  (~ (exists x t, dreach s (S (nscope s)) c x t /\ k_done (tasks s t) = None) ->
     s_chandle (scopes s' c) = false).
Proof. exact deliver_top_spec. Qed.
Print Assumptions C03_deliver_cancels_reach.
