(* C03 — level-triggered cancellation: nothing stays blocked in a cancelled scope.
   This file contains only statements closed by `exact` and their Print Assumptions.
   reach_ok s = s is reached from init by an op list of the generated domain (TreeStep.op_ok: AEnter only on
   allocated scopes that are neither a task group's own scope nor a task handle's scope, AExit on such scopes
   or when it is rejected by its guards anyway, AGroupEnter on allocated groups, AFinish only at the task's
   base scope, ARun (HWake t f) only for f = the task's waiter). *)
From AV Require Import Base Machine ScopeFrames DeliverInv TreeInv DeliverAlive PotentialInv TreeStep KernelInv DeliverThms CycleThms ActWalk ActThms CycleMore AuditWitness CheckpointFacts CkifPinned.

(* I4: a cancelled, hosted scope that some live task still reaches (walk from the task's current scope up the
   parent links through scopes that are neither shielded nor cancelled) has its delivery callback scheduled *)
Theorem C03_delivery_alive : forall s c,
  reach_ok s -> s_cancelled (scopes s c) = true -> s_host (scopes s c) <> None ->
  (exists t, reaches s t c) ->
  s_chandle (scopes s c) = true /\ In (HDeliver c) (ready s).
Proof. exact delivery_alive. Qed.
Print Assumptions C03_delivery_alive.

(* the structural invariant behind it (I1 tree, I2 stack) holds in every reachable state of the domain *)
Theorem C03_tree_invariant : forall s, reach_ok s -> Tree s.
Proof. exact reach_tree. Qed.
Print Assumptions C03_tree_invariant.

(* running the scheduled callback in a reachable state: every reached task that can take a request gets one
   carrying the scope as origin, and the callback is re-scheduled iff somebody is still reached *)
Theorem C03_deliver_cancels_reach : forall s c,
  reach_ok s -> In (HDeliver c) (ready s) ->
  let s' := fst (step s (ARun (HDeliver c))) in
  (forall t, reaches s t c -> takes_request s t -> requested s' t (S c)) /\
  ((exists t, reaches s t c) -> s_chandle (scopes s' c) = true /\ In (HDeliver c) (ready s')) /\
  (~ (exists t, reaches s t c) -> s_chandle (scopes s' c) = false) /\
  (forall c', c' <> c -> scopes s' c' = scopes s c').
Proof. exact deliver_cancels_reach. Qed.
Print Assumptions C03_deliver_cancels_reach.

(* the same on the recursion itself (any state): walk = dreach on the children/tasks lists *)
Theorem C03_deliver_top_spec : forall s c, wait_link s ->
  let s' := deliver_top s c in
  kframe s s' /\
  (forall c', c' <> c -> scopes s' c' = scopes s c') /\
  (forall x t, dreach s (S (nscope s)) c x t -> elig s t x -> requested s' t (S c)) /\
  ((exists x t, dreach s (S (nscope s)) c x t /\ k_done (tasks s t) = None) ->
     s_chandle (scopes s' c) = true /\ In (HDeliver c) (ready s')) /\
  (~ (exists x t, dreach s (S (nscope s)) c x t /\ k_done (tasks s t) = None) ->
     s_chandle (scopes s' c) = false).
Proof. exact deliver_top_spec. Qed.
Print Assumptions C03_deliver_top_spec.

(* K: the link between a waiting task and its future holds after EVERY op sequence (no domain restriction) *)
Theorem C03_wait_link : forall ops, wait_link (final step init ops).
Proof. exact reach_wait_link. Qed.
Print Assumptions C03_wait_link.

(* K: the request is what the task receives at its next step ... *)
Theorem C03_cancelled_request_is_delivered : forall s t o,
  requested s t o -> snd (incoming s t (k_waiter (tasks s t))) = Some (ECancel o).
Proof. exact cancelled_request_is_delivered. Qed.
Print Assumptions C03_cancelled_request_is_delivered.

(* ... and a plain wait (checkpoint, checkpoint_if_cancelled spin, sleep, handle.wait) raises it *)
Theorem C03_cancelled_wait_raises : forall s t o,
  requested s t o ->
  match k_ctl (tasks s t) with
  | CYield YCheckpoint | CYield YCkIf | CSleep _ _ | CHandleWait _ _ => True
  | _ => False
  end ->
  snd (resume s t (k_waiter (tasks s t))) = RExc (ECancel o).
Proof. exact cancelled_wait_raises. Qed.
Print Assumptions C03_cancelled_wait_raises.

(* corner cases of one delivery step: the task is skipped and the delivery asks to be re-run *)
Theorem C03_corner_running : forall self o a r t,
  running a = Some t -> k_done (tasks a t) = None -> deliver_task self o (a, r) t = (a, true).
Proof. exact corner_running. Qed.
Print Assumptions C03_corner_running.

Theorem C03_corner_not_started : forall self o a r t,
  k_started (tasks a t) = false -> s_host (scopes a self) <> Some t -> k_done (tasks a t) = None ->
  deliver_task self o (a, r) t = (a, true).
Proof. exact corner_not_started. Qed.
Print Assumptions C03_corner_not_started.

Theorem C03_corner_about_to_resume : forall self o a r t f,
  k_waiter (tasks a t) = Some f -> f_st (futs a f) <> FPend -> k_done (tasks a t) = None ->
  deliver_task self o (a, r) t = (a, true).
Proof. exact corner_about_to_resume. Qed.
Print Assumptions C03_corner_about_to_resume.

Theorem C03_cancelled_before_entry_delivers : forall s c t,
  s_active (scopes s c) = false -> s_cancelled (scopes s c) = true -> k_cur (tasks s t) <> Some c ->
  fst (scope_enter s c t) = deliver_top (enter_s5 s c t) c.
Proof. exact cancelled_before_entry_delivers. Qed.
Print Assumptions C03_cancelled_before_entry_delivers.

Theorem C03_exit_restarts_parent : forall s c t exc,
  s_active (scopes s c) = true -> s_host (scopes s c) = Some t -> k_cur (tasks s t) = Some c ->
  exists s6, kframe (restart (exit_struct s c t) (s_parent (scopes s c))) s6 /\
             fst (scope_exit s c t exc) = upd_scope s6 c (sc_host None).
Proof. exact exit_restarts_parent. Qed.
Print Assumptions C03_exit_restarts_parent.

(* one-cycle pieces with the exact origin: the delivery callback is in the ready queue; running it cancels the
   task's wait and schedules its wake-up; running the wake-up raises the cancellation with the scope as origin *)
Theorem C03_delivery_then_wake_raises : forall s t c f,
  reach_ok s -> s_cancelled (scopes s c) = true -> s_host (scopes s c) <> None -> reaches s t c ->
  k_must (tasks s t) = false -> k_started (tasks s t) = true ->
  k_waiter (tasks s t) = Some f -> f_st (futs s f) = FPend ->
  match k_ctl (tasks s t) with
  | CYield YCheckpoint | CYield YCkIf | CSleep _ _ | CHandleWait _ _ => True
  | _ => False
  end ->
  let s1 := fst (step s (ARun (HDeliver c))) in
  In (HDeliver c) (ready s) /\
  In (HWake t f) (ready s1) /\
  snd (step s1 (ARun (HWake t f))) = RExc (ECancel (S c)).
Proof. exact cancel_latency_le_2_cycles_partial. Qed.
Print Assumptions C03_delivery_then_wake_raises.

Theorem C03_delivery_then_step_raises : forall s t c,
  reach_ok s -> s_cancelled (scopes s c) = true -> s_host (scopes s c) <> None -> reaches s t c ->
  k_must (tasks s t) = false -> k_started (tasks s t) = true -> k_waiter (tasks s t) = None ->
  In (HStep t) (ready s) ->
  match k_ctl (tasks s t) with CYield YCheckpoint | CYield YCkIf => True | _ => False end ->
  let s1 := fst (step s (ARun (HDeliver c))) in
  In (HDeliver c) (ready s) /\
  In (HStep t) (ready s1) /\
  snd (step s1 (ARun (HStep t))) = RExc (ECancel (S c)).
Proof. exact ckif_spin_terminates_partial. Qed.
Print Assumptions C03_delivery_then_step_raises.

(* ---- bounded response under the FIFO event loop ----
   run_head s   = run the head of the ready queue (step s (ARun h)); identity on an empty queue
   fifo_cycle s = iter (length (ready s)) run_head s   (snapshot the queue length, run that many heads)
   heads n s    = the n (state, handle) pairs (s_i, h_i) of the next n head runs
   wait_ctl     = the task is the puppet at its decision point, in a checkpoint, in checkpoint_if_cancelled,
                  in sleep, or in a handle wait
   cycle_ok t f n s = each of the next n head runs is either t's own wake-up HWake t f at a moment where f is
                  no longer pending, or a callback of a covered kind that is not HWake t f:
                  HDeliver, HTaskDone, HSleepDone, HTimeout of anything, and HStep/HWake of another task whose
                  frame is simple_ctl (decision point, checkpoint, checkpoint_if_cancelled, sleep, handle wait,
                  done), all inside the op domain.
   The two cycles consist of head-of-queue runs ONLY: no task makes any API call, no time passes (no tick), there
   is no native or external cancel and no new root task inside them.
   Excluded in addition: resumptions of other tasks' library frames that run scope exits or group logic (task
   start CNew, CYield (YShield _), CAexitWait, CAexitCk, CStartWait, CStartJoin), any HStep of t, and a wake-up
   of t while f is still pending.
   Statement: t suspended on the pending future f with no request recorded, reaching the cancelled hosted
   scope c at a cycle boundary.  Then among the head runs of this cycle and the next there is t's wake-up, and
   it raises a cancellation (origin: c or a nearer scope cancelled in between) unless f was completed with a
   result or an exception first (the wait finished normally before the delivery). *)
Theorem C03_cancel_latency_le_2_cycles : forall t f c s,
  reach_ok s -> running s <> Some t ->
  s_cancelled (scopes s c) = true -> s_host (scopes s c) <> None -> reaches s t c ->
  k_must (tasks s t) = false -> k_started (tasks s t) = true ->
  k_waiter (tasks s t) = Some f -> f_st (futs s f) = FPend -> wait_ctl (k_ctl (tasks s t)) = true ->
  cycle_ok t f (length (ready s)) s -> cycle_ok t f (length (ready (fifo_cycle s))) (fifo_cycle s) ->
  exists si,
    In (si, HWake t f) (heads (length (ready s)) s ++ heads (length (ready (fifo_cycle s))) (fifo_cycle s)) /\
    ((exists o, snd (step si (ARun (HWake t f))) = RExc (ECancel o)) \/
     (exists v, f_st (futs si f) = FRes v) \/ (exists e, f_st (futs si f) = FExc e)).
Proof. exact cancel_latency_le_2_cycles. Qed.
Print Assumptions C03_cancel_latency_le_2_cycles.

(* the premises are satisfiable (task 1 cancels its own scope while running, then sleeps forever); the two
   cycles observed are [HDeliver 1] and [HWake 1 5; HDeliver 1] *)
Theorem C03_cancel_latency_nonvacuous :
  let s := final step init [ANewRoot; ANewScope 1 None false; AEnter 1 1; ACancel 1 1; ASleep 1 None] in
  running s <> Some 1 /\ s_cancelled (scopes s 1) = true /\ s_host (scopes s 1) <> None /\ reaches s 1 1 /\
  k_must (tasks s 1) = false /\ k_started (tasks s 1) = true /\ k_waiter (tasks s 1) = Some 5 /\
  f_st (futs s 5) = FPend /\ wait_ctl (k_ctl (tasks s 1)) = true /\
  cycle_ok 1 5 (length (ready s)) s /\ cycle_ok 1 5 (length (ready (fifo_cycle s))) (fifo_cycle s) /\
  map snd (heads (length (ready s)) s ++ heads (length (ready (fifo_cycle s))) (fifo_cycle s))
  = [HDeliver 1; HWake 1 5; HDeliver 1].
Proof. exact lat_premises. Qed.
Print Assumptions C03_cancel_latency_nonvacuous.

(* checkpoint_if_cancelled spin: t is suspended in the bare yield of the spin (its HStep is scheduled) and
   reaches the cancelled hosted scope c.  cycle_oky t n s = each of the next n head runs is t's own HStep, or a
   covered callback as above (with "HStep/HWake of another task" meaning a task other than t).  Then among the
   head runs of this cycle and the next there is a step of t that raises a cancellation: the spin makes at
   most one more round. *)
Theorem C03_ckif_spin_terminates : forall t c s,
  reach_ok s -> running s <> Some t ->
  s_cancelled (scopes s c) = true -> s_host (scopes s c) <> None -> reaches s t c ->
  k_started (tasks s t) = true -> k_waiter (tasks s t) = None ->
  k_ctl (tasks s t) = CYield YCkIf -> In (HStep t) (ready s) ->
  cycle_oky t (length (ready s)) s -> cycle_oky t (length (ready (fifo_cycle s))) (fifo_cycle s) ->
  exists si,
    In (si, HStep t) (heads (length (ready s)) s ++ heads (length (ready (fifo_cycle s))) (fifo_cycle s)) /\
    exists o, snd (step si (ARun (HStep t))) = RExc (ECancel o).
Proof. exact ckif_spin_terminates. Qed.
Print Assumptions C03_ckif_spin_terminates.

Theorem C03_ckif_spin_nonvacuous :
  let s := final step init [ANewRoot; ANewScope 1 None false; AEnter 1 1; ACancel 1 1; ACkIf 1] in
  running s <> Some 1 /\ s_cancelled (scopes s 1) = true /\ s_host (scopes s 1) <> None /\ reaches s 1 1 /\
  k_started (tasks s 1) = true /\ k_waiter (tasks s 1) = None /\ k_ctl (tasks s 1) = CYield YCkIf /\
  In (HStep 1) (ready s) /\
  cycle_oky 1 (length (ready s)) s /\ cycle_oky 1 (length (ready (fifo_cycle s))) (fifo_cycle s) /\
  map snd (heads (length (ready s)) s ++ heads (length (ready (fifo_cycle s))) (fifo_cycle s))
  = [HDeliver 1; HStep 1; HDeliver 1].
Proof. exact spin_premises. Qed.
Print Assumptions C03_ckif_spin_nonvacuous.

(* F46.  The complement of C03_ckif_spin_terminates: when NO cancelled scope is visible any more from the current scope of
   a spinning task (e.g. a shield was raised between the cancellation and the delivery), its next step returns normally
   from checkpoint_if_cancelled -- the spin never goes on with nothing left to deliver.  Any state. *)
Theorem C03_ckif_spin_released_when_nothing_visible : forall s t,
  In (HStep t) (ready s) -> k_ctl (tasks s t) = CYield YCkIf -> k_must (tasks s t) = false ->
  eff_cancelled_from (nscope s) s (k_cur (tasks s t)) = false ->
  snd (step s (ARun (HStep t))) = RRet 0.
Proof. exact ckif_spin_released_when_nothing_visible. Qed.
Print Assumptions C03_ckif_spin_released_when_nothing_visible.

(* Before F46 (CkifPinned.step_pinned: the spinning task yields again unconditionally) the run f46_ops, the same on both
   machines op by op, ends with task 1 spinning alone in the ready queue, no cancelled scope visible from its scope 2,
   no delivery callback for the cancelled scope 1 and no timer; from there EVERY later run of its callback suspends it
   again and leaves the queue [HStep 1]: a busy loop that no delivery will ever end. *)
Theorem C03_ckif_spin_for_ever_refuted_pinned :
  snd (run_ops step_pinned init f46_ops) = snd (run_ops step init f46_ops) /\
  spinning f46_state_pinned 1 /\ k_cur (tasks f46_state_pinned 1) = Some 2 /\
  eff_cancelled f46_state_pinned 2 = false /\
  s_chandle (scopes f46_state_pinned 1) = false /\ timers f46_state_pinned = [] /\
  snd (step f46_state_pinned (ARun (HStep 1))) = RRet 0 /\
  forall n, snd (step_pinned (pinned_rounds n f46_state_pinned 1) (ARun (HStep 1))) = RBlocked /\
            ready (pinned_rounds n f46_state_pinned 1) = [HStep 1].
Proof. exact ckif_pinned_run_witness_full. Qed.
Print Assumptions C03_ckif_spin_for_ever_refuted_pinned.

(* the same under the conventional name: in f46_state_pinned the premises of C03_ckif_spin_released_when_nothing_visible hold
   for task 1 (spinning: its step queued, frame CYield YCkIf, no request; current scope 2, not effectively cancelled);
   today's step returns RRet 0, the pinned step returns RBlocked, for ever *)
Theorem C03_ckif_spin_released_when_nothing_visible_refuted_pinned :
  snd (run_ops step_pinned init f46_ops) = snd (run_ops step init f46_ops) /\
  spinning f46_state_pinned 1 /\ k_cur (tasks f46_state_pinned 1) = Some 2 /\
  eff_cancelled f46_state_pinned 2 = false /\
  s_chandle (scopes f46_state_pinned 1) = false /\ timers f46_state_pinned = [] /\
  snd (step f46_state_pinned (ARun (HStep 1))) = RRet 0 /\
  forall n, snd (step_pinned (pinned_rounds n f46_state_pinned 1) (ARun (HStep 1))) = RBlocked /\
            ready (pinned_rounds n f46_state_pinned 1) = [HStep 1].
Proof. exact ckif_pinned_run_witness_full. Qed.
Print Assumptions C03_ckif_spin_released_when_nothing_visible_refuted_pinned.

(* ---- bounded response under concurrent activity of the other tasks, within the op_ok domain (audit C03 item 1) ----
   wcyc n s ops s' = one event-loop iteration from s to s': exactly n callbacks are run, each one the head of the
                     ready queue at that moment (or the queue runs dry), with any number of other ops in between
   wop t f s o     = o is an act of somebody else (other_act: any API call of a task other than t - enter, exit,
                     cancel, shield, deadline, task-group and start() calls, sleeps, checkpoints, finishing ... -
                     scope.cancel() from a callback, time passing, a new root task, a native cancel of another
                     task) with op_ok, or the run of the callback at the head of the queue unless it resumes t;
                     every frame of a resumed task is allowed (task start, shielded checkpoint, TaskGroup.__aexit__
                     wait loop and final checkpoint, start() wait and join, ...)
   wok0 t f s ops  = every op is a wop until t's wake-up ARun (HWake t f) is run with its future done
   trace / states  = the (state, op) pairs / the states of the run
   Statement: t is suspended on the pending future f with no request recorded, has started and reaches the
   cancelled hosted scope c at the boundary between two iterations.  Then within this iteration and the next
   t's wake-up is run and raises a cancellation - unless f was completed with a result or an exception first -
   or at some state of the window t is not effectively cancelled any more (somebody shielded it).
   Every window op must satisfy op_ok (the well-used domain of TreeStep.ops_ok).  Not covered as window ops: acts
   of t itself (it is suspended), a native Task.cancel() of t, running a callback that is not at the head of the
   queue.  Hypotheses on t at the start: no request recorded (k_must = false) and started (k_started = true). *)
Theorem C03_cancel_latency_any_activity : forall t f c s ops1 ops2 s1 s2,
  reach_ok s -> running s <> Some t ->
  s_cancelled (scopes s c) = true -> s_host (scopes s c) <> None -> reaches s t c ->
  k_must (tasks s t) = false -> k_started (tasks s t) = true ->
  k_waiter (tasks s t) = Some f -> f_st (futs s f) = FPend -> wait_ctl (k_ctl (tasks s t)) = true ->
  wcyc (length (ready s)) s ops1 s1 -> wcyc (length (ready s1)) s1 ops2 s2 -> wok0 t f s (ops1 ++ ops2) ->
  (exists si, In (si, ARun (HWake t f)) (trace s (ops1 ++ ops2)) /\
     ((exists o, snd (step si (ARun (HWake t f))) = RExc (ECancel o)) \/
      (exists v, f_st (futs si f) = FRes v) \/ (exists e, f_st (futs si f) = FExc e))) \/
  (exists si, In si (states s (ops1 ++ ops2)) /\ eff_cancelled_from (nscope si) si (k_cur (tasks si t)) = false).
Proof. exact cancel_latency_any_activity_full. Qed.
Print Assumptions C03_cancel_latency_any_activity.

(* non-vacuity with a task group: host 1 waits in TaskGroup.__aexit__, children 2 and 3 sleep; child 3 cancelled
   the group scope itself before going to sleep (it is t; the delivery that hit child 2 and the host skipped it).
   grp_ops1 = [ARun (HWake 2 8); AFinish 2 0; ARun (HWake 1 9); ARun (HDeliver 1)]   (child 2 gets the cancellation
   and finishes - an API-level act of another task; the host is resumed inside __aexit__ with the cancellation;
   the delivery callback cancels child 3's sleep), grp_ops2 = [ARun (HTaskDone 2); ARun (HWake 3 11); ARun (HDeliver 1)].
   cycle_ok of C03_cancel_latency_le_2_cycles is false here (C03_cancel_latency_any_activity_beyond_cycle_ok below). *)
Theorem C03_cancel_latency_any_activity_nonvacuous :
  let s := final step init grp_pre in
  reach_ok s /\ running s <> Some 3 /\ s_cancelled (scopes s 1) = true /\ s_host (scopes s 1) <> None /\
  reaches s 3 1 /\ k_must (tasks s 3) = false /\ k_started (tasks s 3) = true /\ k_waiter (tasks s 3) = Some 11 /\
  f_st (futs s 11) = FPend /\ wait_ctl (k_ctl (tasks s 3)) = true /\
  k_ctl (tasks s 1) = CAexitWait 1 4 None /\ k_ctl (tasks s 2) = CSleep 8 0 /\
  ready s = [HWake 2 8; HWake 1 9; HDeliver 1] /\
  wok 3 11 s (grp_ops1 ++ grp_ops2) /\
  exists s1 s2, wcyc (length (ready s)) s grp_ops1 s1 /\ wcyc (length (ready s1)) s1 grp_ops2 s2 /\
                ready s1 = [HTaskDone 2; HWake 3 11; HDeliver 1].
Proof. exact grp_premises. Qed.
Print Assumptions C03_cancel_latency_any_activity_nonvacuous.

Theorem C03_cancel_latency_any_activity_nonvacuous_window :
  wok0 3 11 (final step init grp_pre) (grp_ops1 ++ grp_ops2).
Proof. exact grp_wok0. Qed.
Print Assumptions C03_cancel_latency_any_activity_nonvacuous_window.

(* that witness lies outside the FIFO theorem: the second head run resumes the host inside TaskGroup.__aexit__
   (frame CAexitWait, not simple_ctl), and AFinish 2 0 is an API call *)
Theorem C03_cancel_latency_any_activity_beyond_cycle_ok :
  ~ cycle_ok 3 11 (length (ready (final step init grp_pre))) (final step init grp_pre).
Proof. exact grp_cycle_ok_fails. Qed.
Print Assumptions C03_cancel_latency_any_activity_beyond_cycle_ok.

(* ---- a plain checkpoint() under the FIFO loop (audit C03 item 2) ----
   cycle_okc t n s = each of the next n head runs up to t's own step is a covered callback of somebody else
   (bystander_y: HDeliver/HTaskDone/HSleepDone/HTimeout, HStep/HWake of another task with a simple_ctl frame);
   pure FIFO head runs: no API call by anybody, no tick, no native/external cancel in between.  Without this
   hypothesis the statement is false (a task resumed in between may raise a shield).
   The task sits in the bare yield of checkpoint() (no waiter, its step queued) and reaches the cancelled hosted
   scope c; no step of t is queued in front of position |pre| and the delivery callback of c is queued in front
   of it (or a request is already recorded).  Then the first step of t in this iteration raises the cancellation.
   (If the step is queued in front of the delivery callback, checkpoint() returns normally - the task is not
   blocked, and its next wait is covered by the latency theorems.) *)
Theorem C03_checkpoint_raises_fifo : forall t c s pre post,
  reach_ok s -> running s <> Some t ->
  s_cancelled (scopes s c) = true -> s_host (scopes s c) <> None -> reaches s t c ->
  k_started (tasks s t) = true -> k_waiter (tasks s t) = None -> k_ctl (tasks s t) = CYield YCheckpoint ->
  ready s = pre ++ HStep t :: post -> ~ In (HStep t) pre ->
  (k_must (tasks s t) = true \/ In (HDeliver c) pre) ->
  cycle_okc t (length (ready s)) s ->
  exists si, In (si, HStep t) (heads (length (ready s)) s) /\
             exists o, snd (step si (ARun (HStep t))) = RExc (ECancel o).
Proof. exact checkpoint_raises_fifo. Qed.
Print Assumptions C03_checkpoint_raises_fifo.

Theorem C03_checkpoint_raises_fifo_nonvacuous :
  let s := final step init [ANewRoot; ANewScope 1 None false; AEnter 1 1; ACancel 1 1; AYield 1] in
  reach_ok s /\ running s <> Some 1 /\ s_cancelled (scopes s 1) = true /\ s_host (scopes s 1) <> None /\
  reaches s 1 1 /\ k_started (tasks s 1) = true /\ k_waiter (tasks s 1) = None /\
  k_ctl (tasks s 1) = CYield YCheckpoint /\ ready s = [HDeliver 1] ++ HStep 1 :: [] /\
  ~ In (HStep 1) [HDeliver 1] /\ In (HDeliver 1) [HDeliver 1] /\ cycle_okc 1 (length (ready s)) s.
Proof. exact ck_premises. Qed.
Print Assumptions C03_checkpoint_raises_fifo_nonvacuous.

(* the bystander branch of cycle_okc: ckb_ops = [ANewRoot; ANewScope 1 None false; AEnter 1 1; ANewRoot; AYield 2;
   ACancel 1 1; AYield 1]; the step of ANOTHER task (task 2, in a checkpoint) is queued in front of the delivery callback
   and of task 1's step *)
Theorem C03_checkpoint_raises_fifo_nonvacuous_bystander :
  let s := final step init ckb_ops in
  reach_ok s /\ running s <> Some 1 /\ s_cancelled (scopes s 1) = true /\ s_host (scopes s 1) <> None /\
  reaches s 1 1 /\ k_started (tasks s 1) = true /\ k_waiter (tasks s 1) = None /\
  k_ctl (tasks s 1) = CYield YCheckpoint /\ ready s = [HStep 2; HDeliver 1] ++ HStep 1 :: [] /\
  ~ In (HStep 1) [HStep 2; HDeliver 1] /\ In (HDeliver 1) [HStep 2; HDeliver 1] /\
  k_ctl (tasks s 2) = CYield YCheckpoint /\
  cycle_okc 1 (length (ready s)) s.
Proof. exact ckb_premises. Qed.
Print Assumptions C03_checkpoint_raises_fifo_nonvacuous_bystander.

(* ---- a task that has not started yet (audit C03 item 2) ----
   wok2 t s ops = before t's first step ARun (HStep t): every op is an act of somebody else (as in wop) or the run of
                  the head-of-queue callback unless it resumes t; after that step, with fp the future t is parked
                  on: wok0 t fp (the window of C03_cancel_latency_any_activity)
   GoalN t s ops = a resumption of t in the run raised a cancellation (or the future it was parked on was completed
                  with a result or an exception first), or at some state t has an outcome (k_done <> None: the
                  statement does not say which), or at some state t is not effectively cancelled
   A freshly spawned task (frame CNew, first step queued) reaches the cancelled hosted scope c at an iteration
   boundary.  Within three iterations of activity of the others (window ops as in wop: op_ok each, no native cancel
   of t itself, callbacks only from the head of the queue) GoalN holds: AnyIO deliveries skip a task
   that has not started, its first step runs in iteration 1 (a request recorded before ends it without running),
   entering its handle scope keeps it under a cancelled scope (the group scope's, or its own handle scope's if
   that was cancelled) unless a shield is raised, and the latency theorem covers iterations 2 and 3. *)
Theorem C03_new_task_cancelled : forall t c s ops1 ops2 ops3 s1 s2 s3,
  reach_ok s -> running s <> Some t -> k_ctl (tasks s t) = CNew -> k_started (tasks s t) = false ->
  k_waiter (tasks s t) = None -> k_done (tasks s t) = None -> In (HStep t) (ready s) ->
  s_cancelled (scopes s c) = true -> s_host (scopes s c) <> None -> reaches s t c ->
  wcyc (length (ready s)) s ops1 s1 -> wcyc (length (ready s1)) s1 ops2 s2 -> wcyc (length (ready s2)) s2 ops3 s3 ->
  wok2 t s (ops1 ++ ops2 ++ ops3) ->
  (exists si h, In (si, ARun h) (trace s (ops1 ++ ops2 ++ ops3)) /\ (h = HStep t \/ exists g, h = HWake t g) /\
     ((exists o, snd (step si (ARun h)) = RExc (ECancel o)) \/
      (exists g, h = HWake t g /\ ((exists v, f_st (futs si g) = FRes v) \/ (exists e, f_st (futs si g) = FExc e))))) \/
  (exists si, In si (states s (ops1 ++ ops2 ++ ops3)) /\ k_done (tasks si t) <> None) \/
  (exists si, In si (states s (ops1 ++ ops2 ++ ops3)) /\
              eff_cancelled_from (nscope si) si (k_cur (tasks si t)) = false).
Proof. exact new_task_cancelled. Qed.
Print Assumptions C03_new_task_cancelled.

(* non-vacuity: a child spawned into a task group whose scope is already cancelled.
   nt_ops1 = [ARun (HDeliver 1); ARun (HStep 2)], nt_ops2 = [ARun (HWake 1 5); ARun (HDeliver 1)],
   nt_ops3 = [ARun (HWake 1 7); ARun (HWake 2 6); ARun (HDeliver 1)] *)
Theorem C03_new_task_cancelled_nonvacuous :
  let s := final step init [ANewRoot; AGroupNew 1; AGroupEnter 1 1; ACancel 1 1; ASpawn 1 1] in
  s_host (scopes s 1) <> None /\
  (reach_ok s /\ running s <> Some 2 /\ k_ctl (tasks s 2) = CNew /\ k_started (tasks s 2) = false /\
   k_waiter (tasks s 2) = None /\ k_done (tasks s 2) = None /\ In (HStep 2) (ready s) /\ 2 < ntask s /\
   s_cancelled (scopes s 1) = true /\ reaches s 2 1 /\ k_must (tasks s 2) = false /\
   wokn 2 s nt_ops /\ exists s', wcyc (length (ready s)) s nt_ops s').
Proof. exact nt_premises_host. Qed.
Print Assumptions C03_new_task_cancelled_nonvacuous.

Theorem C03_new_task_cancelled_nonvacuous_window :
  let s := final step init nt_pre in
  wok2 2 s (nt_ops1 ++ nt_ops2 ++ nt_ops3) /\
  exists s1 s2 s3, wcyc (length (ready s)) s nt_ops1 s1 /\ wcyc (length (ready s1)) s1 nt_ops2 s2 /\
                   wcyc (length (ready s2)) s2 nt_ops3 s3.
Proof. exact nt3_premises. Qed.
Print Assumptions C03_new_task_cancelled_nonvacuous_window.
