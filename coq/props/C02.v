(* C02 — Task group errors: siblings cancelled, every exception surfaces exactly once.
   This file contains only statements closed by `exact` and their Print Assumptions. *)
From AV Require Import Base Machine GroupInv GroupThmsPure GroupThms GroupThms4 GroupThms6 GroupThms7 GroupThms10 GroupThms12 GroupThms15 GroupThms16.
From Coq Require Import Permutation.

Theorem C02_group_excs_exactly_member_errors : forall s g, reach s ->
  NoDup (filter (fun x => negb (Nat.eqb x 0)) (map fst (g_excs (groups s g)))) /\
  (forall t e, In (t, e) (g_excs (groups s g)) -> t <> 0 ->
     k_group (tasks s t) = Some g /\ k_tdran (tasks s t) = true /\ k_done (tasks s t) = Some (OExc e) /\
     is_cancel e = false) /\
  (forall e, In (0, e) (g_excs (groups s g)) -> is_cancel e = false) /\
  (forall t e, In t (g_ever (groups s g)) -> k_tdran (tasks s t) = true -> k_done (tasks s t) = Some (OExc e) ->
     is_cancel e = false /\
     (In (t, e) (g_excs (groups s g)) \/
      exists f, k_startfut (tasks s t) = Some f /\ f_st (futs s f) = FExc e)).
Proof. exact group_excs_exactly_member_errors. Qed.
Print Assumptions C02_group_excs_exactly_member_errors.

Theorem C02_group_excs_grow_only_by : forall s o g, reach s ->
  g_excs (groups (fst (step s o)) g) <> g_excs (groups s g) ->
  (exists t e, o = ARun (HTaskDone t) /\ In (HTaskDone t) (ready s) /\ k_group (tasks s t) = Some g /\
               k_done (tasks s t) = Some (OExc e) /\ is_cancel e = false /\
               g_excs (groups (fst (step s o)) g) = g_excs (groups s g) ++ [(t, e)]) \/
  (exists t e, o = AGroupExit t g /\ idle s t = true /\ k_held (tasks s t) = Some e /\ is_cancel e = false /\
               g_excs (groups (fst (step s o)) g) = g_excs (groups s g) ++ [(0, e)]) \/
  (exists t, o = AGroupNew t /\ g = ngroup s).
Proof. exact group_excs_grow_only_by. Qed.
Print Assumptions C02_group_excs_grow_only_by.

(* F23: after the task_done callback of a child that ended with a non-cancellation error (not routed to a pending
   start future: the group's error list grew) the group's OWN scope has cancel_called (s_cancelled) - whatever the
   enclosing scopes - and is therefore effectively cancelled *)
Theorem C02_first_failure_cancels_group : forall s t g, reach s -> In (HTaskDone t) (ready s) ->
  k_group (tasks s t) = Some g ->
  g_excs (groups (fst (step s (ARun (HTaskDone t)))) g) <> g_excs (groups s g) ->
  s_cancelled (scopes (fst (step s (ARun (HTaskDone t))))
                      (g_scope (groups (fst (step s (ARun (HTaskDone t)))) g))) = true /\
  eff_cancelled (fst (step s (ARun (HTaskDone t))))
                (g_scope (groups (fst (step s (ARun (HTaskDone t)))) g)) = true.
Proof. exact first_failure_cancels_group. Qed.
Print Assumptions C02_first_failure_cancels_group.

Theorem C02_group_raises_group_of_excs : forall s t g exc, map snd (g_excs (groups s g)) <> [] ->
  aexit_finish s t g exc = aexit_raise s t g (EGroup (map snd (g_excs (groups s g)))).
Proof. exact group_raises_group_of_excs. Qed.
Print Assumptions C02_group_raises_group_of_excs.

Theorem C02_outcome_classes : forall s t e, reach s ->
  (k_done (tasks s t) = Some (OCanc e) -> is_cancel e = true) /\
  (k_done (tasks s t) = Some (OExc e) -> is_cancel e = false).
Proof. exact outcome_classes. Qed.
Print Assumptions C02_outcome_classes.

Theorem C02_split_partitions_leaves : forall e : exn,
  let m := match fst (split_exn e) with Some x => leaves x | None => [] end in
  let r := match snd (split_exn e) with Some x => leaves x | None => [] end in
  Permutation (leaves e) (m ++ r) /\
  m = filter is_anyio_cancel (leaves e) /\
  r = filter (fun x => negb (is_anyio_cancel x)) (leaves e) /\
  (forall x, In x m -> is_anyio_cancel x = true) /\
  (forall x, In x r -> is_anyio_cancel x = false).
Proof. exact split_exn_partitions_leaves. Qed.
Print Assumptions C02_split_partitions_leaves.

(* under the `async with` discipline (GroupThms10.okop, see props/C01.v) every source tag occurs once: each member
   and the body contribute at most one exception.  False without it: GroupThms7.body_tag_not_unique_under_double_exit *)
Theorem C02_group_excs_nodup_tags : forall ops g, disciplined ops = true ->
  NoDup (map fst (g_excs (groups (final step init ops) g))).
Proof. exact group_excs_nodup_tags_ops. Qed.
Print Assumptions C02_group_excs_nodup_tags.

(* end to end under the discipline: the exceptions handed to the exception group by __aexit__ (map snd g_excs) are,
   up to order, the body exception (at most one, never a cancellation) plus the outcomes of the members `ms`;
   ms has no repetition, consists of members whose task_done ran with a non-cancellation exception, and contains
   every such member of the group unless its exception went to the start future of start() *)
Theorem C02_group_result_composition : forall ops g, disciplined ops = true ->
  let s := final step init ops in
  let L := g_excs (groups s g) in
  let body := map snd (filter (fun x => Nat.eqb (fst x) 0) L) in
  let ms := filter (fun x => negb (Nat.eqb x 0)) (map fst L) in
  let exn_of := fun t => match k_done (tasks s t) with Some (OExc e) => e | Some (OCanc e) => e | _ => ERuntime end in
  Permutation (map snd L) (body ++ map exn_of ms) /\
  Permutation (flat_map leaves (map snd L)) (flat_map leaves body ++ flat_map (fun t => leaves (exn_of t)) ms) /\
  length body <= 1 /\ (forall e, In e body -> is_cancel e = false) /\
  NoDup ms /\
  (forall t, In t ms -> k_group (tasks s t) = Some g /\ k_tdran (tasks s t) = true /\
                        exists e, k_done (tasks s t) = Some (OExc e) /\ is_cancel e = false) /\
  (forall t e, In t (g_ever (groups s g)) -> k_tdran (tasks s t) = true -> k_done (tasks s t) = Some (OExc e) ->
     In t ms \/ exists f, k_startfut (tasks s t) = Some f /\ f_st (futs s f) = FExc e).
Proof. exact group_result_composition_ops. Qed.
Print Assumptions C02_group_result_composition.

(* F20. The error e of a finished member t (task_done has run) is among the errors collected by its group, or it
   sits in t's start future - and then every starter still waiting on that future raises exactly e in the step that
   resumes it, whether or not it has been natively cancelled in between *)
Theorem C02_start_no_error_lost_raised : forall s g t e, reach s -> In t (g_ever (groups s g)) ->
  k_tdran (tasks s t) = true -> k_done (tasks s t) = Some (OExc e) ->
  In e (map snd (g_excs (groups s g))) \/
  exists f, k_startfut (tasks s t) = Some f /\ f_st (futs s f) = FExc e /\
    forall t' g' c h, k_ctl (tasks s t') = CStartWait g' c f -> In h (ready s) ->
      (h = HStep t' \/ exists f', h = HWake t' f') ->
      c = t /\ h = HWake t' f /\ snd (step s (ARun h)) = RExc e.
Proof. exact start_no_error_lost_raised. Qed.
Print Assumptions C02_start_no_error_lost_raised.

(* F20 before the fix (step_old = the step with the old CStartWait branch, GroupThms15.v): a run in which the child's
   error EErr 7 is in no result, in no group's collected errors, held by no live task and in no future a live task
   waits on; on the fixed machine the same run makes start() and then the task group raise it *)
Theorem C02_start_error_lost_before_fix_refuted :
  exists ops,
    let '(s, outs) := run_ops step_old init ops in
    k_done (tasks s 2) = Some (OExc (EErr 7)) /\ k_tdran (tasks s 2) = true /\
    f_st (futs s 4) = FExc (EErr 7) /\ k_startfut (tasks s 2) = Some 4 /\
    forallb (fun r => negb (res_has_err 7 r)) outs = true /\ err_visible 7 s = false /\
    err_visible 7 (final step_old init (firstn 10 ops)) = false /\
    k_ctl (tasks s 1) = CDone /\ k_ctl (tasks s 2) = CDone /\
    nth 9 (snd (run_ops step init ops)) RNone = RExc (EErr 7) /\
    nth 11 (snd (run_ops step init ops)) RNone = RExc (EGroup [EErr 7]).
Proof. exact start_error_lost_before_fix_refuted. Qed.
Print Assumptions C02_start_error_lost_before_fix_refuted.

(* the pre-fix step differs from the step only where a starter is resumed while its start future holds an exception *)
Theorem C02_step_old_eq : forall s o,
  (forall t g c f e, k_ctl (tasks s t) = CStartWait g c f -> f_st (futs s f) <> FExc e) ->
  step_old s o = step s o.
Proof. exact step_old_eq. Qed.
Print Assumptions C02_step_old_eq.

(* F23. In every state of every run, a task group whose error list is not empty (a child or the body failed) has
   cancel_called on its OWN scope and is therefore effectively cancelled, whatever shields are set afterwards *)
Theorem C02_failed_group_stays_cancelled : forall ops g,
  g_excs (groups (final step init ops) g) <> [] ->
  s_cancelled (scopes (final step init ops) (g_scope (groups (final step init ops) g))) = true /\
  eff_cancelled (final step init ops) (g_scope (groups (final step init ops) g)) = true.
Proof. exact failed_group_stays_cancelled. Qed.
Print Assumptions C02_failed_group_stays_cancelled.

(* the monotone form: no operation empties the error list of an allocated group, changes the group's scope or
   resets cancel_called of that scope *)
Theorem C02_failed_group_persists : forall s o g, reach s -> g < ngroup s -> g_excs (groups s g) <> [] ->
  g_excs (groups (fst (step s o)) g) <> [] /\
  g_scope (groups (fst (step s o)) g) = g_scope (groups s g) /\
  s_cancelled (scopes (fst (step s o)) (g_scope (groups s g))) = true.
Proof. exact failed_group_persists. Qed.
Print Assumptions C02_failed_group_persists.

(* __aexit__ entered with an exception of the body calls cancel() on the group's own scope *)
Theorem C02_body_failure_cancels_group : forall s t g e, reach s -> idle s t = true ->
  k_held (tasks s t) = Some e ->
  s_cancelled (scopes (fst (step s (AGroupExit t g))) (g_scope (groups (fst (step s (AGroupExit t g))) g))) = true /\
  (is_cancel e = false ->
   g_excs (groups (fst (step s (AGroupExit t g))) g) = g_excs (groups s g) ++ [(0, e)]).
Proof. exact body_failure_cancels_group. Qed.
Print Assumptions C02_body_failure_cancels_group.

(* F23 before the fix (step_old23 = the step with a literal copy of the old task_done callback, GroupThms16.v): the
   enclosing scope is cancelled, a child fails, the host shields the group's scope: the group with a failed child is
   active and neither cancelled nor effectively cancelled; on the fixed machine its own scope is cancelled *)
Theorem C02_failed_group_escapes_before_fix_refuted :
  exists ops,
    let s := final step_old23 init ops in
    g_excs (groups s 1) = [(3, EErr 7)] /\ g_scope (groups s 1) = 2 /\ s_active (scopes s 2) = true /\
    s_cancelled (scopes s 2) = false /\ eff_cancelled s 2 = false /\
    k_done (tasks s 2) = None /\ k_must (tasks s 2) = false /\
    s_cancelled (scopes (final step init ops) 2) = true /\ eff_cancelled (final step init ops) 2 = true.
Proof. exact failed_group_escapes_before_fix_refuted. Qed.
Print Assumptions C02_failed_group_escapes_before_fix_refuted.
