(* C02 — Task group errors: siblings cancelled, every exception surfaces exactly once.
   This file contains only statements closed by `exact` and their Print Assumptions. *)
From AV Require Import Base Machine GroupThmsPure.
From Coq Require Import Permutation.

Theorem C02_split_partitions_leaves : forall e : exn,
  let m := match fst (split_exn e) with Some x => leaves x | None => [] end in
  let r := match snd (split_exn e) with Some x => leaves x | None => [] end in
  Permutation (leaves e) (m ++ r) /\
  m = filter is_anyio_cancel (leaves e) /\
  r = filter (fun x => negb (is_anyio_cancel x)) (leaves e) /\
  (forall x, In x m -> is_anyio_cancel x = true) /\
  (forall x, In x r -> is_anyio_cancel x = false).
Proof. exact split_exn_partitions_leaves. Qed.
Print Assumptions C02_split_partitions_leaves.
