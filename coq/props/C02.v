(* C02 — Task group errors: siblings cancelled, every exception surfaces exactly once.
   This file contains only statements closed by `exact` and their Print Assumptions. *)
From AV Require Import Base Machine GroupInv GroupThmsPure GroupThms GroupThms4 GroupThms6 GroupThms7 GroupThms10 GroupThms12.
From Coq Require Import Permutation.

Theorem C02_group_excs_exactly_member_errors : forall s g, reach s ->
  NoDup (filter (fun x => negb (Nat.eqb x 0)) (map fst (g_excs (groups s g)))) /\
  (forall t e, In (t, e) (g_excs (groups s g)) -> t <> 0 ->
     k_group (tasks s t) = Some g /\ k_tdran (tasks s t) = true /\ k_done (tasks s t) = Some (OExc e) /\
     is_cancel e = false) /\
  (forall e, In (0, e) (g_excs (groups s g)) -> is_cancel e = false) /\
  (forall t e, In t (g_ever (groups s g)) -> k_tdran (tasks s t) = true -> k_done (tasks s t) = Some (OExc e) ->
     is_cancel e = false /\
     (In (t, e) (g_excs (groups s g)) \/
      exists f, k_startfut (tasks s t) = Some f /\ f_st (futs s f) = FExc e)).
Proof. exact group_excs_exactly_member_errors. Qed.
Print Assumptions C02_group_excs_exactly_member_errors.

Theorem C02_group_excs_grow_only_by : forall s o g, reach s ->
  g_excs (groups (fst (step s o)) g) <> g_excs (groups s g) ->
  (exists t e, o = ARun (HTaskDone t) /\ In (HTaskDone t) (ready s) /\ k_group (tasks s t) = Some g /\
               k_done (tasks s t) = Some (OExc e) /\ is_cancel e = false /\
               g_excs (groups (fst (step s o)) g) = g_excs (groups s g) ++ [(t, e)]) \/
  (exists t e, o = AGroupExit t g /\ idle s t = true /\ k_held (tasks s t) = Some e /\ is_cancel e = false /\
               g_excs (groups (fst (step s o)) g) = g_excs (groups s g) ++ [(0, e)]) \/
  (exists t, o = AGroupNew t /\ g = ngroup s).
Proof. exact group_excs_grow_only_by. Qed.
Print Assumptions C02_group_excs_grow_only_by.

Theorem C02_first_failure_cancels_group : forall s t g, reach s -> In (HTaskDone t) (ready s) ->
  k_group (tasks s t) = Some g ->
  g_excs (groups (fst (step s (ARun (HTaskDone t)))) g) <> g_excs (groups s g) ->
  eff_cancelled (fst (step s (ARun (HTaskDone t))))
                (g_scope (groups (fst (step s (ARun (HTaskDone t)))) g)) = true.
Proof. exact first_failure_cancels_group. Qed.
Print Assumptions C02_first_failure_cancels_group.

Theorem C02_group_raises_group_of_excs : forall s t g exc, map snd (g_excs (groups s g)) <> [] ->
  aexit_finish s t g exc = aexit_raise s t g (EGroup (map snd (g_excs (groups s g)))).
Proof. exact group_raises_group_of_excs. Qed.
Print Assumptions C02_group_raises_group_of_excs.

Theorem C02_outcome_classes : forall s t e, reach s ->
  (k_done (tasks s t) = Some (OCanc e) -> is_cancel e = true) /\
  (k_done (tasks s t) = Some (OExc e) -> is_cancel e = false).
Proof. exact outcome_classes. Qed.
Print Assumptions C02_outcome_classes.

Theorem C02_split_partitions_leaves : forall e : exn,
  let m := match fst (split_exn e) with Some x => leaves x | None => [] end in
  let r := match snd (split_exn e) with Some x => leaves x | None => [] end in
  Permutation (leaves e) (m ++ r) /\
  m = filter is_anyio_cancel (leaves e) /\
  r = filter (fun x => negb (is_anyio_cancel x)) (leaves e) /\
  (forall x, In x m -> is_anyio_cancel x = true) /\
  (forall x, In x r -> is_anyio_cancel x = false).
Proof. exact split_exn_partitions_leaves. Qed.
Print Assumptions C02_split_partitions_leaves.

(* under the `async with` discipline (GroupThms10.okop, see props/C01.v) every source tag occurs once: each member
   and the body contribute at most one exception.  False without it: GroupThms7.body_tag_not_unique_under_double_exit *)
Theorem C02_group_excs_nodup_tags : forall ops g, disciplined ops = true ->
  NoDup (map fst (g_excs (groups (final step init ops) g))).
Proof. exact group_excs_nodup_tags_ops. Qed.
Print Assumptions C02_group_excs_nodup_tags.

(* end to end under the discipline: the exceptions handed to the exception group by __aexit__ (map snd g_excs) are,
   up to order, the body exception (at most one, never a cancellation) plus the outcomes of the members `ms`;
   ms has no repetition, consists of members whose task_done ran with a non-cancellation exception, and contains
   every such member of the group unless its exception went to the start future of start() *)
Theorem C02_group_result_composition : forall ops g, disciplined ops = true ->
  let s := final step init ops in
  let L := g_excs (groups s g) in
  let body := map snd (filter (fun x => Nat.eqb (fst x) 0) L) in
  let ms := filter (fun x => negb (Nat.eqb x 0)) (map fst L) in
  let exn_of := fun t => match k_done (tasks s t) with Some (OExc e) => e | Some (OCanc e) => e | _ => ERuntime end in
  Permutation (map snd L) (body ++ map exn_of ms) /\
  Permutation (flat_map leaves (map snd L)) (flat_map leaves body ++ flat_map (fun t => leaves (exn_of t)) ms) /\
  length body <= 1 /\ (forall e, In e body -> is_cancel e = false) /\
  NoDup ms /\
  (forall t, In t ms -> k_group (tasks s t) = Some g /\ k_tdran (tasks s t) = true /\
                        exists e, k_done (tasks s t) = Some (OExc e) /\ is_cancel e = false) /\
  (forall t e, In t (g_ever (groups s g)) -> k_tdran (tasks s t) = true -> k_done (tasks s t) = Some (OExc e) ->
     In t ms \/ exists f, k_startfut (tasks s t) = Some f /\ f_st (futs s f) = FExc e).
Proof. exact group_result_composition_ops. Qed.
Print Assumptions C02_group_result_composition.
