(* C05 — leaving a cancel scope leaves no residue in the task or the loop.
   This file contains only statements closed by `exact` and their Print Assumptions. *)
From AV Require Import Base Machine ScopeFrames PotentialThms.

Theorem C05_scope_exit_guarded : forall s c t exc,
  ~ (s_active (scopes s c) = true /\ s_host (scopes s c) = Some t /\ k_cur (tasks s t) = Some c) ->
  scope_exit s c t exc = (s, XRaise ERuntime).
Proof. exact scope_exit_guarded. Qed.
Print Assumptions C05_scope_exit_guarded.

Theorem C05_scope_ptr_restored : forall s c t exc,
  s_active (scopes s c) = true -> s_host (scopes s c) = Some t -> k_cur (tasks s t) = Some c ->
  let s' := fst (scope_exit s c t exc) in
  k_cur (tasks s' t) = s_parent (scopes s c) /\
  s_host (scopes s' c) = None /\ s_active (scopes s' c) = false /\ s_timeout (scopes s' c) = None /\
  (forall p, s_parent (scopes s c) = Some p ->
     ~ In c (s_children (scopes s' p)) /\ In t (s_tasks (scopes s' p))) /\
  (s_parent (scopes s c) <> Some c -> ~ In t (s_tasks (scopes s' c))) /\
  (forall tm, s_timeout (scopes s c) = Some tm ->
     (forall x, In x (timers s') -> tm_id x <> tm) /\
     (forall h, In h (ready s') -> is_timer_handle tm h = false)).
Proof. exact scope_ptr_restored. Qed.
Print Assumptions C05_scope_ptr_restored.
